#!/usr/bin/env python3
"""Sensitivity runner: applies each mutant of mutants/mutants.json to a scratch copy of /repo,
confirms the repository's own tests of the touched packages still pass there (otherwise the
mutant is one the suite already catches), runs ./check <property> against the copy and requires
exit 1 (kind "break") or exit 0 (kind "refactor": behaviour-preserving, false-alarm side).

  tools/mutants.py [--only REGEX] [--jobs N] [--tier quick] [--no-suite] [--file FILE] [--append]
Writes mutants/RESULTS.md (a full run rewrites it; --append adds the rows of a partial run, replacing rows of
the same mutants).
"""
import json, os, re, shutil, subprocess, sys, tempfile, time
from concurrent.futures import ThreadPoolExecutor
ROOT = os.path.dirname(os.path.dirname(os.path.abspath(__file__)))
TC = "/root/go/pkg/mod/golang.org/toolchain@v0.0.1-go1.24.0.linux-amd64/bin"

def goenv():
    e = dict(os.environ); e["GOFLAGS"] = "-mod=mod"; e["GOPROXY"] = "off"; e.pop("GOSUMDB", None)
    if os.path.isdir(TC):
        e["PATH"] = TC + os.pathsep + e["PATH"]; e["GOTOOLCHAIN"] = "local"
    return e

def run_mutant(m, tier, suite):
    d = tempfile.mkdtemp(prefix="verif-mut-")
    try:
        subprocess.run(["rsync", "-a", "--exclude", ".git", "/repo/", d + "/"], check=True)
        for ed in m["edits"]:
            p = os.path.join(d, ed["file"])
            s = open(p).read()
            n = s.count(ed["old"])
            want = ed.get("count", 1)
            if n != want:
                return dict(m=m, status="STALE", detail="%s: pattern occurs %d times, expected %d" % (ed["file"], n, want))
            s = s.replace(ed["old"], ed["new"])
            open(p, "w").write(s)
        env = goenv()
        suite_ok = None
        if suite and m.get("tests"):
            r = subprocess.run(["go", "test", "-count=1", "-vet=off"] + m["tests"].split(), cwd=d, env=env,
                               stdout=subprocess.PIPE, stderr=subprocess.STDOUT, text=True)
            suite_ok = r.returncode == 0
            if r.returncode != 0 and "build failed" in r.stdout:
                return dict(m=m, status="NOBUILD", detail=r.stdout[-600:])
        env["VERIF_REPO"] = d
        env["VERIF_SEED"] = os.environ.get("VERIF_SEED", "1")
        t0 = time.time()
        r = subprocess.run([os.path.join(ROOT, "check"), m["property"], "--tier", tier] + (["--only", m["only"]] if m.get("only") else []),
                           cwd=ROOT, env=env, stdout=subprocess.PIPE, stderr=subprocess.STDOUT, text=True)
        want = 1 if m.get("kind", "break") == "break" else 0
        ok = r.returncode == want
        if m.get("expect") == "missed":
            # a documented open gap (DESIGN.md section 9.3): the break is real, the check is known not to see it
            lines = [l for l in r.stdout.splitlines() if l.startswith(("VIOLATION", "  unlisted", "INFRA"))]
            return dict(m=m, status="OPEN-GAP" if r.returncode == 0 else "OK" if r.returncode == 1 else "INFRA", rc=r.returncode,
                        suite_ok=suite_ok, wall=round(time.time() - t0, 1), detail="\n".join(lines[:4]))
        lines = [l for l in r.stdout.splitlines() if l.startswith(("VIOLATION", "  unlisted", "INFRA"))]
        return dict(m=m, status="OK" if ok else "MISSED" if want == 1 else "FALSE-ALARM", rc=r.returncode,
                    suite_ok=suite_ok, wall=round(time.time() - t0, 1), detail="\n".join(lines[:4]))
    finally:
        shutil.rmtree(d, ignore_errors=True)

def main():
    a = sys.argv[1:]
    only = None; jobs = 4; tier = "quick"; suite = True; mfile = os.path.join(ROOT, "mutants", "mutants.json"); append = False
    i = 0
    while i < len(a):
        if a[i] == "--only": only = a[i+1]; i += 2
        elif a[i] == "--jobs": jobs = int(a[i+1]); i += 2
        elif a[i] == "--tier": tier = a[i+1]; i += 2
        elif a[i] == "--no-suite": suite = False; i += 1
        elif a[i] == "--file": mfile = a[i+1]; i += 2
        elif a[i] == "--append": append = True; i += 1
        else: raise SystemExit("bad arg " + a[i])
    ms = json.load(open(mfile))
    if only:
        ms = [m for m in ms if re.search(only, m["id"])]
    with ThreadPoolExecutor(max_workers=jobs) as ex:
        res = list(ex.map(lambda m: run_mutant(m, tier, suite), ms))
    bad = 0
    out = ["| mutant | property | kind | what | repo suite | check rc | verdict | s |", "|---|---|---|---|---|---|---|---|"]
    for r in res:
        m = r["m"]
        if r["status"] not in ("OK", "OPEN-GAP"): bad += 1
        print("%-34s %-4s %-12s rc=%s suite_ok=%s %ss  %s" % (m["id"], m["property"], r["status"], r.get("rc"), r.get("suite_ok"), r.get("wall"), (r.get("detail") or "").split("\n")[0][:150]))
        out.append("| %s | %s | %s | %s | %s | %s | %s | %s |" % (m["id"], m["property"], m.get("kind", "break"), m["what"],
                   {True: "passes", False: "FAILS (suite already catches it)", None: "n/a"}[r.get("suite_ok")], r.get("rc"), r["status"], r.get("wall")))
    if not only and mfile.endswith("mutants/mutants.json"):
        open(os.path.join(ROOT, "mutants", "RESULTS.md"), "w").write("# Sensitivity results (tools/mutants.py, tier %s)\n\n" % tier + "\n".join(out) + "\n")
    elif append:
        rp = os.path.join(ROOT, "mutants", "RESULTS.md")
        mine = {r["m"]["id"] for r in res}
        keep = [l for l in open(rp).read().splitlines() if not (l.startswith("| ") and l.split("|")[1].strip() in mine)]
        open(rp, "w").write("\n".join(keep + out[2:]) + "\n")
    print("%d mutants, %d not as expected" % (len(res), bad))
    sys.exit(1 if bad else 0)

if __name__ == "__main__":
    main()
