#!/usr/bin/env python3
"""Regenerates /verif/MANIFEST.json from tools/checks.json (one entry per claimed property)."""
import json, os
ROOT = os.path.dirname(os.path.dirname(os.path.abspath(__file__)))
spec = json.load(open(os.path.join(ROOT, "tools", "checks.json")))
props = [json.loads(l) for l in open(os.path.join(ROOT, "properties.jsonl"))]
ids = [p["id"] for p in props]
checks = []
for pid in ids:
    c = spec["checks"].get(pid)
    if not c:
        continue
    checks.append({
        "property_id": pid,
        "quick_cmd": "./check %s --tier quick" % pid,
        "thorough_cmd": "./check %s --tier thorough" % pid,
        "evidence_file": "/verif/evidence/%s.json" % pid,
        "replay_cmd_template": "./check %s --replay {path}" % pid,
        "engine": c.get("engine", "rapid+enumerators"),
        "level_claimed": {"category": c.get("category", "exploration"), "text": c["text"], "design_ref": c.get("design_ref", "DESIGN.md §3 " + pid)},
        "level_note": c["note"],
        "technique": c["technique"],
    })
na = [{"property_id": pid, "reason": spec.get("not_applicable", {}).get(pid, "check not built yet in this session; no claim is made")}
      for pid in ids if pid not in spec["checks"]]
m = {
    "version": 1,
    "setup_cmd": spec["setup_cmd"],
    "hooks": spec["hooks"],
    "engines": spec["engines"],
    "checks": checks,
    "notes": spec["notes"],
    "not_applicable": na,
}
json.dump(m, open(os.path.join(ROOT, "MANIFEST.json"), "w"), indent=1)
print("MANIFEST.json: %d checks, %d not claimed" % (len(checks), len(na)))
