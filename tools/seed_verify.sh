#!/bin/bash
# tools/seed_verify.sh <ID> <demo-package-dir> [check-id] [name]
# Confirms a seeded change produced by an independent sub-agent in /tmp/seed/<ID> (worktree with the
# change applied, deliverables in /tmp/seed/<ID>.out): suite green with it, demo fails with it and
# passes without it; then runs ./check against the changed worktree and files everything under seeded/.
set -u
ID=$1; DIR=$2; CHK=${3:-$ID}; NAME=${4:-$ID}
W=/tmp/seed/$ID; O=/tmp/seed/$ID.out
ROOT=$(cd "$(dirname "$0")/.." && pwd)
export GOFLAGS=-mod=mod GOPROXY=off
cd $W || exit 2
git diff > /tmp/seed/$ID.patch
[ -s /tmp/seed/$ID.patch ] || { echo "no change in worktree"; exit 2; }
DEMO=$(ls $O/*_test.go 2>/dev/null | head -1)
[ -n "$DEMO" ] || { echo "no demo test"; exit 2; }
TAGS=""; grep -q "tags verif" $DEMO $O/notes.md 2>/dev/null && TAGS="-tags verif"
echo "--- suite with the change"; go build ./... && go test -count=1 ./... 2>&1 | grep -v "^ok\|no test files" | head -5; SUITE=${PIPESTATUS[0]}
go test -count=1 ./... >/dev/null 2>&1; SUITE=$?
cp $DEMO $W/$DIR/zz_seed_demo_test.go
echo "--- demo with the change (expect FAIL)"; go test $TAGS -count=1 -run 'Demo' ./$DIR/ >/tmp/seed/$ID.with.log 2>&1; WITH=$?; tail -3 /tmp/seed/$ID.with.log
rm $W/$DIR/zz_seed_demo_test.go
git stash -q
cp $DEMO $W/$DIR/zz_seed_demo_test.go
echo "--- demo without the change (expect ok)"; go test $TAGS -count=1 -run 'Demo' ./$DIR/ >/tmp/seed/$ID.without.log 2>&1; WITHOUT=$?; tail -2 /tmp/seed/$ID.without.log
rm $W/$DIR/zz_seed_demo_test.go
git stash pop -q
echo "suite_rc=$SUITE demo_with_rc=$WITH demo_without_rc=$WITHOUT"
cd $ROOT
VERIF_REPO=$W ./check $CHK > /tmp/seed/$ID.check.log 2>&1; CRC=$?
grep -E "unlisted|VIOLATION|INFRA" /tmp/seed/$ID.check.log | head -4
echo "check_rc=$CRC"
if [ $SUITE -eq 0 ] && [ $WITH -ne 0 ] && [ $WITHOUT -eq 0 ]; then
  mkdir -p seeded/$NAME
  cp /tmp/seed/$ID.patch seeded/$NAME/patch.diff
  cp $DEMO seeded/$NAME/$(basename $DEMO)
  cp $O/notes.md seeded/$NAME/notes.md 2>/dev/null
  python3 - "$NAME" "$CHK" "$DIR" "$CRC" "$TAGS" <<'PY'
import json,sys,subprocess
name,chk,d,crc,tags=sys.argv[1:6]
log=open('/tmp/seed/%s.check.log'%name.split('-')[0] if False else '/tmp/seed/%s.check.log'%sys.argv[1].split('_')[0]).read() if False else ""
PY
  python3 - "$ID" "$NAME" "$CHK" "$DIR" "$CRC" "$TAGS" <<'PY'
import json,sys
ID,name,chk,d,crc,tags=sys.argv[1:7]
log=open('/tmp/seed/%s.check.log'%ID).read()
caught=[l.strip() for l in log.splitlines() if l.startswith('  unlisted')][:3]
notes=open('/tmp/seed/%s.out/notes.md'%ID).read() if True else ''
meta={"property":chk,"origin":"independent sub-agent given only the property text and a scratch worktree",
 "needs_to_manifest":"see notes.md (written by the sub-agent)",
 "confirmed":{"existing_suite_with_change":"go test -count=1 ./... -> pass","demo_with_change":"go test %s -run Demo ./%s/ -> FAIL"%(tags,d),"demo_without_change":"same command -> ok"},
 "demo_package_dir":d,
 "check_command":"VERIF_REPO=<worktree with patch.diff applied> ./check %s   (or: git -C /repo apply seeded/%s/patch.diff; ./check %s; git -C /repo checkout -- .)"%(chk,name,chk),
 "check_exit_code":int(crc),"detected":int(crc)==1,"caught_by":caught}
json.dump(meta,open('/verif/seeded/%s/meta.json'%name,'w'),indent=1)
print("filed seeded/%s detected=%s"%(name,int(crc)==1))
PY
else
  echo "NOT CONFIRMED: not filed"
fi
