#!/bin/bash
# [SEED_OUT=/tmp/seed2] tools/seed_verify.sh <ID> <demo-package-dir|auto> [check-id] [name]
# Confirms a seeded change produced by an independent sub-agent (deliverables in /tmp/seed/<ID>.out:
# patch.diff, a *_test.go demonstration, notes.md) on a fresh scratch copy of /repo (no git state is
# shared with the agents): suite green with the change, demo fails with it and passes without it; then
# runs ./check against the changed copy and files everything under seeded/<name>/.
set -u
ID=$1; DIR=$2; CHK=${3:-$ID}; NAME=${4:-$ID}
O=${SEED_OUT:-/tmp/seed}/$ID.out
W=/tmp/seedv/$ID
mkdir -p /tmp/seedv
ROOT=$(cd "$(dirname "$0")/.." && pwd)
export GOFLAGS=-mod=mod GOPROXY=off
[ -s $O/patch.diff ] || { echo "no patch.diff"; exit 2; }
DEMO=$(ls $O/*_test.go 2>/dev/null | head -1)
[ -n "$DEMO" ] || { echo "no demo test"; exit 2; }
[ "$DIR" = auto ] && DIR=$(python3 -c 'import re,sys; m=re.search(r"^DEMO_DIR:\s*(\S+)", open(sys.argv[1]).read(), re.M); print(m.group(1).strip(chr(96)).removeprefix("./").rstrip("/") if m else "")' $O/notes.md)
[ -d /repo/$DIR ] || { echo "bad demo dir '$DIR'"; exit 2; }
rm -rf $W; mkdir -p $W; rsync -a --exclude .git /repo/ $W/
cd $W
git apply --whitespace=nowarn $O/patch.diff || { echo "patch does not apply"; rm -rf $W; exit 2; }
TAGS=""; grep -q "tags verif" $DEMO $O/notes.md 2>/dev/null && TAGS="-tags verif"
RACE=""; grep -q -- "-race" $DEMO $O/notes.md 2>/dev/null && RACE="-race"
go build ./... && go test -count=1 ./... >/tmp/seedv/$ID.suite.log 2>&1; SUITE=$?
cp $DEMO $W/$DIR/zz_seed_demo_test.go
go test $TAGS $RACE -count=1 -run 'Demo' ./$DIR/ >/tmp/seedv/$ID.with.log 2>&1; WITH=$?
git apply -R --whitespace=nowarn $O/patch.diff
go test $TAGS $RACE -count=1 -run 'Demo' ./$DIR/ >/tmp/seedv/$ID.without.log 2>&1; WITHOUT=$?
rm $W/$DIR/zz_seed_demo_test.go
git apply --whitespace=nowarn $O/patch.diff
echo "suite_rc=$SUITE demo_with_rc=$WITH demo_without_rc=$WITHOUT"
[ $WITHOUT -ne 0 ] && tail -5 /tmp/seedv/$ID.without.log
cd $ROOT
VERIF_REPO=$W ./check $CHK > /tmp/seedv/$ID.check.log 2>&1; CRC=$?
grep -E "unlisted|VIOLATION|INFRA" /tmp/seedv/$ID.check.log | head -4
echo "check_rc=$CRC"
if [ $SUITE -eq 0 ] && [ $WITH -ne 0 ] && [ $WITHOUT -eq 0 ]; then
  mkdir -p seeded/$NAME
  cp $O/patch.diff seeded/$NAME/patch.diff
  cp $DEMO seeded/$NAME/$(basename $DEMO)
  cp $O/notes.md seeded/$NAME/notes.md 2>/dev/null
  python3 - "$ID" "$NAME" "$CHK" "$DIR" "$CRC" "$TAGS $RACE" <<'PY'
import json,sys
ID,name,chk,d,crc,tags=sys.argv[1:7]
log=open('/tmp/seedv/%s.check.log'%ID).read()
caught=[l.strip()[:400] for l in log.splitlines() if l.startswith('  unlisted')][:3]
meta={"property":chk,"origin":"independent sub-agent given only the property text and a scratch worktree",
 "needs_to_manifest":"see notes.md (written by the sub-agent)",
 "confirmed":{"how":"tools/seed_verify.sh on a fresh scratch copy of /repo","existing_suite_with_change":"go test -count=1 ./... -> pass","demo_with_change":"go test %s -run Demo ./%s/ -> FAIL"%(tags.strip(),d),"demo_without_change":"same command -> ok"},
 "demo_package_dir":d,
 "check_command":"git -C /repo apply /verif/seeded/%s/patch.diff; ./check %s; git -C /repo checkout -- .   (the script used VERIF_REPO=<scratch copy>)"%(name,chk),
 "check_exit_code":int(crc),"detected":int(crc)==1,"caught_by":caught}
try:
    old=json.load(open('/verif/seeded/%s/meta.json'%name))
    for k,v in old.items():
        if k not in meta: meta[k]=v   # notes added by hand (missed_at_first, obsolete_*) survive a re-verification
except Exception: pass
json.dump(meta,open('/verif/seeded/%s/meta.json'%name,'w'),indent=1)
print("filed seeded/%s detected=%s"%(name,int(crc)==1))
PY
else
  echo "NOT CONFIRMED: not filed"
fi
rm -rf $W
