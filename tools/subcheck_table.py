#!/usr/bin/env python3
"""Rewrites the table of DESIGN.md section 3b from evidence/*.json (sub-check names and quick-tier evaluations)."""
import json, glob, os, re
ROOT = os.path.dirname(os.path.dirname(os.path.abspath(__file__)))
rows = ["| property | sub-checks (as built; read from the evidence files of the last quick run at seed 1: name (cases evaluated)) |", "|----------|-----------|"]
tot = 0
for f in sorted(glob.glob(os.path.join(ROOT, "evidence", "C*.json"))):
    e = json.load(open(f)); sc = e["coverage"].get("subchecks", {})
    tot += len(sc)
    rows.append("| %s | %s |" % (e["property_id"], ", ".join("`%s` (%s)" % (k, format(v.get("evaluations", 0), ",")) for k, v in sorted(sc.items()))))
p = os.path.join(ROOT, "DESIGN.md"); s = open(p).read()
a = s.index("| property | sub-checks (as built"); b = s.index("\n\n", a)
open(p, "w").write(s[:a] + "\n".join(rows) + s[b:])
print(len(rows) - 2, "properties,", tot, "sub-checks")
