#!/bin/bash
# tools/seed_reverify.sh [name ...]  – re-confirms filed seeded changes against the current /repo and checks
# (fresh scratch copy each; updates seeded/<name>/meta.json). Default: all of seeded/C*.
cd "$(dirname "$0")/.."
names=("$@"); [ ${#names[@]} -eq 0 ] && names=($(ls seeded | grep '^C'))
rm -rf /tmp/seedre; mkdir -p /tmp/seedre
for n in "${names[@]}"; do
  ln -s "$PWD/seeded/$n" /tmp/seedre/$n.out
  prop=$(python3 -c "import json;print(json.load(open('seeded/$n/meta.json'))['property'])")
  dir=$(python3 -c "import json;print(json.load(open('seeded/$n/meta.json'))['demo_package_dir'])")
  echo "== $n ($prop, $dir)"
  SEED_OUT=/tmp/seedre tools/seed_verify.sh $n $dir $prop $n 2>&1 | grep -E "suite_rc|check_rc|filed|NOT CONFIRMED|does not apply" | tr '\n' ' '; echo
done
rm -rf /tmp/seedre /tmp/seedv
python3 tools/seeded_table.py
