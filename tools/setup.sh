#!/bin/sh
# Warm the Go build cache for the harness (offline; everything comes from the module cache).
set -e
cd "$(dirname "$0")/../harness"
export GOFLAGS=-mod=mod GOPROXY=off
unset GOSUMDB
TC=/root/go/pkg/mod/golang.org/toolchain@v0.0.1-go1.24.0.linux-amd64/bin
if [ -d "$TC" ]; then PATH="$TC:$PATH"; export GOTOOLCHAIN=local; else export GOTOOLCHAIN=auto; fi
go build ./...
go vet ./vf/ ./ref/... >/dev/null 2>&1 || true
go test -count=1 ./ref/... 
for d in c??; do
  [ -d "$d" ] || continue
  go test -c -tags verif -vet=off -o /dev/null ./$d/ || exit 1
done
echo setup ok
