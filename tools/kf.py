#!/usr/bin/env python3
"""Maintains known_findings.json by hand-invoked commands (never at check run time).
  tools/kf.py add <property> <check[,check2]> <subject> <kind> <group> <status> <what> [--input TEXT] [--fixed-in COMMIT]
"""
import json, os, sys
ROOT = os.path.dirname(os.path.dirname(os.path.abspath(__file__)))
P = os.path.join(ROOT, "known_findings.json")
def main():
    a = sys.argv[1:]
    if a[0] != "add": raise SystemExit(__doc__)
    prop, checks, subject, kind, group, status, what = a[1:8]
    inp = None; fixed = None
    rest = a[8:]
    while rest:
        if rest[0] == "--input": inp = rest[1]
        elif rest[0] == "--fixed-in": fixed = rest[1]
        rest = rest[2:]
    d = json.load(open(P))
    for check in checks.split(","):
        n = 1 + sum(1 for f in d["findings"] if f["property"] == prop)
        if any(f for f in d["findings"] if (f["property"], f["check"], f["subject"], f["kind"]) == (prop, check, subject, kind)):
            print("exists:", check, subject, kind); continue
        e = {"id": "KF-%s-%03d" % (prop, n), "property": prop, "check": check, "subject": subject, "kind": kind,
             "status": status, "group": group, "what": what, "input": inp, "fixed_in": fixed}
        d["findings"].append(e)
        print("added", e["id"])
    json.dump(d, open(P + ".tmp", "w"), indent=1, ensure_ascii=False); os.replace(P + ".tmp", P)
main()
