#!/usr/bin/env python3
"""Writes seeded/README.md: one row per seeded change (title from notes.md, what caught it)."""
import json, glob, os, re
ROOT = os.path.dirname(os.path.dirname(os.path.abspath(__file__)))
rows = []
for d in sorted(glob.glob(os.path.join(ROOT, "seeded", "C*"))):
    m = json.load(open(os.path.join(d, "meta.json")))
    notes = open(os.path.join(d, "notes.md")).read() if os.path.exists(os.path.join(d, "notes.md")) else ""
    title = next((l.lstrip("# ").strip() for l in notes.splitlines() if l.strip()), "")
    title = re.sub(r"^C\d\d\s*(seed(ed)?( change| defect)?)?\s*[:\-–—]*\s*", "", title, flags=re.I)
    if title.lower().strip(" -–—") in ("notes", ""):
        body = [l.strip() for l in notes.splitlines() if l.strip() and not l.startswith("#")]
        title = " ".join(body[:2])
    subs = sorted({re.search(r"check=(\S+)", c).group(1) for c in m.get("caught_by", []) if "check=" in c})
    kinds = sorted({re.search(r"kind=([^:]+)", c).group(1)[:60] for c in m.get("caught_by", []) if "kind=" in c})
    rows.append("| %s | %s | %s | %s | %s |" % (os.path.basename(d), m["property"], title.replace("|", "/")[:140],
                ("obsolete (was detected)" if m.get("obsolete_since") else "yes" if m["detected"] else "no - " + m["not_demanded"][:160] if m.get("not_demanded") else "**no**"), ", ".join("`%s`" % s for s in subs) + (" — " + "; ".join(kinds) if kinds else "") + ((" · refactor.diff: check stays silent" if m.get("refactor_stays_silent") else " · refactor.diff: **ALARM**") if "refactor_stays_silent" in m else "")))
out = ["# Seeded changes", "",
       "Each directory holds a change written by an independent sub-agent that saw only the property text and a scratch",
       "worktree of the library (nothing from /verif): `patch.diff`, its demonstration test, its `notes.md`, and `meta.json`",
       "with what `tools/seed_verify.sh` confirmed on a fresh copy (suite green with the change, demonstration fails with it",
       "and passes without it) and which sub-checks reported it. `-2` = second round (asked for a different function and",
       "mechanism than the first); `-10` directories also hold `refactor.diff`, a property-preserving rewrite by the same sub-agent",
       "on which the check must stay silent. Patches apply to the /repo commit current when they were filed; see meta.json.", "",
       "| dir | property | change | detected | by |", "|---|---|---|---|---|"] + rows
open(os.path.join(ROOT, "seeded", "README.md"), "w").write("\n".join(out) + "\n")
print(len(rows), "rows")
