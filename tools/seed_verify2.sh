#!/bin/bash
# [SEED_OUT=/tmp/seed10] tools/seed_verify2.sh <ID> <name>
# Round-10 form: the sub-agent delivers patchA.diff (breaking change), patchB.diff (property-preserving rewrite
# that looks risky), a demonstration and notes.md. Confirms on fresh scratch copies: suite green with A and with B,
# demonstration fails with A and passes unchanged and with B; then runs ./check against both copies (A must be
# reported, B must not) and files everything under seeded/<name>/ (patch.diff = A, refactor.diff = B).
set -u
ID=$1; NAME=$2
O=${SEED_OUT:-/tmp/seed10}/$ID.out
ROOT=$(cd "$(dirname "$0")/.." && pwd)
export GOFLAGS=-mod=mod GOPROXY=off
[ -s $O/patchA.diff ] && [ -s $O/patchB.diff ] || { echo "patches missing"; exit 2; }
DEMO=$(ls $O/*_test.go 2>/dev/null | head -1); [ -n "$DEMO" ] || { echo "no demo"; exit 2; }
DIR=$(python3 -c 'import re,sys; m=re.search(r"^DEMO_DIR:\s*(\S+)", open(sys.argv[1]).read(), re.M); print(m.group(1).strip(chr(96)).removeprefix("./").rstrip("/") if m else "")' $O/notes.md)
[ -d /repo/$DIR ] || { echo "bad demo dir '$DIR'"; exit 2; }
RACE=""; grep -q -- "-race" $DEMO $O/notes.md 2>/dev/null && RACE="-race"
mkdir -p /tmp/seedv2
run() { # $1 = A|B
  W=/tmp/seedv2/$ID.$1; rm -rf $W; mkdir -p $W; rsync -a --exclude .git /repo/ $W/
  (cd $W && git apply --whitespace=nowarn $O/patch$1.diff) || { echo "patch$1 does not apply"; return 9; }
  (cd $W && go build ./... && go test -count=1 ./... > /tmp/seedv2/$ID.$1.suite.log 2>&1); echo "suite_$1=$?"
  cp $DEMO $W/$DIR/zz_seed_demo_test.go
  (cd $W && go test $RACE -count=1 -run Demo ./$DIR/ > /tmp/seedv2/$ID.$1.demo.log 2>&1); echo "demo_$1=$?"
  rm $W/$DIR/zz_seed_demo_test.go
  (cd $ROOT && VERIF_REPO=$W ./check $ID > /tmp/seedv2/$ID.$1.check.log 2>&1); echo "check_$1=$?"
  grep -E "unlisted|INFRA" /tmp/seedv2/$ID.$1.check.log | head -3 | cut -c1-260
  rm -rf $W
}
W0=/tmp/seedv2/$ID.0; rm -rf $W0; mkdir -p $W0; rsync -a --exclude .git /repo/ $W0/; cp $DEMO $W0/$DIR/zz_seed_demo_test.go
(cd $W0 && go test $RACE -count=1 -run Demo ./$DIR/ > /tmp/seedv2/$ID.0.demo.log 2>&1); echo "demo_unchanged=$?"; rm -rf $W0
run A > /tmp/seedv2/$ID.A.out 2>&1; cat /tmp/seedv2/$ID.A.out
run B > /tmp/seedv2/$ID.B.out 2>&1; cat /tmp/seedv2/$ID.B.out
mkdir -p $ROOT/seeded/$NAME
cp $O/patchA.diff $ROOT/seeded/$NAME/patch.diff; cp $O/patchB.diff $ROOT/seeded/$NAME/refactor.diff; cp $DEMO $ROOT/seeded/$NAME/; cp $O/notes.md $ROOT/seeded/$NAME/
python3 - "$ID" "$NAME" "$DIR" <<'PY'
import json,sys,re
ID,name,d=sys.argv[1:4]
def val(f,k):
    m=re.search(r"^%s=(\d+)"%k, open(f).read(), re.M); return int(m.group(1)) if m else None
A='/tmp/seedv2/%s.A.out'%ID; B='/tmp/seedv2/%s.B.out'%ID
caught=[l.strip()[:400] for l in open(A) if l.startswith('  unlisted')][:3]
alarm=[l.strip()[:400] for l in open(B) if l.startswith('  unlisted')][:3]
meta={"property":ID,"origin":"independent sub-agent given only the property text and a scratch worktree (round 10: a breaking change and a property-preserving rewrite)",
 "needs_to_manifest":"see notes.md (written by the sub-agent)","demo_package_dir":d,
 "confirmed":{"how":"tools/seed_verify2.sh on fresh scratch copies of /repo","suite_with_A":val(A,'suite_A'),"demo_with_A":val(A,'demo_A'),"suite_with_B":val(B,'suite_B'),"demo_with_B":val(B,'demo_B')},
 "check_exit_code":val(A,'check_A'),"detected":val(A,'check_A')==1,"caught_by":caught,
 "refactor_check_exit_code":val(B,'check_B'),"refactor_stays_silent":val(B,'check_B')==0,"refactor_alarm":alarm}
json.dump(meta,open('/verif/seeded/%s/meta.json'%name,'w'),indent=1)
print("filed seeded/%s detected=%s refactor_silent=%s"%(name,meta['detected'],meta['refactor_stays_silent']))
PY
