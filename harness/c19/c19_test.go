// Package c19: flag words decompose faithfully and every named constant has a unique name.
package c19

import (
	"fmt"
	"go/ast"
	"go/constant"
	"go/parser"
	"go/token"
	"go/types"
	"math/bits"
	"os"
	"path/filepath"
	"reflect"
	"regexp"
	"sort"
	"strings"
	"testing"

	"pgregory.net/rapid"

	"github.com/TheManticoreProject/Manticore/network/ldap/ldap_attributes"
	"github.com/TheManticoreProject/Manticore/network/netbios"
	"github.com/TheManticoreProject/Manticore/network/smb/smb_v10/capabilities"
	"github.com/TheManticoreProject/Manticore/network/smb/smb_v10/message/commands/codes"
	"github.com/TheManticoreProject/Manticore/network/smb/smb_v10/message/header/flags"
	"github.com/TheManticoreProject/Manticore/network/smb/smb_v10/message/header/flags2"
	"github.com/TheManticoreProject/Manticore/network/smb/smb_v10/securitymode"
	"github.com/TheManticoreProject/Manticore/network/smb/smb_v10/subcommands"
	"github.com/TheManticoreProject/Manticore/windows/keycredential/key"
	"github.com/TheManticoreProject/Manticore/windows/nt_status"

	"manticoreverif/vf"
)

const P = "C19"

// ---- flag-word types ----------------------------------------------------------------

type flagType struct {
	Name   string
	Width  int                           // bits
	Str    func(w uint64) string         // String(), for types that print their decomposition as one string
	Names  func(w uint64) []string       // decomposition into names, for types that fill a list (neither: type has no decomposition)
	Reuse  func(prev, w uint64) []string // decomposition of w by a receiver that decomposed prev before (types whose decomposition fills the receiver)
	Flags  func(w uint64) []uint64       // GetFlags, if the type has one
	Value  func(w uint64) reflect.Value  // for predicates by reflection (invalid: none)
	Empty  []string                      // what the decomposition of 0 looks like
	Dir    string                        // where the bit constants are declared (relative to the repository root) ...
	Type   string                        // ... as constants of this Go type
	Prefix string                        // ... or as constants with this identifier prefix
	Seeds  []uint64                      // well-known composite words (32-bit types)
}

func splitNames(s string, sep string) []string {
	if s == "" {
		return nil
	}
	if sep == "" {
		return []string{s}
	}
	return strings.Split(s, sep)
}

// hasNames: the type decomposes a word into names (a joined string or a list)
func (ft *flagType) hasNames() bool { return ft.Str != nil || ft.Names != nil }

// decompose returns the names of a word. A type that prints them as one string joins them in a format of its own
// choice (a separator, possibly a constant prefix and suffix around the list), which is learned from the type
// (templateOf), never assumed.
func (ft *flagType) decompose(w uint64) []string {
	if ft.Str != nil {
		ti, _ := templateOf(ft)
		s := ft.Str(w)
		if ti.substr {
			return ti.find(s)
		}
		if ti.pre+ti.suf != "" && len(s) >= len(ti.pre)+len(ti.suf) && strings.HasPrefix(s, ti.pre) && strings.HasSuffix(s, ti.suf) {
			s = s[len(ti.pre) : len(s)-len(ti.suf)]
		}
		return splitNames(s, ti.sep)
	}
	return ft.Names(w)
}

// sepInfo is the format a String-printing flag type joins its names in: pre + name sep name ... + suf.
type sepInfo struct {
	pre, sep, suf string
	substr        bool     // no such format fits the two-bit words: names are looked up as substrings instead
	singles       []string // substr: what the named single bits print, longest first
	problems      []vf.Finding
}

// find returns the single-bit texts that occur in s (longest first, each occurrence consumed, so that a name that
// is part of a longer one is not found inside it).
func (si *sepInfo) find(s string) []string {
	var out []string
	for _, n := range si.singles {
		if i := strings.Index(s, n); i >= 0 {
			out = append(out, n)
			s = s[:i] + "\x00" + s[i+len(n):]
		}
	}
	return out
}

var sepCache = map[string]*sepInfo{}

// templateOf learns the format of a String-printing flag type from its one-bit and two-bit words. The property
// fixes no format; what the check needs is to read the names back. Candidates: a prefix and a suffix that all
// one-bit words share (none, or any leading / trailing part of what they have in common); with name(x) the one-bit
// word of x without them, a two-bit word fits a candidate if it is pre + name(a) + sep + name(b) + suf (either
// order) for some sep. The candidate and separator most two-bit words agree on are the type's (on a tie the
// shorter prefix+suffix, then the shorter separator). A type whose two-bit words fit no such format at all is read
// by looking for the one-bit words as substrings.
func templateOf(ft *flagType) (*sepInfo, []vf.Finding) {
	if si, ok := sepCache[ft.Name]; ok {
		return si, si.problems
	}
	si := &sepInfo{}
	sepCache[ft.Name] = si
	zero := ft.Str(0)
	single := map[int]string{}
	lcp, lcs, shortest := "", "", -1
	for b := 0; b < ft.Width; b++ {
		n := ft.Str(1 << uint(b))
		if n == "" || n == zero {
			continue
		}
		single[b] = n
		if shortest < 0 {
			lcp, lcs, shortest = n, n, len(n)
			continue
		}
		if len(n) < shortest {
			shortest = len(n)
		}
		for !strings.HasPrefix(n, lcp) {
			lcp = lcp[:len(lcp)-1]
		}
		for !strings.HasSuffix(n, lcs) {
			lcs = lcs[1:]
		}
	}
	two := map[[2]int]string{}
	for a := 0; a < ft.Width; a++ {
		for b := a + 1; b < ft.Width; b++ {
			if single[a] != "" && single[b] != "" {
				two[[2]int{a, b}] = ft.Str(1<<uint(a) | 1<<uint(b))
			}
		}
	}
	best, bestWrap := -1, 0
	for i := 0; i <= len(lcp); i++ {
		for j := 0; j <= len(lcs) && i+j < shortest; j++ {
			pre, suf := lcp[:i], lcs[len(lcs)-j:]
			votes := map[string]int{}
			for ab, t := range two {
				na, nb := single[ab[0]], single[ab[1]]
				na, nb = na[i:len(na)-j], nb[i:len(nb)-j]
				if len(t) < i+j+len(na)+len(nb) || !strings.HasPrefix(t, pre) || !strings.HasSuffix(t, suf) {
					continue
				}
				in := t[i : len(t)-j]
				for _, o := range [][2]string{{na, nb}, {nb, na}} {
					if strings.HasPrefix(in, o[0]) && strings.HasSuffix(in, o[1]) {
						votes[in[len(o[0]):len(in)-len(o[1])]]++
						break
					}
				}
			}
			for sep, n := range votes {
				better := n > best || n == best && (i+j < bestWrap || i+j == bestWrap && (len(sep) < len(si.sep) || len(sep) == len(si.sep) && sep < si.sep))
				if better {
					best, bestWrap = n, i+j
					si.pre, si.sep, si.suf = pre, sep, suf
				}
			}
		}
	}
	switch {
	case len(two) == 0:
		// fewer than two named bits: nothing to split
	case best < 0:
		si.substr = true
		for _, n := range single {
			si.singles = append(si.singles, n)
		}
		sort.Slice(si.singles, func(i, j int) bool {
			if len(si.singles[i]) != len(si.singles[j]) {
				return len(si.singles[i]) > len(si.singles[j])
			}
			return si.singles[i] < si.singles[j]
		})
	case si.sep == "":
		si.problems = append(si.problems, vf.F(ft.Name, "names-joined-without-separator", "words of two named bits print the two names with nothing between them: the decomposition cannot be read back"))
	}
	return si, si.problems
}

var flagTypes = []flagType{
	{Name: "flags.Flags", Width: 16, Dir: "network/smb/smb_v10/message/header/flags", Prefix: "FLAGS_",
		Str:   func(w uint64) string { return flags.Flags(w).String() },
		Value: func(w uint64) reflect.Value { return reflect.ValueOf(flags.Flags(w)) }},
	{Name: "flags2.Flags2", Width: 16, Dir: "network/smb/smb_v10/message/header/flags2", Prefix: "FLAGS2_",
		Str:   func(w uint64) string { return flags2.Flags2(w).String() },
		Value: func(w uint64) reflect.Value { return reflect.ValueOf(flags2.Flags2(w)) }},
	{Name: "capabilities.Capabilities", Width: 32, Dir: "network/smb/smb_v10/capabilities", Type: "Capabilities",
		// capability words servers and clients commonly negotiate (NT LM 0.12 servers with and without extended
		// security, Unix extensions, large read/write; typical client words)
		Seeds: []uint64{0x0000F3FD, 0x0000E3FD, 0x0000F3FC, 0x0000E3FC, 0x8000F3FD, 0x8000E3FD, 0x8000F3FC, 0x8000E3FC, 0x8001F3FD, 0x8001F3FC, 0x8001E3FC,
			0x0001F3FD, 0x0001E3FC, 0x0080F3FD, 0x8080F3FD, 0x000000D4, 0x000003DC, 0x800000D4, 0xA00000D4, 0x0000805C, 0x000043FD, 0x8000C3FD, 0x0000031D, 0xC000F3FD, 0xE000F3FD},
		Str:   func(w uint64) string { return capabilities.Capabilities(w).String() },
		Value: func(w uint64) reflect.Value { return reflect.ValueOf(capabilities.Capabilities(w)) }},
	{Name: "securitymode.SecurityMode", Width: 8, Dir: "network/smb/smb_v10/securitymode", Type: "SecurityMode",
		Value: func(w uint64) reflect.Value { return reflect.ValueOf(securitymode.SecurityMode(w)) }},
	{Name: "ldap_attributes.UserAccountControl", Width: 32, Dir: "network/ldap/ldap_attributes", Type: "UserAccountControl",
		// the userAccountControl values found on ordinary accounts: user, disabled user, password not required,
		// password never expires, workstation, domain controller, trust, delegation, smart card, pre-auth off ...
		Seeds: []uint64{512, 514, 544, 546, 66048, 66050, 66080, 66082, 4096, 4098, 4128, 4130, 69632, 532480, 528384, 8192, 83890176, 2080, 2050, 2048,
			590336, 262656, 262658, 328192, 1049088, 1114624, 2097664, 2163200, 4194816, 4260352, 8389120, 16777728, 16843264, 528416, 16781312, 67117056, 16, 528, 530, 640, 8388608 + 512},
		Str: func(w uint64) string { return ldap_attributes.UserAccountControl(w).String() },
		Flags: func(w uint64) []uint64 {
			var out []uint64
			for _, f := range ldap_attributes.UserAccountControl(w).GetFlags() {
				out = append(out, uint64(f))
			}
			return out
		},
		Value: func(w uint64) reflect.Value { return reflect.ValueOf(ldap_attributes.UserAccountControl(w)) }},
	{Name: "key.CustomKeyInformationFlags", Width: 8, Dir: "windows/keycredential/key", Prefix: "CustomKeyInformationFlags_",
		Reuse: func(prev, w uint64) []string {
			var f key.CustomKeyInformationFlags
			f.FromBytes(byte(prev))
			f.FromBytes(byte(w))
			if f.Value != byte(w) {
				return []string{fmt.Sprintf("<<Value %d>>", f.Value)}
			}
			return append([]string{}, f.Name...)
		},
		Names: func(w uint64) []string {
			var f key.CustomKeyInformationFlags
			f.FromBytes(byte(w))
			if f.Value != byte(w) {
				return []string{fmt.Sprintf("<<Value %d>>", f.Value)}
			}
			return append([]string{}, f.Name...)
		}},
}

type wordCase struct {
	Type string `json:"type"`
	Word uint64 `json:"word"`
}

func typeByName(n string) *flagType {
	for i := range flagTypes {
		if flagTypes[i].Name == n {
			return &flagTypes[i]
		}
	}
	return nil
}

// bitNames learns, per type, name(b) = decomposition of 1<<b, and the
// placeholder = decomposition of 0. A bit is "named" when its single-bit
// decomposition differs from the placeholder.
type bitInfo struct {
	names    map[int]string
	empty    []string
	problems []vf.Finding
}

var bitCache = map[string]*bitInfo{}

func bitNames(ft *flagType) (map[int]string, []string, []vf.Finding) {
	if bi, ok := bitCache[ft.Name]; ok {
		return bi.names, bi.empty, append([]vf.Finding{}, bi.problems...)
	}
	n, e, p := bitNamesUncached(ft)
	bitCache[ft.Name] = &bitInfo{n, e, p}
	return n, e, append([]vf.Finding{}, p...)
}

func bitNamesUncached(ft *flagType) (names map[int]string, empty []string, problems []vf.Finding) {
	names = map[int]string{}
	if ft.Str != nil {
		_, problems = templateOf(ft)
		problems = append([]vf.Finding{}, problems...)
	}
	empty = ft.decompose(0)
	for b := 0; b < ft.Width; b++ {
		d := ft.decompose(1 << uint(b))
		if reflect.DeepEqual(d, empty) || len(d) == 0 {
			continue
		}
		if len(d) != 1 {
			problems = append(problems, vf.F(ft.Name, "single-bit-yields-several-names", "bit %d: %v", b, d))
			continue
		}
		names[b] = d[0]
	}
	for a := 0; a < ft.Width; a++ {
		for b := a + 1; b < ft.Width; b++ {
			if na, ok := names[a]; ok && na == names[b] {
				problems = append(problems, vf.F(ft.Name, "two-bits-share-a-name", "bits %d and %d are both %q", a, b, na))
			}
		}
	}
	return
}

func checkDecompose(c wordCase) []vf.Finding {
	ft := typeByName(c.Type)
	if ft == nil || !ft.hasNames() {
		return nil
	}
	names, empty, fs := bitNames(ft)
	got := ft.decompose(c.Word)
	var want []string
	for b := 0; b < ft.Width; b++ {
		if c.Word&(1<<uint(b)) != 0 {
			if n, ok := names[b]; ok {
				want = append(want, n)
			}
		}
	}
	if len(want) == 0 {
		if !reflect.DeepEqual(got, empty) {
			fs = append(fs, vf.F(ft.Name, "no-named-bit-but-names-returned", "word %#x: got %v, placeholder %v", c.Word, got, empty))
		}
	} else {
		g := append([]string{}, got...)
		w := append([]string{}, want...)
		sort.Strings(g)
		sort.Strings(w)
		if !reflect.DeepEqual(g, w) {
			fs = append(fs, vf.F(ft.Name, "decomposition-not-the-set-bits", "word %#x: got %v want (as a set) %v", c.Word, got, want))
		}
	}
	// deterministic: repeated calls give the same sequence
	for i := 0; i < 20; i++ {
		if again := ft.decompose(c.Word); !reflect.DeepEqual(again, got) {
			fs = append(fs, vf.F(ft.Name, "order-not-deterministic", "word %#x: %v then %v", c.Word, got, again))
			break
		}
	}
	// a receiver that decomposed another word before gives the same decomposition
	if ft.Reuse != nil {
		mask := uint64(1)<<uint(ft.Width) - 1
		for _, prev := range []uint64{0, mask, ^c.Word & mask, (c.Word - 1) & mask, (c.Word << 1) & mask} {
			if again := ft.Reuse(prev, c.Word); !reflect.DeepEqual(again, got) {
				fs = append(fs, vf.F(ft.Name, "reused-receiver-decomposes-differently", "word %#x after word %#x in the same receiver: %v, in a fresh one: %v", c.Word, prev, again, got))
				break
			}
		}
	}
	if ft.Flags != nil {
		gf := ft.Flags(c.Word)
		var wf []uint64
		for b := 0; b < ft.Width; b++ {
			if c.Word&(1<<uint(b)) != 0 {
				if _, ok := names[b]; ok {
					wf = append(wf, 1<<uint(b))
				}
			}
		}
		// the named set bits, each once, in whatever order ...
		sorted := append([]uint64{}, gf...)
		sort.Slice(sorted, func(i, j int) bool { return sorted[i] < sorted[j] })
		if !(len(gf) == 0 && len(wf) == 0) && !reflect.DeepEqual(sorted, wf) {
			fs = append(fs, vf.F(ft.Name+".GetFlags", "flags-not-the-named-set-bits", "word %#x: got %v want (as a set, each once) %v", c.Word, gf, wf))
		}
		// ... as long as the order is deterministic: repeated calls give the same sequence
		for i := 0; i < 20; i++ {
			if again := ft.Flags(c.Word); !(len(again) == 0 && len(gf) == 0) && !reflect.DeepEqual(again, gf) {
				fs = append(fs, vf.F(ft.Name+".GetFlags", "order-not-deterministic", "word %#x: %v then %v", c.Word, gf, again))
				break
			}
		}
	}
	return fs
}

// predicates: every niladic bool method depends on exactly one bit
func predicateNames(ft *flagType) []string {
	if ft.Value == nil {
		return nil
	}
	v := ft.Value(0)
	var out []string
	for i := 0; i < v.NumMethod(); i++ {
		m := v.Type().Method(i)
		if m.Type.NumIn() == 1 && m.Type.NumOut() == 1 && m.Type.Out(0).Kind() == reflect.Bool {
			out = append(out, m.Name)
		}
	}
	return out
}

func callPred(ft *flagType, name string, w uint64) bool {
	return ft.Value(w).MethodByName(name).Call(nil)[0].Bool()
}

var predCache = map[string]map[string][]int{}

func predBits(ft *flagType) map[string][]int {
	if m, ok := predCache[ft.Name]; ok {
		return m
	}
	m := map[string][]int{}
	for _, p := range predicateNames(ft) {
		base := callPred(ft, p, 0)
		dep := []int{}
		for b := 0; b < ft.Width; b++ {
			if callPred(ft, p, 1<<uint(b)) != base {
				dep = append(dep, b)
			}
		}
		m[p] = dep
	}
	predCache[ft.Name] = m
	return m
}

func checkPredicates(c wordCase) []vf.Finding {
	ft := typeByName(c.Type)
	var fs []vf.Finding
	pb := predBits(ft)
	for _, p := range predicateNames(ft) {
		dep := pb[p]
		if len(dep) != 1 {
			fs = append(fs, vf.F(ft.Name+"."+p, "predicate-not-a-single-bit-test", "flips on bits %v", dep))
			continue
		}
		bit := uint64(1) << uint(dep[0])
		if got, want := callPred(ft, p, c.Word), callPred(ft, p, c.Word&bit); got != want {
			fs = append(fs, vf.F(ft.Name+"."+p, "predicate-depends-on-other-bits", "word %#x: %v, but on its own bit %#x alone: %v", c.Word, got, bit, want))
		}
	}
	return fs
}

func checkWord(c wordCase) []vf.Finding {
	return append(checkDecompose(c), checkPredicates(c)...)
}

func wordNontrivial(c wordCase) bool { return bits.OnesCount64(c.Word) >= 2 }

func TestFlagWordsExhaustive(t *testing.T) {
	s := vf.Begin(t, P, "flagwords-exhaustive")
	s.SetExhaustive()
	s.Note("all 8-bit and 16-bit words of flags.Flags, flags2.Flags2, securitymode.SecurityMode, key.CustomKeyInformationFlags")
	vf.Enum(s, func(yield func(wordCase)) {
		for _, ft := range flagTypes {
			if ft.Width > 16 {
				continue
			}
			for w := uint64(0); w < 1<<uint(ft.Width); w++ {
				yield(wordCase{ft.Name, w})
			}
		}
	}, checkWord, wordNontrivial)
}

func TestFlagWords32Structured(t *testing.T) {
	s := vf.Begin(t, P, "flagwords32-structured")
	s.SetExhaustive()
	s.Note("32-bit types: zero, every single bit, every pair of bits, every complement of a single bit, all-ones, every set of 3 and of 4 named bits, and the well-known composite words of the type (userAccountControl values of ordinary accounts, commonly negotiated capability words)")
	vf.Enum(s, func(yield0 func(wordCase)) {
		for i := range flagTypes {
			ft := &flagTypes[i]
			if ft.Width != 32 {
				continue
			}
			seen := map[uint64]bool{}
			yield := func(w uint64) {
				if !seen[w] {
					seen[w] = true
					yield0(wordCase{ft.Name, w})
				}
			}
			yield(0)
			yield(0xFFFFFFFF)
			for a := 0; a < 32; a++ {
				yield(1 << uint(a))
				yield(0xFFFFFFFF &^ (1 << uint(a)))
				for b := a + 1; b < 32; b++ {
					yield(1<<uint(a) | 1<<uint(b))
				}
			}
			names, _, _ := bitNames(ft)
			var named []uint
			for b := 0; b < 32; b++ {
				if _, ok := names[b]; ok {
					named = append(named, uint(b))
				}
			}
			for i := 0; i < len(named); i++ {
				for j := i + 1; j < len(named); j++ {
					for k := j + 1; k < len(named); k++ {
						w3 := uint64(1)<<named[i] | 1<<named[j] | 1<<named[k]
						yield(w3)
						for l := k + 1; l < len(named); l++ {
							yield(w3 | 1<<named[l])
						}
					}
				}
			}
			for _, w := range ft.Seeds {
				yield(w & 0xFFFFFFFF)
			}
		}
	}, checkWord, wordNontrivial)
}

func TestFlagWords32Random(t *testing.T) {
	s := vf.Begin(t, P, "flagwords32-random")
	vf.Rapid(s, vf.N(40000, 1000000), func(t *rapid.T) wordCase {
		n := rapid.SampledFrom([]string{"capabilities.Capabilities", "ldap_attributes.UserAccountControl"}).Draw(t, "type")
		if seeds := typeByName(n).Seeds; rapid.IntRange(0, 3).Draw(t, "aroundSeed") == 0 {
			// a well-known composite word with up to three bits flipped
			w := rapid.SampledFrom(seeds).Draw(t, "seed")
			for i, k := 0, rapid.IntRange(0, 3).Draw(t, "flips"); i < k; i++ {
				w ^= 1 << uint(rapid.IntRange(0, 31).Draw(t, "bit"))
			}
			return wordCase{n, w & 0xFFFFFFFF}
		}
		return wordCase{n, uint64(rapid.Uint32().Draw(t, "w"))}
	}, checkWord, wordNontrivial)
}

// ---- constants enumerated from the source of the tree under test ------------------------------

type constFamily struct {
	Name    string
	Dir     string // relative to the repository root
	Type    string // Go type name of the constants, or ""
	Prefix  string // identifier prefix when the constants are not of a distinct type
	GoType  string // with Prefix: the Go type (integer type or structure) the constants belong to
	Str     func(v uint64) string
	After   func(prev, v uint64) string // name of v from a receiver that decoded prev before (types whose decoding fills the receiver)
	MinDecl int
	Bits    int // width of the underlying integer type
}

func repoRoot() string {
	if r := os.Getenv("VERIF_REPO"); r != "" {
		return r
	}
	return "/repo"
}

func le32(v uint64) []byte { return []byte{byte(v), byte(v >> 8), byte(v >> 16), byte(v >> 24)} }

var families = []constFamily{
	{Name: "codes.CommandCode", Dir: "network/smb/smb_v10/message/commands/codes", Type: "CommandCode", Str: func(v uint64) string { return codes.CommandCode(v).String() }, MinDecl: 70, Bits: 8},
	{Name: "subcommands.NtTransactSubcommand", Dir: "network/smb/smb_v10/subcommands", Type: "NtTransactSubcommand", Str: func(v uint64) string { return subcommands.NtTransactSubcommand(v).String() }, MinDecl: 5, Bits: 16},
	{Name: "subcommands.Transaction2Subcommand", Dir: "network/smb/smb_v10/subcommands", Type: "Transaction2Subcommand", Str: func(v uint64) string { return subcommands.Transaction2Subcommand(v).String() }, MinDecl: 10, Bits: 16},
	{Name: "subcommands.TransactionSubcommand", Dir: "network/smb/smb_v10/subcommands", Type: "TransactionSubcommand", Str: func(v uint64) string { return subcommands.TransactionSubcommand(v).String() }, MinDecl: 8, Bits: 16},
	{Name: "netbios.SESSION_MESSAGE_TYPE", Dir: "network/netbios", Type: "SESSION_MESSAGE_TYPE", Str: func(v uint64) string { return netbios.SESSION_MESSAGE_TYPE(v).String() }, MinDecl: 6, Bits: 8},
	{Name: "nt_status.NT_STATUS", Dir: "windows/nt_status", Type: "NT_STATUS", Str: func(v uint64) string { return nt_status.NT_STATUS(v).String() }, MinDecl: 1500, Bits: 32},
	{Name: "key.KeyUsage", Dir: "windows/keycredential/key", Prefix: "KeyUsage_", GoType: "KeyUsage", Str: func(v uint64) string { k := key.KeyUsage{Value: uint8(v)}; return k.String() },
		After: func(prev, v uint64) string {
			var k key.KeyUsage
			k.FromBytes(byte(prev))
			k.FromBytes(byte(v))
			return k.String()
		}, MinDecl: 8, Bits: 8},
	{Name: "key.KeySource", Dir: "windows/keycredential/key", Type: "KeySource", Str: func(v uint64) string { return key.KeySource(v).String() }, MinDecl: 2, Bits: 32},
	{Name: "key.KeyCredentialEntryType", Dir: "windows/keycredential/key", Prefix: "KeyCredentialEntryType_", GoType: "KeyCredentialEntryType", Str: func(v uint64) string { k := key.KeyCredentialEntryType{Value: uint8(v)}; return k.String() },
		After: func(prev, v uint64) string {
			var k key.KeyCredentialEntryType
			k.FromBytes(byte(prev))
			k.FromBytes(byte(v))
			return k.String()
		}, MinDecl: 9, Bits: 8},
	{Name: "key.KeyCredentialVersion", Dir: "windows/keycredential/key", Prefix: "KeyCredentialVersion_", GoType: "KeyCredentialVersion", Str: func(v uint64) string { k := key.KeyCredentialVersion{Value: uint32(v)}; return k.String() },
		After: func(prev, v uint64) string {
			var k key.KeyCredentialVersion
			k.FromBytes(le32(prev))
			k.FromBytes(le32(v))
			return k.String()
		}, MinDecl: 3, Bits: 32},
	{Name: "key.CustomKeyInformationVolumeType", Dir: "windows/keycredential/key", Prefix: "CustomKeyInformationVolumeType_", GoType: "CustomKeyInformationVolumeType", Str: func(v uint64) string { k := key.CustomKeyInformationVolumeType{Value: uint8(v)}; return k.String() },
		After: func(prev, v uint64) string {
			var k key.CustomKeyInformationVolumeType
			k.FromBytes(byte(prev))
			k.FromBytes(byte(v))
			return k.String()
		}, MinDecl: 4, Bits: 8},
	// KeyStrength has no String method: its name is the Name field FromBytes fills
	{Name: "key.KeyStrength", Dir: "windows/keycredential/key", Prefix: "KeyStrength_", GoType: "KeyStrength", Str: func(v uint64) string { var k key.KeyStrength; k.FromBytes(le32(v)); return k.Name },
		After: func(prev, v uint64) string {
			var k key.KeyStrength
			k.FromBytes(le32(prev))
			k.FromBytes(le32(v))
			return k.Name
		}, MinDecl: 3, Bits: 32},
	{Name: "ldap_attributes.SAMAccountType", Dir: "network/ldap/ldap_attributes", Prefix: "SAM_", GoType: "SAMAccountType", Str: func(v uint64) string { return ldap_attributes.SAMAccountType(v).String() }, MinDecl: 8, Bits: 32},
	{Name: "ldap_attributes.DomainFunctionalityLevel", Dir: "network/ldap/ldap_attributes", Type: "DomainFunctionalityLevel", Str: func(v uint64) string { return ldap_attributes.DomainFunctionalityLevel(v).String() }, MinDecl: 8, Bits: 8},
	{Name: "ldap_attributes.MSPKIEnrollmentFlag", Dir: "network/ldap/ldap_attributes", Prefix: "MSPKI_ENROLLMENT_FLAG_", GoType: "MSPKIEnrollmentFlag", Str: func(v uint64) string { return ldap_attributes.MSPKIEnrollmentFlag(v).String() }, MinDecl: 8, Bits: 32},
	{Name: "ldap_attributes.PasswordProperties", Dir: "network/ldap/ldap_attributes", Type: "PasswordProperties", Str: func(v uint64) string { return ldap_attributes.PasswordProperties(v).String() }, MinDecl: 6, Bits: 32},
}

// the package directories the property anchors (non-recursive)
var anchoredDirs = []string{
	"network/ldap/ldap_attributes",
	"network/smb/smb_v10/message/header/flags",
	"network/smb/smb_v10/message/header/flags2",
	"network/smb/smb_v10/capabilities",
	"network/smb/smb_v10/securitymode",
	"network/smb/smb_v10/message/commands/codes",
	"network/smb/smb_v10/subcommands",
	"windows/nt_status",
	"windows/keycredential/key",
	"network/netbios",
}

// declConst is an EXPORTED integer constant of a package directory. Type is the name of its declared type: a named
// type of the package ("NT_STATUS"), a predeclared one ("uint8"; byte counts as uint8), or "" for an untyped constant.
type declConst struct {
	Ident string
	Value uint64
	Type  string
}

type nullImporter struct{}

func (nullImporter) Import(path string) (*types.Package, error) {
	return types.NewPackage(path, filepath.Base(path)), nil
}

// pkgDecl is what the source of one package directory of the tree under test declares.
type pkgDecl struct {
	pkgName    string
	byType     map[string][]declConst // exported integer constants by the name of their declared (named) type
	all        []declConst            // every exported integer constant
	intTypes   map[string]bool        // named types with an integer underlying type
	structs    map[string]bool        // named structure types
	valueField map[string]string      // structure type -> predeclared integer type of its field "Value", if it has one
	methods    map[string]map[string]bool
	constIdent map[string]bool   // identifiers of the exported integer constants
	aliasOf    map[string]string // alias type name -> name of the named type of this package it stands for
}

// resolve returns the name of the named type a type name of the package stands for (itself, unless it is an alias).
func (pd *pkgDecl) resolve(typ string) string {
	if t, ok := pd.aliasOf[typ]; ok {
		return t
	}
	return typ
}

var declCache = map[string]*pkgDecl{}

// declared parses the package directory of the tree under test and returns
// its integer constants with their declared type names, its types and their methods.
func declared(dir string) (*pkgDecl, error) {
	if d, ok := declCache[dir]; ok {
		return d, nil
	}
	fset := token.NewFileSet()
	pkgs, err := parser.ParseDir(fset, filepath.Join(repoRoot(), dir), func(fi os.FileInfo) bool { return !strings.HasSuffix(fi.Name(), "_test.go") }, 0)
	if err != nil {
		return nil, err
	}
	pd := &pkgDecl{byType: map[string][]declConst{}, intTypes: map[string]bool{}, structs: map[string]bool{}, valueField: map[string]string{}, methods: map[string]map[string]bool{}, constIdent: map[string]bool{}, aliasOf: map[string]string{}}
	for _, pkg := range pkgs {
		var files []*ast.File
		names := make([]string, 0, len(pkg.Files))
		for n := range pkg.Files {
			names = append(names, n)
		}
		sort.Strings(names)
		for _, n := range names {
			files = append(files, pkg.Files[n])
		}
		for _, f := range files {
			for _, d := range f.Decls {
				fd, ok := d.(*ast.FuncDecl)
				if !ok || fd.Recv == nil || len(fd.Recv.List) != 1 {
					continue
				}
				rt := fd.Recv.List[0].Type
				if st, ok := rt.(*ast.StarExpr); ok {
					rt = st.X
				}
				if id, ok := rt.(*ast.Ident); ok {
					if pd.methods[id.Name] == nil {
						pd.methods[id.Name] = map[string]bool{}
					}
					pd.methods[id.Name][fd.Name.Name] = true
				}
			}
		}
		conf := types.Config{Importer: nullImporter{}, Error: func(error) {}}
		tp, _ := conf.Check(pkg.Name, fset, files, nil)
		if tp == nil {
			continue
		}
		pd.pkgName = pkg.Name
		sc := tp.Scope()
		for _, n := range sc.Names() {
			if tn, ok := sc.Lookup(n).(*types.TypeName); ok && tn.IsAlias() {
				// "type OLD_NAME = NewName": constants declared with either name have the named type NewName
				if nt, ok := types.Unalias(tn.Type()).(*types.Named); ok && nt.Obj().Pkg() == tp && nt.Obj().Name() != n {
					pd.aliasOf[n] = nt.Obj().Name()
				}
				continue
			}
			if tn, ok := sc.Lookup(n).(*types.TypeName); ok {
				switch u := tn.Type().Underlying().(type) {
				case *types.Basic:
					if u.Info()&types.IsInteger != 0 {
						pd.intTypes[n] = true
					}
				case *types.Struct:
					pd.structs[n] = true
					for i := 0; i < u.NumFields(); i++ {
						if b, ok := u.Field(i).Type().(*types.Basic); ok && u.Field(i).Name() == "Value" && b.Info()&types.IsInteger != 0 {
							pd.valueField[n] = types.Typ[b.Kind()].Name()
						}
					}
				}
				continue
			}
			c, ok := sc.Lookup(n).(*types.Const)
			if !ok || c.Val().Kind() != constant.Int {
				continue
			}
			if !c.Exported() {
				continue // a helper of the implementation (a mask, a size), not a member of any declared family
			}
			u, ok := constant.Uint64Val(c.Val())
			if !ok {
				if i, ok2 := constant.Int64Val(c.Val()); ok2 {
					u = uint64(i)
				} else {
					continue
				}
			}
			d := declConst{Ident: n, Value: u}
			switch ct := types.Unalias(c.Type()).(type) {
			case *types.Named:
				d.Type = ct.Obj().Name()
				pd.byType[d.Type] = append(pd.byType[d.Type], d)
			case *types.Basic:
				if ct.Info()&types.IsUntyped == 0 {
					d.Type = types.Typ[ct.Kind()].Name()
				}
			}
			pd.all = append(pd.all, d)
			pd.constIdent[n] = true
		}
	}
	declCache[dir] = pd
	return pd, nil
}

// constsOf returns the members of a family: the exported constants whose declared type is the family's named
// type typ. A family without a constant type of its own is defined by an identifier prefix: its members are the
// exported constants with that prefix; where the family's Go type goType is a structure that keeps the value in a
// field "Value" of a predeclared integer type, the constants are declared with that type (KeyUsage_NGC uint8) and
// only those are members - an untyped KeyCredentialVersion_Size = 4 is not a version.
func constsOf(dir, typ, prefix, goType string) ([]declConst, error) {
	pd, err := declared(dir)
	if err != nil {
		return nil, err
	}
	if typ != "" {
		return pd.byType[pd.resolve(typ)], nil
	}
	ctype := pd.valueField[goType]
	var out []declConst
	for _, d := range pd.all {
		if strings.HasPrefix(d.Ident, prefix) && (ctype == "" || d.Type == ctype) {
			out = append(out, d)
		}
	}
	return out, nil
}

func (f constFamily) consts() ([]declConst, error) {
	return constsOf(f.Dir, f.Type, f.Prefix, f.GoType)
}

// uncovered scans the anchored directories for exported types that map integer constants to names and are in
// neither inventory: a named integer type with a String method, or a structure with a String or FromBytes
// method and at least two exported integer constants named <Type>_... . The inventories are hand-written; the
// scan shows (as a note in the evidence) what they may lack. Unexported types are helpers of the implementation.
func uncovered() ([]string, error) {
	var missing []string
	for _, dir := range anchoredDirs {
		pd, err := declared(dir)
		if err != nil {
			return nil, err
		}
		covered := func(typ string) bool {
			for _, ft := range flagTypes {
				if ft.Dir == dir && ft.Name == pd.pkgName+"."+typ {
					return true
				}
			}
			for _, f := range families {
				if f.Dir == dir && (f.Type == typ || f.GoType == typ || f.Type != "" && pd.resolve(f.Type) == typ) {
					return true
				}
			}
			return false
		}
		var cands []string
		for t := range pd.intTypes {
			if ast.IsExported(t) && pd.methods[t]["String"] {
				cands = append(cands, t)
			}
		}
		for t := range pd.structs {
			if !ast.IsExported(t) || !pd.methods[t]["String"] && !pd.methods[t]["FromBytes"] {
				continue
			}
			n := 0
			for id := range pd.constIdent {
				if strings.HasPrefix(id, t+"_") {
					n++
				}
			}
			if n >= 2 {
				cands = append(cands, t)
			}
		}
		sort.Strings(cands)
		for _, t := range cands {
			if !covered(t) {
				missing = append(missing, dir+": "+t)
			}
		}
	}
	return missing, nil
}

// renderings of a value a name may embed: decimal (unsigned, and signed at the family's width), hexadecimal in
// lower and upper case, bare and zero-padded to 2, 4, 8, 16 digits, with and without 0x. Longest first.
func renderings(v uint64, bits int) []string {
	set := map[string]bool{fmt.Sprintf("%d", v): true}
	switch {
	case bits <= 8:
		set[fmt.Sprintf("%d", int8(v))] = true
	case bits <= 16:
		set[fmt.Sprintf("%d", int16(v))] = true
	case bits <= 32:
		set[fmt.Sprintf("%d", int32(v))] = true
	default:
		set[fmt.Sprintf("%d", int64(v))] = true
	}
	for _, w := range []int{0, 2, 4, 8, 16} {
		h := fmt.Sprintf("%0*x", w, v)
		set[h], set["0x"+h] = true, true
	}
	out := make([]string, 0, len(set))
	for r := range set {
		out = append(out, r)
	}
	sort.Slice(out, func(i, j int) bool {
		if len(out[i]) != len(out[j]) {
			return len(out[i]) > len(out[j])
		}
		return out[i] < out[j]
	})
	return out
}

// normValue lower-cases a name and replaces every rendering of its own value by a token, so that the names
// undeclared values get ("UNKNOWN", "Unknown version: 238", "UNKNOWN(0x000000ee)") become one string per family.
func normValue(name string, v uint64, bits int) string {
	s := strings.ToLower(name)
	for _, r := range renderings(v, bits) {
		s = strings.ReplaceAll(s, r, "\x00")
	}
	return s
}

var nonAlnum = regexp.MustCompile(`[^a-z0-9]+`)

// squash: lower case, letters and digits only
func squash(s string) string { return nonAlnum.ReplaceAllString(strings.ToLower(s), "") }

type constCase struct {
	Family string `json:"family"`
	Ident  string `json:"ident"`
	Value  uint64 `json:"value"`
}

var famCache = map[string]*famInfo{}

type famInfo struct {
	fam          *constFamily
	decl         []declConst
	placeholders map[string]bool // normValue of the names of undeclared probe values
	probes       []uint64        // undeclared values
	nameOf       map[uint64]string
	helpers      []string // exported constants of the family's type that are not members (see familyInfo)
}

func (fi *famInfo) isPlaceholder(name string, v uint64) bool {
	return fi.placeholders[normValue(name, v, fi.fam.Bits)]
}

// helperIdent: the identifier ends in MASK, FLAG, BITS or SHIFT as a word of its own (after an underscore, in any
// case: NT_STATUS_SEVERITY_MASK; or at a camel-case boundary: KeyUsageMask).
var helperIdent = regexp.MustCompile(`(?:_(?i:mask|flag|bits|shift)|[a-z0-9](?:Mask|Flag|Bits|Shift))$`)

func familyInfo(name string) (*famInfo, error) {
	if fi, ok := famCache[name]; ok {
		return fi, nil
	}
	for i := range families {
		f := &families[i]
		if f.Name != name {
			continue
		}
		decl, err := f.consts()
		if err != nil {
			return nil, err
		}
		fi := &famInfo{fam: f, decl: decl, placeholders: map[string]bool{}, nameOf: map[uint64]string{}}
		isDecl := map[uint64]bool{}
		for _, d := range decl {
			isDecl[d.Value] = true
			fi.nameOf[d.Value] = f.Str(d.Value)
		}
		// learn placeholders from values that are not declared
		for _, probe := range []uint64{0xEE, 0xED, 0xFB, 0x7B, 0xEEEE, 0xFFFE, 0xFEEDFACE, 0x7EEDFACE, 0xFFFFFFFE, 0xAB, 0x3B} {
			if probe >= uint64(1)<<uint(f.Bits) || isDecl[probe] {
				continue
			}
			fi.placeholders[normValue(f.Str(probe), probe, f.Bits)] = true
			fi.probes = append(fi.probes, probe)
		}
		if len(fi.probes) < 2 {
			return nil, fmt.Errorf("family %s: fewer than two undeclared probe values", name)
		}
		// An exported constant of the family's type named ..._MASK, ..._FLAG, ..._BITS or ..._SHIFT that has no name of
		// its own is a helper for taking values of the type apart (a mask of a bit field), not a member of the
		// family. One that has a name of its own (NT_STATUS_INVALID_EA_FLAG) is a member like any other.
		members := fi.decl[:0:0]
		for _, d := range fi.decl {
			if n := fi.nameOf[d.Value]; helperIdent.MatchString(d.Ident) && (strings.TrimSpace(n) == "" || fi.isPlaceholder(n, d.Value)) {
				fi.helpers = append(fi.helpers, d.Ident)
				continue
			}
			members = append(members, d)
		}
		if len(fi.helpers) > 0 {
			fi.decl, fi.nameOf = members, map[uint64]string{}
			for _, d := range members {
				fi.nameOf[d.Value] = f.Str(d.Value)
			}
		}
		famCache[name] = fi
		return fi, nil
	}
	return nil, fmt.Errorf("unknown family %s", name)
}

func checkConst(c constCase) []vf.Finding {
	fi, err := familyInfo(c.Family)
	if err != nil {
		return []vf.Finding{vf.F("harness", "cannot-parse-source", "%v", err)}
	}
	var fs []vf.Finding
	name := fi.fam.Str(c.Value)
	placeholder := fi.isPlaceholder(name, c.Value)
	if strings.TrimSpace(name) == "" {
		fs = append(fs, vf.F(c.Family, "constant-without-name", "%s = %#x has an empty name", c.Ident, c.Value))
	} else if placeholder && !(squash(name) != "" && strings.HasSuffix(squash(c.Ident), squash(name))) {
		// a constant may carry the name undeclared values get only if that is its own name: KeyX_None -> "None"
		fs = append(fs, vf.F(c.Family, "constant-maps-to-placeholder", "%s = %#x -> %q, which is what undeclared values get", c.Ident, c.Value, name))
	}
	for v, n := range fi.nameOf {
		if v != c.Value && n == name && !placeholder {
			fs = append(fs, vf.F(c.Family, "two-values-share-a-name", "%s = %#x and value %#x are both %q", c.Ident, c.Value, v, name))
			break
		}
	}
	// decoding into a receiver that decoded something else before gives the same name
	if fi.fam.After != nil {
		prevs := []uint64{fi.probes[0], fi.probes[1]}
		for i, d := range fi.decl {
			if d.Value == c.Value && d.Ident == c.Ident {
				prevs = append(prevs, fi.decl[(i+1)%len(fi.decl)].Value, fi.decl[(i+len(fi.decl)-1)%len(fi.decl)].Value)
			}
		}
		for _, prev := range prevs {
			if again := fi.fam.After(prev, c.Value); again != name {
				fs = append(fs, vf.F(c.Family, "reused-receiver-gives-another-name", "%s = %#x decoded after %#x in the same receiver: %q, in a fresh one: %q", c.Ident, c.Value, prev, again, name))
				break
			}
		}
	}
	if c.Family == "nt_status.NT_STATUS" {
		e := nt_status.NT_STATUS(c.Value).Error()
		if c.Value == 0 {
			if e != nil {
				fs = append(fs, vf.F("NT_STATUS.Error", "success-maps-to-error", "%v", e))
			}
		} else if e == nil {
			fs = append(fs, vf.F("NT_STATUS.Error", "non-success-status-without-error", "%s = %#08x -> nil", c.Ident, c.Value))
		} else {
			// the code in any of its usual renderings: hexadecimal (bare or zero-padded), unsigned decimal, or the
			// signed 32-bit decimal Windows tools print
			txt := strings.ToLower(e.Error())
			mentioned := false
			for _, r := range renderings(c.Value, 32) {
				mentioned = mentioned || strings.Contains(txt, r)
			}
			if !mentioned {
				fs = append(fs, vf.F("NT_STATUS.Error", "error-text-lacks-numeric-code", "%s = %#08x -> %q", c.Ident, c.Value, e.Error()))
			}
		}
	}
	return fs
}

func TestConstants(t *testing.T) {
	s := vf.Begin(t, P, "constants")
	s.SetExhaustive()
	if missing, err := uncovered(); err != nil {
		t.Fatalf("INFRA: %v", err)
	} else if len(missing) > 0 {
		// a new exported type is a legitimate change of the tree: it is recorded, it does not fail the run
		s.Note("NOT COVERED: exported types of the anchored directories that name integer constants but are in neither inventory (flagTypes, families) of this check: %v", missing)
	}
	lowByte := map[string]map[uint64]int{}
	vf.Enum(s, func(yield func(constCase)) {
		for _, f := range families {
			fi, err := familyInfo(f.Name)
			if err != nil {
				t.Fatalf("INFRA: %v", err)
			}
			if len(fi.decl) < f.MinDecl {
				// the family is no longer declared the way this check finds its members (a type renamed without an alias,
				// constants regrouped): that is a legitimate change of the tree; it is recorded, the family is skipped
				s.Note("NOT COVERED: family %s: only %d constants found in %s (expected >= %d): its cases are skipped", f.Name, len(fi.decl), f.Dir, f.MinDecl)
				continue
			}
			s.Note("%s: %d declared constants", f.Name, len(fi.decl))
			if len(fi.helpers) > 0 {
				s.Note("%s: exported constants of the type that are helpers, not members (named ..._MASK/_FLAG/_BITS/_SHIFT, no name of their own): %v", f.Name, fi.helpers)
			}
			lowByte[f.Name] = map[uint64]int{}
			for _, d := range fi.decl {
				lowByte[f.Name][d.Value&0xFF]++
			}
			for _, d := range fi.decl {
				yield(constCase{f.Name, d.Ident, d.Value})
			}
		}
	}, checkConst, func(c constCase) bool { return lowByte[c.Family][c.Value&0xFF] > 1 || c.Value > 0xFF })
}

// undeclared NT status values: String/Error must not crash; what they are called and what Error returns
// for them is not part of the property.
func TestNTStatusRandom(t *testing.T) {
	s := vf.Begin(t, P, "ntstatus-random")
	vf.Rapid(s, vf.N(20000, 300000), func(t *rapid.T) constCase {
		return constCase{"nt_status.NT_STATUS", "", uint64(rapid.Uint32().Draw(t, "v"))}
	}, func(c constCase) []vf.Finding {
		fi, _ := familyInfo(c.Family)
		if _, isDecl := fi.nameOf[c.Value]; isDecl {
			return checkConst(constCase{c.Family, "(declared)", c.Value})
		}
		_ = nt_status.NT_STATUS(c.Value).String()
		_ = nt_status.NT_STATUS(c.Value).Error()
		return nil
	}, func(c constCase) bool { return c.Value>>30 != 0 })
}

// ---- a label belongs to its own constant -------------------------------------------------------------------
//
// The name oracles above learn name(b) / name(v) from the code under test, so two labels that changed places
// satisfy them. The property asks for unique, non-placeholder names, not for names that resemble identifiers (a
// constant may well be labelled with another established name of its value), so only unambiguous evidence counts:
// a MUTUAL swap. Over the squashed forms (lower case, letters and digits only; the identifiers without the part
// they all share), with the length of the longest common substring as the measure of closeness: the label of A is
// strictly closer to the identifier of B than to A's own AND the label of B is strictly closer to the
// identifier of A than to B's own.

type labelCase struct {
	Family string `json:"family"`
	Ident  string `json:"ident"`
	Value  uint64 `json:"value"`
}

type labelFamily struct {
	name   string
	decl   []declConst
	short  map[string]string // identifier -> squashed identifier without the shared prefix
	label  func(v uint64) (string, bool)
	idents map[uint64][]string // a value may have several identifiers
}

var labelFamCache = map[string]*labelFamily{}

func lcsLen(a, b string) int {
	best := 0
	prev := make([]int, len(b)+1)
	cur := make([]int, len(b)+1)
	for i := 1; i <= len(a); i++ {
		for j := 1; j <= len(b); j++ {
			if a[i-1] == b[j-1] {
				cur[j] = prev[j-1] + 1
				if cur[j] > best {
					best = cur[j]
				}
			} else {
				cur[j] = 0
			}
		}
		prev, cur = cur, prev
	}
	return best
}

func newLabelFamily(name string, decl []declConst, label func(v uint64) (string, bool)) *labelFamily {
	lf := &labelFamily{name: name, decl: decl, short: map[string]string{}, label: label, idents: map[uint64][]string{}}
	// the shared prefix, cut back to the last underscore
	prefix := ""
	if len(decl) > 1 {
		prefix = decl[0].Ident
		for _, d := range decl[1:] {
			for !strings.HasPrefix(d.Ident, prefix) {
				prefix = prefix[:len(prefix)-1]
			}
		}
		prefix = prefix[:strings.LastIndex(prefix, "_")+1]
	}
	for _, d := range decl {
		lf.short[d.Ident] = squash(strings.TrimPrefix(d.Ident, prefix))
		lf.idents[d.Value] = append(lf.idents[d.Value], d.Ident)
	}
	return lf
}

func labelFamilyOf(name string) (*labelFamily, error) {
	if lf, ok := labelFamCache[name]; ok {
		return lf, nil
	}
	var lf *labelFamily
	if ft := typeByName(name); ft != nil {
		decl, err := constsOf(ft.Dir, ft.Type, ft.Prefix, ft.Name[strings.LastIndex(ft.Name, ".")+1:])
		if err != nil {
			return nil, err
		}
		names, _, _ := bitNames(ft)
		lf = newLabelFamily(name, decl, func(v uint64) (string, bool) {
			if bits.OnesCount64(v) != 1 {
				return "", false // masks and the zero constant have no label of their own
			}
			n, ok := names[bits.TrailingZeros64(v)]
			return n, ok
		})
	} else {
		fi, err := familyInfo(name)
		if err != nil {
			return nil, err
		}
		lf = newLabelFamily(name, fi.decl, func(v uint64) (string, bool) {
			n := fi.nameOf[v]
			return n, strings.TrimSpace(n) != "" && !fi.isPlaceholder(n, v)
		})
	}
	labelFamCache[name] = lf
	return lf, nil
}

// closeness of a (squashed) label to the identifiers of the constant(s) with value v: the longest common substring
// with any of them
func (lf *labelFamily) closeness(l string, v uint64) int {
	best := 0
	for _, id := range lf.idents[v] {
		if n := lcsLen(l, lf.short[id]); n > best {
			best = n
		}
	}
	return best
}

func checkLabel(c labelCase) []vf.Finding {
	lf, err := labelFamilyOf(c.Family)
	if err != nil {
		return []vf.Finding{vf.F("harness", "cannot-parse-source", "%v", err)}
	}
	label, ok := lf.label(c.Value)
	if !ok {
		return nil
	}
	l := squash(label)
	own := lf.closeness(l, c.Value)
	if own == len(l) {
		return nil // the whole label occurs in its own identifier: nothing can match better
	}
	for _, d := range lf.decl {
		if d.Value == c.Value {
			continue
		}
		other, labelled := lf.label(d.Value)
		if !labelled {
			continue
		}
		n := lcsLen(l, lf.short[d.Ident])
		if n <= own {
			continue
		}
		// this label is strictly closer to d's identifier than to its own: a swap only if d's label is, the other
		// way round, strictly closer to this constant's identifier than to d's own
		lo := squash(other)
		if back, ownOther := lf.closeness(lo, c.Value), lf.closeness(lo, d.Value); back > ownOther {
			return []vf.Finding{vf.F(c.Family+"."+c.Ident, "labels-swapped-with-another-constant", "%s = %#x is called %q, which matches %s better (%d characters in common) than its own identifier (%d), and %s is called %q, which matches %s better (%d) than its own (%d)", c.Ident, c.Value, label, d.Ident, n, own, d.Ident, other, c.Ident, back, ownOther)}
		}
	}
	return nil
}

func TestLabelsBelongToTheirConstants(t *testing.T) {
	s := vf.Begin(t, P, "labels-own-constant")
	s.SetExhaustive()
	size := map[string]int{}
	vf.Enum(s, func(yield func(labelCase)) {
		var fams []string
		for _, ft := range flagTypes {
			if ft.hasNames() {
				fams = append(fams, ft.Name)
			}
		}
		for _, f := range families {
			fams = append(fams, f.Name)
		}
		for _, name := range fams {
			lf, err := labelFamilyOf(name)
			if err != nil {
				t.Fatalf("INFRA: %v", err)
			}
			if len(lf.decl) < 2 {
				s.Note("NOT COVERED: %s: %d constants found in the source: its cases are skipped", name, len(lf.decl))
				continue
			}
			for _, d := range lf.decl {
				if _, ok := lf.label(d.Value); ok {
					size[name]++
				}
			}
			for _, d := range lf.decl {
				yield(labelCase{name, d.Ident, d.Value})
			}
		}
	}, checkLabel, func(c labelCase) bool {
		lf, _ := labelFamilyOf(c.Family)
		_, ok := lf.label(c.Value)
		return ok && size[c.Family] >= 2
	})
}

// ---- every declared flag has a name -----------------------------------------------------------------------------
//
// The decomposition oracle learns name(b) from the code under test, so a flag that lost its row in the name table
// simply counts as an unnamed bit. The property says the decomposition yields the named bits that are set; which
// bits are named is declared by the source: every exported single-bit constant of a flag family that decomposes
// into names is a named flag and must show up, under a name of its own (not empty, not what the zero word prints),
// in the decomposition of its own bit. Constants the source itself marks as reserved (RESERVED in the identifier)
// may be left without a name.

type flagConstCase struct {
	Type  string `json:"type"`
	Ident string `json:"ident"`
	Value uint64 `json:"value"`
}

func flagConsts(ft *flagType) ([]declConst, error) {
	return constsOf(ft.Dir, ft.Type, ft.Prefix, ft.Name[strings.LastIndex(ft.Name, ".")+1:])
}

func singleBit(ft *flagType, v uint64) bool {
	return bits.OnesCount64(v) == 1 && bits.TrailingZeros64(v) < ft.Width
}

func checkFlagConstNamed(c flagConstCase) []vf.Finding {
	ft := typeByName(c.Type)
	names, empty, _ := bitNames(ft)
	b := bits.TrailingZeros64(c.Value)
	if n, ok := names[b]; ok && strings.TrimSpace(n) != "" {
		return nil
	}
	return []vf.Finding{vf.F(c.Type+"."+c.Ident, "declared-flag-without-name", "%s = %#x is a declared flag, but the decomposition of the word %#x is %v (the zero word gives %v): the bit is not reported when set", c.Ident, c.Value, c.Value, ft.decompose(c.Value), empty)}
}

func TestDeclaredFlagsNamed(t *testing.T) {
	s := vf.Begin(t, P, "declared-flags-named")
	s.SetExhaustive()
	vf.Enum(s, func(yield func(flagConstCase)) {
		for i := range flagTypes {
			ft := &flagTypes[i]
			if !ft.hasNames() {
				continue
			}
			decl, err := flagConsts(ft)
			if err != nil {
				t.Fatalf("INFRA: %v", err)
			}
			n := 0
			for _, d := range decl {
				if singleBit(ft, d.Value) && !strings.Contains(strings.ToUpper(d.Ident), "RESERVED") {
					n++
					yield(flagConstCase{ft.Name, d.Ident, d.Value})
				}
			}
			s.Note("%s: %d exported single-bit constants not marked RESERVED", ft.Name, n)
		}
	}, checkFlagConstNamed, nil)
}

// ---- a predicate tests its own flag ------------------------------------------------------------------------------
//
// checkPredicates establishes that a predicate depends on one bit only, whichever bit that is. Which bit is "its
// own" is said by its name: IsOplock belongs to FLAGS_OPLOCK / "OPLOCK". Names are compared as in
// labels-own-constant (squashed forms, longest common substring), and as there only unambiguous evidence counts:
//   - two predicates are swapped: each is strictly closer to the flag the other one tests than to the one it tests
//     itself;
//   - a predicate tests another flag while its own has no predicate: it is named after a declared flag F that no
//     predicate tests (its name without the verb equals a name of F - identifier without the family prefix, or
//     label - or one contains the other and the shorter has at least 6 characters), it is strictly closer to F than
//     to the flag it tests, and no other predicate is closer to F than it is.
// A predicate under an unrelated name (SupportsChallengeResponseAuth for NEGOTIATE_ENCRYPT_PASSWORDS), or one named by
// the meaning of its flag that merely shares words with other flags' names (IsDomainController for
// SERVER_TRUST_ACCOUNT next to INTERDOMAIN_TRUST_ACCOUNT), meets neither.

type predCase struct {
	Type string `json:"type"`
	Pred string `json:"predicate"`
}

type predInfo struct {
	bit   map[string]int    // predicate -> the one bit it flips on (absent: not a single-bit test, judged elsewhere)
	short map[string]string // predicate -> squashed name without its verb
	flag  map[int][]string  // bit -> squashed names of the flag: its constants' identifiers (shared prefix removed), its label
	ident map[int]string    // bit -> an identifier, for messages
	users map[int][]string  // bit -> predicates testing it
	order []string          // predicates, sorted
}

var predInfoCache = map[string]*predInfo{}

var predVerb = regexp.MustCompile(`^(Is|Supports|Has|Can)([A-Z0-9])`)

func predInfoOf(ft *flagType) (*predInfo, error) {
	if pi, ok := predInfoCache[ft.Name]; ok {
		return pi, nil
	}
	decl, err := flagConsts(ft)
	if err != nil {
		return nil, err
	}
	pi := &predInfo{bit: map[string]int{}, short: map[string]string{}, flag: map[int][]string{}, ident: map[int]string{}, users: map[int][]string{}}
	var single []declConst
	for _, d := range decl {
		if singleBit(ft, d.Value) {
			single = append(single, d)
		}
	}
	lf := newLabelFamily(ft.Name, single, nil)
	for _, d := range single {
		b := bits.TrailingZeros64(d.Value)
		pi.flag[b] = append(pi.flag[b], lf.short[d.Ident])
		if pi.ident[b] == "" {
			pi.ident[b] = d.Ident
		}
	}
	if ft.hasNames() {
		names, _, _ := bitNames(ft)
		for b, n := range names {
			if len(pi.flag[b]) > 0 && squash(n) != "" {
				pi.flag[b] = append(pi.flag[b], squash(n))
			}
		}
	}
	pb := predBits(ft)
	for _, p := range predicateNames(ft) {
		pi.order = append(pi.order, p)
		pi.short[p] = squash(predVerb.ReplaceAllString(p, "$2"))
		if dep := pb[p]; len(dep) == 1 {
			pi.bit[p] = dep[0]
			pi.users[dep[0]] = append(pi.users[dep[0]], p)
		}
	}
	sort.Strings(pi.order)
	predInfoCache[ft.Name] = pi
	return pi, nil
}

// closeness of predicate p to the flag of bit b, and the length of the shortest flag name that reaches it
func (pi *predInfo) closeness(p string, b int) (best, nameLen int) {
	for _, n := range pi.flag[b] {
		if c := lcsLen(pi.short[p], n); c > best || c == best && c > 0 && len(n) < nameLen {
			best, nameLen = c, len(n)
		}
	}
	return
}

// namedAfter: predicate p carries the name of the flag of bit b as a whole: without its verb it equals one of the
// flag's names (identifier without the family prefix, or label), or one contains the other and the shorter of the
// two has at least 6 characters. A predicate named by meaning (IsDomainController for SERVER_TRUST_ACCOUNT) shares
// words with other flags' names (INTERDOMAIN_TRUST_ACCOUNT) without being named after any of them.
func (pi *predInfo) namedAfter(p string, b int) bool {
	x := pi.short[p]
	for _, n := range pi.flag[b] {
		if x == "" || n == "" {
			continue
		}
		if x == n {
			return true
		}
		if short := min(len(x), len(n)); short >= 6 && (strings.Contains(x, n) || strings.Contains(n, x)) {
			return true
		}
	}
	return false
}

func checkPredicateOwnBit(c predCase) []vf.Finding {
	ft := typeByName(c.Type)
	pi, err := predInfoOf(ft)
	if err != nil {
		return []vf.Finding{vf.F("harness", "cannot-parse-source", "%v", err)}
	}
	bp, ok := pi.bit[c.Pred]
	if !ok || len(pi.flag[bp]) == 0 {
		return nil // not a single-bit test (reported by the word checks), or it tests a bit no constant declares
	}
	own, _ := pi.closeness(c.Pred, bp)
	// swapped with another predicate
	for _, q := range pi.order {
		bq, ok := pi.bit[q]
		if !ok || q == c.Pred || bq == bp || len(pi.flag[bq]) == 0 {
			continue
		}
		there, _ := pi.closeness(c.Pred, bq)
		qOwn, _ := pi.closeness(q, bq)
		qHere, _ := pi.closeness(q, bp)
		if there > own && qHere > qOwn {
			return []vf.Finding{vf.F(c.Type+"."+c.Pred, "predicates-swapped", "%s tests bit %#x (%s) and %s tests bit %#x (%s), but %s matches %s better (%d characters in common against %d) and %s matches %s better (%d against %d)",
				c.Pred, uint64(1)<<uint(bp), pi.ident[bp], q, uint64(1)<<uint(bq), pi.ident[bq], c.Pred, pi.ident[bq], there, own, q, pi.ident[bp], qHere, qOwn)}
		}
	}
	// its own flag is left without a predicate
	var ks []int
	for k := range pi.flag {
		ks = append(ks, k)
	}
	sort.Ints(ks)
	for _, k := range ks {
		if k == bp || len(pi.users[k]) > 0 {
			continue
		}
		there, _ := pi.closeness(c.Pred, k)
		if there <= own || !pi.namedAfter(c.Pred, k) {
			continue
		}
		rival := false
		for _, q := range pi.order {
			if qc, _ := pi.closeness(q, k); q != c.Pred && qc > there {
				rival = true
			}
		}
		if !rival {
			return []vf.Finding{vf.F(c.Type+"."+c.Pred, "predicate-tests-another-flags-bit", "%s tests bit %#x (%s; %d characters in common) although it is named after %s = %#x (%d characters in common), a declared flag that no predicate tests (predicates on bit %#x: %v)",
				c.Pred, uint64(1)<<uint(bp), pi.ident[bp], own, pi.ident[k], uint64(1)<<uint(k), there, uint64(1)<<uint(bp), pi.users[bp])}
		}
	}
	return nil
}

func TestPredicatesOwnBit(t *testing.T) {
	s := vf.Begin(t, P, "predicates-own-bit")
	s.SetExhaustive()
	vf.Enum(s, func(yield func(predCase)) {
		for i := range flagTypes {
			ft := &flagTypes[i]
			for _, p := range predicateNames(ft) {
				yield(predCase{ft.Name, p})
			}
		}
	}, checkPredicateOwnBit, func(c predCase) bool {
		pi, err := predInfoOf(typeByName(c.Type))
		if err != nil {
			return false
		}
		b, ok := pi.bit[c.Pred]
		return ok && len(pi.flag[b]) > 0 && len(pi.flag) >= 2
	})
}
