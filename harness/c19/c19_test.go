// Package c19: flag words decompose faithfully and every named constant has a unique name.
package c19

import (
	"fmt"
	"go/ast"
	"go/constant"
	"go/parser"
	"go/token"
	"go/types"
	"math/bits"
	"os"
	"path/filepath"
	"reflect"
	"regexp"
	"sort"
	"strings"
	"testing"

	"pgregory.net/rapid"

	"github.com/TheManticoreProject/Manticore/network/ldap/ldap_attributes"
	"github.com/TheManticoreProject/Manticore/network/netbios"
	"github.com/TheManticoreProject/Manticore/network/smb/smb_v10/capabilities"
	"github.com/TheManticoreProject/Manticore/network/smb/smb_v10/message/commands/codes"
	"github.com/TheManticoreProject/Manticore/network/smb/smb_v10/message/header/flags"
	"github.com/TheManticoreProject/Manticore/network/smb/smb_v10/message/header/flags2"
	"github.com/TheManticoreProject/Manticore/network/smb/smb_v10/securitymode"
	"github.com/TheManticoreProject/Manticore/network/smb/smb_v10/subcommands"
	"github.com/TheManticoreProject/Manticore/windows/keycredential/key"
	"github.com/TheManticoreProject/Manticore/windows/nt_status"

	"manticoreverif/vf"
)

const P = "C19"

// ---- flag-word types ----------------------------------------------------------------

type flagType struct {
	Name   string
	Width  int                       // bits
	Names  func(w uint64) []string   // decomposition into names (nil: type has no decomposition)
	Flags  func(w uint64) []uint64   // GetFlags, if the type has one
	Value  func(w uint64) reflect.Value // for predicates by reflection (invalid: none)
	Empty  []string                  // what the decomposition of 0 looks like
}

func splitNames(s string, sep string) []string {
	if s == "" {
		return nil
	}
	return strings.Split(s, sep)
}

var flagTypes = []flagType{
	{Name: "flags.Flags", Width: 16,
		Names: func(w uint64) []string { return splitNames(flags.Flags(w).String(), "|") },
		Value: func(w uint64) reflect.Value { return reflect.ValueOf(flags.Flags(w)) }},
	{Name: "flags2.Flags2", Width: 16,
		Names: func(w uint64) []string { return splitNames(flags2.Flags2(w).String(), "|") },
		Value: func(w uint64) reflect.Value { return reflect.ValueOf(flags2.Flags2(w)) }},
	{Name: "capabilities.Capabilities", Width: 32,
		Names: func(w uint64) []string { return splitNames(capabilities.Capabilities(w).String(), "|") },
		Value: func(w uint64) reflect.Value { return reflect.ValueOf(capabilities.Capabilities(w)) }},
	{Name: "securitymode.SecurityMode", Width: 8,
		Value: func(w uint64) reflect.Value { return reflect.ValueOf(securitymode.SecurityMode(w)) }},
	{Name: "ldap_attributes.UserAccountControl", Width: 32,
		Names: func(w uint64) []string { return splitNames(ldap_attributes.UserAccountControl(w).String(), "|") },
		Flags: func(w uint64) []uint64 {
			var out []uint64
			for _, f := range ldap_attributes.UserAccountControl(w).GetFlags() {
				out = append(out, uint64(f))
			}
			return out
		},
		Value: func(w uint64) reflect.Value { return reflect.ValueOf(ldap_attributes.UserAccountControl(w)) }},
	{Name: "key.CustomKeyInformationFlags", Width: 8,
		Names: func(w uint64) []string {
			var f key.CustomKeyInformationFlags
			f.FromBytes(byte(w))
			if f.Value != byte(w) {
				return []string{fmt.Sprintf("<<Value %d>>", f.Value)}
			}
			return append([]string{}, f.Name...)
		}},
}

type wordCase struct {
	Type string `json:"type"`
	Word uint64 `json:"word"`
}

func typeByName(n string) *flagType {
	for i := range flagTypes {
		if flagTypes[i].Name == n {
			return &flagTypes[i]
		}
	}
	return nil
}

// bitNames learns, per type, name(b) = decomposition of 1<<b, and the
// placeholder = decomposition of 0. A bit is "named" when its single-bit
// decomposition differs from the placeholder.
type bitInfo struct {
	names    map[int]string
	empty    []string
	problems []vf.Finding
}

var bitCache = map[string]*bitInfo{}

func bitNames(ft *flagType) (map[int]string, []string, []vf.Finding) {
	if bi, ok := bitCache[ft.Name]; ok {
		return bi.names, bi.empty, append([]vf.Finding{}, bi.problems...)
	}
	n, e, p := bitNamesUncached(ft)
	bitCache[ft.Name] = &bitInfo{n, e, p}
	return n, e, append([]vf.Finding{}, p...)
}

func bitNamesUncached(ft *flagType) (names map[int]string, empty []string, problems []vf.Finding) {
	names = map[int]string{}
	empty = ft.Names(0)
	for b := 0; b < ft.Width; b++ {
		d := ft.Names(1 << uint(b))
		if reflect.DeepEqual(d, empty) || len(d) == 0 {
			continue
		}
		if len(d) != 1 {
			problems = append(problems, vf.F(ft.Name, "single-bit-yields-several-names", "bit %d: %v", b, d))
			continue
		}
		names[b] = d[0]
	}
	return
}

func checkDecompose(c wordCase) []vf.Finding {
	ft := typeByName(c.Type)
	if ft == nil || ft.Names == nil {
		return nil
	}
	names, empty, fs := bitNames(ft)
	got := ft.Names(c.Word)
	var want []string
	for b := 0; b < ft.Width; b++ {
		if c.Word&(1<<uint(b)) != 0 {
			if n, ok := names[b]; ok {
				want = append(want, n)
			}
		}
	}
	if len(want) == 0 {
		if !reflect.DeepEqual(got, empty) {
			fs = append(fs, vf.F(ft.Name, "no-named-bit-but-names-returned", "word %#x: got %v, placeholder %v", c.Word, got, empty))
		}
	} else {
		g := append([]string{}, got...)
		w := append([]string{}, want...)
		sort.Strings(g)
		sort.Strings(w)
		if !reflect.DeepEqual(g, w) {
			fs = append(fs, vf.F(ft.Name, "decomposition-not-the-set-bits", "word %#x: got %v want (as a set) %v", c.Word, got, want))
		}
	}
	// deterministic: repeated calls give the same sequence
	for i := 0; i < 20; i++ {
		if again := ft.Names(c.Word); !reflect.DeepEqual(again, got) {
			fs = append(fs, vf.F(ft.Name, "order-not-deterministic", "word %#x: %v then %v", c.Word, got, again))
			break
		}
	}
	if ft.Flags != nil {
		gf := ft.Flags(c.Word)
		var wf []uint64
		for b := 0; b < ft.Width; b++ {
			if c.Word&(1<<uint(b)) != 0 {
				if _, ok := names[b]; ok {
					wf = append(wf, 1<<uint(b))
				}
			}
		}
		if !(len(gf) == 0 && len(wf) == 0) && !reflect.DeepEqual(gf, wf) {
			fs = append(fs, vf.F(ft.Name+".GetFlags", "flags-not-the-named-set-bits-ascending", "word %#x: got %v want %v", c.Word, gf, wf))
		}
	}
	return fs
}

// predicates: every niladic bool method depends on exactly one bit
func predicateNames(ft *flagType) []string {
	if ft.Value == nil {
		return nil
	}
	v := ft.Value(0)
	var out []string
	for i := 0; i < v.NumMethod(); i++ {
		m := v.Type().Method(i)
		if m.Type.NumIn() == 1 && m.Type.NumOut() == 1 && m.Type.Out(0).Kind() == reflect.Bool {
			out = append(out, m.Name)
		}
	}
	return out
}

func callPred(ft *flagType, name string, w uint64) bool {
	return ft.Value(w).MethodByName(name).Call(nil)[0].Bool()
}

var predCache = map[string]map[string][]int{}

func predBits(ft *flagType) map[string][]int {
	if m, ok := predCache[ft.Name]; ok {
		return m
	}
	m := map[string][]int{}
	for _, p := range predicateNames(ft) {
		base := callPred(ft, p, 0)
		dep := []int{}
		for b := 0; b < ft.Width; b++ {
			if callPred(ft, p, 1<<uint(b)) != base {
				dep = append(dep, b)
			}
		}
		m[p] = dep
	}
	predCache[ft.Name] = m
	return m
}

func checkPredicates(c wordCase) []vf.Finding {
	ft := typeByName(c.Type)
	var fs []vf.Finding
	pb := predBits(ft)
	for _, p := range predicateNames(ft) {
		dep := pb[p]
		if len(dep) != 1 {
			fs = append(fs, vf.F(ft.Name+"."+p, "predicate-not-a-single-bit-test", "flips on bits %v", dep))
			continue
		}
		bit := uint64(1) << uint(dep[0])
		if got, want := callPred(ft, p, c.Word), callPred(ft, p, c.Word&bit); got != want {
			fs = append(fs, vf.F(ft.Name+"."+p, "predicate-depends-on-other-bits", "word %#x: %v, but on its own bit %#x alone: %v", c.Word, got, bit, want))
		}
	}
	return fs
}

func checkWord(c wordCase) []vf.Finding {
	return append(checkDecompose(c), checkPredicates(c)...)
}

func wordNontrivial(c wordCase) bool { return bits.OnesCount64(c.Word) >= 2 }

func TestFlagWordsExhaustive(t *testing.T) {
	s := vf.Begin(t, P, "flagwords-exhaustive")
	s.SetExhaustive()
	s.Note("all 8-bit and 16-bit words of flags.Flags, flags2.Flags2, securitymode.SecurityMode, key.CustomKeyInformationFlags")
	vf.Enum(s, func(yield func(wordCase)) {
		for _, ft := range flagTypes {
			if ft.Width > 16 {
				continue
			}
			for w := uint64(0); w < 1<<uint(ft.Width); w++ {
				yield(wordCase{ft.Name, w})
			}
		}
	}, checkWord, wordNontrivial)
}

func TestFlagWords32Structured(t *testing.T) {
	s := vf.Begin(t, P, "flagwords32-structured")
	s.SetExhaustive()
	s.Note("32-bit types: zero, every single bit, every pair of bits, every complement of a single bit, all-ones")
	vf.Enum(s, func(yield func(wordCase)) {
		for _, ft := range flagTypes {
			if ft.Width != 32 {
				continue
			}
			yield(wordCase{ft.Name, 0})
			yield(wordCase{ft.Name, 0xFFFFFFFF})
			for a := 0; a < 32; a++ {
				yield(wordCase{ft.Name, 1 << uint(a)})
				yield(wordCase{ft.Name, 0xFFFFFFFF &^ (1 << uint(a))})
				for b := a + 1; b < 32; b++ {
					yield(wordCase{ft.Name, 1<<uint(a) | 1<<uint(b)})
				}
			}
		}
	}, checkWord, wordNontrivial)
}

func TestFlagWords32Random(t *testing.T) {
	s := vf.Begin(t, P, "flagwords32-random")
	vf.Rapid(s, vf.N(40000, 1000000), func(t *rapid.T) wordCase {
		n := rapid.SampledFrom([]string{"capabilities.Capabilities", "ldap_attributes.UserAccountControl"}).Draw(t, "type")
		return wordCase{n, uint64(rapid.Uint32().Draw(t, "w"))}
	}, checkWord, wordNontrivial)
}

// ---- constants enumerated from the source of the tree under test ------------------------------

type constFamily struct {
	Name    string
	Dir     string // relative to the repository root
	Type    string // Go type name of the constants, or ""
	Prefix  string // identifier prefix when the constants are not of a distinct type
	Str     func(v uint64) string
	MinDecl int
	Bits    int // width of the underlying integer type
}

func repoRoot() string {
	if r := os.Getenv("VERIF_REPO"); r != "" {
		return r
	}
	return "/repo"
}

var families = []constFamily{
	{Name: "codes.CommandCode", Dir: "network/smb/smb_v10/message/commands/codes", Type: "CommandCode", Str: func(v uint64) string { return codes.CommandCode(v).String() }, MinDecl: 70, Bits: 8},
	{Name: "subcommands.NtTransactSubcommand", Dir: "network/smb/smb_v10/subcommands", Type: "NtTransactSubcommand", Str: func(v uint64) string { return subcommands.NtTransactSubcommand(v).String() }, MinDecl: 5, Bits: 16},
	{Name: "subcommands.Transaction2Subcommand", Dir: "network/smb/smb_v10/subcommands", Type: "Transaction2Subcommand", Str: func(v uint64) string { return subcommands.Transaction2Subcommand(v).String() }, MinDecl: 10, Bits: 16},
	{Name: "subcommands.TransactionSubcommand", Dir: "network/smb/smb_v10/subcommands", Type: "TransactionSubcommand", Str: func(v uint64) string { return subcommands.TransactionSubcommand(v).String() }, MinDecl: 8, Bits: 16},
	{Name: "netbios.SESSION_MESSAGE_TYPE", Dir: "network/netbios", Type: "SESSION_MESSAGE_TYPE", Str: func(v uint64) string { return netbios.SESSION_MESSAGE_TYPE(v).String() }, MinDecl: 6, Bits: 8},
	{Name: "nt_status.NT_STATUS", Dir: "windows/nt_status", Type: "NT_STATUS", Str: func(v uint64) string { return nt_status.NT_STATUS(v).String() }, MinDecl: 1500, Bits: 32},
	{Name: "key.KeyUsage", Dir: "windows/keycredential/key", Prefix: "KeyUsage_", Str: func(v uint64) string { k := key.KeyUsage{Value: uint8(v)}; return k.String() }, MinDecl: 8, Bits: 8},
	{Name: "key.KeySource", Dir: "windows/keycredential/key", Type: "KeySource", Str: func(v uint64) string { return key.KeySource(v).String() }, MinDecl: 2, Bits: 32},
	{Name: "key.KeyCredentialEntryType", Dir: "windows/keycredential/key", Prefix: "KeyCredentialEntryType_", Str: func(v uint64) string { k := key.KeyCredentialEntryType{Value: uint8(v)}; return k.String() }, MinDecl: 9, Bits: 8},
	{Name: "key.KeyCredentialVersion", Dir: "windows/keycredential/key", Prefix: "KeyCredentialVersion_", Str: func(v uint64) string { k := key.KeyCredentialVersion{Value: uint32(v)}; return k.String() }, MinDecl: 3, Bits: 32},
	{Name: "key.CustomKeyInformationVolumeType", Dir: "windows/keycredential/key", Prefix: "CustomKeyInformationVolumeType_", Str: func(v uint64) string { k := key.CustomKeyInformationVolumeType{Value: uint8(v)}; return k.String() }, MinDecl: 4, Bits: 8},
	{Name: "ldap_attributes.SAMAccountType", Dir: "network/ldap/ldap_attributes", Prefix: "SAM_", Str: func(v uint64) string { return ldap_attributes.SAMAccountType(v).String() }, MinDecl: 8, Bits: 32},
	{Name: "ldap_attributes.DomainFunctionalityLevel", Dir: "network/ldap/ldap_attributes", Type: "DomainFunctionalityLevel", Str: func(v uint64) string { return ldap_attributes.DomainFunctionalityLevel(v).String() }, MinDecl: 8, Bits: 8},
	{Name: "ldap_attributes.MSPKIEnrollmentFlag", Dir: "network/ldap/ldap_attributes", Prefix: "MSPKI_ENROLLMENT_FLAG_", Str: func(v uint64) string { return ldap_attributes.MSPKIEnrollmentFlag(v).String() }, MinDecl: 8, Bits: 32},
	{Name: "ldap_attributes.PasswordProperties", Dir: "network/ldap/ldap_attributes", Type: "PasswordProperties", Str: func(v uint64) string { return ldap_attributes.PasswordProperties(v).String() }, MinDecl: 6, Bits: 32},
}

type declConst struct {
	Ident string
	Value uint64
}

type nullImporter struct{}

func (nullImporter) Import(path string) (*types.Package, error) {
	return types.NewPackage(path, filepath.Base(path)), nil
}

// declared parses the package directory of the tree under test and returns
// its integer constants with their declared type names.
func declared(dir string) (byType map[string][]declConst, all []declConst, err error) {
	fset := token.NewFileSet()
	pkgs, err := parser.ParseDir(fset, filepath.Join(repoRoot(), dir), func(fi os.FileInfo) bool { return !strings.HasSuffix(fi.Name(), "_test.go") }, 0)
	if err != nil {
		return nil, nil, err
	}
	byType = map[string][]declConst{}
	for _, pkg := range pkgs {
		var files []*ast.File
		names := make([]string, 0, len(pkg.Files))
		for n := range pkg.Files {
			names = append(names, n)
		}
		sort.Strings(names)
		for _, n := range names {
			files = append(files, pkg.Files[n])
		}
		conf := types.Config{Importer: nullImporter{}, Error: func(error) {}}
		tp, _ := conf.Check(pkg.Name, fset, files, nil)
		if tp == nil {
			continue
		}
		sc := tp.Scope()
		for _, n := range sc.Names() {
			c, ok := sc.Lookup(n).(*types.Const)
			if !ok || c.Val().Kind() != constant.Int {
				continue
			}
			u, ok := constant.Uint64Val(c.Val())
			if !ok {
				if i, ok2 := constant.Int64Val(c.Val()); ok2 {
					u = uint64(i)
				} else {
					continue
				}
			}
			d := declConst{n, u}
			all = append(all, d)
			if named, ok := c.Type().(*types.Named); ok {
				byType[named.Obj().Name()] = append(byType[named.Obj().Name()], d)
			}
		}
	}
	return
}

func (f constFamily) consts() ([]declConst, error) {
	byType, all, err := declared(f.Dir)
	if err != nil {
		return nil, err
	}
	if f.Type != "" {
		return byType[f.Type], nil
	}
	var out []declConst
	for _, d := range all {
		if strings.HasPrefix(d.Ident, f.Prefix) {
			out = append(out, d)
		}
	}
	return out, nil
}

var digits = regexp.MustCompile(`[0-9]+`)

func norm(s string) string { return digits.ReplaceAllString(s, "N") }

type constCase struct {
	Family string `json:"family"`
	Ident  string `json:"ident"`
	Value  uint64 `json:"value"`
}

var famCache = map[string]*famInfo{}

type famInfo struct {
	fam          *constFamily
	decl         []declConst
	placeholders map[string]bool
	nameOf       map[uint64]string
}

func familyInfo(name string) (*famInfo, error) {
	if fi, ok := famCache[name]; ok {
		return fi, nil
	}
	for i := range families {
		f := &families[i]
		if f.Name != name {
			continue
		}
		decl, err := f.consts()
		if err != nil {
			return nil, err
		}
		fi := &famInfo{fam: f, decl: decl, placeholders: map[string]bool{}, nameOf: map[uint64]string{}}
		isDecl := map[uint64]bool{}
		for _, d := range decl {
			isDecl[d.Value] = true
			fi.nameOf[d.Value] = f.Str(d.Value)
		}
		// learn placeholders from values that are not declared
		n := 0
		for _, probe := range []uint64{0xEE, 0xED, 0xFB, 0x7B, 0xEEEE, 0xFFFE, 0xFEEDFACE, 0x7EEDFACE, 0xFFFFFFFE, 0xAB, 0x3B} {
			if probe >= uint64(1)<<uint(f.Bits) || isDecl[probe] {
				continue
			}
			fi.placeholders[norm(f.Str(probe))] = true
			n++
		}
		if n < 2 {
			return nil, fmt.Errorf("family %s: fewer than two undeclared probe values", name)
		}
		famCache[name] = fi
		return fi, nil
	}
	return nil, fmt.Errorf("unknown family %s", name)
}

var placeholderIdent = regexp.MustCompile(`(?i)none|unknown|unspecified|default`)

func checkConst(c constCase) []vf.Finding {
	fi, err := familyInfo(c.Family)
	if err != nil {
		return []vf.Finding{vf.F("harness", "cannot-parse-source", "%v", err)}
	}
	var fs []vf.Finding
	name := fi.fam.Str(c.Value)
	if strings.TrimSpace(name) == "" {
		fs = append(fs, vf.F(c.Family, "constant-without-name", "%s = %#x has an empty name", c.Ident, c.Value))
	} else if fi.placeholders[norm(name)] && !placeholderIdent.MatchString(c.Ident) {
		fs = append(fs, vf.F(c.Family, "constant-maps-to-placeholder", "%s = %#x -> %q, which is what undeclared values get", c.Ident, c.Value, name))
	}
	for v, n := range fi.nameOf {
		if v != c.Value && n == name && !fi.placeholders[norm(name)] {
			fs = append(fs, vf.F(c.Family, "two-values-share-a-name", "%s = %#x and value %#x are both %q", c.Ident, c.Value, v, name))
			break
		}
	}
	if c.Family == "nt_status.NT_STATUS" {
		e := nt_status.NT_STATUS(c.Value).Error()
		if c.Value == 0 {
			if e != nil {
				fs = append(fs, vf.F("NT_STATUS.Error", "success-maps-to-error", "%v", e))
			}
		} else if e == nil {
			fs = append(fs, vf.F("NT_STATUS.Error", "non-success-status-without-error", "%s = %#08x -> nil", c.Ident, c.Value))
		} else {
			txt := strings.ToLower(e.Error())
			if !strings.Contains(txt, fmt.Sprintf("%x", c.Value)) && !strings.Contains(txt, fmt.Sprintf("%d", c.Value)) {
				fs = append(fs, vf.F("NT_STATUS.Error", "error-text-lacks-numeric-code", "%s = %#08x -> %q", c.Ident, c.Value, e.Error()))
			}
		}
	}
	return fs
}

func TestConstants(t *testing.T) {
	s := vf.Begin(t, P, "constants")
	s.SetExhaustive()
	lowByte := map[string]map[uint64]int{}
	vf.Enum(s, func(yield func(constCase)) {
		for _, f := range families {
			fi, err := familyInfo(f.Name)
			if err != nil {
				t.Fatalf("INFRA: %v", err)
			}
			if len(fi.decl) < f.MinDecl {
				t.Fatalf("INFRA: family %s: only %d constants found in %s (expected >= %d): the source enumeration is broken", f.Name, len(fi.decl), f.Dir, f.MinDecl)
			}
			s.Note("%s: %d declared constants", f.Name, len(fi.decl))
			lowByte[f.Name] = map[uint64]int{}
			for _, d := range fi.decl {
				lowByte[f.Name][d.Value&0xFF]++
			}
			for _, d := range fi.decl {
				yield(constCase{f.Name, d.Ident, d.Value})
			}
		}
	}, checkConst, func(c constCase) bool { return lowByte[c.Family][c.Value&0xFF] > 1 || c.Value > 0xFF })
}

// undeclared NT status values: String/Error must not crash; Error of an undeclared
// non-zero value is unspecified.
func TestNTStatusRandom(t *testing.T) {
	s := vf.Begin(t, P, "ntstatus-random")
	vf.Rapid(s, vf.N(20000, 300000), func(t *rapid.T) constCase {
		return constCase{"nt_status.NT_STATUS", "", uint64(rapid.Uint32().Draw(t, "v"))}
	}, func(c constCase) []vf.Finding {
		fi, _ := familyInfo(c.Family)
		if _, isDecl := fi.nameOf[c.Value]; isDecl {
			return checkConst(constCase{c.Family, "(declared)", c.Value})
		}
		n := nt_status.NT_STATUS(c.Value).String()
		if !fi.placeholders[norm(n)] {
			return []vf.Finding{vf.F(c.Family, "undeclared-value-has-a-name", "%#08x -> %q", c.Value, n)}
		}
		_ = nt_status.NT_STATUS(c.Value).Error()
		return nil
	}, func(c constCase) bool { return c.Value>>30 != 0 })
}
