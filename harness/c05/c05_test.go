// Package c05: SMB1 structures are emitted in the encoding MS-CIFS prescribes.
package c05

import (
	"bytes"
	"encoding/json"
	"fmt"
	"go/ast"
	"go/parser"
	"go/token"
	"os"
	"path/filepath"
	"reflect"
	"regexp"
	"strconv"
	"strings"
	"testing"

	"pgregory.net/rapid"

	"github.com/TheManticoreProject/Manticore/network/smb/smb_v10/dialects"
	"github.com/TheManticoreProject/Manticore/network/smb/smb_v10/message/commands/andx"
	"github.com/TheManticoreProject/Manticore/network/smb/smb_v10/message/commands/codes"
	"github.com/TheManticoreProject/Manticore/network/smb/smb_v10/message/header"
	"github.com/TheManticoreProject/Manticore/network/smb/smb_v10/types"

	"manticoreverif/smbgen"
	"manticoreverif/vf"
)

const P = "C05"

// ---- integer byte order, by marking -----------------------------------------------------------------

type markCase struct {
	Struct  string                     `json:"struct"`
	Fields  map[string]json.RawMessage `json:"fields"`
	Field   string                     `json:"field"`
	Pattern vf.Hex                     `json:"pattern"`
}

func reversedPerElement(le []byte, elem int) []byte {
	out := make([]byte, 0, len(le))
	for i := 0; i+elem <= len(le); i += elem {
		for j := elem - 1; j >= 0; j-- {
			out = append(out, le[i+j])
		}
	}
	return out
}

func elemWidth(t reflect.Type) int {
	switch t.String() {
	case "data_structures.FILETIME":
		return 4 // two little-endian DWORDs
	case "data_structures.LARGE_INTEGER":
		return 8
	case "types.SMB_NMPIPE_STATUS":
		return 1
	case "types.SMB_DATE", "types.SMB_FILE_ATTRIBUTES":
		return 2
	}
	if t.Kind() == reflect.Array {
		return elemWidth(t.Elem())
	}
	return smbgen.FixedWidth(t)
}

func checkByteOrder(c markCase) []vf.Finding {
	e, ok := smbgen.ByName(c.Struct)
	if !ok {
		return []vf.Finding{vf.F("harness", "bad-case", "unknown structure %s", c.Struct)}
	}
	subject := c.Struct + "." + c.Field
	sl := smbgen.Mark(e, c.Fields, c.Field, c.Pattern)
	if sl.ProblemKind != "" {
		// not emitted / not contiguous: C04's subject; for C05 the field has no judged encoding
		return nil
	}
	if sl.Width != sl.TypeWidth {
		return []vf.Finding{vf.F(subject, "wrong-width", "slot of %d bytes for a %d-byte type", sl.Width, sl.TypeWidth)}
	}
	if bytes.Equal(sl.Got, sl.LE) {
		return nil
	}
	ft := reflect.TypeOf(smbgen.New(e)).Elem()
	f, _ := ft.FieldByName(c.Field)
	if bytes.Equal(sl.Got, reversedPerElement(sl.LE, elemWidth(f.Type))) {
		return []vf.Finding{vf.F(subject, "byte-reversed-in-own-slot", "pattern %x emitted as %x, MS-CIFS little-endian is %x", []byte(c.Pattern[:sl.TypeWidth]), sl.Got, sl.LE)}
	}
	return []vf.Finding{vf.F(subject, "other-encoding", "emitted %x, MS-CIFS little-endian is %x", sl.Got, sl.LE)}
}

func fixedFields() (out [][2]string) {
	for _, e := range smbgen.Inventory() {
		cmd := smbgen.New(e)
		for _, f := range smbgen.OwnFields(cmd) {
			if smbgen.FixedWidth(f.Type) > 0 && !smbgen.IsCountField(e.Name, f.Name) {
				out = append(out, [2]string{e.Name, f.Name})
			}
		}
	}
	return
}

func TestIntegerByteOrder(t *testing.T) {
	s := vf.Begin(t, P, "encode-vs-ref")
	ff := fixedFields()
	s.Note("%d fixed-width fields; every one is written with a pattern of pairwise distinct bytes and with its complement", len(ff))
	per := vf.N(3, 50)
	idx := 0
	vf.Rapid(s, len(ff)*per, func(t *rapid.T) markCase {
		sf := ff[(idx/per)%len(ff)]
		idx++
		e, _ := smbgen.ByName(sf[0])
		cmd := smbgen.New(e)
		smbgen.Fill(t, cmd, smbgen.Options{MaxBytes: 12, DistinctBytes: true})
		return markCase{sf[0], smbgen.Snapshot(cmd), sf[1], rapid.SliceOfNDistinct(rapid.ByteRange(1, 254), 32, 32, rapid.ID[byte]).Draw(t, "pattern")}
	}, checkByteOrder, func(c markCase) bool {
		e, _ := smbgen.ByName(c.Struct)
		f, _ := reflect.TypeOf(smbgen.New(e)).Elem().FieldByName(c.Field)
		return elemWidth(f.Type) >= 2
	})
}

// ---- count fields (not markable: they are derived) are judged through the buffer they count --------------

type countCase struct {
	Struct string `json:"struct"`
	Count  string `json:"count_field"`
	Buffer string `json:"buffer"`
	Len    int    `json:"len"`
}

// a buffer of n bytes vs n+1 bytes: exactly the count field's slot changes (plus the appended byte);
// with n = 0x0102-like values the low and high byte are told apart
func checkCountOrder(c countCase) []vf.Finding {
	e, _ := smbgen.ByName(c.Struct)
	mk := func(n int) ([]byte, error) {
		cmd := smbgen.New(e)
		smbgen.ApplyRelations(cmd)
		rv := reflect.ValueOf(cmd).Elem()
		buf := rv.FieldByName(strings.Split(c.Buffer, ".")[0])
		if strings.Contains(c.Buffer, ".") {
			buf = buf.FieldByName("Buffer")
		}
		if buf.Kind() != reflect.Slice || buf.Type().Elem().Kind() != reflect.Uint8 {
			return nil, fmt.Errorf("not a byte buffer")
		}
		buf.SetBytes(bytes.Repeat([]byte{0x41}, n))
		smbgen.ApplyRelations(cmd)
		return cmd.Marshal()
	}
	a, err := mk(c.Len)
	if err != nil {
		return nil
	}
	cf, _ := reflect.TypeOf(smbgen.New(e)).Elem().FieldByName(c.Count)
	w := smbgen.FixedWidth(cf.Type)
	if w < 2 {
		return nil
	}
	le := make([]byte, w)
	for i := 0; i < w; i++ {
		le[i] = byte(c.Len >> (8 * uint(i)))
	}
	if bytes.Contains(a[:min(len(a), 80)], le) {
		return nil
	}
	if bytes.Contains(a[:min(len(a), 80)], reversedPerElement(le, w)) {
		return []vf.Finding{vf.F(c.Struct+"."+c.Count, "byte-reversed-in-own-slot", "count %#x of %s emitted big-endian", c.Len, c.Buffer)}
	}
	return []vf.Finding{vf.F(c.Struct+"."+c.Count, "count-not-found-in-encoding", "count %#x of %s", c.Len, c.Buffer)}
}

func TestCountFieldByteOrder(t *testing.T) {
	s := vf.Begin(t, P, "count-fields")
	s.SetExhaustive()
	vf.Enum(s, func(yield func(countCase)) {
		for _, n := range smbgen.Names() {
			for _, r := range smbgen.Relations[n] {
				for _, l := range []int{0x0102, 0x0203, 0x01FE} {
					yield(countCase{n, r.Count, r.Buffer, l})
				}
			}
		}
	}, checkCountOrder, nil)
}

// ---- AndX block layout --------------------------------------------------------------------------------------

type andxCase struct {
	Struct   string                     `json:"struct"`
	Fields   map[string]json.RawMessage `json:"fields,omitempty"`
	Command  uint8                      `json:"andx_command"`
	Reserved uint8                      `json:"andx_reserved"`
	Offset   uint16                     `json:"andx_offset"`
}

func checkAndX(c andxCase) []vf.Finding {
	var fs []vf.Finding
	a := &andx.AndX{AndXCommand: codes.CommandCode(c.Command), AndXReserved: c.Reserved, AndXOffset: c.Offset}
	want := []byte{c.Command, c.Reserved, byte(c.Offset), byte(c.Offset >> 8)}
	got, err := a.Marshal()
	if err != nil || !bytes.Equal(got, want) {
		kind := "andx-block-differs-from-ms-cifs"
		if len(got) == 4 && got[0] == want[0] && got[1] == want[1] && got[2] == want[3] && got[3] == want[2] {
			kind = "byte-reversed-in-own-slot"
		}
		fs = append(fs, vf.F("AndX.AndXOffset", kind, "AndX.Marshal %x, MS-CIFS 2.2.3.4 layout %x", got, want))
	}
	if c.Struct != "" {
		e, _ := smbgen.ByName(c.Struct)
		cmd := smbgen.New(e)
		smbgen.Restore(cmd, c.Fields)
		cmd.SetAndX(a)
		enc, err := cmd.Marshal()
		if err != nil {
			return append(fs, vf.F(c.Struct, "marshal-error", "%v", err))
		}
		if len(enc) < 5 || !bytes.Equal(enc[1:3], want[:2]) {
			fs = append(fs, vf.F(c.Struct+".AndX", "andx-command-reserved-not-first-parameter-bytes", "parameter block starts %x, want %x", enc[:min(len(enc), 5)], want))
		} else if !bytes.Equal(enc[3:5], want[2:]) {
			kind := "andx-offset-differs"
			if enc[3] == want[3] && enc[4] == want[2] {
				kind = "byte-reversed-in-own-slot"
			}
			fs = append(fs, vf.F(c.Struct+".AndX.AndXOffset", kind, "offset bytes %x, MS-CIFS little-endian %x", enc[3:5], want[2:]))
		}
	}
	return fs
}

func TestAndXLayout(t *testing.T) {
	s := vf.Begin(t, P, "andx-layout")
	var andxStructs []string
	for _, e := range smbgen.Inventory() {
		if e.AndX {
			andxStructs = append(andxStructs, e.Name)
		}
	}
	vf.Rapid(s, vf.N(1500, 30000), func(t *rapid.T) andxCase {
		d := rapid.SliceOfNDistinct(rapid.ByteRange(1, 254), 4, 4, rapid.ID[byte]).Draw(t, "bytes")
		st := ""
		var fields map[string]json.RawMessage
		if rapid.Bool().Draw(t, "inStruct") {
			st = andxStructs[rapid.IntRange(0, len(andxStructs)-1).Draw(t, "struct")]
			e, _ := smbgen.ByName(st)
			cmd := smbgen.New(e)
			smbgen.Fill(t, cmd, smbgen.Options{MaxBytes: 8})
			fields = smbgen.Snapshot(cmd)
		}
		return andxCase{st, fields, d[0], d[1], uint16(d[2]) | uint16(d[3])<<8}
	}, checkAndX, func(c andxCase) bool { return c.Struct != "" })
}

// ---- dialect strings and buffer-format strings ---------------------------------------------------------------

type dialectCase struct {
	Dialects []string `json:"dialects"`
}

func refDialects(ds []string) []byte {
	var b []byte
	for _, d := range ds {
		b = append(b, 0x02)
		b = append(b, d...)
		b = append(b, 0x00)
	}
	return b
}

func checkDialects(c dialectCase) []vf.Finding {
	d := dialects.NewDialects()
	for _, x := range c.Dialects {
		d.AddDialect(x)
	}
	got, err := d.Marshal()
	want := refDialects(c.Dialects)
	var fs []vf.Finding
	if err != nil || !bytes.Equal(got, want) {
		kind := "dialects-differ-from-ms-cifs"
		if len(c.Dialects) >= 2 && bytes.Count(got, []byte{0x02}) < len(c.Dialects) {
			kind = "single-format-byte-for-whole-list"
		}
		fs = append(fs, vf.F("Dialects.Marshal", kind, "%d dialects: got %q want %q", len(c.Dialects), got, want))
	}
	// the decoder must accept the MS-CIFS encoding
	if len(c.Dialects) > 0 {
		back := dialects.NewDialects()
		n, err := back.Unmarshal(append([]byte{}, want...))
		if err != nil || !reflect.DeepEqual(back.Dialects, c.Dialects) {
			fs = append(fs, vf.F("Dialects.Unmarshal", "ms-cifs-dialect-list-misread", "%q -> %q (err %v)", want, back.Dialects, err))
		} else if n != len(want) {
			fs = append(fs, vf.F("Dialects.Unmarshal", "consumed-differs", "n=%d want %d", n, len(want)))
		}
	}
	return fs
}

var dialectNames = []string{"PC NETWORK PROGRAM 1.0", "PCLAN1.0", "MICROSOFT NETWORKS 1.03", "MICROSOFT NETWORKS 3.0", "LANMAN1.0", "LANMAN1.2", "LANMAN2.0", "LANMAN2.1", "LM1.2X002", "DOS LM1.2X002", "DOS LANMAN2.1", "Windows for Workgroups 3.1a", "NT LM 0.12"}

func TestDialects(t *testing.T) {
	s := vf.Begin(t, P, "dialects")
	vf.Rapid(s, vf.N(3000, 50000), func(t *rapid.T) dialectCase {
		n := rapid.IntRange(0, 8).Draw(t, "n")
		ds := make([]string, n)
		for i := range ds {
			if rapid.IntRange(0, 3).Draw(t, "custom") == 0 {
				l := rapid.IntRange(1, 12).Draw(t, "len")
				b := make([]byte, l)
				for j := range b {
					b[j] = byte(rapid.IntRange(0x20, 0x7e).Draw(t, "ch"))
				}
				ds[i] = string(b)
			} else {
				ds[i] = dialectNames[rapid.IntRange(0, len(dialectNames)-1).Draw(t, "name")]
			}
		}
		return dialectCase{ds}
	}, checkDialects, func(c dialectCase) bool { return len(c.Dialects) >= 2 })
}

type strCase struct {
	Format  uint8  `json:"format"`
	Content vf.Hex `json:"content"`
}

func checkBufferFormat(c strCase) []vf.Finding {
	s := &types.SMB_STRING{BufferFormat: c.Format, Buffer: append([]byte{}, c.Content...)}
	got, err := s.Marshal()
	var want []byte
	l := []byte{byte(len(c.Content)), byte(len(c.Content) >> 8)}
	switch c.Format {
	case 1, 5:
		want = append(append([]byte{c.Format}, l...), c.Content...)
	case 3:
		want = append(append(append([]byte{c.Format}, l...), c.Content...), 0)
	default:
		want = append(append([]byte{c.Format}, c.Content...), 0)
	}
	if err != nil || !bytes.Equal(got, want) {
		return []vf.Finding{vf.F(fmt.Sprintf("SMB_STRING/%02x", c.Format), "buffer-format-string-differs-from-ms-cifs", "got %x want %x (err %v)", got[:min(len(got), 24)], want[:min(len(want), 24)], err)}
	}
	return nil
}

func TestBufferFormats(t *testing.T) {
	s := vf.Begin(t, P, "buffer-format-strings")
	vf.Rapid(s, vf.N(3000, 50000), func(t *rapid.T) strCase {
		f := uint8(rapid.IntRange(1, 5).Draw(t, "format"))
		n := rapid.SampledFrom([]int{0, 1, 2, 255, 256, 300, 513}).Draw(t, "len")
		b := rapid.SliceOfN(rapid.ByteRange(1, 255), n, n).Draw(t, "content")
		return strCase{f, b}
	}, checkBufferFormat, func(c strCase) bool { return len(c.Content) >= 256 })
}

// ---- header fields little-endian ---------------------------------------------------------------------------------

type hdrCase struct {
	Bytes vf.Hex `json:"bytes"` // 23 pairwise distinct bytes
}

func checkHeaderLE(c hdrCase) []vf.Finding {
	b := c.Bytes
	h := header.NewHeader()
	h.Command = codes.CommandCode(b[0])
	h.Status = uint32(b[1]) | uint32(b[2])<<8 | uint32(b[3])<<16 | uint32(b[4])<<24
	h.SetFlags(b[5])
	h.SetFlags2(uint16(b[6]) | uint16(b[7])<<8)
	h.PIDHigh = uint16(b[8]) | uint16(b[9])<<8
	h.Reserved = uint16(b[10]) | uint16(b[11])<<8
	h.TID = uint16(b[12]) | uint16(b[13])<<8
	h.PIDLow = uint16(b[14]) | uint16(b[15])<<8
	h.UID = uint16(b[16]) | uint16(b[17])<<8
	h.MID = uint16(b[18]) | uint16(b[19])<<8
	want := append([]byte{0xFF, 'S', 'M', 'B'}, b[0:10]...)
	want = append(want, make([]byte, 8)...)
	want = append(want, b[10:20]...)
	got, err := h.Marshal()
	if err != nil || !bytes.Equal(got, want) {
		return []vf.Finding{vf.F("Header.Marshal", "header-differs-from-ms-cifs-2.2.3.1", "got %x want %x (err %v)", got, want, err)}
	}
	return nil
}

func TestHeaderLittleEndian(t *testing.T) {
	s := vf.Begin(t, P, "header-fields")
	vf.Rapid(s, vf.N(3000, 50000), func(t *rapid.T) hdrCase {
		return hdrCase{rapid.SliceOfNDistinct(rapid.ByteRange(1, 254), 20, 20, rapid.ID[byte]).Draw(t, "bytes")}
	}, checkHeaderLE, func(c hdrCase) bool { return true })
}

// ---- declared widths vs the "(N bytes)" sizes MS-CIFS gives (quoted in the source's field comments) ----------------

type widthCase struct {
	Struct string `json:"struct"`
	Field  string `json:"field"`
	Spec   int    `json:"spec_bytes"`
	Decl   int    `json:"declared_bytes"`
}

var sizeRe = regexp.MustCompile(`^\s*(\w+) \((\d+) bytes?\)`)

func repoRoot() string {
	if r := os.Getenv("VERIF_REPO"); r != "" {
		return r
	}
	return "/repo"
}

func specWidths() []widthCase {
	dir := filepath.Join(repoRoot(), "network/smb/smb_v10/message/commands")
	fset := token.NewFileSet()
	pkgs, err := parser.ParseDir(fset, dir, func(fi os.FileInfo) bool { return !strings.HasSuffix(fi.Name(), "_test.go") }, parser.ParseComments)
	if err != nil {
		return nil
	}
	var out []widthCase
	for _, pkg := range pkgs {
		for _, file := range pkg.Files {
			for _, decl := range file.Decls {
				gd, ok := decl.(*ast.GenDecl)
				if !ok {
					continue
				}
				for _, spec := range gd.Specs {
					ts, ok := spec.(*ast.TypeSpec)
					if !ok {
						continue
					}
					st, ok := ts.Type.(*ast.StructType)
					if !ok {
						continue
					}
					e, reachable := smbgen.ByName(ts.Name.Name)
					if !reachable {
						continue
					}
					rt := reflect.TypeOf(smbgen.New(e)).Elem()
					for _, f := range st.Fields.List {
						if f.Doc == nil || len(f.Names) != 1 {
							continue
						}
						m := sizeRe.FindStringSubmatch(strings.TrimPrefix(f.Doc.List[0].Text, "//"))
						if m == nil || m[1] != f.Names[0].Name {
							continue
						}
						n, _ := strconv.Atoi(m[2])
						rf, ok := rt.FieldByName(f.Names[0].Name)
						if !ok {
							continue
						}
						if strings.HasPrefix(f.Names[0].Name, "Reserved") {
							continue // reserved areas: the comment's size is not a reliable statement about a field type
						}
						if w := smbgen.FixedWidth(rf.Type); w > 0 {
							out = append(out, widthCase{ts.Name.Name, f.Names[0].Name, n, w})
						}
					}
				}
			}
		}
	}
	return out
}

func TestDeclaredVsSpecWidths(t *testing.T) {
	s := vf.Begin(t, P, "declared-vs-spec")
	s.SetExhaustive()
	ws := specWidths()
	s.Note("%d fixed-width fields carry an MS-CIFS size in their doc comment", len(ws))
	if len(ws) < 150 {
		t.Fatalf("INFRA: only %d field size comments found: source enumeration broken", len(ws))
	}
	vf.Enum(s, func(yield func(widthCase)) {
		for _, w := range ws {
			yield(w)
		}
	}, func(c widthCase) []vf.Finding {
		if c.Decl == c.Spec {
			return nil
		}
		kind := "declared-wider-than-spec"
		if c.Decl < c.Spec {
			kind = "declared-narrower-than-spec"
		}
		return []vf.Finding{vf.F(c.Struct+"."+c.Field, kind, "declared type is %d bytes wide, MS-CIFS gives %d bytes", c.Decl, c.Spec)}
	}, func(c widthCase) bool { return c.Spec >= 2 })
}

// ---- widths on the wire: a field owns exactly as many bytes as its type is wide --------------------------------
//
// Marking (encode-vs-ref) sees the bytes that change with the field's value; a USHORT emitted as four
// bytes with two constant ones is invisible to it. What gives it away is the next field: fields that are
// adjacent in the declaration (count fields in between are accounted for by their type widths) and lie
// in the same block must be adjacent on the wire, and the first parameter field starts right after the
// word count (after the 4-byte AndX block in AndX structures).

type layoutCase struct {
	Struct string                     `json:"struct"`
	Fields map[string]json.RawMessage `json:"fields"`
}

func checkWireWidths(c layoutCase) []vf.Finding {
	e, ok := smbgen.ByName(c.Struct)
	if !ok {
		return []vf.Finding{vf.F("harness", "bad-case", "unknown structure %s", c.Struct)}
	}
	slots, paramEnd := smbgen.Layout(e, c.Fields)
	var fs []vf.Finding
	if len(slots) > 0 && paramEnd > 1 {
		first := slots[0]
		cmd := smbgen.New(e)
		own := smbgen.OwnFields(cmd)
		want := 1
		if e.AndX {
			want = 5
		}
		if len(own) > 0 && own[0].Name == first.Name && first.Start < paramEnd && first.Start != want {
			fs = append(fs, vf.F(c.Struct+"."+first.Name, "first-parameter-field-not-at-block-start", "starts at %d, the parameter words begin at %d", first.Start, want))
		}
	}
	for i := 1; i < len(slots); i++ {
		a, b := slots[i-1], slots[i]
		if !b.Chain || !smbgen.SameBlock(a.Start, b.Start, paramEnd) || b.Start < a.Start+a.Width {
			continue // order and overlap are C04's subject
		}
		if extra := b.Start - (a.Start + a.Width + b.Between); extra != 0 {
			fs = append(fs, vf.F(c.Struct+"."+a.Name, "occupies-more-bytes-than-its-type", "%d-byte type at %d, next field %s at %d (%d bytes of count fields between): %d bytes unaccounted for", a.Width, a.Start, b.Name, b.Start, b.Between, extra))
		}
	}
	return fs
}

func TestWireWidths(t *testing.T) {
	s := vf.Begin(t, P, "widths-on-wire")
	names := smbgen.Names()
	per := vf.N(3, 40)
	idx := 0
	vf.Rapid(s, len(names)*per, func(t *rapid.T) layoutCase {
		name := names[(idx/per)%len(names)]
		idx++
		e, _ := smbgen.ByName(name)
		cmd := smbgen.New(e)
		smbgen.Fill(t, cmd, smbgen.Options{MaxBytes: 8})
		return layoutCase{name, smbgen.Snapshot(cmd)}
	}, checkWireWidths, func(c layoutCase) bool { return len(c.Fields) >= 2 })
}

// ---- integers nested in wire types and in slices -----------------------------------------------------------
//
// encode-vs-ref marks a command's own fixed-width fields. Integers that sit one level down – inside the
// elements of LockingAndxRequest.Locks/Unlocks, inside directory-information entries, in the
// TransactionRequest.Setup word array, in the packed date word – are marked here, at the level of the type
// that encodes them, with the same method: pattern vs complement, diff, compare the slot with little-endian.

type nestedCase struct {
	Type    string `json:"type"`
	Field   string `json:"field"`
	Pattern vf.Hex `json:"pattern"`
	// Base: generated values for the other fields of the enclosing command (Setup case only)
	Base map[string]json.RawMessage `json:"base,omitempty"`
}

type nestedType struct {
	name string
	mk   func() interface{} // pointer to a value that encodes (valid enough for Marshal)
}

func nestedTypes() []nestedType {
	return []nestedType{
		{"LOCKING_ANDX_RANGE32", func() interface{} { return &types.LOCKING_ANDX_RANGE32{} }},
		{"LOCKING_ANDX_RANGE64", func() interface{} { return &types.LOCKING_ANDX_RANGE64{} }},
		{"SMB_DIRECTORY_INFORMATION", func() interface{} {
			d := types.NewSMB_DIRECTORY_INFORMATION()
			return d
		}},
	}
}

func intFields(v reflect.Value) (out []string) {
	for i := 0; i < v.NumField(); i++ {
		f := v.Type().Field(i)
		if !f.IsExported() {
			continue
		}
		switch f.Type.Kind() {
		case reflect.Uint16, reflect.Uint32, reflect.Uint64, reflect.Int16, reflect.Int32, reflect.Int64:
			out = append(out, f.Name)
		}
	}
	return
}

func setInt(f reflect.Value, le []byte) {
	var x uint64
	for i := len(le) - 1; i >= 0; i-- {
		x = x<<8 | uint64(le[i])
	}
	if f.Kind() >= reflect.Int && f.Kind() <= reflect.Int64 {
		f.SetInt(int64(x))
	} else {
		f.SetUint(x)
	}
}

func marshalAny(v interface{}) (b []byte, err error) {
	defer func() {
		if r := recover(); r != nil {
			err = fmt.Errorf("panic: %v", r)
		}
	}()
	return v.(interface{ Marshal() ([]byte, error) }).Marshal()
}

func checkNested(c nestedCase) []vf.Finding {
	subject := c.Type + "." + c.Field
	if c.Type == "TransactionRequest.Setup" {
		// k setup words, each with its own two distinct bytes
		e, _ := smbgen.ByName("TransactionRequest")
		k := len(c.Pattern) / 2
		enc := func(p []byte) ([]byte, error) {
			cmd := smbgen.New(e)
			smbgen.Restore(cmd, c.Base)
			rv := reflect.ValueOf(cmd).Elem()
			sl := reflect.MakeSlice(rv.FieldByName("Setup").Type(), k, k)
			for i := 0; i < k; i++ {
				sl.Index(i).SetUint(uint64(p[2*i]) | uint64(p[2*i+1])<<8)
			}
			rv.FieldByName("Setup").Set(sl)
			rv.FieldByName("SetupCount").SetUint(uint64(k))
			return marshalAny(cmd)
		}
		inv := make([]byte, len(c.Pattern))
		for i := range inv {
			inv[i] = ^c.Pattern[i]
		}
		e1, err1 := enc(c.Pattern)
		e2, err2 := enc(inv)
		if err1 != nil || err2 != nil || len(e1) != len(e2) {
			return []vf.Finding{vf.F(subject, "marshal-error", "%v / %v (%d vs %d bytes)", err1, err2, len(e1), len(e2))}
		}
		lo, hi := -1, -1
		for i := range e1 {
			if e1[i] != e2[i] {
				if lo < 0 {
					lo = i
				}
				hi = i
			}
		}
		if lo < 0 || hi-lo+1 != 2*k {
			return []vf.Finding{vf.F(subject, "wrong-width", "%d setup words change %d bytes", k, hi-lo+1)}
		}
		got := e1[lo : hi+1]
		if bytes.Equal(got, c.Pattern[:2*k]) {
			return nil
		}
		if bytes.Equal(got, reversedPerElement(c.Pattern[:2*k], 2)) {
			return []vf.Finding{vf.F(subject, "byte-reversed-in-own-slot", "words %x emitted as %x", []byte(c.Pattern[:2*k]), got)}
		}
		return []vf.Finding{vf.F(subject, "other-encoding", "emitted %x, MS-CIFS little-endian is %x", got, []byte(c.Pattern[:2*k]))}
	}
	if c.Type == "SMB_DATE" {
		// the packed word (year-1980)<<9 | month<<5 | day, little-endian
		y, m, d := 1980+int(c.Pattern[0]&0x7F), int(c.Pattern[1]&0x0F), int(c.Pattern[2]&0x1F)
		v := types.NewSMB_DATEFromDate(y, m, d)
		got, err := v.Marshal()
		w := uint16(y-1980)<<9 | uint16(m)<<5 | uint16(d)
		want := []byte{byte(w), byte(w >> 8)}
		if err != nil || !bytes.Equal(got, want) {
			kind := "other-encoding"
			if len(got) == 2 && got[0] == want[1] && got[1] == want[0] {
				kind = "byte-reversed-in-own-slot"
			}
			return []vf.Finding{vf.F("SMB_DATE", kind, "%04d-%02d-%02d emitted as %x (err %v), MS-CIFS 2.2.1.4.1 gives %x", y, m, d, got, err, want)}
		}
		return nil
	}
	var nt *nestedType
	for i, t := range nestedTypes() {
		if t.name == c.Type {
			nt = &nestedTypes()[i]
		}
	}
	if nt == nil {
		return []vf.Finding{vf.F("harness", "bad-case", "unknown type %s", c.Type)}
	}
	v1, v2 := nt.mk(), nt.mk()
	f1, f2 := reflect.ValueOf(v1).Elem().FieldByName(c.Field), reflect.ValueOf(v2).Elem().FieldByName(c.Field)
	w := int(f1.Type().Size())
	le := []byte(c.Pattern[:w])
	inv := make([]byte, w)
	for i := range inv {
		inv[i] = ^le[i]
	}
	setInt(f1, le)
	setInt(f2, inv)
	e1, err1 := marshalAny(v1)
	e2, err2 := marshalAny(v2)
	if err1 != nil || err2 != nil || len(e1) != len(e2) {
		return []vf.Finding{vf.F(subject, "marshal-error", "%v / %v (%d vs %d bytes)", err1, err2, len(e1), len(e2))}
	}
	lo, hi := -1, -1
	for i := range e1 {
		if e1[i] != e2[i] {
			if lo < 0 {
				lo = i
			}
			hi = i
		}
	}
	if lo < 0 {
		return []vf.Finding{vf.F(subject, "field-not-emitted", "changing every byte of the field leaves the %d-byte encoding unchanged", len(e1))}
	}
	if hi-lo+1 != w {
		return []vf.Finding{vf.F(subject, "wrong-width", "slot of %d bytes for a %d-byte type", hi-lo+1, w)}
	}
	got := e1[lo : hi+1]
	if bytes.Equal(got, le) {
		return nil
	}
	if bytes.Equal(got, reversedPerElement(le, w)) {
		return []vf.Finding{vf.F(subject, "byte-reversed-in-own-slot", "pattern %x emitted as %x", le, got)}
	}
	return []vf.Finding{vf.F(subject, "other-encoding", "emitted %x, MS-CIFS little-endian is %x", got, le)}
}

func TestNestedIntegers(t *testing.T) {
	s := vf.Begin(t, P, "nested-integers")
	var targets [][2]string
	for _, nt := range nestedTypes() {
		for _, f := range intFields(reflect.ValueOf(nt.mk()).Elem()) {
			targets = append(targets, [2]string{nt.name, f})
		}
	}
	targets = append(targets, [2]string{"TransactionRequest.Setup", "words"}, [2]string{"SMB_DATE", "packed"})
	s.Note("%d nested integer targets: %v", len(targets), targets)
	if len(targets) < 10 {
		t.Fatalf("INFRA: only %d nested integer fields found", len(targets))
	}
	per := vf.N(40, 600)
	idx := 0
	vf.Rapid(s, len(targets)*per, func(t *rapid.T) nestedCase {
		tg := targets[(idx/per)%len(targets)]
		idx++
		c := nestedCase{Type: tg[0], Field: tg[1], Pattern: rapid.SliceOfNDistinct(rapid.ByteRange(1, 254), 8, 8, rapid.ID[byte]).Draw(t, "pattern")}
		if c.Type == "TransactionRequest.Setup" {
			e, _ := smbgen.ByName("TransactionRequest")
			cmd := smbgen.New(e)
			smbgen.Fill(t, cmd, smbgen.Options{MaxBytes: 8})
			c.Base = smbgen.Snapshot(cmd)
		}
		return c
	}, checkNested, func(c nestedCase) bool { return true })
}
