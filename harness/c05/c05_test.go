// Package c05: SMB1 structures are emitted in the encoding MS-CIFS prescribes.
package c05

import (
	"bytes"
	"encoding/json"
	"fmt"
	"go/ast"
	"go/parser"
	"go/token"
	"os"
	"path/filepath"
	"reflect"
	"regexp"
	"sort"
	"strconv"
	"strings"
	"testing"

	"pgregory.net/rapid"

	"github.com/TheManticoreProject/Manticore/network/smb/smb_v10/dialects"
	"github.com/TheManticoreProject/Manticore/network/smb/smb_v10/message"
	"github.com/TheManticoreProject/Manticore/network/smb/smb_v10/message/commands/andx"
	"github.com/TheManticoreProject/Manticore/network/smb/smb_v10/message/commands/codes"
	"github.com/TheManticoreProject/Manticore/network/smb/smb_v10/message/data"
	"github.com/TheManticoreProject/Manticore/network/smb/smb_v10/message/header"
	"github.com/TheManticoreProject/Manticore/network/smb/smb_v10/message/parameters"
	"github.com/TheManticoreProject/Manticore/network/smb/smb_v10/types"

	"manticoreverif/smbgen"
	"manticoreverif/vf"
)

const P = "C05"

// ---- integer byte order, by marking -----------------------------------------------------------------

type markCase struct {
	Struct  string                     `json:"struct"`
	Fields  map[string]json.RawMessage `json:"fields"`
	Field   string                     `json:"field"`
	Pattern vf.Hex                     `json:"pattern"`
}

func reversedPerElement(le []byte, elem int) []byte {
	out := make([]byte, 0, len(le))
	for i := 0; i+elem <= len(le); i += elem {
		for j := elem - 1; j >= 0; j-- {
			out = append(out, le[i+j])
		}
	}
	return out
}

func elemWidth(t reflect.Type) int {
	switch t.String() {
	case "data_structures.FILETIME":
		return 4 // two little-endian DWORDs
	case "data_structures.LARGE_INTEGER":
		return 8
	case "types.SMB_NMPIPE_STATUS":
		return 1
	case "types.SMB_DATE", "types.SMB_FILE_ATTRIBUTES":
		return 2
	}
	if t.Kind() == reflect.Array {
		return elemWidth(t.Elem())
	}
	return smbgen.FixedWidth(t)
}

func checkByteOrder(c markCase) []vf.Finding {
	e, ok := smbgen.ByName(c.Struct)
	if !ok {
		return []vf.Finding{vf.F("harness", "bad-case", "unknown structure %s", c.Struct)}
	}
	subject := c.Struct + "." + c.Field
	sl := smbgen.Mark(e, c.Fields, c.Field, c.Pattern)
	if sl.ProblemKind != "" {
		// not emitted / not contiguous: C04's subject; for C05 the field has no judged encoding
		return nil
	}
	if sl.Width != sl.TypeWidth {
		return []vf.Finding{vf.F(subject, "wrong-width", "slot of %d bytes for a %d-byte type", sl.Width, sl.TypeWidth)}
	}
	if bytes.Equal(sl.Got, sl.LE) {
		return nil
	}
	ft := reflect.TypeOf(smbgen.New(e)).Elem()
	f, _ := ft.FieldByName(c.Field)
	if bytes.Equal(sl.Got, reversedPerElement(sl.LE, elemWidth(f.Type))) {
		return []vf.Finding{vf.F(subject, "byte-reversed-in-own-slot", "pattern %x emitted as %x, MS-CIFS little-endian is %x", []byte(c.Pattern[:sl.TypeWidth]), sl.Got, sl.LE)}
	}
	return []vf.Finding{vf.F(subject, "other-encoding", "emitted %x, MS-CIFS little-endian is %x", sl.Got, sl.LE)}
}

func fixedFields() (out [][2]string) {
	for _, e := range smbgen.Inventory() {
		cmd := smbgen.New(e)
		for _, f := range smbgen.OwnFields(cmd) {
			if smbgen.FixedWidth(f.Type) > 0 && !smbgen.IsCountField(e.Name, f.Name) {
				out = append(out, [2]string{e.Name, f.Name})
			}
		}
	}
	return
}

func TestIntegerByteOrder(t *testing.T) {
	s := vf.Begin(t, P, "encode-vs-ref")
	ff := fixedFields()
	s.Note("%d fixed-width fields; every one is written with a pattern of pairwise distinct bytes and with its complement", len(ff))
	per := vf.N(3, 50)
	idx := 0
	vf.Rapid(s, len(ff)*per, func(t *rapid.T) markCase {
		sf := ff[(idx/per)%len(ff)]
		idx++
		e, _ := smbgen.ByName(sf[0])
		cmd := smbgen.New(e)
		smbgen.Fill(t, cmd, smbgen.Options{MaxBytes: 12, DistinctBytes: true})
		return markCase{sf[0], smbgen.Snapshot(cmd), sf[1], rapid.SliceOfNDistinct(rapid.ByteRange(1, 254), 32, 32, rapid.ID[byte]).Draw(t, "pattern")}
	}, checkByteOrder, func(c markCase) bool {
		e, _ := smbgen.ByName(c.Struct)
		f, _ := reflect.TypeOf(smbgen.New(e)).Elem().FieldByName(c.Field)
		return elemWidth(f.Type) >= 2
	})
}

// ---- count fields (not markable: they are derived) are judged through the buffer they count --------------
//
// The structure is encoded twice, with the described buffer 0x0102 and 0x0201 bytes (or list elements)
// long and everything else equal (smbgen.CountSlot). The parameter bytes that differ between the two
// encodings are the count field's slot - found by position, not by searching for the value, which also
// matches the byte count of the data block - and their content is compared with the little-endian
// image of 0x0102. A 4-byte count shows only its two low-order bytes this way (no buffer reaches
// 65536 bytes); they are judged the same way. 8-bit counts have no byte order. A relation that
// cannot be exercised is counted and named in the notes.

type countCase struct {
	Struct string                     `json:"struct"`
	Count  string                     `json:"count_field"`
	Buffer string                     `json:"buffer"`
	Fields map[string]json.RawMessage `json:"fields"`
}

func countVerdict(c countCase) (fs []vf.Finding, status string) {
	e, ok := smbgen.ByName(c.Struct)
	if !ok {
		return []vf.Finding{vf.F("harness", "bad-case", "unknown structure %s", c.Struct)}, "bad-case"
	}
	var rel *smbgen.Relation
	for i, r := range smbgen.Relations[c.Struct] {
		if r.Count == c.Count && r.Buffer == c.Buffer {
			rel = &smbgen.Relations[c.Struct][i]
		}
	}
	if rel == nil {
		return []vf.Finding{vf.F("harness", "bad-case", "no relation %s.%s", c.Struct, c.Count)}, "bad-case"
	}
	cl := smbgen.CountSlot(e, c.Fields, *rel)
	if cl.Problem != "" {
		return nil, "not-exercised: " + cl.Problem
	}
	if cl.TypeWidth < 2 {
		return nil, "8-bit"
	}
	subject := c.Struct + "." + c.Count
	if cl.Width > cl.TypeWidth {
		return []vf.Finding{vf.F(subject, "wrong-width", "%d parameter bytes change with the length of %s, the count is a %d-byte type", cl.Width, c.Buffer, cl.TypeWidth)}, "judged"
	}
	le := make([]byte, cl.TypeWidth)
	for i := range le {
		le[i] = byte(cl.N1 >> (8 * uint(i)))
	}
	// the bytes that can change are the low-order ones: the first cl.Width bytes of the little-endian image
	got, want := cl.Enc[cl.Start:cl.Start+cl.Width], le[:cl.Width]
	if cl.Width < 2 {
		return nil, "not-exercised: one changing byte"
	}
	if bytes.Equal(got, want) {
		return nil, "judged"
	}
	if bytes.Equal(got, reversedPerElement(want, cl.Width)) {
		return []vf.Finding{vf.F(subject, "byte-reversed-in-own-slot", "count %#x of %s emitted big-endian (%x at %d)", cl.N1, c.Buffer, got, cl.Start)}, "judged"
	}
	return []vf.Finding{vf.F(subject, "other-encoding", "count %#x of %s emitted as %x at %d, MS-CIFS little-endian is %x", cl.N1, c.Buffer, got, cl.Start, want)}, "judged"
}

func TestCountFieldByteOrder(t *testing.T) {
	s := vf.Begin(t, P, "count-fields")
	type rel struct{ name, count, buffer string }
	var rels []rel
	for _, n := range smbgen.Names() {
		for _, r := range smbgen.Relations[n] {
			rels = append(rels, rel{n, r.Count, r.Buffer})
		}
	}
	per := vf.N(3, 40)
	idx := 0
	status := map[string]string{}
	judged := 0
	vf.Rapid(s, len(rels)*per, func(t *rapid.T) countCase {
		r := rels[(idx/per)%len(rels)]
		idx++
		e, _ := smbgen.ByName(r.name)
		cmd := smbgen.New(e)
		smbgen.Fill(t, cmd, smbgen.Options{MaxBytes: 8, MinElems: 1})
		return countCase{r.name, r.count, r.buffer, smbgen.Snapshot(cmd)}
	}, func(c countCase) []vf.Finding {
		fs, st := countVerdict(c)
		k := c.Struct + "." + c.Count
		if st == "judged" {
			judged++
		}
		if status[k] != "judged" {
			status[k] = st
		}
		s.Class(strings.SplitN(st, ":", 2)[0])
		return fs
	}, func(c countCase) bool { return true })
	var keys []string
	for k := range status {
		keys = append(keys, k)
	}
	sort.Strings(keys)
	var eight, not []string
	for _, k := range keys {
		switch {
		case status[k] == "8-bit":
			eight = append(eight, k)
		case status[k] != "judged":
			not = append(not, k+" ("+status[k]+")")
		}
	}
	s.Note("%d count relations; 8-bit counts (no byte order): %v; relations that could not be exercised: %v", len(rels), eight, not)
	if judged == 0 && !t.Failed() && os.Getenv("VERIF_REPLAY") == "" {
		t.Fatalf("INFRA: no count relation could be exercised")
	}
}

// ---- count fields, decode direction ------------------------------------------------------------------------------
//
// count-fields judges what the encoder writes into a count field. The decoder is judged on the same two
// encodings (described buffer 0x0102 and 0x0201 bytes or elements long, everything else equal), provided the
// encoder side is in order, i.e. the count's slot holds the MS-CIFS little-endian image - then these bytes are
// reference bytes as far as this field goes. Decoding them must give the count its value and the buffer its
// length. A decoder that reads the count with the bytes swapped takes 0x0201 for 0x0102: it finds the longer
// buffer's encoding acceptable and returns the shorter length. Where an encoding is refused the swapped image
// is tried in its place: a decoder that refuses the little-endian image and accepts the swapped one, giving
// exactly the count and the buffer length, reads the field byte-reversed. An encoding that is refused either way
// is not judged (a structure that cannot read its own encoding is C04's finding).

func countDecodeVerdict(c countCase) (fs []vf.Finding, status string) {
	e, ok := smbgen.ByName(c.Struct)
	if !ok {
		return []vf.Finding{vf.F("harness", "bad-case", "unknown structure %s", c.Struct)}, "bad-case"
	}
	var rel *smbgen.Relation
	for i, r := range smbgen.Relations[c.Struct] {
		if r.Count == c.Count && r.Buffer == c.Buffer {
			rel = &smbgen.Relations[c.Struct][i]
		}
	}
	if rel == nil {
		return []vf.Finding{vf.F("harness", "bad-case", "no relation %s.%s", c.Struct, c.Count)}, "bad-case"
	}
	cl := smbgen.CountSlot(e, c.Fields, *rel)
	if cl.Problem != "" {
		return nil, "not-exercised: " + cl.Problem
	}
	if cl.TypeWidth < 2 {
		return nil, "8-bit"
	}
	if cl.Width != 2 || cl.Start+cl.TypeWidth > 1+2*int(cl.Enc[0]) || cl.Start+cl.TypeWidth > 1+2*int(cl.Enc2[0]) {
		return nil, "not-exercised: no two-byte slot"
	}
	subject := c.Struct + "." + c.Count
	image := func(n int, swapped bool) []byte {
		b := make([]byte, cl.TypeWidth)
		for i := range b {
			b[i] = byte(n >> (8 * uint(i)))
		}
		if swapped {
			for i, j := 0, len(b)-1; i < j; i, j = i+1, j-1 {
				b[i], b[j] = b[j], b[i]
			}
		}
		return b
	}
	decode := func(enc []byte) (count uint64, buffer int, err error) {
		dec := smbgen.New(e)
		if err := safeUnmarshal(dec, append([]byte{}, enc...)); err != nil {
			return 0, 0, err
		}
		rv := reflect.ValueOf(dec).Elem()
		cv, bv := fieldByPath(rv, c.Count), fieldByPath(rv, c.Buffer)
		if !cv.IsValid() || !bv.IsValid() || !cv.CanUint() {
			return 0, 0, fmt.Errorf("relation names a field the structure does not have")
		}
		if rel.Pad {
			// an offset field that the decoders use as a pad length (recorded in C04): only the field's own value
			// is a matter of encoding rules, how long the pad comes out is not
			return cv.Uint(), int(cv.Uint()), nil
		}
		return cv.Uint(), bv.Len(), nil
	}
	judged := false
	for _, v := range []struct {
		n   int
		enc []byte
	}{{cl.N1, cl.Enc}, {cl.N2, cl.Enc2}} {
		if !bytes.Equal(v.enc[cl.Start:cl.Start+cl.TypeWidth], image(v.n, false)) {
			return nil, "encoder-side-not-little-endian" // count-fields reports it; no reference bytes to decode
		}
		count, buffer, err := decode(v.enc)
		if err != nil {
			probe := append([]byte{}, v.enc...)
			copy(probe[cl.Start:], image(v.n, true))
			if count, buffer, err2 := decode(probe); err2 == nil && count == uint64(v.n) && buffer == v.n {
				return []vf.Finding{vf.F(subject, "byte-reversed-in-own-slot", "count %#x of %s: the little-endian image %x at %d is refused (%v), the byte-swapped image %x decodes as that count with a buffer of that length", v.n, c.Buffer, image(v.n, false), cl.Start, err, image(v.n, true))}, "judged"
			}
			continue
		}
		judged = true
		if count == uint64(v.n) && buffer == v.n {
			continue
		}
		var rev uint64
		for _, b := range image(v.n, false) {
			rev = rev<<8 | uint64(b)
		}
		kind := "other-decoding"
		if count == rev {
			kind = "byte-reversed-in-own-slot"
		}
		return []vf.Finding{vf.F(subject, kind, "little-endian bytes %x of the count %#x at %d, %s %d elements long: decoded count %#x, %d elements", image(v.n, false), v.n, cl.Start, c.Buffer, v.n, count, buffer)}, "judged"
	}
	if !judged {
		return nil, "own-encoding-not-decodable"
	}
	return nil, "judged"
}

func fieldByPath(rv reflect.Value, path string) reflect.Value {
	for _, name := range strings.Split(path, ".") {
		if rv.Kind() != reflect.Struct {
			return reflect.Value{}
		}
		if rv = rv.FieldByName(name); !rv.IsValid() {
			return rv
		}
	}
	return rv
}

func TestCountFieldDecode(t *testing.T) {
	s := vf.Begin(t, P, "count-fields-decode")
	type rel struct{ name, count, buffer string }
	var rels []rel
	for _, n := range smbgen.Names() {
		for _, r := range smbgen.Relations[n] {
			rels = append(rels, rel{n, r.Count, r.Buffer})
		}
	}
	per := vf.N(3, 40)
	idx := 0
	status := map[string]string{}
	judged := 0
	vf.Rapid(s, len(rels)*per, func(t *rapid.T) countCase {
		r := rels[(idx/per)%len(rels)]
		idx++
		e, _ := smbgen.ByName(r.name)
		cmd := smbgen.New(e)
		smbgen.Fill(t, cmd, smbgen.Options{MaxBytes: 8, MinElems: 1})
		return countCase{r.name, r.count, r.buffer, smbgen.Snapshot(cmd)}
	}, func(c countCase) []vf.Finding {
		fs, st := countDecodeVerdict(c)
		k := c.Struct + "." + c.Count
		if st == "judged" {
			judged++
		}
		if status[k] != "judged" {
			status[k] = st
		}
		s.Class(strings.SplitN(st, ":", 2)[0])
		return fs
	}, func(c countCase) bool { return true })
	var keys []string
	for k := range status {
		keys = append(keys, k)
	}
	sort.Strings(keys)
	var not []string
	for _, k := range keys {
		if status[k] != "judged" && status[k] != "8-bit" {
			not = append(not, k+" ("+status[k]+")")
		}
	}
	s.Note("%d count relations decoded at both buffer lengths; not judged: %v", len(rels), not)
	if judged == 0 && !t.Failed() && os.Getenv("VERIF_REPLAY") == "" {
		t.Fatalf("INFRA: no count relation could be decoded")
	}
}

// ---- AndX block layout --------------------------------------------------------------------------------------

type andxCase struct {
	Struct   string                     `json:"struct"`
	Fields   map[string]json.RawMessage `json:"fields,omitempty"`
	Command  uint8                      `json:"andx_command"`
	Reserved uint8                      `json:"andx_reserved"`
	Offset   uint16                     `json:"andx_offset"`
}

func checkAndX(c andxCase) []vf.Finding {
	var fs []vf.Finding
	a := &andx.AndX{AndXCommand: codes.CommandCode(c.Command), AndXReserved: c.Reserved, AndXOffset: c.Offset}
	want := []byte{c.Command, c.Reserved, byte(c.Offset), byte(c.Offset >> 8)}
	got, err := a.Marshal()
	if err != nil || !bytes.Equal(got, want) {
		kind := "andx-block-differs-from-ms-cifs"
		if len(got) == 4 && got[0] == want[0] && got[1] == want[1] && got[2] == want[3] && got[3] == want[2] {
			kind = "byte-reversed-in-own-slot"
		}
		fs = append(fs, vf.F("AndX.AndXOffset", kind, "AndX.Marshal %x, MS-CIFS 2.2.3.4 layout %x", got, want))
	}
	if c.Struct != "" {
		e, _ := smbgen.ByName(c.Struct)
		cmd := smbgen.New(e)
		smbgen.Restore(cmd, c.Fields)
		cmd.SetAndX(a)
		enc, err := cmd.Marshal()
		if err != nil {
			return append(fs, vf.F(c.Struct, "marshal-error", "%v", err))
		}
		if len(enc) < 5 || !bytes.Equal(enc[1:3], want[:2]) {
			fs = append(fs, vf.F(c.Struct+".AndX", "andx-command-reserved-not-first-parameter-bytes", "parameter block starts %x, want %x", enc[:min(len(enc), 5)], want))
		} else if !bytes.Equal(enc[3:5], want[2:]) {
			kind := "andx-offset-differs"
			if enc[3] == want[3] && enc[4] == want[2] {
				kind = "byte-reversed-in-own-slot"
			}
			fs = append(fs, vf.F(c.Struct+".AndX.AndXOffset", kind, "offset bytes %x, MS-CIFS little-endian %x", enc[3:5], want[2:]))
		}
	}
	return fs
}

func TestAndXLayout(t *testing.T) {
	s := vf.Begin(t, P, "andx-layout")
	var andxStructs []string
	for _, e := range smbgen.Inventory() {
		if e.AndX {
			andxStructs = append(andxStructs, e.Name)
		}
	}
	vf.Rapid(s, vf.N(1500, 30000), func(t *rapid.T) andxCase {
		d := rapid.SliceOfNDistinct(rapid.ByteRange(1, 254), 4, 4, rapid.ID[byte]).Draw(t, "bytes")
		if rapid.IntRange(0, 2).Draw(t, "special") == 0 {
			// the values a block holds when nothing follows or nothing was filled in, and the extremes: an explicit
			// zero (command 0x00 is SMB_COM_CREATE_DIRECTORY, offset 0) is a field value like any other
			d[0] = rapid.SampledFrom([]byte{0x00, 0x00, 0x01, 0x2E, 0x75, 0xFE, 0xFF, 0xFF}).Draw(t, "command")
			d[1] = rapid.SampledFrom([]byte{0x00, 0x00, 0x01, 0xFF}).Draw(t, "reserved")
			off := rapid.SampledFrom([]uint16{0, 0, 0, 1, 0x00FF, 0x0100, 0x8000, 0xFFFF, 0x1234}).Draw(t, "offset")
			d[2], d[3] = byte(off), byte(off>>8)
		}
		st := ""
		var fields map[string]json.RawMessage
		if rapid.Bool().Draw(t, "inStruct") {
			st = andxStructs[rapid.IntRange(0, len(andxStructs)-1).Draw(t, "struct")]
			e, _ := smbgen.ByName(st)
			cmd := smbgen.New(e)
			smbgen.Fill(t, cmd, smbgen.Options{MaxBytes: 8})
			fields = smbgen.Snapshot(cmd)
		}
		return andxCase{st, fields, d[0], d[1], uint16(d[2]) | uint16(d[3])<<8}
	}, checkAndX, func(c andxCase) bool { return c.Struct != "" })
}

// ---- dialect strings and buffer-format strings ---------------------------------------------------------------

type dialectCase struct {
	Dialects []string `json:"dialects"`
}

func refDialects(ds []string) []byte {
	var b []byte
	for _, d := range ds {
		b = append(b, 0x02)
		b = append(b, d...)
		b = append(b, 0x00)
	}
	return b
}

func checkDialects(c dialectCase) []vf.Finding {
	// the list is the field value: it is assigned, not built through a helper whose policy (duplicates,
	// trimming ...) is not the subject here
	d := dialects.NewDialects()
	d.Dialects = append([]string{}, c.Dialects...)
	got, err := d.Marshal()
	want := refDialects(c.Dialects)
	var fs []vf.Finding
	if err != nil || !bytes.Equal(got, want) {
		// the kind names one recorded encoding exactly (one 0x02 in front of the NUL-joined names, with or
		// without a final NUL); everything else is the general kind
		kind := "dialects-differ-from-ms-cifs"
		single := append([]byte{0x02}, strings.Join(c.Dialects, "\x00")...)
		if err == nil && len(c.Dialects) >= 2 && (bytes.Equal(got, single) || bytes.Equal(got, append(single, 0x00))) {
			kind = "single-format-byte-for-whole-list"
		}
		fs = append(fs, vf.F("Dialects.Marshal", kind, "%d dialects: got %q want %q", len(c.Dialects), got, want))
	}
	// the decoder must accept the MS-CIFS encoding (of zero dialects too: no bytes)
	{
		back := dialects.NewDialects()
		n, err := back.Unmarshal(append([]byte{}, want...))
		if err != nil || len(back.Dialects) != len(c.Dialects) || (len(c.Dialects) > 0 && !reflect.DeepEqual(back.Dialects, c.Dialects)) {
			fs = append(fs, vf.F("Dialects.Unmarshal", "ms-cifs-dialect-list-misread", "%q -> %q (err %v)", want, back.Dialects, err))
		} else if n != len(want) {
			fs = append(fs, vf.F("Dialects.Unmarshal", "consumed-differs", "n=%d want %d", n, len(want)))
		}
	}
	return append(fs, checkNegotiateDialects(c, want)...)
}

// The same entries inside the structure that carries them: MS-CIFS 2.2.4.52.1, SMB_COM_NEGOTIATE request -
// WordCount 0x00, ByteCount, then the dialect entries and nothing else. The data block the library emits must be
// the reference list (every entry whole: format byte, name, terminator), and the reference bytes must decode
// to the same names.
func checkNegotiateDialects(c dialectCase, want []byte) (fs []vf.Finding) {
	if len(want) > 65535 {
		return nil
	}
	e, ok := smbgen.ByName("NegotiateRequest")
	if !ok {
		return nil // reachability of the structure is C04's subject
	}
	set := func(cmd smbgen.Cmd) bool {
		d := reflect.ValueOf(cmd).Elem().FieldByName("Dialects")
		if !d.IsValid() || d.Kind() != reflect.Struct || !d.FieldByName("Dialects").IsValid() {
			return false
		}
		d.FieldByName("Dialects").Set(reflect.ValueOf(append([]string{}, c.Dialects...)))
		return true
	}
	cmd := smbgen.NewValid(e)
	if !set(cmd) {
		return nil
	}
	ref := append([]byte{0x00, byte(len(want)), byte(len(want) >> 8)}, want...)
	if enc, err := marshalAny(cmd); err != nil || !bytes.Equal(enc, ref) {
		d := 0
		for d < len(enc) && d < len(ref) && enc[d] == ref[d] {
			d++
		}
		fs = append(fs, vf.F("NegotiateRequest.Dialects", "dialects-differ-from-ms-cifs", "%d dialects: err %v, %d bytes, MS-CIFS 2.2.4.52.1 gives %d bytes, first difference at byte %d", len(c.Dialects), err, len(enc), len(ref), d))
	}
	if len(c.Dialects) == 0 {
		return fs // two empty blocks are also what an error reply looks like: what a request decoder makes of them is not asked
	}
	back := smbgen.New(e)
	if err := safeUnmarshal(back, append([]byte{}, ref...)); err != nil {
		return append(fs, vf.F("NegotiateRequest.Dialects", "ms-cifs-dialect-list-misread", "%d dialects, %d bytes: %v", len(c.Dialects), len(ref), err))
	}
	if got, ok := reflect.ValueOf(back).Elem().FieldByName("Dialects").FieldByName("Dialects").Interface().([]string); !ok || !reflect.DeepEqual(got, c.Dialects) {
		fs = append(fs, vf.F("NegotiateRequest.Dialects", "ms-cifs-dialect-list-misread", "%d dialects decoded as %d: %q", len(c.Dialects), len(got), got))
	}
	return fs
}

var dialectNames = []string{"PC NETWORK PROGRAM 1.0", "PCLAN1.0", "MICROSOFT NETWORKS 1.03", "MICROSOFT NETWORKS 3.0", "LANMAN1.0", "LANMAN1.2", "LANMAN2.0", "LANMAN2.1", "LM1.2X002", "DOS LM1.2X002", "DOS LANMAN2.1", "Windows for Workgroups 3.1a", "NT LM 0.12"}

func TestDialects(t *testing.T) {
	s := vf.Begin(t, P, "dialects")
	vf.Rapid(s, vf.N(3000, 50000), func(t *rapid.T) dialectCase {
		// 0..40 entries (mostly a handful), one case in ten all 13 defined names together plus a few more; names
		// are the defined ones or any NUL-free byte string, mostly of 0..12 bytes, now and then up to 300: the
		// list passes 255 bytes and the entry count passes the number of defined dialects
		var ds []string
		n := rapid.IntRange(0, 8).Draw(t, "n")
		switch shape := rapid.IntRange(0, 9).Draw(t, "shape"); {
		case shape == 0:
			ds = append(ds, dialectNames...)
			n = rapid.IntRange(0, 4).Draw(t, "extra")
		case shape <= 2:
			n = rapid.IntRange(9, 40).Draw(t, "many")
		}
		for i := 0; i < n; i++ {
			if rapid.IntRange(0, 3).Draw(t, "custom") == 0 {
				// any NUL-free name, the empty one included ("02 00" is a well-formed entry)
				l := rapid.IntRange(0, 12).Draw(t, "len")
				if rapid.IntRange(0, 7).Draw(t, "long") == 0 {
					l = rapid.IntRange(13, 300).Draw(t, "longLen")
				}
				b := make([]byte, l)
				for j := range b {
					b[j] = byte(rapid.IntRange(1, 255).Draw(t, "ch"))
				}
				ds = append(ds, string(b))
			} else {
				ds = append(ds, dialectNames[rapid.IntRange(0, len(dialectNames)-1).Draw(t, "name")])
			}
		}
		if ds == nil {
			ds = []string{}
		}
		s.Class(fmt.Sprintf("list-bytes:%s", map[bool]string{false: "<=255", true: ">255"}[len(refDialects(ds)) > 255]))
		return dialectCase{ds}
	}, checkDialects, func(c dialectCase) bool { return len(c.Dialects) >= 2 })
}

type strCase struct {
	Format  uint8  `json:"format"`
	Content vf.Hex `json:"content"`
}

func checkBufferFormat(c strCase) []vf.Finding {
	// an internally consistent value: Length agrees with the Buffer it describes
	s := &types.SMB_STRING{BufferFormat: c.Format, Length: uint16(len(c.Content)), Buffer: append([]byte{}, c.Content...)}
	got, err := s.Marshal()
	var want []byte
	l := []byte{byte(len(c.Content)), byte(len(c.Content) >> 8)}
	switch c.Format {
	case 1, 5:
		want = append(append([]byte{c.Format}, l...), c.Content...)
	case 3:
		want = append(append(append([]byte{c.Format}, l...), c.Content...), 0)
	default:
		want = append(append([]byte{c.Format}, c.Content...), 0)
	}
	if err != nil || !bytes.Equal(got, want) {
		return []vf.Finding{vf.F(fmt.Sprintf("SMB_STRING/%02x", c.Format), "buffer-format-string-differs-from-ms-cifs", "got %x want %x (err %v)", got[:min(len(got), 24)], want[:min(len(want), 24)], err)}
	}
	return nil
}

func TestBufferFormats(t *testing.T) {
	s := vf.Begin(t, P, "buffer-format-strings")
	vf.Rapid(s, vf.N(3000, 50000), func(t *rapid.T) strCase {
		f := uint8(rapid.IntRange(1, 5).Draw(t, "format"))
		n := rapid.SampledFrom([]int{0, 1, 2, 255, 256, 300, 513}).Draw(t, "len")
		b := rapid.SliceOfN(rapid.ByteRange(1, 255), n, n).Draw(t, "content")
		return strCase{f, b}
	}, checkBufferFormat, func(c strCase) bool { return len(c.Content) >= 256 })
}

// ---- header fields little-endian ---------------------------------------------------------------------------------

type hdrCase struct {
	Bytes vf.Hex `json:"bytes"` // 23 pairwise distinct bytes
}

func checkHeaderLE(c hdrCase) []vf.Finding {
	b := c.Bytes
	h := header.NewHeader()
	h.Command = codes.CommandCode(b[0])
	h.Status = uint32(b[1]) | uint32(b[2])<<8 | uint32(b[3])<<16 | uint32(b[4])<<24
	h.SetFlags(b[5])
	h.SetFlags2(uint16(b[6]) | uint16(b[7])<<8)
	h.PIDHigh = uint16(b[8]) | uint16(b[9])<<8
	h.Reserved = uint16(b[10]) | uint16(b[11])<<8
	h.TID = uint16(b[12]) | uint16(b[13])<<8
	h.PIDLow = uint16(b[14]) | uint16(b[15])<<8
	h.UID = uint16(b[16]) | uint16(b[17])<<8
	h.MID = uint16(b[18]) | uint16(b[19])<<8
	want := append([]byte{0xFF, 'S', 'M', 'B'}, b[0:10]...)
	want = append(want, make([]byte, 8)...)
	want = append(want, b[10:20]...)
	got, err := h.Marshal()
	if err != nil || !bytes.Equal(got, want) {
		return []vf.Finding{vf.F("Header.Marshal", "header-differs-from-ms-cifs-2.2.3.1", "got %x want %x (err %v)", got, want, err)}
	}
	// The same header at the head of a message: the header is assigned after the command was added (a reply whose
	// command code the caller sets itself - the final response to SMB_COM_WRITE_RAW goes out as
	// SMB_COM_WRITE_COMPLETE - or a header taken over from a request), so its Command is the caller's value and in
	// general not the code of the structure that follows. The first 32 bytes of the message are the encoding of
	// these field values, and encoding leaves them as they were.
	names := smbgen.Names()
	e, _ := smbgen.ByName(names[int(b[19])%len(names)])
	m := message.NewMessage()
	m.AddCommand(smbgen.NewValid(e))
	m.Header = h
	enc, err := func() (b []byte, err error) {
		defer func() {
			if r := recover(); r != nil {
				err = fmt.Errorf("panic: %v", r)
			}
		}()
		return m.Marshal()
	}()
	if err != nil {
		return nil // a structure that does not encode in its factory-fresh form: C04's subject
	}
	if len(enc) < 32 || !bytes.Equal(enc[:32], want) {
		return []vf.Finding{vf.F("Message.Marshal", "message-header-differs-from-header-fields", "%s under a header with command %#x: message starts %x, the header's fields encode as %x", e.Name, b[0], enc[:min(len(enc), 32)], want)}
	}
	if again, err := h.Marshal(); err != nil || !bytes.Equal(again, want) {
		return []vf.Finding{vf.F("Message.Marshal", "header-fields-changed-by-encoding", "%s under a header with command %#x: after Message.Marshal the header encodes as %x, before as %x (err %v)", e.Name, b[0], again, want, err)}
	}
	return nil
}

func TestHeaderLittleEndian(t *testing.T) {
	s := vf.Begin(t, P, "header-fields")
	vf.Rapid(s, vf.N(3000, 50000), func(t *rapid.T) hdrCase {
		return hdrCase{rapid.SliceOfNDistinct(rapid.ByteRange(1, 254), 20, 20, rapid.ID[byte]).Draw(t, "bytes")}
	}, checkHeaderLE, func(c hdrCase) bool { return true })
}

// ---- decode direction: the decoders accept reference bytes ------------------------------------------------------
//
// Commands: marking gives the slot of a fixed-width field in a valid encoding; writing the little-endian
// image of a pattern into that slot yields the bytes an MS-CIFS encoder produces for "this assignment
// with the pattern in that field". Decoding them must put the pattern's value into the field. (An
// encoder and a decoder that are both big-endian round-trip; only this direction shows the decoder.)
// A structure that cannot decode even its own encoding is C04's finding and is not judged here; a field that does
// not come back from the library's own encoding is judged all the same (on the reference bytes).

func safeUnmarshal(c smbgen.Cmd, b []byte) (err error) {
	defer func() {
		if r := recover(); r != nil {
			err = fmt.Errorf("panic: %v", r)
		}
	}()
	_, err = c.Unmarshal(b)
	return err
}

func decodeRefVerdict(c markCase) ([]vf.Finding, string) {
	e, ok := smbgen.ByName(c.Struct)
	if !ok {
		return []vf.Finding{vf.F("harness", "bad-case", "unknown structure %s", c.Struct)}, "bad-case"
	}
	subject := c.Struct + "." + c.Field
	sl := smbgen.Mark(e, c.Fields, c.Field, c.Pattern)
	if sl.ProblemKind != "" || sl.Width != sl.TypeWidth {
		return nil, "no-slot" // no well-defined slot to write into (C04 slot-locality / C05 encode-vs-ref report that)
	}
	own := smbgen.New(e)
	if err := safeUnmarshal(own, append([]byte{}, sl.Enc...)); err != nil {
		return nil, "own-encoding-not-decodable"
	}
	// Whether the decoder gives back what the library's own encoder wrote does not decide whether the decoder is
	// judged: an encoder that is right and a decoder that is not do not round-trip either, and that is exactly
	// the decoder this sub-check is about. It only decides the name of a finding that is not a plain byte swap.
	roundTrips := bytes.Equal(smbgen.PatternOf(reflect.ValueOf(own).Elem().FieldByName(c.Field)), sl.LE)
	status := "judged"
	if !roundTrips {
		status = "judged:field-does-not-round-trip"
	}
	ref := append([]byte{}, sl.Enc...)
	copy(ref[sl.Start:], sl.LE)
	dec := smbgen.New(e)
	if err := safeUnmarshal(dec, ref); err != nil {
		return []vf.Finding{vf.F(subject, "reference-encoding-rejected", "little-endian image %x in the field's slot [%d,+%d): %v", sl.LE, sl.Start, sl.Width, err)}, status
	}
	fv := reflect.ValueOf(dec).Elem().FieldByName(c.Field)
	got := smbgen.PatternOf(fv)
	if bytes.Equal(got, sl.LE) {
		return nil, status
	}
	if bytes.Equal(got, reversedPerElement(sl.LE, elemWidth(fv.Type()))) {
		return []vf.Finding{vf.F(subject, "byte-reversed-in-own-slot", "slot bytes %x decoded as the value whose little-endian image is %x", sl.LE, got)}, status
	}
	if !roundTrips {
		// the decoder reads the field from somewhere else or not at all (the library's own encoding does not come
		// back either): its own kind, so that it is told apart from a decoder that reads the right bytes wrongly
		return []vf.Finding{vf.F(subject, "reference-bytes-not-decoded-into-field", "slot bytes %x at [%d,+%d) decoded as the value whose little-endian image is %x (the library's own encoding does not round-trip this field either)", sl.LE, sl.Start, sl.Width, got)}, status
	}
	return []vf.Finding{vf.F(subject, "other-decoding", "slot bytes %x decoded as the value whose little-endian image is %x", sl.LE, got)}, status
}

func TestDecodeVsRef(t *testing.T) {
	s := vf.Begin(t, P, "decode-vs-ref")
	ff := fixedFields()
	per := vf.N(3, 50)
	idx := 0
	vf.Rapid(s, len(ff)*per, func(t *rapid.T) markCase {
		sf := ff[(idx/per)%len(ff)]
		idx++
		e, _ := smbgen.ByName(sf[0])
		cmd := smbgen.New(e)
		smbgen.Fill(t, cmd, smbgen.Options{MaxBytes: 12, DistinctBytes: true})
		return markCase{sf[0], smbgen.Snapshot(cmd), sf[1], rapid.SliceOfNDistinct(rapid.ByteRange(1, 254), 32, 32, rapid.ID[byte]).Draw(t, "pattern")}
	}, func(c markCase) []vf.Finding {
		fs, st := decodeRefVerdict(c)
		s.Class(st)
		return fs
	}, func(c markCase) bool {
		e, _ := smbgen.ByName(c.Struct)
		f, _ := reflect.TypeOf(smbgen.New(e)).Elem().FieldByName(c.Field)
		return elemWidth(f.Type) >= 2
	})
}

// ---- lists of words / fixed-size structures: every element is decoded from its own position ----------------------
//
// decode-vs-ref judges the fixed-width own fields of a structure; the elements of a list-valued field (the
// lock ranges of SMB_COM_LOCKING_ANDX, the setup words of a transaction) are values of the same kind one level
// down, each at its own position: element k of a list whose elements are w bytes wide stands at bytes
// [k*w, (k+1)*w) of the list, and the list stands where the encoder puts it (found by marking all members,
// smbgen.MarkDeep). Every list of the structure gets its own generated number of elements, the span of one
// list is overwritten with a generated byte pattern (adjacent elements differ; members MS-CIFS reserves as
// Pad / Reserved stay zero, which is what a reference encoder writes there and what a decoder is free to
// ignore) and the bytes are decoded: element k must hold, member by member in declaration order, the value
// whose little-endian image stands at its position. A decoder that reads an element from somewhere else
// (the start of the data block instead of behind the preceding list, say) is told apart by searching the
// reference encoding for the image of what it returned.

type listCase struct {
	Struct  string                     `json:"struct"`
	Fields  map[string]json.RawMessage `json:"fields"`
	Field   string                     `json:"field"`
	Pattern vf.Hex                     `json:"pattern"` // the reference bytes of the whole list, element after element
}

type listMember struct {
	name       string // "" for a list of plain words
	off, width int
	reserved   bool
}

// listElemLayout: the members of one list element in declaration order with their MS-CIFS widths; ok is false
// when a member is not a fixed-width value (strings, nested structures: not laid out by position alone).
func listElemLayout(t reflect.Type) (ms []listMember, width int, ok bool) {
	if w := smbgen.FixedWidth(t); w > 0 {
		return []listMember{{"", 0, w, false}}, w, true
	}
	if t.Kind() != reflect.Struct {
		return nil, 0, false
	}
	for i := 0; i < t.NumField(); i++ {
		f := t.Field(i)
		if !f.IsExported() {
			continue
		}
		w := smbgen.FixedWidth(f.Type)
		if w == 0 {
			return nil, 0, false
		}
		ms = append(ms, listMember{f.Name, width, w, f.Name == "Pad" || strings.HasPrefix(f.Name, "Reserved")})
		width += w
	}
	return ms, width, width > 0
}

func listMemberValue(el reflect.Value, m listMember) reflect.Value {
	if m.name == "" {
		return el
	}
	return el.FieldByName(m.name)
}

// listSpanOwner says which list of the structure (and which of its elements) the byte at offset off of the
// encoding belongs to, as far as marking can tell.
func listSpanOwner(e smbgen.Entry, fields map[string]json.RawMessage, off int) string {
	cmd := smbgen.New(e)
	if smbgen.Restore(cmd, fields) != nil {
		return "no list of the structure"
	}
	rv := reflect.ValueOf(cmd).Elem()
	for _, g := range smbgen.ListFields(cmd) {
		gv := rv.FieldByName(g)
		_, ew, ok := listElemLayout(gv.Type().Elem())
		if !ok || gv.Len() == 0 {
			continue
		}
		sl := smbgen.MarkDeep(e, fields, g)
		if sl.ProblemKind != "" || sl.Width != gv.Len()*ew || off < sl.Start || off >= sl.Start+sl.Width {
			continue
		}
		if (off-sl.Start)%ew == 0 {
			return fmt.Sprintf("the position of %s[%d]", g, (off-sl.Start)/ew)
		}
		return fmt.Sprintf("inside the span of %s, %d bytes into element %d", g, (off-sl.Start)%ew, (off-sl.Start)/ew)
	}
	return "no list of the structure"
}

func listDecodeVerdict(c listCase) ([]vf.Finding, string) {
	e, ok := smbgen.ByName(c.Struct)
	if !ok {
		return []vf.Finding{vf.F("harness", "bad-case", "unknown structure %s", c.Struct)}, "bad-case"
	}
	subject := c.Struct + "." + c.Field
	cmd := smbgen.New(e)
	if err := smbgen.Restore(cmd, c.Fields); err != nil {
		return []vf.Finding{vf.F("harness", "bad-case", "%v", err)}, "bad-case"
	}
	rv := reflect.ValueOf(cmd).Elem()
	fv := rv.FieldByName(c.Field)
	if !fv.IsValid() || fv.Kind() != reflect.Slice {
		return []vf.Finding{vf.F("harness", "bad-case", "%s is not a list", subject)}, "bad-case"
	}
	ms, ew, ok := listElemLayout(fv.Type().Elem())
	if !ok {
		return nil, "not-judged:element-not-fixed-width"
	}
	n := fv.Len()
	if n == 0 {
		return nil, "no-slot"
	}
	if len(c.Pattern) != n*ew {
		return []vf.Finding{vf.F("harness", "bad-case", "%d pattern bytes for %d elements of %d bytes", len(c.Pattern), n, ew)}, "bad-case"
	}
	sl := smbgen.MarkDeep(e, c.Fields, c.Field)
	if sl.ProblemKind != "" || sl.Width != n*ew {
		// not emitted, or the elements are not laid out back to back: the encoder side (C04 slot-locality, C05
		// widths-on-wire / nested-integers) reports that; there is no position to write reference bytes to
		return nil, "no-slot"
	}
	own := smbgen.New(e)
	if err := safeUnmarshal(own, append([]byte{}, sl.Enc...)); err != nil {
		return nil, "own-encoding-not-decodable" // C04's finding, as in decode-vs-ref
	}
	populated, lists := 0, 0
	for _, g := range smbgen.ListFields(cmd) {
		lists++
		if rv.FieldByName(g).Len() > 0 {
			populated++
		}
	}
	status := "judged:single-list"
	if lists > 1 {
		status = "judged:some-other-list-empty"
		if populated == lists {
			status = "judged:every-list-populated"
		}
	}
	ref := append([]byte{}, sl.Enc...)
	copy(ref[sl.Start:], c.Pattern)
	dec := smbgen.New(e)
	if err := safeUnmarshal(dec, append([]byte{}, ref...)); err != nil {
		return []vf.Finding{vf.F(subject, "reference-encoding-rejected", "%d elements %x in the list's span [%d,+%d): %v", n, []byte(c.Pattern), sl.Start, sl.Width, err)}, status
	}
	got := reflect.ValueOf(dec).Elem().FieldByName(c.Field)
	if got.Len() != n {
		return []vf.Finding{vf.F(subject, "list-length-differs", "%d elements in the span [%d,+%d) (count fields as the library wrote them), %d decoded", n, sl.Start, sl.Width, got.Len())}, status
	}
	var fs []vf.Finding
	seen := map[string]bool{}
	add := func(kind, format string, a ...any) {
		if !seen[kind] { // one finding per kind and case: the first element that shows it
			seen[kind] = true
			fs = append(fs, vf.F(subject, kind, format, a...))
		}
	}
	for k := 0; k < n; k++ {
		want := []byte(c.Pattern[k*ew : (k+1)*ew])
		var image []byte
		equal, swapped := true, true
		bad := ""
		for _, m := range ms {
			mv := listMemberValue(got.Index(k), m)
			g := smbgen.PatternOf(mv)
			image = append(image, g...)
			w := want[m.off : m.off+m.width]
			if bytes.Equal(g, w) {
				continue
			}
			equal = false
			if bad == "" {
				bad = m.name
			}
			if !bytes.Equal(g, reversedPerElement(w, elemWidth(mv.Type()))) {
				swapped = false
			}
		}
		if equal {
			continue
		}
		at := fmt.Sprintf("element %d", k)
		if bad != "" {
			at += " (first differing member: " + bad + ")"
		}
		if swapped {
			add("byte-reversed-in-own-slot", "%s: bytes %x at [%d,+%d) decoded as the value whose little-endian image is %x", at, want, sl.Start+k*ew, ew, image)
			continue
		}
		from := -1
		if len(image) == ew {
			for i := 0; i+ew <= len(ref); i++ {
				if i != sl.Start+k*ew && bytes.Equal(ref[i:i+ew], image) {
					from = i
					break
				}
			}
		}
		if from >= 0 {
			add("element-decoded-from-another-position", "%s stands at [%d,+%d) of the reference encoding and holds %x; decoded as the value whose little-endian image is %x, which stands at offset %d (%s)", at, sl.Start+k*ew, ew, want, image, from, listSpanOwner(e, c.Fields, from))
			continue
		}
		add("other-decoding", "%s: bytes %x at [%d,+%d) decoded as the value whose little-endian image is %x", at, want, sl.Start+k*ew, ew, image)
	}
	return fs, status
}

func TestListElementsDecodeVsRef(t *testing.T) {
	s := vf.Begin(t, P, "list-elements-decode-vs-ref")
	type target struct {
		e     smbgen.Entry
		field string
	}
	var targets []target
	var named, left []string
	for _, e := range smbgen.Inventory() {
		cmd := smbgen.New(e)
		for _, f := range smbgen.ListFields(cmd) {
			ft, _ := reflect.TypeOf(cmd).Elem().FieldByName(f)
			if _, _, ok := listElemLayout(ft.Type.Elem()); !ok {
				left = append(left, e.Name+"."+f)
				continue
			}
			targets = append(targets, target{e, f})
			named = append(named, e.Name+"."+f)
		}
	}
	s.Note("%d list fields with fixed-width elements: %v; elements with members that are not fixed-width (not laid out by position alone, not judged here): %v", len(targets), named, left)
	if len(targets) < 2 {
		t.Fatalf("INFRA: only %d list fields with fixed-width elements found", len(targets))
	}
	per := vf.N(40, 400)
	idx := 0
	o := smbgen.Options{MaxBytes: 12, DistinctBytes: true}
	vf.Rapid(s, len(targets)*per, func(t *rapid.T) listCase {
		tg := targets[(idx/per)%len(targets)]
		idx++
		cmd := smbgen.New(tg.e)
		smbgen.Fill(t, cmd, o)
		// every list its own number of elements; three cases in four none of them is empty (a list read from the
		// position of another one shows only when both are there)
		atLeast := 0
		if rapid.IntRange(0, 3).Draw(t, "everyListPopulated") > 0 {
			atLeast = 1
		}
		for _, g := range smbgen.ListFields(cmd) {
			lo := atLeast
			if g == tg.field {
				lo = 1
			}
			smbgen.FillList(t, cmd, g, rapid.IntRange(lo, 4).Draw(t, g+"N"), o)
		}
		fv := reflect.ValueOf(cmd).Elem().FieldByName(tg.field)
		ms, ew, _ := listElemLayout(fv.Type().Elem())
		n := fv.Len()
		p := rapid.SliceOfN(rapid.ByteRange(1, 254), n*ew, n*ew).Draw(t, "pattern")
		first := 0 // the first byte of an element that is not reserved
		for _, m := range ms {
			if !m.reserved {
				first = m.off
				break
			}
		}
		for k := 0; k < n; k++ {
			el := p[k*ew : (k+1)*ew]
			for _, m := range ms {
				if m.reserved {
					for i := m.off; i < m.off+m.width; i++ {
						el[i] = 0
					}
				}
			}
			if k > 0 && bytes.Equal(el, p[(k-1)*ew:k*ew]) {
				el[first] = el[first]%254 + 1
			}
		}
		return listCase{tg.e.Name, smbgen.Snapshot(cmd), tg.field, p}
	}, func(c listCase) []vf.Finding {
		fs, st := listDecodeVerdict(c)
		s.Class(st)
		return fs
	}, func(c listCase) bool {
		e, _ := smbgen.ByName(c.Struct)
		cmd := smbgen.New(e)
		if smbgen.Restore(cmd, c.Fields) != nil {
			return false
		}
		rv := reflect.ValueOf(cmd).Elem()
		populated := 0
		for _, g := range smbgen.ListFields(cmd) {
			if rv.FieldByName(g).Len() > 0 {
				populated++
			}
		}
		return populated >= 2 || rv.FieldByName(c.Field).Len() >= 2
	})
}

// Header, buffer-format strings, the AndX block and the wire types below the commands: reference bytes
// written by the harness (MS-CIFS layouts, little-endian) are decoded and the fields compared.

type refCase struct {
	Kind    string `json:"kind"` // "Header", "SMB_STRING/0N", "AndX", "SMB_DATE", "SMB_FILE_ATTRIBUTES", "<Type>.<Field>"
	Pattern vf.Hex `json:"pattern"`
}

func le16(b []byte) uint16 { return uint16(b[0]) | uint16(b[1])<<8 }
func le32(b []byte) uint32 {
	return uint32(b[0]) | uint32(b[1])<<8 | uint32(b[2])<<16 | uint32(b[3])<<24
}

func decodedInt(subject string, got, want uint64, w int) []vf.Finding {
	if got == want {
		return nil
	}
	var rev uint64
	for i := 0; i < w; i++ {
		rev = rev<<8 | (want>>(8*uint(i)))&0xFF
	}
	if got == rev && w >= 2 {
		return []vf.Finding{vf.F(subject, "byte-reversed-in-own-slot", "little-endian bytes of %#x decoded as %#x", want, got)}
	}
	return []vf.Finding{vf.F(subject, "other-decoding", "little-endian bytes of %#x decoded as %#x", want, got)}
}

func checkDecodeRefTypes(c refCase) []vf.Finding {
	p := c.Pattern
	switch {
	case c.Kind == "Header":
		// MS-CIFS 2.2.3.1: Protocol(4) Command(1) Status(4) Flags(1) Flags2(2) PIDHigh(2) SecurityFeatures(8) Reserved(2) TID(2) PIDLow(2) UID(2) MID(2)
		ref := append([]byte{0xFF, 'S', 'M', 'B'}, p[:28]...)
		h := header.NewHeader()
		n, err := h.Unmarshal(append([]byte{}, ref...))
		if err != nil || n != 32 {
			return []vf.Finding{vf.F("Header.Unmarshal", "reference-encoding-rejected", "n=%d err=%v", n, err)}
		}
		var fs []vf.Finding
		fs = append(fs, decodedInt("Header.Command", uint64(h.Command), uint64(p[0]), 1)...)
		fs = append(fs, decodedInt("Header.Status", uint64(h.Status), uint64(le32(p[1:])), 4)...)
		fs = append(fs, decodedInt("Header.Flags", uint64(h.Flags), uint64(p[5]), 1)...)
		fs = append(fs, decodedInt("Header.Flags2", uint64(h.Flags2), uint64(le16(p[6:])), 2)...)
		fs = append(fs, decodedInt("Header.PIDHigh", uint64(h.PIDHigh), uint64(le16(p[8:])), 2)...)
		if sec, err := h.SecurityFeatures.Marshal(); err != nil || !bytes.Equal(sec, p[10:18]) {
			fs = append(fs, vf.F("Header.SecurityFeatures", "other-decoding", "bytes %x decoded as %x (err %v)", []byte(p[10:18]), sec, err))
		}
		fs = append(fs, decodedInt("Header.Reserved", uint64(h.Reserved), uint64(le16(p[18:])), 2)...)
		fs = append(fs, decodedInt("Header.TID", uint64(h.TID), uint64(le16(p[20:])), 2)...)
		fs = append(fs, decodedInt("Header.PIDLow", uint64(h.PIDLow), uint64(le16(p[22:])), 2)...)
		fs = append(fs, decodedInt("Header.UID", uint64(h.UID), uint64(le16(p[24:])), 2)...)
		fs = append(fs, decodedInt("Header.MID", uint64(h.MID), uint64(le16(p[26:])), 2)...)
		return fs
	case strings.HasPrefix(c.Kind, "SMB_STRING/"):
		f := c.Kind[len(c.Kind)-1] - '0'
		content := p
		ref := refString(f, content)
		d := &types.SMB_STRING{}
		n, err := d.Unmarshal(append([]byte{}, ref...))
		subject := c.Kind + ".Unmarshal"
		if err != nil {
			return []vf.Finding{vf.F(subject, "reference-encoding-rejected", "%d content bytes: %v", len(content), err)}
		}
		if d.BufferFormat != f || int(d.Length) != len(content) || !bytes.Equal(d.Buffer, content) || n != len(ref) {
			kind := "other-decoding"
			if len(content) >= 256 && int(d.Length) == len(content)>>8|len(content)&0xFF<<8 {
				kind = "byte-reversed-in-own-slot"
			}
			return []vf.Finding{vf.F(subject, kind, "reference string of %d bytes decoded as format %#x length %d, %d bytes, consumed %d of %d", len(content), d.BufferFormat, d.Length, len(d.Buffer), n, len(ref))}
		}
		return nil
	case c.Kind == "AndX":
		a := andx.NewAndX()
		if n, err := a.Unmarshal(append([]byte{}, p[:4]...)); err != nil || n != 4 {
			return []vf.Finding{vf.F("AndX.Unmarshal", "reference-encoding-rejected", "n=%d err=%v", n, err)}
		}
		var fs []vf.Finding
		fs = append(fs, decodedInt("AndX.AndXCommand", uint64(a.AndXCommand), uint64(p[0]), 1)...)
		fs = append(fs, decodedInt("AndX.AndXReserved", uint64(a.AndXReserved), uint64(p[1]), 1)...)
		fs = append(fs, decodedInt("AndX.AndXOffset", uint64(a.AndXOffset), uint64(le16(p[2:])), 2)...)
		return fs
	case c.Kind == "SMB_DATE":
		d := types.NewSMB_DATE()
		if n, err := d.Unmarshal(append([]byte{}, p[:2]...)); err != nil || n != 2 {
			return []vf.Finding{vf.F("SMB_DATE.Unmarshal", "reference-encoding-rejected", "n=%d err=%v", n, err)}
		}
		w := le16(p)
		got := (uint16(d.Year)-1980)<<9 | uint16(d.Month)&0xF<<5 | uint16(d.Day)&0x1F
		return decodedInt("SMB_DATE", uint64(got), uint64(w), 2)
	case c.Kind == "SMB_FILE_ATTRIBUTES":
		d := &types.SMB_FILE_ATTRIBUTES{}
		if n, err := d.Unmarshal(append([]byte{}, p[:2]...)); err != nil || n != 2 {
			return []vf.Finding{vf.F("SMB_FILE_ATTRIBUTES.Unmarshal", "reference-encoding-rejected", "n=%d err=%v", n, err)}
		}
		return decodedInt("SMB_FILE_ATTRIBUTES.Attributes", uint64(d.Attributes), uint64(le16(p)), 2)
	}
	// a member of a wire type: find its slot by marking the encoder, write the little-endian image, decode
	parts := strings.SplitN(c.Kind, ".", 2)
	var nt *nestedType
	for i, t := range nestedTypes() {
		if t.name == parts[0] {
			nt = &nestedTypes()[i]
		}
	}
	if nt == nil || len(parts) != 2 {
		return []vf.Finding{vf.F("harness", "bad-case", "unknown kind %s", c.Kind)}
	}
	lo, w, e1, fs := markNested(*nt, parts[1], p)
	if fs != nil || lo < 0 {
		return nil // the encoder side has no well-defined slot: nested-integers reports that
	}
	ref := append([]byte{}, e1...)
	copy(ref[lo:], p[:w])
	d := nt.mk()
	if _, err := unmarshalAny(d, ref); err != nil {
		return []vf.Finding{vf.F(c.Kind, "reference-encoding-rejected", "%v", err)}
	}
	fv := reflect.ValueOf(d).Elem().FieldByName(parts[1])
	got := smbgen.PatternOf(fv)
	if bytes.Equal(got, p[:w]) {
		return nil
	}
	if bytes.Equal(got, reversedPerElement(p[:w], elemWidth(fv.Type()))) {
		return []vf.Finding{vf.F(c.Kind, "byte-reversed-in-own-slot", "slot bytes %x decoded as the value whose little-endian image is %x", []byte(p[:w]), got)}
	}
	return []vf.Finding{vf.F(c.Kind, "other-decoding", "slot bytes %x decoded as the value whose little-endian image is %x", []byte(p[:w]), got)}
}

func refString(f uint8, content []byte) []byte {
	l := []byte{byte(len(content)), byte(len(content) >> 8)}
	switch f {
	case 1, 5:
		return append(append([]byte{f}, l...), content...)
	case 3:
		return append(append(append([]byte{f}, l...), content...), 0)
	}
	return append(append([]byte{f}, content...), 0)
}

func unmarshalAny(v interface{}, b []byte) (n int, err error) {
	defer func() {
		if r := recover(); r != nil {
			err = fmt.Errorf("panic: %v", r)
		}
	}()
	return v.(interface{ Unmarshal([]byte) (int, error) }).Unmarshal(b)
}

func TestDecodeVsRefTypes(t *testing.T) {
	s := vf.Begin(t, P, "decode-vs-ref-types")
	kinds := []string{"Header", "SMB_STRING/01", "SMB_STRING/02", "SMB_STRING/03", "SMB_STRING/04", "SMB_STRING/05", "AndX", "SMB_DATE", "SMB_FILE_ATTRIBUTES"}
	for _, nt := range nestedTypes() {
		for _, f := range markableFields(reflect.ValueOf(nt.mk()).Elem()) {
			kinds = append(kinds, nt.name+"."+f)
		}
	}
	s.Note("%d decoder targets: %v", len(kinds), kinds)
	per := vf.N(60, 1000)
	idx := 0
	vf.Rapid(s, len(kinds)*per, func(t *rapid.T) refCase {
		k := kinds[(idx/per)%len(kinds)]
		idx++
		if strings.HasPrefix(k, "SMB_STRING/") {
			n := rapid.SampledFrom([]int{0, 1, 2, 255, 256, 258, 300, 513}).Draw(t, "len")
			return refCase{k, rapid.SliceOfN(rapid.ByteRange(1, 255), n, n).Draw(t, "content")}
		}
		return refCase{k, rapid.SliceOfNDistinct(rapid.ByteRange(1, 254), 28, 28, rapid.ID[byte]).Draw(t, "pattern")}
	}, checkDecodeRefTypes, func(c refCase) bool { return !strings.HasPrefix(c.Kind, "SMB_STRING/") || len(c.Pattern) >= 256 })
}

// ---- declared widths vs the "(N bytes)" sizes MS-CIFS gives (quoted in the source's field comments) ----------------

type widthCase struct {
	Struct string `json:"struct"`
	Field  string `json:"field"`
	Spec   int    `json:"spec_bytes"`
	Decl   int    `json:"declared_bytes"`
}

var sizeRe = regexp.MustCompile(`^\s*(\w+) \((\d+) bytes?\)`)

// Both source scans read doc comments, which may be reworded freely. Whatever they still find is judged;
// below a small absolute minimum the sub-check reports itself as skipped (not judged).
const (
	minSizeComments   = 3
	minFormatComments = 3
)

func repoRoot() string {
	if r := os.Getenv("VERIF_REPO"); r != "" {
		return r
	}
	return "/repo"
}

func specWidths() []widthCase {
	dir := filepath.Join(repoRoot(), "network/smb/smb_v10/message/commands")
	fset := token.NewFileSet()
	pkgs, err := parser.ParseDir(fset, dir, func(fi os.FileInfo) bool { return !strings.HasSuffix(fi.Name(), "_test.go") }, parser.ParseComments)
	if err != nil {
		return nil
	}
	var out []widthCase
	for _, pkg := range pkgs {
		for _, file := range pkg.Files {
			for _, decl := range file.Decls {
				gd, ok := decl.(*ast.GenDecl)
				if !ok {
					continue
				}
				for _, spec := range gd.Specs {
					ts, ok := spec.(*ast.TypeSpec)
					if !ok {
						continue
					}
					st, ok := ts.Type.(*ast.StructType)
					if !ok {
						continue
					}
					e, reachable := smbgen.ByName(ts.Name.Name)
					if !reachable {
						continue
					}
					rt := reflect.TypeOf(smbgen.New(e)).Elem()
					for _, f := range st.Fields.List {
						if f.Doc == nil || len(f.Names) != 1 {
							continue
						}
						m := sizeRe.FindStringSubmatch(strings.TrimPrefix(f.Doc.List[0].Text, "//"))
						if m == nil || m[1] != f.Names[0].Name {
							continue
						}
						n, _ := strconv.Atoi(m[2])
						rf, ok := rt.FieldByName(f.Names[0].Name)
						if !ok {
							continue
						}
						if strings.HasPrefix(f.Names[0].Name, "Reserved") {
							continue // reserved areas: the comment's size is not a reliable statement about a field type
						}
						if w := smbgen.FixedWidth(rf.Type); w > 0 {
							out = append(out, widthCase{ts.Name.Name, f.Names[0].Name, n, w})
						}
					}
				}
			}
		}
	}
	return out
}

func TestDeclaredVsSpecWidths(t *testing.T) {
	s := vf.Begin(t, P, "declared-vs-spec")
	s.SetExhaustive()
	ws := specWidths()
	s.Note("%d fixed-width fields carry an MS-CIFS size in their doc comment", len(ws))
	if len(ws) < minSizeComments {
		// how many doc comments quote a size is a property of the comments, not of the encoding: too
		// few to say anything is "not judged" (skipped), not an infrastructure failure
		s.Note("only %d field size comments found (fewer than %d): not judged", len(ws), minSizeComments)
		t.Skipf("only %d field size comments found in the source", len(ws))
	}
	vf.Enum(s, func(yield func(widthCase)) {
		for _, w := range ws {
			yield(w)
		}
	}, func(c widthCase) []vf.Finding {
		if c.Decl == c.Spec {
			return nil
		}
		kind := "declared-wider-than-spec"
		if c.Decl < c.Spec {
			kind = "declared-narrower-than-spec"
		}
		return []vf.Finding{vf.F(c.Struct+"."+c.Field, kind, "declared type is %d bytes wide, MS-CIFS gives %d bytes", c.Decl, c.Spec)}
	}, func(c widthCase) bool { return c.Spec >= 2 })
}

// ---- the buffer format MS-CIFS requires for a string field (quoted in the source's field comments) ---------------
//
// buffer-format-strings judges the SMB_STRING type, whose format the caller picks. Which format a command
// puts in front of each of its strings is stated by MS-CIFS per field ("BufferFormat (1 byte): This field
// MUST be 0x04"); where the source quotes that sentence in the doc comment of the string field, the byte
// in front of the field's content (located by marking) is compared with it. Fields without such a comment
// are not judged (the specification is not available offline).

type formatCase struct {
	Struct string `json:"struct"`
	Field  string `json:"field"`
	Spec   uint8  `json:"spec_format"`
}

var formatRe = regexp.MustCompile(`BufferFormat\d* \(1 byte\):[^:]*?MUST\s+be\s+0x([0-9A-Fa-f]{2})`)

func specFormats() []formatCase {
	dir := filepath.Join(repoRoot(), "network/smb/smb_v10/message/commands")
	fset := token.NewFileSet()
	pkgs, err := parser.ParseDir(fset, dir, func(fi os.FileInfo) bool { return !strings.HasSuffix(fi.Name(), "_test.go") }, parser.ParseComments)
	if err != nil {
		return nil
	}
	var out []formatCase
	for _, pkg := range pkgs {
		for _, file := range pkg.Files {
			ast.Inspect(file, func(n ast.Node) bool {
				ts, ok := n.(*ast.TypeSpec)
				if !ok {
					return true
				}
				st, ok := ts.Type.(*ast.StructType)
				if !ok {
					return true
				}
				e, reachable := smbgen.ByName(ts.Name.Name)
				if !reachable {
					return true
				}
				rt := reflect.TypeOf(smbgen.New(e)).Elem()
				for _, f := range st.Fields.List {
					if f.Doc == nil || len(f.Names) != 1 {
						continue
					}
					rf, ok := rt.FieldByName(f.Names[0].Name)
					if !ok || !smbgen.IsByteField(rf.Type) || rf.Type.Kind() == reflect.Slice {
						continue
					}
					var doc []string
					for _, l := range f.Doc.List {
						doc = append(doc, strings.TrimSpace(strings.TrimPrefix(l.Text, "//")))
					}
					if m := formatRe.FindStringSubmatch(strings.Join(doc, " ")); m != nil {
						v, _ := strconv.ParseUint(m[1], 16, 8)
						out = append(out, formatCase{ts.Name.Name, f.Names[0].Name, uint8(v)})
					}
				}
				return true
			})
		}
	}
	sort.Slice(out, func(i, j int) bool { return out[i].Struct+"."+out[i].Field < out[j].Struct+"."+out[j].Field })
	return out
}

// formatByte encodes the structure with the field's BufferFormat member set to set and returns the byte
// that introduces the field's content (ok false: no well-defined place, C04's subject), and, in whole, what
// stands at that place against the reference encoding of a buffer-format string with that format byte and the
// field's content: format byte, (length,) content, (terminator) - want is nil when the introducing byte is not
// a buffer format at all.
func formatByte(c formatCase, set uint8) (b uint8, detail string, got, want []byte, ok bool) {
	e, _ := smbgen.ByName(c.Struct)
	cmd := smbgen.New(e)
	fv := reflect.ValueOf(cmd).Elem().FieldByName(c.Field)
	str := fv
	if fv.Type().String() == "types.OEM_STRING" {
		str = fv.FieldByName("SMB_STRING")
	}
	str.FieldByName("BufferFormat").SetUint(uint64(set))
	smbgen.SetContent(fv, []byte("NAME.EXT"))
	smbgen.ApplyRelations(cmd)
	sl := smbgen.MarkVar(e, smbgen.Snapshot(cmd), c.Field)
	if sl.ProblemKind != "" {
		return 0, "", nil, nil, false
	}
	at := sl.Start - 1
	if c.Spec == 1 || c.Spec == 3 || c.Spec == 5 {
		at = sl.Start - 3 // format byte, 16-bit length, content
	}
	if at < 0 {
		return 0, "", nil, nil, false
	}
	b = sl.Enc[at]
	if b >= 1 && b <= 5 {
		want = refString(b, sl.Got)
		got = sl.Enc[at:min(at+len(want), len(sl.Enc))]
	}
	return b, fmt.Sprintf("content at %d introduced by %x", sl.Start, sl.Enc[at:sl.Start]), got, want, true
}

// The BufferFormat member of a string is itself a field value. Some commands overwrite it when they
// encode (they decide the format: it must be the one MS-CIFS requires), others emit what the caller
// put there (then the required format is the caller's to set, and it must come out unchanged). Whichever
// format byte stands there, the string behind it is whole: "each buffer-format string carries its own format
// byte and terminator" - the bytes from the format byte on are the reference encoding of that format for the
// field's content (16-bit length for 0x01/0x03/0x05, NUL terminator for 0x02/0x03/0x04), inside the message.
func checkFieldFormat(c formatCase) []vf.Finding {
	if _, ok := smbgen.ByName(c.Struct); !ok {
		return []vf.Finding{vf.F("harness", "bad-case", "unknown structure %s", c.Struct)}
	}
	subject := c.Struct + "." + c.Field
	got, detail, have, want, ok := formatByte(c, c.Spec)
	if !ok {
		return nil
	}
	if got != c.Spec {
		return []vf.Finding{vf.F(subject, "buffer-format-differs-from-ms-cifs", "BufferFormat %#02x as MS-CIFS requires: %s", c.Spec, detail)}
	}
	if !bytes.Equal(have, want) {
		return []vf.Finding{vf.F(subject, "buffer-format-string-differs-from-ms-cifs", "BufferFormat %#02x: the string is emitted as %x, the reference encoding is %x", c.Spec, have, want)}
	}
	// a caller that sets another format of the same framing gets either that format or the required one
	alt := map[uint8]uint8{1: 5, 5: 1, 2: 4, 4: 2}[c.Spec]
	if alt == 0 {
		return nil
	}
	if got, detail, have, want, ok := formatByte(c, alt); ok {
		if got != alt && got != c.Spec {
			return []vf.Finding{vf.F(subject, "buffer-format-differs-from-ms-cifs", "BufferFormat set to %#02x, MS-CIFS requires %#02x: %s", alt, c.Spec, detail)}
		}
		if !bytes.Equal(have, want) {
			return []vf.Finding{vf.F(subject, "buffer-format-string-differs-from-ms-cifs", "BufferFormat set to %#02x: the string is emitted as %x, the reference encoding is %x", alt, have, want)}
		}
	}
	return nil
}

func TestFieldBufferFormats(t *testing.T) {
	s := vf.Begin(t, P, "buffer-format-per-field")
	s.SetExhaustive()
	fc := specFormats()
	s.Note("%d string fields carry the MS-CIFS buffer format in their doc comment", len(fc))
	if len(fc) < minFormatComments {
		s.Note("only %d buffer-format comments found (fewer than %d): not judged", len(fc), minFormatComments)
		t.Skipf("only %d buffer-format comments found in the source", len(fc))
	}
	vf.Enum(s, func(yield func(formatCase)) {
		for _, c := range fc {
			yield(c)
		}
	}, checkFieldFormat, nil)
}

// ---- every string field that carries a format byte is a whole buffer-format string ------------------------------------
//
// buffer-format-per-field covers the fields whose doc comment quotes the format MS-CIFS requires. The framing rule
// itself needs no comment: "each buffer-format string carries its own format byte and terminator". For every
// string field of every structure the content is located by marking; where a buffer format (the one the field
// was given, or the one the encoder is seen to decide for that field) stands in front of it - one byte before the content for
// the NUL-terminated formats 0x02/0x04, three bytes before it, followed by a 16-bit length, for 0x01/0x03/0x05 -
// the bytes from the format byte on must be the reference encoding of that format for that content, inside the
// message: format byte, little-endian length where the format has one, content, NUL where the format has one.
// An encoder that drops the terminator of a trailing string (the byte count delimits it) and a decoder that puts
// it back round-trip; this is where they show. A string emitted without that framing is not judged here.

type framingCase struct {
	Struct string                     `json:"struct"`
	Field  string                     `json:"field"`
	Fields map[string]json.RawMessage `json:"fields"`
}

func framingVerdict(c framingCase) (fs []vf.Finding, status string) {
	e, ok := smbgen.ByName(c.Struct)
	if !ok {
		return []vf.Finding{vf.F("harness", "bad-case", "unknown structure %s", c.Struct)}, "bad-case"
	}
	sl := smbgen.MarkVar(e, c.Fields, c.Field)
	if sl.ProblemKind != "" || len(sl.Got) != sl.TypeWidth {
		return nil, "not-located"
	}
	// Which format to look for in front of the content: the one this command was seen to put in front of this
	// field (smbgen.WireFormat: read off the wire once per structure) or the one the field was given. The
	// structure is not asked after encoding: an encoder that decides the format need not write it back.
	cmd := smbgen.New(e)
	if err := smbgen.Restore(cmd, c.Fields); err != nil {
		return []vf.Finding{vf.F("harness", "bad-case", "%v", err)}, "bad-case"
	}
	str := reflect.ValueOf(cmd).Elem().FieldByName(c.Field)
	if str.Type().String() == "types.OEM_STRING" {
		str = str.FieldByName("SMB_STRING")
	}
	n := len(sl.Got)
	at, f := -1, uint8(0)
	for _, cand := range []uint8{smbgen.WireFormat(e, c.Field), uint8(str.FieldByName("BufferFormat").Uint())} {
		switch cand {
		case 2, 4:
			if sl.Start >= 1 && sl.Enc[sl.Start-1] == cand {
				at, f = sl.Start-1, cand
			}
		case 1, 3, 5:
			if sl.Start >= 3 && sl.Enc[sl.Start-3] == cand && (sl.Enc[sl.Start-2] == byte(n) || sl.Enc[sl.Start-1] == byte(n)) {
				at, f = sl.Start-3, cand
			}
		}
		if at >= 0 {
			break
		}
	}
	if at < 1+2*int(sl.Enc[0])+2 {
		return nil, "not-framed-as-buffer-format-string"
	}
	want := refString(f, sl.Got)
	got := sl.Enc[at:min(at+len(want), len(sl.Enc))]
	if !bytes.Equal(got, want) {
		return []vf.Finding{vf.F(c.Struct+"."+c.Field, "buffer-format-string-differs-from-ms-cifs", "format %#02x, %d content bytes at %d of a %d-byte message: emitted %x, the reference encoding is %x", f, n, sl.Start, len(sl.Enc), got, want)}, "judged"
	}
	// The same assignment with this string empty: an empty buffer-format string is still a buffer-format string
	// (format byte, zero length where the format has one, terminator where it has one). The data block must be
	// the one above with the string's content taken out; a block from which the string's framing has gone as
	// well - all of it or a part - is reported. Any other difference (a pad that moved, a count inside the block)
	// is not judged here.
	if fs := emptyStringVerdict(e, c, sl.Enc, at, len(want), f); fs != nil {
		return fs, "judged"
	}
	return nil, "judged"
}

func emptyStringVerdict(e smbgen.Entry, c framingCase, full []byte, at, framed int, f uint8) []vf.Finding {
	cmd := smbgen.New(e)
	if err := smbgen.Restore(cmd, c.Fields); err != nil {
		return nil
	}
	smbgen.AdoptWireFormats(cmd)
	smbgen.SetContent(reflect.ValueOf(cmd).Elem().FieldByName(c.Field), []byte{})
	smbgen.ApplyRelations(cmd)
	var enc0 []byte
	func() {
		defer func() { recover() }()
		enc0, _ = cmd.Marshal()
	}()
	if len(enc0) < 3 || len(full) < 3 {
		return nil
	}
	ds, ds0 := 1+2*int(full[0])+2, 1+2*int(enc0[0])+2
	if ds > at || ds0 > len(enc0) || at+framed > len(full) {
		return nil
	}
	data0 := enc0[ds0:]
	head, tail := full[ds:at], full[at+framed:]
	ref0 := refString(f, nil)
	for k := 0; k < len(ref0); k++ {
		// What is missing of the empty string from its k-th byte on is zeros (length, terminator). If the block
		// goes on with at least as many zero bytes - a pad - then "the string is whole and the pad behind it got
		// shorter" explains the same bytes: not reported. (A string followed by another buffer-format string, the
		// usual case, is followed by a non-zero format byte.)
		if missing := len(ref0) - k; k >= 1 && len(tail) >= missing && bytes.Equal(tail[:missing], make([]byte, missing)) {
			continue
		}
		if bytes.Equal(data0, append(append(append([]byte{}, head...), ref0[:k]...), tail...)) {
			return []vf.Finding{vf.F(c.Struct+"."+c.Field, "empty-string-emitted-without-its-framing", "format %#02x: with the string empty the data block is %x; the block with the content taken out is %x (the empty string is %x, %d of its %d bytes were emitted)", f, data0[:min(len(data0), 48)], append(append(append([]byte{}, head...), ref0...), tail...)[:min(len(head)+len(ref0)+len(tail), 48)], ref0, k, len(ref0))}
		}
	}
	return nil
}

func TestStringFieldFraming(t *testing.T) {
	s := vf.Begin(t, P, "string-fields-framing")
	var targets [][2]string
	for _, e := range smbgen.Inventory() {
		for _, f := range smbgen.OwnFields(smbgen.New(e)) {
			if smbgen.IsByteField(f.Type) && f.Type.Kind() == reflect.Struct {
				targets = append(targets, [2]string{e.Name, f.Name})
			}
		}
	}
	s.Note("%d string fields", len(targets))
	if len(targets) < 20 {
		t.Fatalf("INFRA: only %d string fields found", len(targets))
	}
	per := vf.N(3, 40)
	idx := 0
	judged := 0
	vf.Rapid(s, len(targets)*per, func(t *rapid.T) framingCase {
		tg := targets[(idx/per)%len(targets)]
		idx++
		e, _ := smbgen.ByName(tg[0])
		cmd := smbgen.New(e)
		smbgen.Fill(t, cmd, smbgen.Options{MaxBytes: 12, MinBytes: 1})
		return framingCase{tg[0], tg[1], smbgen.Snapshot(cmd)}
	}, func(c framingCase) []vf.Finding {
		fs, st := framingVerdict(c)
		if st == "judged" {
			judged++
		}
		s.Class(st)
		return fs
	}, func(c framingCase) bool { return true })
	if judged == 0 && !t.Failed() && os.Getenv("VERIF_REPLAY") == "" {
		t.Fatalf("INFRA: no string field could be judged")
	}
}

// ---- widths on the wire: a field owns exactly as many bytes as its type is wide --------------------------------
//
// Marking (encode-vs-ref) sees the bytes that change with the field's value; a USHORT emitted as four
// bytes with two constant ones is invisible to it. What gives it away is the next field: fields that are
// adjacent in the declaration (count fields in between are accounted for by their type widths) and lie
// in the same block must be adjacent on the wire, and the first parameter field starts right after the
// word count (after the 4-byte AndX block in AndX structures).

type layoutCase struct {
	Struct string                     `json:"struct"`
	Fields map[string]json.RawMessage `json:"fields"`
}

func checkWireWidths(c layoutCase) []vf.Finding {
	e, ok := smbgen.ByName(c.Struct)
	if !ok {
		return []vf.Finding{vf.F("harness", "bad-case", "unknown structure %s", c.Struct)}
	}
	slots, paramEnd := smbgen.Layout(e, c.Fields)
	var fs []vf.Finding
	if len(slots) > 0 && paramEnd > 1 {
		first := slots[0]
		cmd := smbgen.New(e)
		own := smbgen.OwnFields(cmd)
		want := 1
		if e.AndX {
			want = 5
		}
		if len(own) > 0 && own[0].Name == first.Name && first.Start < paramEnd && first.Start != want {
			fs = append(fs, vf.F(c.Struct+"."+first.Name, "first-parameter-field-not-at-block-start", "starts at %d, the parameter words begin at %d", first.Start, want))
		}
	}
	for i := 1; i < len(slots); i++ {
		a, b := slots[i-1], slots[i]
		if !b.Chain || !smbgen.SameBlock(a.Start, b.Start, paramEnd) || b.Start < a.Start+a.Width {
			continue // order and overlap are C04's subject
		}
		if extra := b.Start - (a.Start + a.Width + b.Between); extra != 0 {
			fs = append(fs, vf.F(c.Struct+"."+a.Name, "occupies-more-bytes-than-its-type", "%d-byte type at %d, next field %s at %d (%d bytes of count fields between): %d bytes unaccounted for", a.Width, a.Start, b.Name, b.Start, b.Between, extra))
		}
	}
	// The same rule where the successor is not a markable fixed-width field: what follows a fixed-width field
	// (or a count field, or a byte field with its terminator) in the declaration and in the same block - a
	// count field, a byte buffer, a string behind its format byte (and length) - starts exactly where that
	// field ends. A UCHAR written as two bytes in front of a pad buffer shows here and nowhere else.
	if located, ok := smbgen.Locate(e, c.Fields); ok {
		have := map[string]bool{}
		for _, f := range fs {
			have[f.Subject] = true
		}
		for _, g := range smbgen.Gaps(e, c.Fields, located) {
			if subject := c.Struct + "." + g.Prev.Name; !have[subject] {
				have[subject] = true
				fs = append(fs, vf.F(subject, "occupies-more-bytes-than-its-type", "%s (%s) ends at %d, next field %s (%s) starts at %d behind %d bytes of its own framing: %d bytes unaccounted for", g.Prev.Name, g.Prev.Class, g.PrevEnd, g.Next.Name, g.Next.Class, g.Next.Start, g.Lead, g.Next.Start-g.PrevEnd-g.Lead))
			}
		}
	}
	more, _ := checkBlockTotals(e, c)
	return append(fs, more...)
}

// The field that ends a block has no successor to give a surplus away. For the parameter block the
// word count does: the parameter block is exactly its fields (after the AndX block in AndX structures),
// so when every field that lies in it is a fixed-width one, twice the word count equals the sum of the
// widths of their types (an odd sum is carried in one more word). Which fields lie in the parameter
// block is found by locating them (smbgen.Locate: marking, count fields through their buffers); fields
// that are not emitted in this assignment occupy nothing. Structures with a list or a byte field in the
// parameter block, or with a field whose slot is ill-defined, are left out (counted). The last
// declared field, when it is a fixed-width field in the data block, must end where the message ends.
func checkBlockTotals(e smbgen.Entry, c layoutCase) (fs []vf.Finding, status string) {
	l, ok := smbgen.Locate(e, c.Fields)
	if !ok {
		return nil, "word-count-not-judged:does-not-encode"
	}
	for _, sk := range l.Skipped {
		switch sk.Why {
		case "absent", "not-emitted", "list-in-data-block":
		default:
			return nil, "word-count-not-judged:" + sk.Why
		}
	}
	for _, li := range l.Lists {
		if li.Why != "list-in-data-block" {
			return nil, "word-count-not-judged:" + li.Why
		}
	}
	sum := 0
	if e.AndX {
		sum = 4
	}
	for _, f := range l.Locs {
		if f.Start >= l.ParamEnd {
			continue
		}
		switch f.Class {
		case "fixed", "count":
			sum += f.TypeWidth
		case "bytes":
			return nil, "word-count-not-judged:byte-field-in-parameter-block"
		default:
			return nil, "word-count-not-judged:" + f.Class + "-in-parameter-block"
		}
	}
	if wc := int(l.Enc[0]); 2*wc != sum+sum%2 {
		fs = append(fs, vf.F(c.Struct, "word-count-differs-from-declared-widths", "%d parameter words, the types of the fields in the parameter block add up to %d bytes", wc, sum))
	}
	own := smbgen.OwnFields(smbgen.New(e))
	if n := len(l.Locs); n > 0 && len(own) > 0 && l.Locs[n-1].Name == own[len(own)-1].Name && (l.Locs[n-1].Class == "fixed" || l.Locs[n-1].Class == "count") && l.Locs[n-1].Start >= l.ParamEnd+2 {
		if last := l.Locs[n-1]; last.Start+last.TypeWidth != len(l.Enc) {
			fs = append(fs, vf.F(c.Struct+"."+last.Name, "occupies-more-bytes-than-its-type", "%d-byte type at %d is the last field, the message ends at %d", last.TypeWidth, last.Start, len(l.Enc)))
		}
	}
	return fs, "word-count-judged"
}

func TestWireWidths(t *testing.T) {
	s := vf.Begin(t, P, "widths-on-wire")
	names := smbgen.Names()
	per := vf.N(3, 40)
	idx := 0
	vf.Rapid(s, len(names)*per, func(t *rapid.T) layoutCase {
		name := names[(idx/per)%len(names)]
		idx++
		e, _ := smbgen.ByName(name)
		cmd := smbgen.New(e)
		smbgen.Fill(t, cmd, smbgen.Options{MaxBytes: 8, MinBytes: 1, MinElems: 1})
		return layoutCase{name, smbgen.Snapshot(cmd)}
	}, func(c layoutCase) []vf.Finding {
		if e, ok := smbgen.ByName(c.Struct); ok {
			_, st := checkBlockTotals(e, c)
			s.Class(st)
		}
		return checkWireWidths(c)
	}, func(c layoutCase) bool { return len(c.Fields) >= 2 })
}

// ---- integers nested in wire types and in slices -----------------------------------------------------------
//
// encode-vs-ref marks a command's own fixed-width fields. Integers that sit one level down – inside the
// elements of LockingAndxRequest.Locks/Unlocks, inside directory-information entries, in the
// TransactionRequest.Setup word array, in the packed date word – are marked here, at the level of the type
// that encodes them, with the same method: pattern vs complement, diff, compare the slot with little-endian.

type nestedCase struct {
	Type    string `json:"type"`
	Field   string `json:"field"`
	Pattern vf.Hex `json:"pattern"`
	// Base: generated values for the other fields of the enclosing command (Setup case only)
	Base map[string]json.RawMessage `json:"base,omitempty"`
}

type nestedType struct {
	name string
	mk   func() interface{} // pointer to a value that encodes (valid enough for Marshal)
}

func nestedTypes() []nestedType {
	return []nestedType{
		{"LOCKING_ANDX_RANGE32", func() interface{} { return &types.LOCKING_ANDX_RANGE32{} }},
		{"LOCKING_ANDX_RANGE64", func() interface{} { return &types.LOCKING_ANDX_RANGE64{} }},
		{"SMB_DIRECTORY_INFORMATION", func() interface{} {
			// the factory value holds a date of year 0 and a string without a buffer format: brought into
			// the representable domain (year >= 1980, format 0x04, Length = len(Buffer)) as the generator does
			d := types.NewSMB_DIRECTORY_INFORMATION()
			smbgen.Normalize(reflect.ValueOf(d).Elem())
			return d
		}},
	}
}

func intFields(v reflect.Value) (out []string) {
	for i := 0; i < v.NumField(); i++ {
		f := v.Type().Field(i)
		if !f.IsExported() {
			continue
		}
		switch f.Type.Kind() {
		case reflect.Uint16, reflect.Uint32, reflect.Uint64, reflect.Int16, reflect.Int32, reflect.Int64:
			out = append(out, f.Name)
		}
	}
	return
}

// markableFields: the multi-byte integer members plus the members that are themselves fixed-width
// wire types (the packed date word and the time of a directory-information entry).
func markableFields(v reflect.Value) (out []string) {
	out = intFields(v)
	for i := 0; i < v.NumField(); i++ {
		f := v.Type().Field(i)
		if f.IsExported() && f.Type.Kind() == reflect.Struct && smbgen.FixedWidth(f.Type) >= 2 {
			out = append(out, f.Name)
		}
	}
	return
}

// markNested writes the little-endian pattern p (and its complement in a second copy) into member field
// of a wire type and returns the slot the difference of the two encodings defines.
func markNested(nt nestedType, field string, p []byte) (lo, w int, e1 []byte, fs []vf.Finding) {
	subject := nt.name + "." + field
	v1, v2 := nt.mk(), nt.mk()
	f1, f2 := reflect.ValueOf(v1).Elem().FieldByName(field), reflect.ValueOf(v2).Elem().FieldByName(field)
	w = smbgen.FixedWidth(f1.Type())
	le := []byte(p[:w])
	inv := make([]byte, w)
	for i := range inv {
		inv[i] = ^le[i]
	}
	smbgen.SetPattern(f1, le)
	smbgen.SetPattern(f2, inv)
	e1, err1 := marshalAny(v1)
	e2, err2 := marshalAny(v2)
	if err1 != nil || err2 != nil || len(e1) != len(e2) {
		return -1, w, nil, []vf.Finding{vf.F(subject, "marshal-error", "%v / %v (%d vs %d bytes)", err1, err2, len(e1), len(e2))}
	}
	lo, hi := -1, -1
	for i := range e1 {
		if e1[i] != e2[i] {
			if lo < 0 {
				lo = i
			}
			hi = i
		}
	}
	if lo < 0 {
		return -1, w, e1, []vf.Finding{vf.F(subject, "field-not-emitted", "changing every byte of the field leaves the %d-byte encoding unchanged", len(e1))}
	}
	if hi-lo+1 != w {
		return -1, w, e1, []vf.Finding{vf.F(subject, "wrong-width", "slot of %d bytes for a %d-byte type", hi-lo+1, w)}
	}
	return lo, w, e1, nil
}

func marshalAny(v interface{}) (b []byte, err error) {
	defer func() {
		if r := recover(); r != nil {
			err = fmt.Errorf("panic: %v", r)
		}
	}()
	return v.(interface{ Marshal() ([]byte, error) }).Marshal()
}

func checkNested(c nestedCase) []vf.Finding {
	subject := c.Type + "." + c.Field
	if c.Type == "TransactionRequest.Setup" {
		// k setup words, each with its own two distinct bytes
		e, _ := smbgen.ByName("TransactionRequest")
		k := len(c.Pattern) / 2
		enc := func(p []byte) ([]byte, error) {
			cmd := smbgen.New(e)
			smbgen.Restore(cmd, c.Base)
			rv := reflect.ValueOf(cmd).Elem()
			sl := reflect.MakeSlice(rv.FieldByName("Setup").Type(), k, k)
			for i := 0; i < k; i++ {
				sl.Index(i).SetUint(uint64(p[2*i]) | uint64(p[2*i+1])<<8)
			}
			rv.FieldByName("Setup").Set(sl)
			rv.FieldByName("SetupCount").SetUint(uint64(k))
			return marshalAny(cmd)
		}
		inv := make([]byte, len(c.Pattern))
		for i := range inv {
			inv[i] = ^c.Pattern[i]
		}
		e1, err1 := enc(c.Pattern)
		e2, err2 := enc(inv)
		if err1 != nil || err2 != nil || len(e1) != len(e2) {
			return []vf.Finding{vf.F(subject, "marshal-error", "%v / %v (%d vs %d bytes)", err1, err2, len(e1), len(e2))}
		}
		lo, hi := -1, -1
		for i := range e1 {
			if e1[i] != e2[i] {
				if lo < 0 {
					lo = i
				}
				hi = i
			}
		}
		if lo < 0 || hi-lo+1 != 2*k {
			return []vf.Finding{vf.F(subject, "wrong-width", "%d setup words change %d bytes", k, hi-lo+1)}
		}
		got := e1[lo : hi+1]
		if bytes.Equal(got, c.Pattern[:2*k]) {
			return nil
		}
		if bytes.Equal(got, reversedPerElement(c.Pattern[:2*k], 2)) {
			return []vf.Finding{vf.F(subject, "byte-reversed-in-own-slot", "words %x emitted as %x", []byte(c.Pattern[:2*k]), got)}
		}
		return []vf.Finding{vf.F(subject, "other-encoding", "emitted %x, MS-CIFS little-endian is %x", got, []byte(c.Pattern[:2*k]))}
	}
	if c.Type == "SMB_DATE" {
		// the packed word (year-1980)<<9 | month<<5 | day, little-endian
		y, m, d := 1980+int(c.Pattern[0]&0x7F), int(c.Pattern[1]&0x0F), int(c.Pattern[2]&0x1F)
		v := types.NewSMB_DATEFromDate(y, m, d)
		got, err := v.Marshal()
		w := uint16(y-1980)<<9 | uint16(m)<<5 | uint16(d)
		want := []byte{byte(w), byte(w >> 8)}
		if err != nil || !bytes.Equal(got, want) {
			kind := "other-encoding"
			if len(got) == 2 && got[0] == want[1] && got[1] == want[0] {
				kind = "byte-reversed-in-own-slot"
			}
			return []vf.Finding{vf.F("SMB_DATE", kind, "%04d-%02d-%02d emitted as %x (err %v), MS-CIFS 2.2.1.4.1 gives %x", y, m, d, got, err, want)}
		}
		return nil
	}
	var nt *nestedType
	for i, t := range nestedTypes() {
		if t.name == c.Type {
			nt = &nestedTypes()[i]
		}
	}
	if nt == nil {
		return []vf.Finding{vf.F("harness", "bad-case", "unknown type %s", c.Type)}
	}
	lo, w, e1, fs := markNested(*nt, c.Field, c.Pattern)
	if fs != nil {
		return fs
	}
	le := []byte(c.Pattern[:w])
	got := e1[lo : lo+w]
	if bytes.Equal(got, le) {
		return nil
	}
	ft, _ := reflect.TypeOf(nt.mk()).Elem().FieldByName(c.Field)
	if bytes.Equal(got, reversedPerElement(le, elemWidth(ft.Type))) {
		return []vf.Finding{vf.F(subject, "byte-reversed-in-own-slot", "pattern %x emitted as %x", le, got)}
	}
	return []vf.Finding{vf.F(subject, "other-encoding", "emitted %x, MS-CIFS little-endian is %x", got, le)}
}

func TestNestedIntegers(t *testing.T) {
	s := vf.Begin(t, P, "nested-integers")
	var targets [][2]string
	for _, nt := range nestedTypes() {
		for _, f := range markableFields(reflect.ValueOf(nt.mk()).Elem()) {
			targets = append(targets, [2]string{nt.name, f})
		}
	}
	targets = append(targets, [2]string{"TransactionRequest.Setup", "words"}, [2]string{"SMB_DATE", "packed"})
	s.Note("%d nested integer targets: %v", len(targets), targets)
	if len(targets) < 10 {
		t.Fatalf("INFRA: only %d nested integer fields found", len(targets))
	}
	per := vf.N(40, 600)
	idx := 0
	vf.Rapid(s, len(targets)*per, func(t *rapid.T) nestedCase {
		tg := targets[(idx/per)%len(targets)]
		idx++
		c := nestedCase{Type: tg[0], Field: tg[1], Pattern: rapid.SliceOfNDistinct(rapid.ByteRange(1, 254), 8, 8, rapid.ID[byte]).Draw(t, "pattern")}
		if c.Type == "TransactionRequest.Setup" {
			e, _ := smbgen.ByName("TransactionRequest")
			cmd := smbgen.New(e)
			smbgen.Fill(t, cmd, smbgen.Options{MaxBytes: 8})
			c.Base = smbgen.Snapshot(cmd)
		}
		return c
	}, checkNested, func(c nestedCase) bool { return true })
}

// ---- the two counted blocks themselves -------------------------------------------------------------------------
//
// MS-CIFS 2.2.3.2/2.2.3.3: SMB_Parameters = UCHAR WordCount, then WordCount words whose bytes are whatever the
// command put there; SMB_Data = USHORT ByteCount (little-endian), then ByteCount
// bytes. An independent encoder written from that is one line each; it is compared with Data.Marshal and
// Parameters.Marshal in both directions at lengths on both sides of every byte boundary of the count fields, and
// with the count field of a whole message whose data block is that long.

type blockCase struct {
	Bytes int `json:"data_bytes"`
	Words int `json:"parameter_words"`
}

func checkBlocks(c blockCase) []vf.Finding {
	var fs []vf.Finding
	content := make([]byte, c.Bytes)
	for i := range content {
		content[i] = byte(0x30 + i%0x4b)
	}
	ref := append([]byte{byte(c.Bytes), byte(c.Bytes >> 8)}, content...)
	d := data.NewData()
	d.Add(append([]byte{}, content...))
	got, err := d.Marshal()
	if err != nil || !bytes.Equal(got, ref) {
		fs = append(fs, vf.F("Data.Marshal", "data-block-differs-from-ms-cifs", "%d bytes: err %v, block starts %x, MS-CIFS 2.2.3.3 gives %x", c.Bytes, err, got[:min(len(got), 4)], ref[:min(len(ref), 4)]))
	}
	d2 := data.NewData()
	if n, err := d2.Unmarshal(append([]byte{}, ref...)); err != nil || n != len(ref) || !bytes.Equal(d2.GetBytes(), content) {
		fs = append(fs, vf.F("Data.Unmarshal", "reference-data-block-misread", "%d bytes: consumed %d of %d, err %v, %d bytes decoded", c.Bytes, n, len(ref), err, len(d2.GetBytes())))
	}
	words := make([]byte, 2*c.Words)
	for i := range words {
		words[i] = byte(0x81 + i%0x7b)
	}
	pref := append([]byte{byte(c.Words)}, words...)
	p := parameters.NewParameters()
	p.AddWordsFromBytesStream(append([]byte{}, words...))
	pgot, err := p.Marshal()
	if err != nil || !bytes.Equal(pgot, pref) {
		fs = append(fs, vf.F("Parameters.Marshal", "parameter-block-differs-from-ms-cifs", "%d words: err %v, block starts %x, MS-CIFS 2.2.3.2 gives %x", c.Words, err, pgot[:min(len(pgot), 5)], pref[:min(len(pref), 5)]))
	}
	p2 := parameters.NewParameters()
	if n, err := p2.Unmarshal(append([]byte{}, pref...)); err != nil || n != len(pref) || !bytes.Equal(p2.GetBytes(), words) {
		fs = append(fs, vf.F("Parameters.Unmarshal", "reference-parameter-block-misread", "%d words: consumed %d of %d, err %v", c.Words, n, len(pref), err))
	}
	// a whole command with a data block of that size: the two bytes after the parameter words are LE16(size)
	e, _ := smbgen.ByName("EchoRequest")
	cmd := smbgen.New(e)
	rv := reflect.ValueOf(cmd).Elem()
	rv.FieldByName("Data").Set(reflect.ValueOf(content).Convert(rv.FieldByName("Data").Type()))
	if enc, err := marshalAny(cmd); err == nil && len(enc) >= 3 {
		at := 1 + 2*int(enc[0])
		if at+2 > len(enc) || enc[at] != byte(c.Bytes) || enc[at+1] != byte(c.Bytes>>8) || len(enc)-at-2 != c.Bytes {
			fs = append(fs, vf.F("EchoRequest.Marshal", "byte-count-differs-from-ms-cifs", "%d data bytes: count bytes %x, MS-CIFS little-endian %02x%02x, %d bytes follow", c.Bytes, enc[at:min(at+2, len(enc))], byte(c.Bytes), byte(c.Bytes>>8), len(enc)-at-2))
		}
	}
	// and the other way round at message level: a reference-encoded SMB_COM_ECHO request (header, one parameter
	// word, LE16 byte count, that many bytes) is decoded by Message.Unmarshal, which must hand the command its whole
	// data block
	hdr := header.NewHeader()
	hdr.Command = codes.CommandCode(0x2B)
	if hb, err := hdr.Marshal(); err == nil && len(hb) == 32 {
		wire := append(append(append([]byte{}, hb...), 0x01, 0x07, 0x00, byte(c.Bytes), byte(c.Bytes>>8)), content...)
		m := message.NewMessage()
		var derr error
		func() {
			defer func() {
				if r := recover(); r != nil {
					derr = fmt.Errorf("panic: %v", r)
				}
			}()
			derr = m.Unmarshal(wire[:len(wire):len(wire)])
		}()
		if derr != nil {
			fs = append(fs, vf.F("Message.Unmarshal", "reference-message-rejected", "ECHO request with a data block of %d bytes (count bytes %02x %02x): %v", c.Bytes, byte(c.Bytes), byte(c.Bytes>>8), derr))
		} else if m.Command != nil {
			if dv := reflect.ValueOf(m.Command).Elem().FieldByName("Data"); dv.IsValid() && dv.Kind() == reflect.Slice && dv.Len() != c.Bytes {
				fs = append(fs, vf.F("Message.Unmarshal", "reference-data-block-misread", "ECHO request with a data block of %d bytes decoded with %d data bytes", c.Bytes, dv.Len()))
			}
		}
	}
	return fs
}

func TestBlockCounts(t *testing.T) {
	s := vf.Begin(t, P, "block-counts")
	s.SetExhaustive()
	vf.Enum(s, func(yield func(blockCase)) {
		lens := []int{0, 1, 2, 127, 128, 254, 255, 256, 257, 258, 511, 512, 513, 1000, 4095, 4096, 32767, 32768, 65279, 65280, 65534, 65535}
		words := []int{0, 1, 2, 17, 127, 128, 129, 254, 255}
		for i, n := range lens {
			yield(blockCase{n, words[i%len(words)]})
		}
		for i, w := range words {
			yield(blockCase{lens[(i*5+3)%len(lens)], w})
		}
	}, checkBlocks, func(c blockCase) bool { return c.Bytes >= 256 || c.Words >= 128 })
}
