//go:build verif

package c07

import (
	"bufio"
	"fmt"
	"os"
	"os/exec"
	"path/filepath"
	"regexp"
	"strconv"
	"strings"
	"testing"
	"time"

	"manticoreverif/vf"
)

// Native coverage-guided fuzzing (thorough tier only; campaigns cannot be pinned to a seed, the
// saved crashing input is the reproducible unit). One target per parser family; the first byte of
// the input selects the entry point inside the family so that coverage feedback stays focused.

var families = map[string][]string{
	"FuzzSMBMessage":    {"smb.Message.Unmarshal"},
	"FuzzSMBTypes":      {"types.SMB_STRING.Unmarshal", "types.OEM_STRING.Unmarshal", "types.SMB_RESUME_KEY.Unmarshal", "types.SMB_DIRECTORY_INFORMATION.Unmarshal", "smb.Dialects.Unmarshal", "smb.Parameters.Unmarshal", "smb.Data.Unmarshal", "smb.utils.GetNullTerminatedUnicodeString", "types.SMB_FILE_ATTRIBUTES.Unmarshal", "types.LOCKING_ANDX_RANGE64.Unmarshal"},
	"FuzzLLMNR":         {"llmnr.DecodeMessage", "llmnr.DecodeDomainName@any", "llmnr.DecodeResourceRecord", "llmnr.DecodeDomainName@tail"},
	"FuzzNBNS":          {"nbtns.NBTNSPacket.Unmarshal", "nbtns.FirstLevelDecode", "nbt.NBTTransport.Receive"},
	"FuzzNTLMSPNEGO":    {"ntlm.ParseChallengeMessage", "ntlm.ParseTargetInfo", "spnego.ParseNegTokenResp", "spnego.ExtractNTLMToken", "spnego.AuthContext.ProcessChallengeToken"},
	"FuzzKeyCredential": {"keycredential.KeyCredential.FromBytes", "keycredential.RSAKeyMaterial.FromBytes", "keycredential.CustomKeyInformation.FromBytes", "keycredential.DNWithBinary.Parse", "keycredential.ConvertToBinaryIdentifier"},
	"FuzzText":          {"guid.FromString", "guid.FromFormatX", "uuid_v1.FromBytes/FromString", "credentials.ParseLMNTHashes", "ip.NewIPv4FromString", "ip.NewIPv6FromString", "ip.NewTCPPortRangeFromString", "ldap.GetDomainFromDistinguishedName", "ldap.ConvertLDAPDurationToSeconds", "gppp.GPPPDecryptBase64"},
	"FuzzBinaryMisc":    {"ldap.ParseSIDFromBytes", "pkcs7.Unpad", "utf16.DecodeUTF16LE", "gppp.GPPPDecryptBytes", "uuid.UUID.Unmarshal", "guid.GUID.FromRawBytes", "keycredential.ConvertFromBinaryTime", "gppp.GPPPDecryptBytes@plaintext"},
}

func fuzzFamily(f *testing.F, name string) {
	names := families[name]
	for i, n := range names {
		for _, s := range entryMap[n].Seeds() {
			if len(s) < 4096 {
				f.Add(append([]byte{byte(i)}, s...))
			}
		}
	}
	for _, h := range [][]byte{{0, 0xFF, 0xFF, 0xFF, 0xFF}, {0, 0x60, 0x84, 0xFF, 0xFF, 0xFF, 0xFF}, {0, 0xC0, 0x00}, {0, 0x05, 0xFF, 0xFF}} {
		f.Add(h)
	}
	f.Fuzz(func(t *testing.T, in []byte) {
		if len(in) == 0 {
			return
		}
		e := entryMap[names[int(in[0])%len(names)]]
		before := allocated()
		e.Call(exact(in[1:])) // a panic is reported by the fuzzer as a crasher
		if grew := allocated() - before; grew > uint64(64*len(in)+4<<20) {
			t.Fatalf("alloc: %d bytes allocated for a %d-byte input", grew, len(in))
		}
	})
}

func FuzzSMBMessage(f *testing.F)    { fuzzFamily(f, "FuzzSMBMessage") }
func FuzzSMBTypes(f *testing.F)      { fuzzFamily(f, "FuzzSMBTypes") }
func FuzzLLMNR(f *testing.F)         { fuzzFamily(f, "FuzzLLMNR") }
func FuzzNBNS(f *testing.F)          { fuzzFamily(f, "FuzzNBNS") }
func FuzzNTLMSPNEGO(f *testing.F)    { fuzzFamily(f, "FuzzNTLMSPNEGO") }
func FuzzKeyCredential(f *testing.F) { fuzzFamily(f, "FuzzKeyCredential") }
func FuzzText(f *testing.F)          { fuzzFamily(f, "FuzzText") }
func FuzzBinaryMisc(f *testing.F)    { fuzzFamily(f, "FuzzBinaryMisc") }

var crasherLine = regexp.MustCompile(`^\[\]byte\((.*)\)$`)

func readCrasher(path string) ([]byte, error) {
	fh, err := os.Open(path)
	if err != nil {
		return nil, err
	}
	defer fh.Close()
	sc := bufio.NewScanner(fh)
	sc.Buffer(make([]byte, 1<<20), 1<<26)
	for sc.Scan() {
		if m := crasherLine.FindStringSubmatch(strings.TrimSpace(sc.Text())); m != nil {
			s, err := strconv.Unquote(m[1])
			return []byte(s), err
		}
	}
	return nil, fmt.Errorf("no []byte line in %s", path)
}

// TestNativeFuzz drives `go test -fuzz` for every family (the driver runs it in the thorough tier
// only). A crasher is minimised by the fuzzer, re-executed through callTotal to obtain its
// signature, reported like any other finding, and removed from testdata so that it does not leak
// into later runs.
func TestNativeFuzz(t *testing.T) {
	s := vf.Begin(t, P, "native-fuzz")
	harness := os.Getenv("VERIF_HARNESS")
	if harness == "" {
		t.Skip("VERIF_HARNESS not set")
	}
	per := 45 * time.Second
	if v := os.Getenv("VERIF_FUZZTIME"); v != "" {
		if d, err := time.ParseDuration(v); err == nil {
			per = d
		}
	}
	execRe := regexp.MustCompile(`execs: (\d+)`)
	for fam, names := range families {
		args := []string{"test", "-tags", "verif", "-run", "^$", "-fuzz", "^" + fam + "$", "-fuzztime", per.String(), "-vet=off"}
		if mf := os.Getenv("VERIF_MODFILE"); mf != "" {
			args = append(args, "-modfile="+mf)
		}
		args = append(args, "./c07/")
		cmd := exec.Command("go", args...)
		cmd.Dir = harness
		out, _ := cmd.CombinedOutput()
		var execs int64
		for _, m := range execRe.FindAllStringSubmatch(string(out), -1) {
			if v, _ := strconv.ParseInt(m[1], 10, 64); v > execs {
				execs = v
			}
		}
		s.Count("fuzz-execs:"+fam, execs)
		dir := filepath.Join(harness, "c07", "testdata", "fuzz", fam)
		files, _ := filepath.Glob(filepath.Join(dir, "*"))
		for _, f := range files {
			in, err := readCrasher(f)
			os.Remove(f)
			if err != nil || len(in) == 0 {
				continue
			}
			c := inputCase{names[int(in[0])%len(names)], in[1:], "native-fuzz"}
			fs := callTotal(c)
			if len(fs) == 0 {
				fs = []vf.Finding{vf.F(c.Entry, "fuzz-crasher-not-reproduced-inline", "crasher of %s: %x", fam, in[:min(len(in), 64)])}
			}
			s.Eval(c, true)
			if un := s.Report(c, fs); len(un) > 0 {
				t.Errorf("%s: %s [%s]", fam, un[0].Subject, un[0].Kind)
			}
		}
		// count the campaign as evaluations (the fuzzer's own exec counter)
		for i := int64(0); i < 2; i++ {
			s.EvalDistinct(true, func() any { return map[string]any{"family": fam, "execs": execs} })
		}
	}
	os.RemoveAll(filepath.Join(harness, "c07", "testdata"))
}
