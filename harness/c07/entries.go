//go:build verif

// Package c07: every decoder is total: any input yields a value or an error, never a crash.
package c07

import (
	"bytes"
	"encoding/binary"
	"fmt"
	"io"
	"net"
	"reflect"
	"time"

	"pgregory.net/rapid"

	"github.com/TheManticoreProject/Manticore/crypto/gppp"
	"github.com/TheManticoreProject/Manticore/crypto/pkcs7"
	"github.com/TheManticoreProject/Manticore/crypto/uuid"
	"github.com/TheManticoreProject/Manticore/crypto/uuid/uuid_v1"
	"github.com/TheManticoreProject/Manticore/crypto/uuid/uuid_v2"
	"github.com/TheManticoreProject/Manticore/crypto/uuid/uuid_v8"
	"github.com/TheManticoreProject/Manticore/network/ip"
	"github.com/TheManticoreProject/Manticore/network/ldap"
	"github.com/TheManticoreProject/Manticore/network/llmnr"
	"github.com/TheManticoreProject/Manticore/network/netbios/nbt"
	"github.com/TheManticoreProject/Manticore/network/netbios/nbtns"
	"github.com/TheManticoreProject/Manticore/network/smb/smb_v10/dialects"
	"github.com/TheManticoreProject/Manticore/network/smb/smb_v10/message"
	"github.com/TheManticoreProject/Manticore/network/smb/smb_v10/message/commands/andx"
	cmdutils "github.com/TheManticoreProject/Manticore/network/smb/smb_v10/message/commands/utils"
	"github.com/TheManticoreProject/Manticore/network/smb/smb_v10/message/data"
	"github.com/TheManticoreProject/Manticore/network/smb/smb_v10/message/header"
	"github.com/TheManticoreProject/Manticore/network/smb/smb_v10/message/parameters"
	"github.com/TheManticoreProject/Manticore/network/smb/smb_v10/spnego"
	"github.com/TheManticoreProject/Manticore/network/smb/smb_v10/spnego/ntlm"
	"github.com/TheManticoreProject/Manticore/network/smb/smb_v10/spnego/ntlm/version"
	"github.com/TheManticoreProject/Manticore/network/smb/smb_v10/types"
	"github.com/TheManticoreProject/Manticore/utils/encoding/utf16"
	"github.com/TheManticoreProject/Manticore/windows/credentials"
	"github.com/TheManticoreProject/Manticore/windows/guid"
	keycredentiallink "github.com/TheManticoreProject/Manticore/windows/keycredential"
	kccrypto "github.com/TheManticoreProject/Manticore/windows/keycredential/crypto"
	"github.com/TheManticoreProject/Manticore/windows/keycredential/key"
	kcutils "github.com/TheManticoreProject/Manticore/windows/keycredential/utils"

	"manticoreverif/ref/dns"
	refnbns "manticoreverif/ref/nbns"
	"manticoreverif/ref/nlmp"
	"manticoreverif/smbgen"
)

type entry struct {
	Name  string
	Call  func(in []byte)
	Seeds func() [][]byte
	Text  bool // the entry point takes text: mutations stay mostly printable
	// Codes: the one-byte type/opcode/identifier codes of the format (codes.go), tried at every
	// position like the generic boundary values - or, when CodesAt is set, at the positions it returns.
	Codes   []byte
	CodesAt func(seed []byte) []int
}

// scripted connection for the NBT Receive entry point
type scriptConn struct{ r *bytes.Reader }

func (c *scriptConn) Read(p []byte) (int, error) {
	if c.r.Len() == 0 {
		return 0, io.EOF
	}
	return c.r.Read(p)
}
func (c *scriptConn) Write(p []byte) (int, error)      { return len(p), nil }
func (c *scriptConn) Close() error                     { return nil }
func (c *scriptConn) LocalAddr() net.Addr              { return &net.TCPAddr{} }
func (c *scriptConn) RemoteAddr() net.Addr             { return &net.TCPAddr{} }
func (c *scriptConn) SetDeadline(time.Time) error      { return nil }
func (c *scriptConn) SetReadDeadline(time.Time) error  { return nil }
func (c *scriptConn) SetWriteDeadline(time.Time) error { return nil }

func lit(xs ...string) func() [][]byte {
	return func() [][]byte {
		var out [][]byte
		for _, x := range xs {
			out = append(out, []byte(x))
		}
		return out
	}
}

func marshaled(ms ...interface{ Marshal() ([]byte, error) }) [][]byte {
	var out [][]byte
	for _, m := range ms {
		if b, err := m.Marshal(); err == nil {
			out = append(out, b)
		}
	}
	return out
}

func smbExample(name string, seed int) []byte {
	gen := rapid.Custom(func(t *rapid.T) []byte {
		e, _ := smbgen.ByName(name)
		cmd := smbgen.New(e)
		rapid.Bool().Draw(t, "_") // structures without fields draw nothing; rapid insists on one draw
		smbgen.Fill(t, cmd, smbgen.Options{MaxBytes: 12})
		return encodeSMB(e, cmd)
	})
	return gen.Example(seed)
}

func encodeSMB(e smbgen.Entry, cmd smbgen.Cmd) (b []byte) {
	defer func() {
		if recover() != nil {
			b = nil
		}
	}()
	m := message.NewMessage()
	m.AddCommand(cmd)
	if e.Response {
		m.Header.SetFlags(0x80)
	}
	b, err := m.Marshal()
	if err != nil {
		return nil
	}
	return b
}

// smbMessages: every structure of the inventory populated twice (so that no decoder is reached only
// through its empty form), n more picked at random, and one minimal message per (code, direction).
func smbMessages(n int) [][]byte {
	var out [][]byte
	names := smbgen.Names()
	for _, name := range names {
		got := 0
		for seed := 0; got < 2 && seed < 8; seed++ {
			if b := smbExample(name, seed); len(b) > 0 {
				out = append(out, b)
				got++
			}
		}
	}
	pick := rapid.Custom(func(t *rapid.T) []byte {
		return smbExample(names[rapid.IntRange(0, len(names)-1).Draw(t, "struct")], rapid.IntRange(8, 1<<20).Draw(t, "seed"))
	})
	for i, k := 0, 0; k < n && i < 4*n; i++ {
		if b := pick.Example(i); len(b) > 0 {
			out = append(out, b)
			k++
		}
	}
	// one minimal message per implemented (code, direction)
	for _, e := range smbgen.Inventory() {
		h := header.NewHeader()
		h.Command = 0
		hb, _ := h.Marshal()
		hb[4] = e.Code
		if e.Response {
			hb[9] = 0x80
		}
		out = append(out, append(hb, 0, 0, 0))
	}
	return out
}

// smbCountFaults: structured faults. A count/length/offset field and the buffer it describes are kept
// consistent by the caller, not by Marshal, so a hostile peer is modelled by encoding a populated
// structure whose count fields lie: each one alone driven to boundary values, and all of them together
// set to the same value (two lengths that each fit but do not fit together are out of reach of
// single-position corruption).
func smbCountFaults() [][]byte {
	var out [][]byte
	for _, e := range smbgen.Inventory() {
		rels := smbgen.Relations[e.Name]
		if len(rels) == 0 {
			continue
		}
		for seed := 0; seed < 2; seed++ {
			gen := rapid.Custom(func(t *rapid.T) [][]byte {
				var res [][]byte
				base := smbgen.New(e)
				smbgen.Fill(t, base, smbgen.Options{MaxBytes: 24})
				snap := smbgen.Snapshot(base)
				with := func(set func(name string, cur uint64) (uint64, bool)) {
					cmd := smbgen.New(e)
					smbgen.Restore(cmd, snap)
					rv := reflect.ValueOf(cmd).Elem()
					for _, r := range rels {
						f := rv.FieldByName(r.Count)
						if !f.IsValid() || !f.CanUint() {
							continue
						}
						if v, ok := set(r.Count, f.Uint()); ok {
							max := uint64(1)<<(8*uint(f.Type().Size())) - 1
							f.SetUint(v & max)
						}
					}
					if b := encodeSMB(e, cmd); len(b) > 0 {
						res = append(res, b)
					}
				}
				for _, r := range rels {
					for _, v := range []func(cur uint64) uint64{
						func(c uint64) uint64 { return 0 }, func(c uint64) uint64 { return c + 1 }, func(c uint64) uint64 { return c - 1 },
						func(c uint64) uint64 { return 2*c + 1 }, func(c uint64) uint64 { return 0x7F }, func(c uint64) uint64 { return 0xFF },
						func(c uint64) uint64 { return 0x7FFF }, func(c uint64) uint64 { return 0xFFFF }, func(c uint64) uint64 { return 0xFFFFFFFF },
					} {
						target, f := r.Count, v
						with(func(name string, cur uint64) (uint64, bool) { return f(cur), name == target })
					}
				}
				for _, all := range []uint64{1, 13, 25, 40, 200, 0x7FFF, 0xFFFF} {
					a := all
					with(func(name string, cur uint64) (uint64, bool) { return a, true })
				}
				return res
			})
			out = append(out, gen.Example(seed)...)
		}
	}
	return out
}

// smbStringTailFaults: structured faults of the strings in a data block. The five buffer formats differ in what
// follows the format byte (a NUL-terminated run; a 16-bit length and that many bytes; length, bytes and a
// terminator), and a decoder that chains several strings trusts the byte count each one reports. A hostile peer
// is modelled by cutting the data block of a valid message at a position and ending it with a string of each
// format whose declared length is exactly what is left, one more than what is left, or followed by its
// terminator - the byte count of the block is set to what is really there, so the message is well framed and
// the command decoder is reached. Positions: everywhere in a short data block, otherwise where a format byte
// stands in the valid encoding (all positions up to 96 in the thorough tier).
func smbStringTailFaults(thorough bool) [][]byte {
	var tails [][]byte
	for f := byte(1); f <= 5; f++ {
		for _, l := range []int{0, 1, 3} {
			content := bytes.Repeat([]byte{'A'}, l)
			exact := append([]byte{f, byte(l), 0}, content...) // declared length = what is there, nothing after it
			tails = append(tails, exact, append(append([]byte{}, exact...), 0))
			tails = append(tails, append([]byte{f, byte(l + 1), 0}, content...))                           // one byte short
			tails = append(tails, append(append([]byte{f}, content...), 0), append([]byte{f}, content...)) // NUL-terminated forms
		}
	}
	var out [][]byte
	for _, e := range smbgen.Inventory() {
		var seeds [][]byte
		if b := encodeSMB(e, smbgen.NewValid(e)); len(b) > 0 {
			seeds = append(seeds, b)
		}
		gen := rapid.Custom(func(t *rapid.T) []byte {
			rapid.Bool().Draw(t, "x")
			cmd := smbgen.New(e)
			smbgen.Fill(t, cmd, smbgen.Options{MaxBytes: 6})
			return encodeSMB(e, cmd)
		})
		if b := gen.Example(1); len(b) > 0 {
			seeds = append(seeds, b)
		}
		for _, b := range seeds {
			if len(b) < 35 {
				continue
			}
			wc := int(b[32])
			bcAt := 33 + 2*wc
			if bcAt+2 > len(b) {
				continue
			}
			dataStart := bcAt + 2
			bc := len(b) - dataStart
			for p := 0; p <= bc && p <= 96; p++ {
				if !thorough && bc > 12 && p != 0 && p != bc && !(b[dataStart+p] >= 1 && b[dataStart+p] <= 5) {
					continue
				}
				for _, tl := range tails {
					m := append(append([]byte{}, b[:dataStart+p]...), tl...)
					n := p + len(tl)
					m[bcAt], m[bcAt+1] = byte(n), byte(n>>8)
					out = append(out, m)
				}
			}
		}
	}
	return out
}

func llmnrSeeds() [][]byte {
	m := &dns.Message{ID: 0x1234, Flags: 0x8000,
		Questions:  []dns.Question{{Name: dns.Name{[]byte("host"), []byte("local")}, Type: 1, Class: 1}},
		Answers:    []dns.RR{{Name: dns.Name{[]byte("host"), []byte("local")}, Type: 1, Class: 1, TTL: 30, RData: []byte{10, 0, 0, 1}}},
		Additional: []dns.RR{{Name: dns.Name{[]byte("x"), []byte("host"), []byte("local")}, Type: 28, Class: 1, TTL: 30, RData: make([]byte, 16)}}}
	plain, _ := dns.Encode(m, nil)
	comp, _ := dns.Encode(m, func(n int) int { return n - 1 })
	q := &dns.Message{ID: 7, Questions: []dns.Question{{Name: dns.Name{[]byte("wpad")}, Type: 1, Class: 1}}}
	qb, _ := dns.Encode(q, nil)
	return [][]byte{plain, comp, qb}
}

func nbnsSeeds() [][]byte {
	name := func(s string) dns.Name {
		enc, _ := refnbns.FirstLevel([]byte(s))
		return dns.Name{[]byte(enc)}
	}
	scoped := append(name("FILESRV"), []byte("corp"), []byte("example"))
	m := &dns.Message{ID: 0x4242, Flags: 0x2910, Questions: []dns.Question{{Name: name("WORKSTATION"), Type: 0x20, Class: 1}},
		Additional: []dns.RR{{Name: scoped, Type: 0x20, Class: 1, TTL: 300000, RData: []byte{0, 0, 10, 0, 0, 1}}}}
	a, _ := dns.Encode(m, nil)
	q := &dns.Message{ID: 1, Flags: 0x0110, Questions: []dns.Question{{Name: name("*"), Type: 0x21, Class: 1}}}
	b, _ := dns.Encode(q, nil)
	return [][]byte{a, b}
}

func challengeSeeds() [][]byte {
	info := nlmp.EncodeAvPairs([]nlmp.AvPair{{ID: 2, Value: []byte("D\x00O\x00M\x00")}, {ID: 1, Value: []byte("S\x00R\x00V\x00")}, {ID: 7, Value: make([]byte, 8)}})
	c1 := &nlmp.Challenge{Flags: 0xE28A8215, TargetName: []byte("D\x00O\x00M\x00"), TargetInfo: info}
	c2 := &nlmp.Challenge{Flags: 0x00000206, TargetName: []byte("DOM"), InfoFirst: true, Gap1: []byte{1, 2, 3}}
	return [][]byte{c1.Build(), c2.Build()}
}

func spnegoSeeds() [][]byte {
	var out [][]byte
	for _, n := range []int{0, 5, 130, 300} {
		tok := bytes.Repeat([]byte{0x4e}, n)
		if b, err := spnego.CreateNegTokenInit(tok); err == nil {
			out = append(out, b)
		}
		if b, err := spnego.CreateNegTokenResp(spnego.AcceptIncomplete, spnego.NtlmOID, tok); err == nil {
			out = append(out, b)
		}
	}
	for _, c := range challengeSeeds() {
		if b, err := spnego.CreateNegTokenResp(spnego.AcceptIncomplete, spnego.NtlmOID, c); err == nil {
			out = append(out, b)
		}
	}
	return out
}

func keyCredentialSeeds() [][]byte {
	var out [][]byte
	for _, v := range []uint32{key.KeyCredentialVersion_0, key.KeyCredentialVersion_1, key.KeyCredentialVersion_2} {
		ver := key.KeyCredentialVersion{Value: v}
		mat := kccrypto.RSAKeyMaterial{Exponent: 65537, Modulus: bytes.Repeat([]byte{0xC3}, 64), KeySize: 512}
		var dev guid.GUID
		dev.FromRawBytes(bytes.Repeat([]byte{7}, 16))
		kc := keycredentiallink.NewKeyCredential(ver, kcutils.ComputeKeyIdentifier(mat.ToBytes(), ver), mat, dev, kcutils.NewDateTime(132223104000000000), kcutils.NewDateTime(132223104000000001))
		if b, err := kc.ToBytes(); err == nil {
			out = append(out, b)
		}
	}
	return out
}

func frame(p []byte) []byte {
	return append([]byte{0, byte(len(p) >> 16 & 1), byte(len(p) >> 8), byte(len(p))}, p...)
}

func entries() []entry {
	rk := types.NewSMB_RESUME_KEY()
	di := types.NewSMB_DIRECTORY_INFORMATION()
	di.FileName = *types.NewOEM_STRINGFromString("FILE.TXT")
	str := func(f uint8, s string) *types.SMB_STRING {
		return &types.SMB_STRING{BufferFormat: f, Buffer: []byte(s), Length: uint16(len(s))}
	}
	kcs := keyCredentialSeeds()
	mat := kccrypto.RSAKeyMaterial{Exponent: 65537, Modulus: bytes.Repeat([]byte{0xC3}, 64), Prime1: []byte{1, 2, 3}, Prime2: []byte{4, 5}, KeySize: 512}
	es := []entry{
		// SMB
		{Name: "smb.Message.Unmarshal", Call: func(in []byte) { m := message.NewMessage(); m.Unmarshal(in) }, Seeds: func() [][]byte { return smbMessages(150) },
			Codes: smbCommandCodes(), CodesAt: smbCommandPositions},
		{Name: "smb.Header.Unmarshal", Call: func(in []byte) { header.NewHeader().Unmarshal(in) }, Seeds: func() [][]byte { return marshaled(header.NewHeader()) }},
		{Name: "smb.Parameters.Unmarshal", Call: func(in []byte) { parameters.NewParameters().Unmarshal(in) }, Seeds: lit("\x00", "\x02\x01\x02\x03\x04")},
		{Name: "smb.Data.Unmarshal", Call: func(in []byte) { data.NewData().Unmarshal(in) }, Seeds: lit("\x00\x00", "\x03\x00abc")},
		{Name: "smb.AndX.Unmarshal", Call: func(in []byte) { andx.NewAndX().Unmarshal(in) }, Seeds: lit("\xff\x00\x00\x00")},
		{Name: "smb.Dialects.Unmarshal", Call: func(in []byte) { dialects.NewDialects().Unmarshal(in) }, Seeds: lit("\x02NT LM 0.12\x00", "\x02A\x00\x02B\x00", "")},
		{Name: "smb.utils.GetNullTerminatedUnicodeString", Call: func(in []byte) { cmdutils.GetNullTerminatedUnicodeString(in) }, Seeds: lit("D\x00O\x00M\x00\x00\x00", "")},
		{Name: "smb.utils.GetNullTerminatedString", Call: func(in []byte) { cmdutils.GetNullTerminatedString(in) }, Seeds: lit("DOM\x00", "")},
		{Name: "types.SMB_STRING.Unmarshal", Call: func(in []byte) { (&types.SMB_STRING{}).Unmarshal(in) }, Seeds: func() [][]byte {
			return marshaled(str(1, "abc"), str(2, "abc"), str(3, "abc"), str(4, "abc"), str(5, "abc"), str(5, ""))
		}},
		{Name: "types.OEM_STRING.Unmarshal", Call: func(in []byte) { types.NewOEM_STRING().Unmarshal(in) }, Seeds: func() [][]byte { return marshaled(types.NewOEM_STRINGFromString("SHARE")) }},
		{Name: "types.SMB_DATE.Unmarshal", Call: func(in []byte) { types.NewSMB_DATE().Unmarshal(in) }, Seeds: lit("\x21\x52")},
		{Name: "types.FILETIME.Unmarshal", Call: func(in []byte) { (&types.FILETIME{}).Unmarshal(in) }, Seeds: lit("\x01\x02\x03\x04\x05\x06\x07\x08")},
		{Name: "types.LOCKING_ANDX_RANGE32.Unmarshal", Call: func(in []byte) { (&types.LOCKING_ANDX_RANGE32{}).Unmarshal(in) }, Seeds: func() [][]byte {
			return marshaled(&types.LOCKING_ANDX_RANGE32{PID: 1, ByteOffset: 2, LengthInBytes: 3})
		}},
		{Name: "types.LOCKING_ANDX_RANGE64.Unmarshal", Call: func(in []byte) { (&types.LOCKING_ANDX_RANGE64{}).Unmarshal(in) }, Seeds: func() [][]byte { return marshaled(&types.LOCKING_ANDX_RANGE64{PID: 1}) }},
		{Name: "types.SMB_NMPIPE_STATUS.Unmarshal", Call: func(in []byte) { (&types.SMB_NMPIPE_STATUS{}).Unmarshal(in) }, Seeds: lit("\x01\x40")},
		{Name: "types.SMB_RESUME_KEY.Unmarshal", Call: func(in []byte) { types.NewSMB_RESUME_KEY().Unmarshal(in) }, Seeds: func() [][]byte { return marshaled(rk) }},
		{Name: "types.SMB_DIRECTORY_INFORMATION.Unmarshal", Call: func(in []byte) { types.NewSMB_DIRECTORY_INFORMATION().Unmarshal(in) }, Seeds: func() [][]byte { return marshaled(di) }},
		{Name: "types.SMB_FILE_ATTRIBUTES.Unmarshal", Call: func(in []byte) { (&types.SMB_FILE_ATTRIBUTES{}).Unmarshal(in) }, Seeds: lit("\x00\x20")},
		// LLMNR
		{Name: "llmnr.DecodeMessage", Codes: dnsCodes, Call: func(in []byte) { llmnr.DecodeMessage(in) }, Seeds: func() [][]byte {
			_, hops := laterHopSeeds()
			return append(append(llmnrSeeds(), llmnrTypeSeeds()...), hops...)
		}},
		{Name: "llmnr.DecodeDomainName@12", Call: func(in []byte) { llmnr.DecodeDomainName(in, min(12, len(in))) }, Seeds: llmnrSeeds},
		{Name: "llmnr.DecodeDomainName@any", Call: func(in []byte) {
			if len(in) > 0 {
				llmnr.DecodeDomainName(in[1:], int(in[0])%(len(in)))
			}
		}, Seeds: llmnrSeeds},
		// the name at the 16-bit offset given by the last two input bytes (names far into a packet: the
		// end of a long chain of backward pointers)
		{Name: "llmnr.DecodeDomainName@tail", Call: func(in []byte) {
			if n := len(in) - 2; n > 0 {
				llmnr.DecodeDomainName(in[:n:n], int(binary.BigEndian.Uint16(in[n:]))%n)
			}
		}, Seeds: func() [][]byte {
			var out [][]byte
			for _, sd := range llmnrSeeds() {
				out = append(out, append(append([]byte{}, sd...), 0, 12))
			}
			hops, _ := laterHopSeeds()
			return append(out, hops...)
		}},
		{Name: "llmnr.DecodeQuestion", Codes: dnsCodes, Call: func(in []byte) { llmnr.DecodeQuestion(in, min(12, len(in))) }, Seeds: llmnrSeeds},
		{Name: "llmnr.DecodeResourceRecord", Codes: dnsCodes, Call: func(in []byte) { llmnr.DecodeResourceRecord(in, min(12, len(in))) }, Seeds: func() [][]byte { return append(llmnrSeeds(), llmnrRecordSeeds()...) }},
		// NBNS / NBT
		{Name: "nbtns.NBTNSPacket.Unmarshal", Codes: nbnsCodes, Call: func(in []byte) { var p nbtns.NBTNSPacket; p.Unmarshal(in) }, Seeds: func() [][]byte { return append(nbnsSeeds(), nbnsTypeSeeds()...) }},
		{Name: "nbtns.FirstLevelDecode", Text: true, Call: func(in []byte) { nbtns.FirstLevelDecode(string(in)) }, Seeds: lit("EGFCEFEECACACACACACACACACACACACA", "EGFCEFEECACACACACACACACACACACACA.corp.example")},
		{Name: "nbt.NBTTransport.Receive", Codes: nbtCodes, Call: func(in []byte) {
			tr := nbt.NewNBTTransportFromConn(&scriptConn{bytes.NewReader(in)})
			for i := 0; i < 4; i++ {
				if _, err := tr.Receive(); err != nil {
					break
				}
			}
		}, Seeds: func() [][]byte {
			return append([][]byte{frame([]byte("hello")), append(frame(nil), frame(bytes.Repeat([]byte{1}, 300))...)}, nbtTypeSeeds()...)
		}},
		// NTLM / SPNEGO
		{Name: "ntlm.ParseChallengeMessage", Codes: ntlmCodes, Call: func(in []byte) { ntlm.ParseChallengeMessage(in) }, Seeds: func() [][]byte { return append(challengeSeeds(), ntlmTypeSeeds()...) }},
		{Name: "ntlm.ParseTargetInfo", Codes: ntlmCodes, Call: func(in []byte) { ntlm.ParseTargetInfo(in) }, Seeds: func() [][]byte {
			return [][]byte{nlmp.EncodeAvPairs([]nlmp.AvPair{{ID: 2, Value: []byte("D\x00")}, {ID: 9, Value: []byte("cifs/x")}}), nlmp.EncodeAvPairs(nil), allAvPairs()}
		}},
		{Name: "ntlm.version.Unmarshal", Call: func(in []byte) { (&version.Version{}).Unmarshal(in) }, Seeds: lit("\x0a\x00\xba\x47\x00\x00\x00\x0f")},
		{Name: "spnego.ParseNegTokenResp", Call: func(in []byte) { spnego.ParseNegTokenResp(in) }, Seeds: spnegoSeeds},
		{Name: "spnego.ExtractNTLMToken", Call: func(in []byte) { spnego.ExtractNTLMToken(in) }, Seeds: spnegoSeeds},
		{Name: "spnego.AuthContext.ProcessChallengeToken", Codes: spnegoCodes, Call: func(in []byte) {
			spnego.NewAuthContext(spnego.AuthTypeNTLM, "DOM", "user", "pw", "WS", true).ProcessChallengeToken(in)
		}, Seeds: spnegoSeeds},
		// key credentials
		{Name: "keycredential.KeyCredential.FromBytes", Codes: keyCredentialCodes, Call: func(in []byte) {
			var kc keycredentiallink.KeyCredential
			if kc.FromBytes(in) == nil {
				kc.CheckIntegrity()
			}
		}, Seeds: func() [][]byte { return kcs }},
		{Name: "keycredential.DNWithBinary.Parse", Text: true, Call: func(in []byte) { (&keycredentiallink.DNWithBinary{}).Parse(in) }, Seeds: lit("B:8:01020304:CN=x,DC=y", "B:0::CN=a:b")},
		{Name: "keycredential.RSAKeyMaterial.FromBytes", Call: func(in []byte) { (&kccrypto.RSAKeyMaterial{}).FromBytes(in) }, Seeds: func() [][]byte { return [][]byte{mat.ToBytes()} }},
		{Name: "keycredential.CustomKeyInformation.FromBytes", Call: func(in []byte) {
			(&key.CustomKeyInformation{}).FromBytes(in, key.KeyCredentialVersion{Value: key.KeyCredentialVersion_2})
		}, Seeds: lit("\x01\x00", "\x01\x02\x01\x00\x03\x02\x00\x00\x00\x00\x00\x00\x00\x00\x00\x00\x00\x00\x00\xAA\xBB")},
		{Name: "keycredential.KeyCredentialVersion.FromBytes", Call: func(in []byte) { (&key.KeyCredentialVersion{}).FromBytes(in) }, Seeds: lit("\x00\x02\x00\x00")},
		{Name: "keycredential.KeyStrength.FromBytes", Call: func(in []byte) { (&key.KeyStrength{}).FromBytes(in) }, Seeds: lit("\x02\x00\x00\x00")},
		{Name: "keycredential.KeySource.FromBytes", Call: func(in []byte) { key.KeySource(0).FromBytes(in) }, Seeds: lit("\x00\x00")},
		{Name: "keycredential.ConvertFromBinaryTime", Call: func(in []byte) {
			kcutils.ConvertFromBinaryTime(in, key.KeySource_AD, key.KeyCredentialVersion{Value: key.KeyCredentialVersion_2})
		}, Seeds: lit("\x00\x80\x3e\xd5\xde\xb1\x9d\x01")},
		{Name: "keycredential.ConvertToBinaryIdentifier", Text: true, Call: func(in []byte) {
			for _, v := range []uint32{key.KeyCredentialVersion_0, key.KeyCredentialVersion_2} {
				kcutils.ConvertToBinaryIdentifier(string(in), key.KeyCredentialVersion{Value: v})
			}
		}, Seeds: lit("0a0b0c", "AAECAwQFBgcICQoLDA0ODxAREhMUFRYXGBkaGxwdHh8=")},
		// LDAP
		{Name: "ldap.ParseSIDFromBytes", Call: func(in []byte) { ldap.ParseSIDFromBytes(in) }, Seeds: lit("\x01\x01\x00\x00\x00\x00\x00\x05\x12\x00\x00\x00", "\x01\x05\x00\x00\x00\x00\x00\x05\x15\x00\x00\x00\x01\x00\x00\x00\x02\x00\x00\x00\x03\x00\x00\x00\xf4\x01\x00\x00", "\x01\x00\x00\x00\x00\x00\x00\x05")},
		{Name: "ldap.GetDomainFromDistinguishedName", Text: true, Call: func(in []byte) { ldap.GetDomainFromDistinguishedName(string(in)) }, Seeds: lit("CN=a,DC=b,DC=c")},
		{Name: "ldap.ConvertLDAPTimeStampToUnixTimeStamp", Text: true, Call: func(in []byte) { ldap.ConvertLDAPTimeStampToUnixTimeStamp(string(in)) }, Seeds: lit("132223104000000000", "-1", "9223372036854775807")},
		{Name: "ldap.ConvertLDAPDurationToSeconds", Text: true, Call: func(in []byte) { ldap.ConvertLDAPDurationToSeconds(string(in)) }, Seeds: lit("-864000000000", "-9223372036854775808")},
		// crypto helpers
		{Name: "gppp.GPPPDecryptBase64", Text: true, Call: func(in []byte) { gppp.GPPPDecryptBase64(string(in)) }, Seeds: func() [][]byte {
			_, b64 := gpppSealedSeeds()
			return append(lit("j1Uyj3Vx8TY9LtLZil2uAuZkFQA/4latT76ZwgdHdhw", "AAAA", "")(), b64...)
		}},
		{Name: "gppp.GPPPDecryptBytes", Call: func(in []byte) { gppp.GPPPDecryptBytes(in) }, Seeds: func() [][]byte {
			raw, _ := gpppSealedSeeds()
			return append([][]byte{make([]byte, 16), make([]byte, 32)}, raw...)
		}},
		// the input is the PLAINTEXT: it is encrypted with the published key (padded first, unless it is
		// block-aligned and so carries its own padding) and the result handed to the decoder
		{Name: "gppp.GPPPDecryptBytes@plaintext", Call: func(in []byte) { gppp.GPPPDecryptBytes(gpppSeal(in)) }, Seeds: gpppPlaintexts},
		{Name: "gppp.GPPPDecryptBase64@plaintext", Call: func(in []byte) { gppp.GPPPDecryptBase64(string(gpppB64(gpppSeal(in)))) }, Seeds: gpppPlaintexts},
		{Name: "pkcs7.Unpad", Call: func(in []byte) { pkcs7.Unpad(in) }, Seeds: lit("abc\x05\x05\x05\x05\x05", "\x01")},
		{Name: "utf16.DecodeUTF16LE", Call: func(in []byte) { utf16.DecodeUTF16LE(in) }, Seeds: lit("a\x00b\x00", "\x3d\xd8\x00\xde", "")},
		// UUID / GUID
		{Name: "uuid.UUID.Unmarshal", Call: func(in []byte) { (&uuid.UUID{}).Unmarshal(in) }, Seeds: lit("\x01\x02\x03\x04\x05\x06\x17\x08\x89\x0a\x0b\x0c\x0d\x0e\x0f\x10")},
		{Name: "uuid.UUID.FromString", Text: true, Call: func(in []byte) { (&uuid.UUID{}).FromString(string(in)) }, Seeds: lit("6ba7b810-9dad-11d1-80b4-00c04fd430c8")},
		{Name: "uuid_v1.FromBytes/FromString", Text: true, Call: func(in []byte) {
			(&uuid_v1.UUIDv1{}).FromBytes(in)
			(&uuid_v1.UUIDv1{}).FromString(string(in))
			(&uuid_v1.UUIDv1{}).Unmarshal(in)
		}, Seeds: lit("6ba7b810-9dad-11d1-80b4-00c04fd430c8", "\x01\x02\x03\x04\x05\x06\x17\x08\x89\x0a\x0b\x0c\x0d\x0e\x0f\x10")},
		{Name: "uuid_v2.FromBytes/FromString", Text: true, Call: func(in []byte) {
			(&uuid_v2.UUIDv2{}).FromBytes(in)
			(&uuid_v2.UUIDv2{}).FromString(string(in))
			(&uuid_v2.UUIDv2{}).Unmarshal(in)
		}, Seeds: lit("6ba7b810-9dad-21d1-80b4-00c04fd430c8", "\x01\x02\x03\x04\x05\x06\x27\x08\x89\x0a\x0b\x0c\x0d\x0e\x0f\x10")},
		{Name: "uuid_v8.FromBytes/FromString", Text: true, Call: func(in []byte) {
			(&uuid_v8.UUIDv8{}).FromBytes(in)
			(&uuid_v8.UUIDv8{}).FromString(string(in))
			(&uuid_v8.UUIDv8{}).Unmarshal(in)
		}, Seeds: lit("6ba7b810-9dad-81d1-80b4-00c04fd430c8", "\x01\x02\x03\x04\x05\x06\x87\x08\x89\x0a\x0b\x0c\x0d\x0e\x0f\x10")},
		{Name: "guid.FromString", Text: true, Call: func(in []byte) { guid.FromString(string(in)) }, Seeds: lit("{12345678-1234-5678-9abc-def012345678}", "12345678123456789abcdef012345678", "{0x12345678,0x1234,0x5678,{0x9a,0xbc,0xde,0xf0,0x12,0x34,0x56,0x78}}")},
		{Name: "guid.FromFormatN", Text: true, Call: func(in []byte) { guid.FromFormatN(string(in)) }, Seeds: lit("12345678123456789abcdef012345678")},
		{Name: "guid.FromFormatD", Text: true, Call: func(in []byte) { guid.FromFormatD(string(in)) }, Seeds: lit("12345678-1234-5678-9abc-def012345678")},
		{Name: "guid.FromFormatB", Text: true, Call: func(in []byte) { guid.FromFormatB(string(in)) }, Seeds: lit("{12345678-1234-5678-9abc-def012345678}")},
		{Name: "guid.FromFormatP", Text: true, Call: func(in []byte) { guid.FromFormatP(string(in)) }, Seeds: lit("(12345678-1234-5678-9abc-def012345678)")},
		{Name: "guid.FromFormatX", Text: true, Call: func(in []byte) { guid.FromFormatX(string(in)) }, Seeds: lit("{0x12345678,0x1234,0x5678,{0x9a,0xbc,0xde,0xf0,0x12,0x34,0x56,0x78}}")},
		{Name: "guid.GUID.FromRawBytes", Call: func(in []byte) { (&guid.GUID{}).FromRawBytes(in) }, Seeds: lit("\x01\x02\x03\x04\x05\x06\x07\x08\x09\x0a\x0b\x0c\x0d\x0e\x0f\x10")},
		// credentials / addresses
		{Name: "credentials.ParseLMNTHashes", Text: true, Call: func(in []byte) { credentials.ParseLMNTHashes(string(in)) }, Seeds: lit("aad3b435b51404eeaad3b435b51404ee:31d6cfe0d16ae931b73c59d7e0c089c0", ":31d6cfe0d16ae931b73c59d7e0c089c0")},
		{Name: "ip.NewIPv4FromString", Text: true, Call: func(in []byte) { ip.NewIPv4FromString(string(in)) }, Seeds: lit("192.168.1.10/24", "1/2", "/")},
		{Name: "ip.NewIPv6FromString", Text: true, Call: func(in []byte) { ip.NewIPv6FromString(string(in)) }, Seeds: lit("fe80:0:0:0:1:2:3:4")},
		{Name: "ip.NewTCPPortRangeFromString", Text: true, Call: func(in []byte) { ip.NewTCPPortRangeFromString(string(in)) }, Seeds: lit("80-443", " 1 - 2 ")},
	}
	return es
}

var _ = fmt.Sprintf
var _ = binary.LittleEndian
