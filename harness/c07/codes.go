//go:build verif

package c07

import (
	"bytes"
	"crypto/aes"
	"crypto/cipher"
	"encoding/base64"
	"encoding/binary"

	"manticoreverif/ref/dns"
	refnbns "manticoreverif/ref/nbns"
	"manticoreverif/ref/nlmp"
	"manticoreverif/smbgen"
)

// ---- the enumerated one-byte codes of each format -------------------------------------------------
//
// A decoder branches on the type/opcode/identifier codes of its format, and most of those branches are
// reached by no seed and by none of the generic boundary values (00 01 7F 80 FE FF, +-1). Each entry
// point therefore names the codes of its format (entry.Codes); the systematic enumeration tries every
// one of them at every position (or, where the format has many codes, at the positions where a code
// stands: entry.CodesAt), and the seeds contain an element of every kind.

var (
	// RFC 1002 4.3.1: session packet types
	nbtCodes = []byte{0x81, 0x82, 0x83, 0x84, 0x85}
	// RFC 1035 3.2.2 / 3.2.3, RFC 2782, 3596, 6891, 4034: record types whose RDATA has a structure
	// (names, counted strings, fixed fields) and the query types
	dnsCodes = []byte{1, 2, 5, 6, 12, 13, 15, 16, 28, 33, 41, 47, 251, 252, 255}
	// RFC 1002 4.2.1.1 .. 4.2.1.3: record types NB, NBSTAT, NULL, NS (A = 1 is a generic value); the
	// third header byte for opcodes 5 (registration), 6 (release), 7 (WACK), 8 (refresh), 9 (alternate
	// refresh, as sent by Windows), F (multi-homed registration) as requests and for the common
	// responses (0x85 positive query, 0xAD registration, 0xB0 release, 0xBC WACK); rcodes NAM and ACT
	nbnsCodes = []byte{0x20, 0x21, 0x0A, 0x02, 0x28, 0x29, 0x30, 0x38, 0x40, 0x48, 0x78, 0x85, 0xAD, 0xB0, 0xBC, 0x03, 0x06}
	// MS-NLMP 2.2.1: message types 1..3; 2.2.2.1: AV pair identifiers 0..10
	ntlmCodes = []byte{1, 2, 3, 4, 5, 6, 7, 8, 9, 10}
	// the same, and the DER tags a SPNEGO token is made of (RFC 4178 4.2: [APPLICATION 0], SEQUENCE,
	// context tags 0..3, OCTET STRING, OID, ENUMERATED, BIT STRING)
	spnegoCodes = append([]byte{0x60, 0x30, 0xA0, 0xA1, 0xA2, 0xA3, 0x04, 0x06, 0x0A, 0x03}, ntlmCodes[:9]...)
	// MS-ADTS 2.2.20.6: key-credential entry identifiers 1..9 (and the first unassigned one)
	keyCredentialCodes = []byte{1, 2, 3, 4, 5, 6, 7, 8, 9, 10}
)

// smbCommandCodes: every command code the library implements in either direction, and 0xFF (AndX: no
// further command).
func smbCommandCodes() []byte {
	seen := map[byte]bool{0xFF: true}
	out := []byte{0xFF}
	for _, e := range smbgen.Inventory() {
		if !seen[e.Code] {
			seen[e.Code] = true
			out = append(out, e.Code)
		}
	}
	return out
}

// smbCommandPositions: where an SMB message carries command codes - byte 4 of the header and the
// AndXCommand byte of each block of an AndX chain (the chain is followed through AndXOffset read in
// either byte order, since that is all this has to be: a set of positions worth trying).
func smbCommandPositions(seed []byte) []int {
	n := len(seed)
	if n < 5 {
		return nil
	}
	ps := []int{4}
	seen := map[int]bool{4: true}
	var follow func(off, depth int)
	follow = func(off, depth int) {
		if depth > 4 || off < 32 || off+5 > n || seed[off] < 2 || seen[off+1] {
			return
		}
		seen[off+1] = true
		ps = append(ps, off+1)
		follow(int(binary.LittleEndian.Uint16(seed[off+3:])), depth+1)
		follow(int(binary.BigEndian.Uint16(seed[off+3:])), depth+1)
	}
	follow(32, 0)
	return ps
}

// ---- seeds that contain an element of every kind -----------------------------------------------------

// nbtTypeSeeds: every session packet type with no trailer and with the trailer RFC 1002 4.3 gives it,
// alone and followed by a session message.
func nbtTypeSeeds() [][]byte {
	var out [][]byte
	called := append(append([]byte{32}, bytes.Repeat([]byte("CA"), 16)...), 0)
	trailers := map[byte][]byte{0x81: cat(called, called), 0x82: nil, 0x83: {0x8F}, 0x84: {10, 0, 0, 1, 0, 139}, 0x85: nil}
	for _, t := range nbtCodes {
		bare := []byte{t, 0, 0, 0}
		out = append(out, bare, cat(bare, frame([]byte("hi"))))
		if tr := trailers[t]; len(tr) > 0 {
			full := cat([]byte{t, 0, byte(len(tr) >> 8), byte(len(tr))}, tr)
			out = append(out, full, cat(full, frame([]byte("hi"))))
		}
	}
	// a keep-alive between two messages, as a live session has them
	out = append(out, cat(frame([]byte("one")), []byte{0x85, 0, 0, 0}, frame([]byte("two"))))
	return out
}

// wireName: a name written out.
func wireName(labels ...string) []byte {
	var b []byte
	for _, l := range labels {
		b = append(b, byte(len(l)))
		b = append(b, l...)
	}
	return append(b, 0)
}

// llmnrTypeSeeds: records of the types whose RDATA has a structure of its own.
func llmnrTypeSeeds() [][]byte {
	host := dns.Name{[]byte("host"), []byte("local")}
	srv := dns.Name{[]byte("_ldap"), []byte("_tcp"), []byte("local")}
	m := &dns.Message{ID: 0x2222, Flags: 0x8400,
		Questions: []dns.Question{{Name: srv, Type: 33, Class: 1}, {Name: host, Type: 255, Class: 255}},
		Answers: []dns.RR{
			{Name: srv, Type: 33, Class: 1, TTL: 30, RData: cat([]byte{0, 0, 0, 100, 1, 0x85}, wireName("dc1", "local"))},
			{Name: dns.Name{[]byte("1"), []byte("0"), []byte("0"), []byte("10"), []byte("in-addr"), []byte("arpa")}, Type: 12, Class: 1, TTL: 30, RData: []byte{4, 'h', 'o', 's', 't', 0xC0, 0x17}},
			{Name: dns.Name{[]byte("www"), []byte("local")}, Type: 5, Class: 1, TTL: 30, RData: wireName("host", "local")},
			{Name: host, Type: 16, Class: 1, TTL: 30, RData: []byte{3, 'a', '=', 'b', 0, 1, 'c'}},
			{Name: host, Type: 15, Class: 1, TTL: 30, RData: cat([]byte{0, 10}, wireName("mail", "local"))},
			{Name: host, Type: 13, Class: 1, TTL: 30, RData: []byte{3, 'x', '8', '6', 5, 'L', 'I', 'N', 'U', 'X'}},
			{Name: host, Type: 47, Class: 1, TTL: 30, RData: cat(wireName("host", "local"), []byte{0, 1, 0x40})},
		},
		Authority: []dns.RR{
			{Name: dns.Name{[]byte("local")}, Type: 6, Class: 1, TTL: 30, RData: cat(wireName("ns", "local"), wireName("admin", "local"), make([]byte, 20))},
			{Name: dns.Name{[]byte("local")}, Type: 2, Class: 1, TTL: 30, RData: wireName("ns", "local")},
		},
		Additional: []dns.RR{
			{Name: dns.Name{}, Type: 41, Class: 4096, TTL: 0x00008000, RData: []byte{0, 10, 0, 2, 1, 2}},
			{Name: dns.Name{[]byte("dc1"), []byte("local")}, Type: 28, Class: 1, TTL: 30, RData: make([]byte, 16)},
		}}
	plain, _ := dns.Encode(m, nil)
	comp, _ := dns.Encode(m, func(n int) int { return 0 })
	return [][]byte{plain, comp}
}

// llmnrRecordSeeds: header + one record of each of those types at offset 12, where the single-record
// entry point decodes.
func llmnrRecordSeeds() [][]byte {
	var out [][]byte
	m, err := dns.Parse(llmnrTypeSeeds()[0])
	if err != nil {
		return nil
	}
	for _, r := range append(append(append([]dns.RR{}, m.Answers...), m.Authority...), m.Additional...) {
		one, _ := dns.Encode(&dns.Message{ID: 1, Flags: 0x8000, Answers: []dns.RR{r}}, nil)
		out = append(out, one)
	}
	return out
}

// laterHopSeeds: names whose second or later pointer hop is not backwards - it points at itself,
// forwards to a place not visited before, or back into a loop (A -> A, A -> B -> A, three places) - with
// every place involved BELOW the name that is decoded, so that a bound which is not lowered hop by hop
// lets them through; and the legal walks they are corruptions of. Every shape is entered at its last
// and at its first place. tail: for the entry point that
// decodes the name at the offset given by the last two bytes; msgs: whole messages in which the places
// lie in the RDATA of a first record and the name of the second record enters them.
func laterHopSeeds() (tail, msgs [][]byte) {
	ptr := func(to int) []byte { return []byte{0xC0 | byte(to>>8), byte(to)} }
	type place struct {
		labels []byte // labels before the pointer
		to     int    // index of the place pointed at; -1: zero octet
	}
	shapes := [][]place{
		{{nil, 0}},                                  // A -> A
		{{nil, 1}, {nil, 0}},                        // name -> B -> A -> B: A -> B is forwards, both below the name
		{{nil, 2}, {nil, 0}, {nil, 1}},              // a loop through three places
		{{[]byte{1, 'x'}, 1}, {[]byte{1, 'b'}, -1}}, // entered at A: "x", then forwards to B "b" (reads as n.x.b when accepted); at B: legal
		{{[]byte{1, 'a'}, 0}},                       // a loop that collects a label per turn
		{{nil, -1}, {nil, 0}, {nil, 1}},             // the legal walk: three hops down to the root
		{{[]byte{1, 'a'}, -1}, {[]byte{1, 'b'}, 0}}, // the legal walk with labels
		{{nil, 1}, {[]byte{1, 'b'}, 0}},             // A -> B forwards, B "b" -> A: a loop with a label
	}
	for _, sh := range shapes {
		entries := []int{len(sh) - 1}
		if len(sh) > 1 {
			entries = append(entries, 0)
		}
		for _, entry := range entries {
			build := func(base int) (area []byte, entryAt int) {
				starts := make([]int, len(sh))
				at := base
				for i, p := range sh {
					starts[i] = at
					at += len(p.labels) + 2
					if p.to < 0 {
						at--
					}
				}
				for _, p := range sh {
					area = append(area, p.labels...)
					if p.to < 0 {
						area = append(area, 0)
					} else {
						area = append(area, ptr(starts[p.to])...)
					}
				}
				return area, starts[entry]
			}
			// standalone: header, the places, then the name under test = label "n" + pointer to the entry place
			area, entryAt := build(12)
			b := cat(dnsHeader(0, 0, 0, 0), area)
			nameAt := len(b)
			b = cat(b, []byte{1, 'n'}, ptr(entryAt))
			tail = append(tail, cat(b, be16(nameAt)))
			// a bare pointer as the name under test
			b2 := cat(dnsHeader(0, 0, 0, 0), area)
			nameAt2 := len(b2)
			tail = append(tail, cat(b2, ptr(entryAt), be16(nameAt2)))
			// inside a message: record 1 (root name, TXT) carries the places in its RDATA
			area, entryAt = build(12 + 11)
			m := cat(dnsHeader(0, 2, 0, 0), []byte{0, 0, 16, 0, 1, 0, 0, 0, 30}, be16(len(area)), area,
				[]byte{1, 'n'}, ptr(entryAt), []byte{0, 1, 0, 1, 0, 0, 0, 30, 0, 4, 10, 0, 0, 1})
			msgs = append(msgs, m)
		}
	}
	return
}

// nbnsTypeSeeds: a node status response (NBSTAT), a registration request whose additional record names
// the question through a pointer (as every NBNS registration does), a negative registration response,
// a WACK and a redirect with an NS and an A record.
func nbnsTypeSeeds() [][]byte {
	name := func(s string) []byte {
		enc, _ := refnbns.FirstLevel([]byte(s))
		return append(append([]byte{32}, enc...), 0)
	}
	host := name("HOST")
	nbstat := cat([]byte{2}, []byte("HOST           \x00"), []byte{0x04, 0x00}, []byte("WORKGROUP      \x00"), []byte{0x84, 0x00}, make([]byte, 46))
	status := cat([]byte{0x00, 0x07, 0x84, 0x00}, be16(0), be16(1), be16(0), be16(0), name("*"), []byte{0, 0x21, 0, 1, 0, 0, 0, 0}, be16(len(nbstat)), nbstat)
	nb := []byte{0x00, 0x00, 10, 0, 0, 1}
	register := cat([]byte{0x00, 0x08, 0x29, 0x10}, be16(1), be16(0), be16(0), be16(1), host, []byte{0, 0x20, 0, 1}, []byte{0xC0, 0x0C, 0, 0x20, 0, 1, 0, 4, 0x93, 0xE0}, be16(len(nb)), nb)
	registerFull := cat([]byte{0x00, 0x09, 0x29, 0x10}, be16(1), be16(0), be16(0), be16(1), host, []byte{0, 0x20, 0, 1}, host, []byte{0, 0x20, 0, 1, 0, 4, 0x93, 0xE0}, be16(len(nb)), nb)
	negative := cat([]byte{0x00, 0x08, 0xAD, 0x86}, be16(0), be16(1), be16(0), be16(0), host, []byte{0, 0x20, 0, 1, 0, 0, 0, 0}, be16(len(nb)), nb)
	wack := cat([]byte{0x00, 0x08, 0xBC, 0x00}, be16(0), be16(1), be16(0), be16(0), host, []byte{0, 0x20, 0, 1, 0, 0, 0, 5}, be16(2), []byte{0x29, 0x10})
	redirect := cat([]byte{0x00, 0x0A, 0x80, 0x00}, be16(0), be16(0), be16(1), be16(1), host, []byte{0, 0x02, 0, 1, 0, 0, 0, 60}, be16(len(host)), host,
		host, []byte{0, 0x01, 0, 1, 0, 0, 0, 60}, be16(4), []byte{10, 0, 0, 2})
	null := cat([]byte{0x00, 0x0B, 0x85, 0x83}, be16(0), be16(1), be16(0), be16(0), host, []byte{0, 0x0A, 0, 1, 0, 0, 0, 0}, be16(0))
	return [][]byte{status, register, registerFull, negative, wack, redirect, null}
}

// ntlmTypeSeeds: a NEGOTIATE_MESSAGE (type 1) and an AUTHENTICATE_MESSAGE (type 3), which a peer may
// send where a CHALLENGE_MESSAGE is expected, and a CHALLENGE_MESSAGE whose target info has an AV pair
// of every identifier (0x0001 .. 0x000A).
func ntlmTypeSeeds() [][]byte {
	sig := []byte("NTLMSSP\x00")
	le32 := func(v uint32) []byte { return binary.LittleEndian.AppendUint32(nil, v) }
	field := func(n, off int) []byte {
		return cat(binary.LittleEndian.AppendUint16(nil, uint16(n)), binary.LittleEndian.AppendUint16(nil, uint16(n)), le32(uint32(off)))
	}
	negotiate := cat(sig, le32(1), le32(0xE2088297), field(3, 40), field(2, 43), []byte{10, 0, 0x61, 0x4A, 0, 0, 0, 15}, []byte("DOMWS"))
	payload := cat(make([]byte, 24), bytes.Repeat([]byte{0xAB}, 44), []byte("D\x00O\x00M\x00"), []byte("u\x00"), []byte("W\x00S\x00"), make([]byte, 16))
	authenticate := cat(sig, le32(3), field(24, 88), field(44, 112), field(6, 156), field(2, 162), field(4, 164), field(16, 168), le32(0xE2888215),
		[]byte{10, 0, 0x61, 0x4A, 0, 0, 0, 15}, make([]byte, 16), payload)
	challenge := (&nlmp.Challenge{Flags: 0xE28A8215, TargetName: []byte("D\x00O\x00M\x00"), TargetInfo: allAvPairs()}).Build()
	return [][]byte{negotiate, authenticate, challenge}
}

// allAvPairs: a target info with an AV pair of every identifier 0x0001 .. 0x000A (and the terminator).
func allAvPairs() []byte {
	var pairs []nlmp.AvPair
	values := map[uint16][]byte{6: {2, 0, 0, 0}, 7: make([]byte, 8), 8: make([]byte, 48), 10: make([]byte, 16)}
	for id := uint16(1); id <= 10; id++ {
		v := values[id]
		if v == nil {
			v = []byte("N\x00A\x00M\x00E\x00")
		}
		pairs = append(pairs, nlmp.AvPair{ID: id, Value: v})
	}
	return nlmp.EncodeAvPairs(pairs)
}

// ---- GPP cpasswords made from chosen plaintexts ------------------------------------------------------
//
// Everything GPPPDecryptBytes does after the AES step - unpadding, UTF-16 decoding, whatever trimming a
// version adds - sees the decrypted plaintext. A random or corrupted ciphertext decrypts to noise that
// fails unpadding 255 times in 256, so that code is only reached by ciphertexts MADE from a plaintext
// with the published key (MS-GPPREF 2.2.1.1.4; AES-256-CBC, zero IV). gpppSeal does that; the entry
// points "...@plaintext" take their input as the plaintext, so that the systematic enumeration
// (truncations, boundary values at every position, 16-bit extremes) works on the plaintext itself.

var gpppKey = []byte{
	0x4e, 0x99, 0x06, 0xe8, 0xfc, 0xb6, 0x6c, 0xc9, 0xfa, 0xf4, 0x93, 0x10, 0x62, 0x0f, 0xfe, 0xe8,
	0xf4, 0x96, 0xe8, 0x06, 0xcc, 0x05, 0x79, 0x90, 0x20, 0x9b, 0x09, 0xa4, 0x33, 0xb6, 0x6c, 0x1b,
}

// gpppSeal encrypts pt. A plaintext that is a non-empty multiple of the block size is encrypted as
// it stands (it carries its own padding, valid or not); any other gets PKCS#7 padding first.
func gpppSeal(pt []byte) []byte {
	if len(pt) == 0 || len(pt)%aes.BlockSize != 0 {
		n := aes.BlockSize - len(pt)%aes.BlockSize
		pt = cat(pt, bytes.Repeat([]byte{byte(n)}, n))
	}
	block, err := aes.NewCipher(gpppKey)
	if err != nil {
		return nil
	}
	out := make([]byte, len(pt))
	cipher.NewCBCEncrypter(block, make([]byte, aes.BlockSize)).CryptBlocks(out, pt)
	return out
}

// gpppB64 is the cpassword attribute form: base64 without the trailing '='.
func gpppB64(ct []byte) []byte {
	return bytes.TrimRight([]byte(base64.StdEncoding.EncodeToString(ct)), "=")
}

// gpppPlaintexts: UTF-16LE passwords (and things that are not quite that) around the cases a decoder
// treats specially.
func gpppPlaintexts() [][]byte {
	u := func(s string) []byte {
		var b []byte
		for _, r := range s {
			b = append(b, byte(r), byte(r>>8))
		}
		return b
	}
	return [][]byte{
		{},                                   // the empty password: one block of padding
		{0, 0},                               // one NUL character
		{0, 0, 0, 0, 0, 0},                   // NULs only
		u("a"), cat(u("pass"), []byte{0, 0}), // a terminated string
		cat(u("a"), []byte{0, 0, 0, 0}, u("b"), []byte{0, 0}),
		{'a', 0, 'b'},            // odd length
		{'a'},                    // one byte
		{0x3D, 0xD8},             // a lone high surrogate
		{0x00, 0xDE},             // a lone low surrogate
		{0x00, 0xDE, 0x3D, 0xD8}, // the pair reversed
		{0x3D, 0xD8, 0x00, 0xDE}, // a pair
		{0x3D, 0xD8, 0x00},       // a high surrogate and half a unit
		{0xFF, 0xFE},             // BOM only
		{0xFE, 0xFF},             // the other BOM
		cat([]byte{0xFF, 0xFE}, u("pw")),
		{0xFF, 0xFF}, {0xFE, 0xFF, 0xFF, 0xFF},
		u("1234567"),                    // 14 bytes: two bytes of padding
		cat(u("1234567"), []byte{'8'}),  // 15 bytes
		u("12345678"),                   // 16 bytes: a whole block of padding follows
		cat(u("12345678"), []byte{'9'}), // 17 bytes
		bytes.Repeat(u("Passw0rd!"), 5), // six blocks (longer ones: the repeated-element seeds)
		bytes.Repeat([]byte{0, 0}, 100), // many blocks, NULs only
		// block-aligned plaintexts that carry their own (in)valid padding
		bytes.Repeat([]byte{16}, 16), bytes.Repeat([]byte{0}, 16), bytes.Repeat([]byte{17}, 16), bytes.Repeat([]byte{0xFF}, 16),
		cat(bytes.Repeat([]byte{0}, 15), []byte{1}), cat(bytes.Repeat([]byte{0}, 14), []byte{2, 2}), cat(u("abcdefg"), []byte{3, 2}),
		cat(bytes.Repeat([]byte{0}, 16), bytes.Repeat([]byte{16}, 16)),
	}
}

// gpppSealedSeeds: the short plaintexts as ciphertexts, raw and in the attribute form (one of them also
// with its '=' padding), for the entry points that take the ciphertext. The neighbourhood of a
// ciphertext is noise to everything behind the AES step; what these seeds add is themselves.
func gpppSealedSeeds() (raw, b64 [][]byte) {
	for _, pt := range gpppPlaintexts() {
		if len(pt) > 6 {
			continue
		}
		ct := gpppSeal(pt)
		raw = append(raw, ct)
		// (a text seed has a large neighbourhood: every second one)
		if len(raw)%2 == 0 {
			b64 = append(b64, gpppB64(ct))
		}
		if len(raw) == 2 {
			b64 = append(b64, []byte(base64.StdEncoding.EncodeToString(ct)))
		}
	}
	return
}
