//go:build verif

package c07

import (
	"fmt"
	"os"
	"runtime"
	"runtime/metrics"
	"syscall"
	"testing"
	"time"

	"pgregory.net/rapid"

	"manticoreverif/vf"
)

const P = "C07"

type inputCase struct {
	Entry string `json:"entry"`
	Input vf.Hex `json:"input"`
	How   string `json:"how,omitempty"`
}

var entryMap = map[string]*entry{}
var entryList []entry

func init() {
	entryList = entries()
	for i := range entryList {
		entryMap[entryList[i].Name] = &entryList[i]
	}
}

// library code prints to stdout (SMB_RESUME_KEY.Unmarshal, "[!] Error converting ..."): send the
// process's stdout to /dev/null while a sub-check runs; verdicts travel through the fragment files
func quiet() {
	if null, err := os.OpenFile(os.DevNull, os.O_WRONLY, 0); err == nil {
		syscall.Dup2(int(null.Fd()), 1)
	}
}

var allocSample = []metrics.Sample{{Name: "/gc/heap/allocs:bytes"}}

func allocated() uint64 {
	metrics.Read(allocSample)
	return allocSample[0].Value.Uint64()
}

// The counter above is cheap (no stop-the-world) but coarse: the runtime accounts small objects when
// a span of them is handed back by the allocating P (or at the next GC cycle), not when they are
// allocated, so the difference over one call can be off by a few hundred KB in either direction
// (objects over 32 KB are accounted at once). It is used as a screen; a call it puts over half the
// budget is repeated under runtime.ReadMemStats, which stops the world and flushes every P's
// pending accounting, and only that figure is judged.
var msBefore, msAfter runtime.MemStats

func preciseAlloc(e *entry, b []byte) uint64 {
	in := exact(b)
	runtime.ReadMemStats(&msBefore)
	func() {
		defer func() { recover() }() // panics are judged by the first, screened call
		e.Call(in)
	}()
	runtime.ReadMemStats(&msAfter)
	return msAfter.TotalAlloc - msBefore.TotalAlloc
}

var wd *vf.Watchdog

// allocSlack is the input-independent part of the allocation budget. The largest fixed-size
// allocation a decoder legitimately makes is nbt.Receive's buffer for an announced frame (17-bit
// length: up to 128 KiB before the payload is read); twice that leaves it at ~50 % of the budget while
// any allocation sized by a 16-bit count of multi-byte elements (>= 8 bytes each: 512 KiB) or by a
// wider field exceeds it by a factor of two or more.
const allocSlack = 256 << 10

// What an entry point allocates whatever it is given is not "out of proportion to the input" but a
// constant of the call (guid.FromString compiles up to five regular expressions per call, ~0.7 MB;
// credentials.ParseLMNTHashes, ip.NewTCPPortRangeFromString one each). It is measured once per entry
// point and process on inputs that carry no hostile count: the empty input, every unmodified seed,
// every seed with its first byte inverted and every seed without its last byte; the largest of those
// (at most 1 MiB, the former flat allowance) is added to the budget of that entry point.
const baselineCap = 1 << 20

var (
	baselines = map[string]uint64{}
	seedCache = map[string][][]byte{}
)

func seedsOf(e *entry) [][]byte {
	sd, ok := seedCache[e.Name]
	if !ok {
		sd = e.Seeds()
		seedCache[e.Name] = sd
	}
	return sd
}

func baseline(e *entry) uint64 {
	if v, ok := baselines[e.Name]; ok {
		return v
	}
	var max uint64
	probe := func(b []byte) {
		in := exact(b)
		if wd != nil {
			wd.Enter(e.Name, inputCase{e.Name, b, "baseline"})
			defer wd.Leave()
		}
		// a panic on these inputs is reported when the enumeration reaches them
		if g := preciseAlloc(e, in); g > max {
			max = g
		}
	}
	probe(nil)
	for _, sd := range seedsOf(e) {
		probe(sd)
		if len(sd) > 0 {
			m := append([]byte{}, sd...)
			m[0] ^= 0xFF
			probe(m)
			probe(sd[:len(sd)-1])
		}
	}
	if max > baselineCap {
		max = baselineCap
	}
	baselines[e.Name] = max
	return max
}

func allocBudget(e *entry, inputLen int) uint64 { return uint64(64*inputLen+allocSlack) + baseline(e) }

// peak: the call that came closest to its budget without exceeding it (evidence: how much margin the
// verdicts have on this tree).
var peak struct {
	ratio    float64
	entry    string
	grew     uint64
	n        int
	screened int
}

func notePeak(s *vf.Sub) {
	s.Note("%d calls were put over half their allocation budget by the coarse counter and measured again exactly", peak.screened)
	if peak.entry == "" {
		s.Note("no call allocated more than 50%% of its budget without exceeding it")
	} else {
		s.Note("closest to the allocation budget without exceeding it: %s, %d bytes for a %d-byte input = %.0f%% of 64*len+%d+baseline %d", peak.entry, peak.grew, peak.n, 100*peak.ratio, allocSlack, baselines[peak.entry])
	}
}

// callTotal is the validity predicate: the call returns (value or error) without panicking, within
// the watchdog budget, allocating at most 64*len(input) + 256 KiB + the entry point's baseline.
func callTotal(c inputCase) []vf.Finding {
	e := entryMap[c.Entry]
	if e == nil {
		return []vf.Finding{vf.F("harness", "bad-case", "unknown entry %s", c.Entry)}
	}
	in := exact(c.Input)
	budget := allocBudget(e, len(c.Input))
	if wd != nil {
		wd.Enter(c.Entry, c)
		defer wd.Leave()
	}
	before := allocated()
	fs := vf.Safe(c.Entry, func() []vf.Finding { e.Call(in); return nil })
	grew := allocated() - before
	if grew > budget/2 {
		grew = preciseAlloc(e, c.Input)
		peak.screened++
	}
	if grew > budget {
		fs = append(fs, vf.F(c.Entry, "alloc", "%d bytes allocated for a %d-byte input (budget 64*len+%d+baseline %d = %d)", grew, len(c.Input), allocSlack, baselines[c.Entry], budget))
	} else if r := float64(grew) / float64(budget); r > 0.5 && r > peak.ratio {
		peak.ratio, peak.entry, peak.grew, peak.n = r, c.Entry, grew, len(c.Input)
	}
	return fs
}

// exact copies b into a slice whose capacity equals its length: re-slicing past the end of the
// input (legal in Go while spare capacity exists) then panics instead of silently reading the
// allocator's padding, so an over-read by a few bytes is as visible as an out-of-range index.
func exact(b []byte) []byte {
	in := make([]byte, len(b))
	copy(in, b)
	return in[:len(in):len(in)]
}

func nontrivial(c inputCase) bool { return len(c.Input) >= 2 && c.How != "seed" }

// mutations enumerates the systematic neighbourhood of one valid encoding.
func mutations(seed []byte, e *entry, yield func(b []byte, how string)) {
	text := e.Text
	yield(seed, "seed")
	n := len(seed)
	pos := func(limit int) []int {
		var ps []int
		for i := 0; i < n; i++ {
			if i < limit || i >= n-8 || i%7 == 0 {
				ps = append(ps, i)
			}
		}
		return ps
	}
	// every truncation (all prefixes; long seeds: every prefix up to 160, the last 8, and every 7th)
	for _, k := range pos(160) {
		yield(seed[:k], "truncate")
	}
	yield(append(append([]byte{}, seed...), seed...), "doubled")
	yield(append(append([]byte{}, seed...), 0, 0, 0, 0), "zero-tail")
	// single-byte boundary corruption at every position
	vals := []byte{0x00, 0x01, 0x7F, 0x80, 0xFE, 0xFF}
	if text {
		vals = []byte{0x00, ' ', '0', '9', ':', '/', '-', '{', 'g', 0xFF}
	}
	for _, i := range pos(120) {
		for _, v := range vals {
			if seed[i] != v {
				m := append([]byte{}, seed...)
				m[i] = v
				yield(m, "corrupt")
			}
		}
		for _, d := range []byte{1, 0xFF} {
			m := append([]byte{}, seed...)
			m[i] += d
			yield(m, "corrupt")
		}
	}
	// the format's own codes (types, opcodes, identifiers): at every position, or where the entry point
	// says its codes stand
	if len(e.Codes) > 0 {
		ps := pos(64)
		if e.CodesAt != nil {
			ps = e.CodesAt(seed)
		}
		generic := map[byte]bool{}
		for _, v := range vals {
			generic[v] = true
		}
		for _, i := range ps {
			for _, v := range e.Codes {
				if i < n && seed[i] != v && !generic[v] && v != seed[i]+1 && v != seed[i]-1 {
					m := append([]byte{}, seed...)
					m[i] = v
					yield(m, "format-code")
				}
			}
		}
	}
	if text {
		textMutations(seed, yield)
		return
	}
	// 16- and 32-bit windows driven to extremes (both byte orders where it matters)
	w16 := [][]byte{{0xFF, 0xFF}, {0xFF, 0x7F}, {0x7F, 0xFF}, {byte(n), byte(n >> 8)}, {byte(n >> 8), byte(n)}, {byte(n + 1), byte((n + 1) >> 8)}, {byte(n - 1), byte((n - 1) >> 8)}, {0x00, 0x80}, {0x01, 0x00}}
	for _, i := range pos(96) {
		if i+2 > n {
			continue
		}
		for _, w := range w16 {
			m := append([]byte{}, seed...)
			copy(m[i:], w)
			yield(m, "extreme16")
		}
	}
	w32 := [][]byte{{0xFF, 0xFF, 0xFF, 0xFF}, {0xFF, 0xFF, 0xFF, 0x7F}, {0x7F, 0xFF, 0xFF, 0xFF}, {0xF0, 0xFF, 0xFF, 0xFF}, {0x00, 0x00, 0x00, 0x80}, {byte(n), byte(n >> 8), 0, 0}, {0, 0, byte(n >> 8), byte(n)}, {0xFE, 0xFF, 0xFF, 0xFF}}
	for _, i := range pos(72) {
		if i+4 > n {
			continue
		}
		for _, w := range w32 {
			m := append([]byte{}, seed...)
			copy(m[i:], w)
			yield(m, "extreme32")
		}
	}
	// DNS-style pointer bytes placed at every position: forward, self, backward
	for _, i := range pos(64) {
		if i+2 > n {
			continue
		}
		for _, target := range []int{i, i + 2, 0, 12, i - 1, n - 1, 0x3FFF} {
			if target < 0 {
				continue
			}
			m := append([]byte{}, seed...)
			m[i], m[i+1] = 0xC0|byte(target>>8), byte(target)
			yield(m, "pointer")
		}
	}
}

// textMutations: structure-level edits of a text input – single characters deleted, separators
// inserted, and whole tokens (maximal alphanumeric runs) removed with or without a neighbouring
// separator, or doubled. "a.b.c.d/len" loses an octet, "{…}" loses a group, "user:LM:NT" a field.
// caseShifting: U+212A KELVIN SIGN (3 bytes, lower case 'k' 1 byte), U+0130 (2 bytes, lower case
// 'i'+U+0307 3 bytes), U+017F LONG S (2 bytes, upper case 'S' 1 byte), U+1E9E (3 bytes, lower case
// U+00DF 2 bytes), U+2126 OHM SIGN (3 bytes, lower case U+03C9 2 bytes), U+023A (2 bytes, lower case
// U+2C65 3 bytes).
var caseShifting = []string{"\u212a", "\u0130", "\u017f", "\u1e9e", "\u2126", "\u023a"}

func textMutations(seed []byte, yield func(b []byte, how string)) {
	n := len(seed)
	if n > 200 {
		return
	}
	cat := func(parts ...[]byte) []byte {
		var o []byte
		for _, p := range parts {
			o = append(o, p...)
		}
		return o
	}
	for i := 0; i < n; i++ {
		yield(cat(seed[:i], seed[i+1:]), "delete-char")
	}
	// valid multi-byte UTF-8 whose case mapping changes the byte length (strings.ToLower/ToUpper/
	// EqualFold before or after a length check or an index computation): in place of as many bytes
	// as the character has (the byte length stays what the decoder expects), in place of one byte,
	// and inserted
	for _, r := range caseShifting {
		for i := 0; i <= n; i++ {
			if i+len(r) <= n {
				yield(cat(seed[:i], []byte(r), seed[i+len(r):]), "case-shifting-rune")
			}
			if i < n {
				yield(cat(seed[:i], []byte(r), seed[i+1:]), "case-shifting-rune")
			}
			yield(cat(seed[:i], []byte(r), seed[i:]), "case-shifting-rune")
		}
	}
	for i := 0; i <= n; i++ {
		for _, sep := range []byte{'.', '/', ':', '-', ',', '{', '}', ' '} {
			yield(cat(seed[:i], []byte{sep}, seed[i:]), "insert-separator")
		}
	}
	isTok := func(c byte) bool { return c >= '0' && c <= '9' || c >= 'a' && c <= 'z' || c >= 'A' && c <= 'Z' }
	for i := 0; i < n; {
		if !isTok(seed[i]) {
			i++
			continue
		}
		j := i
		for j < n && isTok(seed[j]) {
			j++
		}
		yield(cat(seed[:i], seed[j:]), "delete-token")
		if i > 0 {
			yield(cat(seed[:i-1], seed[j:]), "delete-token") // with the separator before it
		}
		if j < n {
			yield(cat(seed[:i], seed[j+1:]), "delete-token") // with the separator after it
			yield(cat(seed[:j+1], seed[i:j+1], seed[j+1:]), "double-token")
		}
		i = j
	}
}

func TestSystematic(t *testing.T) {
	quiet()
	s := vf.Begin(t, P, "systematic")
	s.SetExhaustive()
	wd = vf.NewWatchdog(s, 20*time.Second)
	defer func() { wd = nil }()
	s.Note("%d entry points; every valid encoding (seed) with all truncations, single-byte boundary corruptions at every position, the format's own type/opcode codes, 16/32-bit windows driven to extremes, pointer bytes", len(entryList))
	defer notePeak(s)
	vf.Enum(s, func(yield func(inputCase)) {
		for i := range entryList {
			e := &entryList[i]
			for _, seed := range seedsOf(e) {
				mutations(seed, e, func(b []byte, how string) {
					s.Class(how)
					yield(inputCase{e.Name, b, how})
				})
			}
		}
		for _, b := range smbCountFaults() {
			s.Class("count-fault")
			yield(inputCase{"smb.Message.Unmarshal", b, "count-fault"})
			// and cut short: the lying count now also points past the end of the message
			for _, k := range []int{len(b) - 1, len(b) - 2, len(b) - 4, len(b) / 2} {
				if k > 32 {
					s.Class("count-fault")
					yield(inputCase{"smb.Message.Unmarshal", b[:k], "count-fault"})
				}
			}
		}
		for _, b := range smbStringTailFaults(vf.Thorough()) {
			s.Class("string-tail-fault")
			yield(inputCase{"smb.Message.Unmarshal", b, "string-tail-fault"})
		}
	}, callTotal, nontrivial)
}

// TestRepeated: repeated-element seeds (repeat.go) under the same validity predicate, allocation
// budget included.
func TestRepeated(t *testing.T) {
	quiet()
	s := vf.Begin(t, P, "repeated-elements")
	s.SetExhaustive()
	wd = vf.NewWatchdog(s, 20*time.Second)
	defer func() { wd = nil }()
	defer notePeak(s)
	vf.Enum(s, func(yield func(inputCase)) {
		for _, r := range repeatedSeeds() {
			e := entryMap[r.Entry]
			if e == nil {
				yield(inputCase{r.Entry, nil, "unknown-entry"})
				continue
			}
			// a seed that is over its allocation budget as built (reported through the as-built case) costs
			// up to seconds per call and its neighbours say nothing new: only the light neighbourhood
			light := r.Light
			if !light {
				wd.Enter(r.Entry, inputCase{r.Entry, r.B, r.What + "/as-built"})
				light = preciseAlloc(e, r.B) > allocBudget(e, len(r.B))
				wd.Leave()
			}
			lightMutations(r.B, e.Text, light, func(b []byte, how string) {
				s.Class(fmt.Sprintf("k=%d", r.K))
				yield(inputCase{r.Entry, b, fmt.Sprintf("%s x%d/%s", r.What, r.K, how)})
			})
		}
	}, callTotal, func(c inputCase) bool { return len(c.Input) >= 127 })
}

func TestRandom(t *testing.T) {
	quiet()
	s := vf.Begin(t, P, "random")
	wd = vf.NewWatchdog(s, 20*time.Second)
	defer func() { wd = nil }()
	defer notePeak(s)
	seeds := map[string][][]byte{}
	for i := range entryList {
		seeds[entryList[i].Name] = seedsOf(&entryList[i])
	}
	vf.Rapid(s, vf.N(60000, 1500000), func(t *rapid.T) inputCase {
		e := entryList[rapid.IntRange(0, len(entryList)-1).Draw(t, "entry")]
		var b []byte
		switch rapid.IntRange(0, 3).Draw(t, "shape") {
		case 0:
			b = rapid.SliceOfN(rapid.Byte(), 0, 80).Draw(t, "raw")
		case 1:
			// a valid prefix followed by noise
			sd := seeds[e.Name]
			base := sd[rapid.IntRange(0, len(sd)-1).Draw(t, "seed")]
			k := rapid.IntRange(0, len(base)).Draw(t, "keep")
			b = append(append([]byte{}, base[:k]...), rapid.SliceOfN(rapid.Byte(), 0, 40).Draw(t, "tail")...)
		case 2:
			// a valid encoding with 1..4 random byte edits
			sd := seeds[e.Name]
			b = append([]byte{}, sd[rapid.IntRange(0, len(sd)-1).Draw(t, "seed")]...)
			for i, n := 0, rapid.IntRange(1, 4).Draw(t, "edits"); i < n && len(b) > 0; i++ {
				b[rapid.IntRange(0, len(b)-1).Draw(t, "pos")] = rapid.Byte().Draw(t, "val")
			}
		default:
			// hostile constants
			b = rapid.SampledFrom([][]byte{{0xFF, 0xFF, 0xFF, 0xFF}, {0x60, 0x84, 0xFF, 0xFF, 0xFF, 0xFF}, {0x60, 0x8F}, {0xC0, 0x00}, {0x05, 0xFF, 0xFF}, {0x03, 0xFF, 0xFF}, {0x01}, {}}).Draw(t, "hostile")
			b = append(append([]byte{}, b...), rapid.SliceOfN(rapid.Byte(), 0, 12).Draw(t, "tail")...)
		}
		return inputCase{e.Name, b, "random"}
	}, callTotal, nontrivial)
}

var _ = fmt.Sprintf
