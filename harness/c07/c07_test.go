//go:build verif

package c07

import (
	"fmt"
	"os"
	"runtime/metrics"
	"syscall"
	"testing"
	"time"

	"pgregory.net/rapid"

	"manticoreverif/vf"
)

const P = "C07"

type inputCase struct {
	Entry string `json:"entry"`
	Input vf.Hex `json:"input"`
	How   string `json:"how,omitempty"`
}

var entryMap = map[string]*entry{}
var entryList []entry

func init() {
	entryList = entries()
	for i := range entryList {
		entryMap[entryList[i].Name] = &entryList[i]
	}
}

// library code prints to stdout (SMB_RESUME_KEY.Unmarshal, "[!] Error converting ..."): send the
// process's stdout to /dev/null while a sub-check runs; verdicts travel through the fragment files
func quiet() {
	if null, err := os.OpenFile(os.DevNull, os.O_WRONLY, 0); err == nil {
		syscall.Dup2(int(null.Fd()), 1)
	}
}

var allocSample = []metrics.Sample{{Name: "/gc/heap/allocs:bytes"}}

func allocated() uint64 {
	metrics.Read(allocSample)
	return allocSample[0].Value.Uint64()
}

var wd *vf.Watchdog

// callTotal is the validity predicate: the call returns (value or error) without panicking, within
// the watchdog budget, allocating at most 64*len(input) + 1 MiB.
func callTotal(c inputCase) []vf.Finding {
	e := entryMap[c.Entry]
	if e == nil {
		return []vf.Finding{vf.F("harness", "bad-case", "unknown entry %s", c.Entry)}
	}
	in := exact(c.Input)
	if wd != nil {
		wd.Enter(c.Entry, c)
		defer wd.Leave()
	}
	before := allocated()
	fs := vf.Safe(c.Entry, func() []vf.Finding { e.Call(in); return nil })
	if grew := allocated() - before; grew > uint64(64*len(c.Input)+1<<20) {
		fs = append(fs, vf.F(c.Entry, "alloc", "%d bytes allocated for a %d-byte input", grew, len(c.Input)))
	}
	return fs
}

// exact copies b into a slice whose capacity equals its length: re-slicing past the end of the
// input (legal in Go while spare capacity exists) then panics instead of silently reading the
// allocator's padding, so an over-read by a few bytes is as visible as an out-of-range index.
func exact(b []byte) []byte {
	in := make([]byte, len(b))
	copy(in, b)
	return in[:len(in):len(in)]
}

func nontrivial(c inputCase) bool { return len(c.Input) >= 2 && c.How != "seed" }

// mutations enumerates the systematic neighbourhood of one valid encoding.
func mutations(seed []byte, text bool, yield func(b []byte, how string)) {
	yield(seed, "seed")
	n := len(seed)
	pos := func(limit int) []int {
		var ps []int
		for i := 0; i < n; i++ {
			if i < limit || i >= n-8 || i%7 == 0 {
				ps = append(ps, i)
			}
		}
		return ps
	}
	// every truncation (all prefixes; long seeds: every prefix up to 160, the last 8, and every 7th)
	for _, k := range pos(160) {
		yield(seed[:k], "truncate")
	}
	yield(append(append([]byte{}, seed...), seed...), "doubled")
	yield(append(append([]byte{}, seed...), 0, 0, 0, 0), "zero-tail")
	// single-byte boundary corruption at every position
	vals := []byte{0x00, 0x01, 0x7F, 0x80, 0xFE, 0xFF}
	if text {
		vals = []byte{0x00, ' ', '0', '9', ':', '/', '-', '{', 'g', 0xFF}
	}
	for _, i := range pos(120) {
		for _, v := range vals {
			if seed[i] != v {
				m := append([]byte{}, seed...)
				m[i] = v
				yield(m, "corrupt")
			}
		}
		for _, d := range []byte{1, 0xFF} {
			m := append([]byte{}, seed...)
			m[i] += d
			yield(m, "corrupt")
		}
	}
	if text {
		textMutations(seed, yield)
		return
	}
	// 16- and 32-bit windows driven to extremes (both byte orders where it matters)
	w16 := [][]byte{{0xFF, 0xFF}, {0xFF, 0x7F}, {0x7F, 0xFF}, {byte(n), byte(n >> 8)}, {byte(n >> 8), byte(n)}, {byte(n + 1), byte((n + 1) >> 8)}, {byte(n - 1), byte((n - 1) >> 8)}, {0x00, 0x80}, {0x01, 0x00}}
	for _, i := range pos(96) {
		if i+2 > n {
			continue
		}
		for _, w := range w16 {
			m := append([]byte{}, seed...)
			copy(m[i:], w)
			yield(m, "extreme16")
		}
	}
	w32 := [][]byte{{0xFF, 0xFF, 0xFF, 0xFF}, {0xFF, 0xFF, 0xFF, 0x7F}, {0x7F, 0xFF, 0xFF, 0xFF}, {0xF0, 0xFF, 0xFF, 0xFF}, {0x00, 0x00, 0x00, 0x80}, {byte(n), byte(n >> 8), 0, 0}, {0, 0, byte(n >> 8), byte(n)}, {0xFE, 0xFF, 0xFF, 0xFF}}
	for _, i := range pos(72) {
		if i+4 > n {
			continue
		}
		for _, w := range w32 {
			m := append([]byte{}, seed...)
			copy(m[i:], w)
			yield(m, "extreme32")
		}
	}
	// DNS-style pointer bytes placed at every position: forward, self, backward
	for _, i := range pos(64) {
		if i+2 > n {
			continue
		}
		for _, target := range []int{i, i + 2, 0, 12, i - 1, n - 1, 0x3FFF} {
			if target < 0 {
				continue
			}
			m := append([]byte{}, seed...)
			m[i], m[i+1] = 0xC0|byte(target>>8), byte(target)
			yield(m, "pointer")
		}
	}
}

// textMutations: structure-level edits of a text input – single characters deleted, separators
// inserted, and whole tokens (maximal alphanumeric runs) removed with or without a neighbouring
// separator, or doubled. "a.b.c.d/len" loses an octet, "{…}" loses a group, "user:LM:NT" a field.
func textMutations(seed []byte, yield func(b []byte, how string)) {
	n := len(seed)
	if n > 200 {
		return
	}
	cat := func(parts ...[]byte) []byte {
		var o []byte
		for _, p := range parts {
			o = append(o, p...)
		}
		return o
	}
	for i := 0; i < n; i++ {
		yield(cat(seed[:i], seed[i+1:]), "delete-char")
	}
	for i := 0; i <= n; i++ {
		for _, sep := range []byte{'.', '/', ':', '-', ',', '{', '}', ' '} {
			yield(cat(seed[:i], []byte{sep}, seed[i:]), "insert-separator")
		}
	}
	isTok := func(c byte) bool { return c >= '0' && c <= '9' || c >= 'a' && c <= 'z' || c >= 'A' && c <= 'Z' }
	for i := 0; i < n; {
		if !isTok(seed[i]) {
			i++
			continue
		}
		j := i
		for j < n && isTok(seed[j]) {
			j++
		}
		yield(cat(seed[:i], seed[j:]), "delete-token")
		if i > 0 {
			yield(cat(seed[:i-1], seed[j:]), "delete-token") // with the separator before it
		}
		if j < n {
			yield(cat(seed[:i], seed[j+1:]), "delete-token") // with the separator after it
			yield(cat(seed[:j+1], seed[i:j+1], seed[j+1:]), "double-token")
		}
		i = j
	}
}

func TestSystematic(t *testing.T) {
	quiet()
	s := vf.Begin(t, P, "systematic")
	s.SetExhaustive()
	wd = vf.NewWatchdog(s, 20*time.Second)
	defer func() { wd = nil }()
	s.Note("%d entry points; every valid encoding (seed) with all truncations, single-byte boundary corruptions at every position, 16/32-bit windows driven to extremes, pointer bytes", len(entryList))
	vf.Enum(s, func(yield func(inputCase)) {
		for _, e := range entryList {
			for _, seed := range e.Seeds() {
				mutations(seed, e.Text, func(b []byte, how string) {
					s.Class(how)
					yield(inputCase{e.Name, b, how})
				})
			}
		}
		for _, b := range smbCountFaults() {
			s.Class("count-fault")
			yield(inputCase{"smb.Message.Unmarshal", b, "count-fault"})
			// and cut short: the lying count now also points past the end of the message
			for _, k := range []int{len(b) - 1, len(b) - 2, len(b) - 4, len(b) / 2} {
				if k > 32 {
					s.Class("count-fault")
					yield(inputCase{"smb.Message.Unmarshal", b[:k], "count-fault"})
				}
			}
		}
	}, callTotal, nontrivial)
}

func TestRandom(t *testing.T) {
	quiet()
	s := vf.Begin(t, P, "random")
	wd = vf.NewWatchdog(s, 20*time.Second)
	defer func() { wd = nil }()
	seeds := map[string][][]byte{}
	for _, e := range entryList {
		seeds[e.Name] = e.Seeds()
	}
	vf.Rapid(s, vf.N(60000, 1500000), func(t *rapid.T) inputCase {
		e := entryList[rapid.IntRange(0, len(entryList)-1).Draw(t, "entry")]
		var b []byte
		switch rapid.IntRange(0, 3).Draw(t, "shape") {
		case 0:
			b = rapid.SliceOfN(rapid.Byte(), 0, 80).Draw(t, "raw")
		case 1:
			// a valid prefix followed by noise
			sd := seeds[e.Name]
			base := sd[rapid.IntRange(0, len(sd)-1).Draw(t, "seed")]
			k := rapid.IntRange(0, len(base)).Draw(t, "keep")
			b = append(append([]byte{}, base[:k]...), rapid.SliceOfN(rapid.Byte(), 0, 40).Draw(t, "tail")...)
		case 2:
			// a valid encoding with 1..4 random byte edits
			sd := seeds[e.Name]
			b = append([]byte{}, sd[rapid.IntRange(0, len(sd)-1).Draw(t, "seed")]...)
			for i, n := 0, rapid.IntRange(1, 4).Draw(t, "edits"); i < n && len(b) > 0; i++ {
				b[rapid.IntRange(0, len(b)-1).Draw(t, "pos")] = rapid.Byte().Draw(t, "val")
			}
		default:
			// hostile constants
			b = rapid.SampledFrom([][]byte{{0xFF, 0xFF, 0xFF, 0xFF}, {0x60, 0x84, 0xFF, 0xFF, 0xFF, 0xFF}, {0x60, 0x8F}, {0xC0, 0x00}, {0x05, 0xFF, 0xFF}, {0x03, 0xFF, 0xFF}, {0x01}, {}}).Draw(t, "hostile")
			b = append(append([]byte{}, b...), rapid.SliceOfN(rapid.Byte(), 0, 12).Draw(t, "tail")...)
		}
		return inputCase{e.Name, b, "random"}
	}, callTotal, nontrivial)
}

var _ = fmt.Sprintf
