//go:build verif

package c07

import (
	"bytes"
	"encoding/binary"
	"fmt"
	"strings"

	"github.com/TheManticoreProject/Manticore/network/smb/smb_v10/spnego"

	refnbns "manticoreverif/ref/nbns"
	"manticoreverif/ref/nlmp"
	"manticoreverif/vf"
)

// Repeated-element seeds: valid (or, where a count cannot express k, consistently lying) encodings
// in which one element of the format - a label, a question, a record, an AV pair, an entry, a
// sub-authority, a dialect, a token - occurs k times, k around the points where 7-, 8- and 10-bit
// bookkeeping of a decoder overflows, and chains of backward compression pointers of that many hops.
// The seeds of the other sub-checks have at most a handful of elements, so neither a fixed-size
// table inside a decoder nor work or memory that grows faster than the input shows there.

var repeatCounts = func() []int {
	ks := []int{127, 128, 255, 256, 1000}
	if vf.Thorough() {
		ks = append(ks, 4096, 10000)
	}
	return ks
}()

// nbtStreamPackets: see repeatedSeeds (4 MiB of input; both tiers - the unchanged transport refuses the
// first packet, one that skips them spends a few milliseconds).
const nbtStreamPackets = 1 << 20

type repSeed struct {
	Entry string
	What  string // which element is repeated
	K     int
	B     []byte
	// Light: only the seed and two truncations are run (generic repetitions, of which there are
	// many, and pointer chains, whose decoding is costly)
	Light bool
}

func be16(v int) []byte { return []byte{byte(v >> 8), byte(v)} }

func cat(parts ...[]byte) []byte {
	var o []byte
	for _, p := range parts {
		o = append(o, p...)
	}
	return o
}

// dnsHeader: id, flags, and the four section counts (each taken modulo 2^16).
func dnsHeader(qd, an, ns, ar int) []byte {
	return cat([]byte{0x12, 0x34, 0x80, 0x00}, be16(qd), be16(an), be16(ns), be16(ar))
}

// llmnrRepeated: the LLMNR/DNS wire shapes. at12 reports whether the interesting name starts at
// offset 12 (so that the single-name entry points, which decode at offset 12, reach it).
func llmnrRepeated(k int) (out []struct {
	what string
	b    []byte
	at12 bool
	tail bool // the interesting name is the last 4 bytes before the trailer (pointer chains)
}) {
	add := func(what string, b []byte, at12, tail bool) {
		out = append(out, struct {
			what string
			b    []byte
			at12 bool
			tail bool
		}{what, b, at12, tail})
	}
	qfix := []byte{0, 1, 0, 1}
	rfix := []byte{0, 1, 0, 1, 0, 0, 0, 30, 0, 4, 10, 0, 0, 1}
	// one question whose name has k one-byte labels
	add("labels", cat(dnsHeader(1, 0, 0, 0), bytes.Repeat([]byte{1, 'a'}, k), []byte{0}, qfix), true, false)
	// k questions / k records per section
	add("questions", cat(dnsHeader(k, 0, 0, 0), bytes.Repeat(cat([]byte{1, 'q', 0}, qfix), k)), true, false)
	add("answers", cat(dnsHeader(1, k, 0, 0), []byte{4, 'h', 'o', 's', 't', 0}, qfix, bytes.Repeat(cat([]byte{1, 'r', 0}, rfix), k)), true, false)
	add("additional", cat(dnsHeader(0, 0, 0, k), bytes.Repeat(cat([]byte{1, 'r', 0}, rfix), k)), true, false)
	// k records whose name is a pointer to the question name
	add("pointer-records", cat(dnsHeader(1, k, 0, 0), []byte{4, 'h', 'o', 's', 't', 0}, qfix, bytes.Repeat(cat([]byte{0xC0, 12}, rfix), k)), true, false)
	// a chain of k backward pointers between names: "a" at 12, then k times (label "b" + pointer to
	// the previous name); offsets stay below 0x4000 for k <= 4090. Only reachable by decoding the name
	// at the end (entry point llmnr.DecodeDomainName@tail).
	if 12+3+4*k <= 0x4000 {
		b := cat(dnsHeader(0, 0, 0, 0), []byte{1, 'a', 0})
		prev := 12
		for i := 0; i < k; i++ {
			at := len(b)
			b = append(b, 1, 'b', 0xC0|byte(prev>>8), byte(prev))
			prev = at
		}
		add("pointer-chain", b, false, true)
	}
	// the same chain inside a message: k answer records, the name of each is label "b" + pointer to the
	// name of the record before it (first one: to the question name)
	if 12+10+18*k <= 0x4000 {
		b := cat(dnsHeader(1, k, 0, 0), []byte{4, 'h', 'o', 's', 't', 0}, qfix)
		prev := 12
		for i := 0; i < k; i++ {
			at := len(b)
			b = append(b, 1, 'b', 0xC0|byte(prev>>8), byte(prev))
			b = append(b, rfix...)
			prev = at
		}
		add("pointer-chain-records", b, true, false)
	}
	return
}

func nbName(s string) []byte {
	enc, _ := refnbns.FirstLevel([]byte(s))
	return append([]byte{32}, enc...)
}

func repeatedSeeds() []repSeed {
	var out []repSeed
	add := func(entry, what string, k int, b []byte) {
		out = append(out, repSeed{Entry: entry, What: what, K: k, B: b, Light: strings.HasPrefix(what, "pointer-chain")})
	}
	ks := append([]int{}, repeatCounts...)
	for _, k := range append(ks, 4090) {
		for _, r := range llmnrRepeated(k) {
			if k == 4090 && !strings.HasPrefix(r.what, "pointer-chain") {
				continue
			}
			if r.tail {
				add("llmnr.DecodeDomainName@tail", r.what, k, cat(r.b, be16(len(r.b)-4)))
				continue
			}
			add("llmnr.DecodeMessage", r.what, k, r.b)
			if r.at12 && (r.what == "labels" || r.what == "pointer-records") {
				add("llmnr.DecodeDomainName@12", r.what, k, r.b)
				add("llmnr.DecodeQuestion", r.what, k, r.b)
				add("llmnr.DecodeResourceRecord", r.what, k, r.b)
				add("llmnr.DecodeDomainName@any", r.what, k, cat([]byte{12}, r.b))
				add("llmnr.DecodeDomainName@tail", r.what, k, cat(r.b, be16(12)))
			}
		}
	}
	for _, k := range repeatCounts {
		// NBNS: k questions, k records, a name with k scope labels
		qfix := []byte{0, 0x20, 0, 1}
		rfix := []byte{0, 0x20, 0, 1, 0, 0, 0, 30, 0, 6, 0, 0, 10, 0, 0, 1}
		n := cat(nbName("HOST"), []byte{0})
		add("nbtns.NBTNSPacket.Unmarshal", "questions", k, cat(dnsHeader(k, 0, 0, 0), bytes.Repeat(cat(n, qfix), k)))
		add("nbtns.NBTNSPacket.Unmarshal", "answers", k, cat(dnsHeader(0, k, 0, 0), bytes.Repeat(cat(n, rfix), k)))
		add("nbtns.NBTNSPacket.Unmarshal", "additional", k, cat(dnsHeader(1, 0, 0, k), n, qfix, bytes.Repeat(cat(n, rfix), k)))
		add("nbtns.NBTNSPacket.Unmarshal", "scope-labels", k, cat(dnsHeader(1, 0, 0, 0), nbName("HOST"), bytes.Repeat([]byte{1, 's'}, k), []byte{0}, qfix))
		enc, _ := refnbns.FirstLevel([]byte("HOST"))
		add("nbtns.FirstLevelDecode", "scope-labels", k, []byte(enc+strings.Repeat(".s", k)))
		// NBT: k empty / small session messages in one stream
		add("nbt.NBTTransport.Receive", "frames", k, bytes.Repeat(frame([]byte("x")), k))
		add("nbt.NBTTransport.Receive", "empty-frames", k, bytes.Repeat(frame(nil), k))
		// NBT: k packets of each other type (a receiver may skip them), bare and followed by a message
		for _, t := range nbtCodes {
			add("nbt.NBTTransport.Receive", fmt.Sprintf("packets-type-%#x", t), k, bytes.Repeat([]byte{t, 0, 0, 0}, k))
			add("nbt.NBTTransport.Receive", fmt.Sprintf("packets-type-%#x-then-message", t), k, cat(bytes.Repeat([]byte{t, 0, 0, 0}, k), frame([]byte("x"))))
		}
		// NTLM: k AV pairs, alone and inside a CHALLENGE_MESSAGE (TargetInfoLen is 16 bits: 6 bytes a pair)
		pairs := make([]nlmp.AvPair, k)
		for i := range pairs {
			pairs[i] = nlmp.AvPair{ID: uint16(1 + i%6), Value: []byte{'D', 0}}
		}
		info := nlmp.EncodeAvPairs(pairs)
		add("ntlm.ParseTargetInfo", "av-pairs", k, info)
		ch := (&nlmp.Challenge{Flags: 0xE28A8215, TargetName: []byte("D\x00O\x00M\x00"), TargetInfo: info}).Build()
		add("ntlm.ParseChallengeMessage", "av-pairs", k, ch)
		if tok, err := spnego.CreateNegTokenResp(spnego.AcceptIncomplete, spnego.NtlmOID, ch); err == nil {
			add("spnego.ParseNegTokenResp", "av-pairs", k, tok)
			add("spnego.ExtractNTLMToken", "av-pairs", k, tok)
			add("spnego.AuthContext.ProcessChallengeToken", "av-pairs", k, tok)
		}
		// key credential: version + each entry of a valid blob k times
		for _, kc := range keyCredentialSeeds()[:1] {
			if len(kc) < 4 {
				continue
			}
			for rest, idx := kc[4:], 0; len(rest) > 3; idx++ {
				l := int(binary.LittleEndian.Uint16(rest))
				if 3+l > len(rest) {
					break
				}
				add("keycredential.KeyCredential.FromBytes", fmt.Sprintf("entries-type-%d", rest[2]), k, cat(kc[:4], bytes.Repeat(rest[:3+l], k)))
				rest = rest[3+l:]
			}
		}
		add("keycredential.DNWithBinary.Parse", "dn-components", k, []byte("B:8:01020304:CN=x"+strings.Repeat(",DC=y", k)))
		add("keycredential.DNWithBinary.Parse", "colon-fields", k, []byte("B:8:01020304"+strings.Repeat(":CN=x", k)))
		// SID: k sub-authorities (the count is one byte)
		sid := cat([]byte{1, byte(k), 0, 0, 0, 0, 0, 5}, bytes.Repeat([]byte{0x15, 0, 0, 0}, k))
		add("ldap.ParseSIDFromBytes", "sub-authorities", k, sid)
		add("ldap.GetDomainFromDistinguishedName", "dn-components", k, []byte("CN=a"+strings.Repeat(",DC=b", k)))
		// SMB: k dialects, k parameter words, k data bytes
		add("smb.Dialects.Unmarshal", "dialects", k, bytes.Repeat([]byte("\x02NT LM 0.12\x00"), k))
		add("smb.Parameters.Unmarshal", "words", k, cat([]byte{byte(k)}, bytes.Repeat([]byte{1, 2}, k)))
		add("smb.Data.Unmarshal", "bytes", k, cat([]byte{byte(k), byte(k >> 8)}, bytes.Repeat([]byte{7}, k)))
		// UTF-16: k code units, k surrogate pairs, k lone surrogates
		add("utf16.DecodeUTF16LE", "code-units", k, bytes.Repeat([]byte{'a', 0}, k))
		add("utf16.DecodeUTF16LE", "surrogate-pairs", k, bytes.Repeat([]byte{0x3d, 0xd8, 0x00, 0xde}, k))
		add("utf16.DecodeUTF16LE", "lone-surrogates", k, bytes.Repeat([]byte{0x3d, 0xd8}, k))
		// text: k octets / groups / fields / ranges
		add("ip.NewIPv4FromString", "octets", k, []byte(strings.Repeat("1.", k)+"1/24"))
		add("ip.NewIPv6FromString", "groups", k, []byte(strings.Repeat("1:", k)+"1"))
		add("ip.NewTCPPortRangeFromString", "ranges", k, []byte(strings.Repeat("1-", k)+"2"))
		add("credentials.ParseLMNTHashes", "fields", k, []byte(strings.Repeat("aad3b435b51404eeaad3b435b51404ee:", k)))
		add("guid.FromString", "groups", k, []byte("{12345678"+strings.Repeat("-1234", k)+"}"))
		add("guid.FromFormatX", "groups", k, []byte("{0x12345678,0x1234,0x5678,{"+strings.Repeat("0x9a,", k)+"0x78}}"))
		add("uuid.UUID.FromString", "groups", k, []byte("6ba7b810"+strings.Repeat("-9dad", k)))
		add("gppp.GPPPDecryptBase64", "blocks", k, []byte(strings.Repeat("j1Uyj3Vx8TY9LtLZil2uAg==", k)))
		add("gppp.GPPPDecryptBytes", "blocks", k, bytes.Repeat([]byte{0x41}, 16*k))
		add("pkcs7.Unpad", "blocks", k, bytes.Repeat([]byte{16}, 16*k))
		// GPP: long plaintexts (encrypted by the entry point): k code units, k NULs, k surrogates, k BOMs
		for _, pt := range []struct {
			what string
			unit []byte
		}{{"utf16-units", []byte{'a', 0}}, {"nul-units", []byte{0, 0}}, {"lone-surrogates", []byte{0x3d, 0xd8}}, {"surrogate-pairs", []byte{0x3d, 0xd8, 0x00, 0xde}}, {"boms", []byte{0xff, 0xfe}}} {
			add("gppp.GPPPDecryptBytes@plaintext", pt.what, k, bytes.Repeat(pt.unit, k))
			add("gppp.GPPPDecryptBase64@plaintext", pt.what, k, bytes.Repeat(pt.unit, k))
		}
	}
	// NBT: a peer that streams packets the receiver skips (keep-alives, RFC 1002 4.3.5) must cost the
	// receiver neither stack nor memory per packet: nbtStreamPackets of each type in one stream, deep
	// enough that a Receive which skips by calling itself runs out of the 64 MB stack limit the harness
	// sets (a few dozen bytes of stack per call would already do)
	for _, t := range nbtCodes {
		out = append(out, repSeed{Entry: "nbt.NBTTransport.Receive", What: fmt.Sprintf("stream-of-packets-type-%#x", t), K: nbtStreamPackets, B: bytes.Repeat([]byte{t, 0, 0, 0}, nbtStreamPackets), Light: true})
	}
	// generic: for every entry point, the first seeds as a whole and their last 1/2/4/8 bytes k times
	for i := range entryList {
		e := &entryList[i]
		sds := seedsOf(e)
		if len(sds) > 3 {
			sds = sds[:3]
		}
		for _, sd := range sds {
			if len(sd) == 0 || len(sd) > 400 {
				continue
			}
			for _, k := range repeatCounts {
				if k*len(sd) > 1<<16 {
					continue
				}
				out = append(out, repSeed{Entry: e.Name, What: "whole-seed", K: k, B: bytes.Repeat(sd, k), Light: true})
				for _, t := range []int{1, 2, 4, 8} {
					if t <= len(sd) {
						out = append(out, repSeed{Entry: e.Name, What: fmt.Sprintf("seed-tail-%d", t), K: k, B: cat(sd, bytes.Repeat(sd[len(sd)-t:], k)), Light: true})
					}
				}
			}
		}
	}
	return out
}

// lightMutations: the neighbourhood that is run on a repeated-element seed. The full systematic
// neighbourhood is proportional to the seed length and the seeds here are long; what matters is the
// repetition itself, the place where it ends, and the header fields that announce it.
func lightMutations(seed []byte, text, light bool, yield func(b []byte, how string)) {
	yield(seed, "as-built")
	n := len(seed)
	cuts := []int{n - 1, n - 2, n - 3, n - 4, n - 8, n / 2, n / 4}
	if light {
		cuts = []int{n - 1, n / 2}
	}
	for _, k := range cuts {
		if k >= 0 && k < n {
			yield(seed[:k], "truncate")
		}
	}
	if light {
		return
	}
	yield(append(append([]byte{}, seed...), 0, 0, 0, 0), "zero-tail")
	vals := []byte{0x00, 0x7F, 0x80, 0xFF}
	if text {
		vals = []byte{0x00, ' ', '-', 0xFF}
	}
	var ps []int
	for i := 0; i < n && i < 16; i++ {
		ps = append(ps, i)
	}
	for i := max(16, n-4); i < n; i++ {
		ps = append(ps, i)
	}
	for _, i := range ps {
		for _, v := range vals {
			if seed[i] != v {
				m := append([]byte{}, seed...)
				m[i] = v
				yield(m, "corrupt")
			}
		}
	}
	if text {
		return
	}
	for i := 0; i+2 <= n && i < 14; i++ {
		for _, w := range [][]byte{{0xFF, 0xFF}, {0x7F, 0xFF}, {0xFF, 0x7F}, {0x00, 0x00}, {0x01, 0x00}, {0x00, 0x01}} {
			m := append([]byte{}, seed...)
			copy(m[i:], w)
			yield(m, "extreme16")
		}
	}
}
