package c18

import (
	"bytes"
	"fmt"
	"net"
	"sync"
	"testing"
	"time"

	"pgregory.net/rapid"

	"github.com/TheManticoreProject/Manticore/network/llmnr"

	"manticoreverif/vf"
)

const P = "C18"

var kinds = []string{"server", "udp", "tcp"}

func ipN(i int) net.IP { return net.IPv4(10, 77, byte(i>>8), byte(i)).To4() }

const replyWait = 400 * time.Millisecond
const stopBudget = 3 * time.Second

// ---- opcode routing, exhaustive -------------------------------------------------------------------------

type opCase struct {
	Kind   string `json:"server_kind"`
	Opcode int    `json:"opcode"`
	Bcast  bool   `json:"broadcast"`
}

// observation of one probe on a fresh server
type obs struct {
	replied          bool
	rcode            int
	answersForQ      bool // reply carries an answer with Q's pre-registered address
	rBefore, rAfter  bool // R resolvable (with its address) before / after the probe
	qAfter           bool
	preOK            bool
	serverStillAlive bool
}

func resolvable(c *client, id uint16, name string, ip net.IP) bool {
	p, ok := c.exchange(req{ID: id, Opcode: 0, QName: name}, replyWait)
	return ok && p.Answers > 0 && p.hasAddr(ip) && p.Rcode == 0
}

// register establishes a pre-state through the network (opcode 5), trying the
// record in the answer section first and in the additional section second.
func register(c *client, id uint16, name string, ip net.IP) bool {
	for _, addl := range []bool{false, true} {
		c.exchange(req{ID: id, Opcode: 5, QName: name, RRName: name, RRIP: ip, InAddl: addl}, replyWait)
		if resolvable(c, id+1, name, ip) {
			return true
		}
	}
	return false
}

func probe(kind string, opcode int, bcast bool, preRegisterR bool, inAddl bool) (o obs, err error) {
	srv, err := startServer(kind)
	if err != nil {
		return o, err
	}
	defer srv.srv.Stop()
	c, err := dial(srv)
	if err != nil {
		return o, err
	}
	defer c.close()
	ipA, ipB := ipN(1), ipN(2)
	o.preOK = register(c, 100, "QNAME", ipA)
	if preRegisterR {
		o.preOK = o.preOK && register(c, 110, "RNAME", ipB)
	}
	if !o.preOK {
		return o, nil
	}
	o.rBefore = resolvable(c, 120, "RNAME", ipB)
	p, ok := c.exchange(req{ID: 0x4242, Opcode: opcode, Bcast: bcast, QName: "QNAME", RRName: "RNAME", RRIP: ipB, InAddl: inAddl}, replyWait)
	o.replied = ok
	if ok {
		o.rcode = p.Rcode
		o.answersForQ = p.Answers > 0 && p.hasAddr(ipA)
	}
	o.rAfter = resolvable(c, 130, "RNAME", ipB)
	o.qAfter = resolvable(c, 140, "QNAME", ipA)
	// a packet with the response bit set must not take the server down
	c.send(req{ID: 0x5151, Opcode: opcode, Bcast: bcast, Resp: true, QName: "QNAME", RRName: "RNAME", RRIP: ipB}.bytes(), nil)
	if c.kind == "udp" {
		c.recv(50 * time.Millisecond)
	} else {
		c.recv(100 * time.Millisecond)
	}
	c2, err2 := dial(srv)
	if err2 == nil {
		o.serverStillAlive = resolvable(c2, 150, "QNAME", ipA)
		c2.close()
	}
	return o, nil
}

func traceOf(absent, present obs) string {
	switch {
	case absent.answersForQ || present.answersForQ:
		return "query"
	case !absent.rBefore && absent.rAfter:
		return "registration"
	case present.rBefore && !present.rAfter:
		return "release"
	case present.replied && present.rcode == 0 && present.rAfter && absent.replied && absent.rcode != 0 && !absent.rAfter:
		return "refresh"
	}
	return "none"
}

func checkOpcode(c opCase) []vf.Finding {
	want := map[int]string{0: "query", 5: "registration", 6: "release", 8: "refresh"}[c.Opcode]
	if want == "" {
		want = "none"
	}
	subject := fmt.Sprintf("%s/opcode-%d", c.Kind, c.Opcode)
	var traces []string
	var last [2]obs
	for _, inAddl := range []bool{false, true} {
		absent, err := probe(c.Kind, c.Opcode, c.Bcast, false, inAddl)
		if err != nil {
			return []vf.Finding{vf.F("harness", "cannot-start-server", "%v", err)}
		}
		present, err := probe(c.Kind, c.Opcode, c.Bcast, true, inAddl)
		if err != nil {
			return []vf.Finding{vf.F("harness", "cannot-start-server", "%v", err)}
		}
		if !absent.preOK || !present.preOK {
			return []vf.Finding{vf.F(c.Kind+"/opcode-5", "registration-not-effective", "a registration request (opcode 5) followed by a query does not resolve the name: the pre-state for probing opcode %d cannot be established", c.Opcode)}
		}
		if !absent.serverStillAlive || !present.serverStillAlive {
			return []vf.Finding{vf.F(subject, "server-dead-after-response-bit-packet", "no answer to a plain query after a packet with the response bit set")}
		}
		last = [2]obs{absent, present}
		traces = append(traces, traceOf(absent, present))
	}
	got := "none"
	for _, t := range traces {
		if t != "none" {
			got = t
		}
	}
	desc := fmt.Sprintf("opcode %d broadcast %v: traces (record in answer / additional section) %v; last probe: absent-R {replied %v rcode %d answers %v R-after %v} present-R {replied %v rcode %d answers %v R-after %v}",
		c.Opcode, c.Bcast, traces, last[0].replied, last[0].rcode, last[0].answersForQ, last[0].rAfter, last[1].replied, last[1].rcode, last[1].answersForQ, last[1].rAfter)
	if c.Opcode == 9 && (got == "refresh" || got == "none") {
		return nil // alternate refresh opcode in deployed stacks, unassigned in RFC 1002: either is accepted
	}
	if got != want {
		return []vf.Finding{vf.F(subject, "routed-to-"+got+"-handler-want-"+want, "%s", desc)}
	}
	if want == "none" {
		// no handler trace; additionally the rcode must not be one a handler produces
		for _, o := range last {
			if o.replied && !(o.rcode == 1 || o.rcode == 4 || o.rcode == 5) {
				return []vf.Finding{vf.F(subject, "unassigned-opcode-answered-with-handler-rcode", "%s", desc)}
			}
		}
	}
	return nil
}

func TestOpcodeExhaustive(t *testing.T) {
	s := vf.Begin(t, P, "opcode-exhaustive")
	s.SetExhaustive()
	s.Note("all 16 opcodes x broadcast flag x 3 server kinds; each probed on fresh servers with the resource record absent / present beforehand and placed in the answer / additional section")
	vf.Enum(s, func(yield func(opCase)) {
		for _, k := range kinds {
			for op := 0; op < 16; op++ {
				for _, b := range []bool{false, true} {
					yield(opCase{k, op, b})
				}
			}
		}
	}, checkOpcode, func(c opCase) bool { return c.Opcode != 0 })
}

// ---- request isolation: bursts of concurrent clients ---------------------------------------------------

type burstCase struct {
	Kind    string  `json:"server_kind"`
	N       int     `json:"clients"`
	PerConn int     `json:"requests_per_client"`
	Stagger []int   `json:"stagger_us"`
	Cuts    [][]int `json:"tcp_write_cuts"`
}

func burstName(i, j int) string { return fmt.Sprintf("HOST%03dR%02d", i, j) }

var inFlight2 int64

func checkBurst(c burstCase) []vf.Finding {
	srv, err := startServer(c.Kind)
	if err != nil {
		return []vf.Finding{vf.F("harness", "cannot-start-server", "%v", err)}
	}
	defer srv.srv.Stop()
	setup, err := dial(srv)
	if err != nil {
		return []vf.Finding{vf.F("harness", "cannot-dial", "%v", err)}
	}
	for i := 0; i < c.N; i++ {
		for j := 0; j < c.PerConn; j++ {
			if !register(setup, uint16(1000+2*(i*c.PerConn+j)), burstName(i, j), ipN(i*c.PerConn+j+10)) {
				setup.close()
				return []vf.Finding{vf.F(c.Kind+"/opcode-5", "registration-not-effective", "cannot pre-register %s", burstName(i, j))}
			}
		}
	}
	setup.close()
	clients := make([]*client, c.N)
	for i := range clients {
		if clients[i], err = dial(srv); err != nil {
			return []vf.Finding{vf.F("harness", "cannot-dial", "%v", err)}
		}
		defer clients[i].close()
	}
	type got struct {
		i, j int
		p    resp
		ok   bool
	}
	var resMu sync.Mutex
	var results []got
	push := func(g got) { resMu.Lock(); results = append(results, g); resMu.Unlock() }
	var wg sync.WaitGroup
	start := make(chan struct{})
	for i := range clients {
		wg.Add(1)
		go func(i int) {
			defer wg.Done()
			<-start
			if len(c.Stagger) > 0 {
				time.Sleep(time.Duration(c.Stagger[i%len(c.Stagger)]) * time.Microsecond)
			}
			// send everything first, then read: the requests of one client and of all clients overlap
			for j := 0; j < c.PerConn; j++ {
				var cuts []int
				if len(c.Cuts) > 0 {
					cuts = c.Cuts[(i+j)%len(c.Cuts)]
				}
				clients[i].send(req{ID: uint16(0x2000 + i*64 + j), Opcode: 0, QName: burstName(i, j)}.bytes(), cuts)
			}
			seen := map[int]bool{}
			for reads := 0; len(seen) < c.PerConn && reads < 4*c.PerConn+4; reads++ {
				b, err := clients[i].recv(time.Second)
				if err != nil {
					break
				}
				p, ok := parseResp(b)
				j := int(p.ID) - (0x2000 + i*64)
				if !ok || j < 0 || j >= c.PerConn {
					push(got{i, -1, p, false})
					continue
				}
				seen[j] = true
				push(got{i, j, p, true})
			}
			// lost datagrams: ask again, sequentially
			for j := 0; j < c.PerConn; j++ {
				if !seen[j] {
					p, ok := clients[i].exchange(req{ID: uint16(0x2000 + i*64 + j), Opcode: 0, QName: burstName(i, j)}, time.Second)
					push(got{i, j, p, ok})
				}
			}
		}(i)
	}
	close(start)
	wg.Wait()
	var fs []vf.Finding
	answered := map[[2]int]bool{}
	for _, g := range results {
		if g.j < 0 {
			fs = append(fs, vf.F(c.Kind, "response-with-foreign-transaction-id", "client %d received id %#x", g.i, g.p.ID))
			continue
		}
		if !g.ok {
			fs = append(fs, vf.F(c.Kind, "request-never-answered", "client %d request %d", g.i, g.j))
			continue
		}
		answered[[2]int{g.i, g.j}] = true
		want := ipN(g.i*c.PerConn + g.j + 10)
		if g.p.Rcode != 0 || g.p.Answers < 1 || !g.p.hasAddr(want) || !g.p.hasName(burstName(g.i, g.j)) {
			fs = append(fs, vf.F(c.Kind, "response-does-not-answer-its-own-request", "client %d request %d (id %#x, %s -> %v): rcode %d, %d answers, raw %x", g.i, g.j, g.p.ID, burstName(g.i, g.j), want, g.p.Rcode, g.p.Answers, g.p.Raw))
			continue
		}
		for i2 := 0; i2 < c.N; i2++ {
			for j2 := 0; j2 < c.PerConn; j2++ {
				if (i2 != g.i || j2 != g.j) && (g.p.hasName(burstName(i2, j2)) || g.p.hasAddr(ipN(i2*c.PerConn+j2+10))) {
					fs = append(fs, vf.F(c.Kind, "response-carries-another-requests-data", "response to client %d request %d contains name/address of client %d request %d: %x", g.i, g.j, i2, j2, g.p.Raw))
				}
			}
		}
	}
	if len(fs) > 3 {
		fs = fs[:3]
	}
	return fs
}

func genBurst(t *rapid.T, kind string) burstCase {
	c := burstCase{Kind: kind, N: rapid.IntRange(2, 16).Draw(t, "clients"), PerConn: 1}
	if kind == "tcp" {
		c.N = rapid.IntRange(2, 6).Draw(t, "conns")
		c.PerConn = rapid.IntRange(1, 4).Draw(t, "perConn")
		for i, n := 0, rapid.IntRange(0, 3).Draw(t, "ncuts"); i < n; i++ {
			c.Cuts = append(c.Cuts, rapid.SliceOfN(rapid.IntRange(0, 60), 0, 4).Draw(t, "cuts"))
		}
	}
	c.Stagger = rapid.SliceOfN(rapid.IntRange(0, 300), 1, 4).Draw(t, "stagger")
	return c
}

func TestUDPIsolationServer(t *testing.T) {
	s := vf.Begin(t, P, "udp-isolation-server")
	vf.Rapid(s, vf.N(25, 300), func(t *rapid.T) burstCase { return genBurst(t, "server") }, checkBurst, func(c burstCase) bool { return c.N >= 2 })
}

func TestUDPIsolationUDPServer(t *testing.T) {
	s := vf.Begin(t, P, "udp-isolation-udpserver")
	vf.Rapid(s, vf.N(25, 300), func(t *rapid.T) burstCase { return genBurst(t, "udp") }, checkBurst, func(c burstCase) bool { return c.N >= 2 })
}

func TestTCPIsolation(t *testing.T) {
	s := vf.Begin(t, P, "tcp-isolation")
	vf.Rapid(s, vf.N(25, 300), func(t *rapid.T) burstCase { return genBurst(t, "tcp") }, checkBurst, func(c burstCase) bool { return c.N*c.PerConn >= 2 })
}

// ---- LLMNR server: every response answers its own request --------------------------------------------------

type llmnrCase struct {
	N       int   `json:"clients"`
	Stagger []int `json:"stagger_us"`
	CloseAt int   `json:"close_after_clients"` // -1: after the burst
}

func llName(i int) string { return fmt.Sprintf("host-%03d.test", i) }

func checkLLMNRServer(c llmnrCase) []vf.Finding {
	baseline := len(libGoroutines())
	handler := llmnr.HandlerFunc(func(s *llmnr.Server, remote net.Addr, w llmnr.ResponseWriter, m *llmnr.Message) bool {
		r := llmnr.CreateResponseFromMessage(m)
		for _, q := range m.Questions {
			var idx int
			fmt.Sscanf(q.Name, "host-%03d.test", &idx)
			r.AddAnswerClassINTypeA(q.Name, ipN(idx).String())
		}
		w.WriteMessage(r)
		return true
	})
	srv, err := llmnr.NewServer("udp4", []llmnr.Handler{handler})
	if err != nil {
		return []vf.Finding{vf.F("harness", "cannot-create-llmnr-server", "%v", err)}
	}
	conn, err := net.ListenUDP("udp4", &net.UDPAddr{IP: net.IPv4(127, 0, 0, 1)})
	if err != nil {
		return []vf.Finding{vf.F("harness", "cannot-listen", "%v", err)}
	}
	srv.Conn = conn
	srv.Address = conn.LocalAddr().(*net.UDPAddr)
	served := make(chan error, 1)
	go func() { served <- srv.Serve() }()
	to := conn.LocalAddr().(*net.UDPAddr)
	var fs []vf.Finding
	var mu sync.Mutex
	var wg sync.WaitGroup
	start := make(chan struct{})
	for i := 0; i < c.N; i++ {
		wg.Add(1)
		go func(i int) {
			defer wg.Done()
			sock, err := net.ListenUDP("udp4", &net.UDPAddr{IP: net.IPv4(127, 0, 0, 1)})
			if err != nil {
				return
			}
			defer sock.Close()
			q := llmnr.NewMessage()
			q.ID = uint16(0x3000 + i)
			q.AddQuestion(llName(i), llmnr.TypeA, llmnr.ClassIN)
			wire, _ := q.Encode()
			<-start
			if len(c.Stagger) > 0 {
				time.Sleep(time.Duration(c.Stagger[i%len(c.Stagger)]) * time.Microsecond)
			}
			var m *llmnr.Message
			for try := 0; try < 3 && m == nil; try++ {
				sock.WriteToUDP(wire, to)
				sock.SetReadDeadline(time.Now().Add(500 * time.Millisecond))
				buf := make([]byte, 1024)
				n, _, err := sock.ReadFromUDP(buf)
				if err != nil {
					continue
				}
				m, _ = llmnr.DecodeMessage(buf[:n])
			}
			mu.Lock()
			defer mu.Unlock()
			if m == nil {
				if c.CloseAt < 0 {
					fs = append(fs, vf.F("llmnr.Server", "request-never-answered", "client %d", i))
				}
				return
			}
			if m.ID != uint16(0x3000+i) || !m.IsResponse() {
				fs = append(fs, vf.F("llmnr.Server", "response-with-foreign-transaction-id", "client %d got id %#x", i, m.ID))
				return
			}
			if len(m.Answers) != 1 || m.Answers[0].Name != llName(i) || !bytes.Equal(m.Answers[0].RData, ipN(i)) {
				fs = append(fs, vf.F("llmnr.Server", "response-does-not-answer-its-own-request", "client %d (%s): answers %+v", i, llName(i), m.Answers))
			}
		}(i)
	}
	close(start)
	if c.CloseAt >= 0 {
		time.Sleep(time.Duration(c.CloseAt*50) * time.Microsecond)
	} else {
		wg.Wait()
	}
	ok, took := within(stopBudget, func() { srv.Close() })
	if !ok {
		fs = append(fs, vf.F("llmnr.Server.Close", "close-does-not-return", "after %v", took))
	}
	select {
	case <-served:
	case <-time.After(stopBudget):
		fs = append(fs, vf.F("llmnr.Server.Serve", "serve-loop-does-not-exit-after-close", "still running %v after Close", stopBudget))
	}
	wg.Wait()
	if left := waitNoLibGoroutines(baseline, 2*time.Second); left != nil {
		fs = append(fs, vf.F("llmnr.Server", "goroutines-leaked-after-close", "%v", left))
	}
	return fs
}

func TestLLMNRServerIsolation(t *testing.T) {
	s := vf.Begin(t, P, "llmnr-server-isolation")
	vf.Rapid(s, vf.N(40, 500), func(t *rapid.T) llmnrCase {
		c := llmnrCase{N: rapid.IntRange(2, 24).Draw(t, "clients"), CloseAt: -1, Stagger: rapid.SliceOfN(rapid.IntRange(0, 300), 1, 4).Draw(t, "stagger")}
		if rapid.IntRange(0, 3).Draw(t, "closeEarly") == 0 {
			c.CloseAt = rapid.IntRange(0, 20).Draw(t, "closeAt")
		}
		return c
	}, checkLLMNRServer, func(c llmnrCase) bool { return c.N >= 2 })
}

// ---- LLMNR client: each response goes to the query with the matching id ---------------------------------------

type clientCase struct {
	Waiting []uint16 `json:"waiting_ids"`
	Sent    []uint16 `json:"sent_ids"` // in order; may contain duplicates and ids nobody waits for
}

func checkLLMNRClient(c clientCase) []vf.Finding {
	baseline := len(libGoroutines())
	cl, err := llmnr.NewClient()
	if err != nil {
		return []vf.Finding{vf.F("harness", "cannot-create-llmnr-client", "%v", err)}
	}
	chans := map[uint16]chan *llmnr.Message{}
	for _, id := range c.Waiting {
		ch := make(chan *llmnr.Message, 1)
		chans[id] = ch
		cl.Queries.Store(id, ch)
	}
	port := cl.Conn.LocalAddr().(*net.UDPAddr).Port
	peer, err := net.DialUDP("udp4", nil, &net.UDPAddr{IP: net.IPv4(127, 0, 0, 1), Port: port})
	if err != nil {
		cl.Close()
		return []vf.Finding{vf.F("harness", "cannot-dial", "%v", err)}
	}
	expect := map[uint16]bool{}
	for _, id := range c.Sent {
		m := llmnr.NewMessage()
		m.ID = id
		m.SetResponse()
		m.AddAnswerClassINTypeA(fmt.Sprintf("id-%05d.test", id), ipN(int(id)).String())
		wire, _ := m.Encode()
		peer.Write(wire)
		if _, w := chans[id]; w {
			expect[id] = true
		}
	}
	// a query-type datagram and garbage must be ignored
	q := llmnr.NewMessage()
	if len(c.Waiting) > 0 {
		q.ID = c.Waiting[0]
	}
	q.SetQuery()
	q.AddQuestion("noise.test", llmnr.TypeA, llmnr.ClassIN)
	if wire, err := q.Encode(); err == nil && !expect[q.ID] {
		peer.Write(wire)
	}
	peer.Write([]byte{1, 2, 3})
	peer.Close()
	var fs []vf.Finding
	deadline := time.Now().Add(time.Second)
	for id, ch := range chans {
		if !expect[id] {
			continue
		}
		select {
		case m := <-ch:
			if m.ID != id || len(m.Answers) != 1 || m.Answers[0].Name != fmt.Sprintf("id-%05d.test", id) {
				fs = append(fs, vf.F("llmnr.Client", "response-delivered-to-wrong-query", "query %#x received id %#x answers %+v", id, m.ID, m.Answers))
			}
		case <-time.After(time.Until(deadline)):
			fs = append(fs, vf.F("llmnr.Client", "matching-response-not-delivered", "query %#x (sent ids %v)", id, c.Sent))
		}
	}
	time.Sleep(20 * time.Millisecond)
	for id, ch := range chans {
		if expect[id] {
			continue
		}
		select {
		case m := <-ch:
			fs = append(fs, vf.F("llmnr.Client", "response-delivered-to-wrong-query", "query %#x (no response sent for it) received id %#x", id, m.ID))
		default:
		}
	}
	ok, took := within(stopBudget, func() { cl.Close() })
	if !ok {
		fs = append(fs, vf.F("llmnr.Client.Close", "close-does-not-return", "after %v", took))
	}
	if left := waitNoLibGoroutines(baseline, 2*time.Second); left != nil {
		fs = append(fs, vf.F("llmnr.Client", "goroutines-leaked-after-close", "%v", left))
	}
	return fs
}

func TestLLMNRClientMatch(t *testing.T) {
	s := vf.Begin(t, P, "llmnr-client-match")
	vf.Rapid(s, vf.N(60, 800), func(t *rapid.T) clientCase {
		ids := rapid.SliceOfNDistinct(rapid.Uint16Range(1, 400), 1, 12, rapid.ID[uint16]).Draw(t, "waiting")
		var sent []uint16
		for i, n := 0, rapid.IntRange(1, 20).Draw(t, "nsent"); i < n; i++ {
			if rapid.IntRange(0, 3).Draw(t, "foreign") == 0 {
				sent = append(sent, rapid.Uint16Range(401, 800).Draw(t, "foreignId"))
			} else {
				sent = append(sent, ids[rapid.IntRange(0, len(ids)-1).Draw(t, "pick")])
			}
		}
		return clientCase{ids, sent}
	}, checkLLMNRClient, func(c clientCase) bool { return len(c.Waiting) >= 2 && len(c.Sent) >= 2 })
}

// ---- stopping at any moment ----------------------------------------------------------------------------------

type stopCase struct {
	Kind     string `json:"server_kind"`
	Clients  int    `json:"clients_in_flight"`
	DelayUS  int    `json:"stop_delay_us"` // relative to the start of the burst; negative: stop before the burst
	IdleTCP  int    `json:"idle_tcp_connections"`
	NoStart  bool   `json:"stop_without_start"`
}

func runStop(c stopCase) (finding *vf.Finding, overrun bool) {
	baseline := len(libGoroutines())
	if c.NoStart {
		// Stop on a server that was created but never started must return too
		srv, err := startServer(c.Kind)
		if err != nil {
			f := vf.F("harness", "cannot-start-server", "%v", err)
			return &f, false
		}
		ok, took := within(stopBudget, func() { srv.srv.Stop() })
		if !ok {
			f := vf.F(c.Kind+".Stop", "stop-does-not-return", "immediately after Start: %v", took)
			return &f, true
		}
		if left := waitNoLibGoroutines(baseline, 2*time.Second); left != nil {
			f := vf.F(c.Kind, "goroutines-leaked-after-stop", "%v", left)
			return &f, false
		}
		return nil, false
	}
	srv, err := startServer(c.Kind)
	if err != nil {
		f := vf.F("harness", "cannot-start-server", "%v", err)
		return &f, false
	}
	var idle []*client
	for i := 0; i < c.IdleTCP && c.Kind == "tcp"; i++ {
		if cl, err := dial(srv); err == nil {
			idle = append(idle, cl)
		}
	}
	var wg sync.WaitGroup
	fire := make(chan struct{})
	for i := 0; i < c.Clients; i++ {
		wg.Add(1)
		go func(i int) {
			defer wg.Done()
			cl, err := dial(srv)
			if err != nil {
				return
			}
			defer cl.close()
			<-fire
			for j := 0; j < 3; j++ {
				cl.send(req{ID: uint16(0x6000 + i*8 + j), Opcode: 0, QName: burstName(i, j)}.bytes(), nil)
			}
			cl.recv(100 * time.Millisecond)
		}(i)
	}
	if c.DelayUS >= 0 {
		close(fire)
		time.Sleep(time.Duration(c.DelayUS) * time.Microsecond)
	}
	ok, took := within(stopBudget, func() { srv.srv.Stop() })
	if c.DelayUS < 0 {
		close(fire)
	}
	wg.Wait()
	for _, cl := range idle {
		cl.close()
	}
	if !ok {
		f := vf.F(c.Kind+".Stop", "stop-does-not-return", "Stop still blocked after %v (clients %d, delay %dus, idle tcp %d)", took, c.Clients, c.DelayUS, c.IdleTCP)
		return &f, true
	}
	if left := waitNoLibGoroutines(baseline, 2*time.Second); left != nil {
		f := vf.F(c.Kind, "goroutines-leaked-after-stop", "%v (clients %d, delay %dus, idle tcp %d)", left, c.Clients, c.DelayUS, c.IdleTCP)
		return &f, false
	}
	return nil, false
}

func checkStop(c stopCase) []vf.Finding {
	f, overrun := runStop(c)
	if f == nil {
		return nil
	}
	if overrun {
		// a time budget is a weak signal: it only counts when it reproduces three times
		for i := 0; i < 2; i++ {
			time.Sleep(200 * time.Millisecond)
			if f2, o2 := runStop(c); f2 == nil || !o2 {
				return nil
			}
		}
	}
	return []vf.Finding{*f}
}

func TestStopPrompt(t *testing.T) {
	s := vf.Begin(t, P, "stop-prompt-and-leaks")
	vf.Rapid(s, vf.N(45, 600), func(t *rapid.T) stopCase {
		c := stopCase{Kind: rapid.SampledFrom(kinds).Draw(t, "kind"), Clients: rapid.IntRange(0, 8).Draw(t, "clients")}
		switch rapid.IntRange(0, 5).Draw(t, "when") {
		case 0:
			c.NoStart = true
		case 1:
			c.DelayUS = -1
		case 2:
			c.DelayUS = 0
		default:
			c.DelayUS = rapid.IntRange(1, 3000).Draw(t, "delay")
		}
		if c.Kind == "tcp" {
			c.IdleTCP = rapid.IntRange(0, 3).Draw(t, "idle")
		}
		return c
	}, checkStop, func(c stopCase) bool { return c.Clients > 0 && !c.NoStart })
}
