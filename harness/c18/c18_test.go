package c18

import (
	"bytes"
	"context"
	"fmt"
	"net"
	"os"
	"reflect"
	"strings"
	"sync"
	"sync/atomic"
	"testing"
	"time"

	"pgregory.net/rapid"

	"github.com/TheManticoreProject/Manticore/logger"
	"github.com/TheManticoreProject/Manticore/network/llmnr"

	"manticoreverif/vf"
)

const P = "C18"

var kinds = []string{"server", "udp", "tcp"}

func ipN(i int) net.IP { return net.IPv4(10, 77, byte(i>>8), byte(i)).To4() }

const replyWait = 400 * time.Millisecond

// ---- opcode routing, exhaustive -------------------------------------------------------------------------

type opCase struct {
	Kind   string `json:"server_kind"`
	Opcode int    `json:"opcode"`
	Bcast  bool   `json:"broadcast"`
	NM     uint16 `json:"nm_flags,omitempty"` // further NM_FLAGS bits set in the probe request
}

// observation of one probe on a fresh server
type obs struct {
	replied          bool
	rcode            int
	answersForQ      bool // reply carries an answer with Q's pre-registered address
	rBefore, rAfter  bool // R resolvable (with its address) before / after the probe
	qAfter           bool
	preOK            bool
	serverStillAlive bool
	neverSent        []string // replies carrying a transaction id that was never sent to the server
}

// RFC 1002 4.2.1.1 assigns a request handler to these opcodes
var assigned = map[int]bool{0: true, 5: true, 6: true, 8: true}

// A server may stay silent on a request with an unassigned opcode. The probe does not wait for a reply
// that need not come: a plain query sent right behind the request is the barrier; once that is answered
// the reply to the request gets a short grace (the UDP servers handle datagrams concurrently, so it may
// come after the barrier's), and the grace periods of a whole run are bounded. Silence is accepted
// either way; a reply that comes later is still seen by the reads that follow and judged.
const graceWait = 30 * time.Millisecond

var graceLeft = time.Duration(vf.Size(60, 240)) * time.Second

func resolvable(c *client, id uint16, name string, ip net.IP) bool {
	p, ok := c.exchange(req{ID: id, Opcode: 0, QName: name}, replyWait)
	return ok && p.Answers > 0 && p.hasAddr(ip) && p.Rcode == 0
}

// register establishes a pre-state through the network (opcode 5), trying the
// record in the answer section first and in the additional section second.
func register(c *client, id uint16, name string, ip net.IP) bool {
	for _, addl := range []bool{false, true} {
		c.exchange(req{ID: id, Opcode: 5, QName: name, RRName: name, RRIP: ip, InAddl: addl}, replyWait)
		if resolvable(c, id+1, name, ip) {
			return true
		}
	}
	return false
}

func probe(kind string, opcode int, bcast bool, nm uint16, preRegisterR bool, inAddl bool) (o obs, err error) {
	srv, err := startServer(kind)
	if err != nil {
		return o, err
	}
	defer srv.srv.Stop()
	c, err := dial(srv)
	if err != nil {
		return o, err
	}
	defer c.close()
	ipA, ipB := ipN(1), ipN(2)
	o.preOK = register(c, 100, "QNAME", ipA)
	if preRegisterR {
		o.preOK = o.preOK && register(c, 110, "RNAME", ipB)
	}
	if !o.preOK {
		return o, nil
	}
	o.rBefore = resolvable(c, 120, "RNAME", ipB)
	pr := req{ID: 0x4242, Opcode: opcode, Bcast: bcast, NM: nm, QName: "QNAME", RRName: "RNAME", RRIP: ipB, InAddl: inAddl}
	var p resp
	var ok bool
	var old *client
	if assigned[opcode] {
		p, ok = c.exchange(pr, replyWait)
	} else {
		c.send(pr.bytes(), nil)
		barrier := resolvable(c, 0x4243, "QNAME", ipA)
		if p, ok = c.seen[pr.ID]; !ok && barrier && graceLeft > 0 {
			t0 := time.Now()
			p, ok = c.await(pr.ID, graceWait)
			graceLeft -= time.Since(t0)
		}
		if !barrier && kind == "tcp" {
			// the server may have closed the connection on the request: the scans below need a new one
			if c3, err3 := dial(srv); err3 == nil {
				defer c3.close()
				old, c = c, c3
			}
		}
	}
	o.rAfter = resolvable(c, 130, "RNAME", ipB)
	o.qAfter = resolvable(c, 140, "QNAME", ipA)
	if !ok && old == nil {
		p, ok = c.seen[pr.ID] // arrived during the scans
	}
	o.replied = ok
	if ok {
		o.rcode = p.Rcode
		o.answersForQ = p.Answers > 0 && p.hasAddr(ipA)
	}
	// a packet with the response bit set must not take the server down. Whether the server answers such a packet
	// or drops it silently is its own business, so no reply to it is waited for: a plain query sent after it on
	// the same socket / connection is the barrier (once that is answered the server has consumed the packet; a
	// connection the server closes on the offending packet ends the wait at once), then a fresh client asks again.
	c.send(req{ID: 0x5151, Opcode: opcode, Bcast: bcast, NM: nm, Resp: true, QName: "QNAME", RRName: "RNAME", RRIP: ipB}.bytes(), nil)
	resolvable(c, 0x5152, "QNAME", ipA)
	// "dead" is a verdict about the server, not about how fast this machine is: a fresh client asks up to three
	// times, each on a connection of its own and with two seconds for the reply, before the server is given up
	var c2 *client
	for try := 0; try < 3 && !o.serverStillAlive; try++ {
		cn, err2 := dial(srv)
		if err2 != nil {
			continue
		}
		if c2 != nil {
			c2.close()
		}
		c2 = cn
		p, ok := c2.exchange(req{ID: uint16(150 + try), Opcode: 0, QName: "QNAME"}, 2*time.Second)
		o.serverStillAlive = ok && p.Answers > 0 && p.hasAddr(ipA) && p.Rcode == 0
	}
	if c2 != nil {
		c2.close()
	}
	o.neverSent = append(o.neverSent, neverSent(old, c, c2)...)
	return o, nil
}

// traceOf infers the handler that ran from what the probes left behind. A refresh is judged on the name
// the table holds (answered positively, name still there); for a name the table does not hold the refresh
// handler may refuse and leave it absent, or (opcodes 8 and 9 only) answer positively and leave the name
// registered, as WINS and Samba do - on the present name the registration handler is still told apart from
// it by what it answers to the owner registering again.
func traceOf(opcode int, absent, present obs) string {
	refreshed := present.replied && present.rcode == 0 && present.rBefore && present.rAfter
	switch {
	case absent.answersForQ || present.answersForQ:
		return "query"
	case (opcode == 8 || opcode == 9) && refreshed && !absent.rBefore && absent.rAfter && absent.replied && absent.rcode == 0:
		return "refresh"
	case !absent.rBefore && absent.rAfter:
		return "registration"
	case present.rBefore && !present.rAfter:
		return "release"
	case present.replied && present.rcode == 0 && present.rAfter && absent.replied && absent.rcode != 0 && !absent.rAfter:
		return "refresh"
	}
	return "none"
}

func checkOpcode(c opCase) []vf.Finding {
	want := map[int]string{0: "query", 5: "registration", 6: "release", 8: "refresh"}[c.Opcode]
	if want == "" {
		want = "none"
	}
	subject := fmt.Sprintf("%s/opcode-%d", c.Kind, c.Opcode)
	var traces []string
	var last [2]obs
	var positive []string // the probes that were answered with rcode 0
	for _, inAddl := range []bool{false, true} {
		absent, err := probe(c.Kind, c.Opcode, c.Bcast, c.NM, false, inAddl)
		if err != nil {
			return []vf.Finding{vf.F("harness", "cannot-start-server", "%v", err)}
		}
		present, err := probe(c.Kind, c.Opcode, c.Bcast, c.NM, true, inAddl)
		if err != nil {
			return []vf.Finding{vf.F("harness", "cannot-start-server", "%v", err)}
		}
		if !absent.preOK || !present.preOK {
			return []vf.Finding{vf.F(c.Kind+"/opcode-5", "registration-not-effective", "a registration request (opcode 5) followed by a query does not resolve the name: the pre-state for probing opcode %d cannot be established", c.Opcode)}
		}
		if !absent.serverStillAlive || !present.serverStillAlive {
			return []vf.Finding{vf.F(subject, "server-dead-after-response-bit-packet", "no answer to a plain query after a packet with the response bit set")}
		}
		if ns := append(absent.neverSent, present.neverSent...); len(ns) > 0 {
			return []vf.Finding{vf.F(subject, "response-with-transaction-id-never-sent", "probing opcode %d broadcast %v nm_flags %#04x (request id 0x4242, all other ids sent: 100..151, 0x4243, 0x5151, 0x5152): the server sent %s", c.Opcode, c.Bcast, c.NM, strings.Join(ns, ", "))}
		}
		last = [2]obs{absent, present}
		for k, o := range last {
			if o.replied && o.rcode == 0 {
				positive = append(positive, fmt.Sprintf("%s beforehand, in the %s section", [2]string{"absent", "present"}[k], map[bool]string{false: "answer", true: "additional"}[inAddl]))
			}
		}
		traces = append(traces, traceOf(c.Opcode, absent, present))
	}
	got := "none"
	for _, t := range traces {
		if t != "none" {
			got = t
		}
	}
	desc := fmt.Sprintf("opcode %d broadcast %v nm_flags %#04x: traces (record in answer / additional section) %v; last probe: absent-R {replied %v rcode %d answers %v R-after %v} present-R {replied %v rcode %d answers %v R-after %v}",
		c.Opcode, c.Bcast, c.NM, traces, last[0].replied, last[0].rcode, last[0].answersForQ, last[0].rAfter, last[1].replied, last[1].rcode, last[1].answersForQ, last[1].rAfter)
	if c.Opcode == 9 && (got == "refresh" || got == "none") {
		return nil // alternate refresh opcode in deployed stacks, unassigned in RFC 1002: either is accepted
	}
	if got != want {
		return []vf.Finding{vf.F(subject, "routed-to-"+got+"-handler-want-"+want, "%s", desc)}
	}
	if want == "none" {
		// RFC 1002 assigns no handler: none has left a trace on the name table (above), and the request must not be
		// answered positively either. Which error code the server answers with, or whether it answers at all, is
		// not stated by the property.
		if len(positive) > 0 {
			return []vf.Finding{vf.F(subject, "unassigned-opcode-answered-positively", "%s; answered with rcode 0 when the record was %s", desc, strings.Join(positive, "; "))}
		}
	}
	return nil
}

func TestOpcodeExhaustive(t *testing.T) {
	s := vf.Begin(t, P, "opcode-exhaustive")
	s.SetExhaustive()
	// RFC 1002 4.2.1.1: the flags word is R(1) OPCODE(4) NM_FLAGS(7) RCODE(4); a request is routed by R and
	// OPCODE alone, whatever NM_FLAGS bits it carries (every real broadcast query carries RD and B).
	nms := []uint16{0, 0x400, 0x200, 0x100, 0x080, 0x040, 0x020, 0x7E0}
	if vf.Thorough() {
		nms = nms[:0]
		for v := uint16(0); v < 64; v++ {
			nms = append(nms, v<<5)
		}
	}
	s.Note("all 16 opcodes x %d settings of the NM_FLAGS bits AA, TC, RD, RA and the two reserved bits (none, each alone, all; thorough: all 64) x broadcast bit x 3 server kinds; each probed on fresh servers with the resource record absent / present beforehand and placed in the answer / additional section", len(nms))
	vf.Enum(s, func(yield func(opCase)) {
		for _, k := range kinds {
			for op := 0; op < 16; op++ {
				for _, nm := range nms {
					for _, b := range []bool{false, true} {
						yield(opCase{k, op, b, nm})
					}
				}
			}
		}
	}, checkOpcode, func(c opCase) bool { return c.Opcode != 0 || c.NM != 0 || c.Bcast })
}

// ---- request isolation: bursts of concurrent clients ---------------------------------------------------

type burstCase struct {
	Kind    string  `json:"server_kind"`
	N       int     `json:"clients"`
	PerConn int     `json:"requests_per_client"`
	Stagger []int   `json:"stagger_us"`
	Cuts    [][]int `json:"tcp_write_cuts"`
	PauseUS int     `json:"tcp_pause_between_segments_us,omitempty"` // 0: the writer only yields the processor between segments
	QPer    int     `json:"questions_per_request,omitempty"`         // 0 = 1; several questions make requests and responses exceed 255 bytes
	Private int     `json:"private_names_per_client,omitempty"`      // names each client registers, refreshes and (odd ones) releases during the burst
	// Shared (with Private > 0): every client also joins one common group name with an address of its own and
	// refreshes that membership twice, so that refreshes of ONE record overlap (the private names overlap only
	// with other names)
	Shared bool `json:"shared_group,omitempty"`
}

func (c burstCase) qper() int {
	if c.QPer < 1 {
		return 1
	}
	return c.QPer
}

func burstName(i, j int) string { return fmt.Sprintf("HOST%03dR%02d", i, j) }

// names and addresses of the burst: question q of request j of client i; private name m of client i
func (c burstCase) qName(i, j, q int) string {
	if c.qper() == 1 {
		return burstName(i, j)
	}
	return fmt.Sprintf("H%03dR%02dQ%02d", i, j, q)
}
func (c burstCase) qAddr(i, j, q int) net.IP { return ipN(10 + (i*c.PerConn+j)*c.qper() + q) }
func privName(i, m int) string               { return fmt.Sprintf("PRIV%03dM%02d", i, m) }
func privAddr(i, m int) net.IP               { return ipN(20000 + i*32 + m) }

var inFlight2 int64

// one request of a client's script and what came back for it
type slot struct {
	r       req
	p       resp
	ok      bool
	retried bool // the request was sent more than once (lost datagram): a state-changing request may have been applied twice
}

// pipeline sends all requests first and reads afterwards, so that the requests of one client and of all
// clients overlap; requests whose reply did not arrive (lost datagrams) are asked again one by one. Returns the
// ids of replies that answer none of this client's outstanding requests.
func pipeline(cl *client, slots []*slot, cuts func(k int) []int, sent map[uint16]int, got map[uint16]int) (foreign []uint16) {
	byID := map[uint16]*slot{}
	for k, sl := range slots {
		byID[sl.r.ID] = sl
		sent[sl.r.ID]++
		var cs []int
		if cuts != nil {
			cs = cuts(k)
		}
		cl.send(sl.r.bytes(), cs)
	}
	pending := len(slots)
	for reads := 0; pending > 0 && reads < 4*len(slots)+4; reads++ {
		b, err := cl.recv(time.Second)
		if err != nil {
			break
		}
		p, ok := parseResp(b)
		if ok && cl.isWack(p) {
			continue // a WACK under the id of one of this client's requests may precede the response
		}
		got[p.ID]++
		sl := byID[p.ID]
		if !ok || got[p.ID] > sent[p.ID] {
			foreign = append(foreign, p.ID)
			continue
		}
		if sl == nil || sl.ok {
			continue // the late reply to a request of an earlier phase that was sent twice
		}
		sl.p, sl.ok = p, true
		pending--
	}
	for _, sl := range slots {
		if !sl.ok {
			sl.retried = true
			sent[sl.r.ID] += 3 // exchange re-sends a lost UDP datagram up to twice
			sl.p, sl.ok = cl.exchange(sl.r, time.Second)
		}
	}
	return foreign
}

func checkBurst(c burstCase) []vf.Finding {
	srv, err := startServer(c.Kind)
	if err != nil {
		return []vf.Finding{vf.F("harness", "cannot-start-server", "%v", err)}
	}
	defer srv.srv.Stop()
	setup, err := dial(srv)
	if err != nil {
		return []vf.Finding{vf.F("harness", "cannot-dial", "%v", err)}
	}
	Q := c.qper()
	id := uint16(1000)
	for i := 0; i < c.N; i++ {
		for j := 0; j < c.PerConn; j++ {
			for q := 0; q < Q; q++ {
				if !register(setup, id, c.qName(i, j, q), c.qAddr(i, j, q)) {
					setup.close()
					return []vf.Finding{vf.F(c.Kind+"/opcode-5", "registration-not-effective", "cannot pre-register %s", c.qName(i, j, q))}
				}
				id += 2
			}
		}
	}
	// which section of a request carries the record the server acts on (RFC 1002: additional; the
	// implementation may read the answer section): settled once, through a registration that takes effect
	inAddl := false
	if c.Private > 0 {
		found := false
		for _, addl := range []bool{false, true} {
			setup.exchange(req{ID: 900, Opcode: 5, QName: "SECTIONPROBE", RRName: "SECTIONPROBE", RRIP: ipN(9), InAddl: addl}, replyWait)
			if resolvable(setup, 901, "SECTIONPROBE", ipN(9)) {
				inAddl, found = addl, true
				break
			}
		}
		if !found {
			setup.close()
			return []vf.Finding{vf.F(c.Kind+"/opcode-5", "registration-not-effective", "cannot register SECTIONPROBE")}
		}
	}
	setup.close()
	clients := make([]*client, c.N)
	for i := range clients {
		if clients[i], err = dial(srv); err != nil {
			return []vf.Finding{vf.F("harness", "cannot-dial", "%v", err)}
		}
		clients[i].pause = time.Duration(c.PauseUS) * time.Microsecond
		defer clients[i].close()
	}
	// ids: 0x2000 + client*64 + slot; slots 0..7 queries, 8.. registrations, 16.. refreshes, 24.. releases, 32.. queries of private names
	idOf := func(i, k int) uint16 { return uint16(0x2000 + i*64 + k) }
	type script struct {
		queries, regs, refreshes, releases, after []*slot
		foreign                                   []uint16
	}
	scripts := make([]*script, c.N)
	var wg sync.WaitGroup
	start := make(chan struct{})
	for i := range clients {
		sc := &script{}
		scripts[i] = sc
		for j := 0; j < c.PerConn; j++ {
			r := req{ID: idOf(i, j), Opcode: 0, QName: c.qName(i, j, 0)}
			for q := 1; q < Q; q++ {
				r.QNames = append(r.QNames, c.qName(i, j, q))
			}
			sc.queries = append(sc.queries, &slot{r: r})
		}
		for m := 0; m < c.Private; m++ {
			mk := func(base, opcode int) *slot {
				return &slot{r: req{ID: idOf(i, base+m), Opcode: opcode, QName: privName(i, m), RRName: privName(i, m), RRIP: privAddr(i, m), InAddl: inAddl}}
			}
			sc.regs = append(sc.regs, mk(8, 5))
			sc.refreshes = append(sc.refreshes, mk(16, 8))
			if m%2 == 1 {
				sc.releases = append(sc.releases, mk(24, 6))
			}
			sc.after = append(sc.after, &slot{r: req{ID: idOf(i, 32+m), Opcode: 0, QName: privName(i, m)}})
		}
		if c.Shared && c.Private > 0 {
			member := func(slotNo, opcode int) *slot {
				return &slot{r: req{ID: idOf(i, slotNo), Opcode: opcode, NM: 0x0080, QName: "SHAREDGROUP", RRName: "SHAREDGROUP", RRIP: privAddr(i, 31), InAddl: inAddl}}
			}
			sc.regs = append(sc.regs, member(40, 5))
			sc.refreshes = append(sc.refreshes, member(41, 8), member(42, 8))
		}
		wg.Add(1)
		go func(i int) {
			defer wg.Done()
			<-start
			if len(c.Stagger) > 0 {
				time.Sleep(time.Duration(c.Stagger[i%len(c.Stagger)]) * time.Microsecond)
			}
			sent, got := map[uint16]int{}, map[uint16]int{}
			cuts := func(k int) []int {
				if len(c.Cuts) == 0 {
					return nil
				}
				return c.Cuts[(i+k)%len(c.Cuts)]
			}
			// the phases of one client follow each other (a refresh needs its registration); the clients are
			// not synchronised, so registrations, refreshes, releases and queries of different clients overlap
			first := append(append([]*slot{}, sc.regs...), sc.queries...)
			if i%2 == 1 {
				first = append(append([]*slot{}, sc.queries...), sc.regs...)
			}
			for _, phase := range [][]*slot{first, sc.refreshes, sc.releases, sc.after} {
				if len(phase) > 0 {
					sc.foreign = append(sc.foreign, pipeline(clients[i], phase, cuts, sent, got)...)
				}
			}
		}(i)
	}
	close(start)
	wg.Wait()
	var fs []vf.Finding
	if ns := neverSent(append([]*client{setup}, clients...)...); len(ns) > 0 {
		fs = append(fs, vf.F(c.Kind, "response-with-transaction-id-never-sent", "the server sent %s; no request with such an id was sent to it", strings.Join(ns, ", ")))
	}
	for i, sc := range scripts {
		for _, id := range sc.foreign {
			fs = append(fs, vf.F(c.Kind, "response-with-foreign-transaction-id", "client %d received id %#x (more often than it sent it)", i, id))
		}
		for j, sl := range sc.queries {
			if !sl.ok {
				fs = append(fs, vf.F(c.Kind, "request-never-answered", "client %d request %d", i, j))
				continue
			}
			good := sl.p.Rcode == 0 && sl.p.Answers == Q
			for q := 0; q < Q; q++ {
				good = good && sl.p.hasAddr(c.qAddr(i, j, q)) && sl.p.hasName(c.qName(i, j, q))
			}
			// a response that says of itself that it was truncated (TC) is not held to be complete (where a
			// datagram server draws that line is its business); that it carries nothing of another request is
			// still asked below
			if sl.p.Flags&0x0200 != 0 && sl.p.Rcode == 0 {
				good = true
			}
			if !good {
				fs = append(fs, vf.F(c.Kind, "response-does-not-answer-its-own-request", "client %d request %d (id %#x, %d questions %s.. -> %v..): rcode %d, %d answers, raw %x", i, j, sl.p.ID, Q, c.qName(i, j, 0), c.qAddr(i, j, 0), sl.p.Rcode, sl.p.Answers, sl.p.Raw))
				continue
			}
			for i2 := 0; i2 < c.N; i2++ {
				for j2 := 0; j2 < c.PerConn; j2++ {
					for q2 := 0; q2 < Q && (i2 != i || j2 != j); q2++ {
						if sl.p.hasName(c.qName(i2, j2, q2)) || sl.p.hasAddr(c.qAddr(i2, j2, q2)) {
							fs = append(fs, vf.F(c.Kind, "response-carries-another-requests-data", "response to client %d request %d contains name/address of client %d request %d: %x", i, j, i2, j2, sl.p.Raw))
						}
					}
				}
				for m2 := 0; m2 < c.Private; m2++ {
					if sl.p.hasName(privName(i2, m2)) || sl.p.hasAddr(privAddr(i2, m2)) {
						fs = append(fs, vf.F(c.Kind, "response-carries-another-requests-data", "response to client %d request %d contains private name/address %d of client %d: %x", i, j, m2, i2, sl.p.Raw))
					}
				}
			}
		}
		// registrations, refreshes and releases of names nobody else touches succeed
		for _, ph := range []struct {
			what  string
			slots []*slot
		}{{"registration", sc.regs}, {"refresh", sc.refreshes}, {"release", sc.releases}} {
			for _, sl := range ph.slots {
				switch {
				case !sl.ok:
					fs = append(fs, vf.F(c.Kind, "request-never-answered", "client %d %s of %s", i, ph.what, sl.r.QName))
				case sl.p.Rcode != 0 && !(sl.retried && ph.what != "refresh"):
					fs = append(fs, vf.F(c.Kind, "concurrent-"+ph.what+"-of-own-name-refused", "client %d %s of %s -> %v (id %#x): rcode %d", i, ph.what, sl.r.QName, sl.r.RRIP, sl.r.ID, sl.p.Rcode))
				}
			}
		}
		// what the client sees of its own names afterwards
		for m, sl := range sc.after {
			released := m%2 == 1
			switch {
			case !sl.ok:
				fs = append(fs, vf.F(c.Kind, "request-never-answered", "client %d query of %s", i, sl.r.QName))
			case released && (sl.p.Rcode == 0 && sl.p.Answers > 0):
				fs = append(fs, vf.F(c.Kind, "released-name-still-resolves", "client %d released %s, a query then returns %d answers: %x", i, sl.r.QName, sl.p.Answers, sl.p.Raw))
			case !released && !(sl.p.Rcode == 0 && sl.p.Answers == 1 && sl.p.hasAddr(privAddr(i, m)) && sl.p.hasName(privName(i, m))):
				fs = append(fs, vf.F(c.Kind, "registered-name-does-not-resolve-to-its-registrant", "client %d registered %s -> %v: rcode %d, %d answers, raw %x", i, sl.r.QName, privAddr(i, m), sl.p.Rcode, sl.p.Answers, sl.p.Raw))
			}
		}
	}
	// the table afterwards, seen by a fresh client: every kept private name has its own client's address, and only that
	if c.Private > 0 && len(fs) == 0 {
		if tail, err := dial(srv); err == nil {
			for i := 0; i < c.N && len(fs) == 0; i++ {
				for m := 0; m < c.Private; m++ {
					p, ok := tail.exchange(req{ID: uint16(0x7000 + i*32 + m), Opcode: 0, QName: privName(i, m)}, time.Second)
					if !ok {
						fs = append(fs, vf.F(c.Kind, "request-never-answered", "final query of %s", privName(i, m)))
						continue
					}
					if m%2 == 1 {
						if p.Rcode == 0 && p.Answers > 0 {
							fs = append(fs, vf.F(c.Kind, "released-name-still-resolves", "final scan: %s (released by client %d): %x", privName(i, m), i, p.Raw))
						}
						continue
					}
					if !(p.Rcode == 0 && p.Answers == 1 && p.hasAddr(privAddr(i, m))) {
						fs = append(fs, vf.F(c.Kind, "registered-name-does-not-resolve-to-its-registrant", "final scan: %s registered by client %d with %v: rcode %d, %d answers, raw %x", privName(i, m), i, privAddr(i, m), p.Rcode, p.Answers, p.Raw))
					}
				}
			}
			if ns := neverSent(tail); len(ns) > 0 {
				fs = append(fs, vf.F(c.Kind, "response-with-transaction-id-never-sent", "final scan: the server sent %s; no request with such an id was sent to it", strings.Join(ns, ", ")))
			}
			tail.close()
		}
	}
	if len(fs) > 3 {
		fs = fs[:3]
	}
	return fs
}

// genBurst: UDP responses stay within the 576 bytes every NBNS datagram endpoint must accept (at most 11
// answers of 48 bytes), TCP messages go up to 40 questions (request 1.5 KB, response 1.9 KB).
func genBurst(t *rapid.T, kind string) burstCase {
	c := burstCase{Kind: kind, N: rapid.IntRange(2, 16).Draw(t, "clients"), PerConn: 1}
	maxQ := 11
	if kind == "tcp" {
		maxQ = 40
		c.N = rapid.IntRange(2, 6).Draw(t, "conns")
		c.PerConn = rapid.IntRange(1, 4).Draw(t, "perConn")
		// how the 2-byte length prefix and the message are cut into segments: one pattern always splits the
		// length prefix itself (cut at offset 1), the others are drawn (possibly none: one write)
		c.Cuts = append(c.Cuts, append([]int{1}, rapid.SliceOfN(rapid.OneOf(rapid.IntRange(2, 60), rapid.IntRange(2, 2000)), 0, 3).Draw(t, "cuts1")...))
		for i, n := 0, rapid.IntRange(0, 3).Draw(t, "ncuts"); i < n; i++ {
			c.Cuts = append(c.Cuts, rapid.SliceOfN(rapid.OneOf(rapid.IntRange(0, 60), rapid.IntRange(0, 2000)), 0, 4).Draw(t, "cuts"))
		}
		// two cases in three really pause between the segments (1-2 ms: the peer has read a segment before the next
		// one is written); otherwise the writer only yields the processor and the segments may coalesce
		if rapid.IntRange(0, 2).Draw(t, "pause") > 0 {
			c.PauseUS = rapid.IntRange(1000, 2000).Draw(t, "pauseUS")
		}
	}
	c.Stagger = rapid.SliceOfN(rapid.IntRange(0, 300), 1, 4).Draw(t, "stagger")
	switch rapid.IntRange(0, 2).Draw(t, "size") {
	case 0:
		c.QPer = 1
	case 1:
		c.QPer = rapid.IntRange(7, maxQ).Draw(t, "questions") // 7 questions: 278-byte request, 348-byte response
	default:
		c.QPer = rapid.IntRange(1, maxQ).Draw(t, "questions")
	}
	if rapid.IntRange(0, 3).Draw(t, "mutating") > 0 {
		c.Private = rapid.IntRange(1, 6).Draw(t, "private")
		c.Shared = rapid.Bool().Draw(t, "sharedGroup")
	}
	return c
}

func burstNontrivial(c burstCase) bool { return c.N*c.PerConn >= 2 }

func checkBurstClassed(s *vf.Sub) func(burstCase) []vf.Finding {
	return func(c burstCase) []vf.Finding {
		if c.qper() >= 7 {
			s.Class("messages-above-255-bytes")
		}
		if c.Private > 0 {
			s.Class("concurrent-registration-refresh-release")
		}
		if c.Shared {
			s.Class("overlapping-refreshes-of-one-group")
		}
		return checkBurst(c)
	}
}

func TestUDPIsolationServer(t *testing.T) {
	s := vf.Begin(t, P, "udp-isolation-server")
	vf.Rapid(s, vf.N(25, 300), func(t *rapid.T) burstCase { return genBurst(t, "server") }, checkBurstClassed(s), burstNontrivial)
}

func TestUDPIsolationUDPServer(t *testing.T) {
	s := vf.Begin(t, P, "udp-isolation-udpserver")
	vf.Rapid(s, vf.N(25, 300), func(t *rapid.T) burstCase { return genBurst(t, "udp") }, checkBurstClassed(s), burstNontrivial)
}

func TestTCPIsolation(t *testing.T) {
	s := vf.Begin(t, P, "tcp-isolation")
	vf.Rapid(s, vf.N(25, 300), func(t *rapid.T) burstCase { return genBurst(t, "tcp") }, checkBurstClassed(s), burstNontrivial)
}

// ---- responses above the 576 bytes of a datagram ---------------------------------------------------------------
//
// The bursts above keep UDP responses within the 576 bytes every NBNS datagram endpoint must accept. A group name
// with many members makes the positive query response longer than that (48 bytes per member): a datagram server
// then truncates or marks it, on a code path nothing else reaches. Whatever it does with the contents, "every
// response carries the transaction id of exactly one request": the ids are drawn so that every bit of the id is
// clear in some request and set in another. Only the id, the response bit and that every request is answered are
// judged here; the contents of a response that may have been cut are not.

type largeCase struct {
	Kind    string   `json:"server"`
	Members int      `json:"group_members"`
	IDs     []uint16 `json:"query_ids"`
}

func checkLarge(c largeCase) []vf.Finding {
	srv, err := startServer(c.Kind)
	if err != nil {
		return []vf.Finding{vf.F("harness", "cannot-start-server", "%v", err)}
	}
	defer srv.srv.Stop()
	cl, err := dial(srv)
	if err != nil {
		return []vf.Finding{vf.F("harness", "cannot-dial", "%v", err)}
	}
	defer cl.close()
	const name = "BIGGROUP"
	member := func(k int) net.IP { return net.IPv4(10, 77, byte(k>>8), byte(k)).To4() }
	// which section of a registration the server reads: settled by the first member
	inAddl, found := false, false
	for _, addl := range []bool{false, true} {
		cl.exchange(req{ID: 0x0900, Opcode: 5, NM: 0x0080, QName: name, RRName: name, RRIP: member(0), InAddl: addl}, replyWait)
		if resolvable(cl, 0x0901, name, member(0)) {
			inAddl, found = addl, true
			break
		}
	}
	if !found {
		return []vf.Finding{vf.F(c.Kind+"/opcode-5", "registration-not-effective", "cannot register the group %s", name)}
	}
	for k := 1; k < c.Members; k++ {
		p, ok := cl.exchange(req{ID: uint16(0x0A00 + k), Opcode: 5, NM: 0x0080, QName: name, RRName: name, RRIP: member(k), InAddl: inAddl}, replyWait)
		if !ok || p.Rcode != 0 {
			return []vf.Finding{vf.F(c.Kind+"/opcode-5", "group-registration-refused", "member %d of %s: answered %v, rcode %d", k+1, name, ok, p.Rcode)}
		}
	}
	var fs []vf.Finding
	for _, id := range c.IDs {
		p, ok := cl.exchange(req{ID: id, Opcode: 0, QName: name}, replyWait)
		if ns := neverSent(cl); len(ns) > 0 {
			return []vf.Finding{vf.F(c.Kind, "response-with-transaction-id-never-sent", "query %#04x for a group of %d members: the server sent %s; no request with such an id was sent to it", id, c.Members, strings.Join(ns, ", "))}
		}
		if !ok {
			fs = append(fs, vf.F(c.Kind, "request-never-answered", "query %#04x for a group of %d members", id, c.Members))
			break
		}
		if p.Flags&0x8000 == 0 {
			fs = append(fs, vf.F(c.Kind, "response-without-response-bit", "query %#04x for a group of %d members: flags %#04x (%d bytes)", id, c.Members, p.Flags, len(p.Raw)))
			break
		}
	}
	return fs
}

func TestLargeResponses(t *testing.T) {
	s := vf.Begin(t, P, "large-response-ids")
	vf.Rapid(s, vf.N(30, 400), func(t *rapid.T) largeCase {
		c := largeCase{Kind: rapid.SampledFrom([]string{"udp", "udp", "server", "tcp"}).Draw(t, "server"), Members: rapid.IntRange(8, 40).Draw(t, "members")}
		// every bit of the id clear in one request and set in another, then drawn ones
		c.IDs = []uint16{0x0000, 0xFFFF, 0x5555, 0xAAAA}
		for i, n := 0, rapid.IntRange(1, 4).Draw(t, "more"); i < n; i++ {
			c.IDs = append(c.IDs, rapid.Uint16().Draw(t, "id"))
		}
		// the ids of the registrations above are not queried again
		out := c.IDs[:0]
		for _, id := range c.IDs {
			if id < 0x0900 || id > 0x0AFF {
				out = append(out, id)
			}
		}
		c.IDs = out
		return c
	}, func(c largeCase) []vf.Finding {
		if 12+48*c.Members > 576 {
			s.Class("response-above-576-bytes")
		}
		return checkLarge(c)
	}, func(c largeCase) bool { return c.Members >= 12 })
}

// ---- a server that has been idle still answers ----------------------------------------------------------------
//
// The bursts are over in well under a second. A server loop that arms a deadline on its socket (a read timeout to
// look at its quit channel, a write timeout for a response) is in a different state after seconds without
// traffic: one request is answered, nothing is sent for 2.6 s or 6.2 s (beyond the library's 2 s and 5 s
// timeouts of today), and a second request - from a new client socket, on a new connection for TCP - must be
// answered like the first. All cases run at once, each with a server of its own.

// sendJunk sends what any host can send to a datagram server: an empty datagram, a single byte, eleven bytes (one
// short of a header), twelve zero bytes. None of them is a request; none of them may stop the server from
// answering the requests that follow.
func sendJunk(to *net.UDPAddr) {
	sock, err := net.ListenUDP("udp4", &net.UDPAddr{IP: net.IPv4(127, 0, 0, 1)})
	if err != nil {
		return
	}
	defer sock.Close()
	for _, junk := range [][]byte{{}, {0x7F}, make([]byte, 11), make([]byte, 12)} {
		sock.WriteToUDP(junk, to)
		time.Sleep(5 * time.Millisecond)
	}
}

type idleCase struct {
	Kind   string `json:"server"` // llmnr, udp, server, tcp
	IdleMS int    `json:"idle_ms"`
}

func runIdle(c idleCase) []vf.Finding {
	idle := time.Duration(c.IdleMS) * time.Millisecond
	if c.Kind == "llmnr" {
		handler := llmnr.HandlerFunc(func(s *llmnr.Server, remote net.Addr, w llmnr.ResponseWriter, m *llmnr.Message) bool {
			r := llmnr.CreateResponseFromMessage(m)
			for _, q := range m.Questions {
				r.AddAnswerClassINTypeA(q.Name, "10.77.0.9")
			}
			w.WriteMessage(r)
			return true
		})
		srv, err := llmnr.NewServer("udp4", []llmnr.Handler{handler})
		if err != nil {
			return []vf.Finding{vf.F("harness", "cannot-create-llmnr-server", "%v", err)}
		}
		conn, err := net.ListenUDP("udp4", &net.UDPAddr{IP: net.IPv4(127, 0, 0, 1)})
		if err != nil {
			return []vf.Finding{vf.F("harness", "cannot-listen", "%v", err)}
		}
		srv.Conn, srv.Address = conn, conn.LocalAddr().(*net.UDPAddr)
		to := conn.LocalAddr().(*net.UDPAddr)
		served := make(chan error, 1)
		go func() { served <- srv.Serve() }()
		defer func() {
			srv.Close()
			select {
			case <-served:
			case <-time.After(stopBudget):
			}
		}()
		ask := func(id uint16) bool {
			sock, err := net.ListenUDP("udp4", &net.UDPAddr{IP: net.IPv4(127, 0, 0, 1)})
			if err != nil {
				return false
			}
			defer sock.Close()
			q := llmnr.NewMessage()
			q.ID = id
			q.AddQuestion("idle-host.test", llmnr.TypeA, llmnr.ClassIN)
			wire, _ := q.Encode()
			for try := 0; try < 3; try++ {
				sock.WriteToUDP(wire, to)
				sock.SetReadDeadline(time.Now().Add(700 * time.Millisecond))
				buf := make([]byte, 1024)
				n, from, err := sock.ReadFromUDP(buf)
				if err != nil || from.Port != to.Port {
					continue
				}
				if m, err := llmnr.DecodeMessage(buf[:n]); err == nil && m.ID == id && m.IsResponse() {
					return true
				}
			}
			return false
		}
		if !ask(0x4001) {
			return []vf.Finding{vf.F("llmnr.Server", "request-never-answered", "the first request to a fresh server")}
		}
		sendJunk(to)
		time.Sleep(idle)
		if !ask(0x4002) {
			return []vf.Finding{vf.F("llmnr.Server", "no-answer-after-idle-period", "a request %v after the previous one (which was answered) got no response in three tries", idle)}
		}
		return nil
	}
	srv, err := startServer(c.Kind)
	if err != nil {
		return []vf.Finding{vf.F("harness", "cannot-start-server", "%v", err)}
	}
	defer srv.srv.Stop()
	ask := func(id uint16) (bool, string) {
		cl, err := dial(srv)
		if err != nil {
			return false, err.Error()
		}
		defer cl.close()
		// a query for a name nobody registered: answered with a name error, under its id
		p, ok := cl.exchange(req{ID: id, Opcode: 0, QName: "IDLEPROBE"}, 700*time.Millisecond)
		return ok && p.ID == id && p.Flags&0x8000 != 0, "no response"
	}
	if ok, why := ask(0x4101); !ok {
		return []vf.Finding{vf.F(c.Kind, "request-never-answered", "the first request to a fresh server: %s", why)}
	}
	if c.Kind == "tcp" {
		// a connection that sends an empty frame and one that sends half a length prefix, then go away
		for _, junk := range [][]byte{{0, 0}, {0}} {
			if cn, err := net.DialTimeout("tcp", srv.addr, 2*time.Second); err == nil {
				cn.Write(junk)
				time.Sleep(20 * time.Millisecond)
				cn.Close()
			}
		}
	} else if to, err := net.ResolveUDPAddr("udp", srv.addr); err == nil {
		sendJunk(to)
	}
	time.Sleep(idle)
	if ok, why := ask(0x4102); !ok {
		return []vf.Finding{vf.F(c.Kind, "no-answer-after-idle-period", "a request %v after the previous one (which was answered): %s", idle, why)}
	}
	return nil
}

func TestAnswersAfterIdle(t *testing.T) {
	s := vf.Begin(t, P, "answers-after-idle")
	var cases []idleCase
	for _, k := range []string{"llmnr", "udp", "server", "tcp"} {
		for _, ms := range []int{2600, 6200} {
			cases = append(cases, idleCase{k, ms})
		}
	}
	results := make([][]vf.Finding, len(cases))
	index := map[idleCase]int{}
	if _, shards := vf.Shard(); shards <= 1 && !vf.Replaying() {
		var wg sync.WaitGroup
		for i, c := range cases {
			index[c] = i
			wg.Add(1)
			go func(i int, c idleCase) {
				defer wg.Done()
				results[i] = vf.Safe("panic", func() []vf.Finding { return runIdle(c) })
			}(i, c)
		}
		wg.Wait()
	}
	vf.Enum(s, func(yield func(idleCase)) {
		for _, c := range cases {
			yield(c)
		}
	}, func(c idleCase) []vf.Finding {
		if i, ok := index[c]; ok {
			return results[i]
		}
		return runIdle(c)
	}, nil)
}

// ---- LLMNR server: every response answers its own request --------------------------------------------------

type llmnrCase struct {
	N       int   `json:"clients"`
	Stagger []int `json:"stagger_us"`
	CloseAt int   `json:"close_after_clients"` // -1: after the burst
	Debug   bool  `json:"debug,omitempty"`     // SetDebug(true): Serve logs every datagram through the library's logger, and so does the handler
	Servers int   `json:"servers,omitempty"`   // 0 = 1; with 2, client i talks to server i%2 (two serve loops in one process)
	// Describe: the library's own HandlerDescribePacket follows the answering handler in the chain (it logs every
	// packet under the logger's lock); requests must still be answered and Close must still leave nothing behind.
	Describe bool `json:"describe_packet_handler,omitempty"`
}

func (c llmnrCase) servers() int {
	if c.Servers < 1 {
		return 1
	}
	return c.Servers
}

func llName(i int) string { return fmt.Sprintf("host-%03d.test", i) }

func checkLLMNRServer(c llmnrCase) []vf.Finding {
	warmUp("llmnr-server")
	base := libGoroutines()
	fs := runLLMNRServer(c)
	if left := leaked(base, func() { runLLMNRServer(c) }); left != nil {
		fs = append(fs, vf.F("llmnr.Server", "goroutines-leaked-after-close", "%v", left))
	}
	return fs
}

// runLLMNRServer is the case without the goroutine accounting around it.
func runLLMNRServer(c llmnrCase) []vf.Finding {
	handler := llmnr.HandlerFunc(func(s *llmnr.Server, remote net.Addr, w llmnr.ResponseWriter, m *llmnr.Message) bool {
		if s.Debug {
			logger.Debug(fmt.Sprintf("answering %s", remote))
		}
		r := llmnr.CreateResponseFromMessage(m)
		for _, q := range m.Questions {
			var idx int
			fmt.Sscanf(q.Name, "host-%03d.test", &idx)
			r.AddAnswerClassINTypeA(q.Name, ipN(idx).String())
		}
		w.WriteMessage(r)
		return true
	})
	type instance struct {
		srv    *llmnr.Server
		to     *net.UDPAddr
		served chan error
	}
	var insts []*instance
	for k := 0; k < c.servers(); k++ {
		chain := []llmnr.Handler{handler}
		if c.Describe {
			chain = append(chain, llmnr.HandlerFunc(llmnr.HandlerDescribePacket))
		}
		srv, err := llmnr.NewServer("udp4", chain)
		if err != nil {
			return []vf.Finding{vf.F("harness", "cannot-create-llmnr-server", "%v", err)}
		}
		conn, err := net.ListenUDP("udp4", &net.UDPAddr{IP: net.IPv4(127, 0, 0, 1)})
		if err != nil {
			return []vf.Finding{vf.F("harness", "cannot-listen", "%v", err)}
		}
		srv.Conn = conn
		srv.Address = conn.LocalAddr().(*net.UDPAddr)
		if c.Debug {
			srv.SetDebug(true)
		}
		in := &instance{srv: srv, to: conn.LocalAddr().(*net.UDPAddr), served: make(chan error, 1)}
		insts = append(insts, in)
		go func() { in.served <- in.srv.Serve() }()
	}
	var fs []vf.Finding
	var mu sync.Mutex
	var wg sync.WaitGroup
	start := make(chan struct{})
	// every client socket is bound here, while the servers' sockets are open: a client bound after an early Close
	// could be given the port a server has just released, send its query to itself and take it for the answer
	socks := make([]*net.UDPConn, c.N)
	for i := range socks {
		sock, err := net.ListenUDP("udp4", &net.UDPAddr{IP: net.IPv4(127, 0, 0, 1)})
		if err != nil {
			for _, s := range socks[:i] {
				s.Close()
			}
			for _, in := range insts {
				in.srv.Close()
			}
			return []vf.Finding{vf.F("harness", "cannot-listen", "%v", err)}
		}
		socks[i] = sock
	}
	for i := 0; i < c.N; i++ {
		wg.Add(1)
		go func(i int) {
			defer wg.Done()
			to := insts[i%len(insts)].to
			sock := socks[i]
			defer sock.Close()
			q := llmnr.NewMessage()
			q.ID = uint16(0x3000 + i)
			q.AddQuestion(llName(i), llmnr.TypeA, llmnr.ClassIN)
			wire, _ := q.Encode()
			<-start
			if len(c.Stagger) > 0 {
				time.Sleep(time.Duration(c.Stagger[i%len(c.Stagger)]) * time.Microsecond)
			}
			var m *llmnr.Message
			for try := 0; try < 3 && m == nil; try++ {
				sock.WriteToUDP(wire, to)
				sock.SetReadDeadline(time.Now().Add(500 * time.Millisecond))
				for m == nil {
					buf := make([]byte, 1024)
					n, from, err := sock.ReadFromUDP(buf)
					if err != nil {
						break
					}
					fromServer := false
					for _, in := range insts {
						fromServer = fromServer || from.Port == in.to.Port && from.IP.Equal(in.to.IP)
					}
					if !fromServer {
						continue // not from a server of this case (a stray datagram to a reused port)
					}
					m, _ = llmnr.DecodeMessage(buf[:n])
					break
				}
			}
			mu.Lock()
			defer mu.Unlock()
			if m == nil {
				if c.CloseAt < 0 {
					fs = append(fs, vf.F("llmnr.Server", "request-never-answered", "client %d", i))
				}
				return
			}
			if m.ID != uint16(0x3000+i) || !m.IsResponse() {
				fs = append(fs, vf.F("llmnr.Server", "response-with-foreign-transaction-id", "client %d got id %#x", i, m.ID))
				return
			}
			if len(m.Answers) != 1 || m.Answers[0].Name != llName(i) || !bytes.Equal(m.Answers[0].RData, ipN(i)) {
				fs = append(fs, vf.F("llmnr.Server", "response-does-not-answer-its-own-request", "client %d (%s): answers %+v", i, llName(i), m.Answers))
			}
		}(i)
	}
	close(start)
	if c.CloseAt >= 0 {
		time.Sleep(time.Duration(c.CloseAt*50) * time.Microsecond)
	} else {
		wg.Wait()
	}
	for _, in := range insts {
		ok, took := within(stopBudget, func() { in.srv.Close() })
		if !ok {
			fs = append(fs, vf.F("llmnr.Server.Close", "close-does-not-return", "after %v", took))
		}
	}
	for _, in := range insts {
		select {
		case <-in.served:
		case <-time.After(stopBudget):
			fs = append(fs, vf.F("llmnr.Server.Serve", "serve-loop-does-not-exit-after-close", "still running %v after Close", stopBudget))
		}
	}
	wg.Wait()
	return fs
}

func TestLLMNRServerIsolation(t *testing.T) {
	s := vf.Begin(t, P, "llmnr-server-isolation")
	vf.Rapid(s, vf.N(40, 500), func(t *rapid.T) llmnrCase {
		c := llmnrCase{N: rapid.IntRange(2, 24).Draw(t, "clients"), CloseAt: -1, Stagger: rapid.SliceOfN(rapid.IntRange(0, 300), 1, 4).Draw(t, "stagger")}
		if rapid.IntRange(0, 3).Draw(t, "closeEarly") == 0 {
			c.CloseAt = rapid.IntRange(0, 20).Draw(t, "closeAt")
		}
		// half of the cases with debug logging switched on, most of those with two servers in the process
		if c.Debug = rapid.Bool().Draw(t, "debug"); c.Debug {
			c.Servers = rapid.SampledFrom([]int{1, 2, 2, 2}).Draw(t, "servers")
		} else {
			c.Servers = rapid.SampledFrom([]int{1, 1, 1, 2}).Draw(t, "servers")
		}
		c.Describe = rapid.IntRange(0, 2).Draw(t, "describe") == 0
		return c
	}, func(c llmnrCase) []vf.Finding {
		if c.Describe {
			s.Class("describe-packet-handler-in-chain")
		}
		if c.Debug {
			s.Class("debug-logging")
		}
		if c.servers() > 1 {
			s.Class("two-servers")
		}
		return checkLLMNRServer(c)
	}, func(c llmnrCase) bool { return c.N >= 2 })
}

// ---- LLMNR client: each response goes to the query with the matching id ---------------------------------------
//
// Both client sub-checks drive the client through Client.Query only; nothing is written into the client's
// fields. Query registers its id in Client.Queries, sends the query to the LLMNR multicast group and waits. The
// harness learns the ids of the outstanding queries from the keys of that map (whatever integer type they are
// stored as, whatever the values are) and answers from a loopback socket. Call k asks for qName(k), so the
// harness knows every question that can be outstanding without knowing which id goes with which question where
// the calls start concurrently: a response "for an id" is sent as one datagram per candidate name, each
// repeating that name as its question and answering it with an address made from the id. A client that hands
// over the first response with the matching id returns one of them, a client that also verifies the question
// returns the one that repeats its own.

func qName(k int) string { return fmt.Sprintf("query-%02d.test", k) }

func isCandidate(name string, k int) bool {
	name = strings.TrimSuffix(name, ".")
	for i := 0; i < k; i++ {
		if strings.EqualFold(name, qName(i)) {
			return true
		}
	}
	return false
}

// respondAll writes, for the given id, one response per candidate question qName(0..k-1), starting with candidate
// first (mod k). A client may keep one response per query at a time and drop what arrives while that one has not
// been looked at: a response sent behind another one for the same id may be lost on it, the first one of a round
// is not. Whoever repeats rounds rotates first, so that every candidate comes first in turn.
func respondAll(peer *net.UDPConn, id uint16, k int, first int) {
	for j := 0; j < k; j++ {
		i := (first + j) % k
		m := llmnr.NewMessage()
		m.ID = id
		m.SetResponse()
		m.AddQuestion(qName(i), llmnr.TypeA, llmnr.ClassIN)
		m.AddAnswerClassINTypeA(qName(i), ipN(int(id)).String())
		if wire, err := m.Encode(); err == nil {
			peer.Write(wire)
		}
	}
}

// answerFor: m is a response made by respondAll for the given id.
func answerFor(m *llmnr.Message, id uint16, k int) bool {
	if m.ID != id || !m.IsResponse() || len(m.Answers) != 1 || !isCandidate(m.Answers[0].Name, k) || !bytes.Equal(net.IP(m.Answers[0].RData).To4(), ipN(int(id))) {
		return false
	}
	for _, q := range m.Questions {
		if !isCandidate(q.Name, k) {
			return false
		}
	}
	return true
}

func keyID(k any) (uint16, bool) {
	v := reflect.ValueOf(k)
	switch {
	case v.CanUint():
		return uint16(v.Uint()), true
	case v.CanInt():
		return uint16(v.Int()), true
	}
	return 0, false
}

// outstanding returns the ids of the queries the client is waiting for.
func outstanding(cl *llmnr.Client) map[uint16]bool {
	pending := map[uint16]bool{}
	cl.Queries.Range(func(k, _ any) bool {
		if id, ok := keyID(k); ok {
			pending[id] = true
		}
		return true
	})
	return pending
}

// sendStep is one step of the peer's script: a response for the id of call Call (repeated steps for one call:
// duplicates), or (Call < 0) a response with an id nobody waits for.
type sendStep struct {
	Call    int    `json:"call"`
	Foreign uint16 `json:"foreign_id,omitempty"`
}

type clientCase struct {
	K    int        `json:"outstanding_queries"` // started one after the other, all outstanding while the script runs
	Sent []sendStep `json:"sent"`                // in order
}

var matchConclusive bool

func checkLLMNRClient(c clientCase) []vf.Finding {
	warmUp("llmnr-client")
	base := libGoroutines()
	fs := runLLMNRClient(c)
	conclusive := matchConclusive
	if left := leaked(base, func() { runLLMNRClient(c) }); left != nil {
		fs = append(fs, vf.F("llmnr.Client", "goroutines-leaked-after-close", "%v", left))
	}
	matchConclusive = conclusive // of the case itself, not of its repetition
	return fs
}

// runLLMNRClient is the case without the goroutine accounting around it. The Query calls are started one after
// the other, each once the id of the one before has appeared among the outstanding ids: the harness then knows
// which id belongs to which call. Nothing is answered before all of them are outstanding. Then the peer sends
// a query-type datagram under the id of call 0 and garbage (both must be ignored), and the script: responses
// for outstanding ids (some several times, some never) and for foreign ids. A call a response was sent for must
// return the response made for its own id; a call none was sent for must not return a message.
func runLLMNRClient(c clientCase) []vf.Finding {
	matchConclusive = false
	cl, err := llmnr.NewClient()
	if err != nil {
		return []vf.Finding{vf.F("harness", "cannot-create-llmnr-client", "%v", err)}
	}
	port := cl.Conn.LocalAddr().(*net.UDPAddr).Port
	peer, err := net.DialUDP("udp4", nil, &net.UDPAddr{IP: net.IPv4(127, 0, 0, 1), Port: port})
	if err != nil {
		cl.Close()
		return []vf.Finding{vf.F("harness", "cannot-dial", "%v", err)}
	}
	type outcome struct {
		m   *llmnr.Message
		err error
	}
	outs := make([]outcome, c.K)
	ids := make([]uint16, c.K)
	done := make([]chan struct{}, c.K)
	cancels := make([]context.CancelFunc, c.K)
	known := map[uint16]bool{}
	conclusive := true
	started := 0
	for k := 0; k < c.K && conclusive; k++ {
		ctx, cancel := context.WithTimeout(context.Background(), 10*time.Second)
		cancels[k], done[k] = cancel, make(chan struct{})
		started++
		go func(k int) {
			defer close(done[k])
			m, err := cl.Query(ctx, qName(k), llmnr.TypeA)
			outs[k] = outcome{m, err}
		}(k)
		// the id of call k: the one that is outstanding now and was not before. None appears where the call
		// fails at once (no multicast route on this host) or draws an id that is outstanding already.
		found := false
		for t0 := time.Now(); !found && time.Since(t0) < time.Second; {
			for id := range outstanding(cl) {
				if !known[id] {
					known[id], ids[k], found = true, id, true
				}
			}
			if !found {
				select {
				case <-done[k]:
					t0 = time.Time{}
				case <-time.After(200 * time.Microsecond):
				}
			}
		}
		conclusive = found
	}
	finish := func(fs []vf.Finding) []vf.Finding {
		for k := 0; k < started; k++ {
			cancels[k]()
			<-done[k]
		}
		peer.Close()
		ok, took := within(stopBudget, func() { cl.Close() })
		if !ok {
			fs = append(fs, vf.F("llmnr.Client.Close", "close-does-not-return", "after %v", took))
		}
		return fs
	}
	if !conclusive {
		return finish(nil)
	}
	matchConclusive = true
	// a query-type datagram under an outstanding id, and garbage, must be ignored
	q := llmnr.NewMessage()
	q.ID = ids[0]
	q.SetQuery()
	q.AddQuestion("noise.test", llmnr.TypeA, llmnr.ClassIN)
	if wire, err := q.Encode(); err == nil {
		peer.Write(wire)
	}
	peer.Write([]byte{1, 2, 3})
	expect := make([]bool, c.K)
	var sentIDs []uint16
	for _, st := range c.Sent {
		id := st.Foreign
		if st.Call >= 0 {
			id = ids[st.Call%c.K]
			expect[st.Call%c.K] = true
		} else if known[id] {
			continue
		}
		sentIDs = append(sentIDs, id)
		respondAll(peer, id, c.K, len(sentIDs))
	}
	var fs []vf.Finding
	for k := 0; k < c.K; k++ {
		if !expect[k] {
			continue
		}
		// The call returns with the response, or with the client's own timeout. While it has not, the responses
		// for its id are sent again every 2 ms, each candidate question first in turn (see respondAll): more
		// duplicates, for this id only.
		limit := time.After(5 * time.Second)
		for round, waiting := 0, true; waiting; round++ {
			select {
			case <-done[k]:
				waiting = false
			case <-limit:
				cancels[k]()
				<-done[k]
				waiting = false
			case <-time.After(2 * time.Millisecond):
				respondAll(peer, ids[k], c.K, round)
			}
		}
		switch o := outs[k]; {
		case o.err != nil || o.m == nil:
			fs = append(fs, vf.F("llmnr.Client", "matching-response-not-delivered", "query %d (id %#x) returned %v; ids of the responses sent, in order: %#x; outstanding ids by call: %#x", k, ids[k], o.err, sentIDs, ids))
		case !answerFor(o.m, ids[k], c.K):
			fs = append(fs, vf.F("llmnr.Client", "response-delivered-to-wrong-query", "query %d (id %#x) received id %#x response %v questions %+v answers %+v", k, ids[k], o.m.ID, o.m.IsResponse(), o.m.Questions, o.m.Answers))
		}
	}
	time.Sleep(20 * time.Millisecond)
	for k := 0; k < c.K; k++ {
		if expect[k] {
			continue
		}
		cancels[k]()
		<-done[k]
		if o := outs[k]; o.err == nil && o.m != nil {
			fs = append(fs, vf.F("llmnr.Client", "response-delivered-to-wrong-query", "query %d (id %#x, no response sent for it) received id %#x response %v answers %+v", k, ids[k], o.m.ID, o.m.IsResponse(), o.m.Answers))
		}
	}
	return finish(fs)
}

// skipWithoutMulticast: Client.Query sends to the LLMNR multicast group; where the host has no multicast route
// every call fails before anything can be judged. That is a property of the machine, not of the library and not
// of the generator: the sub-check reports itself as skipped instead of as a dead generator.
func skipWithoutMulticast(t *testing.T, conclusive int) {
	if conclusive == 0 && !t.Failed() {
		t.Skip("no LLMNR multicast route on this host: Client.Query could not be exercised")
	}
}

const inconclusiveClass = "inconclusive (no multicast route, or two queries drew the same id)"

func TestLLMNRClientMatch(t *testing.T) {
	s := vf.Begin(t, P, "llmnr-client-match")
	conclusive := 0
	vf.Rapid(s, vf.N(60, 800), func(t *rapid.T) clientCase {
		c := clientCase{K: rapid.IntRange(1, 12).Draw(t, "queries")}
		for i, n := 0, rapid.IntRange(1, 20).Draw(t, "nsent"); i < n; i++ {
			if rapid.IntRange(0, 3).Draw(t, "foreign") == 0 {
				c.Sent = append(c.Sent, sendStep{Call: -1, Foreign: rapid.Uint16().Draw(t, "foreignId")})
			} else {
				c.Sent = append(c.Sent, sendStep{Call: rapid.IntRange(0, c.K-1).Draw(t, "pick")})
			}
		}
		return c
	}, func(c clientCase) []vf.Finding {
		fs := checkLLMNRClient(c)
		if os.Getenv("VERIF_FORCE_NO_MULTICAST") != "" { // self-test of the skip path below
			matchConclusive, fs = false, nil
		}
		if !matchConclusive {
			s.Class(inconclusiveClass)
		} else {
			conclusive++
		}
		return fs
	}, func(c clientCase) bool { return matchConclusive && c.K >= 2 && len(c.Sent) >= 2 })
	skipWithoutMulticast(t, conclusive)
}

// ---- LLMNR client: concurrent Query calls ---------------------------------------------------------------------------
//
// The calls start at the same time; the responder answers each outstanding id (see above: once per candidate
// question), again and again until every Query has returned. Every Query must return a response, carrying an id
// that was outstanding and the answer made for that id, and no two queries the same one.

type queryCase struct {
	K       int      `json:"concurrent_queries"`
	Foreign []uint16 `json:"foreign_ids"` // responses nobody waits for, sent along (skipped while outstanding)
}

var queryConclusive bool

func checkLLMNRQuery(c queryCase) []vf.Finding {
	warmUp("llmnr-client")
	base := libGoroutines()
	fs := runLLMNRQuery(c)
	conclusive := queryConclusive
	if left := leaked(base, func() { runLLMNRQuery(c) }); left != nil {
		fs = append(fs, vf.F("llmnr.Client", "goroutines-leaked-after-close", "%v", left))
	}
	queryConclusive = conclusive // of the case itself, not of its repetition
	return fs
}

// runLLMNRQuery is the case without the goroutine accounting around it.
func runLLMNRQuery(c queryCase) []vf.Finding {
	queryConclusive = false
	cl, err := llmnr.NewClient()
	if err != nil {
		return []vf.Finding{vf.F("harness", "cannot-create-llmnr-client", "%v", err)}
	}
	port := cl.Conn.LocalAddr().(*net.UDPAddr).Port
	peer, err := net.DialUDP("udp4", nil, &net.UDPAddr{IP: net.IPv4(127, 0, 0, 1), Port: port})
	if err != nil {
		cl.Close()
		return []vf.Finding{vf.F("harness", "cannot-dial", "%v", err)}
	}
	type outcome struct {
		m   *llmnr.Message
		err error
	}
	outs := make([]outcome, c.K)
	var wg sync.WaitGroup
	for k := 0; k < c.K; k++ {
		wg.Add(1)
		go func(k int) {
			defer wg.Done()
			ctx, cancel := context.WithTimeout(context.Background(), 10*time.Second)
			defer cancel()
			m, err := cl.Query(ctx, qName(k), llmnr.TypeA)
			outs[k] = outcome{m, err}
		}(k)
	}
	allDone := make(chan struct{})
	go func() { wg.Wait(); close(allDone) }()
	seen := map[uint16]int{} // id -> number of rounds of responses sent for it
	for done := false; !done; {
		pending := outstanding(cl)
		for _, id := range c.Foreign {
			if !pending[id] && seen[id] == 0 {
				respondAll(peer, id, c.K, 0)
			}
		}
		for id := range pending {
			respondAll(peer, id, c.K, seen[id])
			seen[id]++
		}
		select {
		case <-allDone:
			done = true
		case <-time.After(2 * time.Millisecond):
		}
	}
	peer.Close()
	var fs []vf.Finding
	conclusive := len(seen) >= c.K // fewer: two queries drew the same random id
	for _, o := range outs {
		if o.err != nil && strings.Contains(o.err.Error(), "failed to send query") {
			conclusive = false // no multicast route in this sandbox
		}
	}
	if conclusive {
		queryConclusive = true
		byID := map[uint16]int{}
		for k, o := range outs {
			if o.err != nil || o.m == nil {
				fs = append(fs, vf.F("llmnr.Client.Query", "matching-response-not-delivered", "query %d returned %v although every outstanding id was answered repeatedly, once per question asked (ids and number of rounds of responses sent: %v)", k, o.err, seen))
				continue
			}
			if seen[o.m.ID] == 0 || !answerFor(o.m, o.m.ID, c.K) {
				fs = append(fs, vf.F("llmnr.Client.Query", "response-delivered-to-wrong-query", "query %d returned id %#x questions %+v answers %+v; outstanding ids were %v", k, o.m.ID, o.m.Questions, o.m.Answers, seen))
				continue
			}
			if k2, dup := byID[o.m.ID]; dup {
				fs = append(fs, vf.F("llmnr.Client.Query", "response-delivered-to-wrong-query", "queries %d and %d both returned the response with id %#x", k2, k, o.m.ID))
			}
			byID[o.m.ID] = k
		}
	}
	ok, took := within(stopBudget, func() { cl.Close() })
	if !ok {
		fs = append(fs, vf.F("llmnr.Client.Close", "close-does-not-return", "after %v", took))
	}
	return fs
}

func TestLLMNRClientQuery(t *testing.T) {
	s := vf.Begin(t, P, "llmnr-client-query")
	conclusive := 0
	vf.Rapid(s, vf.N(40, 500), func(t *rapid.T) queryCase {
		return queryCase{K: rapid.IntRange(1, 6).Draw(t, "queries"), Foreign: rapid.SliceOfN(rapid.Uint16(), 0, 4).Draw(t, "foreign")}
	}, func(c queryCase) []vf.Finding {
		fs := checkLLMNRQuery(c)
		if os.Getenv("VERIF_FORCE_NO_MULTICAST") != "" { // self-test of the skip path below
			queryConclusive, fs = false, nil
		}
		if !queryConclusive {
			s.Class(inconclusiveClass)
		} else {
			conclusive++
		}
		return fs
	}, func(c queryCase) bool { return queryConclusive })
	skipWithoutMulticast(t, conclusive)
}

// ---- stopping twice, stopping what was never started ----------------------------------------------------------------

type twiceCase struct {
	Target string `json:"target"` // server, udp, tcp, llmnr-client, llmnr-server
	Mode   string `json:"mode"`   // unstarted, twice, twice-concurrent, restart
}

// guarded runs fn under the stop budget and turns a panic of fn into a message.
func guarded(fn func()) (returned bool, panicked string) {
	var p atomic.Value
	ok, _ := within(stopBudget, func() {
		defer func() {
			if r := recover(); r != nil {
				p.Store(fmt.Sprint(r))
			}
		}()
		fn()
	})
	if v := p.Load(); v != nil {
		return ok, v.(string)
	}
	return ok, ""
}

func checkTwice(c twiceCase) []vf.Finding {
	warmUp(c.Target)
	base := libGoroutines()
	fs := runTwice(c)
	if len(fs) == 0 {
		if left := leaked(base, func() { runTwice(c) }); left != nil {
			subject := c.Target + ".Stop"
			if strings.HasPrefix(c.Target, "llmnr-") {
				subject = map[string]string{"llmnr-client": "llmnr.Client.Close", "llmnr-server": "llmnr.Server.Close"}[c.Target]
			}
			fs = append(fs, vf.F(subject, "goroutines-leaked-after-stop", "%s: %v", c.Mode, left))
		}
	}
	return fs
}

// runTwice is the case without the goroutine accounting around it.
func runTwice(c twiceCase) []vf.Finding {
	var stop func()
	var start func() error
	subject := c.Target + ".Stop"
	switch c.Target {
	case "llmnr-client":
		subject = "llmnr.Client.Close"
		cl, err := llmnr.NewClient()
		if err != nil {
			return []vf.Finding{vf.F("harness", "cannot-create-llmnr-client", "%v", err)}
		}
		stop = func() { cl.Close() }
	case "llmnr-server":
		subject = "llmnr.Server.Close"
		srv, err := llmnr.NewServer("udp4", nil)
		if err != nil {
			return []vf.Finding{vf.F("harness", "cannot-create-llmnr-server", "%v", err)}
		}
		if c.Mode != "unstarted" {
			conn, err := net.ListenUDP("udp4", &net.UDPAddr{IP: net.IPv4(127, 0, 0, 1)})
			if err != nil {
				return []vf.Finding{vf.F("harness", "cannot-listen", "%v", err)}
			}
			srv.Conn = conn
			srv.Address = conn.LocalAddr().(*net.UDPAddr)
			go srv.Serve()
		}
		stop = func() { srv.Close() }
	default:
		var srv server
		var err error
		if c.Mode == "unstarted" {
			srv, err = newServer(c.Target, "127.0.0.1:0")
		} else {
			var r *running
			if r, err = startServer(c.Target); err == nil {
				srv = r.srv
			}
		}
		if err != nil {
			return []vf.Finding{vf.F("harness", "cannot-start-server", "%v", err)}
		}
		stop = srv.Stop
		start = srv.Start
	}
	var fs []vf.Finding
	report := func(call string, returned bool, panicked string) {
		switch {
		case panicked != "":
			fs = append(fs, vf.F(subject, call+"-panics", "%s (%s): %s", call, c.Mode, panicked))
		case !returned:
			fs = append(fs, vf.F(subject, call+"-does-not-return", "%s (%s): still blocked after %v", call, c.Mode, stopBudget))
		}
	}
	switch c.Mode {
	case "unstarted":
		r, p := guarded(stop)
		report("stop-before-start", r, p)
	case "twice":
		r, p := guarded(stop)
		report("stop", r, p)
		if len(fs) == 0 {
			r, p = guarded(stop)
			report("second-stop", r, p)
		}
	case "restart":
		// Start, Stop, Start, Stop on one object. Whether a stopped server can be started again is its own
		// business (Start may return an error, or start something that serves nothing); what is asked is what
		// the property says about stopping: the Stop after it returns, and nothing is left running
		r, p := guarded(stop)
		report("stop", r, p)
		if len(fs) == 0 && start != nil {
			var startErr error
			r, p = guarded(func() { startErr = start() })
			report("start-after-stop", r, p)
			_ = startErr
			if len(fs) == 0 {
				r, p = guarded(stop)
				report("stop-after-restart", r, p)
			}
		}
	default:
		var wg sync.WaitGroup
		var mu sync.Mutex
		for k := 0; k < 2; k++ {
			wg.Add(1)
			go func() {
				defer wg.Done()
				r, p := guarded(stop)
				mu.Lock()
				report("second-stop", r, p)
				mu.Unlock()
			}()
		}
		wg.Wait()
		if len(fs) > 1 {
			fs = fs[:1]
		}
	}
	return fs
}

func TestStopTwiceOrUnstarted(t *testing.T) {
	s := vf.Begin(t, P, "stop-twice-or-unstarted")
	s.SetExhaustive()
	vf.Enum(s, func(yield func(twiceCase)) {
		for _, target := range []string{"server", "udp", "tcp", "llmnr-client", "llmnr-server"} {
			for _, mode := range []string{"unstarted", "twice", "twice-concurrent", "restart"} {
				if target == "llmnr-client" && mode == "unstarted" {
					continue // NewClient starts the read loop
				}
				if strings.HasPrefix(target, "llmnr-") && mode == "restart" {
					continue // no Start method: a closed LLMNR server or client is not started again
				}
				yield(twiceCase{target, mode})
			}
		}
	}, checkTwice, nil)
}

// ---- stopping at any moment ----------------------------------------------------------------------------------

type stopCase struct {
	Kind    string `json:"server_kind"`
	Clients int    `json:"clients_in_flight"`
	DelayUS int    `json:"stop_delay_us"` // relative to the start of the burst; negative: stop before the burst
	IdleTCP int    `json:"idle_tcp_connections"`
	NoStart bool   `json:"stop_without_start"`
}

func runStop(c stopCase) (finding *vf.Finding, overrun bool) {
	warmUp(c.Kind)
	base := libGoroutines()
	if f, o := runStopOnce(c); f != nil {
		return f, o
	}
	if left := leaked(base, func() { runStopOnce(c) }); left != nil {
		var f vf.Finding
		if c.NoStart {
			f = vf.F(c.Kind, "goroutines-leaked-after-stop", "%v", left)
		} else {
			f = vf.F(c.Kind, "goroutines-leaked-after-stop", "%v (clients %d, delay %dus, idle tcp %d)", left, c.Clients, c.DelayUS, c.IdleTCP)
		}
		return &f, false
	}
	return nil, false
}

// runStopOnce is the case without the goroutine accounting around it.
func runStopOnce(c stopCase) (finding *vf.Finding, overrun bool) {
	if c.NoStart {
		// Stop on a server that was created but never started must return too
		srv, err := startServer(c.Kind)
		if err != nil {
			f := vf.F("harness", "cannot-start-server", "%v", err)
			return &f, false
		}
		ok, took := within(stopBudget, func() { srv.srv.Stop() })
		if !ok {
			f := vf.F(c.Kind+".Stop", "stop-does-not-return", "immediately after Start: %v", took)
			return &f, true
		}
		return nil, false
	}
	srv, err := startServer(c.Kind)
	if err != nil {
		f := vf.F("harness", "cannot-start-server", "%v", err)
		return &f, false
	}
	var idle []*client
	for i := 0; i < c.IdleTCP && c.Kind == "tcp"; i++ {
		if cl, err := dial(srv); err == nil {
			idle = append(idle, cl)
		}
	}
	var wg sync.WaitGroup
	fire := make(chan struct{})
	for i := 0; i < c.Clients; i++ {
		wg.Add(1)
		go func(i int) {
			defer wg.Done()
			cl, err := dial(srv)
			if err != nil {
				return
			}
			defer cl.close()
			<-fire
			for j := 0; j < 3; j++ {
				cl.send(req{ID: uint16(0x6000 + i*8 + j), Opcode: 0, QName: burstName(i, j)}.bytes(), nil)
			}
			cl.recv(100 * time.Millisecond)
		}(i)
	}
	if c.DelayUS >= 0 {
		close(fire)
		time.Sleep(time.Duration(c.DelayUS) * time.Microsecond)
	}
	ok, took := within(stopBudget, func() { srv.srv.Stop() })
	if c.DelayUS < 0 {
		close(fire)
	}
	wg.Wait()
	for _, cl := range idle {
		cl.close()
	}
	if !ok {
		f := vf.F(c.Kind+".Stop", "stop-does-not-return", "Stop still blocked after %v (clients %d, delay %dus, idle tcp %d)", took, c.Clients, c.DelayUS, c.IdleTCP)
		return &f, true
	}
	return nil, false
}

func checkStop(c stopCase) []vf.Finding {
	f, overrun := runStop(c)
	if f == nil {
		return nil
	}
	if overrun {
		// a time budget is a weak signal: it only counts when it reproduces three times
		for i := 0; i < 2; i++ {
			time.Sleep(200 * time.Millisecond)
			if f2, o2 := runStop(c); f2 == nil || !o2 {
				return nil
			}
		}
	}
	return []vf.Finding{*f}
}

func TestStopPrompt(t *testing.T) {
	s := vf.Begin(t, P, "stop-prompt-and-leaks")
	vf.Rapid(s, vf.N(45, 600), func(t *rapid.T) stopCase {
		c := stopCase{Kind: rapid.SampledFrom(kinds).Draw(t, "kind"), Clients: rapid.IntRange(0, 8).Draw(t, "clients")}
		switch rapid.IntRange(0, 5).Draw(t, "when") {
		case 0:
			c.NoStart = true
		case 1:
			c.DelayUS = -1
		case 2:
			c.DelayUS = 0
		default:
			c.DelayUS = rapid.IntRange(1, 3000).Draw(t, "delay")
		}
		if c.Kind == "tcp" {
			c.IdleTCP = rapid.IntRange(0, 3).Draw(t, "idle")
		}
		return c
	}, checkStop, func(c stopCase) bool { return c.Clients > 0 && !c.NoStart })
}
