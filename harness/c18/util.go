// Package c18: name-service servers/clients isolate concurrent requests and stop cleanly.
package c18

import (
	"bytes"
	"encoding/binary"
	"fmt"
	"io"
	"net"
	"runtime"
	"strings"
	"time"

	"github.com/TheManticoreProject/Manticore/network/netbios/nbtns"

	"manticoreverif/ref/dns"
	refnbns "manticoreverif/ref/nbns"
)

// ---- NBNS requests built by the reference encoder -------------------------------------------------

func nbName(name string) dns.Name {
	enc, err := refnbns.FirstLevel([]byte(name))
	if err != nil {
		panic(err)
	}
	return dns.Name{[]byte(enc)}
}

func encName(name string) []byte {
	enc, _ := refnbns.FirstLevel([]byte(name))
	return []byte(enc)
}

type req struct {
	ID     uint16
	Opcode int
	Bcast  bool
	NM     uint16   // further NM_FLAGS bits of the flags word (AA 0x400, TC 0x200, RD 0x100, RA 0x080, reserved 0x040 0x020)
	Resp   bool     // response bit set
	QName  string   // question name ("" = no question)
	QNames []string // several questions (after QName)
	RRName string   // resource record name ("" = none)
	RRIP   net.IP
	InAddl bool // resource record in the additional section instead of the answer section
}

func (r req) bytes() []byte {
	flags := uint16(r.Opcode&0xF) << 11
	if r.Bcast {
		flags |= 0x0010
	}
	if r.Resp {
		flags |= 0x8000
	}
	flags |= r.NM & 0x07F0
	m := &dns.Message{ID: r.ID, Flags: flags}
	if r.QName != "" {
		m.Questions = []dns.Question{{Name: nbName(r.QName), Type: 0x20, Class: 1}}
	}
	for _, q := range r.QNames {
		m.Questions = append(m.Questions, dns.Question{Name: nbName(q), Type: 0x20, Class: 1})
	}
	if r.RRName != "" {
		rr := dns.RR{Name: nbName(r.RRName), Type: 0x20, Class: 1, TTL: 3600, RData: []byte(r.RRIP.To4())}
		if r.InAddl {
			m.Additional = []dns.RR{rr}
		} else {
			m.Answers = []dns.RR{rr}
		}
	}
	b, _ := dns.Encode(m, nil)
	return b
}

// resp is a raw view of a reply: the servers announce a question count without
// emitting the questions, so a strict parser cannot be used; attribution works
// on the bytes.
type resp struct {
	Raw     []byte
	ID      uint16
	Flags   uint16
	Rcode   int
	Answers int
}

func parseResp(b []byte) (resp, bool) {
	if len(b) < 12 {
		return resp{Raw: b}, false
	}
	f := binary.BigEndian.Uint16(b[2:])
	return resp{Raw: b, ID: binary.BigEndian.Uint16(b), Flags: f, Rcode: int(f & 0xF), Answers: int(binary.BigEndian.Uint16(b[6:]))}, true
}

func (r resp) hasName(name string) bool { return bytes.Contains(r.Raw, encName(name)) }

// hasAddr: the 4 address bytes preceded by RDLENGTH 4 (so that random bytes in names/ids do not match)
func (r resp) hasAddr(ip net.IP) bool {
	return bytes.Contains(r.Raw, append([]byte{0, 4}, ip.To4()...))
}

// ---- servers ---------------------------------------------------------------------------------------

type server interface {
	Start() error
	Stop()
}

type running struct {
	kind  string
	srv   server
	addr  string
	table *nbtns.NetBIOSNameServer // nil for kind "server"
}

func freePort(network string) int {
	if network == "tcp" {
		l, err := net.Listen("tcp", "127.0.0.1:0")
		if err != nil {
			panic(err)
		}
		defer l.Close()
		return l.Addr().(*net.TCPAddr).Port
	}
	c, err := net.ListenUDP("udp", &net.UDPAddr{IP: net.IPv4(127, 0, 0, 1)})
	if err != nil {
		panic(err)
	}
	defer c.Close()
	return c.LocalAddr().(*net.UDPAddr).Port
}

// newServer creates (does not start) a server of the given kind; the table is nil for kind "server".
func newServer(kind, addr string) (server, error) {
	s, _, err := newServerT(kind, addr)
	return s, err
}

func newServerT(kind, addr string) (server, *nbtns.NetBIOSNameServer, error) {
	switch kind {
	case "server":
		s, err := nbtns.NewServer(addr, false)
		if err != nil {
			return nil, nil, err
		}
		return s, nil, nil
	case "udp":
		table := nbtns.NewNetBIOSNameServer(false)
		s, err := nbtns.NewUDPServer(addr, table)
		if err != nil {
			return nil, nil, err
		}
		return s, table, nil
	}
	table := nbtns.NewNetBIOSNameServer(false)
	s, err := nbtns.NewTCPServer(addr, table)
	if err != nil {
		return nil, nil, err
	}
	return s, table, nil
}

// startServer picks a free loopback port and starts a server of the given kind
// (retrying on the rare collision).
func startServer(kind string) (*running, error) {
	var lastErr error
	for attempt := 0; attempt < 5; attempt++ {
		r := &running{kind: kind}
		network := "udp"
		if kind == "tcp" {
			network = "tcp"
		}
		r.addr = fmt.Sprintf("127.0.0.1:%d", freePort(network))
		s, table, err := newServerT(kind, r.addr)
		if err != nil {
			return nil, err
		}
		r.srv, r.table = s, table
		if err := r.srv.Start(); err != nil {
			lastErr = err
			continue
		}
		return r, nil
	}
	return nil, lastErr
}

// client is one requester: its own UDP socket or TCP connection.
type client struct {
	kind string
	udp  *net.UDPConn
	tcp  net.Conn
	to   *net.UDPAddr
}

func dial(r *running) (*client, error) {
	if r.kind == "tcp" {
		c, err := net.DialTimeout("tcp", r.addr, 2*time.Second)
		if err != nil {
			return nil, err
		}
		return &client{kind: "tcp", tcp: c}, nil
	}
	to, _ := net.ResolveUDPAddr("udp", r.addr)
	c, err := net.ListenUDP("udp", &net.UDPAddr{IP: net.IPv4(127, 0, 0, 1)})
	if err != nil {
		return nil, err
	}
	return &client{kind: "udp", udp: c, to: to}, nil
}

func (c *client) close() {
	if c.udp != nil {
		c.udp.Close()
	}
	if c.tcp != nil {
		c.tcp.Close()
	}
}

// send writes one request; for TCP the 2-byte length prefix and the message are
// written in the given segments (nil = one write).
func (c *client) send(b []byte, cuts []int) error {
	if c.kind == "udp" {
		_, err := c.udp.WriteToUDP(b, c.to)
		return err
	}
	framed := append([]byte{byte(len(b) >> 8), byte(len(b))}, b...)
	prev := 0
	for _, cut := range cuts {
		cut = cut % (len(framed) + 1)
		if cut <= prev {
			continue
		}
		if _, err := c.tcp.Write(framed[prev:cut]); err != nil {
			return err
		}
		prev = cut
		runtime.Gosched()
	}
	_, err := c.tcp.Write(framed[prev:])
	return err
}

func (c *client) recv(timeout time.Duration) ([]byte, error) {
	if c.kind == "udp" {
		c.udp.SetReadDeadline(time.Now().Add(timeout))
		buf := make([]byte, 2048)
		n, _, err := c.udp.ReadFromUDP(buf)
		if err != nil {
			return nil, err
		}
		return buf[:n], nil
	}
	c.tcp.SetReadDeadline(time.Now().Add(timeout))
	var l [2]byte
	if _, err := io.ReadFull(c.tcp, l[:]); err != nil {
		return nil, err
	}
	b := make([]byte, int(l[0])<<8|int(l[1]))
	if _, err := io.ReadFull(c.tcp, b); err != nil {
		return nil, err
	}
	return b, nil
}

// exchange sends a request and waits for the reply, re-sending a lost UDP datagram twice.
func (c *client) exchange(r req, timeout time.Duration) (resp, bool) {
	tries := 1
	if c.kind == "udp" {
		tries = 3
	}
	for i := 0; i < tries; i++ {
		if err := c.send(r.bytes(), nil); err != nil {
			return resp{}, false
		}
		for {
			b, err := c.recv(timeout)
			if err != nil {
				break
			}
			if p, ok := parseResp(b); ok && p.ID == r.ID {
				return p, true
			}
		}
	}
	return resp{}, false
}

// ---- goroutine accounting ---------------------------------------------------------------------------------

// libGoroutines returns the entry functions of goroutines that run library code.
func libGoroutines() []string {
	buf := make([]byte, 1<<20)
	buf = buf[:runtime.Stack(buf, true)]
	var out []string
	for _, g := range strings.Split(string(buf), "\n\n") {
		if !strings.Contains(g, "TheManticoreProject/Manticore/network/") {
			continue
		}
		if strings.Contains(g, "manticoreverif/c18.libGoroutines") {
			continue // the caller itself, when called from a handler
		}
		lines := strings.Split(g, "\n")
		fn := ""
		for _, l := range lines {
			if strings.HasPrefix(l, "github.com/TheManticoreProject/Manticore/") {
				fn = strings.TrimPrefix(l, "github.com/TheManticoreProject/Manticore/")
				if i := strings.LastIndex(fn, "("); i > 0 {
					fn = fn[:i]
				}
			}
		}
		if fn != "" {
			out = append(out, fn)
		}
	}
	return out
}

// waitNoLibGoroutines polls until no goroutine runs library code (beyond the baseline count).
func waitNoLibGoroutines(baseline int, d time.Duration) []string {
	deadline := time.Now().Add(d)
	for {
		g := libGoroutines()
		if len(g) <= baseline || time.Now().After(deadline) {
			if len(g) <= baseline {
				return nil
			}
			return g
		}
		time.Sleep(5 * time.Millisecond)
	}
}

// within runs fn and reports whether it returned within d.
func within(d time.Duration, fn func()) (bool, time.Duration) {
	done := make(chan struct{})
	t0 := time.Now()
	go func() { defer close(done); fn() }()
	select {
	case <-done:
		return true, time.Since(t0)
	case <-time.After(d):
		return false, time.Since(t0)
	}
}
