// Package c18: name-service servers/clients isolate concurrent requests and stop cleanly.
package c18

import (
	"bytes"
	"encoding/binary"
	"fmt"
	"io"
	"net"
	"runtime"
	"sort"
	"strings"
	"sync"
	"time"

	"github.com/TheManticoreProject/Manticore/network/llmnr"
	"github.com/TheManticoreProject/Manticore/network/netbios/nbtns"

	"manticoreverif/ref/dns"
	refnbns "manticoreverif/ref/nbns"
)

// ---- NBNS requests built by the reference encoder -------------------------------------------------

// stopBudget bounds how long a Stop/Close may take (three orders of magnitude above the expected time).
const stopBudget = 3 * time.Second

func nbName(name string) dns.Name {
	enc, err := refnbns.FirstLevel([]byte(name))
	if err != nil {
		panic(err)
	}
	return dns.Name{[]byte(enc)}
}

func encName(name string) []byte {
	enc, _ := refnbns.FirstLevel([]byte(name))
	return []byte(enc)
}

type req struct {
	ID     uint16
	Opcode int
	Bcast  bool
	NM     uint16   // further NM_FLAGS bits of the flags word (AA 0x400, TC 0x200, RD 0x100, RA 0x080, reserved 0x040 0x020)
	Resp   bool     // response bit set
	QName  string   // question name ("" = no question)
	QNames []string // several questions (after QName)
	RRName string   // resource record name ("" = none)
	RRIP   net.IP
	InAddl bool // resource record in the additional section instead of the answer section
}

func (r req) bytes() []byte {
	flags := uint16(r.Opcode&0xF) << 11
	if r.Bcast {
		flags |= 0x0010
	}
	if r.Resp {
		flags |= 0x8000
	}
	flags |= r.NM & 0x07F0
	m := &dns.Message{ID: r.ID, Flags: flags}
	if r.QName != "" {
		m.Questions = []dns.Question{{Name: nbName(r.QName), Type: 0x20, Class: 1}}
	}
	for _, q := range r.QNames {
		m.Questions = append(m.Questions, dns.Question{Name: nbName(q), Type: 0x20, Class: 1})
	}
	if r.RRName != "" {
		rr := dns.RR{Name: nbName(r.RRName), Type: 0x20, Class: 1, TTL: 3600, RData: []byte(r.RRIP.To4())}
		if r.InAddl {
			m.Additional = []dns.RR{rr}
		} else {
			m.Answers = []dns.RR{rr}
		}
	}
	b, _ := dns.Encode(m, nil)
	return b
}

// resp is a raw view of a reply: the servers announce a question count without
// emitting the questions, so a strict parser cannot be used; attribution works
// on the bytes.
type resp struct {
	Raw     []byte
	ID      uint16
	Flags   uint16
	Rcode   int
	Answers int
}

func parseResp(b []byte) (resp, bool) {
	if len(b) < 12 {
		return resp{Raw: b}, false
	}
	f := binary.BigEndian.Uint16(b[2:])
	return resp{Raw: b, ID: binary.BigEndian.Uint16(b), Flags: f, Rcode: int(f & 0xF), Answers: int(binary.BigEndian.Uint16(b[6:]))}, true
}

func (r resp) hasName(name string) bool { return bytes.Contains(r.Raw, encName(name)) }

// opcode of the reply's flags word
func (r resp) opcode() int { return int(r.Flags>>11) & 0xF }

// hasAddr: the 4 address bytes as NB RDATA, in either layout (so that random bytes in names/ids do not
// match): preceded by RDLENGTH 4 (the bare address, the library's convention), or in an RDATA of
// RDLENGTH 6n made of n entries NB_FLAGS(2) + address(4) (RFC 1002 4.2.1.3).
func (r resp) hasAddr(ip net.IP) bool {
	a := ip.To4()
	if bytes.Contains(r.Raw, append([]byte{0, 4}, a...)) {
		return true
	}
	for i := 0; i+2 <= len(r.Raw); i++ {
		l := int(binary.BigEndian.Uint16(r.Raw[i:]))
		if l == 0 || l%6 != 0 || i+2+l > len(r.Raw) {
			continue
		}
		for e := i + 2; e < i+2+l; e += 6 {
			if bytes.Equal(r.Raw[e+2:e+6], a) {
				return true
			}
		}
	}
	return false
}

// ---- servers ---------------------------------------------------------------------------------------

type server interface {
	Start() error
	Stop()
}

type running struct {
	kind  string
	srv   server
	addr  string
	table *nbtns.NetBIOSNameServer // nil for kind "server"

	mu   sync.Mutex
	sent map[uint16]bool // every transaction id any client of this check has sent to this server
}

func (r *running) noteSent(id uint16) {
	r.mu.Lock()
	if r.sent == nil {
		r.sent = map[uint16]bool{}
	}
	r.sent[id] = true
	r.mu.Unlock()
}

func (r *running) wasSent(id uint16) bool {
	r.mu.Lock()
	defer r.mu.Unlock()
	return r.sent[id]
}

func freePort(network string) int {
	if network == "tcp" {
		l, err := net.Listen("tcp", "127.0.0.1:0")
		if err != nil {
			panic(err)
		}
		defer l.Close()
		return l.Addr().(*net.TCPAddr).Port
	}
	c, err := net.ListenUDP("udp", &net.UDPAddr{IP: net.IPv4(127, 0, 0, 1)})
	if err != nil {
		panic(err)
	}
	defer c.Close()
	return c.LocalAddr().(*net.UDPAddr).Port
}

// newServer creates (does not start) a server of the given kind; the table is nil for kind "server".
func newServer(kind, addr string) (server, error) {
	s, _, err := newServerT(kind, addr)
	return s, err
}

func newServerT(kind, addr string) (server, *nbtns.NetBIOSNameServer, error) {
	switch kind {
	case "server":
		s, err := nbtns.NewServer(addr, false)
		if err != nil {
			return nil, nil, err
		}
		return s, nil, nil
	case "udp":
		table := nbtns.NewNetBIOSNameServer(false)
		s, err := nbtns.NewUDPServer(addr, table)
		if err != nil {
			return nil, nil, err
		}
		return s, table, nil
	}
	table := nbtns.NewNetBIOSNameServer(false)
	s, err := nbtns.NewTCPServer(addr, table)
	if err != nil {
		return nil, nil, err
	}
	return s, table, nil
}

// startServer picks a free loopback port and starts a server of the given kind
// (retrying on the rare collision).
func startServer(kind string) (*running, error) {
	var lastErr error
	for attempt := 0; attempt < 5; attempt++ {
		r := &running{kind: kind}
		network := "udp"
		if kind == "tcp" {
			network = "tcp"
		}
		r.addr = fmt.Sprintf("127.0.0.1:%d", freePort(network))
		s, table, err := newServerT(kind, r.addr)
		if err != nil {
			return nil, err
		}
		r.srv, r.table = s, table
		if err := r.srv.Start(); err != nil {
			lastErr = err
			continue
		}
		return r, nil
	}
	return nil, lastErr
}

// client is one requester: its own UDP socket or TCP connection. It keeps what it has seen: the last
// reply per transaction id, and the ids of replies that came from the server although no client of
// the check ever sent a request with that id to it ("every response carries the transaction id of
// exactly one request": whatever the server sends back must carry the id of a request it was sent).
type client struct {
	kind   string
	udp    *net.UDPConn
	tcp    net.Conn
	to     *net.UDPAddr
	srv    *running
	seen   map[uint16]resp
	reqOp  map[uint16]int // opcode of the last request this client sent under an id
	unsent []uint16
	pause  time.Duration // between the segments of a TCP message (0: yield the processor only)
}

// isWack: the reply is a WACK (RFC 1002 4.2.16: opcode 7, the request's transaction id) to a request
// of this client that was not itself sent with opcode 7. A WACK asks the requester to wait; it may
// precede the response and is not the response.
func (c *client) isWack(p resp) bool {
	op, sent := c.reqOp[p.ID]
	return len(p.Raw) >= 12 && p.opcode() == 7 && sent && op != 7
}

// note records a message received from the server.
func (c *client) note(b []byte) {
	if len(b) < 2 {
		return
	}
	p, _ := parseResp(b)
	p.ID = binary.BigEndian.Uint16(b)
	if c.srv != nil && !c.srv.wasSent(p.ID) {
		c.unsent = append(c.unsent, p.ID)
	}
	if c.isWack(p) {
		return // carries an id that was sent (checked above); not counted as the response
	}
	if c.seen == nil {
		c.seen = map[uint16]resp{}
	}
	c.seen[p.ID] = p
}

// neverSent describes the replies noted above (nil: none).
func neverSent(cs ...*client) []string {
	var out []string
	for _, c := range cs {
		if c == nil {
			continue
		}
		for _, id := range c.unsent {
			out = append(out, fmt.Sprintf("id %#04x (%x)", id, c.seen[id].Raw))
		}
	}
	return out
}

func dial(r *running) (*client, error) {
	if r.kind == "tcp" {
		c, err := net.DialTimeout("tcp", r.addr, 2*time.Second)
		if err != nil {
			return nil, err
		}
		return &client{kind: "tcp", tcp: c, srv: r}, nil
	}
	to, _ := net.ResolveUDPAddr("udp", r.addr)
	c, err := net.ListenUDP("udp", &net.UDPAddr{IP: net.IPv4(127, 0, 0, 1)})
	if err != nil {
		return nil, err
	}
	return &client{kind: "udp", udp: c, to: to, srv: r}, nil
}

func (c *client) close() {
	if c.udp != nil {
		c.udp.Close()
	}
	if c.tcp != nil {
		c.tcp.Close()
	}
}

// send writes one request; for TCP the 2-byte length prefix and the message are
// written in the given segments (nil = one write).
func (c *client) send(b []byte, cuts []int) error {
	if len(b) >= 2 && c.srv != nil {
		c.srv.noteSent(binary.BigEndian.Uint16(b))
	}
	if len(b) >= 4 {
		if c.reqOp == nil {
			c.reqOp = map[uint16]int{}
		}
		c.reqOp[binary.BigEndian.Uint16(b)] = int(binary.BigEndian.Uint16(b[2:])>>11) & 0xF
	}
	if c.kind == "udp" {
		_, err := c.udp.WriteToUDP(b, c.to)
		return err
	}
	framed := append([]byte{byte(len(b) >> 8), byte(len(b))}, b...)
	prev := 0
	for _, cut := range cuts {
		cut = cut % (len(framed) + 1)
		if cut <= prev {
			continue
		}
		if _, err := c.tcp.Write(framed[prev:cut]); err != nil {
			return err
		}
		prev = cut
		if c.pause > 0 {
			time.Sleep(c.pause) // the segment is on the wire and read by the peer before the next one follows
		} else {
			runtime.Gosched()
		}
	}
	_, err := c.tcp.Write(framed[prev:])
	return err
}

func (c *client) recv(timeout time.Duration) ([]byte, error) {
	if c.kind == "udp" {
		c.udp.SetReadDeadline(time.Now().Add(timeout))
		for {
			buf := make([]byte, 2048)
			n, from, err := c.udp.ReadFromUDP(buf)
			if err != nil {
				return nil, err
			}
			if c.to != nil && (from.Port != c.to.Port || !from.IP.Equal(c.to.IP)) {
				continue // not from the server under test (a stray datagram to a reused port)
			}
			c.note(buf[:n])
			return buf[:n], nil
		}
	}
	c.tcp.SetReadDeadline(time.Now().Add(timeout))
	var l [2]byte
	if _, err := io.ReadFull(c.tcp, l[:]); err != nil {
		return nil, err
	}
	b := make([]byte, int(l[0])<<8|int(l[1]))
	if _, err := io.ReadFull(c.tcp, b); err != nil {
		return nil, err
	}
	c.note(b)
	return b, nil
}

// await reads until a reply with the given id has been seen or d has passed.
func (c *client) await(id uint16, d time.Duration) (resp, bool) {
	deadline := time.Now().Add(d)
	for {
		if p, ok := c.seen[id]; ok {
			return p, true
		}
		left := time.Until(deadline)
		if left <= 0 {
			return resp{}, false
		}
		if _, err := c.recv(left); err != nil {
			return resp{}, false
		}
	}
}

// exchange sends a request and waits for the reply, re-sending a lost UDP datagram twice.
func (c *client) exchange(r req, timeout time.Duration) (resp, bool) {
	tries := 1
	if c.kind == "udp" {
		tries = 3
	}
	for i := 0; i < tries; i++ {
		if err := c.send(r.bytes(), nil); err != nil {
			return resp{}, false
		}
		for {
			b, err := c.recv(timeout)
			if err != nil {
				break
			}
			if p, ok := parseResp(b); ok && p.ID == r.ID && !c.isWack(p) {
				return p, true
			}
		}
	}
	return resp{}, false
}

// ---- goroutine accounting ---------------------------------------------------------------------------------

// gset is a set of goroutines: id -> entry function (library functions without the module path).
type gset map[string]string

func (g gset) names() []string {
	out := make([]string, 0, len(g))
	for _, fn := range g {
		out = append(out, fn)
	}
	sort.Strings(out)
	return out
}

// libGoroutines returns the goroutines that run library code.
func libGoroutines() gset {
	buf := make([]byte, 1<<20)
	buf = buf[:runtime.Stack(buf, true)]
	out := gset{}
	for _, g := range strings.Split(string(buf), "\n\n") {
		if !strings.Contains(g, "TheManticoreProject/Manticore/network/") {
			continue
		}
		if strings.Contains(g, "manticoreverif/c18.libGoroutines") {
			continue // the caller itself, when called from a handler
		}
		lines := strings.Split(g, "\n")
		id := ""
		if f := strings.Fields(lines[0]); len(f) >= 2 && f[0] == "goroutine" {
			id = f[1]
		}
		fn := ""
		for _, l := range lines {
			if strings.HasPrefix(l, "github.com/TheManticoreProject/Manticore/") {
				fn = strings.TrimPrefix(l, "github.com/TheManticoreProject/Manticore/")
				if i := strings.LastIndex(fn, "("); i > 0 {
					fn = fn[:i]
				}
			}
		}
		if fn != "" && id != "" {
			out[id] = fn
		}
	}
	return out
}

// waitNoLibGoroutines polls until no goroutine outside base runs library code; it returns those that still do
// after d (nil: none).
func waitNoLibGoroutines(base gset, d time.Duration) gset {
	deadline := time.Now().Add(d)
	for {
		extra := gset{}
		for id, fn := range libGoroutines() {
			if _, ok := base[id]; !ok {
				extra[id] = fn
			}
		}
		if len(extra) == 0 {
			return nil
		}
		if time.Now().After(deadline) {
			return extra
		}
		time.Sleep(5 * time.Millisecond)
	}
}

// how long after Stop/Close a goroutine may still run library code
const leakWait = 2 * time.Second

// leaked decides whether the case that ran since base was taken leaked goroutines. A leak is growth, not
// existence: a goroutine the library starts once per process on first use (a logging goroutine behind a
// sync.Once, say) is still there after Stop and is no leak. So when goroutines started during the case still run
// library code leakWait after it, the same case runs once more (again): a leak - goroutines left behind by every
// start/stop cycle, or loops that outlive Stop by more than leakWait - leaves new ones behind again and is
// reported; a process-wide singleton does not.
func leaked(base gset, again func()) []string {
	left := waitNoLibGoroutines(base, leakWait)
	if left == nil {
		return nil
	}
	known := libGoroutines()
	for id, fn := range base {
		known[id] = fn
	}
	for id, fn := range left {
		known[id] = fn
	}
	again()
	if left2 := waitNoLibGoroutines(known, leakWait); left2 != nil {
		return append(left2.names(), fmt.Sprintf("(after the case before: %v)", left.names()))
	}
	return nil
}

// cycle is one plain start/stop of a server or client of the given kind.
func cycle(target string) {
	var stop func()
	switch target {
	case "llmnr-client":
		cl, err := llmnr.NewClient()
		if err != nil {
			return
		}
		stop = func() { cl.Close() }
	case "llmnr-server":
		srv, err := llmnr.NewServer("udp4", nil)
		if err != nil {
			return
		}
		conn, err := net.ListenUDP("udp4", &net.UDPAddr{IP: net.IPv4(127, 0, 0, 1)})
		if err != nil {
			return
		}
		srv.Conn = conn
		srv.Address = conn.LocalAddr().(*net.UDPAddr)
		go srv.Serve()
		stop = func() { srv.Close() }
	default:
		r, err := startServer(target)
		if err != nil {
			return
		}
		stop = r.srv.Stop
	}
	within(stopBudget, stop)
}

var warmed = map[string]bool{}

// warmUp runs, once per process and kind, one full start/stop cycle before the first baseline of that kind is
// taken: what the library starts once on first use is then part of every baseline.
func warmUp(target string) {
	if warmed[target] {
		return
	}
	warmed[target] = true
	before := libGoroutines()
	cycle(target)
	waitNoLibGoroutines(before, leakWait)
}

// within runs fn and reports whether it returned within d.
func within(d time.Duration, fn func()) (bool, time.Duration) {
	done := make(chan struct{})
	t0 := time.Now()
	go func() { defer close(done); fn() }()
	select {
	case <-done:
		return true, time.Since(t0)
	case <-time.After(d):
		return false, time.Since(t0)
	}
}
