// Package c02: NTLMv1/NTLMv2 responses verify under an independent MS-NLMP verifier.
package c02

import (
	"bytes"
	"encoding/hex"
	"errors"
	"fmt"
	"strings"
	"testing"

	"pgregory.net/rapid"

	"github.com/TheManticoreProject/Manticore/crypto/ntlmv1"
	"github.com/TheManticoreProject/Manticore/crypto/ntlmv2"
	"github.com/TheManticoreProject/Manticore/network/smb/smb_v10/spnego/ntlm"

	"manticoreverif/ref/alpha"
	"manticoreverif/ref/nlmp"
	"manticoreverif/ref/refcrypto"
	"manticoreverif/vf"
)

const P = "C02"

// ---- parity expansion, exhaustive per 7-bit group -----------------------------------------

type parityCase struct {
	Key vf.Hex `json:"key7"`
}

func checkParity(c parityCase) []vf.Finding {
	got, err := ntlmv1.ParityAdjust(append([]byte{}, c.Key...))
	want := refcrypto.ExpandDESKey(c.Key)
	if err != nil || !bytes.Equal(got, want) {
		return []vf.Finding{vf.F("ntlmv1.ParityAdjust", "differs-from-des-key-expansion", "%x -> %x (err %v) want %x", []byte(c.Key), got, err, want)}
	}
	return nil
}

func TestParityExhaustive(t *testing.T) {
	s := vf.Begin(t, P, "parity-exhaustive")
	s.SetExhaustive()
	s.Note("for each of the 8 output bytes, all 128 values of its 7 source bits, against two backgrounds of the other bits")
	vf.Enum(s, func(yield func(parityCase)) {
		for _, bg := range []byte{0x00, 0xA5} {
			for group := 0; group < 8; group++ {
				for v := 0; v < 128; v++ {
					bits := make([]byte, 56)
					for i := range bits {
						bits[i] = (bg >> uint(i%8)) & 1
					}
					for j := 0; j < 7; j++ {
						bits[group*7+j] = byte(v>>uint(6-j)) & 1
					}
					key := make([]byte, 7)
					for i, b := range bits {
						key[i/8] |= b << uint(7-i%8)
					}
					yield(parityCase{key})
				}
			}
		}
	}, checkParity, nil)
}

// ---- NTLMv1 ------------------------------------------------------------------------------------

type v1Case struct {
	// Ctor names how the instance comes into being: "password" (NewNTLMv1WithPassword), "nthash"
	// (NewNTLMv1WithNTHash) or "literal" (a struct literal with Password set and NTHash left empty,
	// the form for which Hash documents that it derives the NT hash itself). Replay files written
	// before this field existed have none: a non-empty password then means "password".
	Ctor      string `json:"ctor,omitempty"`
	Password  string `json:"password,omitempty"`
	NTHash    vf.Hex `json:"nt_hash"`
	Challenge vf.Hex `json:"server_challenge"`
	// First is the entry point that is called first on the fresh instance (ntresponse, hash, string,
	// lmresponse); the others follow in the fixed order, then all of them are called a second time.
	First string `json:"first,omitempty"`
	// Spare: the NT hash and the challenge are handed over as the first bytes of a longer buffer of the caller's
	// (len 16 / 8, capacity that much larger): a record read from a file, a field of a larger message. The bytes
	// behind them are the caller's too. 0: slices of exactly their length.
	Spare int `json:"spare_capacity,omitempty"`
}

func (c v1Case) ctor() string {
	if c.Ctor != "" {
		return c.Ctor
	}
	if c.Password != "" {
		return "password"
	}
	return "nthash"
}

func genChallenge(t *rapid.T, label string) vf.Hex {
	switch rapid.IntRange(0, 9).Draw(t, label+"Class") {
	case 0:
		return make([]byte, 8)
	case 1:
		return bytes.Repeat([]byte{0xFF}, 8)
	default:
		return rapid.SliceOfN(rapid.Byte(), 8, 8).Draw(t, label)
	}
}

// genV1Password draws a password of at least min characters for the NTLMv1 entry points. The NT response is
// defined for every password (NTOWFv1 = MD4(UTF-16LE(password))), so half of the draws come from the full
// alphabet (non-ASCII letters, non-BMP, hostile code points); the other half are 7-bit ASCII including the
// control characters 0x01..0x1F and 0x7F, mostly up to 20 characters with one in twelve from a long tail (LM
// truncates at 14, NT does not truncate at all). The LM response is judged only for 7-bit passwords (is7bit).
func genV1Password(t *rapid.T, min int) string {
	if rapid.Bool().Draw(t, "pwAlpha") {
		s := alpha.String(t, "pw", 20, "")
		for len([]rune(s)) < min {
			s += string(alpha.Rune(t, ""))
		}
		return s
	}
	n := rapid.IntRange(min, 20).Draw(t, "pwlen")
	if rapid.IntRange(0, 11).Draw(t, "pwlenClass") == 11 {
		n = rapid.IntRange(21, 300).Draw(t, "pwlenLong")
	}
	b := make([]byte, n)
	for i := range b {
		if rapid.IntRange(0, 7).Draw(t, "pwchClass") == 0 {
			// control characters (CR, LF, TAB, ESC, DEL ...) are characters of the password like any other
			b[i] = byte(rapid.SampledFrom([]int{'\n', '\r', '\t', 0x01, 0x1b, 0x1f, 0x7f, 0x0b, 0x0c, 0x08, 0x02}).Draw(t, "pwctl"))
		} else {
			b[i] = byte(rapid.IntRange(0x01, 0x7f).Draw(t, "pwch"))
		}
	}
	return string(b)
}

// is7bit: the domain on which the LM hash is defined without a code page.
func is7bit(s string) bool {
	for i := 0; i < len(s); i++ {
		if s[i] >= 0x80 {
			return false
		}
	}
	return true
}

func hasControl(s string) bool {
	for i := 0; i < len(s); i++ {
		if s[i] < 0x20 || s[i] == 0x7f {
			return true
		}
	}
	return false
}

func invert(b []byte) []byte {
	o := make([]byte, len(b))
	for i := range b {
		o[i] = ^b[i]
	}
	return o
}

func exactCap(b []byte) []byte { o := make([]byte, len(b)); copy(o, b); return o[:len(b):len(b)] }

var v1EntryPoints = []string{"ntresponse", "hash", "string", "lmresponse"}

// newV1 makes the instance the case describes and says which NT hash it stands for.
func newV1(ctor, password string, ntHash, challenge []byte, spare ...int) (inst *ntlmv1.NTLMv1, nt [16]byte, err error) {
	if len(spare) > 0 && spare[0] > 0 && ctor == "nthash" {
		copy(nt[:], ntHash)
		// the caller's buffer: this credential's hash, the next credential's hash (here: the inverted one), then
		// spare[0] more bytes
		hb := withSpare(append(append([]byte{}, ntHash...), invert(ntHash)...), spare[0])
		cb := withSpare(challenge, spare[0])
		inst, err = ntlmv1.NewNTLMv1WithNTHash("DOM", "user", hb[:len(ntHash)], cb[:len(challenge)])
		lent = hb
		return
	}
	switch ctor {
	case "password":
		nt = refcrypto.NT(password)
		inst, err = ntlmv1.NewNTLMv1WithPassword("DOM", "user", password, exactCap(challenge))
	case "literal":
		nt = refcrypto.NT(password)
		inst = &ntlmv1.NTLMv1{Domain: "DOM", Username: "user", Password: password, ServerChallenge: exactCap(challenge)}
	case "nthash":
		copy(nt[:], ntHash)
		inst, err = ntlmv1.NewNTLMv1WithNTHash("DOM", "user", exactCap(ntHash), exactCap(challenge))
	default:
		err = errBadCtor
	}
	return
}

var errBadCtor = errors.New("unknown constructor")

// withSpare returns b as the head of a buffer with n more bytes of the caller's behind it.
func withSpare(b []byte, n int) []byte {
	o := make([]byte, len(b)+n)
	copy(o, b)
	for i := len(b); i < len(o); i++ {
		o[i] = byte(0xA5 + i)
	}
	return o
}

// lent: the buffer whose first 16 bytes were handed to the constructor as the NT hash in a case with spare capacity:
// the hash, the next credential's hash, spare bytes (nil otherwise; one case at a time).
var lent []byte

func checkV1(c v1Case) []vf.Finding {
	var fs []vf.Finding
	ctor := c.ctor()
	lent = nil
	inst, nt, err := newV1(ctor, c.Password, c.NTHash, c.Challenge, c.Spare)
	if err == errBadCtor {
		return []vf.Finding{vf.F("harness", "bad-case", "constructor %q", c.Ctor)}
	}
	if err != nil {
		return []vf.Finding{vf.F("ntlmv1.New", "valid-input-rejected", "%v", err)}
	}
	want := refcrypto.DESL(nt[:], c.Challenge)
	// the LM response is defined for instances that know the password, and without a code page only for 7-bit
	// passwords; for the others LMResponse is still called (its place in the call order matters to the NT side)
	// but whatever it does is its own business
	judgeLM := ctor != "nthash" && is7bit(c.Password)
	var wantLM []byte
	if judgeLM {
		wantLM = refcrypto.DESL(refcrypto.LM(c.Password), c.Challenge)
	}
	// the entry points, First first
	var order []string
	for _, e := range v1EntryPoints {
		if e == c.First {
			order = append([]string{e}, order...)
		} else {
			order = append(order, e)
		}
	}
	// every slice an entry point returned, kept as returned until the end of the case
	type kept struct {
		who       string
		got, want []byte
	}
	var keep []kept
	call := func(inst *ntlmv1.NTLMv1, want, wantLM []byte, judgeLM bool, e, kind, what string) {
		switch e {
		case "ntresponse":
			ntr, err := inst.NTResponse()
			if err != nil || !bytes.Equal(ntr, want) {
				fs = append(fs, vf.F("NTLMv1.NTResponse", kind, "%s, call order %v: got %x (err %v) want %x", what, order, ntr, err, want))
			}
			keep = append(keep, kept{"NTLMv1.NTResponse", ntr, want})
		case "hash":
			h, err := inst.Hash()
			if err != nil || !bytes.Equal(h, want) {
				fs = append(fs, vf.F("NTLMv1.Hash", kind, "%s, call order %v: got %x (err %v) want %x", what, order, h, err, want))
			}
			keep = append(keep, kept{"NTLMv1.Hash", h, want})
		case "string":
			if s := inst.String(); !strings.EqualFold(s, hex.EncodeToString(want)) {
				fs = append(fs, vf.F("NTLMv1.String", kind, "%s, call order %v: got %s want %x", what, order, s, want))
			}
		case "lmresponse":
			if !judgeLM {
				if inst.Password != "" {
					func() {
						defer func() { recover() }()
						inst.LMResponse()
					}()
				}
				return
			}
			lmr, err := inst.LMResponse()
			if err != nil || !bytes.Equal(lmr, wantLM) {
				fs = append(fs, vf.F("NTLMv1.LMResponse", kind, "%s, call order %v: got %x (err %v) want %x", what, order, lmr, err, wantLM))
			}
			keep = append(keep, kept{"NTLMv1.LMResponse", lmr, wantLM})
		}
	}
	what := fmt.Sprintf("%s instance, pw %q hash %x challenge %x", ctor, c.Password, nt, []byte(c.Challenge))
	for _, e := range order {
		call(inst, want, wantLM, judgeLM, e, "differs-from-DESL", what)
	}
	if len(fs) > 0 {
		return fs
	}
	// order independence: every entry point again on the same instance, after all the others have run
	for _, e := range order {
		call(inst, want, wantLM, judgeLM, e, "changes-after-other-entry-points", what)
	}
	if !bytes.Equal(inst.ServerChallenge, c.Challenge) {
		fs = append(fs, vf.F("NTLMv1", "server-challenge-modified", "%x", inst.ServerChallenge))
	}
	// "for every credential": the caller keeps its NT hashes one after the other in one buffer (a dump, a table). After
	// the responses for this one have been computed, the next one, passed the same way, still yields DESL of the hash
	// the caller stored there
	if lent != nil {
		next := invert(c.NTHash)
		instB, err := ntlmv1.NewNTLMv1WithNTHash("DOM", "user", lent[16:32], exactCap(c.Challenge))
		if err != nil {
			return []vf.Finding{vf.F("ntlmv1.New", "valid-input-rejected", "next credential of the buffer: %v", err)}
		}
		wantB := refcrypto.DESL(next, c.Challenge)
		if got, err := instB.NTResponse(); err != nil || !bytes.Equal(got, wantB) {
			fs = append(fs, vf.F("NTLMv1", "adjacent-credential-corrupted", "%s: the hash was passed as the first 16 bytes of a buffer that holds the next credential's hash %x behind it (and %d more bytes); after the calls %v (twice) on the first credential the buffer holds %x there, and the response for the next credential is %x (err %v), want %x", what, next, c.Spare, order, lent[16:32], got, err, wantB))
		}
	}
	if len(fs) > 0 {
		return fs
	}
	// a second instance for another credential and the inverted challenge runs through the same entry points ...
	pw2, nt2, ch2 := c.Password+"x", invert(c.NTHash), invert(c.Challenge)
	inst2, ntb, err := newV1(ctor, pw2, nt2, ch2)
	if err != nil {
		return []vf.Finding{vf.F("ntlmv1.New", "valid-input-rejected", "second instance: %v", err)}
	}
	want2 := refcrypto.DESL(ntb[:], ch2)
	judgeLM2 := ctor != "nthash" && is7bit(pw2)
	var wantLM2 []byte
	if judgeLM2 {
		wantLM2 = refcrypto.DESL(refcrypto.LM(pw2), ch2)
	}
	first := len(keep)
	what2 := fmt.Sprintf("second %s instance (pw %q hash %x challenge %x) next to a live first one", ctor, pw2, ntb, ch2)
	for _, e := range order {
		if e != "string" { // the entry points that hand back a slice
			call(inst2, want2, wantLM2, judgeLM2, e, "differs-from-DESL", what2)
		}
	}
	// ... and what the first instance handed out before is still what it was: a response is the caller's value
	for i, k := range keep[:first] {
		if !bytes.Equal(k.got, k.want) {
			fs = append(fs, vf.F(k.who, "returned-response-changed-by-later-call", "%s: result %d of the case was %x and is now %x", what, i, k.want, k.got))
		}
	}
	return fs
}

func v1Nontrivial(c v1Case) bool {
	h := c.NTHash
	if c.ctor() != "nthash" {
		x := refcrypto.NT(c.Password)
		h = x[:]
	}
	if len(h) != 16 {
		return false
	}
	nz := func(b []byte) bool { return !bytes.Equal(b, make([]byte, len(b))) }
	return nz(h[:7]) && nz(h[7:14]) && nz(h[14:])
}

func TestV1(t *testing.T) {
	s := vf.Begin(t, P, "v1-desl")
	vf.Rapid(s, vf.N(8000, 150000), func(t *rapid.T) v1Case {
		c := v1Case{Challenge: genChallenge(t, "chal")}
		c.Ctor = rapid.SampledFrom([]string{"password", "password", "nthash", "nthash", "literal"}).Draw(t, "ctor")
		c.First = rapid.SampledFrom(v1EntryPoints).Draw(t, "first")
		switch c.Ctor {
		case "password":
			// the empty password is a password like any other (NT = MD4(""), LM = the two halves of DES(0^7, magic))
			c.Password = genV1Password(t, 0)
		case "literal":
			// every entry point derives the NT hash of such an instance from the password (Hash documents it;
			// NTResponse panicked before fc567d6); all of them refuse the empty password, so it is not drawn
			c.Password = genV1Password(t, 1)
			c.First = rapid.SampledFrom(v1EntryPoints).Draw(t, "firstLiteral")
		default:
			c.NTHash = rapid.SliceOfN(rapid.Byte(), 16, 16).Draw(t, "nt")
			// hashes whose last two bytes / key thirds are special
			switch rapid.IntRange(0, 5).Draw(t, "hashClass") {
			case 0:
				copy(c.NTHash[14:], []byte{0, 0})
			case 1:
				copy(c.NTHash[14:], []byte{0xFF, 0xFF})
			}
			if rapid.IntRange(0, 2).Draw(t, "spareClass") == 0 {
				c.Spare = rapid.SampledFrom([]int{1, 8, 64}).Draw(t, "spare")
				s.Class("hash-and-challenge-with-spare-capacity")
			}
		}
		s.Class("ctor:" + c.Ctor)
		if c.Ctor != "nthash" {
			switch {
			case c.Password == "":
				s.Class("empty-password")
			case !is7bit(c.Password):
				s.Class("password:non-ascii")
			case hasControl(c.Password):
				s.Class("password:7bit-with-control-characters")
			}
		}
		return c
	}, checkV1, v1Nontrivial)
}

// ---- NTLMv2 (crypto/ntlmv2) ------------------------------------------------------------------------

type v2Case struct {
	Domain          string `json:"domain"`
	User            string `json:"user"`
	Password        string `json:"password"`
	ServerChallenge vf.Hex `json:"server_challenge"`
	ClientChallenge vf.Hex `json:"client_challenge"`
}

func genName(t *rapid.T, label string) string {
	s := alpha.String(t, label, 12, ":")
	switch rapid.IntRange(0, 3).Draw(t, label+"Case") {
	case 0:
		return alpha.UpperString(s)
	case 1:
		return alpha.LowerString(s)
	}
	return s
}

func genV2(t *rapid.T) v2Case {
	return v2Case{genName(t, "domain"), genName(t, "user"), alpha.String(t, "pw", 16, ""), genChallenge(t, "srv"), genChallenge(t, "cli")}
}

func v2Nontrivial(c v2Case) bool {
	return alpha.HasLower(c.Domain) || alpha.HasLower(c.User) || alpha.HasNonASCII(c.Domain+c.User)
}

func arr8(b []byte) (a [8]byte) { copy(a[:], b); return }

func kindOf(problem string) string {
	if i := strings.IndexByte(problem, ':'); i > 0 {
		return problem[:i]
	}
	return problem
}

func checkV2(c v2Case) []vf.Finding {
	var fs []vf.Finding
	inst, err := ntlmv2.NewNTLMv2(c.Domain, c.User, c.Password, arr8(c.ServerChallenge), arr8(c.ClientChallenge))
	if err != nil {
		return []vf.Finding{vf.F("ntlmv2.NewNTLMv2", "valid-input-rejected", "%v", err)}
	}
	resp, err := inst.Hash()
	if err != nil {
		return []vf.Finding{vf.F("NTLMv2.Hash", "error", "%v", err)}
	}
	respAsReturned := append([]byte{}, resp...)
	nt := refcrypto.NT(c.Password)
	for _, p := range nlmp.VerifyNTLMv2(nt, c.User, c.Domain, c.ServerChallenge, resp, c.ClientChallenge) {
		fs = append(fs, vf.F("NTLMv2.Hash", kindOf(p), "user %q domain %q: %s", c.User, c.Domain, p))
	}
	// the hex form is a response in its own right (the blob carries a fresh timestamp, so it need not equal
	// resp byte for byte): it goes through the same verifier
	if hx, err := inst.HashHex(); err != nil || len(hx) != 2*len(resp) {
		fs = append(fs, vf.F("NTLMv2.HashHex", "hex-form-wrong-length", "%d hex digits (err %v)", len(hx), err))
	} else if b, err := hex.DecodeString(hx); err != nil {
		fs = append(fs, vf.F("NTLMv2.HashHex", "hex-form-not-hex", "%q: %v", hx, err))
	} else {
		if len(b) >= 16+8 && !bytes.Equal(b[16:24], resp[16:24]) {
			fs = append(fs, vf.F("NTLMv2.HashHex", "hex-form-differs", "blob header differs"))
		}
		for _, p := range nlmp.VerifyNTLMv2(nt, c.User, c.Domain, c.ServerChallenge, b, c.ClientChallenge) {
			fs = append(fs, vf.F("NTLMv2.HashHex", kindOf(p), "user %q domain %q: %s", c.User, c.Domain, p))
		}
	}
	// Hash again after the other output forms: still a response that verifies
	again, err := inst.Hash()
	if err != nil {
		fs = append(fs, vf.F("NTLMv2.Hash", "error", "second call: %v", err))
	} else {
		for _, p := range nlmp.VerifyNTLMv2(nt, c.User, c.Domain, c.ServerChallenge, again, c.ClientChallenge) {
			fs = append(fs, vf.F("NTLMv2.Hash", kindOf(p), "second call, user %q domain %q: %s", c.User, c.Domain, p))
		}
	}
	againAsReturned := append([]byte{}, again...)
	// a response that was handed out is the caller's value: neither the later calls on this instance nor a
	// second instance for another credential and other challenges change it
	if inst2, err := ntlmv2.NewNTLMv2(c.Domain+"x", "y"+c.User, c.Password+"z", arr8(invert(c.ServerChallenge)), arr8(invert(c.ClientChallenge))); err == nil {
		if r2, err := inst2.Hash(); err == nil {
			for _, p := range nlmp.VerifyNTLMv2(refcrypto.NT(c.Password+"z"), "y"+c.User, c.Domain+"x", invert(c.ServerChallenge), r2, invert(c.ClientChallenge)) {
				fs = append(fs, vf.F("NTLMv2.Hash", kindOf(p), "second instance next to a live first one, user %q domain %q: %s", "y"+c.User, c.Domain+"x", p))
			}
		}
	}
	if !bytes.Equal(resp, respAsReturned) {
		fs = append(fs, vf.F("NTLMv2.Hash", "returned-response-changed-by-later-call", "first response was %x and is now %x", respAsReturned, resp))
	}
	if !bytes.Equal(again, againAsReturned) {
		fs = append(fs, vf.F("NTLMv2.Hash", "returned-response-changed-by-later-call", "second response was %x and is now %x", againAsReturned, again))
	}
	// exported key = NTOWFv2
	if want := refcrypto.NTOWFv2(nt, c.User, c.Domain); !bytes.Equal(inst.ResponseKeyNT[:], want) {
		fs = append(fs, vf.F("NTLMv2.ResponseKeyNT", "differs-from-NTOWFv2", "user %q domain %q: got %x want %x", c.User, c.Domain, inst.ResponseKeyNT, want))
	}
	// hashcat line
	line, err := inst.ToHashcatString()
	if err != nil {
		fs = append(fs, vf.F("NTLMv2.ToHashcatString", "error", "%v", err))
		return fs
	}
	h, err := nlmp.ParseHashcat5600(line)
	if err != nil {
		fs = append(fs, vf.F("NTLMv2.ToHashcatString", "not-hashcat-5600-format", "%v; line %q", err, line))
		return fs
	}
	if !bytes.Equal(h.ServerChallenge, c.ServerChallenge) {
		fs = append(fs, vf.F("NTLMv2.ToHashcatString", "hashcat-server-challenge-differs", "%x", h.ServerChallenge))
	}
	key := refcrypto.NTOWFv2(nt, h.User, h.Domain)
	if want := refcrypto.HMACMD5(key, h.ServerChallenge, h.Blob); !bytes.Equal(want, h.Proof) {
		fs = append(fs, vf.F("NTLMv2.ToHashcatString", "hashcat-line-does-not-verify", "line %q: proof %x, recomputed %x", line, h.Proof, want))
	}
	for _, p := range nlmp.CheckBlob(h.Blob, c.ClientChallenge) {
		fs = append(fs, vf.F("NTLMv2.ToHashcatString", "hashcat-"+kindOf(p), "%s", p))
	}
	return fs
}

func TestV2(t *testing.T) {
	s := vf.Begin(t, P, "v2-verify")
	vf.Rapid(s, vf.N(8000, 150000), genV2, checkV2, v2Nontrivial)
}

// ---- AUTHENTICATE messages of the ntlm package -------------------------------------------------------

type authCase struct {
	Flags           uint32 `json:"challenge_flags"`
	ServerChallenge vf.Hex `json:"server_challenge"`
	TargetInfo      []av   `json:"target_info"`
	// NoInfo: the CHALLENGE carries no target info at all (TargetInfoFields of length 0) instead of an AV_PAIR
	// list; whether NTLMSSP_NEGOTIATE_TARGET_INFO is set is part of Flags either way.
	NoInfo      bool   `json:"no_target_info,omitempty"`
	User        string `json:"user"`
	Password    string `json:"password"`
	Domain      string `json:"domain"`
	Workstation string `json:"workstation"`
	// TargetName: the server's own name in the CHALLENGE (bytes in the negotiated character set). The response
	// is keyed with the domain the CALLER supplied – also when that is empty – never with the server's name.
	TargetName vf.Hex `json:"challenge_target_name,omitempty"`
}
type av struct {
	ID    uint16 `json:"id"`
	Value vf.Hex `json:"value"`
}

func decodeName(b []byte, unicode bool) string {
	if !unicode {
		return string(b)
	}
	var rs []rune
	for i := 0; i+1 < len(b); i += 2 {
		u := rune(b[i]) | rune(b[i+1])<<8
		if u >= 0xD800 && u < 0xDC00 && i+3 < len(b) {
			lo := rune(b[i+2]) | rune(b[i+3])<<8
			rs = append(rs, 0x10000+(u-0xD800)<<10+(lo-0xDC00))
			i += 2
			continue
		}
		rs = append(rs, u)
	}
	return string(rs)
}

// authMessage builds the CHALLENGE of c with the reference builder, has the library parse it and answer it.
func authMessage(c authCase) (msg []byte, pairs []nlmp.AvPair, fs []vf.Finding) {
	for _, p := range c.TargetInfo {
		pairs = append(pairs, nlmp.AvPair{ID: p.ID, Value: p.Value})
	}
	ch := &nlmp.Challenge{Flags: c.Flags, TargetName: c.TargetName}
	if !c.NoInfo {
		ch.TargetInfo = nlmp.EncodeAvPairs(pairs)
	}
	copy(ch.ServerChallenge[:], c.ServerChallenge)
	parsed, err := ntlm.ParseChallengeMessage(ch.Build())
	if err != nil {
		return nil, pairs, []vf.Finding{vf.F("ntlm.ParseChallengeMessage", "well-formed-challenge-rejected", "%v", err)}
	}
	msg, err = ntlm.CreateAuthenticateMessage(parsed, c.User, c.Password, c.Domain, c.Workstation)
	if err != nil {
		return nil, pairs, []vf.Finding{vf.F("ntlm.CreateAuthenticateMessage", "error", "%v", err)}
	}
	return msg, pairs, nil
}

func checkAuth(c authCase) []vf.Finding {
	msg, pairs, fs := authMessage(c)
	if fs != nil {
		return fs
	}
	// The message is the caller's value. Before it is looked at, a second AUTHENTICATE is built for another
	// credential against a CHALLENGE with the inverted server challenge; the first one is judged afterwards, as
	// it is then, and must still be what was returned.
	asReturned := append([]byte{}, msg...)
	c2 := c
	c2.ServerChallenge, c2.User, c2.Password, c2.Domain = invert(c.ServerChallenge), c.User+"2", c.Password+"x", "Q"+c.Domain
	if m2, _, fs2 := authMessage(c2); fs2 != nil {
		return fs2
	} else if a2, problems := nlmp.ParseAuthenticate(m2); a2 == nil || len(problems) > 0 {
		return []vf.Finding{vf.F("ntlm.CreateAuthenticateMessage", "authenticate-structure-invalid", "second message: %v", problems)}
	}
	if !bytes.Equal(msg, asReturned) {
		return []vf.Finding{vf.F("ntlm.CreateAuthenticateMessage", "returned-message-changed-by-later-call", "the message was %x and is %x after another message was built", asReturned, msg)}
	}
	a, problems := nlmp.ParseAuthenticate(msg)
	if a == nil || len(problems) > 0 {
		return []vf.Finding{vf.F("ntlm.CreateAuthenticateMessage", "authenticate-structure-invalid", "%v", problems)}
	}
	nt := refcrypto.NT(c.Password)
	unicode := c.Flags&nlmp.FlagUnicode != 0
	// the server takes user and domain from the message it received
	user := decodeName(a.User.Data, unicode)
	domain := decodeName(a.Domain.Data, unicode)
	// No user name and no password is the anonymous identity of MS-NLMP (3.3.1 / 3.3.2 "special case for
	// anonymous authentication"): a client may then send no NT response and the LM response Z(1) instead of
	// responses computed from the empty password. That form, and only that one, is accepted next to the
	// computed responses; the names the message carries are judged either way.
	anonymous := c.User == "" && c.Password == "" && len(a.NT.Data) == 0 && bytes.Equal(a.LM.Data, []byte{0})
	if c.Flags&nlmp.FlagExtSec == 0 {
		if anonymous {
			return fs
		}
		// NTLMv1: the NT response is defined for every password, the LM response (without a code page) for 7-bit ones
		wantNT := refcrypto.DESL(nt[:], c.ServerChallenge)
		if !bytes.Equal(a.NT.Data, wantNT) {
			fs = append(fs, vf.F("ntlm.CreateAuthenticateMessage", "v1-nt-response-differs-from-DESL", "pw %q: got %x want %x", c.Password, a.NT.Data, wantNT))
		}
		// LmChallengeResponse: DESL(LMOWFv1, challenge), or one of the two forms of a client that sends no LM
		// response (MS-NLMP 3.3.1, NoLMResponseNTLMv1: a copy of the NT response; or Z(24)) - the forms C08 accepts
		if is7bit(c.Password) {
			if want := refcrypto.DESL(refcrypto.LM(c.Password), c.ServerChallenge); !bytes.Equal(a.LM.Data, want) && !bytes.Equal(a.LM.Data, wantNT) && !bytes.Equal(a.LM.Data, make([]byte, 24)) {
				fs = append(fs, vf.F("ntlm.CreateAuthenticateMessage", "v1-lm-response-differs-from-DESL", "pw %q: got %x, want DESL(LM hash, challenge) = %x, the NT response %x or 24 zero bytes", c.Password, a.LM.Data, want, wantNT))
			}
		}
		return fs
	}
	if anonymous {
		return append(fs, checkAuthNames(c, user, domain)...)
	}
	if len(a.NT.Data) < 16+28+4 {
		// 16 bytes of proof, the 28 fixed bytes of the client blob and at least MsvAvEOL
		return append(fs, vf.F("ntlm.CreateAuthenticateMessage", "v2-nt-response-too-short", "%d bytes: no room for NTProofStr, the fixed part of the client blob and an AV_PAIR list closed by MsvAvEOL (target info in the challenge: %v)", len(a.NT.Data), !c.NoInfo))
	}
	for _, p := range nlmp.VerifyNTLMv2(nt, user, domain, c.ServerChallenge, a.NT.Data, nil) {
		fs = append(fs, vf.F("ntlm.CreateAuthenticateMessage", "v2-nt-"+kindOf(p), "user %q domain %q (as carried in the message): %s", user, domain, p))
	}
	// the blob must carry the server's target info: the challenge's pairs, values equal, in their order; a
	// client may add pairs of its own (MS-NLMP 3.1.5.1.2: channel bindings, target name, flags), so the
	// challenge's list is looked for as a sub-sequence. That the blob's list is well-formed is VerifyNTLMv2's,
	// also when the challenge carried none. Without NTLMSSP_NEGOTIATE_TARGET_INFO the TargetInfoFields "MUST be
	// ignored on receipt" (2.2.1.2): the pairs are then not looked for.
	if len(a.NT.Data) >= 44 && !c.NoInfo && c.Flags&nlmp.FlagTargetInf != 0 {
		got, _, err := nlmp.ParseAvPairs(a.NT.Data[44:])
		if err == nil {
			if i := missingPair(got, pairs); i >= 0 {
				fs = append(fs, vf.F("ntlm.CreateAuthenticateMessage", "v2-blob-target-info-differs", "pair %d of the challenge (id %d, %d bytes) not found in order among the %d pairs of the blob", i, pairs[i].ID, len(pairs[i].Value), len(got)))
			}
		}
	}
	// LmChallengeResponse: LMv2 = HMAC_MD5(NTOWFv2, server challenge || client challenge) || client challenge,
	// or Z(24) (MS-NLMP 3.1.5.1.2 prescribes it when the target info carries MsvAvTimestamp; a server that
	// finds a verifying NTLMv2 response does not look at it). Anything else is a response that fails.
	if len(a.LM.Data) != 24 {
		fs = append(fs, vf.F("ntlm.CreateAuthenticateMessage", "v2-lm-response-length", "%d bytes, want 24", len(a.LM.Data)))
	} else if !bytes.Equal(a.LM.Data, make([]byte, 24)) {
		key := refcrypto.NTOWFv2(nt, user, domain)
		if want := refcrypto.HMACMD5(key, c.ServerChallenge, a.LM.Data[16:]); !bytes.Equal(want, a.LM.Data[:16]) {
			fs = append(fs, vf.F("ntlm.CreateAuthenticateMessage", "v2-lm-proof-mismatch", "got %x want %x (or 24 zero bytes)", a.LM.Data[:16], want))
		}
	}
	return append(fs, checkAuthNames(c, user, domain)...)
}

// checkAuthNames: the identity carried in an NTLMv2 AUTHENTICATE is the supplied one, modulo letter case
// (NTOWFv2 upper-cases the user name, and the property does not say in which case the field carries it; C08
// compares it exactly).
func checkAuthNames(c authCase, user, domain string) (fs []vf.Finding) {
	if alpha.UpperString(user) != alpha.UpperString(c.User) {
		fs = append(fs, vf.F("ntlm.CreateAuthenticateMessage", "user-name-not-as-supplied", "got %q want %q", user, c.User))
	}
	if alpha.UpperString(domain) != alpha.UpperString(c.Domain) {
		fs = append(fs, vf.F("ntlm.CreateAuthenticateMessage", "domain-name-not-as-supplied", "got %q want %q", domain, c.Domain))
	}
	return fs
}

// missingPair looks for want as a sub-sequence of got (ids and values equal, order kept) and returns the index
// of the first pair of want that has no place in it, or -1.
func missingPair(got, want []nlmp.AvPair) int {
	j := 0
	for i, w := range want {
		for j < len(got) && !(got[j].ID == w.ID && bytes.Equal(got[j].Value, w.Value)) {
			j++
		}
		if j == len(got) {
			return i
		}
		j++
	}
	return -1
}

func genAuth(t *rapid.T, v2 bool) authCase {
	c := authCase{ServerChallenge: genChallenge(t, "srv"), Flags: nlmp.FlagNTLM | nlmp.FlagTargetInf}
	// what the CHALLENGE says about target info: mostly a list under its flag; sometimes the flag with an empty
	// field, no flag and an empty field, or a list without the flag
	switch rapid.IntRange(0, 9).Draw(t, "infoClass") {
	case 0:
		c.NoInfo = true
	case 1:
		c.NoInfo = true
		c.Flags &^= nlmp.FlagTargetInf
	case 2:
		c.Flags &^= nlmp.FlagTargetInf
	}
	if v2 {
		c.Flags |= nlmp.FlagExtSec
	}
	unicode := rapid.Bool().Draw(t, "unicode")
	if unicode {
		c.Flags |= nlmp.FlagUnicode
	} else {
		c.Flags |= nlmp.FlagOEM
	}
	if rapid.Bool().Draw(t, "version") {
		c.Flags |= nlmp.FlagVersion
	}
	name := func(label string) string {
		if unicode {
			return genName(t, label)
		}
		// OEM: 7-bit ASCII only
		n := rapid.IntRange(0, 10).Draw(t, label+"Len")
		if rapid.IntRange(0, 11).Draw(t, label+"LenClass") == 11 {
			n = rapid.IntRange(11, 300).Draw(t, label+"LongLen")
		}
		b := make([]byte, n)
		for i := range b {
			b[i] = byte(rapid.IntRange(0x21, 0x7e).Draw(t, label+"Ch"))
			if b[i] == ':' {
				b[i] = '_'
			}
		}
		return string(b)
	}
	c.User, c.Domain, c.Workstation = name("user"), name("domain"), name("ws")
	switch rapid.IntRange(0, 3).Draw(t, "targetName") {
	case 0, 1:
		// a server name in the CHALLENGE; with it the case "caller supplies no domain" is drawn on purpose
		tn := name("target")
		if tn == "" {
			tn = "SRV"
		}
		if unicode {
			c.TargetName = refcrypto.UTF16LE(tn)
		} else {
			c.TargetName = []byte(tn)
		}
		c.Flags |= nlmp.FlagReqTarget
		if rapid.Bool().Draw(t, "noDomain") {
			c.Domain = ""
		}
	}
	if v2 {
		c.Password = alpha.String(t, "pw", 16, "")
	} else {
		c.Password = genV1Password(t, 0)
	}
	ids := rapid.Permutation([]uint16{1, 2, 3, 4, 5, 6, 7, 9, 10}).Draw(t, "avIds")
	for i, n := 0, rapid.IntRange(0, 5).Draw(t, "nav"); i < n && !c.NoInfo; i++ {
		// mostly short values; one pair in five is long (names of a deep DNS tree, a channel-binding or
		// target-name blob): the target info then runs to hundreds or thousands of bytes, past any fixed-size
		// scratch buffer on the way into the response
		l := rapid.IntRange(0, 40).Draw(t, "avLen")
		if rapid.IntRange(0, 4).Draw(t, "avLong") == 0 {
			l = rapid.OneOf(rapid.IntRange(41, 400), rapid.SampledFrom([]int{200, 212, 216, 217, 220, 248, 255, 256, 257, 511, 512, 1000, 4000})).Draw(t, "avLenLong")
		}
		c.TargetInfo = append(c.TargetInfo, av{ids[i], rapid.SliceOfN(rapid.Byte(), l, l).Draw(t, "avVal")})
	}
	return c
}

func authClasses(s *vf.Sub, c authCase) authCase {
	switch {
	case c.NoInfo && c.Flags&nlmp.FlagTargetInf != 0:
		s.Class("challenge:target-info-flag-with-empty-field")
	case c.NoInfo:
		s.Class("challenge:no-target-info")
	case c.Flags&nlmp.FlagTargetInf == 0:
		s.Class("challenge:target-info-without-flag")
	}
	if len(c.TargetName) > 0 && c.Domain == "" {
		s.Class("challenge:target-name-present, caller-domain-empty")
	}
	if c.Flags&nlmp.FlagExtSec == 0 {
		switch {
		case !is7bit(c.Password):
			s.Class("password:non-ascii")
		case hasControl(c.Password):
			s.Class("password:7bit-with-control-characters")
		}
	}
	return c
}

func TestAuthMsgV1(t *testing.T) {
	s := vf.Begin(t, P, "auth-msg-v1")
	vf.Rapid(s, vf.N(3000, 60000), func(t *rapid.T) authCase { return authClasses(s, genAuth(t, false)) }, checkAuth, func(c authCase) bool { return len(c.Password) > 7 })
}

func TestAuthMsgV2(t *testing.T) {
	s := vf.Begin(t, P, "auth-msg-v2")
	vf.Rapid(s, vf.N(3000, 60000), func(t *rapid.T) authCase { return authClasses(s, genAuth(t, true)) }, checkAuth,
		func(c authCase) bool { return len(c.TargetInfo) > 0 || alpha.HasLower(c.Domain+c.User) })
}
