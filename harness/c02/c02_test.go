// Package c02: NTLMv1/NTLMv2 responses verify under an independent MS-NLMP verifier.
package c02

import (
	"bytes"
	"encoding/hex"
	"strings"
	"testing"

	"pgregory.net/rapid"

	"github.com/TheManticoreProject/Manticore/crypto/ntlmv1"
	"github.com/TheManticoreProject/Manticore/crypto/ntlmv2"
	"github.com/TheManticoreProject/Manticore/network/smb/smb_v10/spnego/ntlm"

	"manticoreverif/ref/alpha"
	"manticoreverif/ref/nlmp"
	"manticoreverif/ref/refcrypto"
	"manticoreverif/vf"
)

const P = "C02"

// ---- parity expansion, exhaustive per 7-bit group -----------------------------------------

type parityCase struct {
	Key vf.Hex `json:"key7"`
}

func checkParity(c parityCase) []vf.Finding {
	got, err := ntlmv1.ParityAdjust(append([]byte{}, c.Key...))
	want := refcrypto.ExpandDESKey(c.Key)
	if err != nil || !bytes.Equal(got, want) {
		return []vf.Finding{vf.F("ntlmv1.ParityAdjust", "differs-from-des-key-expansion", "%x -> %x (err %v) want %x", []byte(c.Key), got, err, want)}
	}
	return nil
}

func TestParityExhaustive(t *testing.T) {
	s := vf.Begin(t, P, "parity-exhaustive")
	s.SetExhaustive()
	s.Note("for each of the 8 output bytes, all 128 values of its 7 source bits, against two backgrounds of the other bits")
	vf.Enum(s, func(yield func(parityCase)) {
		for _, bg := range []byte{0x00, 0xA5} {
			for group := 0; group < 8; group++ {
				for v := 0; v < 128; v++ {
					bits := make([]byte, 56)
					for i := range bits {
						bits[i] = (bg >> uint(i%8)) & 1
					}
					for j := 0; j < 7; j++ {
						bits[group*7+j] = byte(v>>uint(6-j)) & 1
					}
					key := make([]byte, 7)
					for i, b := range bits {
						key[i/8] |= b << uint(7-i%8)
					}
					yield(parityCase{key})
				}
			}
		}
	}, checkParity, nil)
}

// ---- NTLMv1 ------------------------------------------------------------------------------------

type v1Case struct {
	// Ctor names how the instance comes into being: "password" (NewNTLMv1WithPassword), "nthash"
	// (NewNTLMv1WithNTHash) or "literal" (a struct literal with Password set and NTHash left empty,
	// the form for which Hash documents that it derives the NT hash itself). Replay files written
	// before this field existed have none: a non-empty password then means "password".
	Ctor      string `json:"ctor,omitempty"`
	Password  string `json:"password,omitempty"`
	NTHash    vf.Hex `json:"nt_hash"`
	Challenge vf.Hex `json:"server_challenge"`
	// First is the entry point that is called first on the fresh instance (ntresponse, hash, string,
	// lmresponse); the others follow in the fixed order, then all of them are called a second time.
	First string `json:"first,omitempty"`
}

func (c v1Case) ctor() string {
	if c.Ctor != "" {
		return c.Ctor
	}
	if c.Password != "" {
		return "password"
	}
	return "nthash"
}

func genChallenge(t *rapid.T, label string) vf.Hex {
	switch rapid.IntRange(0, 9).Draw(t, label+"Class") {
	case 0:
		return make([]byte, 8)
	case 1:
		return bytes.Repeat([]byte{0xFF}, 8)
	default:
		return rapid.SliceOfN(rapid.Byte(), 8, 8).Draw(t, label)
	}
}

// genASCIIPasswordMin draws a 7-bit ASCII password of at least min characters: mostly up to 20, one in
// twelve from a long tail (LM truncates at 14, NT does not truncate at all).
func genASCIIPasswordMin(t *rapid.T, min int) string {
	n := rapid.IntRange(min, 20).Draw(t, "pwlen")
	if rapid.IntRange(0, 11).Draw(t, "pwlenClass") == 11 {
		n = rapid.IntRange(21, 300).Draw(t, "pwlenLong")
	}
	b := make([]byte, n)
	for i := range b {
		b[i] = byte(rapid.IntRange(0x20, 0x7e).Draw(t, "pwch"))
	}
	return string(b)
}

func genASCIIPassword(t *rapid.T) string { return genASCIIPasswordMin(t, 0) }

func exactCap(b []byte) []byte { o := make([]byte, len(b)); copy(o, b); return o[:len(b):len(b)] }

var v1EntryPoints = []string{"ntresponse", "hash", "string", "lmresponse"}

func checkV1(c v1Case) []vf.Finding {
	var fs []vf.Finding
	var nt [16]byte
	var inst *ntlmv1.NTLMv1
	var err error
	ctor := c.ctor()
	switch ctor {
	case "password":
		nt = refcrypto.NT(c.Password)
		inst, err = ntlmv1.NewNTLMv1WithPassword("DOM", "user", c.Password, exactCap(c.Challenge))
	case "literal":
		nt = refcrypto.NT(c.Password)
		inst = &ntlmv1.NTLMv1{Domain: "DOM", Username: "user", Password: c.Password, ServerChallenge: exactCap(c.Challenge)}
	case "nthash":
		copy(nt[:], c.NTHash)
		inst, err = ntlmv1.NewNTLMv1WithNTHash("DOM", "user", exactCap(c.NTHash), exactCap(c.Challenge))
	default:
		return []vf.Finding{vf.F("harness", "bad-case", "constructor %q", c.Ctor)}
	}
	if err != nil {
		return []vf.Finding{vf.F("ntlmv1.New", "valid-input-rejected", "%v", err)}
	}
	want := refcrypto.DESL(nt[:], c.Challenge)
	wantLM := refcrypto.DESL(refcrypto.LM(c.Password), c.Challenge)
	// the entry points, First first; the LM response is defined only for instances that know the password
	var order []string
	for _, e := range v1EntryPoints {
		if e == c.First {
			order = append([]string{e}, order...)
		} else {
			order = append(order, e)
		}
	}
	call := func(e string, kind string) {
		switch e {
		case "ntresponse":
			ntr, err := inst.NTResponse()
			if err != nil || !bytes.Equal(ntr, want) {
				fs = append(fs, vf.F("NTLMv1.NTResponse", kind, "%s instance, hash %x challenge %x, call order %v: got %x (err %v) want %x", ctor, nt, []byte(c.Challenge), order, ntr, err, want))
			}
		case "hash":
			h, err := inst.Hash()
			if err != nil || !bytes.Equal(h, want) {
				fs = append(fs, vf.F("NTLMv1.Hash", kind, "%s instance, hash %x challenge %x, call order %v: got %x (err %v) want %x", ctor, nt, []byte(c.Challenge), order, h, err, want))
			}
		case "string":
			if s := inst.String(); !strings.EqualFold(s, hex.EncodeToString(want)) {
				fs = append(fs, vf.F("NTLMv1.String", kind, "%s instance, call order %v: got %s want %x", ctor, order, s, want))
			}
		case "lmresponse":
			if ctor == "nthash" {
				return
			}
			lmr, err := inst.LMResponse()
			if err != nil || !bytes.Equal(lmr, wantLM) {
				fs = append(fs, vf.F("NTLMv1.LMResponse", kind, "%s instance, pw %q challenge %x, call order %v: got %x (err %v) want %x", ctor, c.Password, []byte(c.Challenge), order, lmr, err, wantLM))
			}
		}
	}
	for _, e := range order {
		call(e, "differs-from-DESL")
	}
	if len(fs) > 0 {
		return fs
	}
	// order independence: every entry point again on the same instance, after all the others have run
	for _, e := range order {
		call(e, "changes-after-other-entry-points")
	}
	if !bytes.Equal(inst.ServerChallenge, c.Challenge) {
		fs = append(fs, vf.F("NTLMv1", "server-challenge-modified", "%x", inst.ServerChallenge))
	}
	return fs
}

func v1Nontrivial(c v1Case) bool {
	h := c.NTHash
	if c.ctor() != "nthash" {
		x := refcrypto.NT(c.Password)
		h = x[:]
	}
	if len(h) != 16 {
		return false
	}
	nz := func(b []byte) bool { return !bytes.Equal(b, make([]byte, len(b))) }
	return nz(h[:7]) && nz(h[7:14]) && nz(h[14:])
}

func TestV1(t *testing.T) {
	s := vf.Begin(t, P, "v1-desl")
	vf.Rapid(s, vf.N(8000, 150000), func(t *rapid.T) v1Case {
		c := v1Case{Challenge: genChallenge(t, "chal")}
		c.Ctor = rapid.SampledFrom([]string{"password", "password", "nthash", "nthash", "literal"}).Draw(t, "ctor")
		c.First = rapid.SampledFrom(v1EntryPoints).Draw(t, "first")
		switch c.Ctor {
		case "password":
			// the empty password is a password like any other (NT = MD4(""), LM = the two halves of DES(0^7, magic))
			c.Password = genASCIIPassword(t)
		case "literal":
			// every entry point derives the NT hash of such an instance from the password (Hash documents it;
			// NTResponse panicked before fc567d6); all of them refuse the empty password, so it is not drawn
			c.Password = genASCIIPasswordMin(t, 1)
			c.First = rapid.SampledFrom(v1EntryPoints).Draw(t, "firstLiteral")
		default:
			c.NTHash = rapid.SliceOfN(rapid.Byte(), 16, 16).Draw(t, "nt")
			// hashes whose last two bytes / key thirds are special
			switch rapid.IntRange(0, 5).Draw(t, "hashClass") {
			case 0:
				copy(c.NTHash[14:], []byte{0, 0})
			case 1:
				copy(c.NTHash[14:], []byte{0xFF, 0xFF})
			}
		}
		s.Class("ctor:" + c.Ctor)
		if c.Ctor != "nthash" && c.Password == "" {
			s.Class("empty-password")
		}
		return c
	}, checkV1, v1Nontrivial)
}

// ---- NTLMv2 (crypto/ntlmv2) ------------------------------------------------------------------------

type v2Case struct {
	Domain          string `json:"domain"`
	User            string `json:"user"`
	Password        string `json:"password"`
	ServerChallenge vf.Hex `json:"server_challenge"`
	ClientChallenge vf.Hex `json:"client_challenge"`
}

func genName(t *rapid.T, label string) string {
	s := alpha.String(t, label, 12, ":")
	switch rapid.IntRange(0, 3).Draw(t, label+"Case") {
	case 0:
		return alpha.UpperString(s)
	case 1:
		return alpha.LowerString(s)
	}
	return s
}

func genV2(t *rapid.T) v2Case {
	return v2Case{genName(t, "domain"), genName(t, "user"), alpha.String(t, "pw", 16, ""), genChallenge(t, "srv"), genChallenge(t, "cli")}
}

func v2Nontrivial(c v2Case) bool {
	return alpha.HasLower(c.Domain) || alpha.HasLower(c.User) || alpha.HasNonASCII(c.Domain+c.User)
}

func arr8(b []byte) (a [8]byte) { copy(a[:], b); return }

func kindOf(problem string) string {
	if i := strings.IndexByte(problem, ':'); i > 0 {
		return problem[:i]
	}
	return problem
}

func checkV2(c v2Case) []vf.Finding {
	var fs []vf.Finding
	inst, err := ntlmv2.NewNTLMv2(c.Domain, c.User, c.Password, arr8(c.ServerChallenge), arr8(c.ClientChallenge))
	if err != nil {
		return []vf.Finding{vf.F("ntlmv2.NewNTLMv2", "valid-input-rejected", "%v", err)}
	}
	resp, err := inst.Hash()
	if err != nil {
		return []vf.Finding{vf.F("NTLMv2.Hash", "error", "%v", err)}
	}
	nt := refcrypto.NT(c.Password)
	for _, p := range nlmp.VerifyNTLMv2(nt, c.User, c.Domain, c.ServerChallenge, resp, c.ClientChallenge) {
		fs = append(fs, vf.F("NTLMv2.Hash", kindOf(p), "user %q domain %q: %s", c.User, c.Domain, p))
	}
	// the hex form is a response in its own right (the blob carries a fresh timestamp, so it need not equal
	// resp byte for byte): it goes through the same verifier
	if hx, err := inst.HashHex(); err != nil || len(hx) != 2*len(resp) {
		fs = append(fs, vf.F("NTLMv2.HashHex", "hex-form-wrong-length", "%d hex digits (err %v)", len(hx), err))
	} else if b, err := hex.DecodeString(hx); err != nil {
		fs = append(fs, vf.F("NTLMv2.HashHex", "hex-form-not-hex", "%q: %v", hx, err))
	} else {
		if len(b) >= 16+8 && !bytes.Equal(b[16:24], resp[16:24]) {
			fs = append(fs, vf.F("NTLMv2.HashHex", "hex-form-differs", "blob header differs"))
		}
		for _, p := range nlmp.VerifyNTLMv2(nt, c.User, c.Domain, c.ServerChallenge, b, c.ClientChallenge) {
			fs = append(fs, vf.F("NTLMv2.HashHex", kindOf(p), "user %q domain %q: %s", c.User, c.Domain, p))
		}
	}
	// Hash again after the other output forms: still a response that verifies
	if again, err := inst.Hash(); err != nil {
		fs = append(fs, vf.F("NTLMv2.Hash", "error", "second call: %v", err))
	} else {
		for _, p := range nlmp.VerifyNTLMv2(nt, c.User, c.Domain, c.ServerChallenge, again, c.ClientChallenge) {
			fs = append(fs, vf.F("NTLMv2.Hash", kindOf(p), "second call, user %q domain %q: %s", c.User, c.Domain, p))
		}
	}
	// exported key = NTOWFv2
	if want := refcrypto.NTOWFv2(nt, c.User, c.Domain); !bytes.Equal(inst.ResponseKeyNT[:], want) {
		fs = append(fs, vf.F("NTLMv2.ResponseKeyNT", "differs-from-NTOWFv2", "user %q domain %q: got %x want %x", c.User, c.Domain, inst.ResponseKeyNT, want))
	}
	// hashcat line
	line, err := inst.ToHashcatString()
	if err != nil {
		fs = append(fs, vf.F("NTLMv2.ToHashcatString", "error", "%v", err))
		return fs
	}
	h, err := nlmp.ParseHashcat5600(line)
	if err != nil {
		fs = append(fs, vf.F("NTLMv2.ToHashcatString", "not-hashcat-5600-format", "%v; line %q", err, line))
		return fs
	}
	if !bytes.Equal(h.ServerChallenge, c.ServerChallenge) {
		fs = append(fs, vf.F("NTLMv2.ToHashcatString", "hashcat-server-challenge-differs", "%x", h.ServerChallenge))
	}
	key := refcrypto.NTOWFv2(nt, h.User, h.Domain)
	if want := refcrypto.HMACMD5(key, h.ServerChallenge, h.Blob); !bytes.Equal(want, h.Proof) {
		fs = append(fs, vf.F("NTLMv2.ToHashcatString", "hashcat-line-does-not-verify", "line %q: proof %x, recomputed %x", line, h.Proof, want))
	}
	for _, p := range nlmp.CheckBlob(h.Blob, c.ClientChallenge) {
		fs = append(fs, vf.F("NTLMv2.ToHashcatString", "hashcat-"+kindOf(p), "%s", p))
	}
	return fs
}

func TestV2(t *testing.T) {
	s := vf.Begin(t, P, "v2-verify")
	vf.Rapid(s, vf.N(8000, 150000), genV2, checkV2, v2Nontrivial)
}

// ---- AUTHENTICATE messages of the ntlm package -------------------------------------------------------

type authCase struct {
	Flags           uint32 `json:"challenge_flags"`
	ServerChallenge vf.Hex `json:"server_challenge"`
	TargetInfo      []av   `json:"target_info"`
	User            string `json:"user"`
	Password        string `json:"password"`
	Domain          string `json:"domain"`
	Workstation     string `json:"workstation"`
}
type av struct {
	ID    uint16 `json:"id"`
	Value vf.Hex `json:"value"`
}

func decodeName(b []byte, unicode bool) string {
	if !unicode {
		return string(b)
	}
	var rs []rune
	for i := 0; i+1 < len(b); i += 2 {
		u := rune(b[i]) | rune(b[i+1])<<8
		if u >= 0xD800 && u < 0xDC00 && i+3 < len(b) {
			lo := rune(b[i+2]) | rune(b[i+3])<<8
			rs = append(rs, 0x10000+(u-0xD800)<<10+(lo-0xDC00))
			i += 2
			continue
		}
		rs = append(rs, u)
	}
	return string(rs)
}

func checkAuth(c authCase) []vf.Finding {
	var pairs []nlmp.AvPair
	for _, p := range c.TargetInfo {
		pairs = append(pairs, nlmp.AvPair{ID: p.ID, Value: p.Value})
	}
	ch := &nlmp.Challenge{Flags: c.Flags, TargetInfo: nlmp.EncodeAvPairs(pairs)}
	copy(ch.ServerChallenge[:], c.ServerChallenge)
	parsed, err := ntlm.ParseChallengeMessage(ch.Build())
	if err != nil {
		return []vf.Finding{vf.F("ntlm.ParseChallengeMessage", "well-formed-challenge-rejected", "%v", err)}
	}
	msg, err := ntlm.CreateAuthenticateMessage(parsed, c.User, c.Password, c.Domain, c.Workstation)
	if err != nil {
		return []vf.Finding{vf.F("ntlm.CreateAuthenticateMessage", "error", "%v", err)}
	}
	a, problems := nlmp.ParseAuthenticate(msg)
	if a == nil || len(problems) > 0 {
		return []vf.Finding{vf.F("ntlm.CreateAuthenticateMessage", "authenticate-structure-invalid", "%v", problems)}
	}
	var fs []vf.Finding
	nt := refcrypto.NT(c.Password)
	unicode := c.Flags&nlmp.FlagUnicode != 0
	// the server takes user and domain from the message it received
	user := decodeName(a.User.Data, unicode)
	domain := decodeName(a.Domain.Data, unicode)
	if c.Flags&nlmp.FlagExtSec == 0 {
		// NTLMv1
		if want := refcrypto.DESL(nt[:], c.ServerChallenge); !bytes.Equal(a.NT.Data, want) {
			fs = append(fs, vf.F("ntlm.CreateAuthenticateMessage", "v1-nt-response-differs-from-DESL", "got %x want %x", a.NT.Data, want))
		}
		if want := refcrypto.DESL(refcrypto.LM(c.Password), c.ServerChallenge); !bytes.Equal(a.LM.Data, want) {
			fs = append(fs, vf.F("ntlm.CreateAuthenticateMessage", "v1-lm-response-differs-from-DESL", "got %x want %x", a.LM.Data, want))
		}
		return fs
	}
	for _, p := range nlmp.VerifyNTLMv2(nt, user, domain, c.ServerChallenge, a.NT.Data, nil) {
		fs = append(fs, vf.F("ntlm.CreateAuthenticateMessage", "v2-nt-"+kindOf(p), "user %q domain %q (as carried in the message): %s", user, domain, p))
	}
	// the blob must carry the server's target info: the challenge's pairs, values equal, in their order; a
	// client may add pairs of its own (MS-NLMP 3.1.5.1.2: channel bindings, target name, flags), so the
	// challenge's list is looked for as a sub-sequence. That the blob's list is well-formed is VerifyNTLMv2's.
	if len(a.NT.Data) >= 44 {
		got, _, err := nlmp.ParseAvPairs(a.NT.Data[44:])
		if err == nil {
			if i := missingPair(got, pairs); i >= 0 {
				fs = append(fs, vf.F("ntlm.CreateAuthenticateMessage", "v2-blob-target-info-differs", "pair %d of the challenge (id %d, %d bytes) not found in order among the %d pairs of the blob", i, pairs[i].ID, len(pairs[i].Value), len(got)))
			}
		}
	}
	// LmChallengeResponse: LMv2 = HMAC_MD5(NTOWFv2, server challenge || client challenge) || client challenge,
	// or Z(24) (MS-NLMP 3.1.5.1.2 prescribes it when the target info carries MsvAvTimestamp; a server that
	// finds a verifying NTLMv2 response does not look at it). Anything else is a response that fails.
	if len(a.LM.Data) != 24 {
		fs = append(fs, vf.F("ntlm.CreateAuthenticateMessage", "v2-lm-response-length", "%d bytes, want 24", len(a.LM.Data)))
	} else if !bytes.Equal(a.LM.Data, make([]byte, 24)) {
		key := refcrypto.NTOWFv2(nt, user, domain)
		if want := refcrypto.HMACMD5(key, c.ServerChallenge, a.LM.Data[16:]); !bytes.Equal(want, a.LM.Data[:16]) {
			fs = append(fs, vf.F("ntlm.CreateAuthenticateMessage", "v2-lm-proof-mismatch", "got %x want %x (or 24 zero bytes)", a.LM.Data[:16], want))
		}
	}
	// identity carried in the message is the supplied one, modulo letter case (NTOWFv2 upper-cases the user
	// name, and the property does not say in which case the field carries it; C08 compares it exactly)
	if alpha.UpperString(user) != alpha.UpperString(c.User) {
		fs = append(fs, vf.F("ntlm.CreateAuthenticateMessage", "user-name-not-as-supplied", "got %q want %q", user, c.User))
	}
	if alpha.UpperString(domain) != alpha.UpperString(c.Domain) {
		fs = append(fs, vf.F("ntlm.CreateAuthenticateMessage", "domain-name-not-as-supplied", "got %q want %q", domain, c.Domain))
	}
	return fs
}

// missingPair looks for want as a sub-sequence of got (ids and values equal, order kept) and returns the index
// of the first pair of want that has no place in it, or -1.
func missingPair(got, want []nlmp.AvPair) int {
	j := 0
	for i, w := range want {
		for j < len(got) && !(got[j].ID == w.ID && bytes.Equal(got[j].Value, w.Value)) {
			j++
		}
		if j == len(got) {
			return i
		}
		j++
	}
	return -1
}

func genAuth(t *rapid.T, v2 bool) authCase {
	c := authCase{ServerChallenge: genChallenge(t, "srv"), Flags: nlmp.FlagNTLM | nlmp.FlagTargetInf}
	if v2 {
		c.Flags |= nlmp.FlagExtSec
	}
	unicode := rapid.Bool().Draw(t, "unicode")
	if unicode {
		c.Flags |= nlmp.FlagUnicode
	} else {
		c.Flags |= nlmp.FlagOEM
	}
	if rapid.Bool().Draw(t, "version") {
		c.Flags |= nlmp.FlagVersion
	}
	name := func(label string) string {
		if unicode {
			return genName(t, label)
		}
		// OEM: 7-bit ASCII only
		n := rapid.IntRange(0, 10).Draw(t, label+"Len")
		if rapid.IntRange(0, 11).Draw(t, label+"LenClass") == 11 {
			n = rapid.IntRange(11, 300).Draw(t, label+"LongLen")
		}
		b := make([]byte, n)
		for i := range b {
			b[i] = byte(rapid.IntRange(0x21, 0x7e).Draw(t, label+"Ch"))
			if b[i] == ':' {
				b[i] = '_'
			}
		}
		return string(b)
	}
	c.User, c.Domain, c.Workstation = name("user"), name("domain"), name("ws")
	if v2 {
		c.Password = alpha.String(t, "pw", 16, "")
	} else {
		c.Password = genASCIIPassword(t)
	}
	ids := rapid.Permutation([]uint16{1, 2, 3, 4, 5, 6, 7, 9, 10}).Draw(t, "avIds")
	for i, n := 0, rapid.IntRange(0, 5).Draw(t, "nav"); i < n; i++ {
		l := rapid.IntRange(0, 40).Draw(t, "avLen")
		c.TargetInfo = append(c.TargetInfo, av{ids[i], rapid.SliceOfN(rapid.Byte(), l, l).Draw(t, "avVal")})
	}
	return c
}

func TestAuthMsgV1(t *testing.T) {
	s := vf.Begin(t, P, "auth-msg-v1")
	vf.Rapid(s, vf.N(3000, 60000), func(t *rapid.T) authCase { return genAuth(t, false) }, checkAuth, func(c authCase) bool { return len(c.Password) > 7 })
}

func TestAuthMsgV2(t *testing.T) {
	s := vf.Begin(t, P, "auth-msg-v2")
	vf.Rapid(s, vf.N(3000, 60000), func(t *rapid.T) authCase { return genAuth(t, true) }, checkAuth,
		func(c authCase) bool { return len(c.TargetInfo) > 0 || alpha.HasLower(c.Domain+c.User) })
}
