// Package c12: RC4, CMAC, PKCS#7 and GPP-AES match their standards and invert each other.
package c12

import (
	"bytes"
	"crypto/aes"
	"crypto/cipher"
	"crypto/des"
	stdrc4 "crypto/rc4"
	"encoding/base64"
	"fmt"
	"hash"
	"strings"
	"testing"
	"time"
	"unicode/utf8"

	"pgregory.net/rapid"

	"github.com/TheManticoreProject/Manticore/crypto/cmac"
	"github.com/TheManticoreProject/Manticore/crypto/gppp"
	"github.com/TheManticoreProject/Manticore/crypto/pkcs7"
	"github.com/TheManticoreProject/Manticore/crypto/rc4"

	"manticoreverif/ref/alpha"
	"manticoreverif/ref/refcrypto"
	"manticoreverif/vf"
)

const P = "C12"

func genBytes(t *rapid.T, label string, n int) vf.Hex {
	return rapid.SliceOfN(rapid.Byte(), n, n).Draw(t, label)
}

func genSizes(t *rapid.T, n int, maxChunks int) []int {
	k := rapid.IntRange(1, maxChunks).Draw(t, "chunks")
	cuts := make([]int, k-1)
	for i := range cuts {
		cuts[i] = rapid.IntRange(0, n).Draw(t, "cut")
	}
	for i := range cuts {
		for j := i + 1; j < len(cuts); j++ {
			if cuts[j] < cuts[i] {
				cuts[i], cuts[j] = cuts[j], cuts[i]
			}
		}
	}
	var sizes []int
	prev := 0
	for _, c := range cuts {
		sizes = append(sizes, c-prev)
		prev = c
	}
	return append(sizes, n-prev)
}

func nonEmpty(plan []int) int {
	k := 0
	for _, p := range plan {
		if p > 0 {
			k++
		}
	}
	return k
}

// ---- RC4 -------------------------------------------------------------------

type rc4Case struct {
	Key     vf.Hex `json:"key"`
	Data    vf.Hex `json:"data"`
	Plan    []int  `json:"plan"`
	InPlace bool   `json:"in_place"`
	// DstExtra[i] is by how many bytes the destination of call i is longer than its source (cipher.Stream
	// allows len(dst) > len(src)); missing entries are 0.
	DstExtra []int `json:"dst_extra,omitempty"`
	// Spare > 0: every destination and source slice has that many bytes of capacity beyond its length, filled
	// with sentinel bytes that must still be there after the call; 0: capacity == length.
	Spare int `json:"spare_cap,omitempty"`
}

func sentinel(i int) byte { return byte(0xA5 ^ i*29) }

// withSpare returns a slice of n bytes (zero) whose backing array goes on for spare sentinel bytes.
func withSpare(n, spare int) []byte {
	b := make([]byte, n+spare)
	for i := n; i < len(b); i++ {
		b[i] = sentinel(i)
	}
	return b[:n]
}

// spareIntact: are the bytes between len and cap still the sentinels withSpare put there?
func spareIntact(b []byte) (int, bool) {
	full := b[:cap(b)]
	for i := len(b); i < len(full); i++ {
		if full[i] != sentinel(i) {
			return i, false
		}
	}
	return 0, true
}

// wipe overwrites a buffer that was handed to a constructor: a cipher that has been constructed owns its key
// schedule and no longer looks at the caller's bytes (crypto/rc4, crypto/aes do not either).
func wipe(b []byte) {
	for i := range b {
		b[i] = ^b[i]
	}
}

func checkRC4(c rc4Case) []vf.Finding {
	ref, err := stdrc4.NewCipher(c.Key)
	if err != nil {
		return []vf.Finding{vf.F("harness", "bad-case", "%v", err)}
	}
	want := make([]byte, len(c.Data))
	ref.XORKeyStream(want, c.Data)
	keyCopy := append([]byte{}, c.Key...)
	lib, err := rc4.NewRC4WithKey(keyCopy)
	if err != nil {
		return []vf.Finding{vf.F("rc4.NewRC4WithKey", "valid-key-rejected", "key length %d: %v", len(c.Key), err)}
	}
	wipe(keyCopy) // the caller's buffer is the caller's again
	spare := max(c.Spare, 0)
	got := make([]byte, 0, len(c.Data))
	type kept struct {
		out []byte // the slice the library wrote to, kept until the end
		off int
	}
	var outs []kept
	off := 0
	for ci, sz := range c.Plan {
		extra := 0
		if ci < len(c.DstExtra) && c.DstExtra[ci] > 0 {
			extra = c.DstExtra[ci]
		}
		dst := withSpare(sz+extra, spare)
		var src []byte
		if c.InPlace {
			copy(dst, c.Data[off:off+sz])
			src = dst[:sz]
		} else {
			src = withSpare(sz, spare)
			copy(src, c.Data[off:off+sz])
		}
		for i := sz; i < len(dst); i++ {
			dst[i] = sentinel(i)
		}
		lib.XORKeyStream(dst, src)
		if !c.InPlace && !bytes.Equal(src, c.Data[off:off+sz]) {
			return []vf.Finding{vf.F("rc4.XORKeyStream", "source-modified", "chunk at %d", off)}
		}
		for _, b := range [][]byte{dst, src} {
			if i, ok := spareIntact(b); !ok {
				return []vf.Finding{vf.F("rc4.XORKeyStream", "writes-beyond-len", "call %d: src %d bytes, dst %d bytes, %d bytes of spare capacity each: byte %d of a backing array (beyond the slice's length) changed", ci, sz, len(dst), spare, i)}
			}
		}
		for i := sz; i < len(dst); i++ {
			if dst[i] != sentinel(i) {
				return []vf.Finding{vf.F("rc4.XORKeyStream", "writes-beyond-len-src", "call %d: src %d bytes, dst %d bytes: dst[%d] changed", ci, sz, len(dst), i)}
			}
		}
		got = append(got, dst[:sz]...)
		outs = append(outs, kept{dst[:sz], off})
		off += sz
	}
	if !bytes.Equal(got, want) {
		i := 0
		for i < len(got) && got[i] == want[i] {
			i++
		}
		return []vf.Finding{vf.F("rc4.XORKeyStream", "keystream-differs-from-rc4", "keylen %d datalen %d plan %v dst extra %v in place %v: first difference at byte %d", len(c.Key), len(c.Data), c.Plan, c.DstExtra, c.InPlace, i)}
	}
	// what an earlier call returned is not touched by later calls
	for ci, k := range outs {
		if !bytes.Equal(k.out, want[k.off:k.off+len(k.out)]) {
			return []vf.Finding{vf.F("rc4.XORKeyStream", "earlier-output-changed-by-later-call", "output of call %d (%d bytes at %d) changed afterwards; plan %v", ci, len(k.out), k.off, c.Plan)}
		}
	}
	// involution: a second cipher with the same key decrypts
	key2 := append([]byte{}, c.Key...)
	lib2, _ := rc4.NewRC4WithKey(key2)
	wipe(key2)
	back := make([]byte, len(got))
	lib2.XORKeyStream(back, got)
	if !bytes.Equal(back, c.Data) {
		return []vf.Finding{vf.F("rc4.XORKeyStream", "not-an-involution", "keylen %d datalen %d", len(c.Key), len(c.Data))}
	}
	return nil
}

func genKeyLen(t *rapid.T) int {
	switch rapid.IntRange(0, 2).Draw(t, "klClass") {
	case 0:
		return rapid.SampledFrom([]int{1, 2, 5, 8, 16, 32, 128, 255, 256}).Draw(t, "kl")
	default:
		return rapid.IntRange(1, 256).Draw(t, "kl")
	}
}

// genExtra: how much longer than the source a destination is (half the time not at all)
func genExtra(t *rapid.T) int {
	switch rapid.IntRange(0, 3).Draw(t, "extraClass") {
	case 2:
		return rapid.IntRange(1, 8).Draw(t, "extra")
	case 3:
		return rapid.IntRange(1, 600).Draw(t, "extra")
	}
	return 0
}

func genRC4(t *rapid.T) rc4Case {
	kl := genKeyLen(t)
	dl := rapid.SampledFrom([]int{0, 1, 255, 256, 257, 1000, -1, -1, -1}).Draw(t, "dl")
	if dl < 0 {
		dl = rapid.IntRange(0, 8192).Draw(t, "dlen")
	}
	c := rc4Case{Key: genBytes(t, "key", kl), Data: genBytes(t, "data", dl), Plan: genSizes(t, dl, 6), InPlace: rapid.Bool().Draw(t, "inplace")}
	if rapid.Bool().Draw(t, "longerDst") {
		for range c.Plan {
			c.DstExtra = append(c.DstExtra, genExtra(t))
		}
	}
	// exact-capacity buffers (an over-read or over-write past len panics) alternate with buffers that have
	// spare capacity (a write past len lands in the sentinels)
	if rapid.Bool().Draw(t, "spareCap") {
		c.Spare = rapid.SampledFrom([]int{1, 8, 64, 300}).Draw(t, "spare")
	}
	return c
}

// a longer destination matters when another call follows it
func hasExtra(c rc4Case) bool {
	for i, x := range c.DstExtra {
		if x > 0 && i+1 < len(c.Plan) {
			return true
		}
	}
	return false
}

func TestRC4(t *testing.T) {
	s := vf.Begin(t, P, "rc4")
	vf.Rapid(s, vf.N(10000, 80000), func(t *rapid.T) rc4Case {
		c := genRC4(t)
		if hasExtra(c) {
			s.Class("dst-longer-than-src-then-another-call")
		}
		return c
	}, checkRC4, func(c rc4Case) bool { return nonEmpty(c.Plan) >= 2 })
}

// every key length 1..256 against the standard cipher, 600 bytes in 3 chunks
func TestRC4KeyLengthsExhaustive(t *testing.T) {
	s := vf.Begin(t, P, "rc4-keylen-exhaustive")
	s.SetExhaustive()
	vf.Enum(s, func(yield func(rc4Case)) {
		for kl := 1; kl <= 256; kl++ {
			key := make([]byte, kl)
			for i := range key {
				key[i] = byte(i*31 + kl)
			}
			data := make([]byte, 600)
			for i := range data {
				data[i] = byte(i ^ kl)
			}
			c := rc4Case{Key: key, Data: data, Plan: []int{1, 255, 344}, InPlace: kl%2 == 0}
			if kl%3 == 0 {
				c.DstExtra = []int{kl, 0, 1}
			}
			if kl%4 >= 2 {
				c.Spare = kl
			}
			yield(c)
		}
	}, checkRC4, nil)
}

// ---- rc4-single-call-sizes (deterministic) ------------------------------------------------------------
//
// The random sub-checks keep a case's data within 8 KiB. Here one XORKeyStream call carries a length around and
// beyond 2^16 (where a 16-bit position or counter wraps), followed by a short second call that continues the
// stream. A call that does not come back is a finding of its own (10 s of CPU time for what takes a
// millisecond); after the first such call the remaining sizes are skipped, since every one of them would hold
// a core for as long.

type rc4BigCase struct {
	KeyLen  int  `json:"key_len"`
	Len     int  `json:"len"`
	Follow  int  `json:"follow"`
	InPlace bool `json:"in_place"`
}

var rc4Hung bool

func checkRC4Big(c rc4BigCase) []vf.Finding {
	if rc4Hung {
		return nil
	}
	key := make([]byte, c.KeyLen)
	for i := range key {
		key[i] = byte(i*37 + c.Len)
	}
	data := make([]byte, c.Len+c.Follow)
	for i := range data {
		data[i] = byte(i*11 + i>>8 + i>>16)
	}
	ref, err := stdrc4.NewCipher(key)
	if err != nil {
		return []vf.Finding{vf.F("harness", "bad-case", "%v", err)}
	}
	want := make([]byte, len(data))
	ref.XORKeyStream(want, data)
	lib, err := rc4.NewRC4WithKey(append([]byte{}, key...))
	if err != nil {
		return []vf.Finding{vf.F("rc4.NewRC4WithKey", "valid-key-rejected", "key length %d: %v", len(key), err)}
	}
	src := append(make([]byte, 0, c.Len), data[:c.Len]...)
	dst := src
	if !c.InPlace {
		dst = make([]byte, c.Len)
	}
	tail := make([]byte, c.Follow)
	var panicked any
	finished := vf.WithTimeout(10*time.Second, func() {
		defer func() { panicked = recover() }()
		lib.XORKeyStream(dst, src)
		lib.XORKeyStream(tail, data[c.Len:])
	})
	if !finished {
		rc4Hung = true
		return []vf.Finding{vf.F("rc4.XORKeyStream", "single-call-does-not-return", "one call with %d bytes (key length %d, in place %v) did not return within 10 s of CPU time", c.Len, c.KeyLen, c.InPlace)}
	}
	if panicked != nil {
		return []vf.Finding{vf.F("rc4.XORKeyStream", "single-call-panics", "one call with %d bytes (key length %d, in place %v): %v", c.Len, c.KeyLen, c.InPlace, panicked)}
	}
	got := append(append([]byte{}, dst...), tail...)
	if !bytes.Equal(got, want) {
		i := 0
		for got[i] == want[i] {
			i++
		}
		return []vf.Finding{vf.F("rc4.XORKeyStream", "keystream-differs-from-rc4", "one call with %d bytes, then one with %d (key length %d, in place %v): first difference at byte %d", c.Len, c.Follow, c.KeyLen, c.InPlace, i)}
	}
	return nil
}

func TestRC4SingleCallSizes(t *testing.T) {
	s := vf.Begin(t, P, "rc4-single-call-sizes")
	s.SetExhaustive()
	sizes := []int{16383, 16384, 32767, 32768, 65535, 65536, 65537, 70000, 131071, 131072, 131073, 200000}
	if vf.Thorough() {
		sizes = append(sizes, 1<<20-1, 1<<20, 1<<24+1)
	}
	s.Note("one XORKeyStream call of %v bytes (separate and in-place destination, key lengths 5 and 256), then a 33-byte call on the same cipher", sizes)
	vf.Enum(s, func(yield func(rc4BigCase)) {
		for _, n := range sizes {
			yield(rc4BigCase{5, n, 33, false})
			yield(rc4BigCase{256, n, 33, true})
		}
	}, checkRC4Big, nil)
}

type rc4BadKey struct {
	Len int `json:"len"`
}

// key sizes outside 1..256 only have to be handled cleanly (error, no panic)
func TestRC4BadKeySizes(t *testing.T) {
	s := vf.Begin(t, P, "rc4-bad-keysize")
	s.SetExhaustive()
	vf.Enum(s, func(yield func(rc4BadKey)) {
		for _, n := range []int{0, 257, 258, 1024} {
			yield(rc4BadKey{n})
		}
	}, func(c rc4BadKey) []vf.Finding {
		// what comes back next to the error is not judged (nil or an unkeyed instance)
		_, err := rc4.NewRC4WithKey(make([]byte, c.Len))
		if err == nil {
			return []vf.Finding{vf.F("rc4.NewRC4WithKey", "invalid-key-size-accepted", "len %d", c.Len)}
		}
		return nil
	}, nil)
}

// several ciphers with different keys alive at once, used in an interleaved order and re-created on the way:
// each keeps its own permutation and position
type rc4InstOp struct {
	Inst  int    `json:"inst"`
	Kind  string `json:"op"` // x: XORKeyStream(Data); new: re-create this instance from its key
	Data  vf.Hex `json:"data,omitempty"`
	Extra int    `json:"dst_extra,omitempty"`
}
type rc4InstCase struct {
	Keys []vf.Hex    `json:"keys"`
	Ops  []rc4InstOp `json:"ops"`
}

func rc4InstKinds(ops []rc4InstOp) string {
	var sb strings.Builder
	for _, o := range ops {
		if o.Kind == "x" {
			fmt.Fprintf(&sb, "%d:x%d ", o.Inst, len(o.Data))
		} else {
			fmt.Fprintf(&sb, "%d:%s ", o.Inst, o.Kind)
		}
	}
	return sb.String()
}

func checkRC4Instances(c rc4InstCase) []vf.Finding {
	n := len(c.Keys)
	if n < 1 || n > 8 {
		return []vf.Finding{vf.F("harness", "bad-case", "%d instances", n)}
	}
	libs := make([]*rc4.RC4, n)
	refs := make([]*stdrc4.Cipher, n)
	mk := func(i int) []vf.Finding {
		var err error
		if refs[i], err = stdrc4.NewCipher(c.Keys[i]); err != nil {
			return []vf.Finding{vf.F("harness", "bad-case", "%v", err)}
		}
		key := append([]byte{}, c.Keys[i]...)
		if libs[i], err = rc4.NewRC4WithKey(key); err != nil {
			return []vf.Finding{vf.F("rc4.NewRC4WithKey", "valid-key-rejected", "key length %d: %v", len(c.Keys[i]), err)}
		}
		wipe(key) // the buffer the key came in is reused by its owner
		return nil
	}
	for i := range libs {
		if fs := mk(i); fs != nil {
			return fs
		}
	}
	type kept struct{ got, want []byte }
	var outs []kept
	for at, o := range c.Ops {
		if o.Inst < 0 || o.Inst >= n {
			return []vf.Finding{vf.F("harness", "bad-case", "op %d addresses instance %d of %d", at, o.Inst, n)}
		}
		switch o.Kind {
		case "new":
			if fs := mk(o.Inst); fs != nil {
				return fs
			}
		case "x":
			want := make([]byte, len(o.Data))
			refs[o.Inst].XORKeyStream(want, o.Data)
			dst := make([]byte, len(o.Data)+max(o.Extra, 0))
			libs[o.Inst].XORKeyStream(dst, append([]byte{}, o.Data...))
			if !bytes.Equal(dst[:len(o.Data)], want) {
				return []vf.Finding{vf.F("rc4.XORKeyStream", "instances-not-independent", "op %d on cipher %d of %d: output differs from that cipher's own RC4 stream; ops=%s", at, o.Inst, n, rc4InstKinds(c.Ops))}
			}
			outs = append(outs, kept{dst[:len(o.Data)], want})
		}
	}
	for i, k := range outs {
		if !bytes.Equal(k.got, k.want) {
			return []vf.Finding{vf.F("rc4.XORKeyStream", "earlier-output-changed-by-later-call", "output %d changed afterwards; ops=%s", i, rc4InstKinds(c.Ops))}
		}
	}
	return nil
}

// interleaved: some instance is used, then another one, then the first again
func interleaved(insts []int) bool {
	last := map[int]int{}
	for at, i := range insts {
		if p, ok := last[i]; ok && p+1 < at {
			return true
		}
		last[i] = at
	}
	return false
}

func TestRC4Instances(t *testing.T) {
	s := vf.Begin(t, P, "rc4-instances")
	vf.Rapid(s, vf.N(4000, 60000), func(t *rapid.T) rc4InstCase {
		var c rc4InstCase
		for i, n := 0, rapid.IntRange(2, 3).Draw(t, "instances"); i < n; i++ {
			c.Keys = append(c.Keys, genBytes(t, "key", genKeyLen(t)))
		}
		for i, n := 0, rapid.IntRange(2, 10).Draw(t, "nops"); i < n; i++ {
			o := rc4InstOp{Inst: rapid.IntRange(0, len(c.Keys)-1).Draw(t, "inst"), Kind: "x"}
			if rapid.IntRange(0, 7).Draw(t, "kind") == 7 {
				o.Kind = "new"
			} else {
				ln := rapid.SampledFrom([]int{0, 1, 255, 256, 257, -1, -1, -1}).Draw(t, "dl")
				if ln < 0 {
					ln = rapid.IntRange(0, 600).Draw(t, "dlen")
				}
				o.Data = genBytes(t, "data", ln)
				o.Extra = genExtra(t)
			}
			c.Ops = append(c.Ops, o)
		}
		return c
	}, checkRC4Instances, func(c rc4InstCase) bool {
		var insts []int
		for _, o := range c.Ops {
			insts = append(insts, o.Inst)
		}
		return interleaved(insts)
	})
}

// ---- CMAC ------------------------------------------------------------------

type cmacCase struct {
	Cipher string `json:"cipher"` // aes128 aes192 aes256 des tdea
	Key    vf.Hex `json:"key"`
	Ops    []cop  `json:"ops"`
}
type cop struct {
	Kind string `json:"op"` // w, sum, sumprefix, reset
	Data vf.Hex `json:"data,omitempty"`
	// Spare (sumprefix, w): the slice handed over has that many bytes of capacity beyond its length, holding
	// sentinel bytes; 0: capacity == length. With room for a digest, Sum(prefix) may append in place.
	Spare int `json:"spare_cap,omitempty"`
}

func mkCipher(name string, key []byte) (cipher.Block, error) {
	switch name {
	case "aes128", "aes192", "aes256":
		return aes.NewCipher(key)
	case "des":
		return des.NewCipher(key)
	default:
		return des.NewTripleDESCipher(key)
	}
}

func keyLen(name string) int {
	return map[string]int{"aes128": 16, "aes192": 24, "aes256": 32, "des": 8, "tdea": 24}[name]
}

func checkCMAC(c cmacCase) []vf.Finding {
	key := append([]byte{}, c.Key...)
	blk, err := mkCipher(c.Cipher, key)
	if err != nil {
		return []vf.Finding{vf.F("harness", "bad-case", "%v", err)}
	}
	blk2, _ := mkCipher(c.Cipher, c.Key)
	h := cmac.New(blk)
	wipe(key) // the key bytes are the caller's again once the MAC exists
	if h.Size() != blk.BlockSize() {
		return []vf.Finding{vf.F("cmac.Size", "size-not-block-size", "%s: Size %d", c.Cipher, h.Size())}
	}
	var model []byte // bytes written since the last Reset
	type kept struct {
		at        int
		got, want []byte
	}
	var sums []kept // every slice Sum returned, kept until the end of the sequence
	for i, o := range c.Ops {
		switch o.Kind {
		case "w":
			in := withSpare(len(o.Data), max(o.Spare, 0))
			copy(in, o.Data)
			n, err := h.Write(in)
			if n != len(o.Data) || err != nil {
				return []vf.Finding{vf.F("cmac.Write", "short-write", "op %d", i)}
			}
			if _, ok := spareIntact(in); !ok || !bytes.Equal(in, o.Data) {
				return []vf.Finding{vf.F("cmac.Write", "input-modified", "op %d: %d bytes with %d bytes of spare capacity", i, len(o.Data), o.Spare)}
			}
			model = append(model, o.Data...)
		case "reset":
			h.Reset()
			model = model[:0]
		case "sum", "sumprefix":
			var prefix []byte
			if o.Kind == "sumprefix" {
				// its own backing array each time, so that an append in place disturbs nobody else's result
				prefix = withSpare(len(o.Data), max(o.Spare, 0))
				copy(prefix, o.Data)
			}
			got := h.Sum(prefix)
			want := refcrypto.CMAC(blk2, model)
			if len(got) != len(prefix)+len(want) || !bytes.Equal(got[:len(prefix)], o.Data[:len(prefix)]) || !bytes.Equal(got[len(prefix):], want) {
				return []vf.Finding{vf.F("cmac.Sum", "differs-from-rfc4493", "%s op %d (%s, %d bytes of spare capacity) after %d bytes since reset: got %x want %x%x; ops=%s", c.Cipher, i, o.Kind, o.Spare, len(model), got, prefix, want, opKinds(c.Ops))}
			}
			if !bytes.Equal(prefix, o.Data[:len(prefix)]) {
				return []vf.Finding{vf.F("cmac.Sum", "prefix-modified", "%s op %d: prefix %x is now %x", c.Cipher, i, []byte(o.Data), prefix)}
			}
			sums = append(sums, kept{i, got, append(append([]byte{}, prefix...), want...)})
		}
	}
	// a digest that was handed out does not change when the hash is used further
	for _, k := range sums {
		if !bytes.Equal(k.got, k.want) {
			return []vf.Finding{vf.F("cmac.Sum", "returned-digest-changed-by-later-call", "%s: the slice returned by op %d was %x and is now %x; ops=%s", c.Cipher, k.at, k.want, k.got, opKinds(c.Ops))}
		}
	}
	return nil
}

func opKinds(ops []cop) string {
	var sb strings.Builder
	for _, o := range ops {
		if o.Kind == "w" || o.Kind == "sumprefix" {
			fmt.Fprintf(&sb, "%s%d ", o.Kind, len(o.Data))
		} else {
			sb.WriteString(o.Kind + " ")
		}
	}
	return sb.String()
}

func genCMAC(t *rapid.T) cmacCase {
	name := rapid.SampledFrom([]string{"aes128", "aes128", "aes192", "aes256", "des", "tdea"}).Draw(t, "cipher")
	key := genBytes(t, "key", keyLen(name))
	bs := 16
	if name == "des" || name == "tdea" {
		bs = 8
	}
	n := rapid.IntRange(1, 8).Draw(t, "nops")
	var ops []cop
	for i := 0; i < n; i++ {
		switch rapid.IntRange(0, 7).Draw(t, "kind") {
		case 0, 1, 2, 3:
			var ln int
			switch rapid.IntRange(0, 2).Draw(t, "lenClass") {
			case 0:
				ln = bs*rapid.IntRange(0, 4).Draw(t, "blocks") + rapid.SampledFrom([]int{-1, 0, 1}).Draw(t, "delta")
				if ln < 0 {
					ln = 0
				}
			default:
				ln = rapid.IntRange(0, 256).Draw(t, "len")
			}
			o := cop{Kind: "w", Data: genBytes(t, "data", ln)}
			if rapid.IntRange(0, 3).Draw(t, "dataSpare") == 0 {
				o.Spare = rapid.SampledFrom([]int{1, bs, 64}).Draw(t, "spare")
			}
			ops = append(ops, o)
		case 4, 5:
			ops = append(ops, cop{Kind: "sum"})
		case 6:
			// half of the prefixes come with spare capacity: too little for the digest, just enough, plenty
			o := cop{Kind: "sumprefix", Data: genBytes(t, "prefix", rapid.IntRange(0, 20).Draw(t, "plen"))}
			if rapid.Bool().Draw(t, "prefixSpare") {
				o.Spare = rapid.SampledFrom([]int{1, bs - 1, bs, bs + 1, 64}).Draw(t, "spare")
			}
			ops = append(ops, o)
		default:
			ops = append(ops, cop{Kind: "reset"})
		}
	}
	ops = append(ops, cop{Kind: "sum"})
	return cmacCase{name, key, ops}
}

func cmacNontrivial(c cmacCase) bool {
	w, mid := 0, false
	for i, o := range c.Ops {
		if o.Kind == "w" && len(o.Data) > 0 {
			w++
		}
		if o.Kind != "w" && i+1 < len(c.Ops) {
			mid = true
		}
	}
	return w >= 2 || mid
}

func TestCMACSequence(t *testing.T) {
	s := vf.Begin(t, P, "cmac-sequence")
	vf.Rapid(s, vf.N(15000, 120000), genCMAC, checkCMAC, cmacNontrivial)
}

// all message lengths 0..4*bs+1 for each cipher, one-shot and every single cut
func TestCMACLengthsExhaustive(t *testing.T) {
	s := vf.Begin(t, P, "cmac-lengths-exhaustive")
	s.SetExhaustive()
	vf.Enum(s, func(yield func(cmacCase)) {
		for _, name := range []string{"aes128", "aes192", "aes256", "des", "tdea"} {
			key := make([]byte, keyLen(name))
			for i := range key {
				key[i] = byte(17*i + 3)
			}
			for n := 0; n <= 66; n++ {
				msg := make([]byte, n)
				for i := range msg {
					msg[i] = byte(i*5 + n)
				}
				for cut := 0; cut <= n; cut++ {
					yield(cmacCase{name, key, []cop{{Kind: "w", Data: msg[:cut]}, {Kind: "w", Data: msg[cut:]}, {Kind: "sum"}, {Kind: "sumprefix", Data: msg[:cut%5], Spare: (n % 3) * 8}}})
				}
			}
		}
	}, checkCMAC, cmacNontrivial)
}

// several MACs (different ciphers and keys) alive at once and used in an interleaved order
type cmacInst struct {
	Cipher string `json:"cipher"`
	Key    vf.Hex `json:"key"`
}
type cmacInstOp struct {
	Inst int    `json:"inst"`
	Kind string `json:"op"` // w, sum, reset, new (re-create this instance from its key)
	Data vf.Hex `json:"data,omitempty"`
}
type cmacInstCase struct {
	Insts []cmacInst   `json:"instances"`
	Ops   []cmacInstOp `json:"ops"`
}

func cmacInstKinds(ops []cmacInstOp) string {
	var sb strings.Builder
	for _, o := range ops {
		if o.Kind == "w" {
			fmt.Fprintf(&sb, "%d:w%d ", o.Inst, len(o.Data))
		} else {
			fmt.Fprintf(&sb, "%d:%s ", o.Inst, o.Kind)
		}
	}
	return sb.String()
}

type liveCMAC struct {
	h     hash.Hash
	ref   cipher.Block
	model []byte // bytes written since the last Reset
}

func checkCMACInstances(c cmacInstCase) []vf.Finding {
	n := len(c.Insts)
	if n < 1 || n > 8 {
		return []vf.Finding{vf.F("harness", "bad-case", "%d instances", n)}
	}
	ls := make([]*liveCMAC, n)
	mk := func(i int) []vf.Finding {
		blk, err := mkCipher(c.Insts[i].Cipher, c.Insts[i].Key)
		if err != nil {
			return []vf.Finding{vf.F("harness", "bad-case", "%v", err)}
		}
		blk2, _ := mkCipher(c.Insts[i].Cipher, c.Insts[i].Key)
		ls[i] = &liveCMAC{h: cmac.New(blk), ref: blk2}
		return nil
	}
	for i := range ls {
		if fs := mk(i); fs != nil {
			return fs
		}
	}
	type kept struct {
		at        int
		got, want []byte
	}
	var sums []kept
	sum := func(i, at int) []vf.Finding {
		got := ls[i].h.Sum(nil)
		want := refcrypto.CMAC(ls[i].ref, ls[i].model)
		if !bytes.Equal(got, want) {
			return []vf.Finding{vf.F("cmac.Sum", "instances-not-independent", "op %d, MAC %d of %d (%s) after %d bytes since reset: got %x want %x; ops=%s", at, i, n, c.Insts[i].Cipher, len(ls[i].model), got, want, cmacInstKinds(c.Ops))}
		}
		sums = append(sums, kept{at, got, want})
		return nil
	}
	for at, o := range c.Ops {
		if o.Inst < 0 || o.Inst >= n {
			return []vf.Finding{vf.F("harness", "bad-case", "op %d addresses instance %d of %d", at, o.Inst, n)}
		}
		l := ls[o.Inst]
		switch o.Kind {
		case "w":
			l.h.Write(o.Data)
			l.model = append(l.model, o.Data...)
		case "reset":
			l.h.Reset()
			l.model = l.model[:0]
		case "new":
			if fs := mk(o.Inst); fs != nil {
				return fs
			}
		case "sum":
			if fs := sum(o.Inst, at); fs != nil {
				return fs
			}
		}
	}
	for i := range ls {
		if fs := sum(i, len(c.Ops)); fs != nil {
			return fs
		}
	}
	for _, k := range sums {
		if !bytes.Equal(k.got, k.want) {
			return []vf.Finding{vf.F("cmac.Sum", "returned-digest-changed-by-later-call", "the slice returned at op %d was %x and is now %x; ops=%s", k.at, k.want, k.got, cmacInstKinds(c.Ops))}
		}
	}
	return nil
}

func TestCMACInstances(t *testing.T) {
	s := vf.Begin(t, P, "cmac-instances")
	vf.Rapid(s, vf.N(6000, 60000), func(t *rapid.T) cmacInstCase {
		var c cmacInstCase
		for i, n := 0, rapid.IntRange(2, 3).Draw(t, "instances"); i < n; i++ {
			name := rapid.SampledFrom([]string{"aes128", "aes128", "aes192", "aes256", "des", "tdea"}).Draw(t, "cipher")
			c.Insts = append(c.Insts, cmacInst{name, genBytes(t, "key", keyLen(name))})
		}
		for i, n := 0, rapid.IntRange(2, 10).Draw(t, "nops"); i < n; i++ {
			o := cmacInstOp{Inst: rapid.IntRange(0, len(c.Insts)-1).Draw(t, "inst")}
			switch rapid.IntRange(0, 9).Draw(t, "kind") {
			case 0, 1, 2, 3, 4:
				o.Kind = "w"
				ln := rapid.SampledFrom([]int{0, 1, 7, 8, 9, 15, 16, 17, 32, -1, -1, -1}).Draw(t, "dl")
				if ln < 0 {
					ln = rapid.IntRange(0, 100).Draw(t, "dlen")
				}
				o.Data = genBytes(t, "data", ln)
			case 5, 6, 7:
				o.Kind = "sum"
			case 8:
				o.Kind = "reset"
			default:
				o.Kind = "new"
			}
			c.Ops = append(c.Ops, o)
		}
		return c
	}, checkCMACInstances, func(c cmacInstCase) bool {
		var insts []int
		for _, o := range c.Ops {
			insts = append(insts, o.Inst)
		}
		return interleaved(insts)
	})
}

// ---- PKCS#7 ------------------------------------------------------------------

type padCase struct {
	Block int `json:"block"`
	Len   int `json:"len"`
	// Shape of the slice handed to Pad: 0 capacity == length (Pad must allocate); otherwise capacity beyond the
	// length, holding sentinel bytes that are no pad bytes: 1 one byte, 2 one byte less than the padding needs,
	// 3 exactly what the padding needs, 4 one byte more, 5 plenty (300).
	Shape int `json:"shape,omitempty"`
}

func padMessage(block, n int) []byte {
	m := make([]byte, n)
	for i := range m {
		m[i] = byte(i*13 + block)
	}
	// a message ending in bytes that look like padding is the interesting case
	if n > 0 {
		m[n-1] = byte(n % 7)
	}
	return m
}

func checkPad(c padCase) []vf.Finding {
	orig := padMessage(c.Block, c.Len)
	n := c.Block - c.Len%c.Block // the pad count PKCS#7 prescribes
	spare := 0
	switch c.Shape {
	case 1:
		spare = 1
	case 2:
		spare = n - 1
	case 3:
		spare = n
	case 4:
		spare = n + 1
	case 5:
		spare = 300
	}
	m := make([]byte, c.Len+spare)
	copy(m, orig)
	for i := c.Len; i < len(m); i++ {
		// dirty spare capacity: anything but the pad byte
		m[i] = byte(n) ^ (0x5A + byte(i)&1)
	}
	p, err := pkcs7.Pad(m[:c.Len], uint8(c.Block))
	if err != nil {
		return []vf.Finding{vf.F("pkcs7.Pad", "valid-block-size-rejected", "block %d: %v", c.Block, err)}
	}
	var fs []vf.Finding
	if len(p)%c.Block != 0 || len(p) <= c.Len || len(p) > c.Len+c.Block {
		fs = append(fs, vf.F("pkcs7.Pad", "padded-length-wrong", "block %d len %d -> %d", c.Block, c.Len, len(p)))
		return fs
	}
	judge := func(when string) {
		if !bytes.Equal(p[:c.Len], orig) {
			fs = append(fs, vf.F("pkcs7.Pad", "message-bytes-changed", "block %d len %d, %d bytes of spare capacity%s", c.Block, c.Len, spare, when))
		}
		for i, b := range p[c.Len:] {
			if int(b) != len(p)-c.Len {
				fs = append(fs, vf.F("pkcs7.Pad", "pad-byte-not-count", "block %d len %d, %d bytes of spare capacity%s: pad byte %d of %d is %d", c.Block, c.Len, spare, when, i, len(p)-c.Len, b))
				break
			}
		}
	}
	judge("")
	if !bytes.Equal(m[:c.Len], orig) {
		fs = append(fs, vf.F("pkcs7.Pad", "input-modified", "block %d len %d", c.Block, c.Len))
	}
	in := append([]byte{}, p...)
	u, err := pkcs7.Unpad(in[:len(in):len(in)])
	if err != nil {
		fs = append(fs, vf.F("pkcs7.Unpad", "own-padding-rejected", "block %d len %d: %v", c.Block, c.Len, err))
	} else if !bytes.Equal(u, orig) {
		fs = append(fs, vf.F("pkcs7.Unpad", "unpad-pad-not-identity", "block %d len %d: got %d bytes", c.Block, c.Len, len(u)))
	}
	if len(fs) > 0 {
		return fs
	}
	// what Pad and Unpad handed back are the caller's values: padding and unpadding another message (other
	// length, other pad count) leaves them as they were
	o := padMessage(c.Block+1, c.Len+1+c.Block/2)
	if p2, err := pkcs7.Pad(o[:len(o):len(o)], uint8(c.Block)); err == nil {
		pkcs7.Unpad(append([]byte{}, p2...))
	}
	judge(" (looked at again after another message was padded)")
	if !bytes.Equal(u, orig) {
		fs = append(fs, vf.F("pkcs7.Unpad", "returned-message-changed-by-later-call", "block %d len %d", c.Block, c.Len))
	}
	return fs
}

func TestPKCS7Grid(t *testing.T) {
	s := vf.Begin(t, P, "pkcs7-grid")
	s.SetExhaustive()
	s.Note("every block size 1..255 x every length of the tier's range; the shape of the slice handed to Pad (capacity == length, or 1 / pad-1 / pad / pad+1 / 300 bytes of dirty spare capacity) rotates with block+length, so every block size meets every shape")
	vf.Enum(s, func(yield func(padCase)) {
		for b := 1; b <= 255; b++ {
			maxLen := 2*b + 1
			if vf.Thorough() {
				maxLen = 600
			}
			for l := 0; l <= maxLen; l++ {
				yield(padCase{b, l, (b + l) % 6})
			}
		}
	}, checkPad, func(c padCase) bool { return c.Len%c.Block != 0 })
}

// random (block size, length, shape) combinations beyond the grid's length range (up to four blocks), every
// shape of the input slice drawn independently of block size and length
func TestPKCS7PadShapes(t *testing.T) {
	s := vf.Begin(t, P, "pkcs7-pad-shapes")
	vf.Rapid(s, vf.N(6000, 60000), func(t *rapid.T) padCase {
		b := rapid.SampledFrom([]int{1, 2, 7, 8, 15, 16, 17, 32, 64, 128, 254, 255, -1, -1, -1}).Draw(t, "blockClass")
		if b < 0 {
			b = rapid.IntRange(1, 255).Draw(t, "block")
		}
		l := b*rapid.IntRange(0, 3).Draw(t, "blocks") + rapid.IntRange(0, b).Draw(t, "rest")
		c := padCase{b, l, rapid.IntRange(0, 5).Draw(t, "shape")}
		s.Class(fmt.Sprintf("shape:%d", c.Shape))
		return c
	}, checkPad, func(c padCase) bool { return c.Shape != 0 })
}

type unpadCase struct {
	Buf vf.Hex `json:"buf"`
	// Spare: bytes that follow the buffer in its backing array (capacity beyond the length); they are not part
	// of the buffer and must neither be read as padding nor be written. Empty: capacity == length.
	Spare vf.Hex `json:"spare,omitempty"`
}

func refUnpadValid(x []byte) (int, bool) {
	if len(x) == 0 {
		return 0, false
	}
	p := int(x[len(x)-1])
	if p < 1 || p > len(x) {
		return 0, false
	}
	for _, b := range x[len(x)-p:] {
		if int(b) != p {
			return 0, false
		}
	}
	return p, true
}

func checkUnpad(c unpadCase) []vf.Finding {
	full := append(append(make([]byte, 0, len(c.Buf)+len(c.Spare)), c.Buf...), c.Spare...)
	in := full[:len(c.Buf)]
	got, err := pkcs7.Unpad(in)
	if !bytes.Equal(full[:len(c.Buf)], c.Buf) || !bytes.Equal(full[len(c.Buf):], c.Spare) {
		return []vf.Finding{vf.F("pkcs7.Unpad", "input-modified", "%x (+%d bytes of spare capacity) is now %x", []byte(c.Buf), len(c.Spare), full)}
	}
	p, valid := refUnpadValid(c.Buf)
	if valid {
		if err != nil {
			return []vf.Finding{vf.F("pkcs7.Unpad", "valid-padding-rejected", "%x: %v", c.Buf, err)}
		}
		if !bytes.Equal(got, c.Buf[:len(c.Buf)-p]) {
			return []vf.Finding{vf.F("pkcs7.Unpad", "wrong-bytes-stripped", "%x -> %x", c.Buf, got)}
		}
		return nil
	}
	if err == nil {
		return []vf.Finding{vf.F("pkcs7.Unpad", "invalid-padding-accepted", "%x -> %x", c.Buf, got)}
	}
	return nil
}

func nearMiss(c unpadCase) bool {
	if len(c.Buf) == 0 {
		return false
	}
	p := int(c.Buf[len(c.Buf)-1])
	return p >= 1 && p <= len(c.Buf)
}

func TestPKCS7RejectExhaustive(t *testing.T) {
	s := vf.Begin(t, P, "pkcs7-reject-exhaustive")
	s.SetExhaustive()
	alphabet := []byte{0, 1, 2, 3, 4, 5, 6, 255}
	maxLen := vf.Size(5, 7)
	s.Note("all buffers of length 0..%d over the alphabet %v", maxLen, alphabet)
	vf.Enum(s, func(yield func(unpadCase)) {
		var rec func(prefix []byte)
		rec = func(prefix []byte) {
			yield(unpadCase{Buf: append([]byte{}, prefix...)})
			if len(prefix) == maxLen {
				return
			}
			for _, a := range alphabet {
				rec(append(prefix, a))
			}
		}
		rec(nil)
	}, checkUnpad, nearMiss)
}

func TestPKCS7RejectRandom(t *testing.T) {
	s := vf.Begin(t, P, "pkcs7-reject-random")
	vf.Rapid(s, vf.N(20000, 200000), func(t *rapid.T) unpadCase {
		n := rapid.IntRange(1, 300).Draw(t, "n")
		b := genBytes(t, "buf", n)
		// make most cases near-misses: a claimed pad length inside the buffer,
		// correct padding, then (usually) one corrupted byte
		if rapid.IntRange(0, 3).Draw(t, "mode") != 0 {
			p := rapid.IntRange(1, min(n, 255)).Draw(t, "p")
			for i := n - p; i < n; i++ {
				b[i] = byte(p)
			}
			if rapid.Bool().Draw(t, "corrupt") {
				// the farthest pad byte (the one a too-short window misses) as often as any other
				i := n - p
				if rapid.Bool().Draw(t, "anyPos") {
					i = rapid.IntRange(n-p, n-1).Draw(t, "pos")
				}
				b[i] ^= byte(rapid.IntRange(1, 255).Draw(t, "x"))
			}
		}
		c := unpadCase{Buf: b}
		// capacity == length alternates with spare capacity that goes on like padding, or holds anything
		switch rapid.IntRange(0, 3).Draw(t, "spareClass") {
		case 2:
			c.Spare = bytes.Repeat([]byte{b[n-1]}, rapid.IntRange(1, 40).Draw(t, "spareLen"))
		case 3:
			c.Spare = genBytes(t, "spare", rapid.IntRange(1, 40).Draw(t, "spareLen"))
		}
		return c
	}, checkUnpad, nearMiss)
}

// ---- pkcs7-near-miss (deterministic) ---------------------------------------------------------------------
//
// Buffers that end in p correct pad bytes for the pad counts at which something changes (1, 2, around the usual
// block sizes 8 and 16, 127/128, and 253, 254, 255: the largest count a byte can claim), at lengths from exactly
// p up to beyond 512, with no, each single one, of the p pad bytes corrupted - in particular the farthest from
// the end, which a check that looks at a fixed window misses - and with a count that claims more bytes than the
// buffer has. Decided by the same reference rule as every other buffer.

type nearCase struct {
	Pad   int  `json:"pad"`             // the count the last byte claims before corruption
	Len   int  `json:"len"`             // buffer length; Len < Pad: the claim exceeds the buffer
	Pos   int  `json:"pos"`             // which of the Pad pad bytes is corrupted, counted from the farthest (0); -1 none
	Xor   byte `json:"xor,omitempty"`   // what the corrupted byte is XORed with
	Spare int  `json:"spare,omitempty"` // bytes of spare capacity continuing the padding
}

func (c nearCase) buffer() unpadCase {
	b := make([]byte, c.Len)
	for i := range b {
		b[i] = byte(0xC3 ^ i*7) // message bytes; where one coincides with the pad count the reference rule decides
	}
	for i := max(c.Len-c.Pad, 0); i < c.Len; i++ {
		b[i] = byte(c.Pad)
	}
	if c.Pos >= 0 && c.Len-c.Pad+c.Pos >= 0 && c.Len-c.Pad+c.Pos < c.Len {
		b[c.Len-c.Pad+c.Pos] ^= c.Xor
	}
	return unpadCase{Buf: b, Spare: bytes.Repeat([]byte{byte(c.Pad)}, max(c.Spare, 0))}
}

func TestPKCS7NearMiss(t *testing.T) {
	s := vf.Begin(t, P, "pkcs7-near-miss")
	s.SetExhaustive()
	pads := []int{1, 2, 3, 7, 8, 9, 15, 16, 17, 31, 32, 33, 127, 128, 129, 253, 254, 255}
	s.Note("pad counts %v x buffer lengths {p, p+1, p+7, p+16, 255, 256, 257, 300, 511, 513} (>= p) x {intact, each single pad byte XOR 0x01 / 0x80 / 0xFF}, plus counts 2..255 claiming more than the buffer holds and count 0; capacity == length alternates with spare capacity that continues the padding", pads)
	vf.Enum(s, func(yield func(nearCase)) {
		k := 0
		spare := func() int { k++; return []int{0, 0, 1, 17}[k%4] }
		for _, p := range pads {
			seen := map[int]bool{}
			for _, n := range []int{p, p + 1, p + 7, p + 16, 255, 256, 257, 300, 511, 513} {
				if n < p || seen[n] {
					continue
				}
				seen[n] = true
				yield(nearCase{Pad: p, Len: n, Pos: -1, Spare: spare()})
				for pos := 0; pos < p; pos++ {
					for _, x := range []byte{0x01, 0x80, 0xFF} {
						yield(nearCase{Pad: p, Len: n, Pos: pos, Xor: x, Spare: spare()})
					}
				}
			}
		}
		// the count claims more bytes than there are (every byte of the buffer is the count), and count 0
		for p := 2; p <= 255; p++ {
			for _, n := range []int{1, p / 2, p - 1} {
				if n >= 1 && n < p {
					yield(nearCase{Pad: p, Len: n, Pos: -1, Spare: p - n})
				}
			}
		}
		for _, n := range []int{1, 2, 16, 255, 256} {
			yield(nearCase{Pad: 0, Len: n, Pos: -1})
		}
	}, func(c nearCase) []vf.Finding { return checkUnpad(c.buffer()) }, func(c nearCase) bool { return c.Pos >= 0 || c.Len < c.Pad })
}

// ---- GPP ------------------------------------------------------------------

type gppCase struct {
	Password string `json:"password"`
}

var msKey = []byte{0x4e, 0x99, 0x06, 0xe8, 0xfc, 0xb6, 0x6c, 0xc9, 0xfa, 0xf4, 0x93, 0x10, 0x62, 0x0f, 0xfe, 0xe8,
	0xf4, 0x96, 0xe8, 0x06, 0xcc, 0x05, 0x79, 0x90, 0x20, 0x9b, 0x09, 0xa4, 0x33, 0xb6, 0x6c, 0x1b}

func refGPPEncrypt(pw string) []byte {
	pt := refcrypto.UTF16LE(pw)
	n := 16 - len(pt)%16
	pt = append(pt, bytes.Repeat([]byte{byte(n)}, n)...)
	blk, _ := aes.NewCipher(msKey)
	out := make([]byte, len(pt))
	cipher.NewCBCEncrypter(blk, make([]byte, 16)).CryptBlocks(out, pt)
	return out
}

func checkGPP(c gppCase) []vf.Finding {
	var fs []vf.Finding
	enc, err := gppp.GPPPEncrypt(c.Password)
	if err != nil {
		return []vf.Finding{vf.F("gppp.GPPPEncrypt", "error", "%q: %v", c.Password, err)}
	}
	want := refGPPEncrypt(c.Password)
	if enc != base64.StdEncoding.EncodeToString(want) {
		fs = append(fs, vf.F("gppp.GPPPEncrypt", "differs-from-aes256cbc-mskey-zeroiv", "%q: got %s", c.Password, enc))
	}
	if dec, err := gppp.GPPPDecryptBase64(enc); err != nil || dec != c.Password {
		fs = append(fs, vf.F("gppp.GPPPDecryptBase64", "decrypt-encrypt-not-identity", "%q: got %q err %v", c.Password, dec, err))
	}
	// Group Policy XML stores cpassword without '=' padding
	if dec, err := gppp.GPPPDecryptBase64(strings.TrimRight(base64.StdEncoding.EncodeToString(want), "=")); err != nil || dec != c.Password {
		fs = append(fs, vf.F("gppp.GPPPDecryptBase64", "unpadded-base64-not-accepted", "%q: got %q err %v", c.Password, dec, err))
	}
	// exact-capacity ciphertext, and ciphertext followed by spare capacity; either way the buffer is the caller's
	// again after the call: it is overwritten before the result is looked at
	for _, spare := range []int{0, 16} {
		ct := withSpare(len(want), spare)
		copy(ct, want)
		dec, err := gppp.GPPPDecryptBytes(ct)
		wipe(ct[:cap(ct)])
		if err != nil || dec != c.Password {
			fs = append(fs, vf.F("gppp.GPPPDecryptBytes", "differs-from-reference", "%q (ciphertext with %d bytes of spare capacity, overwritten after the call): got %q err %v", c.Password, spare, dec, err))
		}
	}
	if len(fs) > 0 {
		return fs
	}
	// results are values of their own: after another password has gone through both directions, the strings
	// handed out before still read the same
	dec, err := gppp.GPPPDecryptBytes(append([]byte{}, want...))
	encWas, decWas := strings.Clone(enc), strings.Clone(dec)
	other := c.Password + "\u00e9x"
	if e2, err := gppp.GPPPEncrypt(other); err != nil || e2 != base64.StdEncoding.EncodeToString(refGPPEncrypt(other)) {
		fs = append(fs, vf.F("gppp.GPPPEncrypt", "differs-from-aes256cbc-mskey-zeroiv", "%q (right after %q): got %s err %v", other, c.Password, e2, err))
	} else if d2, err := gppp.GPPPDecryptBase64(e2); err != nil || d2 != other {
		fs = append(fs, vf.F("gppp.GPPPDecryptBase64", "decrypt-encrypt-not-identity", "%q (right after %q): got %q err %v", other, c.Password, d2, err))
	}
	if err != nil || enc != encWas || dec != decWas || dec != c.Password {
		fs = append(fs, vf.F("gppp", "returned-string-changed-by-later-call", "%q: encrypted %q -> %q, decrypted %q -> %q (err %v)", c.Password, encWas, enc, decWas, dec, err))
	}
	return fs
}

func genGPPPassword(t *rapid.T) string {
	if rapid.Bool().Draw(t, "alpha") {
		return alpha.String(t, "pw", 40, "")
	}
	n := rapid.IntRange(0, 40).Draw(t, "n")
	rs := make([]rune, 0, n)
	for i := 0; i < n; i++ {
		r := rune(rapid.IntRange(0, 0x10FFFF).Draw(t, "r"))
		if !utf8.ValidRune(r) {
			r = 'A'
		}
		rs = append(rs, r)
	}
	return string(rs)
}

func TestGPP(t *testing.T) {
	s := vf.Begin(t, P, "gpp")
	vf.Rapid(s, vf.N(5000, 60000), func(t *rapid.T) gppCase { return gppCase{genGPPPassword(t)} }, checkGPP,
		func(c gppCase) bool { return len(refcrypto.UTF16LE(c.Password)) >= 16 || alpha.HasNonBMP(c.Password) })
}

// every UTF-16 length 0..40 code units (crosses the 16-byte block boundary at 8, 16, 24, 32)
func TestGPPLengthsExhaustive(t *testing.T) {
	s := vf.Begin(t, P, "gpp-lengths-exhaustive")
	s.SetExhaustive()
	vf.Enum(s, func(yield func(gppCase)) {
		for n := 0; n <= 40; n++ {
			yield(gppCase{strings.Repeat("Pä", 21)[:0] + string([]rune(strings.Repeat("Pä😀", 14))[:n])})
		}
	}, checkGPP, func(c gppCase) bool { return len(c.Password) > 0 })
}
