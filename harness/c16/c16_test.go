// Package c16: binary SIDs and distinguished names decode to their canonical text.
package c16

import (
	"encoding/binary"
	"fmt"
	"strconv"
	"strings"
	"testing"
	"unicode"

	"pgregory.net/rapid"

	"github.com/TheManticoreProject/Manticore/network/ldap"

	"manticoreverif/ref/alpha"
	"manticoreverif/vf"
)

const P = "C16"

type sidCase struct {
	Authority uint64   `json:"authority48"`
	Subs      []uint32 `json:"sub_authorities"`
	// bytes that follow the SID in the buffer (a SID inside a security descriptor, an ACE or an
	// attribute value is followed by other data): the count byte says where the SID ends
	Trailing vf.Hex `json:"trailing,omitempty"`
}

func (c sidCase) bytes() []byte {
	b := []byte{1, byte(len(c.Subs)), byte(c.Authority >> 40), byte(c.Authority >> 32), byte(c.Authority >> 24), byte(c.Authority >> 16), byte(c.Authority >> 8), byte(c.Authority)}
	for _, s := range c.Subs {
		b = binary.LittleEndian.AppendUint32(b, s)
	}
	return append(b, c.Trailing...)
}

// MS-DTYP 2.4.2.1: S-1-IdentifierAuthority-SubAuthority1-...; the authority is
// decimal below 2^32 and "0x" + 12 hex digits at or above.
func refSID(c sidCase) (dec string, hexForm string) {
	var tail strings.Builder
	for _, s := range c.Subs {
		tail.WriteString("-" + strconv.FormatUint(uint64(s), 10))
	}
	dec = "S-1-" + strconv.FormatUint(c.Authority, 10) + tail.String()
	hexForm = dec
	if c.Authority >= 1<<32 {
		hexForm = fmt.Sprintf("S-1-0x%012X", c.Authority) + tail.String()
	}
	return
}

func checkSID(c sidCase) []vf.Finding {
	raw := c.bytes()
	got := ldap.ParseSIDFromBytes(append([]byte{}, raw...))
	dec, hx := refSID(c)
	if got == dec || strings.EqualFold(got, hx) {
		return nil
	}
	// The statement speaks of well-formed binary SIDs: a buffer that goes on after the 8+4n bytes the
	// count announces is a SID followed by something else, and a parser may read the SID at its head or
	// decline the buffer (""). What it may not do is return any other string.
	if len(c.Trailing) > 0 && got == "" {
		return nil
	}
	kind := "string-differs-from-ms-dtyp"
	if strings.Contains(got, "--") {
		kind = "double-dash"
	}
	if len(c.Trailing) > 0 && kind != "double-dash" {
		kind = "sid-followed-by-other-bytes-differs"
	}
	return []vf.Finding{vf.F("ldap.ParseSIDFromBytes", kind, "%x (%d sub-authorities, %d trailing bytes): got %q want %q", raw, len(c.Subs), len(c.Trailing), got, dec)}
}

var subEdges = []uint32{0, 1, 18, 21, 32, 500, 512, 513, 544, 0x7FFFFFFF, 0x80000000, 0xFFFFFFFF}

func genSub(t *rapid.T) uint32 {
	if rapid.Bool().Draw(t, "edge") {
		return subEdges[rapid.IntRange(0, len(subEdges)-1).Draw(t, "e")]
	}
	return rapid.Uint32().Draw(t, "sub")
}

func genAuthority(t *rapid.T) uint64 {
	switch rapid.IntRange(0, 3).Draw(t, "authClass") {
	case 0, 1:
		return uint64(rapid.IntRange(0, 18).Draw(t, "auth"))
	case 2:
		return rapid.Uint64Range(0, 1<<32-1).Draw(t, "auth32")
	default:
		return rapid.Uint64Range(1<<32, 1<<48-1).Draw(t, "auth48")
	}
}

func TestSIDFormat(t *testing.T) {
	s := vf.Begin(t, P, "sid-format")
	vf.Rapid(s, vf.N(32000, 500000), func(t *rapid.T) sidCase {
		n := rapid.IntRange(0, 15).Draw(t, "count")
		subs := make([]uint32, n)
		for i := range subs {
			subs[i] = genSub(t)
		}
		var trailing []byte
		if rapid.IntRange(0, 2).Draw(t, "followed") == 0 {
			// 1..8 bytes: part of, exactly, or more than one further sub-authority's worth
			tl := rapid.IntRange(1, 8).Draw(t, "trailingLen")
			trailing = rapid.SliceOfN(rapid.Byte(), tl, tl).Draw(t, "trailing")
		}
		return sidCase{genAuthority(t), subs, trailing}
	}, checkSID, func(c sidCase) bool { return len(c.Subs) >= 1 })
}

// every sub-authority count 0..15 x a fixed set of authorities and edge values
func TestSIDCountsExhaustive(t *testing.T) {
	s := vf.Begin(t, P, "sid-counts-exhaustive")
	s.SetExhaustive()
	vf.Enum(s, func(yield func(sidCase)) {
		for n := 0; n <= 15; n++ {
			for _, auth := range []uint64{0, 1, 5, 16, 1<<32 - 1, 1 << 32, 1<<48 - 1} {
				for _, fill := range subEdges {
					subs := make([]uint32, n)
					for i := range subs {
						subs[i] = fill + uint32(i)
					}
					yield(sidCase{auth, subs, nil})
				}
			}
			// every count followed by 1..8 further bytes
			for tl := 1; tl <= 8; tl++ {
				subs := make([]uint32, n)
				for i := range subs {
					subs[i] = 21 + uint32(i)
				}
				trailing := make([]byte, tl)
				for i := range trailing {
					trailing[i] = byte(0xF0 + i)
				}
				yield(sidCase{5, subs, trailing})
			}
		}
	}, checkSID, func(c sidCase) bool { return len(c.Subs) != 4 && len(c.Subs) != 5 })
}

// well-known SIDs, written out independently
func TestSIDWellKnown(t *testing.T) {
	s := vf.Begin(t, P, "sid-well-known")
	s.SetExhaustive()
	type wk struct {
		Hex  vf.Hex `json:"raw"`
		Want string `json:"want"`
	}
	list := []wk{
		{vf.Hex{1, 1, 0, 0, 0, 0, 0, 5, 18, 0, 0, 0}, "S-1-5-18"},
		{vf.Hex{1, 1, 0, 0, 0, 0, 0, 1, 0, 0, 0, 0}, "S-1-1-0"},
		{vf.Hex{1, 2, 0, 0, 0, 0, 0, 5, 32, 0, 0, 0, 0x20, 2, 0, 0}, "S-1-5-32-544"},
		{vf.Hex{1, 0, 0, 0, 0, 0, 0, 5}, "S-1-5"},
		{vf.Hex{1, 5, 0, 0, 0, 0, 0, 5, 21, 0, 0, 0, 0xa0, 0x65, 0xcf, 0x7e, 0x78, 0x4b, 0x9b, 0x5f, 0xe7, 0x7c, 0x87, 0x70, 0x09, 0x1c, 0x01, 0x00},
			"S-1-5-21-2127521184-1604012920-1887927527-72713"}, // MS-DTYP 2.4.2.2 example
	}
	vf.Enum(s, func(yield func(wk)) {
		for _, w := range list {
			yield(w)
		}
	}, func(c wk) []vf.Finding {
		if got := ldap.ParseSIDFromBytes(append([]byte{}, c.Hex...)); got != c.Want {
			return []vf.Finding{vf.F("ldap.ParseSIDFromBytes", "well-known-sid-differs", "%x: got %q want %q", []byte(c.Hex), got, c.Want)}
		}
		return nil
	}, nil)
}

// ---- a caller's buffer, used for one SID after the other -----------------------------------------
//
// "For every well-formed binary SID the string form is ...": the string is a function of the bytes passed
// in this call. A caller that reads SIDs out of one receive buffer (LDAP attribute values, ACEs walked in
// place) passes the same backing array again and again with different contents; SIDs of one domain share
// everything but the last sub-authority. Each call is compared with the own formatter, exactly as in
// sid-format; a result that is right for a fresh buffer and wrong here depends on an earlier call.

type sidSeqCase struct {
	SIDs   []sidCase `json:"sids"`
	Shared []bool    `json:"same_buffer"` // per SID: written over the previous one in the same buffer, or passed in a slice of its own
	// Broken[i] > 0: before SID i a buffer that is NOT a well-formed SID is passed (what a caller walking a damaged
	// attribute value passes): SID i cut short by that many bytes, or (100) with revision 0, or (101) announcing 200
	// sub-authorities. What the call returns for it is not judged here; the calls after it are.
	Broken []int `json:"malformed_call_before,omitempty"`
}

func checkSIDSeq(c sidSeqCase) []vf.Finding {
	buf := make([]byte, 8+4*15+8)
	for i, sc := range c.SIDs {
		raw := sc.bytes()
		if i < len(c.Broken) && c.Broken[i] > 0 {
			bad := append([]byte{}, raw...)
			switch c.Broken[i] {
			case 100:
				bad[0] = 0
			case 101:
				bad[1] = 200
			default:
				bad = bad[:max(0, len(bad)-c.Broken[i])]
			}
			func() {
				defer func() { recover() }() // a panic on malformed input is C07's finding
				ldap.ParseSIDFromBytes(bad)
			}()
		}
		in := append([]byte{}, raw...)
		if i < len(c.Shared) && c.Shared[i] {
			copy(buf, raw)
			in = buf[:len(raw)]
		}
		got := ldap.ParseSIDFromBytes(in)
		dec, hx := refSID(sc)
		if got == dec || strings.EqualFold(got, hx) {
			continue
		}
		if fs := checkSID(sc); fs != nil {
			return fs // wrong on its own: the same finding sid-format reports
		}
		prev := "none"
		if i > 0 {
			prev, _ = refSID(c.SIDs[i-1])
		}
		return []vf.Finding{vf.F("ldap.ParseSIDFromBytes", "result-depends-on-earlier-call", "call %d of %d, %x (same buffer as the call before: %v; SID before: %s): got %q want %q; the same bytes alone give the right string", i+1, len(c.SIDs), raw, i < len(c.Shared) && c.Shared[i], prev, got, dec)}
	}
	return nil
}

func TestSIDBufferReuse(t *testing.T) {
	s := vf.Begin(t, P, "sid-buffer-reused")
	vf.Rapid(s, vf.N(30000, 300000), func(t *rapid.T) sidSeqCase {
		k := rapid.IntRange(2, 8).Draw(t, "calls")
		fixedCount := rapid.IntRange(0, 2).Draw(t, "sameCount") != 0
		n0 := rapid.IntRange(0, 15).Draw(t, "count")
		var c sidSeqCase
		for i := 0; i < k; i++ {
			n := n0
			if !fixedCount {
				n = rapid.IntRange(0, 15).Draw(t, "count_i")
			}
			var sc sidCase
			mode := rapid.IntRange(0, 3).Draw(t, "relation")
			if i > 0 && len(c.SIDs[i-1].Subs) == n && mode != 0 {
				p := c.SIDs[i-1]
				sc = sidCase{Authority: p.Authority, Subs: append([]uint32{}, p.Subs...)}
				switch mode {
				case 1: // same domain, another relative identifier
					if n > 0 {
						sc.Subs[n-1] = genSub(t)
					}
				case 2: // another domain, the same relative identifier
					if n > 1 {
						sc.Subs[rapid.IntRange(0, n-2).Draw(t, "pos")] = genSub(t)
					} else {
						sc.Authority = genAuthority(t)
					}
				default: // another authority, all sub-authorities as before
					sc.Authority = genAuthority(t)
				}
			} else {
				sc = sidCase{Authority: genAuthority(t), Subs: make([]uint32, n)}
				for j := range sc.Subs {
					sc.Subs[j] = genSub(t)
				}
			}
			c.SIDs = append(c.SIDs, sc)
			c.Shared = append(c.Shared, rapid.IntRange(0, 3).Draw(t, "shared") != 0)
			b := 0
			if rapid.IntRange(0, 4).Draw(t, "broken") == 0 {
				b = rapid.SampledFrom([]int{1, 2, 3, 4, 5, 7, 8, 100, 101}).Draw(t, "how")
			}
			c.Broken = append(c.Broken, b)
		}
		return c
	}, func(c sidSeqCase) []vf.Finding {
		for i := 1; i < len(c.SIDs); i++ {
			a, b := c.SIDs[i-1], c.SIDs[i]
			if c.Shared[i] && c.Shared[i-1] && len(a.Subs) == len(b.Subs) && len(a.Subs) >= 2 {
				s.Class("same-buffer-same-count")
				break
			}
		}
		return checkSIDSeq(c)
	}, func(c sidSeqCase) bool {
		// two consecutive calls on the same buffer with different SIDs of the same length
		for i := 1; i < len(c.SIDs); i++ {
			a, b := c.SIDs[i-1], c.SIDs[i]
			if c.Shared[i] && c.Shared[i-1] && len(a.Subs) == len(b.Subs) && fmt.Sprint(a) != fmt.Sprint(b) {
				return true
			}
		}
		return false
	})
}

// ---- DN -> DNS domain ------------------------------------------------------------

type rdn struct {
	Type  string `json:"type"`
	Value string `json:"value"` // unescaped
}
type dnCase struct {
	RDNs []rdn `json:"rdns"`
}

// RFC 4514 escaping as Active Directory emits it: the specials , + " \ < > ; =
// are backslash-escaped, as are a leading '#' or space and a trailing space.
func escapeValue(v string) string {
	var sb strings.Builder
	rs := []rune(v)
	for i, r := range rs {
		switch {
		case strings.ContainsRune(`,+"\<>;=`, r):
			sb.WriteByte('\\')
			sb.WriteRune(r)
		case (i == 0 && (r == '#' || r == ' ')) || (i == len(rs)-1 && r == ' '):
			sb.WriteByte('\\')
			sb.WriteRune(r)
		default:
			sb.WriteRune(r)
		}
	}
	return sb.String()
}

func (c dnCase) String() string {
	parts := make([]string, len(c.RDNs))
	for i, r := range c.RDNs {
		parts[i] = r.Type + "=" + escapeValue(r.Value)
	}
	return strings.Join(parts, ",")
}

// reference: split on unescaped commas, attribute type before the first '=',
// DC values joined with dots in order.
func refDomain(dn string) string {
	var rdns []string
	var cur strings.Builder
	esc := false
	for _, r := range dn {
		switch {
		case esc:
			cur.WriteRune(r)
			esc = false
		case r == '\\':
			cur.WriteRune(r)
			esc = true
		case r == ',':
			rdns = append(rdns, cur.String())
			cur.Reset()
		default:
			cur.WriteRune(r)
		}
	}
	rdns = append(rdns, cur.String())
	var dcs []string
	for _, r := range rdns {
		i := strings.IndexByte(r, '=')
		if i < 0 || r[:i] != "DC" {
			continue
		}
		// unescape
		var v strings.Builder
		e := false
		for _, ch := range r[i+1:] {
			if !e && ch == '\\' {
				e = true
				continue
			}
			v.WriteRune(ch)
			e = false
		}
		dcs = append(dcs, v.String())
	}
	return strings.Join(dcs, ".")
}

func checkDN(c dnCase) []vf.Finding {
	dn := c.String()
	var wantParts []string
	for _, r := range c.RDNs {
		if r.Type == "DC" {
			wantParts = append(wantParts, r.Value)
		}
	}
	want := strings.Join(wantParts, ".")
	if rd := refDomain(dn); rd != want {
		return []vf.Finding{vf.F("harness", "reference-splitter-disagrees-with-construction", "%q: ref %q constructed %q", dn, rd, want)}
	}
	got := ldap.GetDomainFromDistinguishedName(dn)
	if got != want {
		kind := "domain-differs"
		if strings.Contains(dn, `\,`) {
			kind = "escaped-comma-split"
		}
		return []vf.Finding{vf.F("ldap.GetDomainFromDistinguishedName", kind, "%q: got %q want %q", dn, got, want)}
	}
	return nil
}

var otherTypes = []string{"CN", "OU", "O", "L", "ADC", "DCX", "UID", "C", "ST"}

// genLabel draws the value of a DC component: what a dc attribute holds. That is a DNS label of 1..63
// characters (mostly short; the full 63 now and then), and besides letters, digits and inner hyphens
// it may contain the characters of the names Active Directory itself creates: '_' (service labels
// such as _msdcs, _tcp; host names with underscores), and '.', '@' and '*' (the dnsNode / dnsZone
// objects of AD-integrated DNS: DC=@,DC=corp.local,CN=MicrosoftDNS,...). None of them is special in a
// DN, so they stand unescaped, and the domain is the dot-join of the values as they stand.
func genLabel(t *rapid.T) string {
	var n int
	switch rapid.IntRange(0, 7).Draw(t, "labelLenClass") {
	case 0:
		n = rapid.IntRange(13, 63).Draw(t, "labelLenLong")
	case 1:
		n = 63
	default:
		n = rapid.IntRange(1, 12).Draw(t, "labelLen")
	}
	rs := make([]rune, n)
	for i := range rs {
		switch rapid.IntRange(0, 9).Draw(t, "lc") {
		case 3:
			rs[i] = rapid.SampledFrom([]rune{'_', '.', '@', '*'}).Draw(t, "adChar")
		case 0:
			rs[i] = rune(rapid.IntRange('0', '9').Draw(t, "d"))
		case 1:
			if i > 0 && i < n-1 {
				rs[i] = '-'
			} else {
				rs[i] = 'x'
			}
		case 2:
			// a letter or digit of the shared alphabet (the alphabet also offers controls, spaces and
			// format characters, which no dc value contains)
			for {
				if r := alpha.Rune(t, `,+"\<>;=# .`); unicode.IsLetter(r) || unicode.IsDigit(r) {
					rs[i] = r
					break
				}
			}
		default:
			rs[i] = rune(rapid.IntRange('a', 'z').Draw(t, "l"))
		}
	}
	return string(rs)
}

func genValue(t *rapid.T) string {
	n := rapid.IntRange(1, 16).Draw(t, "valLen")
	var sb strings.Builder
	for i := 0; i < n; i++ {
		switch rapid.IntRange(0, 11).Draw(t, "vc") {
		case 0:
			sb.WriteString(rapid.SampledFrom([]string{",", "+", "=", "\\", "\"", ";", "<", ">", "#", " "}).Draw(t, "special"))
		case 1:
			sb.WriteString(rapid.SampledFrom([]string{",DC=evil", ",DC=", "DC=", "=DC", ", DC=x", ",OU=y"}).Draw(t, "hostile"))
		default:
			sb.WriteRune(alpha.Rune(t, ""))
		}
	}
	return sb.String()
}

func genDN(t *rapid.T) dnCase {
	var rdns []rdn
	// "arbitrary RDN sequences": in a third of the cases DC components and other types alternate
	// freely, so the DC components are not one contiguous run
	if rapid.IntRange(0, 2).Draw(t, "shape") == 0 {
		n := rapid.IntRange(1, 9).Draw(t, "nRDN")
		for i := 0; i < n; i++ {
			if rapid.Bool().Draw(t, "isDC") {
				rdns = append(rdns, rdn{"DC", genLabel(t)})
			} else {
				rdns = append(rdns, rdn{otherTypes[rapid.IntRange(0, len(otherTypes)-1).Draw(t, "type")], genValue(t)})
			}
		}
		return dnCase{rdns}
	}
	nOther := rapid.IntRange(0, 5).Draw(t, "nOther")
	for i := 0; i < nOther; i++ {
		rdns = append(rdns, rdn{otherTypes[rapid.IntRange(0, len(otherTypes)-1).Draw(t, "type")], genValue(t)})
	}
	nDC := rapid.IntRange(0, 4).Draw(t, "nDC")
	for i := 0; i < nDC; i++ {
		rdns = append(rdns, rdn{"DC", genLabel(t)})
	}
	// occasionally a non-DC component after the DCs (AD never emits that, but the
	// statement is "arbitrary RDN sequences")
	if rapid.IntRange(0, 9).Draw(t, "tail") == 0 {
		rdns = append(rdns, rdn{"O", genValue(t)})
	}
	return dnCase{rdns}
}

// dcRuns counts the maximal runs of adjacent DC components.
func dcRuns(c dnCase) int {
	runs, in := 0, false
	for _, r := range c.RDNs {
		if r.Type == "DC" && !in {
			runs++
		}
		in = r.Type == "DC"
	}
	return runs
}

func TestDNDomain(t *testing.T) {
	s := vf.Begin(t, P, "dn-domain")
	vf.Rapid(s, vf.N(30000, 400000), genDN, func(c dnCase) []vf.Finding {
		if dcRuns(c) >= 2 {
			s.Class("dc-components-interrupted-by-other-rdns")
		}
		return checkDN(c)
	}, func(c dnCase) bool {
		dcs := 0
		for _, r := range c.RDNs {
			if r.Type == "DC" {
				dcs++
			}
		}
		return dcs >= 2 && len(c.RDNs) > dcs
	})
}
