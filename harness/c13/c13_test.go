// Package c13: UUID/GUID text and binary forms are mutually inverse and standards-conformant.
package c13

import (
	"bytes"
	"encoding/binary"
	"encoding/hex"
	"fmt"
	"reflect"
	"strings"
	"testing"
	"time"

	"pgregory.net/rapid"

	"github.com/TheManticoreProject/Manticore/crypto/uuid"
	"github.com/TheManticoreProject/Manticore/crypto/uuid/uuid_v1"
	"github.com/TheManticoreProject/Manticore/crypto/uuid/uuid_v2"
	"github.com/TheManticoreProject/Manticore/crypto/uuid/uuid_v8"
	"github.com/TheManticoreProject/Manticore/windows/guid"
	"github.com/TheManticoreProject/Manticore/windows/ms_dtyp/common/data_structures"

	"manticoreverif/vf"
)

const P = "C13"

type valCase struct {
	B vf.Hex `json:"bytes16"`
	// text-case variant: 0 lower, 1 upper, 2 mixed; Pad = white space around GUID text
	Case int    `json:"case"`
	Pad  string `json:"pad,omitempty"`
	// bytes that follow the 16 in the buffer handed to Unmarshal (which reports how many it consumed)
	Tail vf.Hex `json:"tail,omitempty"`
}

func canon(b []byte) string {
	h := hex.EncodeToString(b)
	return h[0:8] + "-" + h[8:12] + "-" + h[12:16] + "-" + h[16:20] + "-" + h[20:32]
}

func recase(s string, mode int) string {
	switch mode {
	case 1:
		return strings.ToUpper(s)
	case 2:
		rs := []byte(s)
		for i := range rs {
			if i%2 == 0 && rs[i] >= 'a' && rs[i] <= 'f' {
				rs[i] -= 32
			}
		}
		return string(rs)
	}
	return s
}

func withVersion(b []byte, v byte) []byte {
	o := append([]byte{}, b...)
	o[6] = o[6]&0x0F | v<<4
	return o
}

// tracked is a caller-owned input buffer: the bytes handed to a decoder or setter, followed by spare
// capacity filled with a sentinel. A callee may read it; it must leave both parts alone (a decoder
// that byte-swaps in place, or appends to its argument, changes the caller's data).
type tracked struct{ buf, orig []byte }

func track(in []byte) *tracked {
	full := make([]byte, len(in)+8)
	copy(full, in)
	for i := len(in); i < len(full); i++ {
		full[i] = 0xA5
	}
	return &tracked{buf: full[:len(in):len(full)], orig: append([]byte{}, full...)}
}

func (k *tracked) untouched(subject string, fs *[]vf.Finding) {
	if now := k.buf[:cap(k.buf)]; !bytes.Equal(now, k.orig) {
		n := len(k.buf)
		*fs = append(*fs, vf.F(subject, "callee-modifies-callers-input", "input %x (spare capacity %x) is %x (%x) after the call", k.orig[:n], k.orig[n:], now[:n], now[n:]))
	}
}

// all five text groups carry a set bit
func nontrivialVal(c valCase) bool {
	b := c.B
	nz := func(x []byte) bool {
		for _, v := range x {
			if v != 0 {
				return true
			}
		}
		return false
	}
	return len(b) == 16 && nz(b[0:4]) && nz(b[4:6]) && nz(b[6:8]) && nz(b[8:10]) && nz(b[10:16])
}

func bitPatterns(yield func(valCase)) {
	for i := 0; i < 128; i++ {
		b := make([]byte, 16)
		b[i/8] = 0x80 >> uint(i%8)
		c := make([]byte, 16)
		for j := range c {
			c[j] = ^b[j]
		}
		// every third pattern is followed by 1..8 bytes of the caller's next field
		var tail []byte
		if i%3 == 0 {
			tail = bytes.Repeat([]byte{0xEE}, 1+i%8)
		}
		yield(valCase{B: b, Case: i % 3, Tail: tail})
		yield(valCase{B: c, Case: (i + 1) % 3, Tail: tail})
	}
	yield(valCase{B: make([]byte, 16)})
	yield(valCase{B: bytes.Repeat([]byte{0xff}, 16), Case: 1})
}

func genVal(t *rapid.T) valCase {
	b := rapid.SliceOfN(rapid.Byte(), 16, 16).Draw(t, "b")
	pad := ""
	if rapid.Bool().Draw(t, "padded") {
		pad = rapid.SampledFrom([]string{" ", "\t", "\n", "  \r\n"}).Draw(t, "pad")
	}
	var tail []byte
	if rapid.IntRange(0, 2).Draw(t, "followed") == 0 {
		tail = rapid.SliceOfN(rapid.Byte(), 1, 8).Draw(t, "tail")
	}
	return valCase{B: b, Case: rapid.IntRange(0, 2).Draw(t, "case"), Pad: pad, Tail: tail}
}

// ---- generic UUID binary/text ---------------------------------------------------

type uuidLike interface {
	Marshal() ([]byte, error)
	Unmarshal([]byte) (int, error)
	FromString(string) error
	String() string
}

func checkUUIDOne(name string, mk func() uuidLike, in, tail []byte, mustAccept bool, cs int) []vf.Finding {
	var fs []vf.Finding
	u := mk()
	// Unmarshal reads one value from the front of a buffer and says how much of it that was; what
	// follows the 16 bytes belongs to the caller's next field and has no say in the value.
	arg := track(append(append([]byte{}, in...), tail...))
	n, err := u.Unmarshal(arg.buf)
	arg.untouched(name+".Unmarshal", &fs)
	if err != nil {
		if mustAccept {
			fs = append(fs, vf.F(name+".Unmarshal", "valid-value-rejected", "%x: %v", in, err))
		}
		return fs
	}
	if !mustAccept {
		fs = append(fs, vf.F(name+".Unmarshal", "wrong-version-accepted", "%x", in))
		return fs
	}
	if n != 16 {
		fs = append(fs, vf.F(name+".Unmarshal", "consumed-not-16", "%x (followed by %x): n=%d", in, tail, n))
	}
	out, err := u.Marshal()
	if err != nil || !bytes.Equal(out, in) {
		fs = append(fs, vf.F(name+".Marshal", "marshal-unmarshal-not-identity", "%x (followed by %x) -> %x (%v)", in, tail, out, err))
	}
	// repeatable
	out2, _ := u.Marshal()
	if !bytes.Equal(out, out2) {
		fs = append(fs, vf.F(name+".Marshal", "not-repeatable", "%x then %x", out, out2))
	}
	// the exact-length decoder of the versioned types
	if fb, ok := mk().(interface{ FromBytes([]byte) error }); ok {
		arg := track(in)
		err := fb.FromBytes(arg.buf)
		arg.untouched(name+".FromBytes", &fs)
		if err != nil {
			fs = append(fs, vf.F(name+".FromBytes", "valid-value-rejected", "%x: %v", in, err))
		} else if o, _ := fb.(uuidLike).Marshal(); !bytes.Equal(o, in) {
			fs = append(fs, vf.F(name+".FromBytes", "marshal-unmarshal-not-identity", "%x -> %x", in, o))
		}
	}
	want := canon(in)
	if got := u.String(); got != want {
		fs = append(fs, vf.F(name+".String", "text-differs-from-canonical", "%x -> %q want %q", in, got, want))
	}
	// text -> value -> text, case-insensitively
	u2 := mk()
	txt := recase(want, cs)
	if err := u2.FromString(txt); err != nil {
		fs = append(fs, vf.F(name+".FromString", "own-text-rejected", "%q: %v", txt, err))
	} else {
		if got := u2.String(); got != want {
			fs = append(fs, vf.F(name+".FromString", "parse-format-not-identity", "%q -> %q", txt, got))
		}
		if o, _ := u2.Marshal(); !bytes.Equal(o, in) {
			fs = append(fs, vf.F(name+".FromString", "text-to-binary-differs", "%q -> %x want %x", txt, o, in))
		}
	}
	return fs
}

func checkUUIDAll(c valCase) []vf.Finding {
	var fs []vf.Finding
	fs = append(fs, checkUUIDOne("uuid.UUID", func() uuidLike { return &uuid.UUID{} }, c.B, c.Tail, true, c.Case)...)
	ver := c.B[6] >> 4
	for _, v := range []struct {
		name string
		mk   func() uuidLike
		ver  byte
	}{
		{"uuid_v1.UUIDv1", func() uuidLike { return &uuid_v1.UUIDv1{} }, 1},
		{"uuid_v2.UUIDv2", func() uuidLike { return &uuid_v2.UUIDv2{} }, 2},
		{"uuid_v8.UUIDv8", func() uuidLike { return &uuid_v8.UUIDv8{} }, 8},
	} {
		// as given (accepted iff the version nibble matches) and with the nibble forced
		fs = append(fs, checkUUIDOne(v.name, v.mk, c.B, c.Tail, ver == v.ver, c.Case)...)
		if ver != v.ver {
			fs = append(fs, checkUUIDOne(v.name, v.mk, withVersion(c.B, v.ver), c.Tail, true, c.Case)...)
		}
	}
	return fs
}

func TestUUIDBinaryText(t *testing.T) {
	s := vf.Begin(t, P, "uuid-binary-text")
	vf.Rapid(s, vf.N(20000, 300000), genVal, checkUUIDAll, nontrivialVal)
}

func TestUUIDBitsExhaustive(t *testing.T) {
	s := vf.Begin(t, P, "uuid-bits-exhaustive")
	s.SetExhaustive()
	vf.Enum(s, bitPatterns, checkUUIDAll, nil)
}

// ---- RFC 4122 field layout (independent decomposition) --------------------------

func checkRFCFields(c valCase) []vf.Finding {
	var fs []vf.Finding
	b := withVersion(c.B, 1)
	tsRef := uint64(binary.BigEndian.Uint16(b[6:8])&0x0FFF)<<48 | uint64(binary.BigEndian.Uint16(b[4:6]))<<32 | uint64(binary.BigEndian.Uint32(b[0:4]))
	csRef := uint16(b[8]&0x3F)<<8 | uint16(b[9])
	u := &uuid_v1.UUIDv1{}
	arg := track(b)
	err := u.FromBytes(arg.buf)
	arg.untouched("uuid_v1.FromBytes", &fs)
	if err != nil {
		return append(fs, vf.F("uuid_v1.FromBytes", "valid-value-rejected", "%x: %v", b, err))
	}
	if u.Time != tsRef {
		fs = append(fs, vf.F("UUIDv1.Time", "timestamp-differs-from-rfc4122", "%x: got %#x want %#x", b, u.Time, tsRef))
	}
	if !bytes.Equal(u.GetNodeID(), b[10:16]) {
		fs = append(fs, vf.F("UUIDv1.NodeID", "node-differs-from-rfc4122", "%x: got %x", b, u.GetNodeID()))
	}
	if got := u.GetClockSequence(); got != csRef {
		// The library keeps 12 bits and puts the rest into the 4-bit "Variant".
		if got == csRef&0x0FFF && uint16(u.Variant&0x3) == csRef>>12 {
			fs = append(fs, vf.F("UUIDv1.ClockSeq", "top-two-bits-in-variant-nibble", "%s: ClockSeq %#x, RFC 4122 14-bit clock sequence %#x", canon(b), got, csRef))
		} else {
			fs = append(fs, vf.F("UUIDv1.ClockSeq", "clock-seq-differs-from-rfc4122", "%s: got %#x variant %#x want %#x", canon(b), got, u.Variant, csRef))
		}
	}
	return fs
}

func TestRFC4122Fields(t *testing.T) {
	s := vf.Begin(t, P, "rfc4122-fields")
	vf.Rapid(s, vf.N(20000, 300000), genVal, checkRFCFields, nontrivialVal)
}

func TestRFC4122FieldsBits(t *testing.T) {
	s := vf.Begin(t, P, "rfc4122-fields-bits-exhaustive")
	s.SetExhaustive()
	vf.Enum(s, bitPatterns, checkRFCFields, nil)
}

// ---- field assignment -> text -> parse -> fields ------------------------------------

type v1Fields struct {
	Time     uint64 `json:"time60"`
	ClockSeq uint16 `json:"clock_seq"`
	Node     vf.Hex `json:"node"`
	Variant  uint8  `json:"variant"`
	UnixNs   int64  `json:"unix_ns_100"` // multiple of 100, within 1700..2200
	// seconds east of UTC of the Location the time value carries (SetTime is defined on the instant)
	Zone int `json:"zone_offset_s,omitempty"`
	// the order in which the four assignments are made (indices into v1Steps); absent = as listed
	Order []int `json:"order,omitempty"`
}

// The fields of a value are independent of each other: the caller may assign them in any order.
var v1Steps = []string{"Time", "SetClockSequence", "Variant", "SetNodeID"}

// stepOrder returns a stored order if it is a permutation of 0..n-1, the identity otherwise.
func stepOrder(order []int, n int) []int {
	id := make([]int, n)
	for i := range id {
		id[i] = i
	}
	if len(order) != n {
		return id
	}
	seen := make([]bool, n)
	for _, k := range order {
		if k < 0 || k >= n || seen[k] {
			return id
		}
		seen[k] = true
	}
	return order
}

func genOrder(t *rapid.T, n int) []int {
	id := make([]int, n)
	for i := range id {
		id[i] = i
	}
	return rapid.Permutation(id).Draw(t, "order")
}

func checkV1Fields(c v1Fields) []vf.Finding {
	var fs []vf.Finding
	u := &uuid_v1.UUIDv1{}
	for _, step := range stepOrder(c.Order, len(v1Steps)) {
		switch v1Steps[step] {
		case "Time":
			u.Time = c.Time
		case "SetClockSequence":
			u.SetClockSequence(c.ClockSeq)
		case "Variant":
			u.Variant = c.Variant
		case "SetNodeID":
			node := track(c.Node)
			err := u.SetNodeID(node.buf)
			node.untouched("UUIDv1.SetNodeID", &fs)
			if err != nil {
				return append(fs, vf.F("UUIDv1.SetNodeID", "six-byte-node-rejected", "%v", err))
			}
		}
	}
	txt := u.String()
	p := &uuid_v1.UUIDv1{}
	if err := p.FromString(txt); err != nil {
		return append(fs, vf.F("UUIDv1.FromString", "own-text-rejected", "%q: %v", txt, err))
	}
	if p.Time != c.Time {
		fs = append(fs, vf.F("UUIDv1.Time", "field-not-preserved", "%#x -> %q -> %#x", c.Time, txt, p.Time))
	}
	if p.GetClockSequence() != c.ClockSeq {
		if c.ClockSeq >= 0x1000 && p.GetClockSequence() == c.ClockSeq&0x0FFF {
			fs = append(fs, vf.F("UUIDv1.ClockSeq", "top-two-bits-in-variant-nibble", "SetClockSequence(%#x) -> %q -> %#x (14-bit RFC 4122 value truncated to 12 bits)", c.ClockSeq, txt, p.GetClockSequence()))
		} else {
			fs = append(fs, vf.F("UUIDv1.ClockSeq", "field-not-preserved", "%#x -> %q -> %#x", c.ClockSeq, txt, p.GetClockSequence()))
		}
	}
	if !bytes.Equal(p.GetNodeID(), c.Node) {
		fs = append(fs, vf.F("UUIDv1.NodeID", "field-not-preserved", "%x -> %q -> %x", c.Node, txt, p.GetNodeID()))
	}
	if p.Variant != c.Variant {
		fs = append(fs, vf.F("UUIDv1.Variant", "field-not-preserved", "%#x -> %q -> %#x", c.Variant, txt, p.Variant))
	}
	// timestamp through Go time (mid-range only; the extremes belong to C15)
	w := &uuid_v1.UUIDv1{}
	tm := time.Unix(0, c.UnixNs).UTC()
	if c.Zone != 0 {
		tm = tm.In(time.FixedZone("", c.Zone))
	}
	w.SetTime(tm)
	q := &uuid_v1.UUIDv1{}
	if err := q.FromString(w.String()); err != nil {
		fs = append(fs, vf.F("UUIDv1.FromString", "own-text-rejected", "%q: %v", w.String(), err))
	} else if !q.GetTime().Equal(tm) {
		fs = append(fs, vf.F("UUIDv1.GetTime", "time-not-preserved", "%v -> %q -> %v", tm.UTC(), w.String(), q.GetTime().UTC()))
	}
	// independent: ticks since 1582-10-15 = unix100 + 0x01B21DD213814000
	if want := uint64(c.UnixNs/100 + uuidEpochOffset); w.Time != want {
		fs = append(fs, vf.F("UUIDv1.SetTime", "timestamp-differs-from-rfc4122", "%v: got %#x want %#x", tm.UTC(), w.Time, want))
	}
	return fs
}

func genUnixNs100(t *rapid.T) int64 {
	lo := time.Date(1700, 1, 1, 0, 0, 0, 0, time.UTC).UnixNano() / 100
	hi := time.Date(2200, 1, 1, 0, 0, 0, 0, time.UTC).UnixNano() / 100
	return rapid.Int64Range(lo, hi).Draw(t, "unix100") * 100
}

// UTC in a third of the cases, otherwise an offset in use today or any offset within +-14 h
func genZoneOffset(t *rapid.T) int {
	switch rapid.IntRange(0, 2).Draw(t, "zoneClass") {
	case 0:
		return 0
	case 1:
		return rapid.SampledFrom([]int{3600, -18000, 19800, -12600, 20700, 50400, -43200}).Draw(t, "zoneKnown")
	}
	return rapid.IntRange(-14*3600, 14*3600).Draw(t, "zoneSeconds")
}

func TestUUIDv1Fields(t *testing.T) {
	s := vf.Begin(t, P, "uuidv1-fields")
	vf.Rapid(s, vf.N(20000, 300000), func(t *rapid.T) v1Fields {
		return v1Fields{
			Time:     rapid.Uint64Range(0, 1<<60-1).Draw(t, "time"),
			ClockSeq: uint16(rapid.IntRange(0, 0x3FFF).Draw(t, "cs")),
			Node:     rapid.SliceOfN(rapid.Byte(), 6, 6).Draw(t, "node"),
			Variant:  uint8(rapid.IntRange(0, 15).Draw(t, "variant")),
			UnixNs:   genUnixNs100(t),
			Zone:     genZoneOffset(t),
			Order:    genOrder(t, len(v1Steps)),
		}
	}, checkV1Fields, func(c v1Fields) bool { return c.Time>>48 != 0 && c.ClockSeq > 0xFF })
}

type v2Fields struct {
	TimeHi28 uint32 `json:"time_bits_32_59"`
	LDN      uint32 `json:"local_domain_number"`
	Clock    uint8  `json:"clock4"`
	LD       uint8  `json:"local_domain"`
	Node     vf.Hex `json:"node"`
	Variant  uint8  `json:"variant"`
	// ViaSetTime: the timestamp is given as a Go time through SetTime, which fills all 60 bits, instead
	// of by assigning bits 32..59. DCE 1.1 keeps bits 32..59 of it; the low 32 bits give way to the
	// local identifier, whatever that is.
	ViaSetTime bool  `json:"via_set_time,omitempty"`
	UnixNs     int64 `json:"unix_ns_100,omitempty"` // multiple of 100, within 1700..2200
	Zone       int   `json:"zone_offset_s,omitempty"`
	// the order in which the six assignments are made (indices into v2Steps); absent = as listed
	Order []int `json:"order,omitempty"`
}

var v2Steps = []string{"Time", "SetLocalDomainNumber", "SetClock", "SetLocalDomain", "SetNodeID", "Variant"}

// uuidEpochOffset: 100 ns ticks from 1582-10-15 to 1970-01-01 (RFC 4122 4.1.4)
const uuidEpochOffset = 0x01B21DD213814000

// wantTime is the timestamp a version 2 value carries through its text: bits 32..59.
func (c v2Fields) wantTime() uint64 {
	if c.ViaSetTime {
		return uint64(c.UnixNs/100+uuidEpochOffset) &^ 0xFFFFFFFF
	}
	return uint64(c.TimeHi28) << 32
}

func (c v2Fields) goTime() time.Time {
	tm := time.Unix(0, c.UnixNs).UTC()
	if c.Zone != 0 {
		tm = tm.In(time.FixedZone("", c.Zone))
	}
	return tm
}

func checkV2Fields(c v2Fields) []vf.Finding {
	var fs []vf.Finding
	u := &uuid_v2.UUIDv2{}
	for _, step := range stepOrder(c.Order, len(v2Steps)) {
		switch v2Steps[step] {
		case "Time":
			if c.ViaSetTime {
				u.SetTime(c.goTime())
			} else {
				u.Time = uint64(c.TimeHi28) << 32
			}
		case "SetLocalDomainNumber":
			u.SetLocalDomainNumber(c.LDN)
		case "SetClock":
			u.SetClock(c.Clock)
		case "SetLocalDomain":
			u.SetLocalDomain(c.LD)
		case "SetNodeID":
			node := track(c.Node)
			u.SetNodeID(node.buf)
			node.untouched("UUIDv2.SetNodeID", &fs)
		case "Variant":
			u.Variant = c.Variant
		}
	}
	given, want := u.Time, c.wantTime()
	txt := u.String()
	p := &uuid_v2.UUIDv2{}
	if err := p.FromString(recase(txt, int(c.LD)%3)); err != nil {
		return append(fs, vf.F("UUIDv2.FromString", "own-text-rejected", "%q: %v", txt, err))
	}
	if p.Time != want {
		fs = append(fs, vf.F("UUIDv2.Time", "field-not-preserved", "%#x -> %q -> %#x, want bits 32..59 = %#x", given, txt, p.Time, want))
	}
	if p.GetLocalDomainNumber() != c.LDN {
		fs = append(fs, vf.F("UUIDv2.LocalDomainNumber", "field-not-preserved", "%#x (time %#x) -> %q -> %#x", c.LDN, given, txt, p.GetLocalDomainNumber()))
	}
	if p.GetClock() != c.Clock {
		fs = append(fs, vf.F("UUIDv2.Clock", "field-not-preserved", "%#x -> %q -> %#x", c.Clock, txt, p.GetClock()))
	}
	if p.GetLocalDomain() != c.LD {
		fs = append(fs, vf.F("UUIDv2.LocalDomain", "field-not-preserved", "%#x -> %q -> %#x", c.LD, txt, p.GetLocalDomain()))
	}
	if !bytes.Equal(p.GetNodeID(), c.Node) {
		fs = append(fs, vf.F("UUIDv2.NodeID", "field-not-preserved", "%x -> %q -> %x", c.Node, txt, p.GetNodeID()))
	}
	if p.Variant != c.Variant {
		fs = append(fs, vf.F("UUIDv2.Variant", "field-not-preserved", "%#x -> %q -> %#x", c.Variant, txt, p.Variant))
	}
	// DCE 1.1 layout, independently: local id in bytes 0..3, domain in byte 9
	raw, _ := u.Marshal()
	if binary.BigEndian.Uint32(raw[0:4]) != c.LDN || raw[9] != c.LD || !bytes.Equal(raw[10:16], c.Node) || raw[6]>>4 != 2 {
		fs = append(fs, vf.F("UUIDv2.Marshal", "layout-differs-from-dce", "%x for ldn %#x ld %#x node %x (time %#x)", raw, c.LDN, c.LD, c.Node, given))
	}
	return fs
}

// local identifiers: 0 (root, or none), a uid/gid as systems hand them out, any 32-bit value
func genLDN(t *rapid.T) uint32 {
	switch rapid.IntRange(0, 3).Draw(t, "ldnClass") {
	case 0:
		return 0
	case 1:
		return uint32(rapid.IntRange(1, 65535).Draw(t, "ldnSmall"))
	}
	return rapid.Uint32().Draw(t, "ldn")
}

func TestUUIDv2Fields(t *testing.T) {
	s := vf.Begin(t, P, "uuidv2-fields")
	vf.Rapid(s, vf.N(20000, 300000), func(t *rapid.T) v2Fields {
		c := v2Fields{
			LDN:     genLDN(t),
			Clock:   uint8(rapid.IntRange(0, 15).Draw(t, "clock")),
			LD:      rapid.Byte().Draw(t, "ld"),
			Node:    rapid.SliceOfN(rapid.Byte(), 6, 6).Draw(t, "node"),
			Variant: uint8(rapid.IntRange(0, 15).Draw(t, "variant")),
			Order:   genOrder(t, len(v2Steps)),
		}
		if rapid.Bool().Draw(t, "viaSetTime") {
			c.ViaSetTime, c.UnixNs, c.Zone = true, genUnixNs100(t), genZoneOffset(t)
		} else {
			c.TimeHi28 = uint32(rapid.IntRange(0, 1<<28-1).Draw(t, "t"))
		}
		return c
	}, checkV2Fields, func(c v2Fields) bool {
		// the timestamp's high part is set, and so is either the local id's or (through SetTime) the
		// part of the timestamp that has to give way to it
		return c.wantTime()>>48 != 0 && (c.LDN > 0xFFFF || (c.ViaSetTime && uint32(c.UnixNs/100+uuidEpochOffset) != 0))
	})
}

type v8Fields struct {
	Data    vf.Hex `json:"data15"`
	Variant uint8  `json:"variant"`
	// the variant is assigned before the data instead of after it
	VariantFirst bool `json:"variant_first,omitempty"`
}

func checkV8Fields(c v8Fields) []vf.Finding {
	var fs []vf.Finding
	u := &uuid_v8.UUIDv8{}
	if c.VariantFirst {
		u.Variant = c.Variant
	}
	data := track(c.Data)
	u.SetData(data.buf)
	data.untouched("UUIDv8.SetData", &fs)
	if !c.VariantFirst {
		u.Variant = c.Variant
	}
	txt := u.String()
	p := &uuid_v8.UUIDv8{}
	if err := p.FromString(txt); err != nil {
		return append(fs, vf.F("UUIDv8.FromString", "own-text-rejected", "%q: %v", txt, err))
	}
	if !bytes.Equal(p.GetData(), c.Data) {
		fs = append(fs, vf.F("UUIDv8.Data", "field-not-preserved", "%x -> %q -> %x", c.Data, txt, p.GetData()))
	}
	if p.Variant != c.Variant {
		fs = append(fs, vf.F("UUIDv8.Variant", "field-not-preserved", "%#x -> %q -> %#x", c.Variant, txt, p.Variant))
	}
	raw, _ := u.Marshal()
	if raw[6]>>4 != 8 {
		fs = append(fs, vf.F("UUIDv8.Marshal", "version-nibble-not-8", "%x", raw))
	}
	return fs
}

func TestUUIDv8Fields(t *testing.T) {
	s := vf.Begin(t, P, "uuidv8-fields")
	vf.Rapid(s, vf.N(20000, 300000), func(t *rapid.T) v8Fields {
		return v8Fields{rapid.SliceOfN(rapid.Byte(), 15, 15).Draw(t, "data"), uint8(rapid.IntRange(0, 15).Draw(t, "variant")), rapid.Bool().Draw(t, "variantFirst")}
	}, checkV8Fields, func(c v8Fields) bool { return c.Data[6] != 0 && c.Data[7] != 0 })
}

// ---- GUID ---------------------------------------------------------------------

// MS-DTYP 2.3.4.2: Data1 (LE32) Data2 (LE16) Data3 (LE16) Data4 (8 bytes);
// text = Data1-Data2-Data3-Data4[0..1]-Data4[2..7], all hexadecimal big-endian.
func refGUIDText(raw []byte) (n, d, b, p, x string) {
	d1 := binary.LittleEndian.Uint32(raw[0:4])
	d2 := binary.LittleEndian.Uint16(raw[4:6])
	d3 := binary.LittleEndian.Uint16(raw[6:8])
	d4 := raw[8:16]
	d = fmt.Sprintf("%08x-%04x-%04x-%02x%02x-%02x%02x%02x%02x%02x%02x", d1, d2, d3, d4[0], d4[1], d4[2], d4[3], d4[4], d4[5], d4[6], d4[7])
	n = strings.ReplaceAll(d, "-", "")
	b = "{" + d + "}"
	p = "(" + d + ")"
	x = fmt.Sprintf("{0x%08x,0x%04x,0x%04x,{0x%02x,0x%02x,0x%02x,0x%02x,0x%02x,0x%02x,0x%02x,0x%02x}}", d1, d2, d3, d4[0], d4[1], d4[2], d4[3], d4[4], d4[5], d4[6], d4[7])
	return
}

var fmtNames = []string{"N", "D", "B", "P", "X"}

func toFormat(g *guid.GUID, i int) string {
	switch i {
	case 0:
		return g.ToFormatN()
	case 1:
		return g.ToFormatD()
	case 2:
		return g.ToFormatB()
	case 3:
		return g.ToFormatP()
	}
	return g.ToFormatX()
}

func fromFormat(s string, i int) (*guid.GUID, error) {
	switch i {
	case 0:
		return guid.FromFormatN(s)
	case 1:
		return guid.FromFormatD(s)
	case 2:
		return guid.FromFormatB(s)
	case 3:
		return guid.FromFormatP(s)
	}
	return guid.FromFormatX(s)
}

func checkGUID(c valCase) []vf.Finding {
	var fs []vf.Finding
	raw := []byte(c.B)
	g := &guid.GUID{}
	arg := track(raw)
	g.FromRawBytes(arg.buf)
	arg.untouched("GUID.FromRawBytes", &fs)
	if out := g.ToBytes(); !bytes.Equal(out, raw) {
		fs = append(fs, vf.F("GUID.ToBytes", "bytes-roundtrip-differs", "%x -> %+v -> %x", raw, *g, out))
	}
	var ds data_structures.GUID
	arg = track(raw)
	ds.FromRawBytes(arg.buf)
	arg.untouched("data_structures.GUID.FromRawBytes", &fs)
	if !ds.Equal(g) {
		fs = append(fs, vf.F("data_structures.GUID", "alias-disagrees", "%x", raw))
	}
	rn, rd, rb, rp, rx := refGUIDText(raw)
	refs := []string{rn, rd, rb, rp, rx}
	for i := range refs {
		if got := toFormat(g, i); got != refs[i] {
			fs = append(fs, vf.F("GUID.ToFormat"+fmtNames[i], "text-differs-from-ms-dtyp", "%x: got %q want %q", raw, got, refs[i]))
		}
	}
	for i := range refs {
		// The text of the format as it stands must be accepted. The same text with white space around it
		// is not one of the five formats: a parser may trim it or refuse it, but if it accepts it the value
		// must be the right one.
		text := recase(refs[i], c.Case)
		inputs := []string{text}
		if c.Pad != "" {
			inputs = append(inputs, c.Pad+text+c.Pad)
		}
		for _, in := range inputs {
			// through the specific parser and through FromString
			for k, parse := range []func(string) (*guid.GUID, error){func(s string) (*guid.GUID, error) { return fromFormat(s, i) }, guid.FromString} {
				who := "guid.FromFormat" + fmtNames[i]
				if k == 1 {
					who = "guid.FromString(" + fmtNames[i] + ")"
				}
				pg, err := parse(in)
				if err != nil || pg == nil {
					if in == text {
						fs = append(fs, vf.F(who, "valid-text-rejected", "%q: %v", in, err))
					}
					continue
				}
				if out := pg.ToBytes(); !bytes.Equal(out, raw) {
					fs = append(fs, vf.F(who, "parsed-value-differs", "%q -> %x want %x", in, out, raw))
					continue
				}
				for j := range refs {
					if got := toFormat(pg, j); got != refs[j] {
						fs = append(fs, vf.F(who, "format-pair-differs", "%q -> format %s %q want %q", in, fmtNames[j], got, refs[j]))
					}
				}
			}
		}
	}
	return fs
}

func TestGUID(t *testing.T) {
	s := vf.Begin(t, P, "guid-formats-bytes")
	vf.Rapid(s, vf.N(10000, 150000), genVal, checkGUID, nontrivialVal)
}

func TestGUIDBitsExhaustive(t *testing.T) {
	s := vf.Begin(t, P, "guid-bits-exhaustive")
	s.SetExhaustive()
	vf.Enum(s, bitPatterns, checkGUID, nil)
}

type guidFields struct {
	A uint32 `json:"a"`
	B uint16 `json:"b"`
	C uint16 `json:"c"`
	D uint16 `json:"d"`
	E uint64 `json:"e48"`
}

// sameGUID compares the five fields that make up a GUID. The struct values are never compared as a
// whole: what else an implementation keeps in them is its own business.
func sameGUID(a, b *guid.GUID) bool {
	return a.A == b.A && a.B == b.B && a.C == b.C && a.D == b.D && a.E == b.E
}

// exportedDiff compares two values of one type by their exported fields, recursively (embedded
// structs, arrays, slices and pointers are followed), and returns the path of the first one that
// differs, "" if none does. Unexported fields are the implementation's bookkeeping and are skipped.
func exportedDiff(a, b reflect.Value, path string) string {
	if a.IsValid() != b.IsValid() || (a.IsValid() && a.Type() != b.Type()) {
		return path + " (type)"
	}
	if !a.IsValid() {
		return ""
	}
	switch a.Kind() {
	case reflect.Pointer, reflect.Interface:
		if a.IsNil() || b.IsNil() {
			if a.IsNil() != b.IsNil() {
				return path + " (nil)"
			}
			return ""
		}
		return exportedDiff(a.Elem(), b.Elem(), path)
	case reflect.Struct:
		for i := 0; i < a.NumField(); i++ {
			f := a.Type().Field(i)
			if !f.IsExported() {
				continue
			}
			if d := exportedDiff(a.Field(i), b.Field(i), strings.TrimPrefix(path+"."+f.Name, ".")); d != "" {
				return d
			}
		}
		return ""
	case reflect.Slice, reflect.Array:
		if a.Len() != b.Len() {
			return path + " (length)"
		}
		for i := 0; i < a.Len(); i++ {
			if d := exportedDiff(a.Index(i), b.Index(i), fmt.Sprintf("%s[%d]", path, i)); d != "" {
				return d
			}
		}
		return ""
	case reflect.Map, reflect.Func, reflect.Chan, reflect.UnsafePointer:
		return "" // none in the types compared here
	}
	if !a.Equal(b) {
		return path
	}
	return ""
}

func checkGUIDFields(c guidFields) []vf.Finding {
	var fs []vf.Finding
	g := &guid.GUID{A: c.A, B: c.B, C: c.C, D: c.D, E: c.E}
	for i := range fmtNames {
		txt := toFormat(g, i)
		p, err := guid.FromString(txt)
		if err != nil || p == nil {
			fs = append(fs, vf.F("guid.FromString("+fmtNames[i]+")", "own-text-rejected", "%q: %v", txt, err))
			continue
		}
		if !sameGUID(p, g) {
			fs = append(fs, vf.F("guid.FromString("+fmtNames[i]+")", "fields-not-preserved", "%+v -> %q -> %+v", *g, txt, *p))
		}
	}
	r := &guid.GUID{}
	r.FromRawBytes(g.ToBytes())
	if !sameGUID(r, g) {
		fs = append(fs, vf.F("GUID.FromRawBytes", "fields-not-preserved", "%+v -> %x -> %+v", *g, g.ToBytes(), *r))
	}
	return fs
}

func TestGUIDFields(t *testing.T) {
	s := vf.Begin(t, P, "guid-fields")
	vf.Rapid(s, vf.N(10000, 150000), func(t *rapid.T) guidFields {
		return guidFields{rapid.Uint32().Draw(t, "a"), rapid.Uint16().Draw(t, "b"), rapid.Uint16().Draw(t, "c"), rapid.Uint16().Draw(t, "d"), rapid.Uint64Range(0, 1<<48-1).Draw(t, "e")}
	}, checkGUIDFields, func(c guidFields) bool { return c.D > 0xFF && c.E > 0xFFFFFFFF })
}

// ---- format, change one field, format again -------------------------------------------------------
//
// "For every field assignment, formatting then parsing returns the same fields" holds for the
// assignment a caller makes last as much as for the first ones: a value that has been formatted (or
// obtained by parsing) and then has one field changed, through its setter or by assignment, must
// format exactly as a value that was given the same fields without being formatted in between, and
// its text must parse to the changed field. (A formatter that keeps the wire form it produced once
// and hands it out again satisfies every build-once round trip.)
//
// Field values are cut from 16 random bytes, each within its width; the version 1 clock sequence
// stays within the 12 bits the library keeps (the recorded finding about its width is the business
// of rfc4122-fields and uuidv1-fields).

type changeCase struct {
	Type  string `json:"type"`  // UUIDv1, UUIDv2, UUIDv8, GUID
	X     vf.Hex `json:"x16"`   // the fields the value has first
	Y     vf.Hex `json:"y16"`   // where the new value of the one field comes from
	Field string `json:"field"` // the setter called, or the field assigned
	// the value is first obtained by parsing the text of x's fields instead of by assignment
	Parsed bool `json:"parsed,omitempty"`
	// what is called before the change: 0 the text formatter(s), 1 the binary one, 2 both
	First  int   `json:"formatted_first_by"`
	UnixNs int64 `json:"unix_ns_100,omitempty"` // the Go time given when Field is SetTime
	Zone   int   `json:"zone_offset_s,omitempty"`
}

// changeKind describes one type for the purposes of this sub-check. Values travel as `any`; every
// closure of a kind knows its own type.
type changeKind struct {
	fields []string       // what can be set
	slot   map[string]int // which entry of cut/read a field shows up in
	// cut renders the field values that 16 bytes stand for (no library code involved)
	cut func(b []byte) []string
	// timeSlot renders what the time slot must read after SetTime(unix100 ticks)
	timeSlot func(unix100 int64) string
	build    func(b []byte) any
	set      func(o any, field string, b []byte, tm time.Time)
	text     func(o any) []string
	binary   func(o any) []string
	parse    func(txt string) (any, error)
	read     func(o any) []string
}

func be48(b []byte) uint64 {
	return uint64(binary.BigEndian.Uint16(b[0:2]))<<32 | uint64(binary.BigEndian.Uint32(b[2:6]))
}

func hx(v any) string { return fmt.Sprintf("%x", v) }

func uuidBinary(o any) []string {
	b, err := o.(uuidLike).Marshal()
	return []string{hx(b), fmt.Sprint(err)}
}

var changeKinds = map[string]changeKind{
	"UUIDv1": {
		fields: []string{"Time", "SetTime", "SetClockSequence", "Variant", "SetNodeID"},
		slot:   map[string]int{"Time": 0, "SetTime": 0, "SetClockSequence": 1, "Variant": 2, "SetNodeID": 3},
		cut: func(b []byte) []string {
			return []string{hx(binary.BigEndian.Uint64(b[0:8]) & (1<<60 - 1)), hx(binary.BigEndian.Uint16(b[8:10]) & 0x0FFF), hx(b[8] >> 4), hx(b[10:16])}
		},
		timeSlot: func(unix100 int64) string { return hx(uint64(unix100 + uuidEpochOffset)) },
		build: func(b []byte) any {
			u := &uuid_v1.UUIDv1{}
			u.Time = binary.BigEndian.Uint64(b[0:8]) & (1<<60 - 1)
			u.SetClockSequence(binary.BigEndian.Uint16(b[8:10]) & 0x0FFF)
			u.Variant = b[8] >> 4
			u.SetNodeID(append([]byte{}, b[10:16]...))
			return u
		},
		set: func(o any, field string, b []byte, tm time.Time) {
			u := o.(*uuid_v1.UUIDv1)
			switch field {
			case "Time":
				u.Time = binary.BigEndian.Uint64(b[0:8]) & (1<<60 - 1)
			case "SetTime":
				u.SetTime(tm)
			case "SetClockSequence":
				u.SetClockSequence(binary.BigEndian.Uint16(b[8:10]) & 0x0FFF)
			case "Variant":
				u.Variant = b[8] >> 4
			case "SetNodeID":
				u.SetNodeID(append([]byte{}, b[10:16]...))
			}
		},
		text:   func(o any) []string { return []string{o.(*uuid_v1.UUIDv1).String()} },
		binary: uuidBinary,
		parse: func(txt string) (any, error) {
			u := &uuid_v1.UUIDv1{}
			return u, u.FromString(txt)
		},
		read: func(o any) []string {
			u := o.(*uuid_v1.UUIDv1)
			return []string{hx(u.Time), hx(u.GetClockSequence()), hx(u.Variant), hx(u.GetNodeID())}
		},
	},
	"UUIDv2": {
		fields: []string{"Time", "SetTime", "SetLocalDomainNumber", "SetClock", "SetLocalDomain", "SetNodeID", "Variant"},
		slot:   map[string]int{"Time": 0, "SetTime": 0, "SetLocalDomainNumber": 1, "SetClock": 2, "SetLocalDomain": 3, "SetNodeID": 4, "Variant": 5},
		cut: func(b []byte) []string {
			return []string{hx(uint64(binary.BigEndian.Uint32(b[4:8])&0x0FFFFFFF) << 32), hx(binary.BigEndian.Uint32(b[0:4])), hx(b[8] & 0x0F), hx(b[9]), hx(b[10:16]), hx(b[8] >> 4)}
		},
		// DCE 1.1 keeps bits 32..59 of the timestamp
		timeSlot: func(unix100 int64) string { return hx(uint64(unix100+uuidEpochOffset) &^ 0xFFFFFFFF) },
		build: func(b []byte) any {
			u := &uuid_v2.UUIDv2{}
			u.Time = uint64(binary.BigEndian.Uint32(b[4:8])&0x0FFFFFFF) << 32
			u.SetLocalDomainNumber(binary.BigEndian.Uint32(b[0:4]))
			u.SetClock(b[8] & 0x0F)
			u.SetLocalDomain(b[9])
			u.SetNodeID(append([]byte{}, b[10:16]...))
			u.Variant = b[8] >> 4
			return u
		},
		set: func(o any, field string, b []byte, tm time.Time) {
			u := o.(*uuid_v2.UUIDv2)
			switch field {
			case "Time":
				u.Time = uint64(binary.BigEndian.Uint32(b[4:8])&0x0FFFFFFF) << 32
			case "SetTime":
				u.SetTime(tm)
			case "SetLocalDomainNumber":
				u.SetLocalDomainNumber(binary.BigEndian.Uint32(b[0:4]))
			case "SetClock":
				u.SetClock(b[8] & 0x0F)
			case "SetLocalDomain":
				u.SetLocalDomain(b[9])
			case "SetNodeID":
				u.SetNodeID(append([]byte{}, b[10:16]...))
			case "Variant":
				u.Variant = b[8] >> 4
			}
		},
		text:   func(o any) []string { return []string{o.(*uuid_v2.UUIDv2).String()} },
		binary: uuidBinary,
		parse: func(txt string) (any, error) {
			u := &uuid_v2.UUIDv2{}
			return u, u.FromString(txt)
		},
		read: func(o any) []string {
			u := o.(*uuid_v2.UUIDv2)
			return []string{hx(u.Time), hx(u.GetLocalDomainNumber()), hx(u.GetClock()), hx(u.GetLocalDomain()), hx(u.GetNodeID()), hx(u.Variant)}
		},
	},
	"UUIDv8": {
		fields: []string{"SetData", "Variant"},
		slot:   map[string]int{"SetData": 0, "Variant": 1},
		cut:    func(b []byte) []string { return []string{hx(b[0:15]), hx(b[15] & 0x0F)} },
		build: func(b []byte) any {
			u := &uuid_v8.UUIDv8{}
			u.SetData(append([]byte{}, b[0:15]...))
			u.Variant = b[15] & 0x0F
			return u
		},
		set: func(o any, field string, b []byte, _ time.Time) {
			u := o.(*uuid_v8.UUIDv8)
			switch field {
			case "SetData":
				u.SetData(append([]byte{}, b[0:15]...))
			case "Variant":
				u.Variant = b[15] & 0x0F
			}
		},
		text:   func(o any) []string { return []string{o.(*uuid_v8.UUIDv8).String()} },
		binary: uuidBinary,
		parse: func(txt string) (any, error) {
			u := &uuid_v8.UUIDv8{}
			return u, u.FromString(txt)
		},
		read: func(o any) []string {
			u := o.(*uuid_v8.UUIDv8)
			return []string{hx(u.GetData()), hx(u.Variant)}
		},
	},
	"GUID": {
		fields: []string{"A", "B", "C", "D", "E"},
		slot:   map[string]int{"A": 0, "B": 1, "C": 2, "D": 3, "E": 4},
		cut: func(b []byte) []string {
			return []string{hx(binary.BigEndian.Uint32(b[0:4])), hx(binary.BigEndian.Uint16(b[4:6])), hx(binary.BigEndian.Uint16(b[6:8])), hx(binary.BigEndian.Uint16(b[8:10])), hx(be48(b[10:16]))}
		},
		build: func(b []byte) any {
			return &guid.GUID{A: binary.BigEndian.Uint32(b[0:4]), B: binary.BigEndian.Uint16(b[4:6]), C: binary.BigEndian.Uint16(b[6:8]), D: binary.BigEndian.Uint16(b[8:10]), E: be48(b[10:16])}
		},
		set: func(o any, field string, b []byte, _ time.Time) {
			g := o.(*guid.GUID)
			switch field {
			case "A":
				g.A = binary.BigEndian.Uint32(b[0:4])
			case "B":
				g.B = binary.BigEndian.Uint16(b[4:6])
			case "C":
				g.C = binary.BigEndian.Uint16(b[6:8])
			case "D":
				g.D = binary.BigEndian.Uint16(b[8:10])
			case "E":
				g.E = be48(b[10:16])
			}
		},
		text: func(o any) []string {
			g := o.(*guid.GUID)
			// format D first: it is the one parse reads
			return []string{g.ToFormatD(), g.ToFormatN(), g.ToFormatB(), g.ToFormatP(), g.ToFormatX()}
		},
		binary: func(o any) []string { return []string{hx(o.(*guid.GUID).ToBytes())} },
		parse: func(txt string) (any, error) {
			g, err := guid.FromString(txt)
			if err == nil && g == nil {
				err = fmt.Errorf("nil GUID and nil error")
			}
			return g, err
		},
		read: func(o any) []string {
			g := o.(*guid.GUID)
			return []string{hx(g.A), hx(g.B), hx(g.C), hx(g.D), hx(g.E)}
		},
	},
}

var changeTypes = []string{"UUIDv1", "UUIDv2", "UUIDv8", "GUID"}

func (c changeCase) goTime() time.Time {
	tm := time.Unix(0, c.UnixNs).UTC()
	if c.Zone != 0 {
		tm = tm.In(time.FixedZone("", c.Zone))
	}
	return tm
}

// expected renders the fields the value must have after the change.
func (c changeCase) expected(k changeKind) []string {
	want := k.cut(c.X)
	if c.Field == "SetTime" {
		want[k.slot[c.Field]] = k.timeSlot(c.UnixNs / 100)
	} else {
		want[k.slot[c.Field]] = k.cut(c.Y)[k.slot[c.Field]]
	}
	return want
}

func checkChange(c changeCase) []vf.Finding {
	var fs []vf.Finding
	k, ok := changeKinds[c.Type]
	if !ok || len(c.X) != 16 || len(c.Y) != 16 {
		return nil
	}
	if _, ok := k.slot[c.Field]; !ok {
		return nil
	}
	who := c.Type + "." + c.Field
	tm := c.goTime()
	u := k.build(c.X)
	if c.Parsed {
		p, err := k.parse(k.text(u)[0])
		if err != nil || !reflect.DeepEqual(k.read(p), k.cut(c.X)) {
			return nil // text -> fields of a value built once is judged by the *-fields sub-checks
		}
		u = p
	}
	// the value is used ...
	var before []string
	if c.First != 1 {
		before = append(before, k.text(u)...)
	}
	if c.First != 0 {
		before = append(before, k.binary(u)...)
	}
	// ... one field changes ...
	k.set(u, c.Field, c.Y, tm)
	// ... and it is used again. The same fields, never formatted before:
	w := k.build(c.X)
	k.set(w, c.Field, c.Y, tm)
	got, want := append(k.text(u), k.binary(u)...), append(k.text(w), k.binary(w)...)
	if !reflect.DeepEqual(got, want) {
		fs = append(fs, vf.F(who, "format-after-change-differs-from-new-value", "fields %v, formatted (%v), then %s changed: formats as %v; a new value with the same fields formats as %v", k.cut(c.X), before, c.Field, got, want))
	}
	p, err := k.parse(got[0])
	if err != nil {
		return append(fs, vf.F(who, "own-text-rejected", "%q: %v", got[0], err))
	}
	if has, exp := k.read(p), c.expected(k); !reflect.DeepEqual(has, exp) {
		fs = append(fs, vf.F(who, "fields-not-preserved-after-change", "fields %v, formatted, then %s changed: text %q parses to %v, want %v", k.cut(c.X), c.Field, got[0], has, exp))
	}
	return fs
}

func TestReformatAfterChange(t *testing.T) {
	s := vf.Begin(t, P, "reformat-after-change")
	vf.Rapid(s, vf.N(8000, 120000), func(t *rapid.T) changeCase {
		c := changeCase{
			Type:   rapid.SampledFrom(changeTypes).Draw(t, "type"),
			X:      rapid.SliceOfN(rapid.Byte(), 16, 16).Draw(t, "x"),
			Y:      rapid.SliceOfN(rapid.Byte(), 16, 16).Draw(t, "y"),
			Parsed: rapid.Bool().Draw(t, "parsed"),
			First:  rapid.IntRange(0, 2).Draw(t, "first"),
		}
		c.Field = rapid.SampledFrom(changeKinds[c.Type].fields).Draw(t, "field")
		if c.Field == "SetTime" {
			c.UnixNs, c.Zone = genUnixNs100(t), genZoneOffset(t)
		}
		return c
	}, checkChange, func(c changeCase) bool {
		// the change changes something
		k := changeKinds[c.Type]
		return k.cut(c.X)[k.slot[c.Field]] != c.expected(k)[k.slot[c.Field]]
	})
}

// ---- decoding into a receiver that already holds a value ---------------------------------------
//
// Every decoder here is a method on a receiver the caller may reuse. The value decoded from x must
// not depend on what the receiver held before: decode(y) then decode(x) into one variable must give
// the same value, text and bytes as decode(x) into a new one.

type reuseCase struct {
	X vf.Hex `json:"x16"`
	Y vf.Hex `json:"previous16"`
}

func checkReuse(c reuseCase) []vf.Finding {
	var fs []vf.Finding
	x, y := []byte(c.X), []byte(c.Y)
	// GUID
	fresh, used := &guid.GUID{}, &guid.GUID{}
	fresh.FromRawBytes(append([]byte{}, x...))
	used.FromRawBytes(append([]byte{}, y...))
	used.FromRawBytes(append([]byte{}, x...))
	if !sameGUID(fresh, used) || fresh.ToFormatD() != used.ToFormatD() || !bytes.Equal(fresh.ToBytes(), used.ToBytes()) {
		fs = append(fs, vf.F("GUID.FromRawBytes", "result-depends-on-previous-receiver-value", "x %x after %x: %+v (%s) want %+v (%s)", x, y, *used, used.ToFormatD(), *fresh, fresh.ToFormatD()))
	}
	for _, v := range []struct {
		name string
		mk   func() uuidLike
		ver  byte
	}{
		{"uuid.UUID", func() uuidLike { return &uuid.UUID{} }, 0xFF},
		{"uuid_v1.UUIDv1", func() uuidLike { return &uuid_v1.UUIDv1{} }, 1},
		{"uuid_v2.UUIDv2", func() uuidLike { return &uuid_v2.UUIDv2{} }, 2},
		{"uuid_v8.UUIDv8", func() uuidLike { return &uuid_v8.UUIDv8{} }, 8},
	} {
		xv, yv := x, y
		if v.ver != 0xFF {
			xv, yv = withVersion(x, v.ver), withVersion(y, v.ver)
		}
		for _, via := range []string{"Unmarshal", "FromString"} {
			dec := func(u uuidLike, b []byte) error {
				if via == "Unmarshal" {
					_, err := u.Unmarshal(append([]byte{}, b...))
					return err
				}
				return u.FromString(canon(b))
			}
			f, u := v.mk(), v.mk()
			if dec(f, xv) != nil || dec(u, yv) != nil || dec(u, xv) != nil {
				continue // acceptance is judged by the other sub-checks
			}
			fb, _ := f.Marshal()
			ub, _ := u.Marshal()
			if field := exportedDiff(reflect.ValueOf(u), reflect.ValueOf(f), ""); !bytes.Equal(fb, ub) || f.String() != u.String() || field != "" {
				fs = append(fs, vf.F(v.name+"."+via, "result-depends-on-previous-receiver-value", "x %x after %x: %s (%x) want %s (%x); first exported field that differs: %q", xv, yv, u, ub, f, fb, field))
			}
		}
	}
	return fs
}

func TestReceiverReuse(t *testing.T) {
	s := vf.Begin(t, P, "receiver-reuse")
	vf.Rapid(s, vf.N(8000, 120000), func(t *rapid.T) reuseCase {
		x := rapid.SliceOfN(rapid.Byte(), 16, 16).Draw(t, "x")
		var y []byte
		switch rapid.IntRange(0, 2).Draw(t, "prev") {
		case 0:
			y = bytes.Repeat([]byte{0xFF}, 16)
		case 1:
			y = rapid.SliceOfN(rapid.Byte(), 16, 16).Draw(t, "y")
		default:
			y = make([]byte, 16)
			for i := range y {
				y[i] = ^x[i]
			}
		}
		return reuseCase{X: x, Y: y}
	}, checkReuse, func(c reuseCase) bool { return !bytes.Equal(c.X, c.Y) && !bytes.Equal(c.Y, make([]byte, 16)) })
}

// ---- results are values of their own -----------------------------------------------------------
//
// "Formatting reproduces the input" is a statement about the value a caller holds, and a caller
// holds it for as long as it likes: the bytes / text obtained for value x must still be x's after
// any other value y has been decoded, marshalled and formatted (a formatter that fills one shared
// scratch buffer and hands out slices of it satisfies every single-value round trip).

type keptResult struct {
	who  string
	live func() []byte // the result as it is now
	snap []byte        // private copy taken when it was produced
}

func keepBytes(who string, b []byte) keptResult {
	return keptResult{who, func() []byte { return b }, append([]byte{}, b...)}
}

// strings are kept the same way: the snapshot is a copy with its own memory, so a formatter that
// builds its string over reused storage is seen as well.
func keepText(who string, s string) keptResult {
	return keptResult{who, func() []byte { return []byte(s) }, []byte(strings.Clone(s))}
}

func checkIndependence(c reuseCase) []vf.Finding {
	var fs []vf.Finding
	x, y := []byte(c.X), []byte(c.Y)
	var kept []keptResult

	// results for x ...
	gx := &guid.GUID{}
	gx.FromRawBytes(append([]byte{}, x...))
	kept = append(kept, keepBytes("GUID.ToBytes", gx.ToBytes()))
	for i := range fmtNames {
		kept = append(kept, keepText("GUID.ToFormat"+fmtNames[i], toFormat(gx, i)))
	}
	types := []struct {
		name string
		mk   func() uuidLike
		ver  byte
	}{
		{"uuid.UUID", func() uuidLike { return &uuid.UUID{} }, 0xFF},
		{"uuid_v1.UUIDv1", func() uuidLike { return &uuid_v1.UUIDv1{} }, 1},
		{"uuid_v2.UUIDv2", func() uuidLike { return &uuid_v2.UUIDv2{} }, 2},
		{"uuid_v8.UUIDv8", func() uuidLike { return &uuid_v8.UUIDv8{} }, 8},
	}
	for _, v := range types {
		xv := x
		if v.ver != 0xFF {
			xv = withVersion(x, v.ver)
		}
		u := v.mk()
		if _, err := u.Unmarshal(append([]byte{}, xv...)); err != nil {
			continue // acceptance is judged by the other sub-checks
		}
		if out, err := u.Marshal(); err == nil {
			kept = append(kept, keepBytes(v.name+".Marshal", out))
		}
		kept = append(kept, keepText(v.name+".String", u.String()))
		if g, ok := u.(interface{ GetNodeID() []byte }); ok {
			kept = append(kept, keepBytes(v.name+".GetNodeID", g.GetNodeID()))
		}
		if g, ok := u.(interface{ GetData() []byte }); ok {
			kept = append(kept, keepBytes(v.name+".GetData", g.GetData()))
		}
	}

	// ... then the whole life of an unrelated value y in other variables ...
	gy := &guid.GUID{}
	gy.FromRawBytes(append([]byte{}, y...))
	_ = gy.ToBytes()
	for i := range fmtNames {
		txt := toFormat(gy, i)
		if p, err := fromFormat(txt, i); err == nil && p != nil {
			_ = p.ToBytes()
		}
		if p, err := guid.FromString(txt); err == nil && p != nil {
			_ = p.ToFormatD()
		}
	}
	for _, v := range types {
		yv := y
		if v.ver != 0xFF {
			yv = withVersion(y, v.ver)
		}
		u := v.mk()
		if _, err := u.Unmarshal(append([]byte{}, yv...)); err != nil {
			continue
		}
		u.Marshal()
		txt := u.String()
		w := v.mk()
		if w.FromString(txt) == nil {
			w.Marshal()
			_ = w.String()
		}
		if g, ok := u.(interface{ GetNodeID() []byte }); ok {
			_ = g.GetNodeID()
		}
		if g, ok := u.(interface{ GetData() []byte }); ok {
			_ = g.GetData()
		}
	}

	// ... and x's results are what they were.
	for _, k := range kept {
		if now := k.live(); !bytes.Equal(now, k.snap) {
			fs = append(fs, vf.F(k.who, "result-changes-when-another-value-is-processed", "result for %x was %q, is %q after processing %x", x, k.snap, now, y))
		}
	}
	return fs
}

func TestResultIndependence(t *testing.T) {
	s := vf.Begin(t, P, "result-independence")
	vf.Rapid(s, vf.N(6000, 90000), func(t *rapid.T) reuseCase {
		x := rapid.SliceOfN(rapid.Byte(), 16, 16).Draw(t, "x")
		var y []byte
		if rapid.Bool().Draw(t, "complement") {
			y = make([]byte, 16)
			for i := range y {
				y[i] = ^x[i]
			}
		} else {
			y = rapid.SliceOfN(rapid.Byte(), 16, 16).Draw(t, "y")
		}
		return reuseCase{X: x, Y: y}
	}, checkIndependence, func(c reuseCase) bool { return !bytes.Equal(c.X, c.Y) })
}
