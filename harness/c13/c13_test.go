// Package c13: UUID/GUID text and binary forms are mutually inverse and standards-conformant.
package c13

import (
	"bytes"
	"encoding/binary"
	"encoding/hex"
	"fmt"
	"reflect"
	"strings"
	"testing"
	"time"

	"pgregory.net/rapid"

	"github.com/TheManticoreProject/Manticore/crypto/uuid"
	"github.com/TheManticoreProject/Manticore/crypto/uuid/uuid_v1"
	"github.com/TheManticoreProject/Manticore/crypto/uuid/uuid_v2"
	"github.com/TheManticoreProject/Manticore/crypto/uuid/uuid_v8"
	"github.com/TheManticoreProject/Manticore/windows/guid"
	"github.com/TheManticoreProject/Manticore/windows/ms_dtyp/common/data_structures"

	"manticoreverif/vf"
)

const P = "C13"

type valCase struct {
	B vf.Hex `json:"bytes16"`
	// text-case variant: 0 lower, 1 upper, 2 mixed; Pad = white space around GUID text
	Case int    `json:"case"`
	Pad  string `json:"pad,omitempty"`
}

func canon(b []byte) string {
	h := hex.EncodeToString(b)
	return h[0:8] + "-" + h[8:12] + "-" + h[12:16] + "-" + h[16:20] + "-" + h[20:32]
}

func recase(s string, mode int) string {
	switch mode {
	case 1:
		return strings.ToUpper(s)
	case 2:
		rs := []byte(s)
		for i := range rs {
			if i%2 == 0 && rs[i] >= 'a' && rs[i] <= 'f' {
				rs[i] -= 32
			}
		}
		return string(rs)
	}
	return s
}

func withVersion(b []byte, v byte) []byte {
	o := append([]byte{}, b...)
	o[6] = o[6]&0x0F | v<<4
	return o
}

// tracked is a caller-owned input buffer: the bytes handed to a decoder or setter, followed by spare
// capacity filled with a sentinel. A callee may read it; it must leave both parts alone (a decoder
// that byte-swaps in place, or appends to its argument, changes the caller's data).
type tracked struct{ buf, orig []byte }

func track(in []byte) *tracked {
	full := make([]byte, len(in)+8)
	copy(full, in)
	for i := len(in); i < len(full); i++ {
		full[i] = 0xA5
	}
	return &tracked{buf: full[:len(in):len(full)], orig: append([]byte{}, full...)}
}

func (k *tracked) untouched(subject string, fs *[]vf.Finding) {
	if now := k.buf[:cap(k.buf)]; !bytes.Equal(now, k.orig) {
		n := len(k.buf)
		*fs = append(*fs, vf.F(subject, "callee-modifies-callers-input", "input %x (spare capacity %x) is %x (%x) after the call", k.orig[:n], k.orig[n:], now[:n], now[n:]))
	}
}

// all five text groups carry a set bit
func nontrivialVal(c valCase) bool {
	b := c.B
	nz := func(x []byte) bool {
		for _, v := range x {
			if v != 0 {
				return true
			}
		}
		return false
	}
	return len(b) == 16 && nz(b[0:4]) && nz(b[4:6]) && nz(b[6:8]) && nz(b[8:10]) && nz(b[10:16])
}

func bitPatterns(yield func(valCase)) {
	for i := 0; i < 128; i++ {
		b := make([]byte, 16)
		b[i/8] = 0x80 >> uint(i%8)
		c := make([]byte, 16)
		for j := range c {
			c[j] = ^b[j]
		}
		yield(valCase{B: b, Case: i % 3})
		yield(valCase{B: c, Case: (i + 1) % 3})
	}
	yield(valCase{B: make([]byte, 16)})
	yield(valCase{B: bytes.Repeat([]byte{0xff}, 16), Case: 1})
}

func genVal(t *rapid.T) valCase {
	b := rapid.SliceOfN(rapid.Byte(), 16, 16).Draw(t, "b")
	pad := ""
	if rapid.Bool().Draw(t, "padded") {
		pad = rapid.SampledFrom([]string{" ", "\t", "\n", "  \r\n"}).Draw(t, "pad")
	}
	return valCase{B: b, Case: rapid.IntRange(0, 2).Draw(t, "case"), Pad: pad}
}

// ---- generic UUID binary/text ---------------------------------------------------

type uuidLike interface {
	Marshal() ([]byte, error)
	Unmarshal([]byte) (int, error)
	FromString(string) error
	String() string
}

func checkUUIDOne(name string, mk func() uuidLike, in []byte, mustAccept bool, cs int) []vf.Finding {
	var fs []vf.Finding
	u := mk()
	arg := track(in)
	n, err := u.Unmarshal(arg.buf)
	arg.untouched(name+".Unmarshal", &fs)
	if err != nil {
		if mustAccept {
			fs = append(fs, vf.F(name+".Unmarshal", "valid-value-rejected", "%x: %v", in, err))
		}
		return fs
	}
	if !mustAccept {
		fs = append(fs, vf.F(name+".Unmarshal", "wrong-version-accepted", "%x", in))
		return fs
	}
	if n != 16 {
		fs = append(fs, vf.F(name+".Unmarshal", "consumed-not-16", "%x: n=%d", in, n))
	}
	out, err := u.Marshal()
	if err != nil || !bytes.Equal(out, in) {
		fs = append(fs, vf.F(name+".Marshal", "marshal-unmarshal-not-identity", "%x -> %x (%v)", in, out, err))
	}
	// repeatable
	out2, _ := u.Marshal()
	if !bytes.Equal(out, out2) {
		fs = append(fs, vf.F(name+".Marshal", "not-repeatable", "%x then %x", out, out2))
	}
	// the exact-length decoder of the versioned types
	if fb, ok := mk().(interface{ FromBytes([]byte) error }); ok {
		arg := track(in)
		err := fb.FromBytes(arg.buf)
		arg.untouched(name+".FromBytes", &fs)
		if err != nil {
			fs = append(fs, vf.F(name+".FromBytes", "valid-value-rejected", "%x: %v", in, err))
		} else if o, _ := fb.(uuidLike).Marshal(); !bytes.Equal(o, in) {
			fs = append(fs, vf.F(name+".FromBytes", "marshal-unmarshal-not-identity", "%x -> %x", in, o))
		}
	}
	want := canon(in)
	if got := u.String(); got != want {
		fs = append(fs, vf.F(name+".String", "text-differs-from-canonical", "%x -> %q want %q", in, got, want))
	}
	// text -> value -> text, case-insensitively
	u2 := mk()
	txt := recase(want, cs)
	if err := u2.FromString(txt); err != nil {
		fs = append(fs, vf.F(name+".FromString", "own-text-rejected", "%q: %v", txt, err))
	} else {
		if got := u2.String(); got != want {
			fs = append(fs, vf.F(name+".FromString", "parse-format-not-identity", "%q -> %q", txt, got))
		}
		if o, _ := u2.Marshal(); !bytes.Equal(o, in) {
			fs = append(fs, vf.F(name+".FromString", "text-to-binary-differs", "%q -> %x want %x", txt, o, in))
		}
	}
	return fs
}

func checkUUIDAll(c valCase) []vf.Finding {
	var fs []vf.Finding
	fs = append(fs, checkUUIDOne("uuid.UUID", func() uuidLike { return &uuid.UUID{} }, c.B, true, c.Case)...)
	ver := c.B[6] >> 4
	for _, v := range []struct {
		name string
		mk   func() uuidLike
		ver  byte
	}{
		{"uuid_v1.UUIDv1", func() uuidLike { return &uuid_v1.UUIDv1{} }, 1},
		{"uuid_v2.UUIDv2", func() uuidLike { return &uuid_v2.UUIDv2{} }, 2},
		{"uuid_v8.UUIDv8", func() uuidLike { return &uuid_v8.UUIDv8{} }, 8},
	} {
		// as given (accepted iff the version nibble matches) and with the nibble forced
		fs = append(fs, checkUUIDOne(v.name, v.mk, c.B, ver == v.ver, c.Case)...)
		if ver != v.ver {
			fs = append(fs, checkUUIDOne(v.name, v.mk, withVersion(c.B, v.ver), true, c.Case)...)
		}
	}
	return fs
}

func TestUUIDBinaryText(t *testing.T) {
	s := vf.Begin(t, P, "uuid-binary-text")
	vf.Rapid(s, vf.N(20000, 300000), genVal, checkUUIDAll, nontrivialVal)
}

func TestUUIDBitsExhaustive(t *testing.T) {
	s := vf.Begin(t, P, "uuid-bits-exhaustive")
	s.SetExhaustive()
	vf.Enum(s, bitPatterns, checkUUIDAll, nil)
}

// ---- RFC 4122 field layout (independent decomposition) --------------------------

func checkRFCFields(c valCase) []vf.Finding {
	var fs []vf.Finding
	b := withVersion(c.B, 1)
	tsRef := uint64(binary.BigEndian.Uint16(b[6:8])&0x0FFF)<<48 | uint64(binary.BigEndian.Uint16(b[4:6]))<<32 | uint64(binary.BigEndian.Uint32(b[0:4]))
	csRef := uint16(b[8]&0x3F)<<8 | uint16(b[9])
	u := &uuid_v1.UUIDv1{}
	arg := track(b)
	err := u.FromBytes(arg.buf)
	arg.untouched("uuid_v1.FromBytes", &fs)
	if err != nil {
		return append(fs, vf.F("uuid_v1.FromBytes", "valid-value-rejected", "%x: %v", b, err))
	}
	if u.Time != tsRef {
		fs = append(fs, vf.F("UUIDv1.Time", "timestamp-differs-from-rfc4122", "%x: got %#x want %#x", b, u.Time, tsRef))
	}
	if !bytes.Equal(u.GetNodeID(), b[10:16]) {
		fs = append(fs, vf.F("UUIDv1.NodeID", "node-differs-from-rfc4122", "%x: got %x", b, u.GetNodeID()))
	}
	if got := u.GetClockSequence(); got != csRef {
		// The library keeps 12 bits and puts the rest into the 4-bit "Variant".
		if got == csRef&0x0FFF && uint16(u.Variant&0x3) == csRef>>12 {
			fs = append(fs, vf.F("UUIDv1.ClockSeq", "top-two-bits-in-variant-nibble", "%s: ClockSeq %#x, RFC 4122 14-bit clock sequence %#x", canon(b), got, csRef))
		} else {
			fs = append(fs, vf.F("UUIDv1.ClockSeq", "clock-seq-differs-from-rfc4122", "%s: got %#x variant %#x want %#x", canon(b), got, u.Variant, csRef))
		}
	}
	return fs
}

func TestRFC4122Fields(t *testing.T) {
	s := vf.Begin(t, P, "rfc4122-fields")
	vf.Rapid(s, vf.N(20000, 300000), genVal, checkRFCFields, nontrivialVal)
}

func TestRFC4122FieldsBits(t *testing.T) {
	s := vf.Begin(t, P, "rfc4122-fields-bits-exhaustive")
	s.SetExhaustive()
	vf.Enum(s, bitPatterns, checkRFCFields, nil)
}

// ---- field assignment -> text -> parse -> fields ------------------------------------

type v1Fields struct {
	Time     uint64 `json:"time60"`
	ClockSeq uint16 `json:"clock_seq"`
	Node     vf.Hex `json:"node"`
	Variant  uint8  `json:"variant"`
	UnixNs   int64  `json:"unix_ns_100"` // multiple of 100, within 1700..2200
	// seconds east of UTC of the Location the time value carries (SetTime is defined on the instant)
	Zone int `json:"zone_offset_s,omitempty"`
}

func checkV1Fields(c v1Fields) []vf.Finding {
	var fs []vf.Finding
	u := &uuid_v1.UUIDv1{}
	u.Time = c.Time
	u.SetClockSequence(c.ClockSeq)
	u.Variant = c.Variant
	node := track(c.Node)
	err := u.SetNodeID(node.buf)
	node.untouched("UUIDv1.SetNodeID", &fs)
	if err != nil {
		return append(fs, vf.F("UUIDv1.SetNodeID", "six-byte-node-rejected", "%v", err))
	}
	txt := u.String()
	p := &uuid_v1.UUIDv1{}
	if err := p.FromString(txt); err != nil {
		return append(fs, vf.F("UUIDv1.FromString", "own-text-rejected", "%q: %v", txt, err))
	}
	if p.Time != c.Time {
		fs = append(fs, vf.F("UUIDv1.Time", "field-not-preserved", "%#x -> %q -> %#x", c.Time, txt, p.Time))
	}
	if p.GetClockSequence() != c.ClockSeq {
		if c.ClockSeq >= 0x1000 && p.GetClockSequence() == c.ClockSeq&0x0FFF {
			fs = append(fs, vf.F("UUIDv1.ClockSeq", "top-two-bits-in-variant-nibble", "SetClockSequence(%#x) -> %q -> %#x (14-bit RFC 4122 value truncated to 12 bits)", c.ClockSeq, txt, p.GetClockSequence()))
		} else {
			fs = append(fs, vf.F("UUIDv1.ClockSeq", "field-not-preserved", "%#x -> %q -> %#x", c.ClockSeq, txt, p.GetClockSequence()))
		}
	}
	if !bytes.Equal(p.GetNodeID(), c.Node) {
		fs = append(fs, vf.F("UUIDv1.NodeID", "field-not-preserved", "%x -> %q -> %x", c.Node, txt, p.GetNodeID()))
	}
	if p.Variant != c.Variant {
		fs = append(fs, vf.F("UUIDv1.Variant", "field-not-preserved", "%#x -> %q -> %#x", c.Variant, txt, p.Variant))
	}
	// timestamp through Go time (mid-range only; the extremes belong to C15)
	w := &uuid_v1.UUIDv1{}
	tm := time.Unix(0, c.UnixNs).UTC()
	if c.Zone != 0 {
		tm = tm.In(time.FixedZone("", c.Zone))
	}
	w.SetTime(tm)
	q := &uuid_v1.UUIDv1{}
	if err := q.FromString(w.String()); err != nil {
		fs = append(fs, vf.F("UUIDv1.FromString", "own-text-rejected", "%q: %v", w.String(), err))
	} else if !q.GetTime().Equal(tm) {
		fs = append(fs, vf.F("UUIDv1.GetTime", "time-not-preserved", "%v -> %q -> %v", tm.UTC(), w.String(), q.GetTime().UTC()))
	}
	// independent: ticks since 1582-10-15 = unix100 + 0x01B21DD213814000
	if want := uint64(c.UnixNs/100 + 0x01B21DD213814000); w.Time != want {
		fs = append(fs, vf.F("UUIDv1.SetTime", "timestamp-differs-from-rfc4122", "%v: got %#x want %#x", tm.UTC(), w.Time, want))
	}
	return fs
}

func genUnixNs100(t *rapid.T) int64 {
	lo := time.Date(1700, 1, 1, 0, 0, 0, 0, time.UTC).UnixNano() / 100
	hi := time.Date(2200, 1, 1, 0, 0, 0, 0, time.UTC).UnixNano() / 100
	return rapid.Int64Range(lo, hi).Draw(t, "unix100") * 100
}

// UTC in a third of the cases, otherwise an offset in use today or any offset within +-14 h
func genZoneOffset(t *rapid.T) int {
	switch rapid.IntRange(0, 2).Draw(t, "zoneClass") {
	case 0:
		return 0
	case 1:
		return rapid.SampledFrom([]int{3600, -18000, 19800, -12600, 20700, 50400, -43200}).Draw(t, "zoneKnown")
	}
	return rapid.IntRange(-14*3600, 14*3600).Draw(t, "zoneSeconds")
}

func TestUUIDv1Fields(t *testing.T) {
	s := vf.Begin(t, P, "uuidv1-fields")
	vf.Rapid(s, vf.N(20000, 300000), func(t *rapid.T) v1Fields {
		return v1Fields{
			Time:     rapid.Uint64Range(0, 1<<60-1).Draw(t, "time"),
			ClockSeq: uint16(rapid.IntRange(0, 0x3FFF).Draw(t, "cs")),
			Node:     rapid.SliceOfN(rapid.Byte(), 6, 6).Draw(t, "node"),
			Variant:  uint8(rapid.IntRange(0, 15).Draw(t, "variant")),
			UnixNs:   genUnixNs100(t),
			Zone:     genZoneOffset(t),
		}
	}, checkV1Fields, func(c v1Fields) bool { return c.Time>>48 != 0 && c.ClockSeq > 0xFF })
}

type v2Fields struct {
	TimeHi28 uint32 `json:"time_bits_32_59"`
	LDN      uint32 `json:"local_domain_number"`
	Clock    uint8  `json:"clock4"`
	LD       uint8  `json:"local_domain"`
	Node     vf.Hex `json:"node"`
	Variant  uint8  `json:"variant"`
}

func checkV2Fields(c v2Fields) []vf.Finding {
	var fs []vf.Finding
	u := &uuid_v2.UUIDv2{}
	u.Time = uint64(c.TimeHi28) << 32
	u.SetLocalDomainNumber(c.LDN)
	u.SetClock(c.Clock)
	u.SetLocalDomain(c.LD)
	node := track(c.Node)
	u.SetNodeID(node.buf)
	node.untouched("UUIDv2.SetNodeID", &fs)
	u.Variant = c.Variant
	txt := u.String()
	p := &uuid_v2.UUIDv2{}
	if err := p.FromString(recase(txt, int(c.LD)%3)); err != nil {
		return append(fs, vf.F("UUIDv2.FromString", "own-text-rejected", "%q: %v", txt, err))
	}
	if p.Time != u.Time {
		fs = append(fs, vf.F("UUIDv2.Time", "field-not-preserved", "%#x -> %q -> %#x", u.Time, txt, p.Time))
	}
	if p.GetLocalDomainNumber() != c.LDN {
		fs = append(fs, vf.F("UUIDv2.LocalDomainNumber", "field-not-preserved", "%#x -> %q -> %#x", c.LDN, txt, p.GetLocalDomainNumber()))
	}
	if p.GetClock() != c.Clock {
		fs = append(fs, vf.F("UUIDv2.Clock", "field-not-preserved", "%#x -> %q -> %#x", c.Clock, txt, p.GetClock()))
	}
	if p.GetLocalDomain() != c.LD {
		fs = append(fs, vf.F("UUIDv2.LocalDomain", "field-not-preserved", "%#x -> %q -> %#x", c.LD, txt, p.GetLocalDomain()))
	}
	if !bytes.Equal(p.GetNodeID(), c.Node) {
		fs = append(fs, vf.F("UUIDv2.NodeID", "field-not-preserved", "%x -> %q -> %x", c.Node, txt, p.GetNodeID()))
	}
	if p.Variant != c.Variant {
		fs = append(fs, vf.F("UUIDv2.Variant", "field-not-preserved", "%#x -> %q -> %#x", c.Variant, txt, p.Variant))
	}
	// DCE 1.1 layout, independently: local id in bytes 0..3, domain in byte 9
	raw, _ := u.Marshal()
	if binary.BigEndian.Uint32(raw[0:4]) != c.LDN || raw[9] != c.LD || !bytes.Equal(raw[10:16], c.Node) || raw[6]>>4 != 2 {
		fs = append(fs, vf.F("UUIDv2.Marshal", "layout-differs-from-dce", "%x for ldn %#x ld %#x node %x", raw, c.LDN, c.LD, c.Node))
	}
	return fs
}

func TestUUIDv2Fields(t *testing.T) {
	s := vf.Begin(t, P, "uuidv2-fields")
	vf.Rapid(s, vf.N(20000, 300000), func(t *rapid.T) v2Fields {
		return v2Fields{
			TimeHi28: uint32(rapid.IntRange(0, 1<<28-1).Draw(t, "t")),
			LDN:      rapid.Uint32().Draw(t, "ldn"),
			Clock:    uint8(rapid.IntRange(0, 15).Draw(t, "clock")),
			LD:       rapid.Byte().Draw(t, "ld"),
			Node:     rapid.SliceOfN(rapid.Byte(), 6, 6).Draw(t, "node"),
			Variant:  uint8(rapid.IntRange(0, 15).Draw(t, "variant")),
		}
	}, checkV2Fields, func(c v2Fields) bool { return c.TimeHi28 > 0xFFFF && c.LDN > 0xFFFF })
}

type v8Fields struct {
	Data    vf.Hex `json:"data15"`
	Variant uint8  `json:"variant"`
}

func checkV8Fields(c v8Fields) []vf.Finding {
	var fs []vf.Finding
	u := &uuid_v8.UUIDv8{}
	data := track(c.Data)
	u.SetData(data.buf)
	data.untouched("UUIDv8.SetData", &fs)
	u.Variant = c.Variant
	txt := u.String()
	p := &uuid_v8.UUIDv8{}
	if err := p.FromString(txt); err != nil {
		return append(fs, vf.F("UUIDv8.FromString", "own-text-rejected", "%q: %v", txt, err))
	}
	if !bytes.Equal(p.GetData(), c.Data) {
		fs = append(fs, vf.F("UUIDv8.Data", "field-not-preserved", "%x -> %q -> %x", c.Data, txt, p.GetData()))
	}
	if p.Variant != c.Variant {
		fs = append(fs, vf.F("UUIDv8.Variant", "field-not-preserved", "%#x -> %q -> %#x", c.Variant, txt, p.Variant))
	}
	raw, _ := u.Marshal()
	if raw[6]>>4 != 8 {
		fs = append(fs, vf.F("UUIDv8.Marshal", "version-nibble-not-8", "%x", raw))
	}
	return fs
}

func TestUUIDv8Fields(t *testing.T) {
	s := vf.Begin(t, P, "uuidv8-fields")
	vf.Rapid(s, vf.N(20000, 300000), func(t *rapid.T) v8Fields {
		return v8Fields{rapid.SliceOfN(rapid.Byte(), 15, 15).Draw(t, "data"), uint8(rapid.IntRange(0, 15).Draw(t, "variant"))}
	}, checkV8Fields, func(c v8Fields) bool { return c.Data[6] != 0 && c.Data[7] != 0 })
}

// ---- GUID ---------------------------------------------------------------------

// MS-DTYP 2.3.4.2: Data1 (LE32) Data2 (LE16) Data3 (LE16) Data4 (8 bytes);
// text = Data1-Data2-Data3-Data4[0..1]-Data4[2..7], all hexadecimal big-endian.
func refGUIDText(raw []byte) (n, d, b, p, x string) {
	d1 := binary.LittleEndian.Uint32(raw[0:4])
	d2 := binary.LittleEndian.Uint16(raw[4:6])
	d3 := binary.LittleEndian.Uint16(raw[6:8])
	d4 := raw[8:16]
	d = fmt.Sprintf("%08x-%04x-%04x-%02x%02x-%02x%02x%02x%02x%02x%02x", d1, d2, d3, d4[0], d4[1], d4[2], d4[3], d4[4], d4[5], d4[6], d4[7])
	n = strings.ReplaceAll(d, "-", "")
	b = "{" + d + "}"
	p = "(" + d + ")"
	x = fmt.Sprintf("{0x%08x,0x%04x,0x%04x,{0x%02x,0x%02x,0x%02x,0x%02x,0x%02x,0x%02x,0x%02x,0x%02x}}", d1, d2, d3, d4[0], d4[1], d4[2], d4[3], d4[4], d4[5], d4[6], d4[7])
	return
}

var fmtNames = []string{"N", "D", "B", "P", "X"}

func toFormat(g *guid.GUID, i int) string {
	switch i {
	case 0:
		return g.ToFormatN()
	case 1:
		return g.ToFormatD()
	case 2:
		return g.ToFormatB()
	case 3:
		return g.ToFormatP()
	}
	return g.ToFormatX()
}

func fromFormat(s string, i int) (*guid.GUID, error) {
	switch i {
	case 0:
		return guid.FromFormatN(s)
	case 1:
		return guid.FromFormatD(s)
	case 2:
		return guid.FromFormatB(s)
	case 3:
		return guid.FromFormatP(s)
	}
	return guid.FromFormatX(s)
}

func checkGUID(c valCase) []vf.Finding {
	var fs []vf.Finding
	raw := []byte(c.B)
	g := &guid.GUID{}
	arg := track(raw)
	g.FromRawBytes(arg.buf)
	arg.untouched("GUID.FromRawBytes", &fs)
	if out := g.ToBytes(); !bytes.Equal(out, raw) {
		fs = append(fs, vf.F("GUID.ToBytes", "bytes-roundtrip-differs", "%x -> %+v -> %x", raw, *g, out))
	}
	var ds data_structures.GUID
	arg = track(raw)
	ds.FromRawBytes(arg.buf)
	arg.untouched("data_structures.GUID.FromRawBytes", &fs)
	if !ds.Equal(g) {
		fs = append(fs, vf.F("data_structures.GUID", "alias-disagrees", "%x", raw))
	}
	rn, rd, rb, rp, rx := refGUIDText(raw)
	refs := []string{rn, rd, rb, rp, rx}
	for i := range refs {
		if got := toFormat(g, i); got != refs[i] {
			fs = append(fs, vf.F("GUID.ToFormat"+fmtNames[i], "text-differs-from-ms-dtyp", "%x: got %q want %q", raw, got, refs[i]))
		}
	}
	for i := range refs {
		in := c.Pad + recase(refs[i], c.Case) + c.Pad
		// through the specific parser and through FromString
		for k, parse := range []func(string) (*guid.GUID, error){func(s string) (*guid.GUID, error) { return fromFormat(s, i) }, guid.FromString} {
			who := "guid.FromFormat" + fmtNames[i]
			if k == 1 {
				who = "guid.FromString(" + fmtNames[i] + ")"
			}
			pg, err := parse(in)
			if err != nil || pg == nil {
				fs = append(fs, vf.F(who, "valid-text-rejected", "%q: %v", in, err))
				continue
			}
			if out := pg.ToBytes(); !bytes.Equal(out, raw) {
				fs = append(fs, vf.F(who, "parsed-value-differs", "%q -> %x want %x", in, out, raw))
				continue
			}
			for j := range refs {
				if got := toFormat(pg, j); got != refs[j] {
					fs = append(fs, vf.F(who, "format-pair-differs", "%q -> format %s %q want %q", in, fmtNames[j], got, refs[j]))
				}
			}
		}
	}
	return fs
}

func TestGUID(t *testing.T) {
	s := vf.Begin(t, P, "guid-formats-bytes")
	vf.Rapid(s, vf.N(10000, 150000), genVal, checkGUID, nontrivialVal)
}

func TestGUIDBitsExhaustive(t *testing.T) {
	s := vf.Begin(t, P, "guid-bits-exhaustive")
	s.SetExhaustive()
	vf.Enum(s, bitPatterns, checkGUID, nil)
}

type guidFields struct {
	A uint32 `json:"a"`
	B uint16 `json:"b"`
	C uint16 `json:"c"`
	D uint16 `json:"d"`
	E uint64 `json:"e48"`
}

// sameGUID compares the five fields that make up a GUID. The struct values are never compared as a
// whole: what else an implementation keeps in them is its own business.
func sameGUID(a, b *guid.GUID) bool {
	return a.A == b.A && a.B == b.B && a.C == b.C && a.D == b.D && a.E == b.E
}

// exportedDiff compares two values of one type by their exported fields, recursively (embedded
// structs, arrays, slices and pointers are followed), and returns the path of the first one that
// differs, "" if none does. Unexported fields are the implementation's bookkeeping and are skipped.
func exportedDiff(a, b reflect.Value, path string) string {
	if a.IsValid() != b.IsValid() || (a.IsValid() && a.Type() != b.Type()) {
		return path + " (type)"
	}
	if !a.IsValid() {
		return ""
	}
	switch a.Kind() {
	case reflect.Pointer, reflect.Interface:
		if a.IsNil() || b.IsNil() {
			if a.IsNil() != b.IsNil() {
				return path + " (nil)"
			}
			return ""
		}
		return exportedDiff(a.Elem(), b.Elem(), path)
	case reflect.Struct:
		for i := 0; i < a.NumField(); i++ {
			f := a.Type().Field(i)
			if !f.IsExported() {
				continue
			}
			if d := exportedDiff(a.Field(i), b.Field(i), strings.TrimPrefix(path+"."+f.Name, ".")); d != "" {
				return d
			}
		}
		return ""
	case reflect.Slice, reflect.Array:
		if a.Len() != b.Len() {
			return path + " (length)"
		}
		for i := 0; i < a.Len(); i++ {
			if d := exportedDiff(a.Index(i), b.Index(i), fmt.Sprintf("%s[%d]", path, i)); d != "" {
				return d
			}
		}
		return ""
	case reflect.Map, reflect.Func, reflect.Chan, reflect.UnsafePointer:
		return "" // none in the types compared here
	}
	if !a.Equal(b) {
		return path
	}
	return ""
}

func checkGUIDFields(c guidFields) []vf.Finding {
	var fs []vf.Finding
	g := &guid.GUID{A: c.A, B: c.B, C: c.C, D: c.D, E: c.E}
	for i := range fmtNames {
		txt := toFormat(g, i)
		p, err := guid.FromString(txt)
		if err != nil || p == nil {
			fs = append(fs, vf.F("guid.FromString("+fmtNames[i]+")", "own-text-rejected", "%q: %v", txt, err))
			continue
		}
		if !sameGUID(p, g) {
			fs = append(fs, vf.F("guid.FromString("+fmtNames[i]+")", "fields-not-preserved", "%+v -> %q -> %+v", *g, txt, *p))
		}
	}
	r := &guid.GUID{}
	r.FromRawBytes(g.ToBytes())
	if !sameGUID(r, g) {
		fs = append(fs, vf.F("GUID.FromRawBytes", "fields-not-preserved", "%+v -> %x -> %+v", *g, g.ToBytes(), *r))
	}
	return fs
}

func TestGUIDFields(t *testing.T) {
	s := vf.Begin(t, P, "guid-fields")
	vf.Rapid(s, vf.N(10000, 150000), func(t *rapid.T) guidFields {
		return guidFields{rapid.Uint32().Draw(t, "a"), rapid.Uint16().Draw(t, "b"), rapid.Uint16().Draw(t, "c"), rapid.Uint16().Draw(t, "d"), rapid.Uint64Range(0, 1<<48-1).Draw(t, "e")}
	}, checkGUIDFields, func(c guidFields) bool { return c.D > 0xFF && c.E > 0xFFFFFFFF })
}

// ---- decoding into a receiver that already holds a value ---------------------------------------
//
// Every decoder here is a method on a receiver the caller may reuse. The value decoded from x must
// not depend on what the receiver held before: decode(y) then decode(x) into one variable must give
// the same value, text and bytes as decode(x) into a new one.

type reuseCase struct {
	X vf.Hex `json:"x16"`
	Y vf.Hex `json:"previous16"`
}

func checkReuse(c reuseCase) []vf.Finding {
	var fs []vf.Finding
	x, y := []byte(c.X), []byte(c.Y)
	// GUID
	fresh, used := &guid.GUID{}, &guid.GUID{}
	fresh.FromRawBytes(append([]byte{}, x...))
	used.FromRawBytes(append([]byte{}, y...))
	used.FromRawBytes(append([]byte{}, x...))
	if !sameGUID(fresh, used) || fresh.ToFormatD() != used.ToFormatD() || !bytes.Equal(fresh.ToBytes(), used.ToBytes()) {
		fs = append(fs, vf.F("GUID.FromRawBytes", "result-depends-on-previous-receiver-value", "x %x after %x: %+v (%s) want %+v (%s)", x, y, *used, used.ToFormatD(), *fresh, fresh.ToFormatD()))
	}
	for _, v := range []struct {
		name string
		mk   func() uuidLike
		ver  byte
	}{
		{"uuid.UUID", func() uuidLike { return &uuid.UUID{} }, 0xFF},
		{"uuid_v1.UUIDv1", func() uuidLike { return &uuid_v1.UUIDv1{} }, 1},
		{"uuid_v2.UUIDv2", func() uuidLike { return &uuid_v2.UUIDv2{} }, 2},
		{"uuid_v8.UUIDv8", func() uuidLike { return &uuid_v8.UUIDv8{} }, 8},
	} {
		xv, yv := x, y
		if v.ver != 0xFF {
			xv, yv = withVersion(x, v.ver), withVersion(y, v.ver)
		}
		for _, via := range []string{"Unmarshal", "FromString"} {
			dec := func(u uuidLike, b []byte) error {
				if via == "Unmarshal" {
					_, err := u.Unmarshal(append([]byte{}, b...))
					return err
				}
				return u.FromString(canon(b))
			}
			f, u := v.mk(), v.mk()
			if dec(f, xv) != nil || dec(u, yv) != nil || dec(u, xv) != nil {
				continue // acceptance is judged by the other sub-checks
			}
			fb, _ := f.Marshal()
			ub, _ := u.Marshal()
			if field := exportedDiff(reflect.ValueOf(u), reflect.ValueOf(f), ""); !bytes.Equal(fb, ub) || f.String() != u.String() || field != "" {
				fs = append(fs, vf.F(v.name+"."+via, "result-depends-on-previous-receiver-value", "x %x after %x: %s (%x) want %s (%x); first exported field that differs: %q", xv, yv, u, ub, f, fb, field))
			}
		}
	}
	return fs
}

func TestReceiverReuse(t *testing.T) {
	s := vf.Begin(t, P, "receiver-reuse")
	vf.Rapid(s, vf.N(8000, 120000), func(t *rapid.T) reuseCase {
		x := rapid.SliceOfN(rapid.Byte(), 16, 16).Draw(t, "x")
		var y []byte
		switch rapid.IntRange(0, 2).Draw(t, "prev") {
		case 0:
			y = bytes.Repeat([]byte{0xFF}, 16)
		case 1:
			y = rapid.SliceOfN(rapid.Byte(), 16, 16).Draw(t, "y")
		default:
			y = make([]byte, 16)
			for i := range y {
				y[i] = ^x[i]
			}
		}
		return reuseCase{X: x, Y: y}
	}, checkReuse, func(c reuseCase) bool { return !bytes.Equal(c.X, c.Y) && !bytes.Equal(c.Y, make([]byte, 16)) })
}

// ---- results are values of their own -----------------------------------------------------------
//
// "Formatting reproduces the input" is a statement about the value a caller holds, and a caller
// holds it for as long as it likes: the bytes / text obtained for value x must still be x's after
// any other value y has been decoded, marshalled and formatted (a formatter that fills one shared
// scratch buffer and hands out slices of it satisfies every single-value round trip).

type keptResult struct {
	who  string
	live func() []byte // the result as it is now
	snap []byte        // private copy taken when it was produced
}

func keepBytes(who string, b []byte) keptResult {
	return keptResult{who, func() []byte { return b }, append([]byte{}, b...)}
}

// strings are kept the same way: the snapshot is a copy with its own memory, so a formatter that
// builds its string over reused storage is seen as well.
func keepText(who string, s string) keptResult {
	return keptResult{who, func() []byte { return []byte(s) }, []byte(strings.Clone(s))}
}

func checkIndependence(c reuseCase) []vf.Finding {
	var fs []vf.Finding
	x, y := []byte(c.X), []byte(c.Y)
	var kept []keptResult

	// results for x ...
	gx := &guid.GUID{}
	gx.FromRawBytes(append([]byte{}, x...))
	kept = append(kept, keepBytes("GUID.ToBytes", gx.ToBytes()))
	for i := range fmtNames {
		kept = append(kept, keepText("GUID.ToFormat"+fmtNames[i], toFormat(gx, i)))
	}
	types := []struct {
		name string
		mk   func() uuidLike
		ver  byte
	}{
		{"uuid.UUID", func() uuidLike { return &uuid.UUID{} }, 0xFF},
		{"uuid_v1.UUIDv1", func() uuidLike { return &uuid_v1.UUIDv1{} }, 1},
		{"uuid_v2.UUIDv2", func() uuidLike { return &uuid_v2.UUIDv2{} }, 2},
		{"uuid_v8.UUIDv8", func() uuidLike { return &uuid_v8.UUIDv8{} }, 8},
	}
	for _, v := range types {
		xv := x
		if v.ver != 0xFF {
			xv = withVersion(x, v.ver)
		}
		u := v.mk()
		if _, err := u.Unmarshal(append([]byte{}, xv...)); err != nil {
			continue // acceptance is judged by the other sub-checks
		}
		if out, err := u.Marshal(); err == nil {
			kept = append(kept, keepBytes(v.name+".Marshal", out))
		}
		kept = append(kept, keepText(v.name+".String", u.String()))
		if g, ok := u.(interface{ GetNodeID() []byte }); ok {
			kept = append(kept, keepBytes(v.name+".GetNodeID", g.GetNodeID()))
		}
		if g, ok := u.(interface{ GetData() []byte }); ok {
			kept = append(kept, keepBytes(v.name+".GetData", g.GetData()))
		}
	}

	// ... then the whole life of an unrelated value y in other variables ...
	gy := &guid.GUID{}
	gy.FromRawBytes(append([]byte{}, y...))
	_ = gy.ToBytes()
	for i := range fmtNames {
		txt := toFormat(gy, i)
		if p, err := fromFormat(txt, i); err == nil && p != nil {
			_ = p.ToBytes()
		}
		if p, err := guid.FromString(txt); err == nil && p != nil {
			_ = p.ToFormatD()
		}
	}
	for _, v := range types {
		yv := y
		if v.ver != 0xFF {
			yv = withVersion(y, v.ver)
		}
		u := v.mk()
		if _, err := u.Unmarshal(append([]byte{}, yv...)); err != nil {
			continue
		}
		u.Marshal()
		txt := u.String()
		w := v.mk()
		if w.FromString(txt) == nil {
			w.Marshal()
			_ = w.String()
		}
		if g, ok := u.(interface{ GetNodeID() []byte }); ok {
			_ = g.GetNodeID()
		}
		if g, ok := u.(interface{ GetData() []byte }); ok {
			_ = g.GetData()
		}
	}

	// ... and x's results are what they were.
	for _, k := range kept {
		if now := k.live(); !bytes.Equal(now, k.snap) {
			fs = append(fs, vf.F(k.who, "result-changes-when-another-value-is-processed", "result for %x was %q, is %q after processing %x", x, k.snap, now, y))
		}
	}
	return fs
}

func TestResultIndependence(t *testing.T) {
	s := vf.Begin(t, P, "result-independence")
	vf.Rapid(s, vf.N(6000, 90000), func(t *rapid.T) reuseCase {
		x := rapid.SliceOfN(rapid.Byte(), 16, 16).Draw(t, "x")
		var y []byte
		if rapid.Bool().Draw(t, "complement") {
			y = make([]byte, 16)
			for i := range y {
				y[i] = ^x[i]
			}
		} else {
			y = rapid.SliceOfN(rapid.Byte(), 16, 16).Draw(t, "y")
		}
		return reuseCase{X: x, Y: y}
	}, checkIndependence, func(c reuseCase) bool { return !bytes.Equal(c.X, c.Y) })
}
