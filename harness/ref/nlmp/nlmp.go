// Package nlmp is an independent reading of MS-NLMP message layouts: NEGOTIATE
// and AUTHENTICATE parsers with descriptor validation, a CHALLENGE builder that
// may place payloads in any order with gaps, the AV_PAIR codec, an NTLMv2
// response verifier, the hashcat 5600 line splitter and a minimal DER reader.
package nlmp

import (
	"bytes"
	"encoding/binary"
	"encoding/hex"
	"fmt"
	"strings"

	"manticoreverif/ref/refcrypto"
)

const (
	FlagUnicode   = 0x00000001
	FlagOEM       = 0x00000002
	FlagReqTarget = 0x00000004
	FlagNTLM      = 0x00000200
	FlagExtSec    = 0x00080000
	FlagTargetInf = 0x00800000
	FlagVersion   = 0x02000000
)

var Signature = []byte("NTLMSSP\x00")

type Field struct {
	Name   string
	Len    uint16
	MaxLen uint16
	Offset uint32
	Data   []byte
}

func readField(b []byte, at int, name string) Field {
	return Field{Name: name, Len: binary.LittleEndian.Uint16(b[at:]), MaxLen: binary.LittleEndian.Uint16(b[at+2:]), Offset: binary.LittleEndian.Uint32(b[at+4:])}
}

// validate checks the descriptors against the message: maxlen >= len, payload
// inside the message and after the fixed header, payloads pairwise disjoint.
func validate(b []byte, header int, fs []*Field) (problems []string) {
	for _, f := range fs {
		if f.MaxLen < f.Len {
			problems = append(problems, fmt.Sprintf("%s: maxlen %d < len %d", f.Name, f.MaxLen, f.Len))
		}
		end := uint64(f.Offset) + uint64(f.Len)
		if end > uint64(len(b)) {
			problems = append(problems, fmt.Sprintf("%s: offset %d + len %d beyond message of %d bytes", f.Name, f.Offset, f.Len, len(b)))
			continue
		}
		if f.Len > 0 && int(f.Offset) < header {
			problems = append(problems, fmt.Sprintf("%s: offset %d inside the %d-byte fixed header", f.Name, f.Offset, header))
		}
		f.Data = b[f.Offset:end]
	}
	for i := range fs {
		for j := i + 1; j < len(fs); j++ {
			a, c := fs[i], fs[j]
			if a.Len == 0 || c.Len == 0 {
				continue
			}
			if uint64(a.Offset) < uint64(c.Offset)+uint64(c.Len) && uint64(c.Offset) < uint64(a.Offset)+uint64(a.Len) {
				problems = append(problems, fmt.Sprintf("%s [%d,+%d) overlaps %s [%d,+%d)", a.Name, a.Offset, a.Len, c.Name, c.Offset, c.Len))
			}
		}
	}
	return
}

type Negotiate struct {
	Flags               uint32
	Domain, Workstation Field
	Version             []byte
}

// ParseNegotiate reads a NEGOTIATE_MESSAGE (MS-NLMP 2.2.1.1).
func ParseNegotiate(b []byte) (*Negotiate, []string) {
	if len(b) < 32 {
		return nil, []string{fmt.Sprintf("message of %d bytes shorter than the 32-byte fixed part", len(b))}
	}
	var problems []string
	if !bytes.Equal(b[:8], Signature) {
		problems = append(problems, "bad signature")
	}
	if t := binary.LittleEndian.Uint32(b[8:]); t != 1 {
		problems = append(problems, fmt.Sprintf("message type %d, want 1", t))
	}
	n := &Negotiate{Flags: binary.LittleEndian.Uint32(b[12:])}
	n.Domain = readField(b, 16, "DomainNameFields")
	n.Workstation = readField(b, 24, "WorkstationFields")
	header := 32
	if n.Flags&FlagVersion != 0 {
		header = 40
		if len(b) < 40 {
			return n, append(problems, "VERSION flag set but message shorter than 40 bytes")
		}
		n.Version = b[32:40]
	}
	problems = append(problems, validate(b, header, []*Field{&n.Domain, &n.Workstation})...)
	return n, problems
}

type Authenticate struct {
	LM, NT, Domain, User, Workstation, SessionKey Field
	Flags                                         uint32
	Version                                       []byte
	MIC                                           []byte
}

// ParseAuthenticate reads an AUTHENTICATE_MESSAGE (MS-NLMP 2.2.1.3): 64 bytes of
// descriptors and flags, then optionally 8 bytes of version and, after them,
// optionally 16 bytes of MIC. The fixed part is thus 64, 72 or 88 bytes long; which
// of the three forms a message uses is read off where its payload begins (see below).
func ParseAuthenticate(b []byte) (*Authenticate, []string) {
	if len(b) < 64 {
		return nil, []string{fmt.Sprintf("message of %d bytes shorter than the 64-byte fixed part", len(b))}
	}
	var problems []string
	if !bytes.Equal(b[:8], Signature) {
		problems = append(problems, "bad signature")
	}
	if t := binary.LittleEndian.Uint32(b[8:]); t != 3 {
		problems = append(problems, fmt.Sprintf("message type %d, want 3", t))
	}
	a := &Authenticate{}
	a.LM = readField(b, 12, "LmChallengeResponseFields")
	a.NT = readField(b, 20, "NtChallengeResponseFields")
	a.Domain = readField(b, 28, "DomainNameFields")
	a.User = readField(b, 36, "UserNameFields")
	a.Workstation = readField(b, 44, "WorkstationFields")
	a.SessionKey = readField(b, 52, "EncryptedRandomSessionKeyFields")
	a.Flags = binary.LittleEndian.Uint32(b[60:])
	fields := []*Field{&a.LM, &a.NT, &a.Domain, &a.User, &a.Workstation, &a.SessionKey}
	// the payload may only start after version and MIC when they are present; the
	// smallest offset of a non-empty payload field tells which header form was used
	// (a message without any payload is as long as its header)
	first := uint64(len(b))
	for _, f := range fields {
		if f.Len > 0 && uint64(f.Offset) < first {
			first = uint64(f.Offset)
		}
	}
	header := 64
	switch {
	case first >= 88:
		header = 88
		a.Version = b[64:72]
		a.MIC = b[72:88]
	case first >= 72:
		header = 72
		a.Version = b[64:72]
	}
	problems = append(problems, validate(b, header, fields)...)
	return a, problems
}

// ---- AV_PAIR ------------------------------------------------------------------------

type AvPair struct {
	ID    uint16
	Value []byte
}

func EncodeAvPairs(ps []AvPair) []byte {
	var b []byte
	for _, p := range ps {
		b = binary.LittleEndian.AppendUint16(b, p.ID)
		b = binary.LittleEndian.AppendUint16(b, uint16(len(p.Value)))
		b = append(b, p.Value...)
	}
	return append(b, 0, 0, 0, 0) // MsvAvEOL
}

// ParseAvPairs requires the list to end in MsvAvEOL; trailing bytes after the
// EOL are returned.
func ParseAvPairs(b []byte) (ps []AvPair, rest []byte, err error) {
	for {
		if len(b) < 4 {
			return ps, nil, fmt.Errorf("AV_PAIR list ends without MsvAvEOL (%d stray bytes)", len(b))
		}
		id, l := binary.LittleEndian.Uint16(b), int(binary.LittleEndian.Uint16(b[2:]))
		if 4+l > len(b) {
			return ps, nil, fmt.Errorf("AV_PAIR id %#x length %d runs past the end (%d bytes left)", id, l, len(b)-4)
		}
		if id == 0 {
			if l != 0 {
				return ps, nil, fmt.Errorf("MsvAvEOL with length %d", l)
			}
			return ps, b[4:], nil
		}
		ps = append(ps, AvPair{id, append([]byte{}, b[4:4+l]...)})
		b = b[4+l:]
	}
}

// ---- CHALLENGE builder ---------------------------------------------------------------------

type Challenge struct {
	Flags           uint32
	ServerChallenge [8]byte
	TargetName      []byte // already in the negotiated character set
	TargetInfo      []byte // encoded AV_PAIR list (with EOL), may be empty
	Version         [8]byte
	InfoFirst       bool   // payload order
	Gap0, Gap1      []byte // junk before the first and between the payloads
	Tail            []byte // junk after the payloads
}

// Build lays the message out per MS-NLMP 2.2.1.2 (56-byte fixed part).
func (c *Challenge) Build() []byte {
	b := make([]byte, 56)
	copy(b, Signature)
	binary.LittleEndian.PutUint32(b[8:], 2)
	binary.LittleEndian.PutUint32(b[20:], c.Flags)
	copy(b[24:32], c.ServerChallenge[:])
	if c.Flags&FlagVersion != 0 {
		copy(b[48:56], c.Version[:])
	}
	b = append(b, c.Gap0...)
	put := func(at int, data []byte) {
		binary.LittleEndian.PutUint16(b[at:], uint16(len(data)))
		binary.LittleEndian.PutUint16(b[at+2:], uint16(len(data)))
		binary.LittleEndian.PutUint32(b[at+4:], uint32(len(b)))
		b = append(b, data...)
	}
	if c.InfoFirst {
		put(40, c.TargetInfo)
		b = append(b, c.Gap1...)
		put(12, c.TargetName)
	} else {
		put(12, c.TargetName)
		b = append(b, c.Gap1...)
		put(40, c.TargetInfo)
	}
	return append(b, c.Tail...)
}

// ---- NTLMv2 verifier -------------------------------------------------------------------------

// VerifyNTLMv2 is what a server that knows the NT hash does with an
// NtChallengeResponse (MS-NLMP 3.3.2): recompute the proof over the server
// challenge and the client blob, then check the blob structure (2.2.2.7).
func VerifyNTLMv2(nt [16]byte, user, domain string, serverChallenge, response []byte, wantClientChallenge []byte) (problems []string) {
	if len(response) < 16+28+4 {
		return []string{fmt.Sprintf("response of %d bytes too short for proof + client blob", len(response))}
	}
	proof, blob := response[:16], response[16:]
	key := refcrypto.NTOWFv2(nt, user, domain)
	if want := refcrypto.HMACMD5(key, serverChallenge, blob); !bytes.Equal(want, proof) {
		problems = append(problems, fmt.Sprintf("proof-mismatch: NTProofStr %x, HMAC_MD5(NTOWFv2(UPPER(%q),%q), challenge||blob) = %x", proof, user, domain, want))
	}
	problems = append(problems, CheckBlob(blob, wantClientChallenge)...)
	return
}

// CheckBlob validates an NTLMv2_CLIENT_CHALLENGE.
func CheckBlob(blob, wantClientChallenge []byte) (problems []string) {
	if len(blob) < 32 {
		return []string{fmt.Sprintf("blob-too-short: %d bytes", len(blob))}
	}
	if blob[0] != 1 || blob[1] != 1 {
		problems = append(problems, fmt.Sprintf("blob-resptype: %02x %02x, want 01 01", blob[0], blob[1]))
	}
	if !bytes.Equal(blob[2:8], make([]byte, 6)) {
		problems = append(problems, fmt.Sprintf("blob-reserved1-2: %x not zero", blob[2:8]))
	}
	if wantClientChallenge != nil && !bytes.Equal(blob[16:24], wantClientChallenge) {
		problems = append(problems, fmt.Sprintf("blob-client-challenge: %x at [16:24], want %x", blob[16:24], wantClientChallenge))
	}
	if !bytes.Equal(blob[24:28], make([]byte, 4)) {
		problems = append(problems, fmt.Sprintf("blob-reserved3: %x not zero", blob[24:28]))
	}
	if _, _, err := ParseAvPairs(blob[28:]); err != nil {
		problems = append(problems, "blob-avpairs-unparseable: "+err.Error())
	}
	return
}

// ---- hashcat mode 5600 -------------------------------------------------------------------------

type Hashcat5600 struct {
	User, Domain    string
	ServerChallenge []byte
	Proof, Blob     []byte
}

// ParseHashcat5600 splits user::domain:challenge:proof:blob. User and domain
// must not contain ':' (hashcat cannot escape it).
func ParseHashcat5600(line string) (*Hashcat5600, error) {
	parts := strings.Split(line, ":")
	if len(parts) != 6 {
		return nil, fmt.Errorf("%d colon-separated fields, want 6 (user::domain:challenge:proof:blob)", len(parts))
	}
	if parts[1] != "" {
		return nil, fmt.Errorf("second field %q not empty", parts[1])
	}
	h := &Hashcat5600{User: parts[0], Domain: parts[2]}
	var err error
	if len(parts[3]) != 16 {
		return nil, fmt.Errorf("server challenge field has %d hex digits, want 16", len(parts[3]))
	}
	if h.ServerChallenge, err = hex.DecodeString(parts[3]); err != nil {
		return nil, fmt.Errorf("server challenge: %v", err)
	}
	if len(parts[4]) != 32 {
		return nil, fmt.Errorf("NTProofStr field has %d hex digits, want 32", len(parts[4]))
	}
	if h.Proof, err = hex.DecodeString(parts[4]); err != nil {
		return nil, fmt.Errorf("proof: %v", err)
	}
	if h.Blob, err = hex.DecodeString(parts[5]); err != nil {
		return nil, fmt.Errorf("blob: %v", err)
	}
	return h, nil
}

// ---- minimal DER ---------------------------------------------------------------------------------

// DER reads one TLV: tag byte, definite length (short or long form), content.
func DER(b []byte) (tag byte, content, rest []byte, err error) {
	if len(b) < 2 {
		return 0, nil, nil, fmt.Errorf("der: %d bytes", len(b))
	}
	tag = b[0]
	l := int(b[1])
	off := 2
	if l&0x80 != 0 {
		n := l & 0x7F
		if n == 0 || n > 4 || len(b) < 2+n {
			return 0, nil, nil, fmt.Errorf("der: bad long-form length (%d length bytes)", n)
		}
		l = 0
		for _, x := range b[2 : 2+n] {
			l = l<<8 | int(x)
		}
		if l < 128 || b[2] == 0 {
			return 0, nil, nil, fmt.Errorf("der: non-minimal length encoding")
		}
		off = 2 + n
	}
	if off+l > len(b) {
		return 0, nil, nil, fmt.Errorf("der: length %d beyond %d available bytes", l, len(b)-off)
	}
	return tag, b[off : off+l], b[off+l:], nil
}
