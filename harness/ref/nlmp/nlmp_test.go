package nlmp

import (
	"bytes"
	"encoding/hex"
	"testing"

	"manticoreverif/ref/refcrypto"
)

func hx(s string) []byte { b, _ := hex.DecodeString(s); return b }

// MS-NLMP 4.2.4: User/Domain/Password, server challenge 0123456789abcdef, client challenge aa*8,
// time 0, target info = NbDomainName "Domain", NbComputerName "Server".
func TestNTLMv2Vector(t *testing.T) {
	nt := refcrypto.NT("Password")
	info := EncodeAvPairs([]AvPair{{2, refcrypto.UTF16LE("Domain")}, {1, refcrypto.UTF16LE("Server")}})
	if hex.EncodeToString(info) != "02000c0044006f006d00610069006e0001000c005300650072007600650072000000"+"0000" {
		t.Fatalf("avpairs %x", info)
	}
	blob := append([]byte{1, 1, 0, 0, 0, 0, 0, 0}, make([]byte, 8)...)
	blob = append(blob, bytes.Repeat([]byte{0xaa}, 8)...)
	blob = append(blob, 0, 0, 0, 0)
	blob = append(blob, info...)
	blob = append(blob, 0, 0, 0, 0)
	key := refcrypto.NTOWFv2(nt, "User", "Domain")
	proof := refcrypto.HMACMD5(key, hx("0123456789abcdef"), blob)
	if hex.EncodeToString(proof) != "68cd0ab851e51c96aabc927bebef6a1c" {
		t.Fatalf("NTProofStr %x", proof)
	}
	resp := append(proof, blob...)
	if p := VerifyNTLMv2(nt, "User", "Domain", hx("0123456789abcdef"), resp, bytes.Repeat([]byte{0xaa}, 8)); len(p) != 0 {
		t.Fatalf("verifier rejects the specification's example: %v", p)
	}
	resp[20] ^= 1
	if p := VerifyNTLMv2(nt, "User", "Domain", hx("0123456789abcdef"), resp, nil); len(p) == 0 {
		t.Fatal("verifier accepts a corrupted response")
	}
}

// hashcat's example hash for mode 5600 (password "hashcat")
func TestHashcat5600Example(t *testing.T) {
	line := "admin::N46iSNekpT:08ca45b7d7ea58ee:88dcbe4446168966a153a0064958dac6:5c7830315c7830310000000000000b45c67103d07d7b95acd12ffa11230e0000000052920b85f78d013c31cdb3b92f5d765c783030"
	h, err := ParseHashcat5600(line)
	if err != nil {
		t.Fatal(err)
	}
	nt := refcrypto.NT("hashcat")
	key := refcrypto.NTOWFv2(nt, h.User, h.Domain)
	if want := refcrypto.HMACMD5(key, h.ServerChallenge, h.Blob); !bytes.Equal(want, h.Proof) {
		t.Fatalf("hashcat example does not verify: %x vs %x", want, h.Proof)
	}
}

func TestDER(t *testing.T) {
	tag, c, rest, err := DER(hx("0603551d0eff"))
	if err != nil || tag != 6 || len(c) != 3 || len(rest) != 1 {
		t.Fatal(tag, c, rest, err)
	}
	long := append(hx("048180"), make([]byte, 128)...)
	if _, c, _, err := DER(long); err != nil || len(c) != 128 {
		t.Fatal(err)
	}
	if _, _, _, err := DER(hx("04810100")); err == nil {
		t.Fatal("non-minimal length accepted")
	}
}

func TestChallengeBuildAndDescriptorValidation(t *testing.T) {
	c := &Challenge{Flags: FlagUnicode | FlagTargetInf, TargetName: refcrypto.UTF16LE("DOM"), TargetInfo: EncodeAvPairs(nil), Gap1: []byte{9, 9, 9}}
	b := c.Build()
	if len(b) != 56+6+3+4 {
		t.Fatalf("%d", len(b))
	}
	// NEGOTIATE with overlapping payloads must be flagged
	n := make([]byte, 40)
	copy(n, Signature)
	n[8] = 1
	n[15] = 0x02 // VERSION flag (0x02000000)
	n[16], n[18], n[20] = 4, 4, 40
	n[24], n[26], n[28] = 4, 4, 42
	n = append(n, 1, 2, 3, 4, 5, 6)
	if _, p := ParseNegotiate(n); len(p) == 0 {
		t.Fatal("overlap not detected")
	}
}

// The AUTHENTICATE fixed part is 64, 72 (with Version) or 88 bytes (with Version and MIC) long; the form is
// read off the smallest offset of a non-empty payload field.
func TestAuthenticateHeaderForms(t *testing.T) {
	build := func(header int, payload []byte, userOffset int) []byte {
		b := make([]byte, header)
		copy(b, Signature)
		b[8] = 3
		b[36], b[38], b[40] = byte(len(payload)), byte(len(payload)), byte(userOffset) // UserNameFields
		return append(b, payload...)
	}
	for _, header := range []int{64, 72, 88} {
		a, p := ParseAuthenticate(build(header, []byte("user"), header))
		if a == nil || len(p) != 0 || string(a.User.Data) != "user" {
			t.Fatalf("%d-byte header rejected: %v", header, p)
		}
		if (a.Version != nil) != (header >= 72) || (a.MIC != nil) != (header == 88) {
			t.Fatalf("%d-byte header: version %v MIC %v", header, a.Version != nil, a.MIC != nil)
		}
		if a, p := ParseAuthenticate(build(header, nil, 0)); a == nil || len(p) != 0 {
			t.Fatalf("%d-byte message without payload rejected: %v", header, p)
		}
	}
	if _, p := ParseAuthenticate(build(88, []byte("user"), 60)); len(p) == 0 {
		t.Fatal("payload inside the 64-byte descriptor block not detected")
	}
	if _, p := ParseAuthenticate(build(88, []byte("user"), 90)); len(p) == 0 {
		t.Fatal("payload beyond the message not detected")
	}
}
