// Package refcrypto holds independent reference implementations written from
// the standards (RFC 1320 via x/crypto/md4, MS-NLMP, MS-Cache, RFC 8018,
// RFC 4493). Nothing here calls into Manticore.
package refcrypto

import (
	"crypto/cipher"
	"crypto/des"
	"crypto/hmac"
	"crypto/md5"
	"crypto/sha1"
	"encoding/binary"
	"math/big"

	xmd4 "golang.org/x/crypto/md4"

	"manticoreverif/ref/alpha"
)

// UTF16LE encodes a string rune by rune; surrogate pairs by hand (RFC 2781).
func UTF16LE(s string) []byte {
	var out []byte
	for _, r := range s {
		if r >= 0x10000 {
			v := uint32(r) - 0x10000
			hi := 0xD800 + (v >> 10)
			lo := 0xDC00 + (v & 0x3FF)
			out = append(out, byte(hi), byte(hi>>8), byte(lo), byte(lo>>8))
		} else {
			out = append(out, byte(r), byte(r>>8))
		}
	}
	return out
}

func MD4(b []byte) [16]byte {
	h := xmd4.New()
	h.Write(b)
	var o [16]byte
	copy(o[:], h.Sum(nil))
	return o
}

// NT = MD4(UTF-16LE(password))   (MS-NLMP 3.3.1 NTOWFv1)
func NT(password string) [16]byte { return MD4(UTF16LE(password)) }

// ExpandDESKey spreads 56 key bits over 8 bytes, 7 bits per byte in the high
// bits, low bit = odd parity. Written over a bit string so that it shares no
// shifting code with the library.
func ExpandDESKey(k7 []byte) []byte {
	if len(k7) != 7 {
		panic("ExpandDESKey: need 7 bytes")
	}
	bits := make([]byte, 0, 56)
	for _, b := range k7 {
		for i := 7; i >= 0; i-- {
			bits = append(bits, (b>>uint(i))&1)
		}
	}
	out := make([]byte, 8)
	for i := 0; i < 8; i++ {
		var v byte
		ones := 0
		for j := 0; j < 7; j++ {
			bit := bits[i*7+j]
			v = v<<1 | bit
			ones += int(bit)
		}
		v <<= 1
		if ones%2 == 0 {
			v |= 1
		}
		out[i] = v
	}
	return out
}

func desEncrypt(k7, block []byte) []byte {
	c, err := des.NewCipher(ExpandDESKey(k7))
	if err != nil {
		panic(err)
	}
	out := make([]byte, 8)
	c.Encrypt(out, block)
	return out
}

// LM = DES(UPPER(pw)[0..6], magic) ‖ DES(UPPER(pw)[7..13], magic), password
// NUL-padded/truncated to 14 bytes (MS-NLMP 3.3.1 LMOWFv1). 7-bit ASCII only.
func LM(password string) []byte {
	p := []byte(alpha.UpperString(password))
	buf := make([]byte, 14)
	copy(buf, p)
	magic := []byte("KGS!@#$%")
	return append(desEncrypt(buf[:7], magic), desEncrypt(buf[7:], magic)...)
}

// DESL(K, D) per MS-NLMP section 6: K is 16 bytes, padded with five zero
// bytes to 21, three DES encryptions of the 8-byte D.
func DESL(k16, d8 []byte) []byte {
	k := make([]byte, 21)
	copy(k, k16)
	var out []byte
	for i := 0; i < 3; i++ {
		out = append(out, desEncrypt(k[7*i:7*i+7], d8)...)
	}
	return out
}

// DCC (MS-Cache v1) = MD4(NT ‖ UTF16LE(lower(user)))
func DCC(nt [16]byte, user string) [16]byte {
	return MD4(append(append([]byte{}, nt[:]...), UTF16LE(alpha.LowerString(user))...))
}

// PBKDF2-HMAC-SHA1 per RFC 8018 section 5.2.
func PBKDF2SHA1(password, salt []byte, iter, dkLen int) []byte {
	var dk []byte
	for block := uint32(1); len(dk) < dkLen; block++ {
		m := hmac.New(sha1.New, password)
		m.Write(salt)
		var ib [4]byte
		binary.BigEndian.PutUint32(ib[:], block)
		m.Write(ib[:])
		u := m.Sum(nil)
		t := append([]byte{}, u...)
		for i := 1; i < iter; i++ {
			m = hmac.New(sha1.New, password)
			m.Write(u)
			u = m.Sum(nil)
			for j := range t {
				t[j] ^= u[j]
			}
		}
		dk = append(dk, t...)
	}
	return dk[:dkLen]
}

// DCC2 (MS-Cache v2) = PBKDF2-HMAC-SHA1(DCC, UTF16LE(lower(user)), rounds, 16)
func DCC2(nt [16]byte, user string, rounds int) []byte {
	d := DCC(nt, user)
	return PBKDF2SHA1(d[:], UTF16LE(alpha.LowerString(user)), rounds, 16)
}

func HMACMD5(key []byte, parts ...[]byte) []byte {
	m := hmac.New(md5.New, key)
	for _, p := range parts {
		m.Write(p)
	}
	return m.Sum(nil)
}

// NTOWFv2 = HMAC_MD5(NT, UTF16LE(UPPER(user) ‖ domain))   (MS-NLMP 3.3.2)
func NTOWFv2(nt [16]byte, user, domain string) []byte {
	return HMACMD5(nt[:], UTF16LE(alpha.UpperString(user)), UTF16LE(domain))
}

// CMAC per RFC 4493 / SP 800-38B for any 64- or 128-bit block cipher. The
// subkey doubling is done on big integers.
func CMAC(c cipher.Block, msg []byte) []byte {
	bs := c.BlockSize()
	var rb int64 = 0x87
	if bs == 8 {
		rb = 0x1B
	}
	dbl := func(in []byte) []byte {
		v := new(big.Int).SetBytes(in)
		msb := v.Bit(bs*8-1) == 1
		v.Lsh(v, 1)
		v.And(v, new(big.Int).Sub(new(big.Int).Lsh(big.NewInt(1), uint(bs*8)), big.NewInt(1)))
		if msb {
			v.Xor(v, big.NewInt(rb))
		}
		out := make([]byte, bs)
		v.FillBytes(out)
		return out
	}
	l := make([]byte, bs)
	c.Encrypt(l, l)
	k1 := dbl(l)
	k2 := dbl(k1)
	n := (len(msg) + bs - 1) / bs
	complete := n > 0 && len(msg)%bs == 0
	if n == 0 {
		n = 1
	}
	last := make([]byte, bs)
	if complete {
		copy(last, msg[(n-1)*bs:])
		for i := range last {
			last[i] ^= k1[i]
		}
	} else {
		rem := msg[(n-1)*bs:]
		copy(last, rem)
		last[len(rem)] = 0x80
		for i := range last {
			last[i] ^= k2[i]
		}
	}
	x := make([]byte, bs)
	for i := 0; i < n-1; i++ {
		for j := 0; j < bs; j++ {
			x[j] ^= msg[i*bs+j]
		}
		c.Encrypt(x, x)
	}
	for j := 0; j < bs; j++ {
		x[j] ^= last[j]
	}
	c.Encrypt(x, x)
	return x
}
