package refcrypto

import (
	"bytes"
	"crypto/aes"
	"crypto/des"
	"encoding/hex"
	"testing"
	"unicode/utf16"
)

func hx(s string) []byte { b, err := hex.DecodeString(s); if err != nil { panic(err) }; return b }

func TestMD4RFC1320(t *testing.T) {
	v := map[string]string{
		"": "31d6cfe0d16ae931b73c59d7e0c089c0", "a": "bde52cb31de33e46245e05fbdbd6fb24",
		"abc": "a448017aaf21d8525fc10ae87aa6729d", "message digest": "d9130a8164549fe818874806e1c7014b",
		"abcdefghijklmnopqrstuvwxyz": "d79e1c308aa5bbcdeea8ed63df412da9",
		"ABCDEFGHIJKLMNOPQRSTUVWXYZabcdefghijklmnopqrstuvwxyz0123456789":                   "043f8582f241db351ce627e153e7f0e4",
		"12345678901234567890123456789012345678901234567890123456789012345678901234567890": "e33b4ddc9c38f2199c3e7b164fcc0536",
	}
	for in, want := range v {
		got := MD4([]byte(in))
		if hex.EncodeToString(got[:]) != want {
			t.Errorf("MD4(%q)=%x want %s", in, got, want)
		}
	}
}

// MS-NLMP 4.2.2: User "User", domain "Domain", password "Password".
func TestMSNLMPVectors(t *testing.T) {
	nt := NT("Password")
	if hex.EncodeToString(nt[:]) != "a4f49c406510bdcab6824ee7c30fd852" {
		t.Errorf("NTOWFv1 %x", nt)
	}
	if lm := LM("Password"); hex.EncodeToString(lm) != "e52cac67419a9a224a3b108f3fa6cb6d" {
		t.Errorf("LMOWFv1 %x", lm)
	}
	chal := hx("0123456789abcdef")
	if r := DESL(nt[:], chal); hex.EncodeToString(r) != "67c43011f30298a2ad35ece64f16331c44bdbed927841f94" {
		t.Errorf("NT response %x", r)
	}
	if r := DESL(LM("Password"), chal); hex.EncodeToString(r) != "98def7b87f88aa5dafe2df779688a172def11c7d5ccdef13" {
		t.Errorf("LM response %x", r)
	}
	if k := NTOWFv2(nt, "User", "Domain"); hex.EncodeToString(k) != "0c868a403bfd7a93a3001ef22ef02e3f" {
		t.Errorf("NTOWFv2 %x", k)
	}
	// LMv2 response with client challenge aa*8 (MS-NLMP 4.2.4.2.1)
	k := NTOWFv2(nt, "User", "Domain")
	cc := bytes.Repeat([]byte{0xaa}, 8)
	lmv2 := append(HMACMD5(k, chal, cc), cc...)
	if hex.EncodeToString(lmv2) != "86c35097ac9cec102554764a57cccc19aaaaaaaaaaaaaaaa" {
		t.Errorf("LMv2 %x", lmv2)
	}
}

func TestPBKDF2RFC6070(t *testing.T) {
	if got := PBKDF2SHA1([]byte("password"), []byte("salt"), 1, 20); hex.EncodeToString(got) != "0c60c80f961f0e71f3a9b524af6012062fe037a6" {
		t.Errorf("%x", got)
	}
	if got := PBKDF2SHA1([]byte("password"), []byte("salt"), 2, 20); hex.EncodeToString(got) != "ea6c014dc72d6f8ccd1ed92ace1d41f0d8de8957" {
		t.Errorf("%x", got)
	}
	if got := PBKDF2SHA1([]byte("password"), []byte("salt"), 4096, 20); hex.EncodeToString(got) != "4b007901b765489abead49d926f721d065a429c1" {
		t.Errorf("%x", got)
	}
	if got := PBKDF2SHA1([]byte("passwordPASSWORDpassword"), []byte("saltSALTsaltSALTsaltSALTsaltSALTsalt"), 4096, 25); hex.EncodeToString(got) != "3d2eec4fe41c849b80c8d83662c0e44a8b291a964cf2f07038" {
		t.Errorf("%x", got)
	}
}

// hashcat example hashes: mode 1100 "4dd8965d1d476fa0d026722989a6b772:3060147285011" (hashcat),
// mode 2100 "$DCC2$10240#tom#e4e938d12fe5974dc42a90120bd9c90f" (hashcat).
func TestHashcatExamples(t *testing.T) {
	d := DCC(NT("hashcat"), "3060147285011")
	if hex.EncodeToString(d[:]) != "4dd8965d1d476fa0d026722989a6b772" {
		t.Errorf("DCC %x", d)
	}
	if d2 := DCC2(NT("hashcat"), "tom", 10240); hex.EncodeToString(d2) != "e4e938d12fe5974dc42a90120bd9c90f" {
		t.Errorf("DCC2 %x", d2)
	}
	nt := NT("hashcat")
	if hex.EncodeToString(nt[:]) != "b4b9b02e6f09a9bd760f388b67351e2b" {
		t.Errorf("NT %x", nt)
	}
	if lm := LM("HASHCAT"); hex.EncodeToString(lm[:8]) != "299bd128c1101fd6" {
		t.Errorf("LM %x", lm)
	}
}

func TestCMACVectors(t *testing.T) {
	key := hx("2b7e151628aed2a6abf7158809cf4f3c")
	c, _ := aes.NewCipher(key)
	msg := hx("6bc1bee22e409f96e93d7e117393172aae2d8a571e03ac9c9eb76fac45af8e5130c81c46a35ce411e5fbc1191a0a52eff69f2445df4f9b17ad2b417be66c3710")
	for n, want := range map[int]string{0: "bb1d6929e95937287fa37d129b756746", 16: "070a16b46b4d4144f79bdd9dd04a287c", 40: "dfa66747de9ae63030ca32611497c827", 64: "51f0bebf7e3b9d92fc49741779363cfe"} {
		if got := CMAC(c, msg[:n]); hex.EncodeToString(got) != want {
			t.Errorf("AES-128 len %d: %x", n, got)
		}
	}
	// SP 800-38B D.2 AES-192, D.3 AES-256
	c, _ = aes.NewCipher(hx("8e73b0f7da0e6452c810f32b809079e562f8ead2522c6b7b"))
	if got := CMAC(c, nil); hex.EncodeToString(got) != "d17ddf46adaacde531cac483de7a9367" {
		t.Errorf("AES-192 empty %x", got)
	}
	if got := CMAC(c, msg[:40]); hex.EncodeToString(got) != "8a1de5be2eb31aad089a82e6ee908b0e" {
		t.Errorf("AES-192 40 %x", got)
	}
	c, _ = aes.NewCipher(hx("603deb1015ca71be2b73aef0857d77811f352c073b6108d72d9810a30914dff4"))
	if got := CMAC(c, msg[:64]); hex.EncodeToString(got) != "e1992190549f6ed5696a2c056c315410" {
		t.Errorf("AES-256 64 %x", got)
	}
	// SP 800-38B D.4 three-key TDEA
	tc, _ := des.NewTripleDESCipher(hx("8aa83bf8cbda10620bc1bf19fbb6cd58bc313d4a371ca8b5"))
	if got := CMAC(tc, nil); hex.EncodeToString(got) != "b7a688e122ffaf95" {
		t.Errorf("TDEA empty %x", got)
	}
	if got := CMAC(tc, msg[:8]); hex.EncodeToString(got) != "8e8f293136283797" {
		t.Errorf("TDEA 8 %x", got)
	}
	if got := CMAC(tc, msg[:20]); hex.EncodeToString(got) != "743ddbe0ce2dc2ed" {
		t.Errorf("TDEA 20 %x", got)
	}
	if got := CMAC(tc, msg[:32]); hex.EncodeToString(got) != "33e6b1092400eae5" {
		t.Errorf("TDEA 32 %x", got)
	}
}

func TestUTF16LEAgainstStdlib(t *testing.T) {
	for _, s := range []string{"", "abc", "é€", "😀x", "\U00010000\U0010FFFF", "日本"} {
		var want []byte
		for _, u := range utf16.Encode([]rune(s)) {
			want = append(want, byte(u), byte(u>>8))
		}
		if !bytes.Equal(UTF16LE(s), want) {
			t.Errorf("%q: %x vs %x", s, UTF16LE(s), want)
		}
	}
}

func TestExpandDESKey(t *testing.T) {
	// every output byte has odd parity and carries its 7 source bits
	k := hx("ffffffffffffff")
	if got := ExpandDESKey(k); hex.EncodeToString(got) != "fefefefefefefefe" {
		t.Errorf("%x", got)
	}
	if got := ExpandDESKey(make([]byte, 7)); hex.EncodeToString(got) != "0101010101010101" {
		t.Errorf("%x", got)
	}
}
