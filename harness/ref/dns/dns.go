// Package dns is an independent RFC 1035 message codec (section 4.1) with
// name compression (4.1.4), written for the harness. Names are label lists.
package dns

import (
	"encoding/binary"
	"errors"
	"fmt"
)

type Name [][]byte

type Question struct {
	Name  Name
	Type  uint16
	Class uint16
}

type RR struct {
	Name  Name
	Type  uint16
	Class uint16
	TTL   uint32
	RData []byte
}

type Message struct {
	ID, Flags                      uint16
	Questions                      []Question
	Answers, Authority, Additional []RR
}

func (n Name) WireLen() int {
	l := 1
	for _, lab := range n {
		l += 1 + len(lab)
	}
	return l
}

// Encoder places names; Compress decides, per name and in order of
// appearance, whether (and to which earlier occurrence of a suffix) to point.
type Encoder struct {
	buf []byte
	// suffix occurrences: key = canonical suffix bytes, value = offsets where a
	// name with exactly these remaining labels starts
	seen map[string][]int
	// Choice is asked once per name: it receives the number of usable
	// (suffixIndex, occurrence) candidates and returns -1 for no pointer or an
	// index into the candidate list.
	Choice func(candidates int) int
	// Root also offers the empty suffix as a pointer target: every earlier root
	// terminator (the zero octet that ends a written-out name) is a prior
	// occurrence of the root name, RFC 1035 4.1.4 allows a name to end in a
	// pointer to it. Off by default.
	Root   bool
	viaPtr map[int]bool // label offsets of names that end in a pointer
	Stats
}

// Stats describes the pointers an encoding contains.
type Stats struct {
	Pointers     int // pointers emitted
	RootPointers int // of which point at a root terminator (empty suffix)
	RootAfter    int // of which are preceded by at least one label of the same name
	MaxTarget    int // largest pointer target (0: none)
	Chained      int // pointers whose target name itself ends in a pointer
}

func key(n Name) string {
	var b []byte
	for _, l := range n {
		b = append(b, byte(len(l)))
		b = append(b, l...)
	}
	return string(b)
}

func (e *Encoder) name(n Name) {
	type cand struct{ from, off int }
	var cands []cand
	// keys[i] = key(n[i:]); keys[len(n)] = "" (the empty suffix)
	full := key(n)
	keys := make([]string, len(n)+1)
	for i, at := 0, 0; i < len(n); i++ {
		keys[i] = full[at:]
		at += 1 + len(n[i])
	}
	if e.Choice != nil {
		last := len(n) - 1
		if e.Root {
			last = len(n) // the empty suffix: key "" = offsets of root terminators
		}
		for i := 0; i <= last; i++ {
			for _, off := range e.seen[keys[i]] {
				if off < 0x4000 {
					cands = append(cands, cand{i, off})
				}
			}
		}
	}
	pick := -1
	if len(cands) > 0 {
		pick = e.Choice(len(cands))
	}
	upto := len(n)
	if pick >= 0 {
		upto = cands[pick].from
	}
	for i := 0; i < upto; i++ {
		if len(e.buf) < 0x4000 {
			e.seen[keys[i]] = append(e.seen[keys[i]], len(e.buf))
			if pick >= 0 {
				e.viaPtr[len(e.buf)] = true
			}
		}
		e.buf = append(e.buf, byte(len(n[i])))
		e.buf = append(e.buf, n[i]...)
	}
	if pick < 0 {
		if len(e.buf) < 0x4000 {
			e.seen[""] = append(e.seen[""], len(e.buf))
		}
		e.buf = append(e.buf, 0)
		return
	}
	off := cands[pick].off
	e.buf = append(e.buf, 0xC0|byte(off>>8), byte(off))
	e.Pointers++
	if cands[pick].from == len(n) {
		e.RootPointers++
		if upto > 0 {
			e.RootAfter++
		}
	}
	if off > e.MaxTarget {
		e.MaxTarget = off
	}
	if e.viaPtr[off] {
		e.Chained++
	}
}

func (e *Encoder) u16(v uint16) { e.buf = binary.BigEndian.AppendUint16(e.buf, v) }
func (e *Encoder) u32(v uint32) { e.buf = binary.BigEndian.AppendUint32(e.buf, v) }

func (e *Encoder) rr(r RR) {
	e.name(r.Name)
	e.u16(r.Type)
	e.u16(r.Class)
	e.u32(r.TTL)
	e.u16(uint16(len(r.RData)))
	e.buf = append(e.buf, r.RData...)
}

// Encode emits the message; choice may be nil (no compression).
func Encode(m *Message, choice func(int) int) (wire []byte, pointers int) {
	w, st := EncodeOpt(m, choice, false)
	return w, st.Pointers
}

// EncodeOpt is Encode with the choice of also offering pointers to the root
// name (see Encoder.Root); it reports what the encoding contains.
func EncodeOpt(m *Message, choice func(int) int, root bool) ([]byte, Stats) {
	e := &Encoder{seen: map[string][]int{}, viaPtr: map[int]bool{}, Choice: choice, Root: root}
	e.u16(m.ID)
	e.u16(m.Flags)
	e.u16(uint16(len(m.Questions)))
	e.u16(uint16(len(m.Answers)))
	e.u16(uint16(len(m.Authority)))
	e.u16(uint16(len(m.Additional)))
	for _, q := range m.Questions {
		e.name(q.Name)
		e.u16(q.Type)
		e.u16(q.Class)
	}
	for _, r := range m.Answers {
		e.rr(r)
	}
	for _, r := range m.Authority {
		e.rr(r)
	}
	for _, r := range m.Additional {
		e.rr(r)
	}
	return e.buf, e.Stats
}

var ErrTruncated = errors.New("dns: truncated")

// parseName reads a name at off. Pointers must point strictly before the start
// of the name that contains them (so decoding always terminates).
func parseName(b []byte, off int) (Name, int, error) {
	var n Name
	start := off
	limit := start
	end := -1
	hops := 0
	for {
		if off >= len(b) {
			return nil, 0, ErrTruncated
		}
		l := int(b[off])
		switch {
		case l == 0:
			if end < 0 {
				end = off + 1
			}
			if n.WireLen() > 255 {
				return nil, 0, fmt.Errorf("dns: name longer than 255 octets")
			}
			return n, end, nil
		case l&0xC0 == 0xC0:
			if off+1 >= len(b) {
				return nil, 0, ErrTruncated
			}
			p := int(binary.BigEndian.Uint16(b[off:]) & 0x3FFF)
			if p >= limit {
				return nil, 0, fmt.Errorf("dns: pointer %d not strictly backwards (name starts at %d)", p, limit)
			}
			if end < 0 {
				end = off + 2
			}
			off = p
			limit = p
			hops++
			if hops > len(b) {
				return nil, 0, fmt.Errorf("dns: pointer loop")
			}
		case l&0xC0 != 0:
			return nil, 0, fmt.Errorf("dns: reserved label type %#x", l)
		default:
			if off+1+l > len(b) {
				return nil, 0, ErrTruncated
			}
			n = append(n, append([]byte{}, b[off+1:off+1+l]...))
			off += 1 + l
		}
	}
}

func Parse(b []byte) (*Message, error) {
	if len(b) < 12 {
		return nil, ErrTruncated
	}
	m := &Message{ID: binary.BigEndian.Uint16(b[0:]), Flags: binary.BigEndian.Uint16(b[2:])}
	qd, an, ns, ar := int(binary.BigEndian.Uint16(b[4:])), int(binary.BigEndian.Uint16(b[6:])), int(binary.BigEndian.Uint16(b[8:])), int(binary.BigEndian.Uint16(b[10:]))
	off := 12
	for i := 0; i < qd; i++ {
		n, o, err := parseName(b, off)
		if err != nil {
			return nil, err
		}
		if o+4 > len(b) {
			return nil, ErrTruncated
		}
		m.Questions = append(m.Questions, Question{n, binary.BigEndian.Uint16(b[o:]), binary.BigEndian.Uint16(b[o+2:])})
		off = o + 4
	}
	for sec, cnt := range []int{an, ns, ar} {
		for i := 0; i < cnt; i++ {
			n, o, err := parseName(b, off)
			if err != nil {
				return nil, err
			}
			if o+10 > len(b) {
				return nil, ErrTruncated
			}
			r := RR{Name: n, Type: binary.BigEndian.Uint16(b[o:]), Class: binary.BigEndian.Uint16(b[o+2:]), TTL: binary.BigEndian.Uint32(b[o+4:])}
			rl := int(binary.BigEndian.Uint16(b[o+8:]))
			if o+10+rl > len(b) {
				return nil, ErrTruncated
			}
			r.RData = append([]byte{}, b[o+10:o+10+rl]...)
			off = o + 10 + rl
			switch sec {
			case 0:
				m.Answers = append(m.Answers, r)
			case 1:
				m.Authority = append(m.Authority, r)
			default:
				m.Additional = append(m.Additional, r)
			}
		}
	}
	if off != len(b) {
		return m, fmt.Errorf("dns: %d trailing bytes", len(b)-off)
	}
	return m, nil
}
