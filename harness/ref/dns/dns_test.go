package dns

import (
	"bytes"
	"encoding/hex"
	"reflect"
	"testing"
)

// RFC 1035 4.1.4 example: F.ISI.ARPA at 20, FOO.F.ISI.ARPA at 40 with a pointer
// to 20, ARPA at 64 with a pointer to 26, root at 92.
func TestRFC1035CompressionExample(t *testing.T) {
	b := make([]byte, 93)
	copy(b[20:], []byte{1, 'F', 3, 'I', 'S', 'I', 4, 'A', 'R', 'P', 'A', 0})
	copy(b[40:], []byte{3, 'F', 'O', 'O', 0xC0, 20})
	copy(b[64:], []byte{0xC0, 26})
	b[92] = 0
	n, end, err := parseName(b, 40)
	if err != nil || end != 46 || !reflect.DeepEqual(n, Name{[]byte("FOO"), []byte("F"), []byte("ISI"), []byte("ARPA")}) {
		t.Fatalf("%v %d %v", n, end, err)
	}
	n, end, err = parseName(b, 64)
	if err != nil || end != 66 || !reflect.DeepEqual(n, Name{[]byte("ARPA")}) {
		t.Fatalf("%v %d %v", n, end, err)
	}
	n, end, err = parseName(b, 92)
	if err != nil || end != 93 || len(n) != 0 {
		t.Fatalf("%v %d %v", n, end, err)
	}
	if _, _, err = parseName(b, 20); err != nil {
		t.Fatal(err)
	}
	// self / forward pointers are refused
	c := []byte{0xC0, 0}
	if _, _, err := parseName(c, 0); err == nil {
		t.Fatal("self pointer accepted")
	}
}

// a query for example.com A IN as every resolver emits it
func TestKnownQuery(t *testing.T) {
	want, _ := hex.DecodeString("abcd01000001000000000000076578616d706c6503636f6d0000010001")
	m := &Message{ID: 0xabcd, Flags: 0x0100, Questions: []Question{{Name{[]byte("example"), []byte("com")}, 1, 1}}}
	got, _ := Encode(m, nil)
	if !bytes.Equal(got, want) {
		t.Fatalf("%x", got)
	}
	p, err := Parse(want)
	if err != nil || !reflect.DeepEqual(p, m) {
		t.Fatalf("%+v %v", p, err)
	}
}

func TestCompressionRoundTrip(t *testing.T) {
	m := &Message{ID: 1, Questions: []Question{{Name{[]byte("a"), []byte("example"), []byte("com")}, 1, 1}},
		Answers:    []RR{{Name{[]byte("a"), []byte("example"), []byte("com")}, 1, 1, 30, []byte{1, 2, 3, 4}}},
		Additional: []RR{{Name{[]byte("b"), []byte("example"), []byte("com")}, 28, 1, 30, make([]byte, 16)}}}
	w, ptr := Encode(m, func(n int) int { return n - 1 })
	if ptr != 2 {
		t.Fatalf("pointers %d", ptr)
	}
	p, err := Parse(w)
	if err != nil || !reflect.DeepEqual(p, m) {
		t.Fatalf("%+v %v", p, err)
	}
}

// a name may end in a pointer to an earlier root terminator (the empty suffix)
func TestRootPointer(t *testing.T) {
	m := &Message{ID: 1, Questions: []Question{{Name{[]byte("a")}, 1, 1}, {Name{[]byte("b")}, 1, 1}, {Name{}, 1, 1}}}
	w, st := EncodeOpt(m, func(n int) int { return n - 1 }, true)
	// header(12) 01 'a' 00 (root at 14) type class | 01 'b' C0 0E type class | C0 0E type class
	want, _ := hex.DecodeString("000100000003000000000000" + "01610000010001" + "0162c00e00010001" + "c00e00010001")
	if !bytes.Equal(w, want) {
		t.Fatalf("%x", w)
	}
	if st.Pointers != 2 || st.RootPointers != 2 || st.RootAfter != 1 || st.MaxTarget != 14 {
		t.Fatalf("%+v", st)
	}
	p, err := Parse(w)
	if err != nil || len(p.Questions) != 3 || !reflect.DeepEqual(p.Questions[1].Name, Name{[]byte("b")}) || len(p.Questions[2].Name) != 0 {
		t.Fatalf("%+v %v", p, err)
	}
	// without the option nothing changes for existing callers
	w2, n := Encode(m, func(n int) int { return n - 1 })
	if n != 0 || len(w2) != 12+7+7+5 {
		t.Fatalf("%d %x", n, w2)
	}
}
