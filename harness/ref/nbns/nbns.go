// Package nbns: RFC 1001 section 14.1 first-level encoding and the RFC 1002
// section 4.1 name layout, independent of Manticore. Packet framing is the
// RFC 1035 one (package ref/dns).
package nbns

import (
	"fmt"
	"strings"

	"manticoreverif/ref/dns"
)

// FirstLevel encodes up to 16 name bytes (space padded) into 32 characters:
// each byte is split into two nibbles, each nibble is added to 'A'.
func FirstLevel(name []byte) (string, error) {
	if len(name) > 16 {
		return "", fmt.Errorf("name longer than 16 bytes")
	}
	padded := []byte("                ")
	copy(padded, name)
	var sb strings.Builder
	for _, b := range padded {
		sb.WriteByte('A' + b/16)
		sb.WriteByte('A' + b%16)
	}
	return sb.String(), nil
}

func FirstLevelDecode(s string) ([]byte, error) {
	if len(s) != 32 {
		return nil, fmt.Errorf("encoded name must be 32 characters, got %d", len(s))
	}
	out := make([]byte, 16)
	for i := 0; i < 16; i++ {
		hi, lo := s[2*i], s[2*i+1]
		if hi < 'A' || hi > 'P' || lo < 'A' || lo > 'P' {
			return nil, fmt.Errorf("character outside A..P")
		}
		out[i] = (hi-'A')*16 + (lo - 'A')
	}
	return out, nil
}

// Name is a decoded RFC 1002 name: 16 raw bytes plus the scope, label by label as it stands on
// the wire (RFC 1002 4.1: the scope identifier is a sequence of labels, a label never contains the
// separating dot). Scope is the dotted presentation form of ScopeLabels; two different label
// sequences can share it ("a.b" as one label or as two), so comparisons use ScopeLabels.
type Name struct {
	Raw         []byte
	ScopeLabels []string
	Scope       string
}

// FromLabels interprets a label sequence as an RFC 1002 4.1 name.
func FromLabels(n dns.Name) (Name, error) {
	if len(n) == 0 {
		return Name{}, fmt.Errorf("empty name")
	}
	raw, err := FirstLevelDecode(string(n[0]))
	if err != nil {
		return Name{}, err
	}
	parts := make([]string, 0, len(n)-1)
	for _, l := range n[1:] {
		parts = append(parts, string(l))
	}
	return Name{raw, parts, strings.Join(parts, ".")}, nil
}
