package nbns

import (
	"reflect"
	"testing"

	"manticoreverif/ref/dns"
)

// RFC 1001 section 14.1: "FRED" -> EGFCEFEECACACACACACACACACACACACA
func TestFRED(t *testing.T) {
	got, err := FirstLevel([]byte("FRED"))
	if err != nil || got != "EGFCEFEECACACACACACACACACACACACA" {
		t.Fatalf("%q %v", got, err)
	}
	raw, err := FirstLevelDecode(got)
	if err != nil || string(raw) != "FRED            " {
		t.Fatalf("%q %v", raw, err)
	}
	// RFC 1002 4.2.1.2 wildcard "*" + 15 NULs -> CKAAAAAAAAAAAAAAAAAAAAAAAAAAAAAA
	w := make([]byte, 16)
	w[0] = '*'
	if g, _ := FirstLevel(w); g != "CKAAAAAAAAAAAAAAAAAAAAAAAAAAAAAA" {
		t.Fatalf("%q", g)
	}
}

// the scope is kept label by label: one label "corp.example" is not the two labels "corp", "example"
func TestScopeLabels(t *testing.T) {
	enc, _ := FirstLevel([]byte("HOST"))
	two, err := FromLabels(dns.Name{[]byte(enc), []byte("corp"), []byte("example")})
	if err != nil || !reflect.DeepEqual(two.ScopeLabels, []string{"corp", "example"}) || two.Scope != "corp.example" || string(two.Raw) != "HOST            " {
		t.Fatalf("%+v %v", two, err)
	}
	one, err := FromLabels(dns.Name{[]byte(enc), []byte("corp.example")})
	if err != nil || !reflect.DeepEqual(one.ScopeLabels, []string{"corp.example"}) {
		t.Fatalf("%+v %v", one, err)
	}
	none, err := FromLabels(dns.Name{[]byte(enc)})
	if err != nil || len(none.ScopeLabels) != 0 || none.Scope != "" {
		t.Fatalf("%+v %v", none, err)
	}
}
