package nbns

import "testing"

// RFC 1001 section 14.1: "FRED" -> EGFCEFEECACACACACACACACACACACACA
func TestFRED(t *testing.T) {
	got, err := FirstLevel([]byte("FRED"))
	if err != nil || got != "EGFCEFEECACACACACACACACACACACACA" {
		t.Fatalf("%q %v", got, err)
	}
	raw, err := FirstLevelDecode(got)
	if err != nil || string(raw) != "FRED            " {
		t.Fatalf("%q %v", raw, err)
	}
	// RFC 1002 4.2.1.2 wildcard "*" + 15 NULs -> CKAAAAAAAAAAAAAAAAAAAAAAAAAAAAAA
	w := make([]byte, 16)
	w[0] = '*'
	if g, _ := FirstLevel(w); g != "CKAAAAAAAAAAAAAAAAAAAAAAAAAAAAAA" {
		t.Fatalf("%q", g)
	}
}
