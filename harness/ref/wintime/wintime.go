// Package wintime does Windows tick arithmetic in arbitrary precision.
package wintime

import (
	"math/big"
	"time"
)

const (
	Epoch1601Unix = int64(-11644473600) // 1601-01-01T00:00:00Z in Unix seconds
	Epoch1582Unix = int64(-12219292800) // 1582-10-15T00:00:00Z (UUID / Gregorian epoch)
)

var (
	ten7 = big.NewInt(10_000_000)
)

// TicksToUnix returns floor division of (epoch + ticks*100ns) into Unix seconds
// and nanoseconds, as big integers.
func TicksToUnix(ticks *big.Int, epochUnix int64) (sec *big.Int, nsec int64) {
	q, r := new(big.Int), new(big.Int)
	q.DivMod(ticks, ten7, r) // Euclidean: r >= 0
	sec = new(big.Int).Add(q, big.NewInt(epochUnix))
	return sec, r.Int64() * 100
}

// TicksToTime converts when the seconds fit into int64 (always true for 64-bit ticks).
func TicksToTime(ticks *big.Int, epochUnix int64) time.Time {
	s, ns := TicksToUnix(ticks, epochUnix)
	return time.Unix(s.Int64(), ns).UTC()
}

// TimeToTicks = floor((t - epoch) / 100ns) exactly.
func TimeToTicks(t time.Time, epochUnix int64) *big.Int {
	s := new(big.Int).Sub(big.NewInt(t.Unix()), big.NewInt(epochUnix))
	s.Mul(s, ten7)
	s.Add(s, big.NewInt(int64(t.Nanosecond()/100)))
	return s
}

func FitsInt64(v *big.Int) bool  { return v.IsInt64() }
func FitsUint64(v *big.Int) bool { return v.IsUint64() }
