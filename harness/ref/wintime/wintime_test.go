package wintime

import (
	"math/big"
	"testing"
	"time"
)

func TestEpochs(t *testing.T) {
	if time.Date(1601, 1, 1, 0, 0, 0, 0, time.UTC).Unix() != Epoch1601Unix {
		t.Fatal("1601 epoch")
	}
	if time.Date(1582, 10, 15, 0, 0, 0, 0, time.UTC).Unix() != Epoch1582Unix {
		t.Fatal("1582 epoch")
	}
	// well-known constants
	if TimeToTicks(time.Unix(0, 0), Epoch1601Unix).String() != "116444736000000000" {
		t.Fatal("FILETIME of the Unix epoch")
	}
	if TimeToTicks(time.Unix(0, 0), Epoch1582Unix).String() != "122192928000000000" {
		t.Fatal("UUID timestamp of the Unix epoch")
	}
	// 132537600000000000 is quoted in the library's doc comment as 2021-01-01 (Unix 1609286400)... check exact value independently
	got := TicksToTime(big.NewInt(132223104000000000), Epoch1601Unix) // 2020-01-01T00:00:00Z, widely quoted
	if !got.Equal(time.Date(2020, 1, 1, 0, 0, 0, 0, time.UTC)) {
		t.Fatalf("2020-01-01: %v", got)
	}
	// max FILETIME 0x7FFFFFFFFFFFFFFF = 30828-09-14T02:48:05.4775807Z
	mx := TicksToTime(new(big.Int).SetUint64(0x7FFFFFFFFFFFFFFF), Epoch1601Unix)
	if mx.Year() != 30828 || mx.Month() != 9 || mx.Day() != 14 || mx.Nanosecond() != 477580700 {
		t.Fatalf("max filetime: %v", mx)
	}
}
