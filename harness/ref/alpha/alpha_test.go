package alpha

import (
	"strings"
	"testing"
)

// The arithmetic mapping must coincide with Go's per-rune mapping on exactly
// this alphabet; otherwise a disagreement with the library (which uses
// strings.ToUpper/ToLower) would be a false alarm.
func TestAlphabetCaseSafe(t *testing.T) {
	for _, r := range AllRunes() {
		s := string(r)
		if got, want := strings.ToUpper(s), string(Upper(r)); got != want {
			t.Errorf("upper(%U): go %q ref %q", r, got, want)
		}
		if got, want := strings.ToLower(s), string(Lower(r)); got != want {
			t.Errorf("lower(%U): go %q ref %q", r, got, want)
		}
		if Lower(Upper(r)) != Lower(r) || Upper(Lower(r)) != Upper(r) {
			t.Errorf("%U: mapping not an involution pair", r)
		}
	}
}
