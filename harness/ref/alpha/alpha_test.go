package alpha

import (
	"strings"
	"testing"
	"unicode"
	"unicode/utf8"
)

// The arithmetic mapping must coincide with Go's per-rune mapping on exactly
// this alphabet; otherwise a disagreement with the library (which uses
// strings.ToUpper/ToLower) would be a false alarm.
func TestAlphabetCaseSafe(t *testing.T) {
	for _, r := range AllRunes() {
		s := string(r)
		if got, want := strings.ToUpper(s), string(Upper(r)); got != want {
			t.Errorf("upper(%U): go %q ref %q", r, got, want)
		}
		if got, want := strings.ToLower(s), string(Lower(r)); got != want {
			t.Errorf("lower(%U): go %q ref %q", r, got, want)
		}
		if Lower(Upper(r)) != Lower(r) || Upper(Lower(r)) != Upper(r) {
			t.Errorf("%U: mapping not an involution pair", r)
		}
	}
}

// Every rune of the alphabet is a Unicode scalar value that survives the trip
// through a Go string (so cases replay from JSON), and the hostile class is
// caseless under every mapping Go knows (upper, lower, title, simple folding).
func TestAlphabetValidScalars(t *testing.T) {
	for _, r := range AllRunes() {
		if !utf8.ValidRune(r) || (r >= 0xD800 && r <= 0xDFFF) {
			t.Errorf("%U is not a scalar value", r)
		}
		if back := []rune(string(r)); len(back) != 1 || back[0] != r {
			t.Errorf("%U does not survive string conversion: %U", r, back)
		}
	}
	seen := map[rune]bool{}
	for _, r := range hostile {
		if seen[r] {
			t.Errorf("%U listed twice", r)
		}
		seen[r] = true
		if Upper(r) != r || Lower(r) != r {
			t.Errorf("%U: reference mapping is not the identity", r)
		}
		if unicode.ToUpper(r) != r || unicode.ToLower(r) != r || unicode.ToTitle(r) != r || unicode.SimpleFold(r) != r {
			t.Errorf("%U is not caseless", r)
		}
		s := "a" + string(r) + "Z" + string(r)
		if got, want := strings.ToUpper(s), "A"+string(r)+"Z"+string(r); got != want {
			t.Errorf("upper(%q) = %q", s, got)
		}
		if got, want := strings.ToLower(s), "a"+string(r)+"z"+string(r); got != want {
			t.Errorf("lower(%q) = %q", s, got)
		}
	}
}
