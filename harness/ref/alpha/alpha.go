// Package alpha is the "case-safe" alphabet of DESIGN.md §2: letters whose
// upper/lower mapping every implementation agrees on and that the reference
// computes by arithmetic, plus caseless code points (digits, CJK, non-BMP).
package alpha

import (
	"pgregory.net/rapid"
)

type rng struct{ lo, hi rune }

var (
	asciiPrintable = rng{0x20, 0x7e}
	upperRanges    = []rng{{'A', 'Z'}, {0xC0, 0xD6}, {0xD8, 0xDE}, {0x391, 0x3A1}, {0x3A3, 0x3A9}, {0x410, 0x42F}, {0x400, 0x40F}}
	lowerRanges    = []rng{{'a', 'z'}, {0xE0, 0xF6}, {0xF8, 0xFE}, {0x3B1, 0x3C1}, {0x3C3, 0x3C9}, {0x430, 0x44F}, {0x450, 0x45F}}
	caseless       = []rng{{'0', '9'}, {0x4E00, 0x4E80}, {0x3042, 0x3093}, {0x1F600, 0x1F64F}, {0x10000, 0x1005D}, {0x20000, 0x20040}}
)

// hostile lists caseless code points that text-handling code is tempted to
// strip, fold, stop at or replace: C0/C1 controls and DEL, line terminators,
// no-break and zero-width spaces, the byte-order mark, the replacement
// character, non-characters, private use, and the last code points before the
// surrogate block and of the code space. All are valid UTF-8 scalar values
// (never surrogates) on which upper- and lower-casing are the identity (the
// unit test checks both). The order is "most tempting first": rapid shrinks an
// index towards 0.
var hostile = []rune{
	0x00, '\n', '\r', '\t', 0x01, 0x0B, 0x0C, 0x1B, 0x1F, 0x7F, 0x80, 0x85, 0x9F, 0xA0, 0xAD,
	0x200B, 0x200D, 0x200E, 0x2028, 0x2029, 0x202E, 0x2060, 0x3000,
	0xD7FF, 0xE000, 0xF8FF, 0xFEFF, 0xFFFD, 0xFFFE, 0xFFFF, 0xE0001, 0xFFFFF, 0x10FFFF,
}

// Lower is the reference lower-casing on the alphabet (identity elsewhere).
func Lower(r rune) rune {
	switch {
	case r >= 'A' && r <= 'Z', r >= 0xC0 && r <= 0xDE && r != 0xD7, r >= 0x391 && r <= 0x3A9 && r != 0x3A2, r >= 0x410 && r <= 0x42F:
		return r + 32
	case r >= 0x400 && r <= 0x40F:
		return r + 80
	}
	return r
}

// Upper is the reference upper-casing on the alphabet (identity elsewhere).
func Upper(r rune) rune {
	switch {
	case r >= 'a' && r <= 'z', r >= 0xE0 && r <= 0xFE && r != 0xF7, r >= 0x3B1 && r <= 0x3C9 && r != 0x3C2, r >= 0x430 && r <= 0x44F:
		return r - 32
	case r >= 0x450 && r <= 0x45F:
		return r - 80
	}
	return r
}

func LowerString(s string) string {
	rs := []rune(s)
	for i, r := range rs {
		rs[i] = Lower(r)
	}
	return string(rs)
}

func UpperString(s string) string {
	rs := []rune(s)
	for i, r := range rs {
		rs[i] = Upper(r)
	}
	return string(rs)
}

// AllRunes lists every rune the generators can draw (for self-tests).
func AllRunes() []rune {
	var out []rune
	for _, set := range [][]rng{{asciiPrintable}, upperRanges, lowerRanges, caseless} {
		for _, g := range set {
			for r := g.lo; r <= g.hi; r++ {
				out = append(out, r)
			}
		}
	}
	return append(out, hostile...)
}

func pick(t *rapid.T, set []rng, label string) rune {
	g := set[rapid.IntRange(0, len(set)-1).Draw(t, label+"Range")]
	return rune(rapid.IntRange(int(g.lo), int(g.hi)).Draw(t, label))
}

// Rune draws one rune of the alphabet; exclude lists runes that must not appear.
func Rune(t *rapid.T, exclude string) rune {
	for {
		var r rune
		switch rapid.IntRange(0, 10).Draw(t, "runeClass") {
		case 0, 1, 2, 3:
			r = rune(rapid.IntRange(0x20, 0x7e).Draw(t, "ascii"))
		case 4, 5:
			r = pick(t, upperRanges, "upper")
		case 6, 7:
			r = pick(t, lowerRanges, "lower")
		case 8, 9:
			r = pick(t, caseless, "caseless")
		default:
			r = hostile[rapid.IntRange(0, len(hostile)-1).Draw(t, "hostile")]
		}
		ok := true
		for _, x := range exclude {
			if x == r {
				ok = false
			}
		}
		if ok {
			return r
		}
		// excluded ASCII separator: replace deterministically rather than reject
		return 'x'
	}
}

// LongTail is how far beyond maxRunes the long-tail length class of String reaches.
const LongTail = 300

// String draws a string of usually 0..maxRunes runes; one draw in twelve comes
// from a long tail of maxRunes+1..maxRunes+LongTail runes, so that no caller's
// strings stay below the field widths (15, 20, 32, 64, 255 ...) at which
// implementations are tempted to truncate. The long class is the highest class
// value so that shrinking moves towards short strings.
func String(t *rapid.T, label string, maxRunes int, exclude string) string {
	var n int
	if rapid.IntRange(0, 11).Draw(t, label+"LenClass") == 11 {
		n = maxRunes + rapid.IntRange(1, LongTail).Draw(t, label+"LongLen")
	} else {
		n = rapid.IntRange(0, maxRunes).Draw(t, label+"Len")
	}
	rs := make([]rune, n)
	for i := range rs {
		rs[i] = Rune(t, exclude)
	}
	return string(rs)
}

// HasNonBMP reports whether s contains a rune above U+FFFF.
func HasNonBMP(s string) bool {
	for _, r := range s {
		if r > 0xFFFF {
			return true
		}
	}
	return false
}

func HasNonASCII(s string) bool {
	for _, r := range s {
		if r > 0x7f {
			return true
		}
	}
	return false
}

func HasLower(s string) bool {
	for _, r := range s {
		if Upper(r) != r {
			return true
		}
	}
	return false
}

func HasUpper(s string) bool {
	for _, r := range s {
		if Lower(r) != r {
			return true
		}
	}
	return false
}
