// Package c04: every SMB1 command structure round-trips all of its fields through the wire.
package c04

import (
	"bytes"
	"encoding/json"
	"fmt"
	"github.com/TheManticoreProject/Manticore/network/smb/smb_v10/message/commands/andx"
	"github.com/TheManticoreProject/Manticore/network/smb/smb_v10/message/commands/codes"
	"reflect"
	"sort"
	"strings"
	"testing"

	"pgregory.net/rapid"

	"manticoreverif/smbgen"
	"manticoreverif/vf"
)

const P = "C04"

type cmdCase struct {
	Struct string                     `json:"struct"`
	Fields map[string]json.RawMessage `json:"fields"`
}

func build(c cmdCase) (smbgen.Cmd, smbgen.Entry, error) {
	e, ok := smbgen.ByName(c.Struct)
	if !ok {
		return nil, e, fmt.Errorf("structure %s is not reachable from the factories", c.Struct)
	}
	cmd := smbgen.New(e)
	if err := smbgen.Restore(cmd, c.Fields); err != nil {
		return nil, e, err
	}
	// "every string buffer format the command uses": a string is given in the format its command puts on the
	// wire for it (read off the wire once per structure; the generator draws only that format, so for a
	// generated case this changes nothing). The property asks nothing about other formats.
	smbgen.AdoptWireFormats(cmd)
	return cmd, e, nil
}

// heldFormats returns the buffer format every own string field of cmd holds. It is taken before cmd is
// encoded: what the decoded structure must hold is the format of the assignment, and whether an encoder that
// decides the format itself writes it back into its receiver is not asked.
func heldFormats(cmd smbgen.Cmd) map[string]uint64 {
	m := map[string]uint64{}
	rv := reflect.ValueOf(cmd).Elem()
	for _, f := range smbgen.OwnFields(cmd) {
		if str, ok := stringOf(rv.FieldByName(f.Name)); ok {
			m[f.Name] = str.FieldByName("BufferFormat").Uint()
		}
	}
	return m
}

func stringOf(v reflect.Value) (reflect.Value, bool) {
	switch v.Type().String() {
	case "types.OEM_STRING":
		return v.FieldByName("SMB_STRING"), true
	case "types.SMB_STRING":
		return v, true
	}
	return v, false
}

// ownFieldEqual compares own field name of the encoded structure (a) and the decoded one (b). A string field
// is compared by content and by the format it held when it was assigned (formats), which the decoded field
// must hold - not by what a holds after Marshal; everything else as fieldsEqual does.
func ownFieldEqual(name string, a, b reflect.Value, formats map[string]uint64) bool {
	if as, ok := stringOf(a); ok {
		if f, held := formats[name]; held {
			bs, _ := stringOf(b)
			return bs.FieldByName("BufferFormat").Uint() == f && bytes.Equal(as.FieldByName("Buffer").Bytes(), bs.FieldByName("Buffer").Bytes())
		}
	}
	return fieldsEqual(a, b)
}

// errKind names a failed stage without the error's wording: a reworded message or a different index in
// a panic text must not look like a new defect. Only "returned an error" and "panicked" are told apart.
func errKind(stage string, err error) string {
	if strings.HasPrefix(err.Error(), "panic:") {
		return stage + "-panic"
	}
	return stage + "-error"
}

// sameExported compares two values of one type through their exported fields only, recursively:
// unexported members of a library structure are its internal state, not field values, and a nil
// and an empty slice are the same (empty) value.
func sameExported(a, b reflect.Value) bool {
	if a.Type() != b.Type() {
		return false
	}
	switch a.Kind() {
	case reflect.Struct:
		for i := 0; i < a.NumField(); i++ {
			if a.Type().Field(i).IsExported() && !sameExported(a.Field(i), b.Field(i)) {
				return false
			}
		}
		return true
	case reflect.Slice, reflect.Array:
		if a.Len() != b.Len() {
			return false
		}
		for i := 0; i < a.Len(); i++ {
			if !sameExported(a.Index(i), b.Index(i)) {
				return false
			}
		}
		return true
	case reflect.Ptr, reflect.Interface:
		if a.IsNil() || b.IsNil() {
			return a.IsNil() == b.IsNil()
		}
		return sameExported(a.Elem(), b.Elem())
	case reflect.Map:
		if a.Len() != b.Len() {
			return false
		}
		for _, k := range a.MapKeys() {
			if bv := b.MapIndex(k); !bv.IsValid() || !sameExported(a.MapIndex(k), bv) {
				return false
			}
		}
		return true
	case reflect.Bool:
		return a.Bool() == b.Bool()
	case reflect.Int, reflect.Int8, reflect.Int16, reflect.Int32, reflect.Int64:
		return a.Int() == b.Int()
	case reflect.Uint, reflect.Uint8, reflect.Uint16, reflect.Uint32, reflect.Uint64, reflect.Uintptr:
		return a.Uint() == b.Uint()
	case reflect.Float32, reflect.Float64:
		return a.Float() == b.Float()
	case reflect.Complex64, reflect.Complex128:
		return a.Complex() == b.Complex()
	case reflect.String:
		return a.String() == b.String()
	}
	return false // functions, channels: no such field values in the wire types
}

// fieldsEqual compares one own field of two commands; strings are compared by
// format and content (the Length field is derived), everything else through its exported fields.
// (A command's own string fields go through ownFieldEqual, which takes the format from the assignment
// as it was before encoding; the string case here is left for strings nested in other values.)
func fieldsEqual(a, b reflect.Value) bool {
	switch a.Type().String() {
	case "types.SMB_STRING":
		return a.FieldByName("BufferFormat").Uint() == b.FieldByName("BufferFormat").Uint() && bytes.Equal(a.FieldByName("Buffer").Bytes(), b.FieldByName("Buffer").Bytes())
	case "types.OEM_STRING":
		return fieldsEqual(a.FieldByName("SMB_STRING"), b.FieldByName("SMB_STRING"))
	case "dialects.Dialects":
		x, y := a.FieldByName("Dialects"), b.FieldByName("Dialects")
		if x.Len() != y.Len() {
			return false
		}
		for i := 0; i < x.Len(); i++ {
			if x.Index(i).String() != y.Index(i).String() {
				return false
			}
		}
		return true
	case "types.SMB_RESUME_KEY":
		return a.FieldByName("Reserved").Uint() == b.FieldByName("Reserved").Uint() && sameExported(a.FieldByName("ServerState"), b.FieldByName("ServerState")) && sameExported(a.FieldByName("ClientState"), b.FieldByName("ClientState"))
	case "types.SMB_DIRECTORY_INFORMATION":
		for _, n := range []string{"ResumeKey", "FileAttributes", "LastWriteTime", "LastWriteDate", "FileSize"} {
			if !fieldsEqual(a.FieldByName(n), b.FieldByName(n)) {
				return false
			}
		}
		an := bytes.TrimRight(a.FieldByName("FileName").FieldByName("SMB_STRING").FieldByName("Buffer").Bytes(), " ")
		bn := bytes.TrimRight(b.FieldByName("FileName").FieldByName("SMB_STRING").FieldByName("Buffer").Bytes(), " ")
		return bytes.Equal(an, bn)
	}
	if a.Kind() == reflect.Slice && a.Type().Elem().Kind() == reflect.Struct {
		if a.Len() != b.Len() {
			return false
		}
		for i := 0; i < a.Len(); i++ {
			if !fieldsEqual(a.Index(i), b.Index(i)) {
				return false
			}
		}
		return true
	}
	return sameExported(a, b)
}

func safeMarshal(c smbgen.Cmd) (b []byte, err error) {
	defer func() {
		if r := recover(); r != nil {
			err = fmt.Errorf("panic: %v", r)
		}
	}()
	return c.Marshal()
}

func safeUnmarshal(c smbgen.Cmd, b []byte) (err error) {
	defer func() {
		if r := recover(); r != nil {
			err = fmt.Errorf("panic: %v", r)
		}
	}()
	_, err = c.Unmarshal(b)
	return err
}

// ---- roundtrip + reencode ----------------------------------------------------------------------------

func checkRoundtrip(c cmdCase) []vf.Finding {
	cmd, e, err := build(c)
	if err != nil {
		return []vf.Finding{vf.F("harness", "bad-case", "%v", err)}
	}
	formats := heldFormats(cmd)
	enc, err := safeMarshal(cmd)
	if err != nil {
		return []vf.Finding{vf.F(c.Struct, errKind("marshal", err), "%v", err)}
	}
	dec := smbgen.New(e)
	if err := safeUnmarshal(dec, append([]byte{}, enc...)); err != nil {
		return []vf.Finding{vf.F(c.Struct, errKind("decode", err), "own encoding (%d bytes) rejected: %v", len(enc), err)}
	}
	var fs []vf.Finding
	cv, dv := reflect.ValueOf(cmd).Elem(), reflect.ValueOf(dec).Elem()
	for _, f := range smbgen.OwnFields(cmd) {
		if !ownFieldEqual(f.Name, cv.FieldByName(f.Name), dv.FieldByName(f.Name), formats) {
			got, _ := json.Marshal(dv.FieldByName(f.Name).Interface())
			want, _ := json.Marshal(cv.FieldByName(f.Name).Interface())
			if len(got) > 120 {
				got = got[:120]
			}
			if len(want) > 120 {
				want = want[:120]
			}
			fs = append(fs, vf.F(c.Struct+"."+f.Name, "field-not-preserved", "decoded %s, encoded %s", got, want))
		}
	}
	if len(fs) > 0 {
		return fs
	}
	// re-encoding the decoded structure (fresh accumulators: the C03 finding is stepped around)
	smbgen.ResetAccumulators(dec)
	again, err := safeMarshal(dec)
	if err != nil || !bytes.Equal(again, enc) {
		fs = append(fs, vf.F(c.Struct, "reencoding-decoded-structure-differs", "err %v; %d vs %d bytes", err, len(again), len(enc)))
	}
	return fs
}

// ---- the bytes a command's Marshal returned stay what they were ---------------------------------------------
//
// Several structures (often the same structure with other values) are encoded one after the other; every result
// is kept as returned next to a snapshot of it and decoded only after the last call: it must still be the
// snapshot, and it must still decode to the fields it was encoded from. A structure whose encoding does not
// decode back at once is the round-trip sub-checks' finding and is left out here.

type keptCmds struct {
	Cmds []cmdCase `json:"commands"`
}

func checkKeptCmds(c keptCmds) []vf.Finding {
	type kept struct {
		at        int
		got, snap []byte
	}
	var ks []kept
	for i, cc := range c.Cmds {
		if checkRoundtrip(cc) != nil {
			continue
		}
		cmd, _, err := build(cc)
		if err != nil {
			return []vf.Finding{vf.F("harness", "bad-case", "%v", err)}
		}
		enc, err := safeMarshal(cmd)
		if err != nil {
			continue
		}
		ks = append(ks, kept{i, enc, append([]byte{}, enc...)})
	}
	for _, k := range ks {
		cc := c.Cmds[k.at]
		if !bytes.Equal(k.got, k.snap) {
			d := 0
			for d < len(k.got) && k.got[d] == k.snap[d] {
				d++
			}
			return []vf.Finding{vf.F(cc.Struct, "returned-bytes-changed-by-later-call", "encoding %d of %d (%d bytes) differs from byte %d on after the later Marshal calls: was %x, is %x", k.at+1, len(c.Cmds), len(k.snap), d, k.snap[d:min(len(k.snap), d+12)], k.got[d:min(len(k.got), d+12)])}
		}
	}
	return nil
}

func TestEncodingsKept(t *testing.T) {
	s := vf.Begin(t, P, "encodings-kept")
	names := smbgen.Names()
	per := vf.N(8, 120)
	idx := 0
	vf.Rapid(s, len(names)*per, func(t *rapid.T) keptCmds {
		first := names[(idx/per)%len(names)]
		idx++
		var c keptCmds
		for i, n := 0, rapid.IntRange(2, 4).Draw(t, "commands"); i < n; i++ {
			name := first
			if i > 0 && rapid.IntRange(0, 2).Draw(t, "other") == 0 {
				name = names[rapid.IntRange(0, len(names)-1).Draw(t, "struct")]
			}
			c.Cmds = append(c.Cmds, genCase(t, name, smbgen.Options{MaxBytes: 24}))
		}
		return c
	}, func(c keptCmds) []vf.Finding {
		s.Class("struct:" + c.Cmds[0].Struct)
		return checkKeptCmds(c)
	}, func(c keptCmds) bool { return len(c.Cmds) >= 2 && nontrivialCase(c.Cmds[0]) })
}

func genCase(t *rapid.T, name string, o smbgen.Options) cmdCase {
	e, _ := smbgen.ByName(name)
	cmd := smbgen.New(e)
	smbgen.Fill(t, cmd, o)
	return cmdCase{name, smbgen.Snapshot(cmd)}
}

func nontrivialCase(c cmdCase) bool {
	// every field differs from its zero value is too strict for generated data; require that at
	// least one variable-length or multi-byte field is non-zero
	for _, raw := range c.Fields {
		s := string(raw)
		if s != "0" && s != "null" && s != `""` && s != "[]" && !strings.HasPrefix(s, `{"BufferFormat":`) {
			return true
		}
		if strings.Contains(s, `"Buffer":"`) && !strings.Contains(s, `"Buffer":""`) {
			return true
		}
	}
	return false
}

func TestRoundtrip(t *testing.T) {
	s := vf.Begin(t, P, "roundtrip")
	names := smbgen.Names()
	s.Note("%d structures reachable from the factories", len(names))
	vf.Rapid(s, vf.N(114*60, 114*1500), func(t *rapid.T) cmdCase {
		name := names[rapid.IntRange(0, len(names)-1).Draw(t, "struct")]
		max := 64
		if vf.Thorough() && rapid.IntRange(0, 9).Draw(t, "big") == 0 {
			max = 4096
		}
		return genCase(t, name, smbgen.Options{MaxBytes: max})
	}, func(c cmdCase) []vf.Finding {
		s.Class("struct:" + c.Struct)
		return checkRoundtrip(c)
	}, nontrivialCase)
}

// every structure in turn, a fixed number of assignments each (so that none is starved by the random pick)
//
// After them every structure that has a buffer in its data block gets assignments that give one such buffer a
// length at which a width or sign slip in a length computation shows: 255/256, 32767/32768 and 65000
// (the data block holds at most 65535 bytes; the other buffers of that assignment stay tiny). A buffer
// counted by an 8-bit field stops at 255, one whose length the generator mirrors into a pad at 32000.
// Every (structure, data-block buffer) pair is crossed with the two lengths just past the 8-bit and the
// signed 16-bit boundary (256 and 32768; thorough tier: with all five) deterministically - the pairs are few,
// and a slip in the handling of one buffer's length shows on that buffer only - and a few more
// assignments per structure draw buffer and length.
type everyPlan struct {
	name  string
	field string // "": an ordinary assignment; otherwise the data-block buffer that takes a long length
	n     int    // the length (0: drawn)
}

func longLengths(name, field string) []int {
	lens := []int{255, 256, 32767, 32768, 65000}
	count, mirrored := smbgen.CountFor(name, field)
	if mirrored {
		lens = []int{255, 256, 32000}
	}
	if count != "" {
		e, _ := smbgen.ByName(name)
		if cf, ok := reflect.TypeOf(smbgen.New(e)).Elem().FieldByName(count); ok && smbgen.FixedWidth(cf.Type) == 1 {
			lens = []int{254, 255}
		}
	}
	return lens
}

func TestRoundtripEveryStructure(t *testing.T) {
	s := vf.Begin(t, P, "roundtrip-every-structure")
	names := smbgen.Names()
	drawn := vf.N(2, 24)
	ordinary := vf.N(25, 400)
	dataFields := map[string][]string{}
	nLong := 0
	for _, e := range smbgen.Inventory() {
		dataFields[e.Name] = smbgen.DataByteFields(e)
		nLong += len(dataFields[e.Name])
	}
	if nLong < 40 {
		t.Fatalf("INFRA: only %d data-block buffers found: marking of variable-length fields broken", nLong)
	}
	var plan []everyPlan
	enumerated := 0
	for _, name := range names {
		for i := 0; i < ordinary; i++ {
			plan = append(plan, everyPlan{name: name})
		}
		fs := dataFields[name]
		for _, f := range fs {
			for _, n := range longLengths(name, f) {
				// quick tier: the length just past each boundary (256, 32768; the largest one a mirrored or
				// 8-bit-counted buffer can take); thorough tier: all of them
				if vf.Thorough() || n == 256 || n >= 32000 && n != 65000 && n != 32767 || n == 254 || n == 255 && len(longLengths(name, f)) == 2 {
					plan = append(plan, everyPlan{name, f, n})
					enumerated++
				}
			}
		}
		for i := 0; i < drawn && len(fs) > 0; i++ {
			plan = append(plan, everyPlan{name, fs[i%len(fs)], 0})
		}
	}
	s.Note("%d data-block buffers in %d structures take the long lengths: %d (buffer, length) pairs enumerated, %d more drawn per structure", nLong, len(names), enumerated, drawn)
	idx := 0
	vf.Rapid(s, len(plan), func(t *rapid.T) cmdCase {
		p := plan[idx%len(plan)]
		idx++
		if p.field != "" {
			return genLongCase(t, p.name, p.field, p.n)
		}
		return genCase(t, p.name, smbgen.Options{MaxBytes: 48})
	}, func(c cmdCase) []vf.Finding {
		if l := longest(c); l >= 255 {
			s.Class(fmt.Sprintf("buffer>=%d", map[bool]int{false: 255, true: 32768}[l >= 32768]))
		}
		return checkRoundtrip(c)
	}, nontrivialCase)
}

// genLongCase: a tiny assignment in which buffer field takes n bytes (n == 0: one of its long lengths, drawn).
func genLongCase(t *rapid.T, name, field string, n int) cmdCase {
	e, _ := smbgen.ByName(name)
	cmd := smbgen.New(e)
	smbgen.Fill(t, cmd, smbgen.Options{MaxBytes: 4, MaxElems: 1})
	if n == 0 {
		n = rapid.SampledFrom(longLengths(name, field)).Draw(t, "longLen")
	}
	smbgen.FillBytes(t, cmd, field, n)
	return cmdCase{name, smbgen.Snapshot(cmd)}
}

// longest is the length of the longest byte buffer of a case (base64 in the snapshot: 4 characters per 3 bytes).
func longest(c cmdCase) int {
	m := 0
	for _, raw := range c.Fields {
		if n := len(raw) * 3 / 4; n > m && len(raw) > 0 && (raw[0] == '"' || raw[0] == '{') {
			m = n
		}
	}
	return m
}

// ---- slot locality: one fixed-width field changes only the bytes of its own slot ---------------------------

type slotCase struct {
	Base    cmdCase `json:"base"`
	Field   string  `json:"field"`
	Pattern vf.Hex  `json:"pattern"` // little-endian byte pattern written into the field
}

type slotInfo struct {
	start, width int
}

func analyzeSlot(c slotCase) (info slotInfo, leBytes, got []byte, fs []vf.Finding) {
	e, ok := smbgen.ByName(c.Base.Struct)
	if !ok {
		return info, nil, nil, []vf.Finding{vf.F("harness", "bad-case", "unknown structure %s", c.Base.Struct)}
	}
	subject := c.Base.Struct + "." + c.Field
	sl := smbgen.Mark(e, c.Base.Fields, c.Field, c.Pattern)
	if sl.ProblemKind != "" && sl.ProblemKind != "slot-not-contiguous" {
		return info, sl.LE, nil, []vf.Finding{vf.F(subject, sl.ProblemKind, "%s", sl.Problem)}
	}
	info = slotInfo{sl.Start, sl.Width}
	if sl.ProblemKind == "slot-not-contiguous" {
		fs = append(fs, vf.F(subject, "slot-not-contiguous", "%s", sl.Problem))
	}
	if sl.Width != sl.TypeWidth {
		fs = append(fs, vf.F(subject, "slot-width-differs-from-type-width", "slot [%d,+%d) for a %d-byte type", sl.Start, sl.Width, sl.TypeWidth))
	}
	return info, sl.LE, sl.Got, fs
}

func checkSlot(c slotCase) []vf.Finding {
	_, _, _, fs := analyzeSlot(c)
	return fs
}

// fixedFields lists (struct, field) pairs with a fixed-width type that are not count fields.
func fixedFields() (out [][2]string) {
	for _, e := range smbgen.Inventory() {
		cmd := smbgen.New(e)
		for _, f := range smbgen.OwnFields(cmd) {
			if smbgen.FixedWidth(f.Type) > 0 && !smbgen.IsCountField(e.Name, f.Name) {
				out = append(out, [2]string{e.Name, f.Name})
			}
		}
	}
	return
}

func TestSlotLocality(t *testing.T) {
	s := vf.Begin(t, P, "slot-locality")
	ff := fixedFields()
	s.Note("%d fixed-width fields in %d structures", len(ff), len(smbgen.Names()))
	per := vf.N(4, 60)
	idx := 0
	vf.Rapid(s, len(ff)*per, func(t *rapid.T) slotCase {
		sf := ff[(idx/per)%len(ff)]
		idx++
		return slotCase{genCase(t, sf[0], smbgen.Options{MaxBytes: 16}), sf[1], rapid.SliceOfNDistinct(rapid.Byte(), 32, 32, rapid.ID[byte]).Draw(t, "pattern")}
	}, checkSlot, func(c slotCase) bool { return true })
}

// slots of distinct fields are disjoint and appear in declared order
type orderCase struct {
	Base cmdCase `json:"base"`
}

func checkOrder(c orderCase) []vf.Finding {
	e, ok := smbgen.ByName(c.Base.Struct)
	if !ok {
		return []vf.Finding{vf.F("harness", "bad-case", "unknown structure %s", c.Base.Struct)}
	}
	// fields whose slot is not well defined are left out here: slot-locality reports them
	slots, paramEnd := smbgen.Layout(e, c.Base.Fields)
	var out []vf.Finding
	for i := 1; i < len(slots); i++ {
		a, b := slots[i-1], slots[i]
		if b.Start < a.Start+a.Width {
			kind := "slots-out-of-declared-order"
			if b.Start+b.Width > a.Start && b.Start < a.Start+a.Width {
				kind = "slots-overlap"
			}
			out = append(out, vf.F(c.Base.Struct+"."+b.Name, kind, "%s at [%d,+%d) declared after %s at [%d,+%d)", b.Name, b.Start, b.Width, a.Name, a.Start, a.Width))
			continue
		}
		// adjacent in the declaration and in the same block: no byte between them belongs to nobody
		if b.Chain && smbgen.SameBlock(a.Start, b.Start, paramEnd) && b.Start != a.Start+a.Width+b.Between {
			out = append(out, vf.F(c.Base.Struct+"."+b.Name, "unowned-bytes-between-adjacent-slots", "%s ends at %d, %d bytes of count fields follow, %s starts at %d", a.Name, a.Start+a.Width, b.Between, b.Name, b.Start))
		}
	}
	// The same rule over every field that can be located, not only the markable fixed-width ones: count
	// fields are found through the buffer they describe (two consistent assignments that differ in that
	// buffer's length differ, inside the parameter block, in the count field only) and variable-length
	// fields by marking their content. Two count fields that trade places, or two strings emitted in
	// the wrong order by encoder and decoder alike, round-trip perfectly and show only here.
	located, _ := smbgen.Locate(e, c.Base.Fields)
	locs := located.Locs
	have := map[string]bool{}
	for _, f := range out {
		have[f.Subject+"\x00"+f.Kind] = true
	}
	for i := 1; i < len(locs); i++ {
		a, b := locs[i-1], locs[i]
		if b.Start >= a.Start+a.Width {
			continue
		}
		kind := "slots-out-of-declared-order"
		if b.Start+b.Width > a.Start {
			kind = "slots-overlap"
		}
		if subject := c.Base.Struct + "." + b.Name; !have[subject+"\x00"+kind] {
			have[subject+"\x00"+kind] = true
			out = append(out, vf.F(subject, kind, "%s (%s) at [%d,+%d) declared after %s (%s) at [%d,+%d)", b.Name, b.Class, b.Start, b.Width, a.Name, a.Class, a.Start, a.Width))
		}
	}
	// "Each exactly as wide as its type" where the successor is not a markable fixed-width field: what follows
	// a fixed-width field, a count field or a byte field (with its terminator) in the declaration and in the
	// same block - a count field, a byte buffer, a string behind its format byte (and length) - starts
	// exactly where that field ends; bytes in between belong to no field.
	for _, g := range smbgen.Gaps(e, c.Base.Fields, located) {
		kind := "unowned-bytes-between-adjacent-slots"
		if subject := c.Base.Struct + "." + g.Next.Name; !have[subject+"\x00"+kind] {
			have[subject+"\x00"+kind] = true
			out = append(out, vf.F(subject, kind, "%s (%s) ends at %d, %s (%s) starts at %d behind %d bytes of its own framing", g.Prev.Name, g.Prev.Class, g.PrevEnd, g.Next.Name, g.Next.Class, g.Next.Start, g.Lead))
		}
	}
	return out
}

func TestSlotOrder(t *testing.T) {
	s := vf.Begin(t, P, "slot-order")
	names := smbgen.Names()
	per := vf.N(3, 40)
	idx := 0
	// buffers and lists are never empty here: an empty field has no place that could be compared
	vf.Rapid(s, len(names)*per, func(t *rapid.T) orderCase {
		name := names[(idx/per)%len(names)]
		idx++
		return orderCase{genCase(t, name, smbgen.Options{MaxBytes: 8, MinBytes: 1, MinElems: 1})}
	}, func(c orderCase) []vf.Finding {
		if e, ok := smbgen.ByName(c.Base.Struct); ok {
			l, _ := smbgen.Locate(e, c.Base.Fields)
			for _, l := range l.Locs {
				s.Class("located:" + l.Class)
			}
			for _, sk := range l.Skipped {
				s.Class("not-located:" + sk.Why)
			}
		}
		return checkOrder(c)
	}, func(c orderCase) bool { return len(c.Base.Fields) >= 2 })
}

// ---- the factories reach exactly the structures the package defines -----------------------------------------

// the 114 structures listed when the harness was written (one Go file each in message/commands)
var expected = strings.Fields(`CheckDirectoryRequest CheckDirectoryResponse ClosePrintFileRequest ClosePrintFileResponse CloseRequest CloseResponse CreateDirectoryRequest CreateDirectoryResponse CreateNewRequest CreateNewResponse CreateRequest CreateResponse CreateTemporaryRequest CreateTemporaryResponse DeleteDirectoryRequest DeleteDirectoryResponse DeleteRequest DeleteResponse EchoRequest EchoResponse FindClose2Request FindClose2Response FindCloseRequest FindCloseResponse FindRequest FindResponse FindUniqueRequest FindUniqueResponse FlushRequest FlushResponse IoctlRequest IoctlResponse LockAndReadRequest LockAndReadResponse LockByteRangeRequest LockByteRangeResponse LockingAndxRequest LockingAndxResponse LogoffAndxRequest LogoffAndxResponse NegotiateRequest NegotiateResponse NtCancelRequest NtCreateAndxRequest NtCreateAndxResponse NtRenameRequest NtRenameResponse NtTransactRequest NtTransactResponse NtTransactSecondaryRequest NtTransactSecondaryResponse OpenAndxRequest OpenAndxResponse OpenPrintFileRequest OpenPrintFileResponse OpenRequest OpenResponse ProcessExitRequest ProcessExitResponse QueryInformation2Request QueryInformation2Response QueryInformationDiskRequest QueryInformationDiskResponse QueryInformationRequest QueryInformationResponse ReadAndxRequest ReadAndxResponse ReadMpxRequest ReadMpxResponse ReadRawRequest ReadRequest ReadResponse RenameRequest RenameResponse SearchRequest SearchResponse SeekRequest SeekResponse SessionSetupAndxRequest SessionSetupAndxResponse SetInformation2Request SetInformation2Response SetInformationRequest SetInformationResponse Transaction2Request Transaction2Response Transaction2SecondaryRequest Transaction2SecondaryResponse TransactionRequest TransactionResponse TransactionSecondaryRequest TransactionSecondaryResponse TreeConnectAndxRequest TreeConnectAndxResponse TreeConnectRequest TreeConnectResponse TreeDisconnectRequest TreeDisconnectResponse UnlockByteRangeRequest UnlockByteRangeResponse WriteAndCloseRequest WriteAndCloseResponse WriteAndUnlockRequest WriteAndUnlockResponse WriteAndxRequest WriteAndxResponse WriteMpxRequest WriteMpxResponse WritePrintFileRequest WritePrintFileResponse WriteRawFinal WriteRawRequest WriteRequest WriteResponse`)

func TestFactoryInventory(t *testing.T) {
	s := vf.Begin(t, P, "factory-inventory")
	s.SetExhaustive()
	type ic struct {
		Struct string `json:"struct"`
	}
	have := map[string]bool{}
	for _, n := range smbgen.Names() {
		have[n] = true
	}
	sort.Strings(expected)
	vf.Enum(s, func(yield func(ic)) {
		for _, n := range expected {
			yield(ic{n})
		}
	}, func(c ic) []vf.Finding {
		if !have[c.Struct] {
			return []vf.Finding{vf.F(c.Struct, "structure-no-longer-reachable-from-factories", "")}
		}
		return nil
	}, nil)
}

// ---- offsets and pads as MS-CIFS means them (not as the decoders use them) -------------------------------
//
// Offset fields (ParameterOffset, DataOffset) are offsets from the start of the SMB header, not lengths,
// so the property lets them take any value; pads are 0..3 alignment bytes. Ten transaction-style decoders
// use the offset as the length of the preceding pad and two decoders derive a pad length from another
// buffer; the other sub-checks step around that (offset := len(pad)). This sub-check does not.

type offsetCase struct {
	Base   cmdCase `json:"base"`
	Field  string  `json:"offset_field"`
	Offset uint32  `json:"offset_value"`
}

func checkOffsets(c offsetCase) []vf.Finding {
	cmd, e, err := build(c.Base)
	if err != nil {
		return []vf.Finding{vf.F("harness", "bad-case", "%v", err)}
	}
	if c.Field != "" {
		reflect.ValueOf(cmd).Elem().FieldByName(c.Field).SetUint(uint64(c.Offset))
	}
	formats := heldFormats(cmd)
	enc, err := safeMarshal(cmd)
	if err != nil {
		return []vf.Finding{vf.F(c.Base.Struct, errKind("marshal", err), "%v", err)}
	}
	dec := smbgen.New(e)
	kind := "offset-field-used-as-pad-length"
	subject := c.Base.Struct + "." + c.Field
	if c.Field == "" {
		kind = "pad-length-derived-from-another-buffer"
		subject = c.Base.Struct + ".Pad"
	}
	if err := safeUnmarshal(dec, append([]byte{}, enc...)); err != nil {
		return []vf.Finding{vf.F(subject, kind, "own encoding rejected: %v", err)}
	}
	cv, dv := reflect.ValueOf(cmd).Elem(), reflect.ValueOf(dec).Elem()
	for _, f := range smbgen.OwnFields(cmd) {
		if !ownFieldEqual(f.Name, cv.FieldByName(f.Name), dv.FieldByName(f.Name), formats) {
			return []vf.Finding{vf.F(subject, kind, "field %s not preserved", f.Name)}
		}
	}
	return nil
}

func TestOffsetsAndPadsPerSpec(t *testing.T) {
	s := vf.Begin(t, P, "offsets-and-pads-per-spec")
	type target struct{ name, field string }
	var targets []target
	for _, n := range smbgen.Names() {
		for _, r := range smbgen.Relations[n] {
			if r.Pad {
				targets = append(targets, target{n, r.Count})
			}
		}
		for _, r := range smbgen.PadRules[n] {
			if r.SameAs != "" || r.EvenOf != "" {
				targets = append(targets, target{n, ""})
			}
		}
	}
	per := vf.N(10, 200)
	idx := 0
	vf.Rapid(s, len(targets)*per, func(t *rapid.T) offsetCase {
		tg := targets[(idx/per)%len(targets)]
		idx++
		if tg.field == "" {
			smbgen.SpecPads = true
			defer func() { smbgen.SpecPads = false }()
			c := genCase(t, tg.name, smbgen.Options{MaxBytes: 12})
			return offsetCase{Base: c}
		}
		c := genCase(t, tg.name, smbgen.Options{MaxBytes: 12})
		return offsetCase{c, tg.field, uint32(rapid.IntRange(33, 4000).Draw(t, "offset"))}
	}, checkOffsets, func(c offsetCase) bool { return true })
}

// ---- the AndX block is part of every AndX structure's wire form --------------------------------------------
//
// "AndX words first": the three AndX fields (command, reserved, offset) are carried by the structure
// through GetAndX/SetAndX, not as own fields, so the generic round trip above never sees them. Here
// they are given generated values, must come back from a fresh structure, and each must own exactly
// its bytes of the encoding (command: 1, reserved: 1, offset: 2, in that order after the word count).

type andxCase struct {
	Base     cmdCase `json:"base"`
	Command  uint8   `json:"andx_command"`
	Reserved uint8   `json:"andx_reserved"`
	Offset   uint16  `json:"andx_offset"`
}

func encodeWithAndX(c andxCase, cmdv, res uint8, off uint16) ([]byte, smbgen.Entry, error) {
	cmd, e, err := build(c.Base)
	if err != nil {
		return nil, e, err
	}
	cmd.SetAndX(&andx.AndX{AndXCommand: codes.CommandCode(cmdv), AndXReserved: res, AndXOffset: off})
	enc, err := safeMarshal(cmd)
	return enc, e, err
}

func checkAndXRoundtrip(c andxCase) []vf.Finding {
	enc, e, err := encodeWithAndX(c, c.Command, c.Reserved, c.Offset)
	if err != nil {
		return []vf.Finding{vf.F(c.Base.Struct, errKind("marshal", err), "%v", err)}
	}
	dec := smbgen.New(e)
	if err := safeUnmarshal(dec, append([]byte{}, enc...)); err != nil {
		return []vf.Finding{vf.F(c.Base.Struct, errKind("decode", err), "own encoding (%d bytes) rejected: %v", len(enc), err)}
	}
	var fs []vf.Finding
	a := dec.GetAndX()
	if a == nil {
		return []vf.Finding{vf.F(c.Base.Struct+".AndX", "field-not-preserved", "decoded structure has no AndX block")}
	}
	if uint8(a.AndXCommand) != c.Command {
		fs = append(fs, vf.F(c.Base.Struct+".AndX.AndXCommand", "field-not-preserved", "decoded %#x, encoded %#x", uint8(a.AndXCommand), c.Command))
	}
	if a.AndXReserved != c.Reserved {
		fs = append(fs, vf.F(c.Base.Struct+".AndX.AndXReserved", "field-not-preserved", "decoded %#x, encoded %#x", a.AndXReserved, c.Reserved))
	}
	if a.AndXOffset != c.Offset {
		fs = append(fs, vf.F(c.Base.Struct+".AndX.AndXOffset", "field-not-preserved", "decoded %#x, encoded %#x", a.AndXOffset, c.Offset))
	}
	// slot locality by marking: complement one AndX field, diff the encodings
	for _, m := range []struct {
		name       string
		cmd, res   uint8
		off        uint16
		start, end int
	}{
		{"AndXCommand", ^c.Command, c.Reserved, c.Offset, 1, 2},
		{"AndXReserved", c.Command, ^c.Reserved, c.Offset, 2, 3},
		{"AndXOffset", c.Command, c.Reserved, ^c.Offset, 3, 5},
	} {
		enc2, _, err := encodeWithAndX(c, m.cmd, m.res, m.off)
		if err != nil || len(enc2) != len(enc) {
			fs = append(fs, vf.F(c.Base.Struct+".AndX."+m.name, "fixed-width-field-changes-message-length", "err %v, %d vs %d bytes", err, len(enc2), len(enc)))
			continue
		}
		var diff []int
		for i := range enc {
			if enc[i] != enc2[i] {
				diff = append(diff, i)
			}
		}
		if len(diff) != m.end-m.start || diff[0] != m.start || diff[len(diff)-1] != m.end-1 {
			kind := "bytes-outside-own-slot-change"
			if len(diff) == 0 {
				kind = "field-not-emitted"
			}
			fs = append(fs, vf.F(c.Base.Struct+".AndX."+m.name, kind, "complementing the field changes bytes %v, its slot is [%d,%d)", diff, m.start, m.end))
		}
	}
	return fs
}

func TestAndXRoundtrip(t *testing.T) {
	s := vf.Begin(t, P, "andx-roundtrip")
	var names []string
	for _, e := range smbgen.Inventory() {
		if e.AndX {
			names = append(names, e.Name)
		}
	}
	s.Note("%d AndX structures", len(names))
	per := vf.N(40, 600)
	idx := 0
	vf.Rapid(s, len(names)*per, func(t *rapid.T) andxCase {
		name := names[(idx/per)%len(names)]
		idx++
		c := andxCase{genCase(t, name, smbgen.Options{MaxBytes: 16}), rapid.Byte().Draw(t, "andxCommand"), rapid.Byte().Draw(t, "andxReserved"), rapid.Uint16().Draw(t, "andxOffset")}
		if rapid.IntRange(0, 3).Draw(t, "special") == 0 {
			// the values of a block that was never filled in or that ends a chain, and the extremes: explicit zeros
			// are field values like any others (command 0x00 is SMB_COM_CREATE_DIRECTORY)
			c.Command = rapid.SampledFrom([]byte{0x00, 0x00, 0x00, 0x01, 0xFE, 0xFF, 0xFF}).Draw(t, "andxCommandSpecial")
			c.Reserved = rapid.SampledFrom([]byte{0x00, 0x00, 0x01, 0xFF}).Draw(t, "andxReservedSpecial")
			c.Offset = rapid.SampledFrom([]uint16{0, 0, 0, 1, 0x00FF, 0x0100, 0x8000, 0xFFFF}).Draw(t, "andxOffsetSpecial")
		}
		return c
	}, checkAndXRoundtrip, func(c andxCase) bool { return c.Reserved != 0 && c.Offset != 0 || c.Command == 0 || c.Command == 0xFF })
}

// ---- lists of 255, 256 and 300 elements ------------------------------------------------------------------------
//
// The generated lists of structures or words hold a handful of elements. Their counts are USHORTs (UCHARs in
// two places): a decoder that runs its loop on the low byte of the count, or an encoder that truncates it, shows
// only from 256 elements on. Every (structure, list field) pair is crossed with the lengths on both sides of that
// boundary (254/255 under an 8-bit count; a list of words inside the parameter block stops where the word count
// reaches 255) and must round-trip like any other assignment. A structure that does not round-trip even with one
// element in the list is left to the round-trip sub-checks and not judged here.

type listCase struct {
	Base  cmdCase `json:"base"`
	Field string  `json:"list_field"`
	Len   int     `json:"elements"`
}

func withListLength(c cmdCase, field string, n int) (cmdCase, error) {
	cmd, _, err := build(c)
	if err != nil {
		return c, err
	}
	l := reflect.ValueOf(cmd).Elem().FieldByName(field)
	if !l.IsValid() || l.Kind() != reflect.Slice || l.Len() < n {
		return c, fmt.Errorf("no list %s of at least %d elements", field, n)
	}
	l.Set(l.Slice(0, n))
	smbgen.ApplyRelations(cmd)
	return cmdCase{c.Struct, smbgen.Snapshot(cmd)}, nil
}

func checkLongList(c listCase) (fs []vf.Finding, status string) {
	short, err := withListLength(c.Base, c.Field, 1)
	if err != nil {
		return []vf.Finding{vf.F("harness", "bad-case", "%v", err)}, "bad-case"
	}
	if len(checkRoundtrip(short)) > 0 {
		return nil, "not-judged:does-not-round-trip-with-one-element"
	}
	return checkRoundtrip(c.Base), "judged"
}

// listLengths: the element counts a list field is tried at, found from the structure itself: whether one more
// element grows the parameter block (then the word count bounds the list) and how wide the count field is.
func listLengths(e smbgen.Entry, field string) []int {
	enc := func(n int) []byte {
		cmd := smbgen.NewValid(e)
		l := reflect.ValueOf(cmd).Elem().FieldByName(field)
		l.Set(reflect.MakeSlice(l.Type(), n, n))
		smbgen.Normalize(l)
		smbgen.ApplyRelations(cmd)
		b, err := safeMarshal(cmd)
		if err != nil || len(b) == 0 {
			return nil
		}
		return b
	}
	e0, e1 := enc(0), enc(1)
	if e0 == nil || e1 == nil {
		return nil
	}
	lens := []int{255, 256, 300}
	if count, _ := smbgen.CountFor(e.Name, field); count != "" {
		if cf, ok := reflect.TypeOf(smbgen.New(e)).Elem().FieldByName(count); ok && smbgen.FixedWidth(cf.Type) == 1 {
			lens = []int{254, 255}
		}
	}
	if per := int(e1[0]) - int(e0[0]); per > 0 {
		// in the parameter block: at most 255 words in all
		room := (255 - int(e0[0])) / per
		var out []int
		for _, n := range append([]int{room / 2, room - 1, room}, lens...) {
			if n >= 1 && n <= room && n <= lens[len(lens)-1] {
				out = append(out, n)
			}
		}
		return out
	}
	return lens
}

func TestRoundtripLongLists(t *testing.T) {
	s := vf.Begin(t, P, "roundtrip-long-lists")
	type target struct {
		e     smbgen.Entry
		field string
		n     int
	}
	var targets []target
	var named []string
	for _, e := range smbgen.Inventory() {
		for _, f := range smbgen.ListFields(smbgen.New(e)) {
			seen := map[int]bool{}
			for _, n := range listLengths(e, f) {
				if !seen[n] {
					seen[n] = true
					targets = append(targets, target{e, f, n})
					named = append(named, fmt.Sprintf("%s.%s x %d", e.Name, f, n))
				}
			}
		}
	}
	s.Note("%d (list field, length) pairs: %v", len(targets), named)
	if len(targets) < 6 {
		t.Fatalf("INFRA: only %d list fields found", len(targets))
	}
	per := vf.N(2, 12)
	idx := 0
	vf.Rapid(s, len(targets)*per, func(t *rapid.T) listCase {
		tg := targets[(idx/per)%len(targets)]
		idx++
		cmd := smbgen.New(tg.e)
		smbgen.Fill(t, cmd, smbgen.Options{MaxBytes: 6, MaxElems: 1})
		smbgen.FillList(t, cmd, tg.field, tg.n, smbgen.Options{MaxBytes: 6})
		return listCase{cmdCase{tg.e.Name, smbgen.Snapshot(cmd)}, tg.field, tg.n}
	}, func(c listCase) []vf.Finding {
		fs, st := checkLongList(c)
		s.Class(st)
		return fs
	}, func(c listCase) bool { return c.Len >= 128 })
}

// ---- NegotiateResponse.DomainName / ServerName on the assignments that do round-trip --------------------------------
//
// Both fields carry a recorded finding in the two round-trip sub-checks (signature: field, field-not-preserved): the
// encoder emits DomainName as it is and never emits ServerName, the decoder cuts DomainName at the first aligned
// 00 00 unit and gives the rest to ServerName. A signature covers every assignment, so the recorded finding would
// also absorb a new defect on the assignments that work today - and these two fields are the only users of the
// UTF-16 reader in commands/utils. Those assignments get their own sub-check, in which nothing is listed: DomainName
// a whole number of non-zero 16-bit units (a UTF-16 string without its terminator), ServerName empty, everything
// else generated. They must round-trip like any other assignment.

func TestNegotiateResponseNames(t *testing.T) {
	s := vf.Begin(t, P, "negotiate-response-names")
	e, ok := smbgen.ByName("NegotiateResponse")
	if !ok {
		t.Fatalf("INFRA: NegotiateResponse is not reachable from the factories")
	}
	vf.Rapid(s, vf.N(600, 10000), func(t *rapid.T) cmdCase {
		cmd := smbgen.New(e)
		smbgen.Fill(t, cmd, smbgen.Options{MaxBytes: 16})
		units := rapid.SampledFrom([]int{0, 1, 1, 2, 2, 3, 5, 8, 15, 40, 127, 128, 300}).Draw(t, "units")
		name := make([]byte, 0, 2*units)
		for i := 0; i < units; i++ {
			u := uint16(rapid.IntRange(1, 0xFFFF).Draw(t, "unit"))
			if rapid.Bool().Draw(t, "ascii") {
				u = uint16(rapid.IntRange(0x20, 0x7E).Draw(t, "char"))
			}
			name = append(name, byte(u), byte(u>>8))
		}
		rv := reflect.ValueOf(cmd).Elem()
		rv.FieldByName("DomainName").SetBytes(name)
		rv.FieldByName("ServerName").SetBytes([]byte{})
		smbgen.ApplyRelations(cmd)
		return cmdCase{e.Name, smbgen.Snapshot(cmd)}
	}, func(c cmdCase) []vf.Finding {
		cmd, _, err := build(c)
		if err != nil {
			return []vf.Finding{vf.F("harness", "bad-case", "%v", err)}
		}
		s.Class(fmt.Sprintf("domain-name-units:%s", map[bool]string{false: "1..", true: "0"}[reflect.ValueOf(cmd).Elem().FieldByName("DomainName").Len() == 0]))
		return checkRoundtrip(c)
	}, func(c cmdCase) bool {
		cmd, _, err := build(c)
		return err == nil && reflect.ValueOf(cmd).Elem().FieldByName("DomainName").Len() > 0
	})
}
