// Package vf is the shared machinery of the verification harness: sub-check
// bookkeeping (evaluations, distinct non-trivial cases, classes, samples),
// failure signatures and the known-findings register, replay files, and the
// glue between rapid / exhaustive enumerators and those.
//
// A sub-check is a Go test function. It describes one executable oracle over a
// serialisable case type C: a generator (rapid or an enumerator) and a pure
// function check(C) []Finding. The same check function is used when a saved
// replay file is re-executed, bypassing the generator.
package vf

import (
	"encoding/binary"
	"encoding/hex"
	"encoding/json"
	"flag"
	"fmt"
	"hash/fnv"
	"os"
	"path/filepath"
	"regexp"
	"runtime"
	"runtime/debug"
	"sort"
	"strconv"
	"strings"
	"sync"
	"syscall"
	"testing"
	"time"

	"pgregory.net/rapid"
)

// Runaway recursion in a decoder ends in the runtime's fatal "goroutine stack exceeds N-byte limit".
// With the default 1 GB limit that takes minutes; no decoder here needs more than a few KB of stack,
// so the limit is lowered and the death (attributed by the driver's trace re-run) arrives in seconds.
func init() { debug.SetMaxStack(64 << 20) }

// Hex is a byte slice that is rendered as a hex string in JSON (replay files,
// samples) so that cases are readable.
type Hex []byte

func (h Hex) MarshalJSON() ([]byte, error) { return json.Marshal(hex.EncodeToString(h)) }
func (h *Hex) UnmarshalJSON(b []byte) error {
	var s string
	if err := json.Unmarshal(b, &s); err != nil {
		return err
	}
	d, err := hex.DecodeString(s)
	if err != nil {
		return err
	}
	*h = d
	return nil
}

// Finding is one failed expectation. (property, check, Subject, Kind) is the
// signature that is matched against known_findings.json.
type Finding struct {
	Subject string `json:"subject"`
	Kind    string `json:"kind"`
	Msg     string `json:"msg"`
}

func F(subject, kind, format string, a ...any) Finding {
	return Finding{Subject: subject, Kind: kind, Msg: fmt.Sprintf(format, a...)}
}

type knownEntry struct {
	ID       string `json:"id"`
	Property string `json:"property"`
	Check    string `json:"check"`
	Subject  string `json:"subject"`
	Kind     string `json:"kind"`
	Status   string `json:"status"`
	Group    string `json:"group"`
	What     string `json:"what"`
}

type knownFile struct {
	Version  int          `json:"version"`
	Findings []knownEntry `json:"findings"`
}

var (
	knownOnce sync.Once
	known     []knownEntry
)

func Root() string {
	if r := os.Getenv("VERIF_ROOT"); r != "" {
		return r
	}
	return "/verif"
}

func loadKnown() {
	knownOnce.Do(func() {
		b, err := os.ReadFile(filepath.Join(Root(), "known_findings.json"))
		if err != nil {
			return
		}
		var kf knownFile
		if err := json.Unmarshal(b, &kf); err != nil {
			panic("known_findings.json: " + err.Error())
		}
		for _, e := range kf.Findings {
			if e.Status == "known" {
				known = append(known, e)
			}
		}
	})
}

func matchKnown(prop, check string, f Finding) *knownEntry {
	loadKnown()
	for i := range known {
		e := &known[i]
		if e.Property != prop || e.Check != check || e.Kind != f.Kind {
			continue
		}
		if e.Subject == f.Subject {
			return e
		}
		if strings.HasSuffix(e.Subject, ".*") && strings.HasPrefix(f.Subject, strings.TrimSuffix(e.Subject, "*")) {
			return e
		}
		if e.Subject == "*" {
			return e
		}
	}
	return nil
}

// IsKnown lets a property function ask whether a signature is a listed
// finding, so that it can step around it by construction.
func IsKnown(prop, check, subject, kind string) bool {
	return matchKnown(prop, check, Finding{Subject: subject, Kind: kind}) != nil
}

// ---------------------------------------------------------------------------

func Tier() string {
	if t := os.Getenv("VERIF_TIER"); t == "thorough" {
		return "thorough"
	}
	return "quick"
}

func Thorough() bool { return Tier() == "thorough" }

// N picks a case count by tier. The thorough figure written at a call site is the per-shard base;
// it is multiplied by VERIF_THOROUGH_SCALE (default 4) so that the depth of the whole thorough tier
// can be raised or lowered in one place without touching the sub-checks.
func N(quick, thorough int) int {
	if Thorough() {
		k := 4
		if v, err := strconv.Atoi(os.Getenv("VERIF_THOROUGH_SCALE")); err == nil && v >= 1 && v <= 1000 {
			k = v
		}
		return thorough * k
	}
	return quick
}

// Size picks a size/depth/step parameter by tier (not scaled: it bounds a space, it is not a count).
func Size(quick, thorough int) int {
	if Thorough() {
		return thorough
	}
	return quick
}

func Seed() uint64 {
	s, _ := strconv.ParseUint(os.Getenv("VERIF_SEED"), 10, 64)
	if s == 0 {
		s, _ = strconv.ParseUint(strings.TrimPrefix(os.Getenv("VERIF_SEED"), "-"), 10, 64)
	}
	return s
}

// Shard returns (index, count) of this process among the processes that run
// the same sub-check (thorough tier).
func Shard() (int, int) {
	p := strings.Split(os.Getenv("VERIF_SHARD"), "/")
	if len(p) != 2 {
		return 0, 1
	}
	i, _ := strconv.Atoi(p[0])
	n, _ := strconv.Atoi(p[1])
	if n < 1 || i < 0 || i >= n {
		return 0, 1
	}
	return i, n
}

func runDir() string {
	d := os.Getenv("VERIF_RUN_DIR")
	if d == "" {
		d = filepath.Join(os.TempDir(), "verif-run")
	}
	os.MkdirAll(d, 0o755)
	return d
}

// Sub is the bookkeeping of one sub-check in one process.
type Sub struct {
	Prop, Name, Test string
	t                *testing.T
	mu               sync.Mutex
	evals            int64
	nontrivial       map[uint64]struct{}
	ntCounted        int64 // distinct-by-construction counter (enumerators)
	classes          map[string]int64
	samples          []any
	ntSeen           int64
	knownHits        map[string]int64
	knownExample     map[string]string
	stepped          int64
	exhaustive       bool
	fails            []failRec
	failK            int
	start            time.Time
	notes            []string
	replayed         bool
	discovered       map[string]string
}

type failRec struct {
	Finding Finding `json:"finding"`
	File    string  `json:"file"`
}

const maxDistinct = 3_000_000

// Begin starts a sub-check. The fragment is written when the test ends.
func Begin(t *testing.T, prop, name string) *Sub {
	s := &Sub{Prop: prop, Name: name, Test: t.Name(), t: t,
		nontrivial: map[uint64]struct{}{}, classes: map[string]int64{},
		knownHits: map[string]int64{}, knownExample: map[string]string{}, start: time.Now()}
	t.Cleanup(s.flush)
	return s
}

func (s *Sub) SetExhaustive() { s.exhaustive = true }
func (s *Sub) Note(format string, a ...any) {
	s.mu.Lock()
	s.notes = append(s.notes, fmt.Sprintf(format, a...))
	s.mu.Unlock()
}

func (s *Sub) Class(labels ...string) {
	s.mu.Lock()
	for _, l := range labels {
		s.classes[l]++
	}
	s.mu.Unlock()
}

// Count adds n to a class counter (e.g. the number of single-bit flips tried
// inside one generated case).
func (s *Sub) Count(label string, n int64) {
	s.mu.Lock()
	s.classes[label] += n
	s.mu.Unlock()
}

// Stepped counts a case in which a listed defect was stepped around by
// construction.
func (s *Sub) Stepped() {
	s.mu.Lock()
	s.stepped++
	s.mu.Unlock()
}

func hashJSON(c any) (uint64, []byte) {
	b, err := json.Marshal(c)
	if err != nil {
		b = []byte(fmt.Sprintf("%#v", c))
	}
	h := fnv.New64a()
	h.Write(b)
	return h.Sum64(), b
}

// Eval records one executed case. Non-trivial cases are hashed (canonical JSON)
// into the distinct set; a few are kept as samples.
func (s *Sub) Eval(c any, nontrivial bool) {
	s.mu.Lock()
	defer s.mu.Unlock()
	s.evals++
	if !nontrivial {
		if len(s.samples) == 0 {
			s.samples = append(s.samples, sampleOf(c))
		}
		return
	}
	h, _ := hashJSON(c)
	if _, ok := s.nontrivial[h]; !ok && len(s.nontrivial) < maxDistinct {
		s.nontrivial[h] = struct{}{}
	}
	s.ntSeen++
	// samples: spread over the run (1st, 2nd, 4th, 8th … non-trivial case)
	if len(s.samples) < 8 && (s.ntSeen&(s.ntSeen-1)) == 0 {
		s.samples = append(s.samples, sampleOf(c))
	}
}

// EvalDistinct records an enumerated case that is distinct by construction
// (the enumerator never repeats a case), without hashing it.
func (s *Sub) EvalDistinct(nontrivial bool, sample func() any) {
	s.mu.Lock()
	defer s.mu.Unlock()
	s.evals++
	if nontrivial {
		s.ntCounted++
		s.ntSeen++
		if len(s.samples) < 8 && (s.ntSeen&(s.ntSeen-1)) == 0 && sample != nil {
			s.samples = append(s.samples, sampleOf(sample()))
		}
	}
}

func sampleOf(c any) any {
	b, err := json.Marshal(c)
	if err != nil {
		return fmt.Sprintf("%#v", c)
	}
	if len(b) > 1500 {
		return string(b[:1500]) + "…(truncated)"
	}
	return json.RawMessage(b)
}

// Report classifies the findings of one case. Listed findings are counted and
// dropped; for unlisted ones a fail file with the case is written and they are
// returned (the caller then fails the rapid property so that it shrinks).
func (s *Sub) Report(c any, fs []Finding) []Finding {
	if len(fs) == 0 {
		return nil
	}
	var un []Finding
	s.mu.Lock()
	defer s.mu.Unlock()
	if os.Getenv("VERIF_DISCOVER") != "" {
		// triage aid (never used by the registered commands): collect every signature and keep going
		if s.discovered == nil {
			s.discovered = map[string]string{}
		}
		for _, f := range fs {
			k := f.Subject + "\t" + f.Kind
			if _, ok := s.discovered[k]; !ok {
				s.discovered[k] = f.Msg
			}
		}
		return nil
	}
	for _, f := range fs {
		if e := matchKnown(s.Prop, s.Name, f); e != nil {
			s.knownHits[e.ID]++
			if _, ok := s.knownExample[e.ID]; !ok {
				s.knownExample[e.ID] = f.Subject + ": " + f.Msg
			}
			continue
		}
		un = append(un, f)
	}
	if len(un) == 0 {
		return nil
	}
	s.failK++
	si, _ := Shard()
	file := filepath.Join(runDir(), fmt.Sprintf("fail-%s-%d-%06d.json", sanitize(s.Name), si, s.failK))
	_, cb := hashJSON(c)
	rec := map[string]any{
		"property": s.Prop, "check": s.Name, "test": s.Test, "package": s.Prop,
		"findings": un, "case": json.RawMessage(cb), "seed": Seed(), "tier": Tier(),
	}
	b, _ := json.MarshalIndent(rec, "", " ")
	os.WriteFile(file, b, 0o644)
	// remember only the latest fail per signature: rapid shrinks, so the last
	// one written for a signature is the minimal reproduction.
	for _, f := range un {
		replaced := false
		for i := range s.fails {
			if s.fails[i].Finding.Subject == f.Subject && s.fails[i].Finding.Kind == f.Kind {
				s.fails[i] = failRec{f, file}
				replaced = true
			}
		}
		if !replaced {
			s.fails = append(s.fails, failRec{f, file})
		}
	}
	return un
}

var sanRe = regexp.MustCompile(`[^A-Za-z0-9_.-]+`)

func sanitize(s string) string { return sanRe.ReplaceAllString(s, "_") }

func (s *Sub) flush() {
	s.mu.Lock()
	defer s.mu.Unlock()
	si, sn := Shard()
	hs := make([]uint64, 0, len(s.nontrivial))
	for h := range s.nontrivial {
		hs = append(hs, h)
	}
	sort.Slice(hs, func(i, j int) bool { return hs[i] < hs[j] })
	hb := make([]byte, 8*len(hs))
	for i, h := range hs {
		binary.LittleEndian.PutUint64(hb[8*i:], h)
	}
	base := fmt.Sprintf("%s-%d", sanitize(s.Name), si)
	os.WriteFile(filepath.Join(runDir(), "hash-"+base+".bin"), hb, 0o644)
	frag := map[string]any{
		"property": s.Prop, "check": s.Name, "test": s.Test, "shard": si, "shards": sn,
		"evaluations": s.evals, "nontrivial_hashed": len(hs), "nontrivial_counted": s.ntCounted,
		"classes": s.classes, "samples": s.samples, "known_hits": s.knownHits,
		"known_examples": s.knownExample, "stepped_around": s.stepped,
		"exhaustive": s.exhaustive, "failures": s.fails, "notes": s.notes,
		"wall_s": time.Since(s.start).Seconds(), "test_failed": s.t.Failed(),
		"replayed": s.replayed, "skipped": s.t.Skipped(), "discovered": s.discovered,
	}
	b, _ := json.MarshalIndent(frag, "", " ")
	os.WriteFile(filepath.Join(runDir(), "frag-"+base+".json"), b, 0o644)
}

// ---------------------------------------------------------------------------
// panic capture

var digitsRe = regexp.MustCompile(`[0-9]+`)
var hexAddrRe = regexp.MustCompile(`0x[0-9a-fA-F]+`)

// PanicInfo normalises a recovered panic into (site, message class). The site
// is the innermost function of the library under test on the stack, without
// line numbers, so that the signature survives unrelated edits.
func PanicInfo(r any, stack []byte) (site, class string) {
	msg := fmt.Sprint(r)
	msg = hexAddrRe.ReplaceAllString(msg, "0xN")
	msg = digitsRe.ReplaceAllString(msg, "N")
	if len(msg) > 80 {
		msg = msg[:80]
	}
	class = msg
	site = "?"
	lines := strings.Split(string(stack), "\n")
	for _, l := range lines {
		if strings.HasPrefix(l, "\t") || !strings.Contains(l, "TheManticoreProject/Manticore/") {
			continue
		}
		// e.g. github.com/TheManticoreProject/Manticore/crypto/md4.(*MD4).Sum(...)
		l = strings.TrimPrefix(l, "github.com/TheManticoreProject/Manticore/")
		if i := strings.LastIndex(l, "("); i > 0 {
			l = l[:i]
		}
		site = l
		break
	}
	return
}

// Safe runs fn and converts a panic into a Finding (kind panic:<site>:<class>).
func Safe(subject string, fn func() []Finding) (fs []Finding) {
	defer func() {
		if r := recover(); r != nil {
			buf := make([]byte, 1<<16)
			buf = buf[:runtime.Stack(buf, false)]
			site, class := PanicInfo(r, buf)
			fs = append(fs, Finding{Subject: subject, Kind: "panic:" + site, Msg: class})
		}
	}()
	return fn()
}

// ---------------------------------------------------------------------------
// replay

type replayFile struct {
	Property string          `json:"property"`
	Check    string          `json:"check"`
	Test     string          `json:"test"`
	Case     json.RawMessage `json:"case"`
}

// Replaying reports whether this process replays one saved case (VERIF_REPLAY) instead of generating.
func Replaying() bool { return os.Getenv("VERIF_REPLAY") != "" }

func replayCase(name string) (json.RawMessage, bool, bool) {
	p := os.Getenv("VERIF_REPLAY")
	if p == "" {
		return nil, false, false
	}
	b, err := os.ReadFile(p)
	if err != nil {
		panic(err)
	}
	var rf replayFile
	if err := json.Unmarshal(b, &rf); err != nil {
		panic(err)
	}
	return rf.Case, true, rf.Check == name
}

func runReplay[C any](s *Sub, chk func(C) []Finding) bool {
	raw, replaying, mine := replayCase(s.Name)
	if !replaying {
		return false
	}
	if !mine {
		s.t.Skip("replay: other sub-check")
		return true
	}
	if len(raw) == 0 || string(raw) == "null" {
		return false // a whole-sub-check replay (e.g. a data-race report): run it normally
	}
	var c C
	if err := json.Unmarshal(raw, &c); err != nil {
		s.t.Fatalf("replay: cannot decode case: %v", err)
	}
	s.replayed = true
	fs := Safe("panic", func() []Finding { return chk(c) })
	s.Eval(c, true)
	un := s.Report(c, fs)
	for _, f := range fs {
		fmt.Fprintf(os.Stderr, "replay finding: %s / %s: %s\n", f.Subject, f.Kind, f.Msg)
	}
	if len(un) > 0 {
		s.t.Fatalf("replay reproduces %d unlisted finding(s)", len(un))
	}
	return true
}

// ---------------------------------------------------------------------------
// trace mode: when a test process died without a verdict (stack exhaustion,
// runtime fatal error, out of memory) the driver re-runs it with VERIF_TRACE=1;
// each case is persisted before it is executed, so the last persisted case is
// the one that killed the process and becomes the replay file.

var tracing = os.Getenv("VERIF_TRACE") != ""

func (s *Sub) trace(c any) {
	if !tracing {
		return
	}
	si, _ := Shard()
	_, cb := hashJSON(c)
	rec := map[string]any{
		"property": s.Prop, "check": s.Name, "test": s.Test, "package": s.Prop,
		"findings": []Finding{{Subject: "process", Kind: "process-death", Msg: "the test process died while executing this case"}},
		"case":     json.RawMessage(cb), "seed": Seed(), "tier": Tier(),
	}
	b, _ := json.Marshal(rec)
	os.WriteFile(filepath.Join(runDir(), fmt.Sprintf("trace-%s-%d.json", sanitize(s.Name), si)), b, 0o644)
}

// ---------------------------------------------------------------------------
// runners

func mix(a, b uint64) uint64 {
	x := a ^ (b + 0x9e3779b97f4a7c15 + (a << 6) + (a >> 2))
	x ^= x >> 33
	x *= 0xff51afd7ed558ccd
	x ^= x >> 33
	return x
}

func (s *Sub) rapidSeed() uint64 {
	h := fnv.New64a()
	h.Write([]byte(s.Prop + "/" + s.Name))
	si, _ := Shard()
	v := mix(mix(Seed()+1, h.Sum64()), uint64(si))
	if v == 0 {
		v = 0x5eed
	}
	return v
}

// Rapid runs n generated cases of a sub-check through rapid. gen draws the
// case (all randomness inside rapid), chk is the pure oracle, nontriv the
// stated non-triviality rule.
func Rapid[C any](s *Sub, n int, gen func(*rapid.T) C, chk func(C) []Finding, nontriv func(C) bool) {
	if runReplay(s, chk) {
		return
	}
	flag.Set("rapid.checks", strconv.Itoa(n))
	flag.Set("rapid.seed", strconv.FormatUint(s.rapidSeed(), 10))
	flag.Set("rapid.nofailfile", "true")
	if Thorough() {
		flag.Set("rapid.shrinktime", "60s")
	} else {
		flag.Set("rapid.shrinktime", "20s")
	}
	rapid.Check(s.t, func(rt *rapid.T) {
		c := gen(rt)
		s.trace(c)
		fs := Safe("panic", func() []Finding { return chk(c) })
		s.Eval(c, nontriv == nil || nontriv(c))
		if un := s.Report(c, fs); len(un) > 0 {
			rt.Fatalf("%s/%s: %s [%s]: %s", s.Prop, s.Name, un[0].Subject, un[0].Kind, un[0].Msg)
		}
	})
	s.mu.Lock()
	got := s.evals
	s.mu.Unlock()
	if !s.t.Failed() && got < int64(n) {
		s.t.Fatalf("INFRA: rapid ran %d of %d requested cases", got, n)
	}
}

// Enum runs an exhaustive (or otherwise deterministic) enumeration. each must
// call yield for every case, never twice for the same case; cases are sharded
// round-robin in the thorough tier.
func Enum[C any](s *Sub, each func(yield func(C)), chk func(C) []Finding, nontriv func(C) bool) {
	if runReplay(s, chk) {
		return
	}
	si, sn := Shard()
	idx := 0
	failedSigs := map[string]bool{}
	each(func(c C) {
		idx++
		if sn > 1 && (idx-1)%sn != si {
			return
		}
		s.trace(c)
		fs := Safe("panic", func() []Finding { return chk(c) })
		nt := nontriv == nil || nontriv(c)
		if len(fs) == 0 {
			s.EvalDistinct(nt, func() any { return c })
			return
		}
		s.EvalDistinct(nt, func() any { return c })
		// one fail file per signature (the first = smallest in enumeration order)
		var fresh []Finding
		for _, f := range fs {
			k := f.Subject + "\x00" + f.Kind
			if matchKnown(s.Prop, s.Name, f) != nil || !failedSigs[k] {
				fresh = append(fresh, f)
			}
		}
		un := s.Report(c, fresh)
		for _, f := range un {
			failedSigs[f.Subject+"\x00"+f.Kind] = true
			s.t.Errorf("%s/%s: %s [%s]: %s", s.Prop, s.Name, f.Subject, f.Kind, f.Msg)
		}
	})
}

// Watchdog guards sub-checks in which non-termination is what the property is about (C07): the
// property function calls Enter(case) before and Leave() after the call under test, running it
// inline. If one call exceeds d, the watchdog goroutine records a "hang" finding for that case,
// flushes the fragment and ends the process (the stuck goroutine cannot be stopped).
type Watchdog struct {
	s     *Sub
	mu    sync.Mutex
	cur   any
	subj  string
	since time.Time
	cpu0  time.Duration
}

// processCPU is the CPU time (user + system) this process has consumed so far.
func processCPU() time.Duration {
	var ru syscall.Rusage
	if syscall.Getrusage(syscall.RUSAGE_SELF, &ru) != nil {
		return 0
	}
	return time.Duration(ru.Utime.Nano() + ru.Stime.Nano())
}

// NewWatchdog watches the call announced by Enter. A call that does not terminate burns CPU; a call that
// is merely not being scheduled on a loaded machine does not. So an overrun is reported when the process
// has consumed d of CPU time since Enter without the call returning (the test goroutine is blocked in the
// call, so the CPU time is the call's), or – for a call that blocks without computing – when ten times d
// of wall-clock time have passed. Wall-clock time alone is never a verdict within 10*d.
func NewWatchdog(s *Sub, d time.Duration) *Watchdog {
	w := &Watchdog{s: s}
	go func() {
		for {
			time.Sleep(d / 10)
			w.mu.Lock()
			cur, subj, since, cpu0 := w.cur, w.subj, w.since, w.cpu0
			w.mu.Unlock()
			if cur == nil {
				continue
			}
			wall, cpu := time.Since(since), processCPU()-cpu0
			if cpu > d || wall > 10*d {
				s.Report(cur, []Finding{{Subject: subj, Kind: "hang", Msg: fmt.Sprintf("call did not return after %v of CPU time (%v wall clock; budget %v CPU or %v wall clock)", cpu.Round(time.Millisecond), wall.Round(time.Millisecond), d, 10*d)}})
				s.flush()
				os.Exit(1)
			}
		}
	}()
	return w
}

func (w *Watchdog) Enter(subject string, c any) {
	w.mu.Lock()
	w.cur, w.subj, w.since, w.cpu0 = c, subject, time.Now(), processCPU()
	w.mu.Unlock()
}

func (w *Watchdog) Leave() {
	w.mu.Lock()
	w.cur = nil
	w.mu.Unlock()
}

// WithTimeout runs fn in a goroutine and reports whether it returned within d.
// Used only where non-termination is what the property is about.
func WithTimeout(d time.Duration, fn func()) (finished bool) {
	done := make(chan struct{})
	cpu0, t0 := processCPU(), time.Now()
	go func() {
		defer func() { recover(); close(done) }()
		fn()
	}()
	// as for the Watchdog: d of CPU time, or 10*d of wall-clock time; a stall on a loaded machine is not a verdict
	tick := time.NewTicker(d / 20)
	defer tick.Stop()
	for {
		select {
		case <-done:
			return true
		case <-tick.C:
			if processCPU()-cpu0 > d || time.Since(t0) > 10*d {
				return false
			}
		}
	}
}
