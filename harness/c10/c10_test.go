// Package c10: NetBIOS name encoding and NBNS packets round-trip and follow RFC 1001/1002.
package c10

import (
	"bytes"
	"fmt"
	"strings"
	"testing"

	"pgregory.net/rapid"

	"github.com/TheManticoreProject/Manticore/network/netbios/nbtns"

	"manticoreverif/ref/dns"
	refnbns "manticoreverif/ref/nbns"
	"manticoreverif/vf"
)

const P = "C10"

type nameCase struct {
	Name  vf.Hex `json:"name"` // 0..16 raw bytes, first byte != '*'
	Scope string `json:"scope,omitempty"`
}

func trimSpaces(b []byte) []byte { return bytes.TrimRight(b, " ") }

// nameEq: "decodes back to the same name". The encoding pads to 16 bytes with spaces, so it cannot
// tell a name from the same name with (more or fewer) trailing spaces: a name that ends in a space
// is compared modulo trailing spaces, every other name must come back byte for byte (not padded).
func nameEq(got string, want []byte) bool {
	if n := len(want); n > 0 && want[n-1] == ' ' {
		return bytes.Equal(trimSpaces([]byte(got)), trimSpaces(want))
	}
	return got == string(want)
}

// scopeLabels: the labels a scope identifier stands for on the wire (RFC 1002 4.1), "" = none.
func scopeLabels(scope string) []string {
	if scope == "" {
		return nil
	}
	return strings.Split(scope, ".")
}

func sameLabels(a, b []string) bool {
	if len(a) != len(b) {
		return false
	}
	for i := range a {
		if a[i] != b[i] {
			return false
		}
	}
	return true
}

func checkName(c nameCase) []vf.Finding {
	var fs []vf.Finding
	n := &nbtns.NetBIOSName{Name: string(c.Name), ScopeID: c.Scope}
	enc, err := n.FirstLevelEncode()
	if err != nil {
		return []vf.Finding{vf.F("NetBIOSName.FirstLevelEncode", "valid-name-rejected", "name %x scope %q: %v", []byte(c.Name), c.Scope, err)}
	}
	want, _ := refnbns.FirstLevel(c.Name)
	wantFull := want
	if c.Scope != "" {
		wantFull += "." + c.Scope
	}
	if enc != wantFull {
		fs = append(fs, vf.F("NetBIOSName.FirstLevelEncode", "differs-from-rfc1001-half-ascii", "name %x: got %q want %q", []byte(c.Name), enc, wantFull))
	}
	dec, err := nbtns.FirstLevelDecode(enc)
	if err != nil || dec == nil {
		fs = append(fs, vf.F("nbtns.FirstLevelDecode", "own-encoding-rejected", "%q: %v", enc, err))
		return fs
	}
	if !nameEq(dec.Name, c.Name) {
		fs = append(fs, vf.F("nbtns.FirstLevelDecode", "name-not-preserved", "%x -> %q -> %x", []byte(c.Name), enc, []byte(dec.Name)))
	}
	if dec.ScopeID != c.Scope {
		fs = append(fs, vf.F("nbtns.FirstLevelDecode", "scope-not-preserved", "%q -> %q", c.Scope, dec.ScopeID))
	}
	// the decoder also has to read the reference encoding
	if d2, err := nbtns.FirstLevelDecode(wantFull); err != nil || d2 == nil || !nameEq(d2.Name, c.Name) || d2.ScopeID != c.Scope {
		fs = append(fs, vf.F("nbtns.FirstLevelDecode", "rfc1001-encoding-misread", "%q: %v", wantFull, err))
	}
	return fs
}

func TestFirstLevelPositionsExhaustive(t *testing.T) {
	s := vf.Begin(t, P, "firstlevel-exhaustive")
	s.SetExhaustive()
	s.Note("all 256 byte values at each of the 16 positions (first byte '*' excluded: Validate documents it as rejected)")
	vf.Enum(s, func(yield func(nameCase)) {
		for pos := 0; pos < 16; pos++ {
			for v := 0; v < 256; v++ {
				if pos == 0 && v == '*' {
					continue
				}
				b := []byte("ABCDEFGHIJKLMNOP")
				b[pos] = byte(v)
				yield(nameCase{Name: b})
			}
		}
		for l := 0; l <= 16; l++ {
			yield(nameCase{Name: []byte("WORKSTATION12345X")[:l]})
		}
	}, checkName, func(c nameCase) bool { return len(c.Name) > 0 })
}

const scopeChars = "abcdefghijklmnopqrstuvwxyzABCDEFGHIJKLMNOPQRSTUVWXYZ0123456789-"

var gScopeChar = rapid.SampledFrom([]byte(scopeChars))

// scopeLabelOf draws a scope label of exactly n characters (letters, digits, inner hyphens).
func scopeLabelOf(t *rapid.T, n int) string {
	b := rapid.SliceOfN(gScopeChar, n, n).Draw(t, "sc")
	for _, i := range []int{0, n - 1} {
		if b[i] == '-' {
			b[i] = 'x'
		}
	}
	return string(b)
}

// genScopeLabel: label lengths 1..10 (seven draws in ten), any length 1..63 (two), or the longest.
func genScopeLabel(t *rapid.T) string {
	var n int
	switch rapid.IntRange(0, 9).Draw(t, "slenClass") {
	case 0:
		n = 63
	case 1, 2:
		n = rapid.IntRange(1, 63).Draw(t, "slenAny")
	default:
		n = rapid.IntRange(1, 10).Draw(t, "slen")
	}
	return scopeLabelOf(t, n)
}

// maxNameWire: an RFC 1002 name - the 32-character label, the scope labels, the root - is at most 255
// octets on the wire (RFC 1002 4.1, RFC 1035 2.3.4).
const maxNameWire = 255

// genScope draws a scope identifier of 0..8 labels, as far as the 255 octets of the whole name allow.
// One draw in 25 fills the name up to exactly 255 octets.
func genScope(t *rapid.T) string {
	// one draw in 12: very many short labels (the limits are 63 octets per label and 255 for the whole name; the
	// number of labels has no limit of its own: 110 one-character labels fit)
	if rarely(t, "scopeManyLabels", 12) {
		k := rapid.IntRange(20, 110).Draw(t, "scopeManyLabelCount")
		var parts []string
		total := 34
		for i := 0; i < k && total+2 <= maxNameWire; i++ {
			n := 1
			if total+3 <= maxNameWire && rapid.IntRange(0, 4).Draw(t, "twoChars") == 0 {
				n = 2
			}
			total += 1 + n
			parts = append(parts, scopeLabelOf(t, n))
		}
		return strings.Join(parts, ".")
	}
	k := rapid.IntRange(0, 8).Draw(t, "scopeLabels")
	fill := k > 0 && rarely(t, "scopeFill", 8)
	var parts []string
	total := 34 // length octet + 32 characters, and the root octet
	for i := 0; i < k; i++ {
		l := genScopeLabel(t)
		if total+1+len(l) > maxNameWire {
			break
		}
		total += 1 + len(l)
		parts = append(parts, l)
	}
	for fill && total+2 <= maxNameWire {
		n := min(63, maxNameWire-total-1)
		if n == maxNameWire-total-2 {
			n-- // would leave one octet, not enough for a label
		}
		total += 1 + n
		parts = append(parts, scopeLabelOf(t, n))
	}
	return strings.Join(parts, ".")
}

// scopeWireLen: the octets a name with this scope takes on the wire.
func scopeWireLen(scope string) int {
	if scope == "" {
		return 34
	}
	return 34 + 1 + len(scope)
}

func classifyScope(s *vf.Sub, scope string) {
	ls := scopeLabels(scope)
	if len(ls) >= 4 {
		s.Class("scope-of-4-or-more-labels")
	}
	if len(ls) >= 64 {
		s.Class("scope-of-64-or-more-labels")
	}
	if scopeWireLen(scope) == maxNameWire {
		s.Class("name-of-255-octets")
	}
	if scopeWireLen(scope) > 34+192 {
		s.Class("scope-over-192-octets")
	}
	for _, l := range ls {
		if len(l) > 10 && len(l) < 63 {
			s.Class("scope-label-of-11..62-characters")
			break
		}
	}
}

func genNameBytes(t *rapid.T) vf.Hex {
	n := rapid.IntRange(0, 16).Draw(t, "nlen")
	b := rapid.SliceOfN(rapid.Byte(), n, n).Draw(t, "name")
	if n > 0 && b[0] == '*' {
		b[0] = 'S'
	}
	// the 16th byte is the NetBIOS suffix; make common suffixes likely
	if n == 16 && rapid.Bool().Draw(t, "suffix") {
		b[15] = rapid.SampledFrom([]byte{0x00, 0x03, 0x20, 0x1B, 0x1C, 0x1D, 0x1E}).Draw(t, "sfx")
	}
	return b
}

func TestFirstLevelRandom(t *testing.T) {
	s := vf.Begin(t, P, "firstlevel-roundtrip")
	vf.Rapid(s, vf.N(15000, 200000), func(t *rapid.T) nameCase { return nameCase{genNameBytes(t), genScope(t)} }, func(c nameCase) []vf.Finding {
		classifyScope(s, c.Scope)
		return checkName(c)
	}, func(c nameCase) bool { return len(c.Name) > 0 && c.Scope != "" })
}

// ---- names that do not fit the 16 bytes --------------------------------------------------------------------
//
// A NetBIOS name is 16 BYTES. A name of 17 or more bytes has no first-level encoding; the one thing the library
// may not do with it is to encode something else without saying so. Either FirstLevelEncode refuses it, or what
// it returns decodes to exactly that name. The names are over-long in bytes while short in other units: multi-byte
// UTF-8 sequences (17..40 bytes in at most 16 characters), names of 16 characters plus combining marks, and plain
// over-long ASCII and random bytes.

func checkOverlong(c nameCase) []vf.Finding {
	n := &nbtns.NetBIOSName{Name: string(c.Name), ScopeID: c.Scope}
	enc, err := n.FirstLevelEncode()
	if err != nil {
		return nil
	}
	dec, derr := nbtns.FirstLevelDecode(enc)
	// (modulo trailing-space padding, as everywhere: a 17th byte that is a space is indistinguishable from padding)
	if derr != nil || dec == nil || !nameEq(dec.Name, c.Name) {
		got := []byte(nil)
		if dec != nil {
			got = []byte(dec.Name)
		}
		return []vf.Finding{vf.F("NetBIOSName.FirstLevelEncode", "overlong-name-encoded-as-another-name", "name %x (%d bytes, %d characters) is accepted and encoded as %q, which decodes to %x (err %v)", []byte(c.Name), len(c.Name), len([]rune(string(c.Name))), enc, got, derr)}
	}
	return nil
}

func TestOverlongNames(t *testing.T) {
	s := vf.Begin(t, P, "overlong-names")
	multi := []string{"\u00e9", "\u00c0", "\u0416", "\u4e2d", "\u20ac", "\U0001F600", "\u0301"}
	vf.Rapid(s, vf.N(4000, 60000), func(t *rapid.T) nameCase {
		var b []byte
		switch rapid.IntRange(0, 3).Draw(t, "shape") {
		case 0: // at most 16 characters, more than 16 bytes
			k := rapid.IntRange(1, 16).Draw(t, "chars")
			for i := 0; i < k; i++ {
				if rapid.IntRange(0, 2).Draw(t, "wide") == 0 {
					b = append(b, rapid.SampledFrom(multi).Draw(t, "rune")...)
				} else {
					b = append(b, byte(rapid.IntRange('A', 'Z').Draw(t, "ch")))
				}
			}
			for len(b) <= 16 {
				b = append(b, rapid.SampledFrom(multi).Draw(t, "pad")...)
			}
		case 1: // ASCII, 17..40 bytes
			b = rapid.SliceOfN(rapid.ByteRange('A', 'Z'), 17, 40).Draw(t, "ascii")
		case 2: // any bytes, 17..40
			b = rapid.SliceOfN(rapid.Byte(), 17, 40).Draw(t, "bytes")
		default: // 16 bytes and a space behind them (a table that strips the padding first may take it for the 16-byte name)
			b = append(rapid.SliceOfN(rapid.ByteRange('A', 'Z'), 16, 16).Draw(t, "sixteen"), ' ')
		}
		if b[0] == '*' {
			b[0] = 'S'
		}
		c := nameCase{Name: b}
		if rapid.IntRange(0, 3).Draw(t, "scoped") == 0 {
			c.Scope = genScope(t)
		}
		return c
	}, func(c nameCase) []vf.Finding {
		if len([]rune(string(c.Name))) <= 16 {
			s.Class("over-16-bytes-in-at-most-16-characters")
		}
		return checkOverlong(c)
	}, func(c nameCase) bool { return len(c.Name) > 16 })
}

// ---- packets ---------------------------------------------------------------------------

type jQ struct {
	Name  nameCase `json:"name"`
	Type  uint16   `json:"type"`
	Class uint16   `json:"class"`
}
type jRR struct {
	Name  nameCase `json:"name"`
	Type  uint16   `json:"type"`
	Class uint16   `json:"class"`
	TTL   uint32   `json:"ttl"`
	RData vf.Hex   `json:"rdata"`
	// The record's RDATA is RData followed by Pad pattern bytes (RDATA up to the 16-bit limit then
	// costs neither draws nor replay-file space).
	Pad     int   `json:"rdata_pad,omitempty"`
	PadSeed uint8 `json:"rdata_pad_seed,omitempty"`
}

// data is the record's RDATA: the explicit bytes followed by the pad pattern.
func (r jRR) data() []byte {
	out := make([]byte, len(r.RData)+r.Pad)
	copy(out, r.RData)
	for i, pad := 0, out[len(r.RData):]; i < len(pad); i++ {
		pad[i] = r.PadSeed + byte(i)*7 + byte(i>>8)
	}
	return out
}

type pktCase struct {
	ID, Flags  uint16
	Questions  []jQ  `json:"questions"`
	Answers    []jRR `json:"answers"`
	Authority  []jRR `json:"authority"`
	Additional []jRR `json:"additional"`
}

func (c pktCase) lib() *nbtns.NBTNSPacket {
	p := &nbtns.NBTNSPacket{}
	p.Header = nbtns.NBTNSHeader{TransactionID: c.ID, Flags: c.Flags, Questions: uint16(len(c.Questions)), Answers: uint16(len(c.Answers)), Authority: uint16(len(c.Authority)), Additional: uint16(len(c.Additional))}
	for _, q := range c.Questions {
		p.Questions = append(p.Questions, nbtns.NBTNSQuestion{Name: &nbtns.NetBIOSName{Name: string(q.Name.Name), ScopeID: q.Name.Scope}, Type: q.Type, Class: q.Class})
	}
	conv := func(in []jRR) []nbtns.NBTNSResourceRecord {
		var out []nbtns.NBTNSResourceRecord
		for _, r := range in {
			out = append(out, nbtns.NBTNSResourceRecord{Name: &nbtns.NetBIOSName{Name: string(r.Name.Name), ScopeID: r.Name.Scope}, Type: r.Type, Class: r.Class, TTL: r.TTL, RDLength: uint16(len(r.data())), RData: r.data()})
		}
		return out
	}
	p.Answers, p.Authority, p.Additional = conv(c.Answers), conv(c.Authority), conv(c.Additional)
	return p
}

func sameName(got *nbtns.NetBIOSName, want nameCase) bool {
	return got != nil && nameEq(got.Name, want.Name) && got.ScopeID == want.Scope
}

func checkPacketRoundtrip(c pktCase) []vf.Finding {
	wire, err := c.lib().Marshal()
	if err != nil {
		return []vf.Finding{vf.F("NBTNSPacket.Marshal", "valid-packet-rejected", "%v", err)}
	}
	return checkDecodes(wire, c)
}

// checkDecodes: wire, produced by Marshal for c, decodes to c and re-encodes to itself.
func checkDecodes(wire []byte, c pktCase) []vf.Finding {
	var got nbtns.NBTNSPacket
	n, err := got.Unmarshal(wire)
	if err != nil {
		return []vf.Finding{vf.F("NBTNSPacket.Unmarshal", "own-encoding-rejected", "%v (%d bytes)", err, len(wire))}
	}
	var fs []vf.Finding
	if n != len(wire) {
		fs = append(fs, vf.F("NBTNSPacket.Unmarshal", "consumed-differs", "n=%d len=%d", n, len(wire)))
	}
	h := got.Header
	if h.TransactionID != c.ID || h.Flags != c.Flags || int(h.Questions) != len(c.Questions) || int(h.Answers) != len(c.Answers) || int(h.Authority) != len(c.Authority) || int(h.Additional) != len(c.Additional) {
		fs = append(fs, vf.F("NBTNSPacket.Unmarshal", "header-differs", "got %+v", h))
	}
	if len(got.Questions) != len(c.Questions) {
		fs = append(fs, vf.F("NBTNSPacket.Unmarshal", "question-section-lost", "got %d want %d", len(got.Questions), len(c.Questions)))
	} else {
		for i, q := range c.Questions {
			g := got.Questions[i]
			if !sameName(g.Name, q.Name) || g.Type != q.Type || g.Class != q.Class {
				fs = append(fs, vf.F("NBTNSPacket.Unmarshal", "question-differs", "question %d: got %+v/%d/%d want %x %q/%d/%d", i, g.Name, g.Type, g.Class, []byte(q.Name.Name), q.Name.Scope, q.Type, q.Class))
			}
		}
	}
	for _, sec := range []struct {
		name string
		got  []nbtns.NBTNSResourceRecord
		want []jRR
	}{{"answer", got.Answers, c.Answers}, {"authority", got.Authority, c.Authority}, {"additional", got.Additional, c.Additional}} {
		if len(sec.got) != len(sec.want) {
			fs = append(fs, vf.F("NBTNSPacket.Unmarshal", sec.name+"-section-lost", "got %d want %d", len(sec.got), len(sec.want)))
			continue
		}
		for i, r := range sec.want {
			g := sec.got[i]
			if want := r.data(); !sameName(g.Name, r.Name) || g.Type != r.Type || g.Class != r.Class || g.TTL != r.TTL || int(g.RDLength) != len(want) || !bytes.Equal(g.RData, want) {
				fs = append(fs, vf.F("NBTNSPacket.Unmarshal", sec.name+"-record-differs", "%s %d: got %+v/%d/%d/%d rdlength %d, %d bytes %.40x; want %x %q/%d/%d/%d, %d bytes", sec.name, i, g.Name, g.Type, g.Class, g.TTL, g.RDLength, len(g.RData), g.RData, []byte(r.Name.Name), r.Name.Scope, r.Type, r.Class, r.TTL, len(want)))
			}
		}
	}
	// re-encoding the decoded packet gives the same bytes
	if again, err := got.Marshal(); err != nil || !bytes.Equal(again, wire) {
		fs = append(fs, vf.F("NBTNSPacket.Marshal", "reencoding-decoded-packet-differs", "err %v", err))
	}
	return fs
}

func checkRefParse(c pktCase) []vf.Finding {
	wire, err := c.lib().Marshal()
	if err != nil {
		return []vf.Finding{vf.F("NBTNSPacket.Marshal", "valid-packet-rejected", "%v", err)}
	}
	m, err := dns.Parse(wire)
	if err != nil {
		kind := "rfc1002-parser-rejects-output"
		if len(c.Questions)+len(c.Answers)+len(c.Authority)+len(c.Additional) > 0 {
			// classify the systematic case: the name is not a label sequence ending in a zero octet
			kind = "name-not-rfc1002-label-sequence"
		}
		return []vf.Finding{vf.F("NBTNSPacket.Marshal", kind, "%v; wire %x", err, wire[:min(len(wire), 80)])}
	}
	var fs []vf.Finding
	if m.ID != c.ID || m.Flags != c.Flags {
		fs = append(fs, vf.F("NBTNSPacket.Marshal", "header-differs-under-rfc1002-parser", "id %#x flags %#x", m.ID, m.Flags))
	}
	cmpName := func(where string, n dns.Name, want nameCase) {
		rn, err := refnbns.FromLabels(n)
		if err != nil {
			fs = append(fs, vf.F("NBTNSPacket.Marshal", "name-not-rfc1002-label-sequence", "%s: %v (labels %q)", where, err, n))
			return
		}
		// on the wire the name is always the 16 padded bytes; the scope is compared label by label
		padded := []byte("                ")
		copy(padded, want.Name)
		if !bytes.Equal(rn.Raw, padded) {
			fs = append(fs, vf.F("NBTNSPacket.Marshal", "name-differs-under-rfc1002-parser", "%s: got %x want %x", where, rn.Raw, padded))
		}
		if !sameLabels(rn.ScopeLabels, scopeLabels(want.Scope)) {
			fs = append(fs, vf.F("NBTNSPacket.Marshal", "scope-labels-differ-under-rfc1002-parser", "%s: got labels %q want %q", where, rn.ScopeLabels, scopeLabels(want.Scope)))
		}
	}
	if len(m.Questions) != len(c.Questions) || len(m.Answers) != len(c.Answers) || len(m.Authority) != len(c.Authority) || len(m.Additional) != len(c.Additional) {
		return append(fs, vf.F("NBTNSPacket.Marshal", "section-sizes-differ-under-rfc1002-parser", "%d/%d/%d/%d", len(m.Questions), len(m.Answers), len(m.Authority), len(m.Additional)))
	}
	for i, q := range c.Questions {
		cmpName("question", m.Questions[i].Name, q.Name)
		if m.Questions[i].Type != q.Type || m.Questions[i].Class != q.Class {
			fs = append(fs, vf.F("NBTNSPacket.Marshal", "question-fields-differ-under-rfc1002-parser", "question %d", i))
		}
	}
	for _, sec := range []struct {
		name string
		got  []dns.RR
		want []jRR
	}{{"answer", m.Answers, c.Answers}, {"authority", m.Authority, c.Authority}, {"additional", m.Additional, c.Additional}} {
		for i, r := range sec.want {
			g := sec.got[i]
			cmpName(sec.name, g.Name, r.Name)
			if g.Type != r.Type || g.Class != r.Class || g.TTL != r.TTL || !bytes.Equal(g.RData, r.data()) {
				fs = append(fs, vf.F("NBTNSPacket.Marshal", sec.name+"-fields-differ-under-rfc1002-parser", "%s %d", sec.name, i))
			}
		}
	}
	return fs
}

// rarely is true in roughly pct/2 percent of the draws (pct <= 50): rapid's integer generators
// favour small values and the ends of a range, the middle of 0..99 is flat at ~0.5 % per value;
// shrinking moves towards 0 = "not this time".
func rarely(t *rapid.T, label string, pct int) bool {
	v := rapid.IntRange(0, 99).Draw(t, label)
	return v >= 40 && v < 40+pct
}

// rdataLimits are the RDATA lengths at which an 8-, 15- or 16-bit view of RDLENGTH changes.
var rdataLimits = []int{255, 256, 32767, 32768, 65534, 65535}

// bigCounts are section sizes around the point where a count stops fitting 8 bits.
var bigCounts = []int{255, 256, 257, 300}

func genPkt(t *rapid.T, maxRData int) pktCase {
	c := pktCase{ID: rapid.Uint16().Draw(t, "id"), Flags: rapid.Uint16().Draw(t, "flags")}
	// about one packet in 40 has one section with more entries than an 8-bit counter holds: a few
	// drawn entries repeated cyclically, made distinct (and their order observable) through the type
	big, bigN := -1, 0
	if rarely(t, "bigSection", 5) {
		big = rapid.IntRange(0, 3).Draw(t, "bigWhich")
		bigN = rapid.SampledFrom(bigCounts).Draw(t, "bigCount")
	}
	count := func(label string, sec int) (drawn, total int) {
		if sec == big {
			return rapid.IntRange(1, 3).Draw(t, label), bigN
		}
		n := rapid.IntRange(0, 3).Draw(t, label)
		return n, n
	}
	name := func() nameCase {
		sc := ""
		if rapid.IntRange(0, 2).Draw(t, "scoped") == 0 {
			sc = genScope(t)
		}
		return nameCase{genNameBytes(t), sc}
	}
	drawn, total := count("nq", 0)
	for i := 0; i < drawn; i++ {
		c.Questions = append(c.Questions, jQ{name(), rapid.Uint16().Draw(t, "qt"), rapid.Uint16().Draw(t, "qc")})
	}
	for i := drawn; i < total; i++ {
		q := c.Questions[i%drawn]
		q.Type += uint16(i / drawn)
		c.Questions = append(c.Questions, q)
	}
	sec := func(label string, idx int) []jRR {
		var out []jRR
		drawn, total := count(label, idx)
		maxRData := maxRData
		if total > drawn && maxRData > 40 {
			maxRData = 40
		}
		for i := 0; i < drawn; i++ {
			var rl int
			switch rapid.IntRange(0, 3).Draw(t, "rdc") {
			case 0:
				rl = 0
			case 1:
				rl = 6
			case 2:
				rl = rapid.IntRange(0, maxRData).Draw(t, "rdl")
			default:
				rl = rapid.IntRange(0, 30).Draw(t, "rds")
			}
			r := jRR{Name: name(), Type: rapid.Uint16().Draw(t, "t"), Class: rapid.Uint16().Draw(t, "c"), TTL: rapid.Uint32().Draw(t, "ttl")}
			// about one record in 40, and only where RDATA may be long: any length 0..65535, half of them at
			// the limits, the bulk of it a pattern; whatever entries follow it are read from where it ends
			if maxRData > 64 && rarely(t, "rdLong", 5) {
				if rapid.Bool().Draw(t, "rdAtLimit") {
					r.Pad = rapid.SampledFrom(rdataLimits).Draw(t, "rdLimit")
				} else {
					r.Pad = rapid.IntRange(0, 65535).Draw(t, "rdAny")
				}
				rl = min(rl, 8, r.Pad)
				r.Pad -= rl
				r.PadSeed = rapid.Byte().Draw(t, "rdSeed")
			}
			r.RData = rapid.SliceOfN(rapid.Byte(), rl, rl).Draw(t, "rd")
			out = append(out, r)
		}
		for i := drawn; i < total; i++ {
			r := out[i%drawn]
			r.Type += uint16(i / drawn)
			out = append(out, r)
		}
		return out
	}
	c.Answers, c.Authority, c.Additional = sec("nan", 1), sec("nns", 2), sec("nar", 3)
	return c
}

func classified(s *vf.Sub, chk func(pktCase) []vf.Finding) func(pktCase) []vf.Finding {
	return func(c pktCase) []vf.Finding {
		if len(c.Questions) > 255 || len(c.Answers) > 255 || len(c.Authority) > 255 || len(c.Additional) > 255 {
			s.Class("section-over-255-entries")
		}
		for _, q := range c.Questions {
			classifyScope(s, q.Name.Scope)
		}
		for _, sec := range [][]jRR{c.Answers, c.Authority, c.Additional} {
			for i, r := range sec {
				classifyScope(s, r.Name.Scope)
				if len(r.RData)+r.Pad >= 32768 {
					s.Class("rdata>=32768")
					if i+1 < len(sec) {
						s.Class("rdata>=32768-followed-by-a-record")
					}
				}
			}
		}
		return chk(c)
	}
}

func pktNontrivial(c pktCase) bool {
	return len(c.Questions)+len(c.Answers)+len(c.Authority)+len(c.Additional) >= 2
}

func TestPacketRoundtrip(t *testing.T) {
	s := vf.Begin(t, P, "packet-roundtrip")
	vf.Rapid(s, vf.N(12000, 150000), func(t *rapid.T) pktCase { return genPkt(t, vf.Size(600, 8000)) }, classified(s, checkPacketRoundtrip), pktNontrivial)
}

func TestRefParse(t *testing.T) {
	s := vf.Begin(t, P, "ref-parse")
	vf.Rapid(s, vf.N(12000, 150000), func(t *rapid.T) pktCase { return genPkt(t, vf.Size(600, 8000)) }, classified(s, checkRefParse), pktNontrivial)
}

// ---- receiver reuse --------------------------------------------------------------------------

type reuseCase struct {
	First  pktCase `json:"first"`
	Second pktCase `json:"second"`
}

// describe renders a decoded packet field by field (names by value, not by pointer).
func describe(p *nbtns.NBTNSPacket) []string {
	name := func(n *nbtns.NetBIOSName) string {
		if n == nil {
			return "<nil>"
		}
		return fmt.Sprintf("%x/%q", n.Name, n.ScopeID)
	}
	out := []string{fmt.Sprintf("header %+v", p.Header)}
	var qs []string
	for _, q := range p.Questions {
		qs = append(qs, fmt.Sprintf("%s %d %d", name(q.Name), q.Type, q.Class))
	}
	out = append(out, fmt.Sprintf("questions(%d) %v", len(qs), qs))
	for _, sec := range []struct {
		n  string
		rr []nbtns.NBTNSResourceRecord
	}{{"answers", p.Answers}, {"authority", p.Authority}, {"additional", p.Additional}} {
		var rs []string
		for _, r := range sec.rr {
			rs = append(rs, fmt.Sprintf("%s %d %d %d %d %x", name(r.Name), r.Type, r.Class, r.TTL, r.RDLength, r.RData))
		}
		out = append(out, fmt.Sprintf("%s(%d) %v", sec.n, len(rs), rs))
	}
	return out
}

// checkReuse: a packet value that has already received one packet receives another one; what it
// then holds must be what a fresh value holds after decoding the second packet alone (a server
// loop that keeps one NBTNSPacket would otherwise answer questions of earlier datagrams).
func checkReuse(c reuseCase) []vf.Finding {
	w1, err := c.First.lib().Marshal()
	if err != nil {
		return []vf.Finding{vf.F("NBTNSPacket.Marshal", "valid-packet-rejected", "%v", err)}
	}
	w2, err := c.Second.lib().Marshal()
	if err != nil {
		return []vf.Finding{vf.F("NBTNSPacket.Marshal", "valid-packet-rejected", "%v", err)}
	}
	var fresh, reused nbtns.NBTNSPacket
	if _, err := fresh.Unmarshal(w2); err != nil {
		return []vf.Finding{vf.F("NBTNSPacket.Unmarshal", "own-encoding-rejected", "%v", err)}
	}
	if _, err := reused.Unmarshal(w1); err != nil {
		return []vf.Finding{vf.F("NBTNSPacket.Unmarshal", "own-encoding-rejected", "%v", err)}
	}
	if _, err := reused.Unmarshal(w2); err != nil {
		return []vf.Finding{vf.F("NBTNSPacket.Unmarshal", "own-encoding-rejected", "second packet into the same receiver: %v", err)}
	}
	var fs []vf.Finding
	df, dr := describe(&fresh), describe(&reused)
	for i, what := range []string{"header", "questions", "answers", "authority", "additional"} {
		if df[i] != dr[i] {
			fs = append(fs, vf.F("NBTNSPacket.Unmarshal", "reused-receiver-differs-from-fresh-decode:"+what, "after an earlier packet: %.300s; fresh: %.300s", dr[i], df[i]))
		}
	}
	return fs
}

func TestUnmarshalReuse(t *testing.T) {
	s := vf.Begin(t, P, "unmarshal-receiver-reuse")
	vf.Rapid(s, vf.N(6000, 80000), func(t *rapid.T) reuseCase {
		c := reuseCase{First: genPkt(t, 64)}
		if rapid.IntRange(0, 3).Draw(t, "samePacket") == 0 {
			c.Second = c.First
		} else {
			c.Second = genPkt(t, 64)
		}
		return c
	}, checkReuse, func(c reuseCase) bool {
		return len(c.First.Questions)+len(c.First.Answers)+len(c.First.Authority)+len(c.First.Additional) > 0
	})
}

// ---- the bytes Marshal returns are a value of their own ---------------------------------------

// checkMarshalIndependent: the caller keeps the bytes of one Marshal while another packet is
// marshalled (a responder with two replies in flight): the kept bytes still are the encoding of the
// first packet - unchanged, and decoding to the first packet's content.
func checkMarshalIndependent(c reuseCase) []vf.Finding {
	w1, err := c.First.lib().Marshal()
	if err != nil {
		return []vf.Finding{vf.F("NBTNSPacket.Marshal", "valid-packet-rejected", "%v", err)}
	}
	saved := append([]byte{}, w1...)
	w2, err := c.Second.lib().Marshal()
	if err != nil {
		return []vf.Finding{vf.F("NBTNSPacket.Marshal", "valid-packet-rejected", "second packet: %v", err)}
	}
	var fs []vf.Finding
	if !bytes.Equal(w1, saved) {
		fs = append(fs, vf.F("NBTNSPacket.Marshal", "earlier-result-overwritten-by-next-marshal", "the %d bytes returned for the first packet changed when a second packet (%d bytes) was marshalled", len(saved), len(w2)))
	}
	fs = append(fs, checkDecodes(w1, c.First)...)
	return append(fs, checkDecodes(w2, c.Second)...)
}

func TestMarshalIndependent(t *testing.T) {
	s := vf.Begin(t, P, "marshal-results-independent")
	vf.Rapid(s, vf.N(5000, 60000), func(t *rapid.T) reuseCase {
		c := reuseCase{First: genPkt(t, 64)}
		// the second packet: another draw or, one time in three, the first with id, flags and TTLs changed
		// (same length on the wire, different content)
		if rapid.IntRange(0, 2).Draw(t, "secondKind") == 0 {
			c.Second = c.First
			c.Second.ID ^= rapid.Uint16Range(1, 0xFFFF).Draw(t, "idFlip")
			c.Second.Flags = rapid.Uint16().Draw(t, "flags2")
			c.Second.Answers = append([]jRR{}, c.First.Answers...)
			for i := range c.Second.Answers {
				c.Second.Answers[i].TTL ^= rapid.Uint32().Draw(t, "ttlFlip")
			}
		} else {
			c.Second = genPkt(t, 64)
		}
		return c
	}, checkMarshalIndependent, func(c reuseCase) bool { return pktNontrivial(c.First) || pktNontrivial(c.Second) })
}

// ---- RDATA length limits ---------------------------------------------------------------------

type rdLimitCase struct {
	Len     int    `json:"rdata_len"`
	Section string `json:"section"`
	Follow  bool   `json:"followed_by_another_record"`
	Scoped  bool   `json:"scoped_names"`
}

func (c rdLimitCase) pkt() pktCase {
	scope := ""
	if c.Scoped {
		scope = "eu.example"
	}
	recs := []jRR{{Name: nameCase{[]byte("HOST"), scope}, Type: 0x20, Class: 1, TTL: 300, Pad: c.Len, PadSeed: byte(c.Len)}}
	if c.Follow {
		recs = append(recs, jRR{Name: nameCase{[]byte("NEXT            "), scope}, Type: 0x21, Class: 1, TTL: 1, RData: vf.Hex{0, 0, 10, 0, 0, 1}})
	}
	p := pktCase{ID: 7, Flags: 0x8500, Questions: []jQ{{nameCase{[]byte("HOST"), scope}, 0x20, 1}}}
	switch c.Section {
	case "answer":
		p.Answers = recs
	case "authority":
		p.Authority = recs
	default:
		p.Additional = recs
	}
	if c.Follow && c.Section != "additional" {
		// and a record in the section after it
		p.Additional = append(p.Additional, jRR{Name: nameCase{[]byte("LAST"), scope}, Type: 0x20, Class: 1, TTL: 2, RData: vf.Hex{1, 2}})
	}
	return p
}

// TestRDataLimits: RDATA of every length at which an 8/9/15/16-bit reading of RDLENGTH changes, in
// each record section, alone and followed by further records (what comes after the RDATA is read
// from where the decoder thinks the RDATA ends), through round-trip and the reference parser.
func TestRDataLimits(t *testing.T) {
	s := vf.Begin(t, P, "rdata-limits")
	s.SetExhaustive()
	vf.Enum(s, func(yield func(rdLimitCase)) {
		for _, l := range []int{0, 1, 255, 256, 511, 512, 513, 32767, 32768, 65534, 65535} {
			for _, sec := range []string{"answer", "authority", "additional"} {
				for _, follow := range []bool{false, true} {
					for _, scoped := range []bool{false, true} {
						yield(rdLimitCase{l, sec, follow, scoped})
					}
				}
			}
		}
	}, func(c rdLimitCase) []vf.Finding {
		p := c.pkt()
		return append(checkPacketRoundtrip(p), checkRefParse(p)...)
	}, func(c rdLimitCase) bool { return c.Len >= 255 })
}
