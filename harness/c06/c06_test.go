// Package c06: SMB wire data types round-trip and consume exactly their own encoding.
package c06

import (
	"bytes"
	"fmt"
	"reflect"
	"testing"

	"pgregory.net/rapid"

	"github.com/TheManticoreProject/Manticore/network/smb/smb_v10/message/commands/andx"
	"github.com/TheManticoreProject/Manticore/network/smb/smb_v10/message/commands/codes"
	"github.com/TheManticoreProject/Manticore/network/smb/smb_v10/message/data"
	"github.com/TheManticoreProject/Manticore/network/smb/smb_v10/message/parameters"
	"github.com/TheManticoreProject/Manticore/network/smb/smb_v10/spnego/ntlm/version"
	"github.com/TheManticoreProject/Manticore/network/smb/smb_v10/types"

	"manticoreverif/vf"
)

const P = "C06"

// wireCase is one value of one type, in a type-specific serialisation, plus the
// unrelated bytes that follow its encoding.
type wireCase struct {
	Type   string   `json:"type"`
	Bytes  vf.Hex   `json:"bytes,omitempty"`  // string/buffer content, state bytes ...
	Nums   []uint64 `json:"nums,omitempty"`   // integer fields in declaration order
	Suffix vf.Hex   `json:"suffix,omitempty"` // trailing bytes after the encoding
	// Prev, when set, is a value of the same type whose encoding is decoded into the receiver first:
	// the receiver is a variable the caller may reuse, and what it held must not leak into the result.
	Prev *wireCase `json:"previously_decoded,omitempty"`
}

type marshaler interface{ Marshal() ([]byte, error) }

// sameExported compares two values of one type through their exported fields only, recursively:
// unexported members of a library structure are its internal state, not field values, and a nil
// and an empty slice are the same (empty) value.
func sameExported(a, b reflect.Value) bool {
	if a.Type() != b.Type() {
		return false
	}
	switch a.Kind() {
	case reflect.Struct:
		for i := 0; i < a.NumField(); i++ {
			if a.Type().Field(i).IsExported() && !sameExported(a.Field(i), b.Field(i)) {
				return false
			}
		}
		return true
	case reflect.Slice, reflect.Array:
		if a.Len() != b.Len() {
			return false
		}
		for i := 0; i < a.Len(); i++ {
			if !sameExported(a.Index(i), b.Index(i)) {
				return false
			}
		}
		return true
	case reflect.Ptr, reflect.Interface:
		if a.IsNil() || b.IsNil() {
			return a.IsNil() == b.IsNil()
		}
		return sameExported(a.Elem(), b.Elem())
	case reflect.Map:
		if a.Len() != b.Len() {
			return false
		}
		for _, k := range a.MapKeys() {
			if bv := b.MapIndex(k); !bv.IsValid() || !sameExported(a.MapIndex(k), bv) {
				return false
			}
		}
		return true
	case reflect.Bool:
		return a.Bool() == b.Bool()
	case reflect.Int, reflect.Int8, reflect.Int16, reflect.Int32, reflect.Int64:
		return a.Int() == b.Int()
	case reflect.Uint, reflect.Uint8, reflect.Uint16, reflect.Uint32, reflect.Uint64, reflect.Uintptr:
		return a.Uint() == b.Uint()
	case reflect.Float32, reflect.Float64:
		return a.Float() == b.Float()
	case reflect.Complex64, reflect.Complex128:
		return a.Complex() == b.Complex()
	case reflect.String:
		return a.String() == b.String()
	}
	return false // functions, channels: no such field values in the wire types
}

// sameFields: sameExported for two values or pointers to values.
func sameFields(a, b interface{}) bool {
	return sameExported(reflect.Indirect(reflect.ValueOf(a)), reflect.Indirect(reflect.ValueOf(b)))
}

// fillResumeKey assigns the three fields of a resume key from a case, the way a caller sets them: the embedded
// SMB_STRING is the codec's own working space and is left as it is.
func fillResumeKey(k *types.SMB_RESUME_KEY, c wireCase) {
	b := append(append([]byte{}, c.Bytes...), make([]byte, 21)...)[:21]
	k.Reserved = b[0]
	copy(k.ServerState[:], b[1:17])
	copy(k.ClientState[:], b[17:21])
}

// fillDirectoryInformation assigns the fields of a directory-information entry from a case (the resume key field
// by field) and returns the file name it assigned.
func fillDirectoryInformation(v *types.SMB_DIRECTORY_INFORMATION, c wireCase) []byte {
	n := func(i int) uint64 {
		if i < len(c.Nums) {
			return c.Nums[i]
		}
		return 0
	}
	b := append(append([]byte{}, c.Bytes...), make([]byte, 33)...)
	v.ResumeKey.Reserved = b[0]
	copy(v.ResumeKey.ServerState[:], b[1:17])
	copy(v.ResumeKey.ClientState[:], b[17:21])
	nameLen := int(n(5)) % 13
	name := make([]byte, nameLen)
	// the name may hold spaces anywhere ("MY FILE.TXT"); only trailing spaces are indistinguishable
	// from the padding of the 8.3 field, which is why names are compared modulo trailing spaces
	for i := range name {
		ch := b[21+i]
		if ch == 0 {
			ch = 'A' + byte(i)
		}
		name[i] = ch
	}
	v.FileAttributes = uint8(n(0))
	v.LastWriteTime = types.SMB_TIME{DwLowDateTime: uint32(n(1)), DwHighDateTime: uint32(n(2))}
	v.LastWriteDate = types.SMB_DATE{Year: 1980 + uint16(n(3)%128), Month: uint8(n(3) >> 8 % 16), Day: uint8(n(3) >> 16 % 32)}
	v.FileSize = uint32(n(4))
	v.FileName = *types.NewOEM_STRINGFromString(string(name))
	return name
}

// build returns the value, a fresh zero value to decode into, a decode function and a comparer.
func build(c wireCase) (enc marshaler, decode func([]byte) (int, error), same func() string, reenc func() ([]byte, error), err error) {
	n := func(i int) uint64 {
		if i < len(c.Nums) {
			return c.Nums[i]
		}
		return 0
	}
	switch c.Type {
	case "SMB_STRING/01", "SMB_STRING/02", "SMB_STRING/03", "SMB_STRING/04", "SMB_STRING/05":
		f := c.Type[len(c.Type)-1] - '0'
		v := &types.SMB_STRING{BufferFormat: f, Buffer: append([]byte{}, c.Bytes...), Length: uint16(len(c.Bytes))}
		d := &types.SMB_STRING{}
		return v, d.Unmarshal, func() string {
			if d.BufferFormat != f || !bytes.Equal(d.Buffer, c.Bytes) || int(d.Length) != len(c.Bytes) {
				return fmt.Sprintf("got format %#x length %d buffer %d bytes, want format %#x %d bytes", d.BufferFormat, d.Length, len(d.Buffer), f, len(c.Bytes))
			}
			return ""
		}, func() ([]byte, error) { return d.Marshal() }, nil
	case "OEM_STRING":
		v := types.NewOEM_STRINGFromString(string(c.Bytes))
		d := types.NewOEM_STRING()
		return v, d.Unmarshal, func() string {
			if d.GetString() != string(c.Bytes) {
				return fmt.Sprintf("got %q want %q", d.GetString(), string(c.Bytes))
			}
			// the exported Length and BufferFormat fields are field values like the content
			if d.BufferFormat != v.BufferFormat || int(d.Length) != len(c.Bytes) {
				return fmt.Sprintf("got format %#x length %d, want format %#x length %d", d.BufferFormat, d.Length, v.BufferFormat, len(c.Bytes))
			}
			return ""
		}, func() ([]byte, error) { return d.Marshal() }, nil
	case "SMB_DATE":
		v := types.NewSMB_DATEFromDate(int(n(0)), int(n(1)), int(n(2)))
		d := types.NewSMB_DATE()
		return v, d.Unmarshal, func() string {
			if !sameFields(d, v) {
				return fmt.Sprintf("got %+v want %+v", *d, *v)
			}
			return ""
		}, func() ([]byte, error) { return d.Marshal() }, nil
	case "FILETIME":
		v := &types.FILETIME{DwLowDateTime: uint32(n(0)), DwHighDateTime: uint32(n(1))}
		d := &types.FILETIME{}
		return v, d.Unmarshal, func() string {
			if !sameFields(d, v) {
				return fmt.Sprintf("got %+v want %+v", *d, *v)
			}
			return ""
		}, func() ([]byte, error) { return d.Marshal() }, nil
	case "LOCKING_ANDX_RANGE32":
		v := &types.LOCKING_ANDX_RANGE32{PID: uint16(n(0)), ByteOffset: uint32(n(1)), LengthInBytes: uint32(n(2))}
		d := &types.LOCKING_ANDX_RANGE32{}
		return v, d.Unmarshal, func() string {
			if !sameFields(d, v) {
				return fmt.Sprintf("got %+v want %+v", *d, *v)
			}
			return ""
		}, func() ([]byte, error) { return d.Marshal() }, nil
	case "LOCKING_ANDX_RANGE64":
		v := &types.LOCKING_ANDX_RANGE64{PID: uint16(n(0)), Pad: uint16(n(1)), ByteOffsetHigh: uint32(n(2)), ByteOffsetLow: uint32(n(3)), LengthInBytesHigh: uint32(n(4)), LengthInBytesLow: uint32(n(5))}
		d := &types.LOCKING_ANDX_RANGE64{}
		return v, d.Unmarshal, func() string {
			if !sameFields(d, v) {
				return fmt.Sprintf("got %+v want %+v", *d, *v)
			}
			return ""
		}, func() ([]byte, error) { return d.Marshal() }, nil
	case "SMB_NMPIPE_STATUS":
		v := &types.SMB_NMPIPE_STATUS{ICount: uint8(n(0)), Flags: uint8(n(1))}
		d := &types.SMB_NMPIPE_STATUS{}
		return v, d.Unmarshal, func() string {
			if !sameFields(d, v) {
				return fmt.Sprintf("got %+v want %+v", *d, *v)
			}
			return ""
		}, func() ([]byte, error) { return d.Marshal() }, nil
	case "SMB_RESUME_KEY":
		v := types.NewSMB_RESUME_KEY()
		fillResumeKey(v, c)
		d := types.NewSMB_RESUME_KEY()
		return v, d.Unmarshal, func() string {
			if d.Reserved != v.Reserved || d.ServerState != v.ServerState || d.ClientState != v.ClientState {
				return fmt.Sprintf("got %x %x %x want %x %x %x", d.Reserved, d.ServerState, d.ClientState, v.Reserved, v.ServerState, v.ClientState)
			}
			return ""
		}, func() ([]byte, error) { return d.Marshal() }, nil
	case "SMB_DIRECTORY_INFORMATION":
		v := types.NewSMB_DIRECTORY_INFORMATION()
		v.ResumeKey = *types.NewSMB_RESUME_KEY()
		name := fillDirectoryInformation(v, c)
		trimmed := string(bytes.TrimRight(name, " "))
		d := types.NewSMB_DIRECTORY_INFORMATION()
		return v, d.Unmarshal, func() string {
			if d.ResumeKey.Reserved != v.ResumeKey.Reserved || d.ResumeKey.ServerState != v.ResumeKey.ServerState || d.ResumeKey.ClientState != v.ResumeKey.ClientState {
				return "resume key differs"
			}
			if d.FileAttributes != v.FileAttributes || !sameFields(d.LastWriteTime, v.LastWriteTime) || !sameFields(d.LastWriteDate, v.LastWriteDate) || d.FileSize != v.FileSize {
				return fmt.Sprintf("fixed fields differ: got %+v", *d)
			}
			if string(bytes.TrimRight([]byte(d.FileName.GetString()), " ")) != trimmed {
				return fmt.Sprintf("file name %q want %q (modulo trailing space padding)", d.FileName.GetString(), string(name))
			}
			return ""
		}, func() ([]byte, error) { return d.Marshal() }, nil
	case "SMB_FILE_ATTRIBUTES":
		v := &types.SMB_FILE_ATTRIBUTES{Attributes: uint16(n(0))}
		d := &types.SMB_FILE_ATTRIBUTES{}
		return v, d.Unmarshal, func() string {
			if !sameFields(d, v) {
				return fmt.Sprintf("got %+v want %+v", *d, *v)
			}
			return ""
		}, func() ([]byte, error) { return d.Marshal() }, nil
	case "AndX":
		v := &andx.AndX{AndXCommand: codes.CommandCode(n(0)), AndXReserved: uint8(n(1)), AndXOffset: uint16(n(2))}
		d := andx.NewAndX()
		return v, d.Unmarshal, func() string {
			if !sameFields(d, v) {
				return fmt.Sprintf("got %+v want %+v", *d, *v)
			}
			return ""
		}, func() ([]byte, error) { return d.Marshal() }, nil
	case "Parameters":
		v := parameters.NewParameters()
		for i := 0; i+1 < len(c.Bytes) && i < 510; i += 2 {
			v.Words = append(v.Words, uint16(c.Bytes[i])<<8|uint16(c.Bytes[i+1]))
		}
		v.WordCount = uint8(len(v.Words))
		d := parameters.NewParameters()
		return v, d.Unmarshal, func() string {
			if d.WordCount != v.WordCount || !sameFields(d.Words, v.Words) {
				return fmt.Sprintf("got %d words want %d", len(d.Words), len(v.Words))
			}
			return ""
		}, func() ([]byte, error) { return d.Marshal() }, nil
	case "Data":
		v := data.NewData()
		v.SetData(append([]byte{}, c.Bytes...))
		d := data.NewData()
		return v, d.Unmarshal, func() string {
			if d.ByteCount != v.ByteCount || !bytes.Equal(d.Bytes, v.Bytes) {
				return fmt.Sprintf("got count %d/%d bytes want %d", d.ByteCount, len(d.Bytes), len(v.Bytes))
			}
			return ""
		}, func() ([]byte, error) { return d.Marshal() }, nil
	case "Version":
		v := version.Version{ProductMajorVersion: uint8(n(0)), ProductMinorVersion: uint8(n(1)), ProductBuild: uint16(n(2)), Reserved: [3]byte{uint8(n(3)), uint8(n(3) >> 8), uint8(n(3) >> 16)}, NTLMRevision: uint8(n(4))}
		d := &version.Version{}
		return v, d.Unmarshal, func() string {
			if !sameFields(d, v) {
				return fmt.Sprintf("got %+v want %+v", *d, v)
			}
			return ""
		}, func() ([]byte, error) { return d.Marshal() }, nil
	}
	return nil, nil, nil, nil, fmt.Errorf("unknown type %s", c.Type)
}

func checkWire(c wireCase) []vf.Finding {
	v, decode, same, reenc, err := build(c)
	if err != nil {
		return []vf.Finding{vf.F("harness", "bad-case", "%v", err)}
	}
	enc, err := v.Marshal()
	if err != nil {
		return []vf.Finding{vf.F(c.Type+".Marshal", "value-in-domain-rejected", "%v", err)}
	}
	enc = append([]byte{}, enc...)
	in := append(append([]byte{}, enc...), c.Suffix...)
	if c.Prev != nil {
		if pv, _, _, _, perr := build(*c.Prev); perr == nil {
			if penc, perr := pv.Marshal(); perr == nil {
				decode(append([]byte{}, penc...)) // outcome irrelevant: it only dirties the receiver
			}
		}
	}
	n, err := decode(in)
	if err != nil {
		kind := "own-encoding-rejected"
		if len(c.Suffix) > 0 {
			// does it at least accept the bare encoding?
			_, decode2, _, _, _ := build(c)
			if _, err2 := decode2(append([]byte{}, enc...)); err2 == nil {
				kind = "own-encoding-rejected-when-followed-by-trailing-bytes"
			}
		}
		return []vf.Finding{vf.F(c.Type+".Unmarshal", kind, "%v (encoding %x, %d trailing bytes)", err, enc[:min(len(enc), 40)], len(c.Suffix))}
	}
	var fs []vf.Finding
	if n != len(enc) {
		fs = append(fs, vf.F(c.Type+".Unmarshal", "consumed-differs-from-encoding-length", "consumed %d, encoding is %d bytes (%d trailing bytes)", n, len(enc), len(c.Suffix)))
	}
	if msg := same(); msg != "" {
		fs = append(fs, vf.F(c.Type+".Unmarshal", "decoded-fields-differ", "%s", msg))
	}
	if again, err := reenc(); err != nil || !bytes.Equal(again, enc) {
		fs = append(fs, vf.F(c.Type+".Marshal", "reencoding-decoded-value-differs", "err %v: %x vs %x", err, again[:min(len(again), 40)], enc[:min(len(enc), 40)]))
	}
	return fs
}

// ---- generators ----------------------------------------------------------------------------------

var allTypes = []string{"SMB_STRING/01", "SMB_STRING/02", "SMB_STRING/03", "SMB_STRING/04", "SMB_STRING/05", "OEM_STRING", "SMB_DATE", "FILETIME",
	"LOCKING_ANDX_RANGE32", "LOCKING_ANDX_RANGE64", "SMB_NMPIPE_STATUS", "SMB_RESUME_KEY", "SMB_DIRECTORY_INFORMATION", "SMB_FILE_ATTRIBUTES", "AndX", "Parameters", "Data", "Version"}

func nulFree(t string) bool { return t == "SMB_STRING/02" || t == "SMB_STRING/04" || t == "OEM_STRING" }

func genSuffix(t *rapid.T) vf.Hex {
	switch rapid.IntRange(0, 4).Draw(t, "suffixClass") {
	case 0:
		return nil
	case 1:
		// starts with NUL or a plausible format byte
		b := rapid.SliceOfN(rapid.Byte(), 0, 8).Draw(t, "suffixTail")
		return append([]byte{rapid.SampledFrom([]byte{0, 1, 2, 3, 4, 5, 0xFF}).Draw(t, "suffixHead")}, b...)
	default:
		return rapid.SliceOfN(rapid.Byte(), 1, 16).Draw(t, "suffix")
	}
}

func genLen(t *rapid.T, max int) int {
	switch rapid.IntRange(0, 5).Draw(t, "lenClass") {
	case 0:
		return rapid.SampledFrom([]int{0, 1, 2, 254, 255, 256, 257}).Draw(t, "lenEdge")
	case 1:
		if max >= 65535 {
			return rapid.SampledFrom([]int{65534, 65535, 32768}).Draw(t, "lenMax")
		}
		return max
	case 2:
		return rapid.IntRange(0, max).Draw(t, "len")
	default:
		return rapid.IntRange(0, 40).Draw(t, "lenSmall")
	}
}

func genWire(t *rapid.T, typ string) wireCase {
	c := wireCase{Type: typ, Suffix: genSuffix(t)}
	switch typ {
	case "SMB_STRING/01", "SMB_STRING/02", "SMB_STRING/03", "SMB_STRING/04", "SMB_STRING/05", "OEM_STRING", "Data":
		max := 65535
		if !vf.Thorough() && rapid.IntRange(0, 9).Draw(t, "big") != 0 {
			max = 600
		}
		n := genLen(t, max)
		b := rapid.SliceOfN(rapid.Byte(), n, n).Draw(t, "bytes")
		if nulFree(typ) {
			for i := range b {
				if b[i] == 0 {
					b[i] = 0x7f
				}
			}
		}
		c.Bytes = b
	case "Parameters":
		n := 2 * rapid.IntRange(0, 255).Draw(t, "words")
		c.Bytes = rapid.SliceOfN(rapid.Byte(), n, n).Draw(t, "bytes")
	case "SMB_RESUME_KEY":
		c.Bytes = rapid.SliceOfN(rapid.Byte(), 21, 21).Draw(t, "bytes")
	case "SMB_DIRECTORY_INFORMATION":
		c.Bytes = rapid.SliceOfN(rapid.Byte(), 33, 33).Draw(t, "bytes")
		// file-name bytes: half of the cases draw them from a file-name-like alphabet in which the
		// space is frequent, so that names with interior, leading and trailing spaces all occur
		if rapid.Bool().Draw(t, "nameAlphabet") {
			for i := 21; i < 33; i++ {
				c.Bytes[i] = rapid.SampledFrom([]byte{' ', ' ', ' ', 'A', 'z', '0', '.', '~', '_', 0xE9}).Draw(t, "nameChar")
			}
		}
		c.Nums = []uint64{uint64(rapid.Byte().Draw(t, "attr")), uint64(rapid.Uint32().Draw(t, "tlo")), uint64(rapid.Uint32().Draw(t, "thi")), uint64(rapid.Uint32().Draw(t, "date")), uint64(rapid.Uint32().Draw(t, "size")), uint64(rapid.IntRange(0, 12).Draw(t, "nameLen"))}
	case "SMB_DATE":
		c.Nums = []uint64{uint64(rapid.IntRange(1980, 2107).Draw(t, "y")), uint64(rapid.IntRange(0, 15).Draw(t, "m")), uint64(rapid.IntRange(0, 31).Draw(t, "d"))}
	default:
		for i := 0; i < 6; i++ {
			c.Nums = append(c.Nums, rapid.Uint64().Draw(t, "num"))
		}
	}
	return c
}

func wireNontrivial(c wireCase) bool {
	if len(c.Suffix) == 0 {
		return false
	}
	for _, b := range c.Bytes {
		if b != 0 {
			return true
		}
	}
	for _, n := range c.Nums {
		if n != 0 {
			return true
		}
	}
	return false
}

func runType(t *testing.T, typ string) {
	s := vf.Begin(t, P, typ+"-roundtrip")
	vf.Rapid(s, vf.N(2500, 50000), func(t *rapid.T) wireCase {
		c := genWire(t, typ)
		if rapid.IntRange(0, 3).Draw(t, "reusedReceiver") == 0 {
			p := genWire(t, typ)
			p.Suffix = nil
			c.Prev = &p
			s.Class("receiver-reused")
		}
		return c
	}, checkWire, wireNontrivial)
}

func TestRT_SMB_STRING_01(t *testing.T)             { runType(t, "SMB_STRING/01") }
func TestRT_SMB_STRING_02(t *testing.T)             { runType(t, "SMB_STRING/02") }
func TestRT_SMB_STRING_03(t *testing.T)             { runType(t, "SMB_STRING/03") }
func TestRT_SMB_STRING_04(t *testing.T)             { runType(t, "SMB_STRING/04") }
func TestRT_SMB_STRING_05(t *testing.T)             { runType(t, "SMB_STRING/05") }
func TestRT_OEM_STRING(t *testing.T)                { runType(t, "OEM_STRING") }
func TestRT_SMB_DATE(t *testing.T)                  { runType(t, "SMB_DATE") }
func TestRT_FILETIME(t *testing.T)                  { runType(t, "FILETIME") }
func TestRT_LOCKING_ANDX_RANGE32(t *testing.T)      { runType(t, "LOCKING_ANDX_RANGE32") }
func TestRT_LOCKING_ANDX_RANGE64(t *testing.T)      { runType(t, "LOCKING_ANDX_RANGE64") }
func TestRT_SMB_NMPIPE_STATUS(t *testing.T)         { runType(t, "SMB_NMPIPE_STATUS") }
func TestRT_SMB_RESUME_KEY(t *testing.T)            { runType(t, "SMB_RESUME_KEY") }
func TestRT_SMB_DIRECTORY_INFORMATION(t *testing.T) { runType(t, "SMB_DIRECTORY_INFORMATION") }
func TestRT_SMB_FILE_ATTRIBUTES(t *testing.T)       { runType(t, "SMB_FILE_ATTRIBUTES") }
func TestRT_AndX(t *testing.T)                      { runType(t, "AndX") }
func TestRT_Parameters(t *testing.T)                { runType(t, "Parameters") }
func TestRT_Data(t *testing.T)                      { runType(t, "Data") }
func TestRT_Version(t *testing.T)                   { runType(t, "Version") }

// ---- exhaustive words ---------------------------------------------------------------------------------

type wordCase struct {
	Type string `json:"type"`
	Word uint16 `json:"word"`
}

func TestWordsExhaustive(t *testing.T) {
	s := vf.Begin(t, P, "date-pipestatus-attributes-exhaustive")
	s.SetExhaustive()
	s.Note("all 65536 16-bit words through SMB_DATE, SMB_NMPIPE_STATUS and SMB_FILE_ATTRIBUTES: decode(word) -> encode == word, and decode(word||suffix) consumes 2 bytes")
	vf.Enum(s, func(yield func(wordCase)) {
		for _, typ := range []string{"SMB_DATE", "SMB_NMPIPE_STATUS", "SMB_FILE_ATTRIBUTES"} {
			for w := 0; w < 65536; w++ {
				yield(wordCase{typ, uint16(w)})
			}
		}
	}, func(c wordCase) []vf.Finding {
		raw := []byte{byte(c.Word), byte(c.Word >> 8)}
		var fs []vf.Finding
		for _, suffix := range [][]byte{nil, {0x00}, {0xAA, 0x55, 0x01}} {
			in := append(append([]byte{}, raw...), suffix...)
			var n int
			var err error
			var again []byte
			switch c.Type {
			case "SMB_DATE":
				d := types.NewSMB_DATE()
				n, err = d.Unmarshal(in)
				if err == nil {
					again, _ = d.Marshal()
					if d.Year < 1980 || d.Year > 2107 || d.Month > 15 || d.Day > 31 {
						fs = append(fs, vf.F("SMB_DATE.Unmarshal", "fields-outside-representable-domain", "word %#04x -> %+v", c.Word, *d))
					}
				}
			case "SMB_NMPIPE_STATUS":
				d := &types.SMB_NMPIPE_STATUS{}
				n, err = d.Unmarshal(in)
				if err == nil {
					again, _ = d.Marshal()
				}
			default:
				d := &types.SMB_FILE_ATTRIBUTES{}
				n, err = d.Unmarshal(in)
				if err == nil {
					again, _ = d.Marshal()
				}
			}
			if err != nil {
				kind := "own-encoding-rejected"
				if len(suffix) > 0 {
					kind = "own-encoding-rejected-when-followed-by-trailing-bytes"
				}
				fs = append(fs, vf.F(c.Type+".Unmarshal", kind, "word %#04x + %d trailing bytes: %v", c.Word, len(suffix), err))
				continue
			}
			if n != 2 {
				fs = append(fs, vf.F(c.Type+".Unmarshal", "consumed-differs-from-encoding-length", "word %#04x: consumed %d", c.Word, n))
			}
			if !bytes.Equal(again, raw) {
				fs = append(fs, vf.F(c.Type+".Marshal", "reencoding-decoded-value-differs", "word %#04x -> %x", c.Word, again))
			}
		}
		return fs
	}, func(c wordCase) bool { return c.Word != 0 })
}

// every string length 0..N for each string format (thorough: 0..4096), with a one-byte suffix
func TestStringLengthsExhaustive(t *testing.T) {
	s := vf.Begin(t, P, "string-lengths-exhaustive")
	s.SetExhaustive()
	max := vf.Size(700, 4096)
	s.Note("every buffer length 0..%d for the five SMB_STRING formats and OEM_STRING, plus 65534 and 65535", max)
	vf.Enum(s, func(yield func(wireCase)) {
		for _, typ := range allTypes[:6] {
			lens := []int{}
			for n := 0; n <= max; n++ {
				lens = append(lens, n)
			}
			lens = append(lens, 65534, 65535)
			for _, n := range lens {
				b := make([]byte, n)
				for i := range b {
					b[i] = byte(1 + i%250)
				}
				yield(wireCase{Type: typ, Bytes: b, Suffix: []byte{byte(n), 0x02}})
			}
		}
	}, checkWire, func(c wireCase) bool { return len(c.Bytes) > 0 })
}

// ---- an encoding stays what it was when another value is encoded afterwards ---------------------------------
//
// "Decodes its own encoding back": the bytes Marshal returned are the caller's. They are kept as returned (not
// copied), a second, different value of the same type is encoded, and then the first slice is decoded: it must
// still give the first value and be consumed entirely. (An encoder that hands out a shared scratch buffer
// passes every check that copies or decodes the result at once.)

type keptCase struct {
	First  wireCase `json:"first_value"`
	Second wireCase `json:"second_value"`
}

func checkKept(c keptCase) []vf.Finding {
	v1, decode, same, _, err := build(c.First)
	if err != nil {
		return []vf.Finding{vf.F("harness", "bad-case", "%v", err)}
	}
	v2, _, _, _, err := build(c.Second)
	if err != nil {
		return []vf.Finding{vf.F("harness", "bad-case", "%v", err)}
	}
	e1, err := v1.Marshal()
	if err != nil {
		return nil // a value the encoder refuses: the round-trip sub-check of the type reports it
	}
	snapshot := append([]byte{}, e1...)
	// a value whose encoding does not decode back even from a copy taken at once is the round-trip sub-check's
	// finding; only what the later Marshal does to the kept slice is judged here
	if _, decodeCopy, sameCopy, _, err := build(c.First); err != nil {
		return []vf.Finding{vf.F("harness", "bad-case", "%v", err)}
	} else if n, err := decodeCopy(append([]byte{}, snapshot...)); err != nil || n != len(snapshot) || sameCopy() != "" {
		return nil
	}
	if _, err := v2.Marshal(); err != nil {
		return nil
	}
	detail := "the kept bytes are unchanged"
	if !bytes.Equal(e1, snapshot) {
		detail = fmt.Sprintf("the kept bytes changed from %x to %x", snapshot[:min(len(snapshot), 24)], e1[:min(len(e1), 24)])
	}
	n, err := decode(e1)
	if err != nil {
		return []vf.Finding{vf.F(c.First.Type+".Marshal", "encoding-not-kept-across-later-marshal", "after encoding another value the first encoding is rejected: %v (%s)", err, detail)}
	}
	if msg := same(); msg != "" || n != len(snapshot) {
		return []vf.Finding{vf.F(c.First.Type+".Marshal", "encoding-not-kept-across-later-marshal", "after encoding another value the first encoding decodes differently (consumed %d of %d): %s (%s)", n, len(snapshot), msg, detail)}
	}
	return nil
}

func TestEncodingKept(t *testing.T) {
	s := vf.Begin(t, P, "encoding-kept-across-marshal")
	per := vf.N(150, 600)
	idx := 0
	vf.Rapid(s, len(allTypes)*per, func(t *rapid.T) keptCase {
		typ := allTypes[(idx/per)%len(allTypes)]
		idx++
		a, b := genWire(t, typ), genWire(t, typ)
		a.Suffix, b.Suffix = nil, nil
		return keptCase{a, b}
	}, func(c keptCase) []vf.Finding {
		s.Class("type:" + c.First.Type)
		return checkKept(c)
	}, func(c keptCase) bool {
		return !bytes.Equal(c.First.Bytes, c.Second.Bytes) || !reflect.DeepEqual(c.First.Nums, c.Second.Nums)
	})
}

// ---- parameter and data blocks built through their own methods ----------------------------------------------
//
// The round trips above assign WordCount/Words and ByteCount/Bytes (or call SetData once). A caller builds a block
// with the methods the types offer: Parameters.AddWord ("adds the provided word ... and updates the WordCount
// field to reflect the new count"), Parameters.AddWordsFromBytesStream (two bytes per word, high byte first),
// Data.Add (appends) and Data.SetData (replaces). After any sequence of such calls that stays inside the block
// limits (255 words, 65535 bytes) the block is a value in the type's domain: it must encode, and the encoding
// must decode to as many words as were added, equal to the built block's (exactly the bytes that were added, for Data), consuming exactly its own length.

type apiStep struct {
	Op    string `json:"op"` // AddWord, AddWordsFromBytesStream, Add, SetData
	Word  uint16 `json:"word,omitempty"`
	Bytes vf.Hex `json:"bytes,omitempty"`
}

type apiCase struct {
	Type   string    `json:"type"` // Parameters, Data
	Steps  []apiStep `json:"steps"`
	Suffix vf.Hex    `json:"suffix,omitempty"`
}

func (c apiCase) subject() string {
	seen := map[string]bool{}
	for _, st := range c.Steps {
		seen[st.Op] = true
	}
	var ops []string
	for _, op := range []string{"AddWord", "AddWordsFromBytesStream", "Add", "SetData"} {
		if seen[op] {
			ops = append(ops, op)
		}
	}
	if len(ops) == 0 {
		return c.Type + "/no-call"
	}
	out := c.Type + "/" + ops[0]
	for _, op := range ops[1:] {
		out += "+" + op
	}
	return out
}

func checkBlockAPI(c apiCase) []vf.Finding {
	subject := c.subject()
	var enc marshaler
	var decode func([]byte) (int, error)
	var same func() string
	var reenc func() ([]byte, error)
	switch c.Type {
	case "Parameters":
		v := parameters.NewParameters()
		var words []uint16
		for _, st := range c.Steps {
			switch st.Op {
			case "AddWord":
				v.AddWord(st.Word)
				words = append(words, st.Word)
			case "AddWordsFromBytesStream":
				b := st.Bytes[:len(st.Bytes)&^1] // whole words only
				v.AddWordsFromBytesStream(append([]byte{}, b...))
				for i := 0; i+1 < len(b); i += 2 {
					words = append(words, uint16(b[i])<<8|uint16(b[i+1]))
				}
			default:
				return []vf.Finding{vf.F("harness", "bad-case", "step %s on Parameters", st.Op)}
			}
		}
		if len(words) > 255 {
			return []vf.Finding{vf.F("harness", "bad-case", "%d words", len(words))}
		}
		d := parameters.NewParameters()
		enc, decode, reenc = v, d.Unmarshal, func() ([]byte, error) { return d.Marshal() }
		same = func() string {
			if int(d.WordCount) != len(words) || len(d.Words) != len(words) {
				return fmt.Sprintf("decoded WordCount %d and %d words, %d words were added", d.WordCount, len(d.Words), len(words))
			}
			// the decoded block against the block that was built, field by field (how a word is held in
			// memory is the type's own business: only that it comes back the same is asked)
			if d.WordCount != v.WordCount || !sameFields(d.Words, v.Words) || !bytes.Equal(d.GetBytes(), v.GetBytes()) {
				return fmt.Sprintf("decoded words %x, built words %x", d.GetBytes(), v.GetBytes())
			}
			return ""
		}
	case "Data":
		v := data.NewData()
		var content []byte
		for _, st := range c.Steps {
			switch st.Op {
			case "Add":
				v.Add(append([]byte{}, st.Bytes...))
				content = append(content, st.Bytes...)
			case "SetData":
				v.SetData(append([]byte{}, st.Bytes...))
				content = append([]byte{}, st.Bytes...)
			default:
				return []vf.Finding{vf.F("harness", "bad-case", "step %s on Data", st.Op)}
			}
		}
		if len(content) > 65535 {
			return []vf.Finding{vf.F("harness", "bad-case", "%d bytes", len(content))}
		}
		d := data.NewData()
		enc, decode, reenc = v, d.Unmarshal, func() ([]byte, error) { return d.Marshal() }
		same = func() string {
			if int(d.ByteCount) != len(content) || !bytes.Equal(d.Bytes, content) {
				return fmt.Sprintf("decoded ByteCount %d and %d bytes, %d bytes were added", d.ByteCount, len(d.Bytes), len(content))
			}
			return ""
		}
	default:
		return []vf.Finding{vf.F("harness", "bad-case", "unknown type %s", c.Type)}
	}
	got, err := enc.Marshal()
	if err != nil {
		return []vf.Finding{vf.F(subject, "block-built-through-methods-rejected", "%d calls: %v", len(c.Steps), err)}
	}
	got = append([]byte{}, got...)
	n, err := decode(append(append([]byte{}, got...), c.Suffix...))
	if err != nil {
		return []vf.Finding{vf.F(subject, "own-encoding-rejected", "%v (encoding %x, %d trailing bytes)", err, got[:min(len(got), 40)], len(c.Suffix))}
	}
	var fs []vf.Finding
	if n != len(got) {
		fs = append(fs, vf.F(subject, "consumed-differs-from-encoding-length", "consumed %d, encoding is %d bytes (%d trailing bytes)", n, len(got), len(c.Suffix)))
	}
	if msg := same(); msg != "" {
		fs = append(fs, vf.F(subject, "decoded-fields-differ", "%s", msg))
	}
	if again, err := reenc(); err != nil || !bytes.Equal(again, got) {
		fs = append(fs, vf.F(subject, "reencoding-decoded-value-differs", "err %v: %x vs %x", err, again[:min(len(again), 40)], got[:min(len(got), 40)]))
	}
	return fs
}

// ---- a decoded data block that is extended afterwards ----------------------------------------------------------
//
// "... also when the encoding is followed by unrelated trailing bytes": the trailing bytes are the caller's - here the
// next block of the same buffer. A data block is decoded from the head of a buffer that holds a second block behind
// it, the decoded block is extended through its own method (Data.Add: "appends the given bytes to the existing
// bytes"), and then the second block is decoded from where the first one ended: it must still be the block the
// caller put there, and the first one must hold its content followed by what was added. (A decoder that keeps a
// slice of the input with the input's capacity lets Add write over what follows.)

type extendCase struct {
	First  vf.Hex `json:"first_block"`
	Second vf.Hex `json:"second_block"`
	Added  vf.Hex `json:"added_to_the_decoded_first"`
}

func checkExtend(c extendCase) []vf.Finding {
	block := func(b []byte) []byte { return append([]byte{byte(len(b)), byte(len(b) >> 8)}, b...) }
	buf := append(block(c.First), block(c.Second)...)
	buf = buf[:len(buf):len(buf)]
	a := data.NewData()
	n, err := a.Unmarshal(buf)
	if err != nil || n != 2+len(c.First) || !bytes.Equal(a.Bytes, c.First) {
		return nil // Data-roundtrip reports a block that does not decode
	}
	a.Add(append([]byte{}, c.Added...))
	var fs []vf.Finding
	if want := append(append([]byte{}, c.First...), c.Added...); !bytes.Equal(a.Bytes, want) || int(a.ByteCount) != len(want) {
		fs = append(fs, vf.F("Data.Add", "decoded-block-not-extended", "decoded %d bytes, added %d: holds %d bytes (ByteCount %d)", len(c.First), len(c.Added), len(a.Bytes), a.ByteCount))
	}
	b := data.NewData()
	m, err := b.Unmarshal(buf[n:])
	if err != nil || m != 2+len(c.Second) || !bytes.Equal(b.Bytes, c.Second) {
		fs = append(fs, vf.F("Data.Unmarshal", "later-block-overwritten-through-decoded-block", "two blocks (%d and %d bytes) in one buffer; after the first was decoded and %d bytes were added to it with Add, the second decodes as %d bytes (err %v): the buffer behind the first block reads %x, the caller wrote %x", len(c.First), len(c.Second), len(c.Added), len(b.Bytes), err, buf[n:min(len(buf), n+12)], block(c.Second)[:min(2+len(c.Second), 12)]))
	}
	return fs
}

func TestDecodedBlockExtended(t *testing.T) {
	s := vf.Begin(t, P, "decoded-block-then-extended")
	vf.Rapid(s, vf.N(3000, 40000), func(t *rapid.T) extendCase {
		return extendCase{rapid.SliceOfN(rapid.Byte(), 0, 24).Draw(t, "first"), rapid.SliceOfN(rapid.Byte(), 0, 24).Draw(t, "second"), rapid.SliceOfN(rapid.Byte(), 1, 12).Draw(t, "added")}
	}, checkExtend, func(c extendCase) bool { return len(c.Second) > 0 })
}

func TestBlocksThroughMethods(t *testing.T) {
	s := vf.Begin(t, P, "blocks-built-through-methods")
	vf.Rapid(s, vf.N(3000, 12000), func(t *rapid.T) apiCase {
		c := apiCase{Type: rapid.SampledFrom([]string{"Parameters", "Data"}).Draw(t, "type"), Suffix: genSuffix(t)}
		steps := rapid.IntRange(0, 6).Draw(t, "steps")
		if c.Type == "Parameters" {
			room := 255
			for i := 0; i < steps && room > 0; i++ {
				if rapid.Bool().Draw(t, "single") {
					c.Steps = append(c.Steps, apiStep{Op: "AddWord", Word: rapid.Uint16().Draw(t, "word")})
					room--
					continue
				}
				k := min(room, rapid.SampledFrom([]int{0, 1, 2, 3, 17, 127, 128, 255}).Draw(t, "words"))
				c.Steps = append(c.Steps, apiStep{Op: "AddWordsFromBytesStream", Bytes: rapid.SliceOfN(rapid.Byte(), 2*k, 2*k).Draw(t, "stream")})
				room -= k
			}
			return c
		}
		room := 65535
		for i := 0; i < steps; i++ {
			op := rapid.SampledFrom([]string{"Add", "Add", "SetData"}).Draw(t, "op")
			if op == "SetData" {
				room = 65535
			}
			k := min(room, genLen(t, vf.Size(2000, 65535)))
			// a drawn unit of one to seven bytes repeated: what matters for a long block is its length
			unit := rapid.SliceOfN(rapid.Byte(), 1, 7).Draw(t, "unit")
			b := make([]byte, k)
			for j := range b {
				b[j] = unit[j%len(unit)]
			}
			c.Steps = append(c.Steps, apiStep{Op: op, Bytes: b})
			room -= k
		}
		return c
	}, func(c apiCase) []vf.Finding {
		s.Class(c.subject())
		return checkBlockAPI(c)
	}, func(c apiCase) bool { return len(c.Steps) >= 2 })
}

// ---- a value that was encoded or decoded before, is given other field values and is encoded again -------------
//
// "Decodes its own encoding back to equal field values": the field values are the ones the value holds when it is
// encoded. A caller keeps a value, sends it, updates its fields (a server updating the resume key it received)
// and sends it again. The value is first primed (Marshal, Unmarshal of an encoding of the first field values, or
// both), then given the second field values the way a caller assigns them - the type's own fields, never the
// space the codec works in (the SMB_STRING embedded in a resume key) - and encoded: the encoding must decode, in
// a fresh receiver, to the second field values and be consumed exactly. (An encoder that keeps what it computed
// at an earlier call passes every check that encodes a freshly built value once.)

type changedCase struct {
	First  wireCase `json:"first_value"`
	Second wireCase `json:"second_value"`
	Prime  string   `json:"primed_by"` // marshal, unmarshal, both
}

type unmarshaler interface{ Unmarshal([]byte) (int, error) }

// addressable returns v itself when it is a pointer, otherwise a pointer to a copy of it (NTLM Version is built
// as a plain value; its Unmarshal needs a variable).
func addressable(v marshaler) marshaler {
	rv := reflect.ValueOf(v)
	if rv.Kind() == reflect.Ptr {
		return v
	}
	p := reflect.New(rv.Type())
	p.Elem().Set(rv)
	if m, ok := p.Interface().(marshaler); ok {
		return m
	}
	return v
}

// assignExported assigns the exported fields of src to dst one by one (recursively through exported struct
// members, such as the SMB_STRING inside an OEM_STRING): what a caller outside the package can assign.
func assignExported(dst, src reflect.Value) bool {
	if dst.Kind() != reflect.Struct || dst.Type() != src.Type() || !dst.CanSet() {
		return false
	}
	for i := 0; i < dst.NumField(); i++ {
		if !dst.Type().Field(i).IsExported() {
			continue
		}
		if dst.Field(i).Kind() == reflect.Struct {
			if !assignExported(dst.Field(i), src.Field(i)) {
				return false
			}
			continue
		}
		dst.Field(i).Set(src.Field(i))
	}
	return true
}

// change gives v the field values of the case second, the way a caller would; false when the value cannot be
// changed in place.
func change(v marshaler, second wireCase) bool {
	switch x := v.(type) {
	case *types.SMB_RESUME_KEY:
		fillResumeKey(x, second)
		return true
	case *types.SMB_DIRECTORY_INFORMATION:
		fillDirectoryInformation(x, second)
		return true
	}
	fresh, _, _, _, err := build(second)
	if err != nil {
		return false
	}
	dst, src := reflect.ValueOf(v), reflect.ValueOf(addressable(fresh))
	if dst.Kind() != reflect.Ptr || src.Kind() != reflect.Ptr || dst.Type() != src.Type() {
		return false
	}
	return assignExported(dst.Elem(), src.Elem())
}

// freshRoundTrip: does a freshly built value of the case encode and decode back (followed by suffix) at all?
func freshRoundTrip(c wireCase, suffix []byte) bool {
	v, decode, same, _, err := build(c)
	if err != nil {
		return false
	}
	enc, err := v.Marshal()
	if err != nil {
		return false
	}
	n, err := decode(append(append([]byte{}, enc...), suffix...))
	return err == nil && n == len(enc) && same() == ""
}

// checkChanged returns the findings and whether the case was judged at all.
func checkChanged(c changedCase) (fs []vf.Finding, judged bool) {
	built, _, _, _, err := build(c.First)
	if err != nil {
		return []vf.Finding{vf.F("harness", "bad-case", "%v", err)}, false
	}
	if c.Second.Type != c.First.Type {
		return []vf.Finding{vf.F("harness", "bad-case", "types %s and %s", c.First.Type, c.Second.Type)}, false
	}
	v := addressable(built)
	// 1. prime
	if c.Prime == "marshal" || c.Prime == "both" {
		if _, err := v.Marshal(); err != nil {
			return nil, false // the round-trip sub-check of the type reports a value the encoder refuses
		}
	}
	if c.Prime == "unmarshal" || c.Prime == "both" {
		other, _, _, _, _ := build(c.First)
		e1, err := other.Marshal()
		if err != nil {
			return nil, false
		}
		if u, ok := v.(unmarshaler); ok {
			u.Unmarshal(append([]byte{}, e1...)) // outcome irrelevant: it only puts the receiver in the state of a value that was received
		} else if c.Prime == "unmarshal" {
			return nil, false
		}
	}
	// 2. the caller assigns other field values
	if !change(v, c.Second) {
		return nil, false
	}
	// 3. what a freshly built value with the second field values already does not do is the round-trip sub-check's
	// finding (also when only the trailing bytes are what it stumbles over: they are left out then)
	suffix := []byte(c.Second.Suffix)
	if !freshRoundTrip(c.Second, suffix) {
		if len(suffix) == 0 || !freshRoundTrip(c.Second, nil) {
			return nil, false
		}
		suffix = nil
	}
	// 4. encode the changed value; a fresh receiver must get the second field values back
	subject := c.First.Type + ".Marshal"
	enc2, err := v.Marshal()
	if err != nil {
		return []vf.Finding{vf.F(subject, "changed-value-rejected", "a value primed by %s and then given other field values is refused (a freshly built value with the same field values encodes): %v", c.Prime, err)}, true
	}
	enc2 = append([]byte{}, enc2...)
	_, decode, same, _, _ := build(c.Second)
	n, err := decode(append(append([]byte{}, enc2...), suffix...))
	if err != nil {
		return []vf.Finding{vf.F(subject, "encoding-of-changed-value-rejected", "primed by %s: %v (encoding %x, %d trailing bytes)", c.Prime, err, enc2[:min(len(enc2), 40)], len(suffix))}, true
	}
	msg := same()
	if msg == "" && n == len(enc2) {
		return nil, true
	}
	kind := "encoding-of-changed-value-differs"
	if msg != "" {
		// are these the field values the value held before it was changed?
		if _, decode1, same1, _, err := build(c.First); err == nil {
			if _, err := decode1(append([]byte{}, enc2...)); err == nil && same1() == "" {
				kind = "encoding-reflects-earlier-value"
			}
		}
	}
	return []vf.Finding{vf.F(subject, kind, "primed by %s, then given other field values: the encoding decodes differently from them (consumed %d of %d): %s (encoding %x)", c.Prime, n, len(enc2), msg, enc2[:min(len(enc2), 40)])}, true
}

// variableLength: the types whose encoding has a length that depends on the field values.
func variableLength(typ string) bool {
	switch typ {
	case "SMB_STRING/01", "SMB_STRING/02", "SMB_STRING/03", "SMB_STRING/04", "SMB_STRING/05", "OEM_STRING", "Data", "Parameters", "SMB_DIRECTORY_INFORMATION":
		return true
	}
	return false
}

func sameLength(a, b wireCase) bool {
	if a.Type == "SMB_DIRECTORY_INFORMATION" { // the file name length
		return len(a.Nums) > 5 && len(b.Nums) > 5 && a.Nums[5]%13 == b.Nums[5]%13
	}
	return len(a.Bytes) == len(b.Bytes)
}

func TestChangedThenEncoded(t *testing.T) {
	s := vf.Begin(t, P, "value-changed-then-encoded")
	per := vf.N(150, 600)
	idx := 0
	vf.Rapid(s, len(allTypes)*per, func(t *rapid.T) changedCase {
		typ := allTypes[(idx/per)%len(allTypes)]
		idx++
		a, b := genWire(t, typ), genWire(t, typ)
		a.Suffix = nil
		// one case in three: the second field values have the length of the first (an encoder that keeps
		// something it computed earlier and tells by the length whether it is still good)
		if variableLength(typ) && rapid.IntRange(0, 2).Draw(t, "sameLength") == 0 {
			if typ == "SMB_DIRECTORY_INFORMATION" {
				b.Nums[5] = a.Nums[5]
			} else {
				unit := rapid.SliceOfN(rapid.Byte(), 1, 7).Draw(t, "unit")
				b.Bytes = make([]byte, len(a.Bytes))
				for i := range b.Bytes {
					b.Bytes[i] = a.Bytes[i] ^ unit[i%len(unit)]
					if b.Bytes[i] == 0 && nulFree(typ) {
						b.Bytes[i] = 0x7f
					}
				}
			}
		}
		return changedCase{a, b, rapid.SampledFrom([]string{"marshal", "unmarshal", "both"}).Draw(t, "prime")}
	}, func(c changedCase) []vf.Finding {
		fs, judged := checkChanged(c)
		if !judged {
			s.Class("not-judged")
			return fs
		}
		s.Class("type:"+c.First.Type, "prime:"+c.Prime)
		if variableLength(c.First.Type) && sameLength(c.First, c.Second) {
			s.Class("same-length:" + c.First.Type)
		}
		return fs
	}, func(c changedCase) bool {
		return !bytes.Equal(c.First.Bytes, c.Second.Bytes) || !reflect.DeepEqual(c.First.Nums, c.Second.Nums)
	})
}
