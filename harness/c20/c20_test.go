// Package c20: address, port-range and hash-credential parsers match standard semantics.
package c20

import (
	"fmt"
	"math/big"
	"net"
	"reflect"
	"strings"
	"testing"
	"unicode"

	"pgregory.net/rapid"

	"github.com/TheManticoreProject/Manticore/network/ip"
	"github.com/TheManticoreProject/Manticore/windows/credentials"

	"manticoreverif/vf"
)

const P = "C20"

type v4 struct {
	Addr uint32 `json:"addr"`
	Bits uint8  `json:"prefix"`
}

func (a v4) lib() *ip.IPv4 {
	return ip.NewIPv4(uint8(a.Addr>>24), uint8(a.Addr>>16), uint8(a.Addr>>8), uint8(a.Addr), a.Bits)
}
func (a v4) String() string {
	return fmt.Sprintf("%d.%d.%d.%d/%d", uint8(a.Addr>>24), uint8(a.Addr>>16), uint8(a.Addr>>8), uint8(a.Addr), a.Bits)
}

func mask(bits uint8) uint32 {
	if bits == 0 {
		return 0
	}
	return ^uint32(0) << (32 - uint32(bits))
}

func genAddr(t *rapid.T, label string) uint32 {
	switch rapid.IntRange(0, 3).Draw(t, label+"Class") {
	case 0:
		return rapid.SampledFrom([]uint32{0, 0xFFFFFFFF, 0x7F000001, 0xC0A80100, 0x0A000000, 0xAC100000, 0x80000000, 0x00FFFFFF}).Draw(t, label+"Edge")
	case 1:
		// octets from {0,1,127,128,254,255}
		var v uint32
		for i := 0; i < 4; i++ {
			v = v<<8 | uint32(rapid.SampledFrom([]int{0, 1, 127, 128, 254, 255}).Draw(t, label+"Oct"))
		}
		return v
	default:
		return rapid.Uint32().Draw(t, label)
	}
}

// sameExported compares two values of the library (or pointers to them) by their exported fields: the
// value of an address or a range is what its exported fields say; what an implementation keeps in unexported
// ones (a memoised text, say) is not part of it.
func sameExported(a, b any) bool {
	va, vb := reflect.Indirect(reflect.ValueOf(a)), reflect.Indirect(reflect.ValueOf(b))
	if va.Type() != vb.Type() {
		return false
	}
	for i := 0; i < va.NumField(); i++ {
		if !va.Type().Field(i).IsExported() {
			continue
		}
		if !reflect.DeepEqual(va.Field(i).Interface(), vb.Field(i).Interface()) {
			return false
		}
	}
	return true
}

// is: the library value has exactly this address and prefix length (exported fields)
func (a v4) is(x *ip.IPv4) bool {
	return x != nil && x.A == uint8(a.Addr>>24) && x.B == uint8(a.Addr>>16) && x.C == uint8(a.Addr>>8) && x.D == uint8(a.Addr) && x.MaskBits == a.Bits
}

// operands4 watches the IPv4 values handed to the library: addresses are values, and a membership or range test,
// a mask computation or a print that changed its receiver or an argument would make every later answer about that
// address wrong. check is called after every library call and reports the first operand that no longer has the
// address and prefix length it was built with.
type operands4 struct {
	want []v4
	ptr  []*ip.IPv4
	name []string
	bad  bool
}

func (o *operands4) add(name string, w v4, p *ip.IPv4) *ip.IPv4 {
	o.want, o.ptr, o.name = append(o.want, w), append(o.ptr, p), append(o.name, name)
	return p
}

func (o *operands4) check(call string, fs *[]vf.Finding) {
	if o.bad {
		return
	}
	for i, p := range o.ptr {
		if !o.want[i].is(p) || p.ToUInt32() != o.want[i].Addr {
			o.bad = true
			*fs = append(*fs, vf.F("IPv4."+call, "call-modifies-its-operand", "after %s the %s, built as %s, is %s (fields %+v)", call, o.name[i], o.want[i], p.String(), *p))
			return
		}
	}
}

// ---- ipv4 text ------------------------------------------------------------------

// The property asks that printed text parses back to the same value; it fixes no literal format. Every text the
// library prints for an address with its prefix (String, CIDRAddress) is handed to the library's own parser.
func checkV4Text(c v4) []vf.Finding {
	var ops operands4
	x := ops.add("receiver", c, c.lib())
	var fs []vf.Finding
	if x.ToUInt32() != c.Addr {
		fs = append(fs, vf.F("IPv4.ToUInt32", "value-differs", "%s: %#x", c, x.ToUInt32()))
	}
	ops.check("ToUInt32", &fs)
	str := x.String()
	ops.check("String", &fs)
	cidr := x.CIDRAddress()
	ops.check("CIDRAddress", &fs)
	for _, pr := range []struct{ method, text string }{{"String", str}, {"CIDRAddress", cidr}} {
		p := ip.NewIPv4FromString(pr.text)
		if p == nil {
			fs = append(fs, vf.F("ip.NewIPv4FromString", "own-text-rejected", "%s of %s: %q -> nil", pr.method, c, pr.text))
		} else if !sameExported(p, x) || !c.is(p) {
			fs = append(fs, vf.F("ip.NewIPv4FromString", "print-parse-not-identity", "%s of %s: %q -> %+v", pr.method, c, pr.text, *p))
		}
	}
	return fs
}

func TestIPv4Text(t *testing.T) {
	s := vf.Begin(t, P, "ipv4-text")
	vf.Rapid(s, vf.N(20000, 300000), func(t *rapid.T) v4 { return v4{genAddr(t, "a"), uint8(rapid.IntRange(0, 32).Draw(t, "bits"))} },
		checkV4Text, func(c v4) bool { return c.Addr>>24 != 0 && c.Addr&0xFF != 0 })
}

// ---- subnet / mask ------------------------------------------------------------------

type subnetCase struct {
	IP     uint32 `json:"ip"`
	IPBits uint8  `json:"ip_prefix"`
	Net    uint32 `json:"net"`
	Len    uint8  `json:"prefix"`
}

func checkSubnet(c subnetCase) []vf.Finding {
	var fs []vf.Finding
	m := mask(c.Len)
	want := c.IP&m == c.Net&m
	// cross-check the oracle with the standard library
	ipn := net.IPNet{IP: net.IPv4(byte(c.Net>>24), byte(c.Net>>16), byte(c.Net>>8), byte(c.Net)).Mask(net.CIDRMask(int(c.Len), 32)), Mask: net.CIDRMask(int(c.Len), 32)}
	if std := ipn.Contains(net.IPv4(byte(c.IP>>24), byte(c.IP>>16), byte(c.IP>>8), byte(c.IP))); std != want {
		return []vf.Finding{vf.F("harness", "oracle-disagrees-with-net-IPNet", "%+v", c)}
	}
	// the address under test carries its own, different prefix length (a host address or
	// whatever its interface has); membership must depend on the subnet's prefix only
	var ops operands4
	x := ops.add("address", v4{c.IP, c.IPBits}, v4{c.IP, c.IPBits}.lib())
	sn := ops.add("subnet", v4{c.Net, c.Len}, v4{c.Net, c.Len}.lib())
	if got := x.IsInSubnet(sn); got != want {
		fs = append(fs, vf.F("IPv4.IsInSubnet", "differs-from-prefix-arithmetic", "%s in %s: got %v want %v", v4{c.IP, 32}, v4{c.Net, c.Len}, got, want))
	}
	ops.check("IsInSubnet", &fs)
	// ComputeMask / CIDRMask = network address of the value's own prefix
	cm := sn.ComputeMask()
	if cm == nil || cm.ToUInt32() != c.Net&m || cm.MaskBits != c.Len {
		fs = append(fs, vf.F("IPv4.ComputeMask", "differs-from-standard-mask", "%s: got %v want %s", v4{c.Net, c.Len}, cm, v4{c.Net & m, c.Len}))
	}
	ops.check("ComputeMask", &fs)
	// CIDRMask prints that network; the text is read back by the library's own parser, no literal format is demanded
	if got, w := sn.CIDRMask(), (v4{c.Net & m, c.Len}); !w.is(ip.NewIPv4FromString(got)) {
		fs = append(fs, vf.F("IPv4.CIDRMask", "differs-from-standard-mask", "%s: got %s want %s", v4{c.Net, c.Len}, got, w))
	}
	ops.check("CIDRMask", &fs)
	// the same calls on the address under test (host bits set, a prefix of its own), and the membership once more:
	// an answer about an address does not depend on what it was asked before
	if cmx, mx := x.ComputeMask(), mask(c.IPBits); cmx == nil || cmx.ToUInt32() != c.IP&mx || cmx.MaskBits != c.IPBits {
		fs = append(fs, vf.F("IPv4.ComputeMask", "differs-from-standard-mask", "%s: got %v want %s", v4{c.IP, c.IPBits}, cmx, v4{c.IP & mx, c.IPBits}))
	}
	ops.check("ComputeMask", &fs)
	if got, w := x.CIDRMask(), (v4{c.IP & mask(c.IPBits), c.IPBits}); !w.is(ip.NewIPv4FromString(got)) {
		fs = append(fs, vf.F("IPv4.CIDRMask", "differs-from-standard-mask", "%s: got %s want %s", v4{c.IP, c.IPBits}, got, w))
	}
	ops.check("CIDRMask", &fs)
	if got := x.IsInSubnet(sn); got != want && !ops.bad {
		fs = append(fs, vf.F("IPv4.IsInSubnet", "differs-from-prefix-arithmetic", "%s in %s, asked again after ComputeMask and CIDRMask: got %v want %v", v4{c.IP, 32}, v4{c.Net, c.Len}, got, want))
	}
	return fs
}

func subnetNontrivial(c subnetCase) bool {
	return c.Len%8 != 0 && c.Net&^mask(c.Len) != 0
}

// all prefix lengths x boundary addresses of a network, exhaustively
func TestSubnetBoundariesExhaustive(t *testing.T) {
	s := vf.Begin(t, P, "subnet-boundaries-exhaustive")
	s.SetExhaustive()
	nets := []uint32{0xC0A80155, 0x0A141E28, 0xAC10FFFE, 0x00000000, 0xFFFFFFFF, 0x80000001, 0x7FFFFFFF, 0x01020304, 0xDEADBEEF}
	vf.Enum(s, func(yield func(subnetCase)) {
		for l := 0; l <= 32; l++ {
			m := mask(uint8(l))
			for _, n := range nets {
				network := n & m
				bcast := network | ^m
				for _, a := range []uint32{network, bcast, network - 1, bcast + 1, 0, 0xFFFFFFFF, n, network + 1, bcast - 1, n ^ 0x80000000, n ^ 1} {
					yield(subnetCase{a, uint8((l*7 + 32) % 33), n, uint8(l)})
				}
			}
		}
	}, checkSubnet, subnetNontrivial)
}

func TestSubnetRandom(t *testing.T) {
	s := vf.Begin(t, P, "subnet-random")
	vf.Rapid(s, vf.N(40000, 500000), func(t *rapid.T) subnetCase {
		l := uint8(rapid.IntRange(0, 32).Draw(t, "len"))
		n := genAddr(t, "net")
		var a uint32
		switch rapid.IntRange(0, 2).Draw(t, "rel") {
		case 0:
			a = genAddr(t, "ip")
		case 1: // inside: same prefix, random host bits
			a = n&mask(l) | rapid.Uint32().Draw(t, "host")&^mask(l)
		default: // just outside: flip one prefix bit
			a = n
			if l > 0 {
				a ^= 1 << (32 - uint32(rapid.IntRange(1, int(l)).Draw(t, "bit")))
			}
			a = a&mask(l) | rapid.Uint32().Draw(t, "host")&^mask(l)
		}
		return subnetCase{a, uint8(rapid.IntRange(0, 32).Draw(t, "ipbits")), n, l}
	}, checkSubnet, subnetNontrivial)
}

// ---- ranges -----------------------------------------------------------------------

// The three operands carry prefix lengths of their own (whatever their interfaces have): a range test
// compares addresses, the prefix lengths have no part in it.
type rangeCase struct {
	IP, Start, End             uint32
	IPBits, StartBits, EndBits uint8
}

func checkRange4(c rangeCase) []vf.Finding {
	want := c.IP >= c.Start && c.IP <= c.End
	var ops operands4
	x := ops.add("address", v4{c.IP, c.IPBits}, v4{c.IP, c.IPBits}.lib())
	a := ops.add("start of the range", v4{c.Start, c.StartBits}, v4{c.Start, c.StartBits}.lib())
	b := ops.add("end of the range", v4{c.End, c.EndBits}, v4{c.End, c.EndBits}.lib())
	var fs []vf.Finding
	if got := x.IsInRange(a, b); got != want {
		fs = append(fs, vf.F("IPv4.IsInRange", "differs-from-unsigned-comparison", "%s in [%s,%s]: got %v", v4{c.IP, c.IPBits}, v4{c.Start, c.StartBits}, v4{c.End, c.EndBits}, got))
	}
	ops.check("IsInRange", &fs)
	r := &ip.IPv4Range{Start: a, End: b}
	if got := r.Contains(x); got != want {
		fs = append(fs, vf.F("IPv4Range.Contains", "differs-from-unsigned-comparison", "%s in [%s,%s]: got %v", v4{c.IP, c.IPBits}, v4{c.Start, c.StartBits}, v4{c.End, c.EndBits}, got))
	}
	ops.check("IPv4Range.Contains", &fs)
	// address ranges have no parser and the property says nothing about their text (10.0.0.1-10.0.0.9, 10.0.0.1-9,
	// ... are all in use): the text must not be empty and must be the same every time it is asked for
	got := r.String()
	ops.check("IPv4Range.String", &fs)
	if again := r.String(); strings.TrimSpace(got) == "" || again != got {
		fs = append(fs, vf.F("IPv4Range.String", "text-empty-or-unstable", "start %s end %s: got %q, then %q", dotted(c.Start), dotted(c.End), got, again))
	}
	ops.check("IPv4Range.String", &fs)
	// the masks of the three operands (each has a prefix of its own), then the question once more
	for _, p := range []*ip.IPv4{x, a, b} {
		p.ComputeMask()
		ops.check("ComputeMask", &fs)
		_ = p.CIDRMask()
		ops.check("CIDRMask", &fs)
	}
	if got := x.IsInRange(a, b); got != want && !ops.bad {
		fs = append(fs, vf.F("IPv4.IsInRange", "differs-from-unsigned-comparison", "%s in [%s,%s], asked again after ComputeMask and CIDRMask of the operands: got %v", v4{c.IP, c.IPBits}, v4{c.Start, c.StartBits}, v4{c.End, c.EndBits}, got))
	}
	return fs
}

func dotted(a uint32) string {
	return fmt.Sprintf("%d.%d.%d.%d", uint8(a>>24), uint8(a>>16), uint8(a>>8), uint8(a))
}

func TestIPv4Range(t *testing.T) {
	s := vf.Begin(t, P, "ipv4-range")
	vf.Rapid(s, vf.N(20000, 300000), func(t *rapid.T) rangeCase {
		a, b := genAddr(t, "start"), genAddr(t, "end")
		var x uint32
		switch rapid.IntRange(0, 3).Draw(t, "rel") {
		case 0:
			x = genAddr(t, "ip")
		case 1:
			x = a + uint32(rapid.IntRange(-1, 1).Draw(t, "d"))
		case 2:
			x = b + uint32(rapid.IntRange(-1, 1).Draw(t, "d"))
		default:
			x = a/2 + b/2
		}
		bits := func(label string) uint8 {
			if rapid.IntRange(0, 3).Draw(t, label+"Host") == 0 {
				return 32
			}
			return uint8(rapid.IntRange(0, 32).Draw(t, label))
		}
		return rangeCase{x, a, b, bits("ipBits"), bits("startBits"), bits("endBits")}
	}, checkRange4, func(c rangeCase) bool {
		// a proper range, and an address whose own prefix does not cover all of it (host bits set)
		return c.Start < c.End && c.IP&^mask(c.IPBits) != 0
	})
}

type v6 struct {
	G [8]uint16 `json:"groups"`
}

func (a v6) lib() *ip.IPv6 {
	return ip.NewIPv6(a.G[0], a.G[1], a.G[2], a.G[3], a.G[4], a.G[5], a.G[6], a.G[7])
}
func (a v6) big() *big.Int {
	v := new(big.Int)
	for _, g := range a.G {
		v.Lsh(v, 16)
		v.Or(v, big.NewInt(int64(g)))
	}
	return v
}

func genV6(t *rapid.T, label string) v6 {
	var a v6
	for i := range a.G {
		switch rapid.IntRange(0, 3).Draw(t, label+"gc") {
		case 0:
			a.G[i] = 0
		case 1:
			a.G[i] = 0xFFFF
		default:
			a.G[i] = rapid.Uint16().Draw(t, label+"g")
		}
	}
	return a
}

type v6Case struct {
	IP, Start, End v6
}

func checkV6(c v6Case) []vf.Finding {
	var fs []vf.Finding
	x, a, b := c.IP.lib(), c.Start.lib(), c.End.lib()
	// no call changes its receiver or its arguments (checked after every call, first difference reported)
	modified := false
	unchanged := func(call string) {
		for _, o := range []struct {
			name string
			want v6
			p    *ip.IPv6
		}{{"address", c.IP, x}, {"start of the range", c.Start, a}, {"end of the range", c.End, b}} {
			if !modified && [8]uint16{o.p.A, o.p.B, o.p.C, o.p.D, o.p.E, o.p.F, o.p.G, o.p.H} != o.want.G {
				modified = true
				fs = append(fs, vf.F("IPv6."+call, "call-modifies-its-operand", "after %s the %s, built from groups %04x, has fields %+v", call, o.name, o.want.G, *o.p))
			}
		}
	}
	// text: no literal format is demanded, the text must denote the address and parse back to the same value
	txt := x.String()
	unchanged("String")
	if std := net.ParseIP(txt); std == nil || new(big.Int).SetBytes(std.To16()).Cmp(c.IP.big()) != 0 {
		fs = append(fs, vf.F("IPv6.String", "text-not-the-address", "%v -> %q (net.ParseIP: %v)", c.IP.G, txt, std))
	}
	for _, form := range []string{txt, strings.ToUpper(txt)} {
		p := ip.NewIPv6FromString(form)
		if p == nil {
			fs = append(fs, vf.F("ip.NewIPv6FromString", "own-text-rejected", "%q -> nil", form))
		} else if !sameExported(p, x) {
			fs = append(fs, vf.F("ip.NewIPv6FromString", "print-parse-not-identity", "%q -> %+v", form, *p))
		}
	}
	u := x.ToUInt128()
	unchanged("ToUInt128")
	if v := new(big.Int).Or(new(big.Int).Lsh(new(big.Int).SetUint64(u[0]), 64), new(big.Int).SetUint64(u[1])); v.Cmp(c.IP.big()) != 0 {
		fs = append(fs, vf.F("IPv6.ToUInt128", "value-differs", "%s: %x", txt, u))
	}
	// range = unsigned 128-bit comparison
	wantIn := c.IP.big().Cmp(c.Start.big()) >= 0 && c.IP.big().Cmp(c.End.big()) <= 0
	if got := x.IsInRange(a, b); got != wantIn {
		fs = append(fs, vf.F("IPv6.IsInRange", "differs-from-unsigned-comparison", "%s in [%s,%s]: got %v", x, a, b, got))
	}
	unchanged("IsInRange")
	r := &ip.IPv6Range{Start: a, End: b}
	if got := r.Contains(x); got != wantIn {
		fs = append(fs, vf.F("IPv6Range.Contains", "differs-from-unsigned-comparison", "%s in %s: got %v", x, r, got))
	}
	unchanged("IPv6Range.Contains")
	_ = r.String()
	unchanged("IPv6Range.String")
	// IsInSubnet has no prefix length in this library: only the /128 meaning
	if got := x.IsInSubnet(a); got != (c.IP == c.Start) {
		fs = append(fs, vf.F("IPv6.IsInSubnet", "differs-from-slash-128", "%s vs %s: got %v", x, a, got))
	}
	unchanged("IsInSubnet")
	return fs
}

func TestIPv6(t *testing.T) {
	s := vf.Begin(t, P, "ipv6")
	vf.Rapid(s, vf.N(20000, 300000), func(t *rapid.T) v6Case {
		a, b := genV6(t, "s"), genV6(t, "e")
		var x v6
		switch rapid.IntRange(0, 3).Draw(t, "rel") {
		case 0:
			x = genV6(t, "x")
		case 1:
			x = a
			x.G[rapid.IntRange(0, 7).Draw(t, "i")] += uint16(rapid.IntRange(-1, 1).Draw(t, "d"))
		case 2:
			x = b
			x.G[rapid.IntRange(0, 7).Draw(t, "i")] += uint16(rapid.IntRange(-1, 1).Draw(t, "d"))
		default:
			x = a
			// same high half, different low half: exercises the two-word comparison
			for i := 4; i < 8; i++ {
				x.G[i] = rapid.Uint16().Draw(t, "lo")
			}
		}
		return v6Case{x, a, b}
	}, checkV6, func(c v6Case) bool { return c.Start.big().Cmp(c.End.big()) < 0 })
}

// ---- ports --------------------------------------------------------------------------

type portCase struct {
	Start, End uint16
}

func checkPorts(c portCase) []vf.Finding {
	r := ip.NewTCPPortRange(c.Start, c.End)
	var fs []vf.Finding
	// the constructed range is made of the two ports given (a constructor may put them in order)
	if !(r.Start == c.Start && r.End == c.End) && !(r.Start == c.End && r.End == c.Start) {
		fs = append(fs, vf.F("ip.NewTCPPortRange", "value-differs", "%d, %d -> %+v", c.Start, c.End, *r))
	}
	built := *r // the value as constructed
	// no literal format is demanded: the printed text goes through the library's own parser and must give the
	// constructed value back
	txt := r.String()
	if !sameExported(r, &built) {
		fs = append(fs, vf.F("TCPPortRange.String", "call-modifies-its-operand", "the range built from %d, %d was %+v and is %+v after it was printed", c.Start, c.End, built, *r))
	}
	p, err := ip.NewTCPPortRangeFromString(txt)
	if err != nil || p == nil {
		fs = append(fs, vf.F("ip.NewTCPPortRangeFromString", "own-text-rejected", "%q: %v", txt, err))
	} else if !sameExported(p, &built) {
		fs = append(fs, vf.F("ip.NewTCPPortRangeFromString", "print-parse-not-identity", "range %+v built from %d, %d: %q -> %+v", built, c.Start, c.End, txt, *p))
	}
	return fs
}

var portEdges = []uint16{0, 1, 9, 10, 99, 100, 999, 1000, 9999, 10000, 59999, 60000, 64999, 65000, 65499, 65500, 65529, 65530, 65534, 65535}

func TestPortsEdgesExhaustive(t *testing.T) {
	s := vf.Begin(t, P, "ports-edges-exhaustive")
	s.SetExhaustive()
	vf.Enum(s, func(yield func(portCase)) {
		for _, a := range portEdges {
			for _, b := range portEdges {
				yield(portCase{a, b})
			}
		}
	}, checkPorts, func(c portCase) bool { return c.Start != c.End })
}

func TestPortsRandom(t *testing.T) {
	s := vf.Begin(t, P, "ports-random")
	vf.Rapid(s, vf.N(10000, 200000), func(t *rapid.T) portCase { return portCase{rapid.Uint16().Draw(t, "a"), rapid.Uint16().Draw(t, "b")} },
		checkPorts, func(c portCase) bool { return c.Start != c.End })
}

// all 65536 single ports p-p in the thorough tier
func TestPortsAllSingles(t *testing.T) {
	s := vf.Begin(t, P, "ports-all-values")
	s.SetExhaustive()
	step := vf.Size(17, 1)
	vf.Enum(s, func(yield func(portCase)) {
		for p := 0; p <= 65535; p += step {
			yield(portCase{uint16(p), uint16(65535 - p)})
		}
	}, checkPorts, func(c portCase) bool { return c.Start != c.End })
}

// ---- LM:NT -----------------------------------------------------------------------------

type hashCase struct {
	LM    string `json:"lm"` // 32 hex or ""
	NT    string `json:"nt"` // 32 hex or ""
	Colon bool   `json:"colon"`
	Left  string `json:"left_pad"`
	Right string `json:"right_pad"`
	Case  int    `json:"case"`
	// the other arguments of NewCredentials: the hash specification is parsed the same whatever they are
	Domain   string `json:"domain,omitempty"`
	User     string `json:"user,omitempty"`
	Password string `json:"password,omitempty"`
}

func (c hashCase) spec() string {
	s := c.LM
	if c.NT != "" {
		if c.Colon || c.LM != "" {
			s += ":"
		}
		s += c.NT
	}
	switch c.Case {
	case 1:
		s = strings.ToUpper(s)
	case 2:
		b := []byte(s)
		for i := range b {
			if i%3 == 0 && b[i] >= 'a' && b[i] <= 'f' {
				b[i] -= 32
			}
		}
		s = string(b)
	}
	return s
}

func checkHashes(c hashCase) []vf.Finding {
	var fs []vf.Finding
	bare := c.spec()
	lm0, nt0, err0 := credentials.ParseLMNTHashes(bare)
	if err0 != nil {
		return []vf.Finding{vf.F("credentials.ParseLMNTHashes", "valid-spec-rejected", "%q: %v", bare, err0)}
	}
	if !strings.EqualFold(lm0, c.LM) || !strings.EqualFold(nt0, c.NT) {
		fs = append(fs, vf.F("credentials.ParseLMNTHashes", "valid-hash-discarded", "%q -> lm %q nt %q, want lm %q nt %q", bare, lm0, nt0, c.LM, c.NT))
	}
	padded := c.Left + bare + c.Right
	lm1, nt1, err1 := credentials.ParseLMNTHashes(padded)
	if err1 != nil {
		fs = append(fs, vf.F("credentials.ParseLMNTHashes", "padding-changes-acceptance", "%q accepted, %q rejected: %v", bare, padded, err1))
	} else if !strings.EqualFold(lm1, lm0) || !strings.EqualFold(nt1, nt0) {
		fs = append(fs, vf.F("credentials.ParseLMNTHashes", "padding-changes-result", "%q -> (%q,%q) but %q -> (%q,%q)", bare, lm0, nt0, padded, lm1, nt1))
	}
	// the same through NewCredentials, whatever domain, user name and password are given next to the hashes: the
	// padded specification is treated as the bare one is under the same other arguments - both refused (a
	// constructor may insist on a user name, say), or both accepted with the same hashes, which are the ones given:
	// the NT hash, and the LM hash where one was given (where none was, an implementation may fill in the LM hash of
	// the empty password)
	for _, a := range [][3]string{{"DOM", "user", ""}, {c.Domain, c.User, c.Password}} {
		cb, errB := credentials.NewCredentials(a[0], a[1], a[2], bare)
		cr, err := credentials.NewCredentials(a[0], a[1], a[2], padded)
		okB, ok := errB == nil && cb != nil, err == nil && cr != nil
		switch {
		case okB != ok:
			fs = append(fs, vf.F("credentials.NewCredentials", "padding-changes-acceptance", "NewCredentials(%q, %q, %q, %q): %v, but NewCredentials(%q, %q, %q, %q): %v", a[0], a[1], a[2], bare, errB, a[0], a[1], a[2], padded, err))
		case !ok:
			// refused with an error, padded or not: nothing is discarded silently
		case !strings.EqualFold(cr.GetLMHash(), cb.GetLMHash()) || !strings.EqualFold(cr.GetNTHash(), cb.GetNTHash()):
			fs = append(fs, vf.F("credentials.NewCredentials", "padding-changes-result", "NewCredentials(%q, %q, %q, %q) -> lm %q nt %q, but with %q -> lm %q nt %q", a[0], a[1], a[2], bare, cb.GetLMHash(), cb.GetNTHash(), padded, cr.GetLMHash(), cr.GetNTHash()))
		case !strings.EqualFold(cr.GetNTHash(), c.NT) || c.LM != "" && !strings.EqualFold(cr.GetLMHash(), c.LM):
			fs = append(fs, vf.F("credentials.NewCredentials", "valid-hash-discarded", "NewCredentials(%q, %q, %q, %q) -> lm %q nt %q", a[0], a[1], a[2], padded, cr.GetLMHash(), cr.GetNTHash()))
		case c.NT != "" && a[1] != "" && a[2] == "" && !cr.CanPassTheHash():
			fs = append(fs, vf.F("Credentials.CanPassTheHash", "false-with-nt-hash", "NewCredentials(%q, %q, %q, %q)", a[0], a[1], a[2], padded))
		}
		if a == [3]string{c.Domain, c.User, c.Password} {
			break // the generated arguments are the fixed ones
		}
	}
	return fs
}

func genHex32(t *rapid.T, label string) string {
	b := rapid.SliceOfN(rapid.Byte(), 16, 16).Draw(t, label)
	return fmt.Sprintf("%x", b)
}

// every white-space character (unicode.IsSpace): the ASCII ones, NEL, NBSP and the Unicode space separators
var spaces = func() []string {
	var out []string
	for r := rune(0); r <= unicode.MaxRune; r++ {
		if unicode.IsSpace(r) {
			out = append(out, string(r))
		}
	}
	return out
}()

var asciiSpaces = []string{" ", "\t", "\n", "\r"}

func genPad(t *rapid.T, label string) string {
	n := rapid.IntRange(0, 3).Draw(t, label+"n")
	var sb strings.Builder
	for i := 0; i < n; i++ {
		if rapid.Bool().Draw(t, label+"ascii") {
			sb.WriteString(rapid.SampledFrom(asciiSpaces).Draw(t, label))
		} else {
			sb.WriteString(rapid.SampledFrom(spaces).Draw(t, label))
		}
	}
	return sb.String()
}

// hash values with a meaning of their own, which a parser may be tempted to treat as "no hash": the LM and NT
// hashes of the empty password, all zeros, all ones
var knownHashes = []string{
	"aad3b435b51404eeaad3b435b51404ee", "31d6cfe0d16ae931b73c59d7e0c089c0",
	"00000000000000000000000000000000", "ffffffffffffffffffffffffffffffff",
}

func genHash(t *rapid.T, label string) string {
	if rapid.IntRange(0, 2).Draw(t, label+"Known") == 0 {
		return rapid.SampledFrom(knownHashes).Draw(t, label+"K")
	}
	return genHex32(t, label)
}

func TestLMNTHashes(t *testing.T) {
	s := vf.Begin(t, P, "lmnt-padding-case")
	vf.Rapid(s, vf.N(15000, 200000), func(t *rapid.T) hashCase {
		c := hashCase{Colon: rapid.Bool().Draw(t, "colon"), Left: genPad(t, "l"), Right: genPad(t, "r"), Case: rapid.IntRange(0, 2).Draw(t, "case")}
		// shapes: lm:nt, :nt, nt (a bare hash is the NT hash by the library's documented
		// convention; an LM hash alone is not expressible)
		switch rapid.IntRange(0, 2).Draw(t, "shape") {
		case 0:
			c.LM, c.NT = genHash(t, "lm"), genHash(t, "nt")
		case 1:
			c.NT = genHash(t, "nt")
		default:
			c.LM, c.NT = "aad3b435b51404eeaad3b435b51404ee", genHash(t, "nt")
		}
		c.Domain = rapid.SampledFrom([]string{"", "DOM", "corp.example.com", "."}).Draw(t, "domain")
		c.User = rapid.SampledFrom([]string{"user", "", "Administrator", "svc$", "user@corp.example.com"}).Draw(t, "user")
		c.Password = rapid.SampledFrom([]string{"", "pw", "P@ssw0rd!", " ", "pass:word", "aad3b435b51404eeaad3b435b51404ee"}).Draw(t, "password")
		return c
	}, checkHashes, func(c hashCase) bool { return c.Left != "" && c.Right != "" })
}

// near-miss strings: only a clean return is required; the split is reported as classes
type nearCase struct {
	S string `json:"s"`
}

func TestLMNTNearMiss(t *testing.T) {
	s := vf.Begin(t, P, "lmnt-near-miss")
	vf.Rapid(s, vf.N(5000, 50000), func(t *rapid.T) nearCase {
		h := genHex32(t, "h")
		return nearCase{rapid.SampledFrom([]string{h[:31], h + "0", h + ":" + h + ":" + h, h[:31] + "g", ":" + h[:31], h + ":", "::", h + ":" + h[:31], ""}).Draw(t, "shape")}
	}, func(c nearCase) []vf.Finding {
		_, _, err := credentials.ParseLMNTHashes(c.S)
		if err != nil {
			s.Class("rejected")
		} else {
			s.Class("accepted")
		}
		return nil
	}, nil)
}
