// Package c09: LLMNR codec round-trips and agrees with an independent RFC 1035 codec.
package c09

import (
	"bytes"
	"fmt"
	"net"
	"strings"
	"testing"
	"time"

	"pgregory.net/rapid"

	"github.com/TheManticoreProject/Manticore/network/llmnr"

	"manticoreverif/ref/dns"
	"manticoreverif/vf"
)

const P = "C09"

// ---- serialisable message ------------------------------------------------------------

type jName []vf.Hex
type jQ struct {
	Name  jName  `json:"name"`
	Type  uint16 `json:"type"`
	Class uint16 `json:"class"`
}
type jRR struct {
	Name  jName  `json:"name"`
	Type  uint16 `json:"type"`
	Class uint16 `json:"class"`
	TTL   uint32 `json:"ttl"`
	RData vf.Hex `json:"rdata"`
	// The record's RDATA is RData followed by Pad pattern bytes (so that RDATA up to the 16-bit
	// limit costs neither draws nor replay-file space).
	Pad     int   `json:"rdata_pad,omitempty"`
	PadSeed uint8 `json:"rdata_pad_seed,omitempty"`
	// What the caller leaves in ResourceRecord.RDLength when handing the record to the library:
	// nil = len(RData) (as AddAnswerClassINTypeA does), otherwise this value (0 = the plain struct
	// literal, anything else = a stale count). The encoder recomputes it, so it must not matter.
	RDLenField *uint16 `json:"rdlength_field,omitempty"`
}

// data is the record's RDATA: the explicit bytes followed by the pad pattern.
func (r jRR) data() []byte {
	out := make([]byte, 0, len(r.RData)+r.Pad)
	out = append(out, r.RData...)
	out = out[:len(r.RData)+r.Pad]
	for i, pad := 0, out[len(r.RData):]; i < len(pad); i++ {
		pad[i] = r.PadSeed + byte(i)*7 + byte(i>>8)
	}
	return out
}

type msgCase struct {
	ID         uint16 `json:"id"`
	Flags      uint16 `json:"flags"`
	Questions  []jQ   `json:"questions"`
	Answers    []jRR  `json:"answers"`
	Authority  []jRR  `json:"authority"`
	Additional []jRR  `json:"additional"`
	Choices    []int  `json:"compression_choices,omitempty"` // consumed by the reference encoder
	// Root lets the reference encoder also end names in a pointer to an earlier root terminator
	// (a prior occurrence of the empty suffix).
	Root bool `json:"root_pointers,omitempty"`
	// What the caller leaves in the four header counts (QD, AN, NS, AR) when handing the message to
	// Encode: nil = zero (the plain struct literal), otherwise these values - the section lengths or
	// stale numbers. Encode takes the counts from the slices, so it must not matter.
	Counts *[4]uint16 `json:"header_counts_field,omitempty"`
}

func (n jName) ref() dns.Name {
	out := dns.Name{}
	for _, l := range n {
		out = append(out, []byte(l))
	}
	return out
}
func (n jName) text() string {
	parts := make([]string, len(n))
	for i, l := range n {
		parts[i] = string(l)
	}
	return strings.Join(parts, ".")
}

func (c msgCase) ref() *dns.Message {
	m := &dns.Message{ID: c.ID, Flags: c.Flags}
	for _, q := range c.Questions {
		m.Questions = append(m.Questions, dns.Question{Name: q.Name.ref(), Type: q.Type, Class: q.Class})
	}
	conv := func(in []jRR) []dns.RR {
		var out []dns.RR
		for _, r := range in {
			out = append(out, dns.RR{Name: r.Name.ref(), Type: r.Type, Class: r.Class, TTL: r.TTL, RData: r.data()})
		}
		return out
	}
	m.Answers, m.Authority, m.Additional = conv(c.Answers), conv(c.Authority), conv(c.Additional)
	return m
}

func (r jRR) lib() llmnr.ResourceRecord {
	d := r.data()
	rr := llmnr.ResourceRecord{Name: r.Name.text(), Type: r.Type, Class: r.Class, TTL: r.TTL, RDLength: uint16(len(d)), RData: d}
	if r.RDLenField != nil {
		rr.RDLength = *r.RDLenField
	}
	return rr
}

func (c msgCase) lib() *llmnr.Message {
	m := &llmnr.Message{}
	m.ID, m.Flags = c.ID, c.Flags
	for _, q := range c.Questions {
		m.Questions = append(m.Questions, llmnr.Question{Name: q.Name.text(), Type: q.Type, Class: q.Class})
	}
	conv := func(in []jRR) []llmnr.ResourceRecord {
		var out []llmnr.ResourceRecord
		for _, r := range in {
			out = append(out, r.lib())
		}
		return out
	}
	m.Answers, m.Authority, m.Additional = conv(c.Answers), conv(c.Authority), conv(c.Additional)
	if c.Counts != nil {
		m.QDCount, m.ANCount, m.NSCount, m.ARCount = c.Counts[0], c.Counts[1], c.Counts[2], c.Counts[3]
	}
	return m
}

// libCounted is lib() with the four header counts filled in by the caller, as Message.Validate
// wants them. (lib() itself leaves them zero or as the case says, stale values included: the encoder
// takes the counts from the slices. Whether Encode also stores them in the caller's struct is not
// something the property speaks about.)
func (c msgCase) libCounted() *llmnr.Message {
	m := c.lib()
	m.QDCount, m.ANCount, m.NSCount, m.ARCount = uint16(len(m.Questions)), uint16(len(m.Answers)), uint16(len(m.Authority)), uint16(len(m.Additional))
	return m
}

// forValidate is the message as it is handed to Message.Validate. Validate is judged for what the
// property speaks about - valid names, header counts equal to the sections - and not for what it
// makes of RDATA: a record of class IN and type A / AAAA whose RDATA is not an address of 4 / 16
// octets (the generators draw type, class and RDATA independently) stands in the copy with zero
// RDATA of that length, all else - names, counts, the other records - as in m. m is not changed.
func forValidate(m *llmnr.Message) *llmnr.Message {
	fix := func(in []llmnr.ResourceRecord) []llmnr.ResourceRecord {
		var out []llmnr.ResourceRecord
		for i, r := range in {
			want := len(r.RData)
			if r.Class == llmnr.ClassIN && r.Type == llmnr.TypeA {
				want = 4
			} else if r.Class == llmnr.ClassIN && r.Type == llmnr.TypeAAAA {
				want = 16
			}
			if len(r.RData) == want {
				continue
			}
			if out == nil {
				out = append([]llmnr.ResourceRecord(nil), in...)
			}
			out[i].RData, out[i].RDLength = make([]byte, want), uint16(want)
		}
		if out == nil {
			return in
		}
		return out
	}
	c := *m
	c.Answers, c.Authority, c.Additional = fix(m.Answers), fix(m.Authority), fix(m.Additional)
	return &c
}

// sameName: the root name may be written "" or "." (DESIGN C09).
func sameName(got string, want jName) bool {
	if len(want) == 0 {
		return got == "" || got == "."
	}
	return got == want.text()
}

// compareLib compares a decoded library message with the case, section by section.
func compareLib(who string, got *llmnr.Message, c msgCase) []vf.Finding {
	var fs []vf.Finding
	if got.ID != c.ID || got.Flags != c.Flags {
		fs = append(fs, vf.F(who, "header-id-or-flags-differ", "got id %#x flags %#x want %#x %#x", got.ID, got.Flags, c.ID, c.Flags))
	}
	if int(got.QDCount) != len(c.Questions) || int(got.ANCount) != len(c.Answers) || int(got.NSCount) != len(c.Authority) || int(got.ARCount) != len(c.Additional) {
		fs = append(fs, vf.F(who, "header-counts-differ", "got %d/%d/%d/%d want %d/%d/%d/%d", got.QDCount, got.ANCount, got.NSCount, got.ARCount, len(c.Questions), len(c.Answers), len(c.Authority), len(c.Additional)))
	}
	if len(got.Questions) != len(c.Questions) {
		fs = append(fs, vf.F(who, "question-section-lost", "got %d questions want %d", len(got.Questions), len(c.Questions)))
	} else {
		for i, q := range c.Questions {
			g := got.Questions[i]
			if !sameName(g.Name, q.Name) {
				kind := "question-name-differs"
				if len(q.Name) == 0 {
					kind = "root-name-not-self-inverse"
				}
				fs = append(fs, vf.F(who, kind, "question %d: got %q want %q", i, g.Name, q.Name.text()))
			}
			if g.Type != q.Type || g.Class != q.Class {
				fs = append(fs, vf.F(who, "question-type-class-differ", "question %d: got %d/%d want %d/%d", i, g.Type, g.Class, q.Type, q.Class))
			}
		}
	}
	for _, sec := range []struct {
		name string
		got  []llmnr.ResourceRecord
		want []jRR
	}{{"answer", got.Answers, c.Answers}, {"authority", got.Authority, c.Authority}, {"additional", got.Additional, c.Additional}} {
		if len(sec.got) != len(sec.want) {
			fs = append(fs, vf.F(who, sec.name+"-section-lost", "got %d records want %d", len(sec.got), len(sec.want)))
			continue
		}
		for i, r := range sec.want {
			g := sec.got[i]
			if !sameName(g.Name, r.Name) {
				kind := sec.name + "-name-differs"
				if len(r.Name) == 0 {
					kind = "root-name-not-self-inverse"
				}
				fs = append(fs, vf.F(who, kind, "%s %d: got %q want %q", sec.name, i, g.Name, r.Name.text()))
			}
			if g.Type != r.Type || g.Class != r.Class || g.TTL != r.TTL {
				fs = append(fs, vf.F(who, sec.name+"-fixed-fields-differ", "%s %d: got %d/%d/%d want %d/%d/%d", sec.name, i, g.Type, g.Class, g.TTL, r.Type, r.Class, r.TTL))
			}
			if want := r.data(); !bytes.Equal(g.RData, want) || int(g.RDLength) != len(want) {
				fs = append(fs, vf.F(who, sec.name+"-rdata-differs", "%s %d: got %d bytes (rdlength %d) want %d", sec.name, i, len(g.RData), g.RDLength, len(want)))
			}
		}
	}
	return fs
}

func compareRef(who string, got *dns.Message, c msgCase) []vf.Finding {
	want := c.ref()
	var fs []vf.Finding
	if got.ID != want.ID || got.Flags != want.Flags {
		fs = append(fs, vf.F(who, "header-id-or-flags-differ", "got %#x/%#x", got.ID, got.Flags))
	}
	eqName := func(a, b dns.Name) bool {
		if len(a) != len(b) {
			return false
		}
		for i := range a {
			if !bytes.Equal(a[i], b[i]) {
				return false
			}
		}
		return true
	}
	if len(got.Questions) != len(want.Questions) {
		fs = append(fs, vf.F(who, "question-section-lost", "got %d want %d", len(got.Questions), len(want.Questions)))
	} else {
		for i := range want.Questions {
			if !eqName(got.Questions[i].Name, want.Questions[i].Name) || got.Questions[i].Type != want.Questions[i].Type || got.Questions[i].Class != want.Questions[i].Class {
				fs = append(fs, vf.F(who, "question-differs", "question %d: got %q want %q", i, got.Questions[i].Name, want.Questions[i].Name))
			}
		}
	}
	for _, sec := range []struct {
		name      string
		got, want []dns.RR
	}{{"answer", got.Answers, want.Answers}, {"authority", got.Authority, want.Authority}, {"additional", got.Additional, want.Additional}} {
		if len(sec.got) != len(sec.want) {
			fs = append(fs, vf.F(who, sec.name+"-section-lost", "got %d records want %d", len(sec.got), len(sec.want)))
			continue
		}
		for i := range sec.want {
			g, w := sec.got[i], sec.want[i]
			if !eqName(g.Name, w.Name) || g.Type != w.Type || g.Class != w.Class || g.TTL != w.TTL || !bytes.Equal(g.RData, w.RData) {
				fs = append(fs, vf.F(who, sec.name+"-record-differs", "%s %d: got %q %d/%d/%d rdata %d bytes want %q %d/%d/%d rdata %d bytes", sec.name, i, g.Name, g.Type, g.Class, g.TTL, len(g.RData), w.Name, w.Type, w.Class, w.TTL, len(w.RData)))
			}
		}
	}
	return fs
}

// ---- generators ------------------------------------------------------------------------

// generators of the per-byte draws, built once (constructing one per draw dominated the run time)
var (
	gLabLenClass = rapid.IntRange(0, 5)
	gLabEdge     = rapid.SampledFrom([]int{1, 62, 63})
	gLabLen      = rapid.IntRange(1, 12)
	gLabAny      = rapid.IntRange(1, 63)
	gByteClass   = rapid.IntRange(0, 3)
	gByte        = rapid.Byte()
	gAlpha       = rapid.IntRange('a', 'z')
)

func genLabel(t *rapid.T) vf.Hex {
	var n int
	switch gLabLenClass.Draw(t, "labLenClass") {
	case 0:
		n = gLabEdge.Draw(t, "labEdge")
	case 1:
		n = gLabAny.Draw(t, "labAny") // every length a label can have
	default:
		n = gLabLen.Draw(t, "labLen")
	}
	b := make([]byte, n)
	for i := range b {
		switch gByteClass.Draw(t, "byteClass") {
		case 0:
			b[i] = gByte.Draw(t, "any")
		default:
			b[i] = byte(gAlpha.Draw(t, "alpha"))
		}
		if b[i] == '.' {
			b[i] = '-'
		}
	}
	return b
}

// genManyLabels draws a name of many short labels, up to the most a name can have: 127 labels of
// one octet are 255 octets on the wire. Half of the draws have 100..127 labels, the others 7..127;
// about one label in eight has two octets, as far as the 255 octets allow. The label bytes come from
// one slice draw (a draw per byte would make these names cost ten times an ordinary one).
func genManyLabels(t *rapid.T) jName {
	k := rapid.IntRange(7, 127).Draw(t, "manyLabels")
	if rapid.Bool().Draw(t, "manyNearLimit") {
		k = rapid.IntRange(100, 127).Draw(t, "manyLabelsHigh")
	}
	raw := rapid.SliceOfN(gByte, 2*k, 2*k).Draw(t, "manyBytes")
	for i := range raw {
		if raw[i] == '.' {
			raw[i] = '-'
		}
	}
	n := make(jName, 0, k)
	room := 255 - 1 - 2*k // octets left once every label has one octet
	for i := 0; i < k; i++ {
		l := 1
		if room > 0 && raw[2*i+1]&7 == 0 {
			l, room = 2, room-1
		}
		n = append(n, vf.Hex(raw[2*i:2*i+l:2*i+l]))
	}
	return n
}

// genName draws 0..6 labels with total wire length <= 255 (one fresh name in 40: up to 127 short
// labels, genManyLabels); names from pool are reused so that compression has something to point at.
func genName(t *rapid.T, pool *[]jName) jName {
	if len(*pool) > 0 && rapid.IntRange(0, 2).Draw(t, "reuse") == 0 {
		base := (*pool)[rapid.IntRange(0, len(*pool)-1).Draw(t, "poolIdx")]
		// same name, a suffix of it, or a new label in front of it
		switch rapid.IntRange(0, 2).Draw(t, "reuseKind") {
		case 0:
			return base
		case 1:
			if len(base) > 0 {
				return base[rapid.IntRange(0, len(base)-1).Draw(t, "suffixFrom"):]
			}
			return base
		default:
			n := append(jName{genLabel(t)}, base...)
			if n.ref().WireLen() <= 255 {
				*pool = append(*pool, n)
				return n
			}
			return base
		}
	}
	if rarely(t, "many", 5) {
		n := genManyLabels(t)
		*pool = append(*pool, n)
		return n
	}
	k := rapid.IntRange(0, 6).Draw(t, "labels")
	if rapid.IntRange(0, 19).Draw(t, "max") == 0 {
		k = 4 // push towards the 255 limit with long labels
	}
	var n jName
	for i := 0; i < k; i++ {
		l := genLabel(t)
		if (append(n, l)).ref().WireLen() > 255 {
			break
		}
		n = append(n, l)
	}
	*pool = append(*pool, n)
	return n
}

// rdataLimits are the RDATA lengths at which an 8-, 15- or 16-bit view of RDLENGTH changes.
var rdataLimits = []int{255, 256, 32767, 32768, 65534, 65535}

// genRData draws the RDATA of one record: explicit random bytes (0..max) and, in the length
// classes that would be too costly to draw byte by byte, a pattern pad up to the 16-bit limit.
func genRData(t *rapid.T, max int) (data vf.Hex, pad int, seed uint8) {
	var n int
	switch rapid.IntRange(0, 23).Draw(t, "rdClass") {
	case 0, 1, 2, 3:
		n = 0
	case 4, 5, 6, 7:
		n = rapid.SampledFrom([]int{4, 16}).Draw(t, "rdAddr")
	case 8, 9, 10, 11:
		n = rapid.IntRange(0, max).Draw(t, "rdLen")
	case 12:
		// any length 0..65535, the limits in particular
		if rapid.Bool().Draw(t, "rdAtLimit") {
			pad = rapid.SampledFrom(rdataLimits).Draw(t, "rdLimit")
		} else {
			pad = rapid.IntRange(0, 65535).Draw(t, "rdAny")
		}
		n = rapid.IntRange(0, 8).Draw(t, "rdHead")
		if n > pad {
			n = pad
		}
		pad -= n
		seed = rapid.Byte().Draw(t, "rdSeed")
	default:
		n = rapid.IntRange(0, 40).Draw(t, "rdSmall")
	}
	return rapid.SliceOfN(gByte, n, n).Draw(t, "rdata"), pad, seed
}

// genRDLenField: what the caller leaves in ResourceRecord.RDLength (see jRR.RDLenField).
func genRDLenField(t *rapid.T) *uint16 {
	var v uint16
	switch rapid.IntRange(0, 3).Draw(t, "rdlenField") {
	case 0:
		return nil
	case 1, 2:
		v = 0
	default:
		v = rapid.Uint16().Draw(t, "rdlenStale")
	}
	return &v
}

// consistentRDLen: the record with its RDLength field as a caller of AddAnswer leaves it - unset (0)
// or len(RData); a stale value becomes len(RData). (A record that contradicts itself may be refused by
// AddAnswer; stale values are for the records placed into the sections directly, where Encode
// recomputes the field.)
func consistentRDLen(r jRR) jRR {
	if r.RDLenField != nil && *r.RDLenField != 0 && int(*r.RDLenField) != len(r.RData)+r.Pad {
		r.RDLenField = nil
	}
	return r
}

func genRR(t *rapid.T, pool *[]jName, maxRData int) jRR {
	r := jRR{Name: genName(t, pool), Type: rapid.Uint16().Draw(t, "type"), Class: rapid.Uint16().Draw(t, "class"), TTL: rapid.Uint32().Draw(t, "ttl")}
	r.RData, r.Pad, r.PadSeed = genRData(t, maxRData)
	r.RDLenField = genRDLenField(t)
	return r
}

// rarely is true in roughly pct/2 percent of the draws (pct <= 50). rapid's integer generators
// favour small values and the ends of a range (0 and 1 come up ~10 % each in 0..99), the middle of the
// range is flat at ~0.5 % per value; shrinking moves towards 0 = "not this time".
func rarely(t *rapid.T, label string, pct int) bool {
	v := rapid.IntRange(0, 99).Draw(t, label)
	return v >= 40 && v < 40+pct
}

// bigCounts are section sizes around the point where a count stops fitting 8 bits.
var bigCounts = []int{255, 256, 257, 300}

func genMsg(t *rapid.T, maxRData int) msgCase {
	var pool []jName
	c := msgCase{ID: rapid.Uint16().Draw(t, "id"), Flags: rapid.Uint16().Draw(t, "flags")}
	// about one case in 40 has one section with more entries than an 8-bit counter holds: a few drawn
	// entries repeated cyclically, made distinct (and their order observable) through the type field
	big, bigN := -1, 0
	if rarely(t, "bigSection", 5) {
		big = rapid.IntRange(0, 3).Draw(t, "bigWhich")
		bigN = rapid.SampledFrom(bigCounts).Draw(t, "bigCount")
	}
	count := func(label string, sec int) (drawn, total int) {
		if sec == big {
			return rapid.IntRange(1, 3).Draw(t, label), bigN
		}
		n := rapid.IntRange(0, 4).Draw(t, label)
		return n, n
	}
	drawn, total := count("nq", 0)
	for i := 0; i < drawn; i++ {
		c.Questions = append(c.Questions, jQ{genName(t, &pool), rapid.Uint16().Draw(t, "qtype"), rapid.Uint16().Draw(t, "qclass")})
	}
	for i := drawn; i < total; i++ {
		q := c.Questions[i%drawn]
		q.Type += uint16(i / drawn)
		c.Questions = append(c.Questions, q)
	}
	sec := func(label string, idx int) []jRR {
		var out []jRR
		drawn, total := count(label, idx)
		max := maxRData
		if total > drawn {
			max = 40
		}
		for i := 0; i < drawn; i++ {
			r := genRR(t, &pool, max)
			if total > drawn && r.Pad > 64 {
				r.Pad = 64
			}
			out = append(out, r)
		}
		for i := drawn; i < total; i++ {
			r := out[i%drawn]
			r.Type += uint16(i / drawn)
			out = append(out, r)
		}
		return out
	}
	c.Answers, c.Authority, c.Additional = sec("nan", 1), sec("nns", 2), sec("nar", 3)
	c.Counts = genCountsField(t, [4]int{len(c.Questions), len(c.Answers), len(c.Authority), len(c.Additional)})
	return c
}

// genCountsField: what the caller leaves in the four header counts (see msgCase.Counts) - zero, the
// section lengths, or stale values: each count on its own right, off by one, or any 16-bit number.
func genCountsField(t *rapid.T, lens [4]int) *[4]uint16 {
	var v [4]uint16
	switch rapid.IntRange(0, 3).Draw(t, "countsField") {
	case 0, 1:
		return nil
	case 2:
		for i, n := range lens {
			v[i] = uint16(n)
		}
	default:
		for i, n := range lens {
			switch rapid.IntRange(0, 3).Draw(t, "countStale") {
			case 0:
				v[i] = uint16(n)
			case 1:
				v[i] = uint16(n + 1)
			case 2:
				v[i] = uint16(n - 1)
			default:
				v[i] = rapid.Uint16().Draw(t, "countAny")
			}
		}
	}
	return &v
}

func nontrivial(c msgCase) bool {
	if len(c.Authority)+len(c.Additional) > 0 {
		return true
	}
	for _, q := range c.Questions {
		if len(q.Name) >= 2 {
			return true
		}
	}
	for _, r := range c.Answers {
		if len(r.Name) >= 2 {
			return true
		}
	}
	return false
}

// ---- sub-checks --------------------------------------------------------------------------

// classify counts the generator classes the red-team gaps were about (evidence only).
func classify(s *vf.Sub, c msgCase) {
	if len(c.Questions) > 255 || len(c.Answers) > 255 || len(c.Authority) > 255 || len(c.Additional) > 255 {
		s.Class("section-over-255-entries")
	}
	if c.Counts != nil && *c.Counts != [4]uint16{uint16(len(c.Questions)), uint16(len(c.Answers)), uint16(len(c.Authority)), uint16(len(c.Additional))} {
		s.Class("header-count-fields-not-the-section-lengths")
	}
	for _, q := range c.Questions {
		classifyName(s, q.Name)
	}
	for _, sec := range [][]jRR{c.Answers, c.Authority, c.Additional} {
		for _, r := range sec {
			classifyName(s, r.Name)
			n := len(r.RData) + r.Pad
			if n >= 32768 {
				s.Class("rdata>=32768")
			}
			if n == 65535 {
				s.Class("rdata=65535")
			}
			if r.RDLenField != nil && int(*r.RDLenField) != n {
				s.Class("rdlength-field-not-len(rdata)")
			}
		}
	}
}

func classifyName(s *vf.Sub, n jName) {
	if len(n) > 100 {
		s.Class("name-of-over-100-labels")
	}
	if len(n) == 127 {
		s.Class("name-of-127-labels")
	}
	if n.ref().WireLen() == 255 {
		s.Class("name-of-255-octets")
	}
	for _, l := range n {
		if len(l) > 12 && len(l) < 62 {
			s.Class("label-of-13..61-octets")
			break
		}
	}
}

func classified(s *vf.Sub, chk func(msgCase) []vf.Finding) func(msgCase) []vf.Finding {
	return func(c msgCase) []vf.Finding {
		classify(s, c)
		return chk(c)
	}
}

func checkRoundtrip(c msgCase) []vf.Finding {
	m := c.lib()
	wire, err := m.Encode()
	if err != nil {
		return []vf.Finding{vf.F("Message.Encode", "valid-message-rejected", "%v", err)}
	}
	got, err := llmnr.DecodeMessage(wire)
	if err != nil {
		return []vf.Finding{vf.F("llmnr.DecodeMessage", "own-encoding-rejected", "%v (wire %d bytes)", err, len(wire))}
	}
	fs := compareLib("DecodeMessage(Encode(m))", got, c)
	// Validate (header counts equal the slices, names within the label/name limits) holds for the
	// message with its counts filled in by the caller, and for what DecodeMessage returns for it
	if err := forValidate(c.libCounted()).Validate(); err != nil {
		fs = append(fs, vf.F("Message.Validate", "valid-message-rejected", "message with counts set to the section lengths: %v", err))
	}
	if err := forValidate(got).Validate(); err != nil {
		fs = append(fs, vf.F("Message.Validate", "valid-message-rejected", "decoded message: %v", err))
	}
	// encode∘decode is the identity on the library's own output (root name included)
	if again, err := got.Encode(); err != nil || !bytes.Equal(again, wire) {
		fs = append(fs, vf.F("Message.Encode", "reencoding-decoded-message-differs", "err %v; %d vs %d bytes", err, len(again), len(wire)))
	}
	return fs
}

func TestRoundtrip(t *testing.T) {
	s := vf.Begin(t, P, "roundtrip")
	vf.Rapid(s, vf.N(15000, 200000), func(t *rapid.T) msgCase { return genMsg(t, vf.Size(512, 4000)) }, classified(s, checkRoundtrip), nontrivial)
}

func checkRefParsesLib(c msgCase) []vf.Finding {
	wire, err := c.lib().Encode()
	if err != nil {
		return []vf.Finding{vf.F("Message.Encode", "valid-message-rejected", "%v", err)}
	}
	got, err := dns.Parse(wire)
	if err != nil && got == nil {
		return []vf.Finding{vf.F("Message.Encode", "rfc1035-parser-rejects-output", "%v", err)}
	}
	fs := compareRef("rfc1035.Parse(Encode(m))", got, c)
	if err != nil && len(fs) == 0 {
		fs = append(fs, vf.F("Message.Encode", "rfc1035-parser-rejects-output", "%v", err))
	}
	return fs
}

func TestRefParsesLib(t *testing.T) {
	s := vf.Begin(t, P, "ref-parses-lib")
	vf.Rapid(s, vf.N(15000, 200000), func(t *rapid.T) msgCase { return genMsg(t, vf.Size(512, 4000)) }, classified(s, checkRefParsesLib), nontrivial)
}

// chooser turns the case's choice list into the reference encoder's Choice callback (nil = no
// compression): the list is consumed cyclically, a negative entry writes the name out.
func (c msgCase) chooser() func(int) int {
	if len(c.Choices) == 0 {
		return nil
	}
	i := 0
	return func(n int) int {
		v := c.Choices[i%len(c.Choices)]
		i++
		if v < 0 {
			return -1
		}
		return v % n
	}
}

func (c msgCase) refWire() ([]byte, dns.Stats) { return dns.EncodeOpt(c.ref(), c.chooser(), c.Root) }

func checkLibParsesRef(c msgCase) []vf.Finding {
	wire, _ := c.refWire()
	return checkLibParsesWire(c, wire)
}

func checkLibParsesWire(c msgCase, wire []byte) []vf.Finding {
	// the reference must accept its own output (harness sanity)
	if back, err := dns.Parse(wire); err != nil || len(compareRef("ref", back, c)) != 0 {
		return []vf.Finding{vf.F("harness", "reference-codec-not-self-consistent", "%v", err)}
	}
	var got *llmnr.Message
	var err error
	if !vf.WithTimeout(10*time.Second, func() { got, err = llmnr.DecodeMessage(wire) }) {
		return []vf.Finding{vf.F("llmnr.DecodeMessage", "does-not-terminate", "wire %d bytes", len(wire))}
	}
	if err != nil {
		return []vf.Finding{vf.F("llmnr.DecodeMessage", "rfc1035-encoding-rejected", "%v", err)}
	}
	return compareLib("DecodeMessage(rfc1035.Encode(m))", got, c)
}

func TestLibParsesRef(t *testing.T) {
	s := vf.Begin(t, P, "lib-parses-ref")
	vf.Rapid(s, vf.N(10000, 150000), func(t *rapid.T) msgCase { return genMsg(t, vf.Size(512, 4000)) }, classified(s, checkLibParsesRef), nontrivial)
}

func genChoices(t *rapid.T) []int {
	var out []int
	k := rapid.IntRange(1, 12).Draw(t, "nchoices")
	for i := 0; i < k; i++ {
		// mostly compress; -1 = write the name out
		if rapid.IntRange(0, 4).Draw(t, "plain") == 0 {
			out = append(out, -1)
		} else {
			out = append(out, rapid.IntRange(0, 50).Draw(t, "choice"))
		}
	}
	return out
}

// genCompressed: a message for the compressing reference encoder. One case in six starts its
// answer section with a record whose RDATA pushes every later name - and so the targets of the
// pointers to them - anywhere into the 14-bit offset range (a pointer is 0xC000 | offset, offsets
// from 0x0100, 0x1000, 0x2000 exercise every bit of the mask).
func genCompressed(t *rapid.T) msgCase {
	c := genMsg(t, 64)
	if rarely(t, "lead", 30) {
		var pad int
		if rapid.Bool().Draw(t, "leadAtBit") {
			pad = rapid.SampledFrom([]int{0x0100, 0x0200, 0x0400, 0x0800, 0x1000, 0x2000, 0x3000, 0x3F00}).Draw(t, "leadBit") - rapid.IntRange(0, 96).Draw(t, "leadBack")
		} else {
			pad = rapid.IntRange(0, 0x3FF0).Draw(t, "leadAny")
		}
		lead := jRR{Name: jName{}, Type: 16, Class: 1, TTL: rapid.Uint32().Draw(t, "leadTTL"), Pad: pad, PadSeed: rapid.Byte().Draw(t, "leadSeed")}
		c.Answers = append([]jRR{lead}, c.Answers...)
	}
	c.Choices = genChoices(t)
	return c
}

func classifyPointers(s *vf.Sub, st dns.Stats) {
	for _, lim := range []int{0x100, 0x1000, 0x2000, 0x3000} {
		if st.MaxTarget >= lim {
			s.Class(fmt.Sprintf("pointer-target>=%#x", lim))
		}
	}
	if st.Chained > 0 {
		s.Class("chained-pointer")
	}
	if st.RootPointers > 0 {
		s.Class("pointer-to-root")
	}
	if st.RootAfter > 0 {
		s.Class("labels-then-pointer-to-root")
	}
}

func TestCompression(t *testing.T) {
	s := vf.Begin(t, P, "compression")
	var st dns.Stats // of the case being checked: vf runs the oracle, then the non-triviality rule, on one goroutine
	vf.Rapid(s, vf.N(10000, 150000), genCompressed, func(c msgCase) []vf.Finding {
		var wire []byte
		wire, st = c.refWire()
		classifyPointers(s, st)
		return checkLibParsesWire(c, wire)
	}, func(c msgCase) bool { return st.Pointers > 0 })
}

// A name may also end in a pointer to an earlier occurrence of the root name, i.e. to the zero
// octet that terminates a written-out name ("a" = 01 'a' C0 xx with a zero at xx), and the root name
// itself may be written as such a pointer: the remaining placement of backward pointers. Same
// generator and oracle as "compression", with the empty suffix among the pointer candidates.
func TestCompressionRoot(t *testing.T) {
	s := vf.Begin(t, P, "compression-root-pointers")
	var st dns.Stats
	vf.Rapid(s, vf.N(6000, 100000), func(t *rapid.T) msgCase {
		c := genCompressed(t)
		c.Root = true
		return c
	}, func(c msgCase) []vf.Finding {
		var wire []byte
		wire, st = c.refWire()
		classifyPointers(s, st)
		return checkLibParsesWire(c, wire)
	}, func(c msgCase) bool { return st.RootPointers > 0 })
}

// ---- the bytes Encode returns are a value of their own ---------------------------------------------

type twoMsgCase struct {
	First  msgCase `json:"first"`
	Second msgCase `json:"second"`
}

// checkEncodeIndependent: the caller keeps the bytes of one Encode while another message is encoded
// (a responder answering two queries, a sender queueing packets): the kept bytes still are the
// encoding of the first message - unchanged, and decoding to the first message's content.
func checkEncodeIndependent(c twoMsgCase) []vf.Finding {
	w1, err := c.First.lib().Encode()
	if err != nil {
		return []vf.Finding{vf.F("Message.Encode", "valid-message-rejected", "%v", err)}
	}
	saved := append([]byte{}, w1...)
	w2, err := c.Second.lib().Encode()
	if err != nil {
		return []vf.Finding{vf.F("Message.Encode", "valid-message-rejected", "second message: %v", err)}
	}
	var fs []vf.Finding
	if !bytes.Equal(w1, saved) {
		fs = append(fs, vf.F("Message.Encode", "earlier-result-overwritten-by-next-encode", "the %d bytes returned for the first message changed when a second message (%d bytes) was encoded", len(saved), len(w2)))
	}
	got, err := llmnr.DecodeMessage(w1)
	if err != nil {
		return append(fs, vf.F("llmnr.DecodeMessage", "own-encoding-rejected", "first message, decoded after the second was encoded: %v (wire %d bytes)", err, len(w1)))
	}
	fs = append(fs, compareLib("DecodeMessage(first Encode result, after a second Encode)", got, c.First)...)
	// and the other way round: the second result is the second message, whatever the first left behind
	got2, err := llmnr.DecodeMessage(w2)
	if err != nil {
		return append(fs, vf.F("llmnr.DecodeMessage", "own-encoding-rejected", "second message: %v (wire %d bytes)", err, len(w2)))
	}
	return append(fs, compareLib("DecodeMessage(second Encode result)", got2, c.Second)...)
}

func TestEncodeIndependent(t *testing.T) {
	s := vf.Begin(t, P, "encode-results-independent")
	vf.Rapid(s, vf.N(5000, 60000), func(t *rapid.T) twoMsgCase {
		c := twoMsgCase{First: genMsg(t, 64)}
		// the second message: another draw or, one time in three, the first with a few fields changed
		// (same length on the wire, different content)
		if rapid.IntRange(0, 2).Draw(t, "secondKind") == 0 {
			c.Second = c.First
			c.Second.ID ^= rapid.Uint16Range(1, 0xFFFF).Draw(t, "idFlip")
			c.Second.Flags = rapid.Uint16().Draw(t, "flags2")
			c.Second.Answers = append([]jRR{}, c.First.Answers...)
			for i := range c.Second.Answers {
				c.Second.Answers[i].TTL ^= rapid.Uint32().Draw(t, "ttlFlip")
			}
		} else {
			c.Second = genMsg(t, 64)
		}
		return c
	}, checkEncodeIndependent, func(c twoMsgCase) bool { return nontrivial(c.First) || nontrivial(c.Second) })
}

// ---- RDATA length limits ---------------------------------------------------------------------

type rdLimitCase struct {
	Len     int    `json:"rdata_len"`
	Section string `json:"section"`
	Follow  bool   `json:"followed_by_another_record"`
	Field   string `json:"rdlength_field"` // len, zero
}

func (c rdLimitCase) msg() msgCase {
	r := jRR{Name: jName{vf.Hex("host"), vf.Hex("local")}, Type: 16, Class: 1, TTL: 30, Pad: c.Len, PadSeed: byte(c.Len)}
	if c.Field == "zero" {
		r.RDLenField = new(uint16)
	}
	recs := []jRR{r}
	if c.Follow {
		recs = append(recs, jRR{Name: jName{vf.Hex("next")}, Type: 1, Class: 1, TTL: 1, RData: vf.Hex{10, 0, 0, 1}})
	}
	m := msgCase{ID: 0x1234, Flags: 0x8000, Questions: []jQ{{jName{vf.Hex("host"), vf.Hex("local")}, 255, 1}}}
	switch c.Section {
	case "answer":
		m.Answers = recs
	case "authority":
		m.Authority = recs
	default:
		m.Additional = recs
	}
	return m
}

// TestRDataLimits: RDATA of every length at which an 8/15/16-bit reading of RDLENGTH changes, in
// each record section, alone and followed by another record, through all three directions.
func TestRDataLimits(t *testing.T) {
	s := vf.Begin(t, P, "rdata-limits")
	s.SetExhaustive()
	vf.Enum(s, func(yield func(rdLimitCase)) {
		for _, n := range append([]int{0, 1}, rdataLimits...) {
			for _, sec := range []string{"answer", "authority", "additional"} {
				for _, follow := range []bool{false, true} {
					for _, field := range []string{"len", "zero"} {
						yield(rdLimitCase{n, sec, follow, field})
					}
				}
			}
		}
	}, func(c rdLimitCase) []vf.Finding {
		m := c.msg()
		fs := checkRoundtrip(m)
		fs = append(fs, checkRefParsesLib(m)...)
		fs = append(fs, checkLibParsesRef(m)...)
		m.Choices = []int{0}
		return append(fs, checkLibParsesRef(m)...)
	}, func(c rdLimitCase) bool { return c.Len >= 255 })
}

// ---- messages built through the Add* API ------------------------------------------------------

type apiOp struct {
	Kind string `json:"op"` // question, answer, a, aaaa
	Name jName  `json:"name"`
	// question / answer
	Type  uint16 `json:"type,omitempty"`
	Class uint16 `json:"class,omitempty"`
	// answer (TTL, RData, Pad, RDLenField) ; a / aaaa: RData is the 4 / 16 address bytes
	RR jRR `json:"rr"`
}

type apiCase struct {
	ID    uint16  `json:"id"`
	Flags uint16  `json:"flags"`
	Ops   []apiOp `json:"ops"`
}

// nameOf turns a name as the library holds it (dot-joined labels, the root as "" or ".") back
// into labels.
func nameOf(s string) jName {
	if s == "" || s == "." {
		return jName{}
	}
	n := jName{}
	for _, l := range strings.Split(s, ".") {
		n = append(n, vf.Hex(l))
	}
	return n
}

// built is the content of a message as it stands after the Add* calls (a deep copy, taken before
// Encode): whatever questions and records the helpers put into the four sections. id and flags
// are the ones the caller set.
func built(m *llmnr.Message, id, flags uint16) msgCase {
	c := msgCase{ID: id, Flags: flags}
	for _, q := range m.Questions {
		c.Questions = append(c.Questions, jQ{nameOf(q.Name), q.Type, q.Class})
	}
	conv := func(in []llmnr.ResourceRecord) []jRR {
		var out []jRR
		for _, r := range in {
			out = append(out, jRR{Name: nameOf(r.Name), Type: r.Type, Class: r.Class, TTL: r.TTL, RData: append(vf.Hex{}, r.RData...)})
		}
		return out
	}
	c.Answers, c.Authority, c.Additional = conv(m.Answers), conv(m.Authority), conv(m.Additional)
	return c
}

// countQ counts the questions with the given name (the root as "" or "."), type and class.
func countQ(qs []llmnr.Question, name jName, typ, class uint16) (n int) {
	for _, q := range qs {
		if sameName(q.Name, name) && q.Type == typ && q.Class == class {
			n++
		}
	}
	return
}

// countRR counts the records with the given name (the root as "" or "."), type, class and data
// (and TTL, when ttl >= 0).
func countRR(rs []llmnr.ResourceRecord, name jName, typ, class uint16, ttl int64, data []byte) (n int) {
	for _, r := range rs {
		if sameName(r.Name, name) && r.Type == typ && r.Class == class && (ttl < 0 || int64(r.TTL) == ttl) && bytes.Equal(r.RData, data) {
			n++
		}
	}
	return
}

func checkBuildAPI(c apiCase) []vf.Finding {
	m := llmnr.NewMessage()
	m.ID, m.Flags = c.ID, c.Flags
	var fs []vf.Finding
	for i, op := range c.Ops {
		var who string
		var call func() error
		// what the call is asked to add has to be in its section afterwards (whether a call adds an
		// entry that is there already is the library's choice: presence is demanded, not growth)
		var count func() int
		name := op.Name.text()
		switch op.Kind {
		case "question":
			who, call = "Message.AddQuestion", func() error { return m.AddQuestion(name, op.Type, op.Class) }
			count = func() int { return countQ(m.Questions, op.Name, op.Type, op.Class) }
		case "answer":
			r := consistentRDLen(op.RR)
			r.Name, r.Type, r.Class = op.Name, op.Type, op.Class
			data := r.data()
			who, call = "Message.AddAnswer", func() error { return m.AddAnswer(r.lib()) }
			count = func() int { return countRR(m.Answers, op.Name, op.Type, op.Class, int64(r.TTL), data) }
		case "a":
			who, call = "Message.AddAnswerClassINTypeA", func() error { return m.AddAnswerClassINTypeA(name, net.IP(op.RR.RData).String()) }
			count = func() int { return countRR(m.Answers, op.Name, llmnr.TypeA, llmnr.ClassIN, -1, op.RR.RData) }
		default:
			who, call = "Message.AddAnswerClassINTypeAAAA", func() error { return m.AddAnswerClassINTypeAAAA(name, net.IP(op.RR.RData).String()) }
			count = func() int { return countRR(m.Answers, op.Name, llmnr.TypeAAAA, llmnr.ClassIN, -1, op.RR.RData) }
		}
		err := call()
		if err != nil {
			return []vf.Finding{vf.F(who, "valid-name-rejected", "call %d, name %q (%d labels, %d octets on the wire): %v", i, op.Name.text(), len(op.Name), op.Name.ref().WireLen(), err)}
		}
		if count() < 1 {
			fs = append(fs, vf.F(who, "added-entry-not-in-message", "call %d (%s, name %q): no entry with the given name, type, class and data in the section", i, op.Kind, name))
		}
	}
	// the expected content is the message as built: which further entries the helpers add on their
	// own (the question implied by an A/AAAA answer) is theirs to decide
	want := built(m, c.ID, c.Flags)
	// the Add* calls keep the header counts of the sections they fill
	if int(m.QDCount) != len(m.Questions) || int(m.ANCount) != len(m.Answers) {
		fs = append(fs, vf.F("Message.Add*", "header-counts-differ", "QDCOUNT %d ANCOUNT %d with %d questions, %d answers in the message", m.QDCount, m.ANCount, len(m.Questions), len(m.Answers)))
	}
	if err := forValidate(m).Validate(); err != nil {
		fs = append(fs, vf.F("Message.Validate", "valid-message-rejected", "message built by Add*: %v", err))
	}
	wire, err := m.Encode()
	if err != nil {
		return append(fs, vf.F("Message.Encode", "valid-message-rejected", "%v", err))
	}
	got, err := llmnr.DecodeMessage(wire)
	if err != nil {
		return append(fs, vf.F("llmnr.DecodeMessage", "own-encoding-rejected", "%v (wire %d bytes)", err, len(wire)))
	}
	fs = append(fs, compareLib("DecodeMessage(Encode(built by Add*))", got, want)...)
	if err := forValidate(got).Validate(); err != nil {
		fs = append(fs, vf.F("Message.Validate", "valid-message-rejected", "decoded message: %v", err))
	}
	ref, err := dns.Parse(wire)
	if err != nil {
		return append(fs, vf.F("Message.Encode", "rfc1035-parser-rejects-output", "%v", err))
	}
	return append(fs, compareRef("rfc1035.Parse(Encode(built by Add*))", ref, want)...)
}

// TestBuildAPI: the message is assembled the way callers do, through NewMessage, AddQuestion,
// AddAnswer and AddAnswerClassINTypeA/AAAA; every valid name must be accepted.
func TestBuildAPI(t *testing.T) {
	s := vf.Begin(t, P, "build-api")
	vf.Rapid(s, vf.N(8000, 100000), func(t *rapid.T) apiCase {
		var pool []jName
		c := apiCase{ID: rapid.Uint16().Draw(t, "id"), Flags: rapid.Uint16().Draw(t, "flags")}
		for i, n := 0, rapid.IntRange(1, 6).Draw(t, "nops"); i < n; i++ {
			op := apiOp{Kind: rapid.SampledFrom([]string{"question", "answer", "a", "aaaa"}).Draw(t, "op"), Name: genName(t, &pool)}
			switch op.Kind {
			case "question":
				op.Type, op.Class = rapid.Uint16().Draw(t, "qtype"), rapid.Uint16().Draw(t, "qclass")
			case "answer":
				op.RR = consistentRDLen(genRR(t, &pool, 64))
				op.Name, op.Type, op.Class = op.RR.Name, op.RR.Type, op.RR.Class
				op.RR.Name, op.RR.Type, op.RR.Class = nil, 0, 0
			case "a":
				op.RR.RData = rapid.SliceOfN(rapid.Byte(), 4, 4).Draw(t, "ipv4")
			default:
				op.RR.RData = rapid.SliceOfN(rapid.Byte(), 16, 16).Draw(t, "ipv6")
			}
			c.Ops = append(c.Ops, op)
		}
		return c
	}, func(c apiCase) []vf.Finding {
		for _, op := range c.Ops {
			for _, l := range op.Name {
				if len(l) == 63 {
					s.Class("label-of-63-octets")
				}
			}
			if op.Name.ref().WireLen() >= 250 {
				s.Class("name-within-5-octets-of-255")
			}
		}
		return checkBuildAPI(c)
	}, func(c apiCase) bool { return len(c.Ops) >= 2 })
}

// ---- illegal pointers -----------------------------------------------------------------------

type ptrCase struct {
	Prefix  jName  `json:"labels_before_pointer"`
	Kind    string `json:"kind"` // self, forward, into-current, at-pointer, beyond-end
	Delta   int    `json:"delta"`
	Section string `json:"section"` // question or answer
	Lead    jName  `json:"earlier_name"`
}

// build: header, (optional earlier question with name Lead), then the entry
// whose name is Prefix labels followed by a pointer of the given kind.
func (c ptrCase) wire() (b []byte, target, nameStart int) {
	qd, an := 1, 0
	if c.Section == "answer" {
		qd, an = 0, 1
	}
	if len(c.Lead) > 0 {
		qd++
	}
	b = []byte{0x12, 0x34, 0, 0, 0, byte(qd), 0, byte(an), 0, 0, 0, 0}
	if len(c.Lead) > 0 {
		for _, l := range c.Lead {
			b = append(b, byte(len(l)))
			b = append(b, l...)
		}
		b = append(b, 0, 0, 1, 0, 1)
	}
	nameStart = len(b)
	for _, l := range c.Prefix {
		b = append(b, byte(len(l)))
		b = append(b, l...)
	}
	ptrAt := len(b)
	switch c.Kind {
	case "self":
		target = nameStart
	case "at-pointer":
		target = ptrAt
	case "into-current":
		target = nameStart + c.Delta%(ptrAt-nameStart+1)
	case "forward":
		target = ptrAt + 2 + c.Delta%20
	default: // beyond-end
		target = 0x3FFF - c.Delta%8
	}
	b = append(b, 0xC0|byte(target>>8), byte(target))
	if c.Section == "answer" {
		b = append(b, 0, 1, 0, 1, 0, 0, 0, 30, 0, 4, 1, 2, 3, 4)
	} else {
		b = append(b, 0, 1, 0, 1)
	}
	// a plausible name after the entry so that a forward pointer finds labels
	b = append(b, 3, 'w', 'w', 'w', 0, 0, 0, 0, 0, 0, 0, 0, 0, 0, 0, 0, 0, 0, 0, 0, 0, 0, 0, 0)
	return
}

func checkBadPointer(c ptrCase) []vf.Finding {
	wire, target, start := c.wire()
	if target < start {
		return nil // "into-current" with delta 0 on an empty prefix is "self": still >= start; never < start
	}
	var msg *llmnr.Message
	var err error
	if !vf.WithTimeout(10*time.Second, func() { msg, err = llmnr.DecodeMessage(wire) }) {
		return []vf.Finding{vf.F("llmnr.DecodeMessage", "does-not-terminate", "pointer %s -> %d (name at %d): %x", c.Kind, target, start, wire)}
	}
	if err == nil {
		return []vf.Finding{vf.F("llmnr.DecodeMessage", "non-backward-pointer-accepted", "pointer %s -> %d (name starts at %d) decoded as %+v", c.Kind, target, start, msg)}
	}
	// the standalone name decoder has to agree
	if _, _, err2 := llmnr.DecodeDomainName(wire, start); err2 == nil {
		return []vf.Finding{vf.F("llmnr.DecodeDomainName", "non-backward-pointer-accepted", "pointer %s -> %d (name starts at %d)", c.Kind, target, start)}
	}
	return nil
}

func TestBadPointerRejected(t *testing.T) {
	s := vf.Begin(t, P, "bad-pointer-rejected")
	vf.Rapid(s, vf.N(10000, 150000), func(t *rapid.T) ptrCase {
		var pool []jName
		c := ptrCase{Kind: rapid.SampledFrom([]string{"self", "forward", "into-current", "at-pointer", "beyond-end"}).Draw(t, "kind"),
			Delta: rapid.IntRange(0, 300).Draw(t, "delta"), Section: rapid.SampledFrom([]string{"question", "answer"}).Draw(t, "section")}
		n := genName(t, &pool)
		if len(n) > 3 {
			n = n[:3]
		}
		c.Prefix = n
		if rapid.Bool().Draw(t, "lead") {
			l := genName(t, &pool)
			if len(l) > 2 {
				l = l[:2]
			}
			c.Lead = l
		}
		return c
	}, checkBadPointer, func(c ptrCase) bool { return len(c.Prefix) > 0 })
}

// ---- illegal pointers at the second and later hops --------------------------------------------

// A name may reach its end through several pointers. Each of them has to point strictly backwards:
// before the start of the part of the name it ends (RFC 1035 4.1.4 "a prior occurrence"). The
// cases here follow one or more legal hops and then meet a pointer that points at itself, at the
// start or into the part being read, forwards to a later place - visited before (a cycle) or not -,
// at the name under test or past the end of the packet. The places the name hops through lie in the
// RDATA of an earlier record (where compressed names live in real packets: PTR, CNAME, SRV targets),
// all of them below the name under test, so that a decoder which only compares pointers with the
// start of the first name sees nothing wrong. Must be rejected, and decoding must terminate.

type hopNode struct {
	Labels jName `json:"labels"`
	To     int   `json:"back_to"` // -1: ends in the zero octet; otherwise in a pointer to node To (< own index)
}

type hopCase struct {
	Nodes   []hopNode `json:"nodes"` // in wire order
	Prefix  jName     `json:"labels_before_pointer"`
	Entry   int       `json:"entry_node"` // the node the name under test points at
	BadPos  int       `json:"bad_hop"`    // position on the walk (0 = the entry node) of the node given the illegal pointer
	Kind    string    `json:"kind"`       // self, at-pointer, into-current, forward-node, cycle, name, beyond-end
	Delta   int       `json:"delta"`
	Section string    `json:"section"` // of the record under test: answer, authority, additional
	Lead    bool      `json:"question_first"`
}

// walk: the nodes the name under test passes through, in order.
func (c hopCase) walk() []int {
	var w []int
	for i := c.Entry; i >= 0 && len(w) <= len(c.Nodes); i = c.Nodes[i].To {
		w = append(w, i)
	}
	return w
}

// wire builds the packet; with bad set, the node at walk position BadPos ends in the illegal pointer.
// It returns the offset of the name under test and the illegal pointer's target.
func (c hopCase) wire(bad bool) (b []byte, nameStart, target int) {
	w := c.walk()
	pos := c.BadPos % len(w)
	badNode := -1
	if bad {
		badNode = w[pos]
	}
	an, ns, ar := 2, 0, 0
	switch c.Section {
	case "authority":
		an, ns = 1, 1
	case "additional":
		an, ar = 1, 1
	}
	b = []byte{0x12, 0x34, 0x80, 0, 0, 0, 0, byte(an), 0, byte(ns), 0, byte(ar)}
	if c.Lead {
		b[5] = 1
		b = append(b, 4, 'l', 'e', 'a', 'd', 0, 0, 1, 0, 1)
	}
	// first record: root name, TXT, RDATA = the nodes
	b = append(b, 0, 0, 16, 0, 1, 0, 0, 0, 30, 0, 0)
	area := len(b)
	start := make([]int, len(c.Nodes)+1)
	ptrAt := make([]int, len(c.Nodes))
	at := area
	for i, n := range c.Nodes {
		start[i] = at
		for _, l := range n.Labels {
			at += 1 + len(l)
		}
		ptrAt[i] = at
		if n.To < 0 && i != badNode {
			at++
		} else {
			at += 2
		}
	}
	b[area-2], b[area-1] = byte((at-area)>>8), byte(at-area)
	// second record starts where the nodes end
	nameStart = at
	nameLen := 2
	for _, l := range c.Prefix {
		nameLen += 1 + len(l)
	}
	if bad {
		s0 := start[badNode]
		switch c.Kind {
		case "self":
			target = s0
		case "at-pointer":
			target = ptrAt[badNode]
		case "into-current":
			target = s0 + c.Delta%(ptrAt[badNode]-s0+1)
		case "forward-node":
			if badNode == len(c.Nodes)-1 {
				target = nameStart
			} else {
				target = start[badNode+1+c.Delta%(len(c.Nodes)-1-badNode)]
			}
		case "cycle":
			target = start[w[c.Delta%(pos+1)]]
		case "name":
			target = nameStart + c.Delta%nameLen
		default: // beyond-end
			target = 0x3FFF - c.Delta%8
		}
	}
	ptr := func(to int) { b = append(b, 0xC0|byte(to>>8), byte(to)) }
	for i, n := range c.Nodes {
		for _, l := range n.Labels {
			b = append(b, byte(len(l)))
			b = append(b, l...)
		}
		switch {
		case i == badNode:
			ptr(target)
		case n.To < 0:
			b = append(b, 0)
		default:
			ptr(start[n.To])
		}
	}
	for _, l := range c.Prefix {
		b = append(b, byte(len(l)))
		b = append(b, l...)
	}
	ptr(start[c.Entry])
	b = append(b, 0, 1, 0, 1, 0, 0, 0, 30, 0, 4, 1, 2, 3, 4)
	return
}

// libName: the name of the record under test (the last one of its section) in a decoded message.
func (c hopCase) libName(m *llmnr.Message) (string, bool) {
	sec := m.Answers
	switch c.Section {
	case "authority":
		sec = m.Authority
	case "additional":
		sec = m.Additional
	}
	if len(sec) == 0 {
		return "", false
	}
	return sec[len(sec)-1].Name, true
}

func checkLaterHop(s *vf.Sub) func(c hopCase) []vf.Finding {
	return func(c hopCase) []vf.Finding {
		w := c.walk()
		if len(w) > 1+c.BadPos%len(w) {
			s.Class("illegal-pointer-followed-by-legal-nodes")
		}
		if c.BadPos%len(w) >= 1 {
			s.Class("illegal-pointer-at-third-hop-or-later")
		}
		// the legal packet first: several hops, labels on the way; must decode to the name the reference reads
		legal, start, _ := c.wire(false)
		ref, err := dns.Parse(legal)
		if err != nil {
			return []vf.Finding{vf.F("harness", "reference-codec-rejects-legal-chain", "%v: %x", err, legal)}
		}
		want := jName{}
		for _, l := range c.Prefix {
			want = append(want, l)
		}
		for _, i := range w {
			want = append(want, c.Nodes[i].Labels...)
		}
		refRecs := [][]dns.RR{ref.Answers, ref.Authority, ref.Additional}[map[string]int{"answer": 0, "authority": 1, "additional": 2}[c.Section]]
		if len(refRecs) == 0 || key(refRecs[len(refRecs)-1].Name) != key(want.ref()) {
			return []vf.Finding{vf.F("harness", "reference-codec-misreads-legal-chain", "%x", legal)}
		}
		var msg *llmnr.Message
		if !vf.WithTimeout(10*time.Second, func() { msg, err = llmnr.DecodeMessage(legal) }) {
			return []vf.Finding{vf.F("llmnr.DecodeMessage", "does-not-terminate", "legal chain of %d hops: %x", len(w), legal)}
		}
		if err != nil {
			return []vf.Finding{vf.F("llmnr.DecodeMessage", "backward-pointer-chain-rejected", "%d hops: %v: %x", len(w), err, legal)}
		}
		if got, ok := c.libName(msg); !ok || !sameName(got, want) {
			return []vf.Finding{vf.F("llmnr.DecodeMessage", "backward-pointer-chain-misread", "%d hops: got %q want %q: %x", len(w), got, want.text(), legal)}
		}
		// now with the illegal pointer
		wire, start, target := c.wire(true)
		if target < start {
			s.Class("illegal-target-below-the-name-under-test")
		}
		if _, err := dns.Parse(wire); err == nil {
			return []vf.Finding{vf.F("harness", "generated-pointer-is-legal", "%s -> %d: %x", c.Kind, target, wire)}
		}
		if !vf.WithTimeout(10*time.Second, func() { msg, err = llmnr.DecodeMessage(wire) }) {
			return []vf.Finding{vf.F("llmnr.DecodeMessage", "does-not-terminate", "hop %d: pointer %s -> %d (name under test at %d): %x", 2+c.BadPos%len(w), c.Kind, target, start, wire)}
		}
		if err == nil {
			got, _ := c.libName(msg)
			return []vf.Finding{vf.F("llmnr.DecodeMessage", "non-backward-pointer-accepted", "hop %d: pointer %s -> %d (name under test at %d) decoded as %q: %x", 2+c.BadPos%len(w), c.Kind, target, start, got, wire)}
		}
		// the standalone name decoder has to agree
		var name string
		if !vf.WithTimeout(10*time.Second, func() { name, _, err = llmnr.DecodeDomainName(wire, start) }) {
			return []vf.Finding{vf.F("llmnr.DecodeDomainName", "does-not-terminate", "hop %d: pointer %s -> %d (name under test at %d): %x", 2+c.BadPos%len(w), c.Kind, target, start, wire)}
		}
		if err == nil {
			return []vf.Finding{vf.F("llmnr.DecodeDomainName", "non-backward-pointer-accepted", "hop %d: pointer %s -> %d (name under test at %d) decoded as %q", 2+c.BadPos%len(w), c.Kind, target, start, name)}
		}
		return nil
	}
}

func key(n dns.Name) string {
	var b []byte
	for _, l := range n {
		b = append(b, byte(len(l)))
		b = append(b, l...)
	}
	return string(b)
}

var hopKinds = []string{"self", "at-pointer", "into-current", "forward-node", "cycle", "name", "beyond-end"}

// belowName: the illegal pointer lands below the name under test (what a bound that is not lowered
// hop by hop lets through); true by construction for all kinds but "name" and "beyond-end".
func (c hopCase) belowName() bool {
	_, start, target := c.wire(true)
	return target < start
}

func TestBadPointerLaterHop(t *testing.T) {
	s := vf.Begin(t, P, "bad-pointer-later-hop")
	gShort := rapid.SliceOfN(rapid.ByteRange('a', 'z'), 1, 4)
	labels := func(t *rapid.T, label string) jName {
		n := jName{}
		// mostly none: a loop through label-free nodes is the one that never ends
		for i, k := 0, rapid.SampledFrom([]int{0, 0, 0, 1, 1, 2}).Draw(t, label); i < k; i++ {
			n = append(n, vf.Hex(gShort.Draw(t, "label")))
		}
		return n
	}
	vf.Rapid(s, vf.N(8000, 100000), func(t *rapid.T) hopCase {
		c := hopCase{Kind: rapid.SampledFrom(hopKinds).Draw(t, "kind"), Delta: rapid.IntRange(0, 40).Draw(t, "delta"),
			Section: rapid.SampledFrom([]string{"answer", "authority", "additional"}).Draw(t, "section"), Lead: rapid.Bool().Draw(t, "lead"),
			BadPos: rapid.IntRange(0, 5).Draw(t, "badHop")}
		k := rapid.IntRange(1, 6).Draw(t, "nodes")
		for i := 0; i < k; i++ {
			n := hopNode{Labels: labels(t, "nodeLabels"), To: -1}
			if i > 0 {
				// mostly the node just before: long walks
				n.To = i - 1
				if rapid.IntRange(0, 3).Draw(t, "toKind") == 0 {
					n.To = rapid.IntRange(-1, i-1).Draw(t, "to")
				}
			}
			c.Nodes = append(c.Nodes, n)
		}
		c.Entry = k - 1
		if rapid.IntRange(0, 3).Draw(t, "entryKind") == 0 {
			c.Entry = rapid.IntRange(0, k-1).Draw(t, "entry")
		}
		c.Prefix = labels(t, "prefixLabels")
		return c
	}, checkLaterHop(s), hopCase.belowName)
}

// TestBadPointerLaterHopSmall enumerates the small structures of the same family: 1..3 nodes chained
// one to the next (the name under test enters at the last), every node with or without a label, the
// name under test with or without a label of its own, the illegal pointer at every hop, every kind,
// three deltas, the three record sections. Among them the two shortest loops below the name under
// test: A -> A (a node pointing at itself) and A -> B -> A.
func TestBadPointerLaterHopSmall(t *testing.T) {
	s := vf.Begin(t, P, "bad-pointer-later-hop-exhaustive")
	s.SetExhaustive()
	// a decoder that does not terminate is reported once: every further case of the family would sit
	// out the watchdog again (and leave another spinning goroutine behind)
	hung := false
	chk := checkLaterHop(s)
	vf.Enum(s, func(yield func(hopCase)) {
		for k := 1; k <= 3 && !hung; k++ {
			for mask := 0; mask < 1<<k; mask++ {
				var nodes []hopNode
				for i := 0; i < k; i++ {
					n := hopNode{Labels: jName{}, To: i - 1}
					if mask>>i&1 == 1 {
						n.Labels = jName{vf.Hex{byte('a' + i)}}
					}
					nodes = append(nodes, n)
				}
				for _, prefix := range []jName{{}, {vf.Hex("x")}} {
					for bad := 0; bad < k; bad++ {
						for _, kind := range hopKinds {
							for delta := 0; delta < 3; delta++ {
								for _, sec := range []string{"answer", "authority", "additional"} {
									if hung {
										return
									}
									yield(hopCase{Nodes: nodes, Prefix: prefix, Entry: k - 1, BadPos: bad, Kind: kind, Delta: delta, Section: sec, Lead: delta == 1})
								}
							}
						}
					}
				}
			}
		}
	}, func(c hopCase) []vf.Finding {
		fs := chk(c)
		for _, f := range fs {
			hung = hung || f.Kind == "does-not-terminate"
		}
		return fs
	}, hopCase.belowName)
}

// chains of backward pointers of every length 1..40: must decode and terminate
type chainCase struct {
	Hops int `json:"hops"`
}

func TestPointerChains(t *testing.T) {
	s := vf.Begin(t, P, "pointer-chains-exhaustive")
	s.SetExhaustive()
	vf.Enum(s, func(yield func(chainCase)) {
		for h := 1; h <= vf.Size(40, 400); h++ {
			yield(chainCase{h})
		}
	}, func(c chainCase) []vf.Finding {
		// header with QDCOUNT=1 at the end; names: offset 12: "a" root; then each hop: label "b" + pointer to previous
		b := []byte{0, 1, 0, 0, 0, 1, 0, 0, 0, 0, 0, 0}
		prev := len(b)
		body := []byte{1, 'a', 0}
		want := "a"
		offs := []int{}
		for i := 0; i < c.Hops; i++ {
			offs = append(offs, len(b)+len(body))
			if i < 100 {
				body = append(body, 1, 'b', 0xC0|byte(prev>>8), byte(prev))
				want = "b." + want
			} else {
				// the name stays within the 255 octets of a valid name (the property's domain): further
				// hops are bare pointers, which RFC 1035 4.1.4 allows ("a pointer" is a whole name)
				body = append(body, 0xC0|byte(prev>>8), byte(prev))
			}
			prev = offs[i]
		}
		// the question is the last name; everything before it is "junk" reached only through pointers,
		// so QDCOUNT=1 and the question must start at the last hop: build the packet so that the
		// question comes last by pointing from the question to the chain
		pkt := append(append([]byte{}, b...), body...)
		// declare the chain area as an unknown-type question list is not possible; instead use DecodeDomainName directly
		name, next, err := llmnr.DecodeDomainName(pkt, prev)
		if err != nil {
			return []vf.Finding{vf.F("llmnr.DecodeDomainName", "backward-pointer-chain-rejected", "%d hops: %v", c.Hops, err)}
		}
		wantNext := prev + 4
		if c.Hops > 100 {
			wantNext = prev + 2
		}
		if name != want || next != wantNext {
			return []vf.Finding{vf.F("llmnr.DecodeDomainName", "backward-pointer-chain-misread", "%d hops: got %q next %d want %q next %d", c.Hops, name, next, want, wantNext)}
		}
		return nil
	}, func(c chainCase) bool { return c.Hops >= 2 })
}

var _ = fmt.Sprintf
