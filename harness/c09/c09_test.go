// Package c09: LLMNR codec round-trips and agrees with an independent RFC 1035 codec.
package c09

import (
	"bytes"
	"fmt"
	"strings"
	"testing"
	"time"

	"pgregory.net/rapid"

	"github.com/TheManticoreProject/Manticore/network/llmnr"

	"manticoreverif/ref/dns"
	"manticoreverif/vf"
)

const P = "C09"

// ---- serialisable message ------------------------------------------------------------

type jName []vf.Hex
type jQ struct {
	Name  jName  `json:"name"`
	Type  uint16 `json:"type"`
	Class uint16 `json:"class"`
}
type jRR struct {
	Name  jName  `json:"name"`
	Type  uint16 `json:"type"`
	Class uint16 `json:"class"`
	TTL   uint32 `json:"ttl"`
	RData vf.Hex `json:"rdata"`
}
type msgCase struct {
	ID         uint16 `json:"id"`
	Flags      uint16 `json:"flags"`
	Questions  []jQ   `json:"questions"`
	Answers    []jRR  `json:"answers"`
	Authority  []jRR  `json:"authority"`
	Additional []jRR  `json:"additional"`
	Choices    []int  `json:"compression_choices,omitempty"` // consumed by the reference encoder
}

func (n jName) ref() dns.Name {
	out := dns.Name{}
	for _, l := range n {
		out = append(out, []byte(l))
	}
	return out
}
func (n jName) text() string {
	parts := make([]string, len(n))
	for i, l := range n {
		parts[i] = string(l)
	}
	return strings.Join(parts, ".")
}

func (c msgCase) ref() *dns.Message {
	m := &dns.Message{ID: c.ID, Flags: c.Flags}
	for _, q := range c.Questions {
		m.Questions = append(m.Questions, dns.Question{Name: q.Name.ref(), Type: q.Type, Class: q.Class})
	}
	conv := func(in []jRR) []dns.RR {
		var out []dns.RR
		for _, r := range in {
			out = append(out, dns.RR{Name: r.Name.ref(), Type: r.Type, Class: r.Class, TTL: r.TTL, RData: append([]byte{}, r.RData...)})
		}
		return out
	}
	m.Answers, m.Authority, m.Additional = conv(c.Answers), conv(c.Authority), conv(c.Additional)
	return m
}

func (c msgCase) lib() *llmnr.Message {
	m := &llmnr.Message{}
	m.ID, m.Flags = c.ID, c.Flags
	for _, q := range c.Questions {
		m.Questions = append(m.Questions, llmnr.Question{Name: q.Name.text(), Type: q.Type, Class: q.Class})
	}
	conv := func(in []jRR) []llmnr.ResourceRecord {
		var out []llmnr.ResourceRecord
		for _, r := range in {
			out = append(out, llmnr.ResourceRecord{Name: r.Name.text(), Type: r.Type, Class: r.Class, TTL: r.TTL, RDLength: uint16(len(r.RData)), RData: append([]byte{}, r.RData...)})
		}
		return out
	}
	m.Answers, m.Authority, m.Additional = conv(c.Answers), conv(c.Authority), conv(c.Additional)
	return m
}

// sameName: the root name may be written "" or "." (DESIGN C09).
func sameName(got string, want jName) bool {
	if len(want) == 0 {
		return got == "" || got == "."
	}
	return got == want.text()
}

// compareLib compares a decoded library message with the case, section by section.
func compareLib(who string, got *llmnr.Message, c msgCase) []vf.Finding {
	var fs []vf.Finding
	if got.ID != c.ID || got.Flags != c.Flags {
		fs = append(fs, vf.F(who, "header-id-or-flags-differ", "got id %#x flags %#x want %#x %#x", got.ID, got.Flags, c.ID, c.Flags))
	}
	if int(got.QDCount) != len(c.Questions) || int(got.ANCount) != len(c.Answers) || int(got.NSCount) != len(c.Authority) || int(got.ARCount) != len(c.Additional) {
		fs = append(fs, vf.F(who, "header-counts-differ", "got %d/%d/%d/%d want %d/%d/%d/%d", got.QDCount, got.ANCount, got.NSCount, got.ARCount, len(c.Questions), len(c.Answers), len(c.Authority), len(c.Additional)))
	}
	if len(got.Questions) != len(c.Questions) {
		fs = append(fs, vf.F(who, "question-section-lost", "got %d questions want %d", len(got.Questions), len(c.Questions)))
	} else {
		for i, q := range c.Questions {
			g := got.Questions[i]
			if !sameName(g.Name, q.Name) {
				kind := "question-name-differs"
				if len(q.Name) == 0 {
					kind = "root-name-not-self-inverse"
				}
				fs = append(fs, vf.F(who, kind, "question %d: got %q want %q", i, g.Name, q.Name.text()))
			}
			if g.Type != q.Type || g.Class != q.Class {
				fs = append(fs, vf.F(who, "question-type-class-differ", "question %d: got %d/%d want %d/%d", i, g.Type, g.Class, q.Type, q.Class))
			}
		}
	}
	for _, sec := range []struct {
		name string
		got  []llmnr.ResourceRecord
		want []jRR
	}{{"answer", got.Answers, c.Answers}, {"authority", got.Authority, c.Authority}, {"additional", got.Additional, c.Additional}} {
		if len(sec.got) != len(sec.want) {
			fs = append(fs, vf.F(who, sec.name+"-section-lost", "got %d records want %d", len(sec.got), len(sec.want)))
			continue
		}
		for i, r := range sec.want {
			g := sec.got[i]
			if !sameName(g.Name, r.Name) {
				kind := sec.name + "-name-differs"
				if len(r.Name) == 0 {
					kind = "root-name-not-self-inverse"
				}
				fs = append(fs, vf.F(who, kind, "%s %d: got %q want %q", sec.name, i, g.Name, r.Name.text()))
			}
			if g.Type != r.Type || g.Class != r.Class || g.TTL != r.TTL {
				fs = append(fs, vf.F(who, sec.name+"-fixed-fields-differ", "%s %d: got %d/%d/%d want %d/%d/%d", sec.name, i, g.Type, g.Class, g.TTL, r.Type, r.Class, r.TTL))
			}
			if !bytes.Equal(g.RData, r.RData) || int(g.RDLength) != len(r.RData) {
				fs = append(fs, vf.F(who, sec.name+"-rdata-differs", "%s %d: got %d bytes (rdlength %d) want %d", sec.name, i, len(g.RData), g.RDLength, len(r.RData)))
			}
		}
	}
	return fs
}

func compareRef(who string, got *dns.Message, c msgCase) []vf.Finding {
	want := c.ref()
	var fs []vf.Finding
	if got.ID != want.ID || got.Flags != want.Flags {
		fs = append(fs, vf.F(who, "header-id-or-flags-differ", "got %#x/%#x", got.ID, got.Flags))
	}
	eqName := func(a, b dns.Name) bool {
		if len(a) != len(b) {
			return false
		}
		for i := range a {
			if !bytes.Equal(a[i], b[i]) {
				return false
			}
		}
		return true
	}
	if len(got.Questions) != len(want.Questions) {
		fs = append(fs, vf.F(who, "question-section-lost", "got %d want %d", len(got.Questions), len(want.Questions)))
	} else {
		for i := range want.Questions {
			if !eqName(got.Questions[i].Name, want.Questions[i].Name) || got.Questions[i].Type != want.Questions[i].Type || got.Questions[i].Class != want.Questions[i].Class {
				fs = append(fs, vf.F(who, "question-differs", "question %d: got %q want %q", i, got.Questions[i].Name, want.Questions[i].Name))
			}
		}
	}
	for _, sec := range []struct {
		name      string
		got, want []dns.RR
	}{{"answer", got.Answers, want.Answers}, {"authority", got.Authority, want.Authority}, {"additional", got.Additional, want.Additional}} {
		if len(sec.got) != len(sec.want) {
			fs = append(fs, vf.F(who, sec.name+"-section-lost", "got %d records want %d", len(sec.got), len(sec.want)))
			continue
		}
		for i := range sec.want {
			g, w := sec.got[i], sec.want[i]
			if !eqName(g.Name, w.Name) || g.Type != w.Type || g.Class != w.Class || g.TTL != w.TTL || !bytes.Equal(g.RData, w.RData) {
				fs = append(fs, vf.F(who, sec.name+"-record-differs", "%s %d: got %+v want %+v", sec.name, i, g, w))
			}
		}
	}
	return fs
}

// ---- generators ------------------------------------------------------------------------

func genLabel(t *rapid.T) vf.Hex {
	var n int
	switch rapid.IntRange(0, 4).Draw(t, "labLenClass") {
	case 0:
		n = rapid.SampledFrom([]int{1, 62, 63}).Draw(t, "labEdge")
	default:
		n = rapid.IntRange(1, 12).Draw(t, "labLen")
	}
	b := make([]byte, n)
	for i := range b {
		switch rapid.IntRange(0, 3).Draw(t, "byteClass") {
		case 0:
			b[i] = rapid.Byte().Draw(t, "any")
		default:
			b[i] = byte(rapid.IntRange('a', 'z').Draw(t, "alpha"))
		}
		if b[i] == '.' {
			b[i] = '-'
		}
	}
	return b
}

// genName draws 0..6 labels with total wire length <= 255; names from pool are
// reused so that compression has something to point at.
func genName(t *rapid.T, pool *[]jName) jName {
	if len(*pool) > 0 && rapid.IntRange(0, 2).Draw(t, "reuse") == 0 {
		base := (*pool)[rapid.IntRange(0, len(*pool)-1).Draw(t, "poolIdx")]
		// same name, a suffix of it, or a new label in front of it
		switch rapid.IntRange(0, 2).Draw(t, "reuseKind") {
		case 0:
			return base
		case 1:
			if len(base) > 0 {
				return base[rapid.IntRange(0, len(base)-1).Draw(t, "suffixFrom"):]
			}
			return base
		default:
			n := append(jName{genLabel(t)}, base...)
			if n.ref().WireLen() <= 255 {
				*pool = append(*pool, n)
				return n
			}
			return base
		}
	}
	k := rapid.IntRange(0, 6).Draw(t, "labels")
	if rapid.IntRange(0, 19).Draw(t, "max") == 0 {
		k = 4 // push towards the 255 limit with long labels
	}
	var n jName
	for i := 0; i < k; i++ {
		l := genLabel(t)
		if (append(n, l)).ref().WireLen() > 255 {
			break
		}
		n = append(n, l)
	}
	*pool = append(*pool, n)
	return n
}

func genRData(t *rapid.T, max int) vf.Hex {
	var n int
	switch rapid.IntRange(0, 5).Draw(t, "rdClass") {
	case 0:
		n = 0
	case 1:
		n = rapid.SampledFrom([]int{4, 16}).Draw(t, "rdAddr")
	case 2:
		n = rapid.IntRange(0, max).Draw(t, "rdLen")
	default:
		n = rapid.IntRange(0, 40).Draw(t, "rdSmall")
	}
	return rapid.SliceOfN(rapid.Byte(), n, n).Draw(t, "rdata")
}

func genMsg(t *rapid.T, maxRData int) msgCase {
	var pool []jName
	c := msgCase{ID: rapid.Uint16().Draw(t, "id"), Flags: rapid.Uint16().Draw(t, "flags")}
	for i, n := 0, rapid.IntRange(0, 4).Draw(t, "nq"); i < n; i++ {
		c.Questions = append(c.Questions, jQ{genName(t, &pool), rapid.Uint16().Draw(t, "qtype"), rapid.Uint16().Draw(t, "qclass")})
	}
	sec := func(label string) []jRR {
		var out []jRR
		for i, n := 0, rapid.IntRange(0, 4).Draw(t, label); i < n; i++ {
			out = append(out, jRR{genName(t, &pool), rapid.Uint16().Draw(t, "type"), rapid.Uint16().Draw(t, "class"), rapid.Uint32().Draw(t, "ttl"), genRData(t, maxRData)})
		}
		return out
	}
	c.Answers, c.Authority, c.Additional = sec("nan"), sec("nns"), sec("nar")
	return c
}

func nontrivial(c msgCase) bool {
	if len(c.Authority)+len(c.Additional) > 0 {
		return true
	}
	for _, q := range c.Questions {
		if len(q.Name) >= 2 {
			return true
		}
	}
	for _, r := range c.Answers {
		if len(r.Name) >= 2 {
			return true
		}
	}
	return false
}

// ---- sub-checks --------------------------------------------------------------------------

func checkRoundtrip(c msgCase) []vf.Finding {
	wire, err := c.lib().Encode()
	if err != nil {
		return []vf.Finding{vf.F("Message.Encode", "valid-message-rejected", "%v", err)}
	}
	got, err := llmnr.DecodeMessage(wire)
	if err != nil {
		return []vf.Finding{vf.F("llmnr.DecodeMessage", "own-encoding-rejected", "%v (wire %d bytes)", err, len(wire))}
	}
	fs := compareLib("DecodeMessage(Encode(m))", got, c)
	// encode∘decode is the identity on the library's own output (root name included)
	if again, err := got.Encode(); err != nil || !bytes.Equal(again, wire) {
		fs = append(fs, vf.F("Message.Encode", "reencoding-decoded-message-differs", "err %v; %d vs %d bytes", err, len(again), len(wire)))
	}
	return fs
}

func TestRoundtrip(t *testing.T) {
	s := vf.Begin(t, P, "roundtrip")
	vf.Rapid(s, vf.N(15000, 200000), func(t *rapid.T) msgCase { return genMsg(t, vf.N(512, 4000)) }, checkRoundtrip, nontrivial)
}

func checkRefParsesLib(c msgCase) []vf.Finding {
	wire, err := c.lib().Encode()
	if err != nil {
		return []vf.Finding{vf.F("Message.Encode", "valid-message-rejected", "%v", err)}
	}
	got, err := dns.Parse(wire)
	if err != nil && got == nil {
		return []vf.Finding{vf.F("Message.Encode", "rfc1035-parser-rejects-output", "%v", err)}
	}
	fs := compareRef("rfc1035.Parse(Encode(m))", got, c)
	if err != nil && len(fs) == 0 {
		fs = append(fs, vf.F("Message.Encode", "rfc1035-parser-rejects-output", "%v", err))
	}
	return fs
}

func TestRefParsesLib(t *testing.T) {
	s := vf.Begin(t, P, "ref-parses-lib")
	vf.Rapid(s, vf.N(15000, 200000), func(t *rapid.T) msgCase { return genMsg(t, vf.N(512, 4000)) }, checkRefParsesLib, nontrivial)
}

func checkLibParsesRef(c msgCase) []vf.Finding {
	i := 0
	var choice func(int) int
	if len(c.Choices) > 0 {
		choice = func(n int) int {
			v := c.Choices[i%len(c.Choices)]
			i++
			if v < 0 {
				return -1
			}
			return v % n
		}
	}
	wire, _ := dns.Encode(c.ref(), choice)
	// the reference must accept its own output (harness sanity)
	if back, err := dns.Parse(wire); err != nil || len(compareRef("ref", back, c)) != 0 {
		return []vf.Finding{vf.F("harness", "reference-codec-not-self-consistent", "%v", err)}
	}
	var got *llmnr.Message
	var err error
	if !vf.WithTimeout(10*time.Second, func() { got, err = llmnr.DecodeMessage(wire) }) {
		return []vf.Finding{vf.F("llmnr.DecodeMessage", "does-not-terminate", "wire %x", wire)}
	}
	if err != nil {
		return []vf.Finding{vf.F("llmnr.DecodeMessage", "rfc1035-encoding-rejected", "%v", err)}
	}
	return compareLib("DecodeMessage(rfc1035.Encode(m))", got, c)
}

func TestLibParsesRef(t *testing.T) {
	s := vf.Begin(t, P, "lib-parses-ref")
	vf.Rapid(s, vf.N(10000, 150000), func(t *rapid.T) msgCase { return genMsg(t, vf.N(512, 4000)) }, checkLibParsesRef, nontrivial)
}

func countPointers(c msgCase) int {
	i := 0
	_, p := dns.Encode(c.ref(), func(n int) int {
		v := c.Choices[i%len(c.Choices)]
		i++
		if v < 0 {
			return -1
		}
		return v % n
	})
	return p
}

func TestCompression(t *testing.T) {
	s := vf.Begin(t, P, "compression")
	vf.Rapid(s, vf.N(10000, 150000), func(t *rapid.T) msgCase {
		c := genMsg(t, 64)
		k := rapid.IntRange(1, 12).Draw(t, "nchoices")
		for i := 0; i < k; i++ {
			// mostly compress; -1 = write the name out
			if rapid.IntRange(0, 4).Draw(t, "plain") == 0 {
				c.Choices = append(c.Choices, -1)
			} else {
				c.Choices = append(c.Choices, rapid.IntRange(0, 50).Draw(t, "choice"))
			}
		}
		return c
	}, checkLibParsesRef, func(c msgCase) bool { return countPointers(c) > 0 })
}

// ---- illegal pointers -----------------------------------------------------------------------

type ptrCase struct {
	Prefix  jName  `json:"labels_before_pointer"`
	Kind    string `json:"kind"` // self, forward, into-current, at-pointer, beyond-end
	Delta   int    `json:"delta"`
	Section string `json:"section"` // question or answer
	Lead    jName  `json:"earlier_name"`
}

// build: header, (optional earlier question with name Lead), then the entry
// whose name is Prefix labels followed by a pointer of the given kind.
func (c ptrCase) wire() (b []byte, target, nameStart int) {
	qd, an := 1, 0
	if c.Section == "answer" {
		qd, an = 0, 1
	}
	if len(c.Lead) > 0 {
		qd++
	}
	b = []byte{0x12, 0x34, 0, 0, 0, byte(qd), 0, byte(an), 0, 0, 0, 0}
	if len(c.Lead) > 0 {
		for _, l := range c.Lead {
			b = append(b, byte(len(l)))
			b = append(b, l...)
		}
		b = append(b, 0, 0, 1, 0, 1)
	}
	nameStart = len(b)
	for _, l := range c.Prefix {
		b = append(b, byte(len(l)))
		b = append(b, l...)
	}
	ptrAt := len(b)
	switch c.Kind {
	case "self":
		target = nameStart
	case "at-pointer":
		target = ptrAt
	case "into-current":
		target = nameStart + c.Delta%(ptrAt-nameStart+1)
	case "forward":
		target = ptrAt + 2 + c.Delta%20
	default: // beyond-end
		target = 0x3FFF - c.Delta%8
	}
	b = append(b, 0xC0|byte(target>>8), byte(target))
	if c.Section == "answer" {
		b = append(b, 0, 1, 0, 1, 0, 0, 0, 30, 0, 4, 1, 2, 3, 4)
	} else {
		b = append(b, 0, 1, 0, 1)
	}
	// a plausible name after the entry so that a forward pointer finds labels
	b = append(b, 3, 'w', 'w', 'w', 0, 0, 0, 0, 0, 0, 0, 0, 0, 0, 0, 0, 0, 0, 0, 0, 0, 0, 0, 0)
	return
}

func checkBadPointer(c ptrCase) []vf.Finding {
	wire, target, start := c.wire()
	if target < start {
		return nil // "into-current" with delta 0 on an empty prefix is "self": still >= start; never < start
	}
	var msg *llmnr.Message
	var err error
	if !vf.WithTimeout(10*time.Second, func() { msg, err = llmnr.DecodeMessage(wire) }) {
		return []vf.Finding{vf.F("llmnr.DecodeMessage", "does-not-terminate", "pointer %s -> %d (name at %d): %x", c.Kind, target, start, wire)}
	}
	if err == nil {
		return []vf.Finding{vf.F("llmnr.DecodeMessage", "non-backward-pointer-accepted", "pointer %s -> %d (name starts at %d) decoded as %+v", c.Kind, target, start, msg)}
	}
	// the standalone name decoder has to agree
	if _, _, err2 := llmnr.DecodeDomainName(wire, start); err2 == nil {
		return []vf.Finding{vf.F("llmnr.DecodeDomainName", "non-backward-pointer-accepted", "pointer %s -> %d (name starts at %d)", c.Kind, target, start)}
	}
	return nil
}

func TestBadPointerRejected(t *testing.T) {
	s := vf.Begin(t, P, "bad-pointer-rejected")
	vf.Rapid(s, vf.N(10000, 150000), func(t *rapid.T) ptrCase {
		var pool []jName
		c := ptrCase{Kind: rapid.SampledFrom([]string{"self", "forward", "into-current", "at-pointer", "beyond-end"}).Draw(t, "kind"),
			Delta: rapid.IntRange(0, 300).Draw(t, "delta"), Section: rapid.SampledFrom([]string{"question", "answer"}).Draw(t, "section")}
		n := genName(t, &pool)
		if len(n) > 3 {
			n = n[:3]
		}
		c.Prefix = n
		if rapid.Bool().Draw(t, "lead") {
			l := genName(t, &pool)
			if len(l) > 2 {
				l = l[:2]
			}
			c.Lead = l
		}
		return c
	}, checkBadPointer, func(c ptrCase) bool { return len(c.Prefix) > 0 })
}

// chains of backward pointers of every length 1..40: must decode and terminate
type chainCase struct {
	Hops int `json:"hops"`
}

func TestPointerChains(t *testing.T) {
	s := vf.Begin(t, P, "pointer-chains-exhaustive")
	s.SetExhaustive()
	vf.Enum(s, func(yield func(chainCase)) {
		for h := 1; h <= vf.Size(40, 400); h++ {
			yield(chainCase{h})
		}
	}, func(c chainCase) []vf.Finding {
		// header with QDCOUNT=1 at the end; names: offset 12: "a" root; then each hop: label "b" + pointer to previous
		b := []byte{0, 1, 0, 0, 0, 1, 0, 0, 0, 0, 0, 0}
		prev := len(b)
		body := []byte{1, 'a', 0}
		want := "a"
		offs := []int{}
		for i := 0; i < c.Hops; i++ {
			offs = append(offs, len(b)+len(body))
			body = append(body, 1, 'b', 0xC0|byte(prev>>8), byte(prev))
			prev = offs[i]
			want = "b." + want
		}
		// the question is the last name; everything before it is "junk" reached only through pointers,
		// so QDCOUNT=1 and the question must start at the last hop: build the packet so that the
		// question comes last by pointing from the question to the chain
		pkt := append(append([]byte{}, b...), body...)
		// declare the chain area as an unknown-type question list is not possible; instead use DecodeDomainName directly
		name, next, err := llmnr.DecodeDomainName(pkt, prev)
		if err != nil {
			return []vf.Finding{vf.F("llmnr.DecodeDomainName", "backward-pointer-chain-rejected", "%d hops: %v", c.Hops, err)}
		}
		if name != want || next != prev+4 {
			return []vf.Finding{vf.F("llmnr.DecodeDomainName", "backward-pointer-chain-misread", "%d hops: got %q next %d want %q next %d", c.Hops, name, next, want, prev+4)}
		}
		return nil
	}, func(c chainCase) bool { return c.Hops >= 2 })
}

var _ = fmt.Sprintf
