// Package smbgen enumerates the SMB1 command structures reachable from the
// library's factories and fills / snapshots / restores them by reflection.
package smbgen

import (
	"encoding/json"
	"fmt"
	"reflect"
	"sort"

	"pgregory.net/rapid"

	"github.com/TheManticoreProject/Manticore/network/smb/smb_v10/message/commands"
	"github.com/TheManticoreProject/Manticore/network/smb/smb_v10/message/commands/codes"
	"github.com/TheManticoreProject/Manticore/network/smb/smb_v10/message/commands/command_interface"
	"github.com/TheManticoreProject/Manticore/network/smb/smb_v10/message/data"
	"github.com/TheManticoreProject/Manticore/network/smb/smb_v10/message/parameters"
)

type Cmd = command_interface.CommandInterface

type Entry struct {
	Code     byte   `json:"code"`
	Response bool   `json:"response"`
	Name     string `json:"struct"`
	AndX     bool   `json:"andx"`
}

var inventory []Entry

// Inventory probes all 256 command codes in both directions.
func Inventory() []Entry {
	if inventory != nil {
		return inventory
	}
	for code := 0; code < 256; code++ {
		for _, resp := range []bool{false, true} {
			c := create(byte(code), resp)
			if c == nil {
				continue
			}
			inventory = append(inventory, Entry{byte(code), resp, reflect.TypeOf(c).Elem().Name(), c.IsAndX()})
		}
	}
	return inventory
}

func create(code byte, resp bool) (c Cmd) {
	defer func() {
		if recover() != nil {
			c = nil
		}
	}()
	var err error
	if resp {
		c, err = commands.CreateResponseCommand(codes.CommandCode(code))
	} else {
		c, err = commands.CreateRequestCommand(codes.CommandCode(code))
	}
	if err != nil || c == nil || reflect.ValueOf(c).IsNil() {
		return nil
	}
	return c
}

func ByName(name string) (Entry, bool) {
	for _, e := range Inventory() {
		if e.Name == name {
			return e, true
		}
	}
	return Entry{}, false
}

// New returns a factory-fresh, initialised command.
func New(e Entry) Cmd {
	c := create(e.Code, e.Response)
	c.Init()
	return c
}

// ResetAccumulators gives the command empty parameter and data blocks (every
// Marshal appends to them: the recorded C03 finding is stepped around this way).
func ResetAccumulators(c Cmd) {
	c.SetParameters(parameters.NewParameters())
	c.SetData(data.NewData())
}

// OwnFields lists the command's own exported fields (not the embedded Command).
func OwnFields(c Cmd) []reflect.StructField {
	rt := reflect.TypeOf(c).Elem()
	var out []reflect.StructField
	for i := 0; i < rt.NumField(); i++ {
		f := rt.Field(i)
		if f.Name == "Command" || !f.IsExported() {
			continue
		}
		out = append(out, f)
	}
	return out
}

// Snapshot renders the own fields as JSON (for replay files and samples).
func Snapshot(c Cmd) map[string]json.RawMessage {
	rv := reflect.ValueOf(c).Elem()
	m := map[string]json.RawMessage{}
	for _, f := range OwnFields(c) {
		b, err := json.Marshal(rv.FieldByName(f.Name).Interface())
		if err != nil {
			b, _ = json.Marshal(fmt.Sprintf("%#v", rv.FieldByName(f.Name).Interface()))
		}
		m[f.Name] = b
	}
	return m
}

// Restore sets the own fields from a snapshot.
func Restore(c Cmd, m map[string]json.RawMessage) error {
	rv := reflect.ValueOf(c).Elem()
	for _, f := range OwnFields(c) {
		raw, ok := m[f.Name]
		if !ok {
			continue
		}
		if err := json.Unmarshal(raw, rv.FieldByName(f.Name).Addr().Interface()); err != nil {
			return fmt.Errorf("%s: %v", f.Name, err)
		}
	}
	return nil
}

// ---- relations: count/length fields and the buffers they describe -----------------------------------
//
// Taken from the decoders' own slicing rules (c.X = raw[offset : offset+int(c.Y)]) and from the
// MS-CIFS field descriptions; "pad" marks the ten transaction-style decoders that use an *offset*
// field as the length of the preceding pad.

type Relation struct {
	Buffer string // slice-valued field
	Count  string // integer field that must equal len(Buffer)
	Pad    bool   // Count is an offset field used as pad length by the decoder
}

var Relations = map[string][]Relation{
	"IoctlRequest":                 {{"Pad1", "ParameterOffset", true}, {"Parameters", "ParameterCount", false}, {"Pad2", "DataOffset", true}, {"Data", "DataCount", false}},
	"IoctlResponse":                {{"Pad1", "ParameterOffset", true}, {"Parameters", "ParameterCount", false}, {"Pad2", "DataOffset", true}, {"Data", "DataCount", false}},
	"LockingAndxRequest":           {{"Unlocks", "NumberOfRequestedUnlocks", false}, {"Locks", "NumberOfRequestedLocks", false}},
	"NtTransactRequest":            {{"Pad1", "ParameterOffset", true}, {"NT_Trans_Parameters", "ParameterCount", false}, {"Pad2", "DataOffset", true}, {"NT_Trans_Data", "DataCount", false}},
	"NtTransactSecondaryRequest":   {{"Pad1", "ParameterOffset", true}, {"NT_Trans_Parameters", "ParameterCount", false}, {"Pad2", "DataOffset", true}, {"NT_Trans_Data", "DataCount", false}},
	"ReadMpxResponse":              {{"Data", "DataLength", false}},
	"SessionSetupAndxRequest":      {{"OEMPassword", "OEMPasswordLen", false}, {"UnicodePassword", "UnicodePasswordLen", false}},
	"Transaction2Request":          {{"Pad1", "ParameterOffset", true}, {"Trans2_Parameters", "ParameterCount", false}, {"Pad2", "DataOffset", true}, {"Trans2_Data", "DataCount", false}},
	"Transaction2SecondaryRequest": {{"Pad1", "ParameterOffset", true}, {"Trans2_Parameters", "ParameterCount", false}, {"Pad2", "DataOffset", true}, {"Trans2_Data", "DataCount", false}},
	"TransactionRequest":           {{"Pad1", "ParameterOffset", true}, {"Trans_Parameters", "ParameterCount", false}, {"Pad2", "DataOffset", true}, {"Trans_Data", "DataCount", false}, {"Setup", "SetupCount", false}},
	"TransactionSecondaryRequest":  {{"Pad1", "ParameterOffset", true}, {"Trans2_Parameters", "ParameterCount", false}, {"Pad2", "DataOffset", true}, {"Trans2_Data", "DataCount", false}},
	"TreeConnectAndxRequest":       {{"Password", "PasswordLength", false}},
	"WriteAndCloseRequest":         {{"Data", "CountOfBytesToWrite", false}},
	"WriteAndxRequest":             {{"Data", "DataLength", false}},
	"WriteMpxRequest":              {{"Pad", "DataOffset", true}, {"Buffer", "DataLength", false}},
	"WriteRawRequest":              {{"Data", "DataLength", false}},
	"NegotiateResponse":            {{"Challenge", "ChallengeLength", false}},
	"NtCreateAndxRequest":          {{"FileName.Buffer", "NameLength", false}},
	"FindResponse":                 {{"DirectoryInformationData", "Count", false}},
	"FindUniqueResponse":           {{"DirectoryInformationData", "Count", false}},
	"ReadResponse":                 {{"Bytes.Buffer", "CountOfBytesReturned", false}},
	"LockAndReadResponse":          {{"BytesRead.Buffer", "CountOfBytesReturned", false}},
	"WriteRequest":                 {{"Data.Buffer", "CountOfBytesToWrite", false}},
	"WriteAndUnlockRequest":        {{"Data.Buffer", "CountOfBytesToWrite", false}},
}

func fieldByPath(rv reflect.Value, path string) reflect.Value {
	cur := rv
	start := 0
	for i := 0; i <= len(path); i++ {
		if i == len(path) || path[i] == '.' {
			cur = cur.FieldByName(path[start:i])
			if !cur.IsValid() {
				return cur
			}
			start = i + 1
		}
	}
	return cur
}

// PadRules: pad fields whose length the decoder derives by rule rather than from a count field.
// fixed > 0: the decoder always reads exactly that many pad bytes (MS-CIFS alignment for the fixed
// layout of that message). sameAs: the decoder slices the pad with the length of another buffer
// (recorded finding; the generator steps around it so that the rest of the decoder is exercised).
type PadRule struct {
	Field  string
	Fixed  int
	SameAs string // pad length := len(SameAs)
	EvenOf string // pad length := len(EvenOf) rounded up to even (SessionSetupAndxRequest, recorded finding)
}

var PadRules = map[string][]PadRule{
	"SessionSetupAndxResponse": {{Field: "Pad", Fixed: 1}},
	"TreeConnectAndxRequest":   {{Field: "Pad", Fixed: 1}},
	"ReadMpxResponse":          {{Field: "Pad", Fixed: 1}},
	"WriteRawRequest":          {{Field: "Pad", SameAs: "Data"}},
	"SessionSetupAndxRequest":  {{Field: "Pad", EvenOf: "UnicodePassword"}},
}

// SpecPads, when true, leaves SameAs/EvenOf pads as generated (0..1 bytes as MS-CIFS aligns them)
// instead of stepping around the decoders' rules.
var SpecPads = false

func applyPadRules(rv reflect.Value, name string) {
	for _, r := range PadRules[name] {
		f := rv.FieldByName(r.Field)
		if !f.IsValid() {
			continue
		}
		n := -1
		switch {
		case r.Fixed > 0:
			n = r.Fixed
		case SpecPads:
			if f.Len() > 1 {
				n = f.Len() % 2
			}
		case r.SameAs != "":
			n = rv.FieldByName(r.SameAs).Len()
		case r.EvenOf != "":
			n = (rv.FieldByName(r.EvenOf).Len() + 1) / 2 * 2
		}
		if n < 0 {
			continue
		}
		b := make([]byte, n)
		copy(b, f.Bytes())
		f.SetBytes(b)
	}
}

// ApplyRelations makes count/length fields agree with their buffers.
// Derived holds fields whose value is fixed by the wire form itself rather than by a buffer:
// NegotiateRequest.WordCount mirrors the count byte of the parameter block, and that request has
// no parameter words (MS-CIFS 2.2.4.52.1: WordCount 0x00).
var Derived = map[string]map[string]uint64{
	"NegotiateRequest": {"WordCount": 0},
}

func ApplyRelations(c Cmd) {
	rv := reflect.ValueOf(c).Elem()
	name := rv.Type().Name()
	applyPadRules(rv, name)
	for f, v := range Derived[name] {
		if fv := rv.FieldByName(f); fv.IsValid() && fv.CanUint() {
			fv.SetUint(v)
		}
	}
	for _, r := range Relations[name] {
		buf := fieldByPath(rv, r.Buffer)
		cnt := fieldByPath(rv, r.Count)
		if !buf.IsValid() || !cnt.IsValid() {
			continue
		}
		n := uint64(buf.Len())
		if cnt.Kind() == reflect.Uint8 && n > 255 {
			buf.Set(buf.Slice(0, 255))
			n = 255
		}
		cnt.SetUint(n)
	}
}

// ---- filling -------------------------------------------------------------------------------------------

type Options struct {
	MaxBytes      int  // upper bound for byte-slice lengths
	DistinctBytes bool // integers whose bytes are pairwise distinct and non-palindromic
	MaxElems      int  // upper bound for slices of structures
}

func distinct(t *rapid.T, n int, label string) uint64 {
	// n distinct byte values in random order, first != last reversed order guaranteed by distinctness
	perm := rapid.SliceOfNDistinct(rapid.IntRange(1, 254), n, n, rapid.ID[int]).Draw(t, label)
	var v uint64
	for _, b := range perm {
		v = v<<8 | uint64(b)
	}
	return v
}

func drawUint(t *rapid.T, bits int, o Options, label string) uint64 {
	if o.DistinctBytes || rapid.IntRange(0, 2).Draw(t, label+"D") == 0 {
		return distinct(t, bits/8, label)
	}
	switch rapid.IntRange(0, 3).Draw(t, label+"C") {
	case 0:
		return rapid.SampledFrom([]uint64{0, 1, 0x7F, 0x80, 0xFF, 0x7FFF, 0x8000, 0xFFFF, 0x7FFFFFFF, 0x80000000, 0xFFFFFFFF, 0x7FFFFFFFFFFFFFFF, 0xFFFFFFFFFFFFFFFF}).Draw(t, label+"E") & (1<<uint(bits) - 1 | uint64(bits/64)*0xFFFFFFFFFFFFFFFF)
	default:
		if bits == 64 {
			return rapid.Uint64().Draw(t, label)
		}
		return rapid.Uint64Range(0, 1<<uint(bits)-1).Draw(t, label)
	}
}

func drawBytes(t *rapid.T, max int, nulFree bool, label string) []byte {
	var n int
	switch rapid.IntRange(0, 4).Draw(t, label+"LC") {
	case 0:
		n = 0
	case 1:
		n = rapid.IntRange(1, 8).Draw(t, label+"LS")
	case 2:
		n = max
	default:
		n = rapid.IntRange(0, max).Draw(t, label+"L")
	}
	b := rapid.SliceOfN(rapid.Byte(), n, n).Draw(t, label)
	if nulFree {
		for i := range b {
			if b[i] == 0 {
				b[i] = 0x41
			}
		}
	}
	return b
}

// fillValue assigns a generated value to v (recursively).
func fillValue(t *rapid.T, v reflect.Value, o Options, label string) {
	switch v.Type().String() {
	case "types.SMB_STRING", "types.OEM_STRING":
		s := v
		if v.Type().String() == "types.OEM_STRING" {
			s = v.FieldByName("SMB_STRING")
		}
		f := uint8(s.FieldByName("BufferFormat").Uint())
		if f < 1 || f > 5 {
			f = 4
			s.FieldByName("BufferFormat").SetUint(4)
		}
		b := drawBytes(t, o.MaxBytes, f == 2 || f == 4, label)
		s.FieldByName("Buffer").SetBytes(b)
		s.FieldByName("Length").SetUint(uint64(len(b)))
		return
	case "types.SMB_RESUME_KEY":
		v.FieldByName("Reserved").SetUint(drawUint(t, 8, o, label+"R"))
		reflect.Copy(v.FieldByName("ServerState"), reflect.ValueOf(rapid.SliceOfN(rapid.Byte(), 16, 16).Draw(t, label+"SS")))
		reflect.Copy(v.FieldByName("ClientState"), reflect.ValueOf(rapid.SliceOfN(rapid.Byte(), 4, 4).Draw(t, label+"CS")))
		s := v.FieldByName("SMB_STRING")
		s.FieldByName("BufferFormat").SetUint(5)
		return
	case "types.SMB_DATE":
		v.FieldByName("Year").SetUint(uint64(rapid.IntRange(1980, 2107).Draw(t, label+"Y")))
		v.FieldByName("Month").SetUint(uint64(rapid.IntRange(0, 15).Draw(t, label+"M")))
		v.FieldByName("Day").SetUint(uint64(rapid.IntRange(0, 31).Draw(t, label+"D")))
		return
	case "types.SMB_DIRECTORY_INFORMATION":
		fillValue(t, v.FieldByName("ResumeKey"), o, label+"RK")
		v.FieldByName("FileAttributes").SetUint(drawUint(t, 8, o, label+"A"))
		fillValue(t, v.FieldByName("LastWriteTime"), o, label+"T")
		fillValue(t, v.FieldByName("LastWriteDate"), o, label+"D")
		v.FieldByName("FileSize").SetUint(drawUint(t, 32, o, label+"S"))
		n := rapid.IntRange(1, 12).Draw(t, label+"NL")
		name := make([]byte, n)
		for i := range name {
			name[i] = byte(rapid.IntRange(0x21, 0x7e).Draw(t, label+"NC"))
		}
		fn := v.FieldByName("FileName").FieldByName("SMB_STRING")
		fn.FieldByName("BufferFormat").SetUint(4)
		fn.FieldByName("Buffer").SetBytes(name)
		fn.FieldByName("Length").SetUint(uint64(n))
		return
	case "dialects.Dialects":
		all := []string{"PC NETWORK PROGRAM 1.0", "PCLAN1.0", "MICROSOFT NETWORKS 1.03", "MICROSOFT NETWORKS 3.0", "LANMAN1.0", "LANMAN1.2", "LANMAN2.0", "LANMAN2.1", "LM1.2X002", "DOS LM1.2X002", "DOS LANMAN2.1", "Windows for Workgroups 3.1a", "NT LM 0.12"}
		n := rapid.IntRange(0, 8).Draw(t, label+"N")
		ds := make([]string, n)
		for i := range ds {
			ds[i] = all[rapid.IntRange(0, len(all)-1).Draw(t, label+"I")]
		}
		v.FieldByName("Dialects").Set(reflect.ValueOf(ds))
		return
	}
	switch v.Kind() {
	case reflect.Uint8, reflect.Uint16, reflect.Uint32, reflect.Uint64:
		v.SetUint(drawUint(t, v.Type().Bits(), o, label))
	case reflect.Int8, reflect.Int16, reflect.Int32, reflect.Int64:
		u := drawUint(t, v.Type().Bits(), o, label)
		switch v.Type().Bits() {
		case 8:
			v.SetInt(int64(int8(u)))
		case 16:
			v.SetInt(int64(int16(u)))
		case 32:
			v.SetInt(int64(int32(u)))
		default:
			v.SetInt(int64(u))
		}
	case reflect.Array:
		for i := 0; i < v.Len(); i++ {
			fillValue(t, v.Index(i), o, fmt.Sprintf("%s%d", label, i))
		}
	case reflect.Slice:
		if v.Type().Elem().Kind() == reflect.Uint8 {
			v.SetBytes(drawBytes(t, o.MaxBytes, false, label))
			return
		}
		max := o.MaxElems
		if max == 0 {
			max = 3
		}
		n := rapid.IntRange(0, max).Draw(t, label+"N")
		s := reflect.MakeSlice(v.Type(), n, n)
		for i := 0; i < n; i++ {
			fillValue(t, s.Index(i), o, fmt.Sprintf("%s%d", label, i))
		}
		v.Set(s)
	case reflect.Struct:
		for i := 0; i < v.NumField(); i++ {
			if v.Type().Field(i).IsExported() {
				fillValue(t, v.Field(i), o, label+v.Type().Field(i).Name)
			}
		}
	}
}

// Fill assigns generated values to every own field and then makes counts agree with buffers.
func Fill(t *rapid.T, c Cmd, o Options) {
	rv := reflect.ValueOf(c).Elem()
	for _, f := range OwnFields(c) {
		fillValue(t, rv.FieldByName(f.Name), o, f.Name)
	}
	ApplyRelations(c)
}

// Names returns the sorted struct names of the inventory.
func Names() []string {
	var out []string
	for _, e := range Inventory() {
		out = append(out, e.Name)
	}
	sort.Strings(out)
	return out
}

// ---- marking: which bytes of the encoding does one fixed-width field occupy? ---------------------------

// FixedWidth returns the wire width in bytes of a fixed-width field type as
// declared in the library (0 = not a fixed-width field).
func FixedWidth(t reflect.Type) int {
	switch t.String() {
	case "data_structures.FILETIME", "data_structures.LARGE_INTEGER":
		return 8
	case "types.SMB_DATE", "types.SMB_FILE_ATTRIBUTES", "types.SMB_NMPIPE_STATUS":
		return 2
	}
	switch t.Kind() {
	case reflect.Uint8, reflect.Int8:
		return 1
	case reflect.Uint16, reflect.Int16:
		return 2
	case reflect.Uint32, reflect.Int32:
		return 4
	case reflect.Uint64, reflect.Int64:
		return 8
	case reflect.Array:
		if w := FixedWidth(t.Elem()); w > 0 {
			return w * t.Len()
		}
	}
	return 0
}

// SetPattern writes the byte pattern p (little-endian field order: p[0] is the
// least significant byte of the first element) into a fixed-width field and
// returns the bytes an MS-CIFS little-endian encoder would emit for it.
func SetPattern(v reflect.Value, p []byte) (le []byte) {
	switch v.Type().String() {
	case "data_structures.FILETIME":
		v.FieldByName("DwLowDateTime").SetUint(uint64(p[0]) | uint64(p[1])<<8 | uint64(p[2])<<16 | uint64(p[3])<<24)
		v.FieldByName("DwHighDateTime").SetUint(uint64(p[4]) | uint64(p[5])<<8 | uint64(p[6])<<16 | uint64(p[7])<<24)
		return append([]byte{}, p[:8]...)
	case "data_structures.LARGE_INTEGER":
		var u uint64
		for i := 7; i >= 0; i-- {
			u = u<<8 | uint64(p[i])
		}
		v.FieldByName("QuadPart").SetUint(u)
		return append([]byte{}, p[:8]...)
	case "types.SMB_DATE":
		w := uint16(p[0]) | uint16(p[1])<<8
		v.FieldByName("Year").SetUint(uint64(1980 + w>>9))
		v.FieldByName("Month").SetUint(uint64(w >> 5 & 0xF))
		v.FieldByName("Day").SetUint(uint64(w & 0x1F))
		return append([]byte{}, p[:2]...)
	case "types.SMB_FILE_ATTRIBUTES":
		v.FieldByName("Attributes").SetUint(uint64(p[0]) | uint64(p[1])<<8)
		return append([]byte{}, p[:2]...)
	case "types.SMB_NMPIPE_STATUS":
		v.FieldByName("ICount").SetUint(uint64(p[0]))
		v.FieldByName("Flags").SetUint(uint64(p[1]))
		return append([]byte{}, p[:2]...)
	}
	switch v.Kind() {
	case reflect.Array:
		w := FixedWidth(v.Type().Elem())
		for i := 0; i < v.Len(); i++ {
			le = append(le, SetPattern(v.Index(i), p[i*w:(i+1)*w])...)
		}
		return le
	case reflect.Uint8, reflect.Uint16, reflect.Uint32, reflect.Uint64, reflect.Int8, reflect.Int16, reflect.Int32, reflect.Int64:
		w := v.Type().Bits() / 8
		var u uint64
		for i := w - 1; i >= 0; i-- {
			u = u<<8 | uint64(p[i])
		}
		if v.Kind() >= reflect.Int && v.Kind() <= reflect.Int64 {
			switch w {
			case 1:
				v.SetInt(int64(int8(u)))
			case 2:
				v.SetInt(int64(int16(u)))
			case 4:
				v.SetInt(int64(int32(u)))
			default:
				v.SetInt(int64(u))
			}
		} else {
			v.SetUint(u)
		}
		return append([]byte{}, p[:w]...)
	}
	return nil
}

// IsCountField reports whether field name is a count/length/offset field of a relation of struct s.
func IsCountField(s, name string) bool {
	if _, ok := Derived[s][name]; ok {
		return true
	}
	for _, r := range Relations[s] {
		if r.Count == name {
			return true
		}
	}
	return false
}

// Slot is what marking one fixed-width field reveals about the encoding.
type Slot struct {
	Start, Width int
	TypeWidth    int
	LE           []byte // what an MS-CIFS little-endian encoder emits for the pattern
	Got          []byte // the bytes found in the slot
	Problem      string // "", or why no slot could be determined
	ProblemKind  string
}

func safeMarshal(c Cmd) (b []byte, err error) {
	defer func() {
		if r := recover(); r != nil {
			err = fmt.Errorf("panic: %v", r)
		}
	}()
	return c.Marshal()
}

// Mark writes pattern p (and, in a second copy, its complement) into field name of a command
// restored from fields and diffs the two encodings.
func Mark(e Entry, fields map[string]json.RawMessage, name string, p []byte) Slot {
	c1, c2 := New(e), New(e)
	if err := Restore(c1, fields); err != nil {
		return Slot{Problem: err.Error(), ProblemKind: "bad-case"}
	}
	Restore(c2, fields)
	f1 := reflect.ValueOf(c1).Elem().FieldByName(name)
	f2 := reflect.ValueOf(c2).Elem().FieldByName(name)
	width := FixedWidth(f1.Type())
	p = append([]byte{}, p...)
	for len(p) < width {
		p = append(p, byte(0x11*(len(p)+1)))
	}
	inv := make([]byte, len(p))
	for i := range p {
		inv[i] = ^p[i]
	}
	le := SetPattern(f1, p)
	SetPattern(f2, inv)
	enc1, err1 := safeMarshal(c1)
	enc2, err2 := safeMarshal(c2)
	s := Slot{TypeWidth: width, LE: le}
	if err1 != nil || err2 != nil {
		s.Problem, s.ProblemKind = fmt.Sprintf("%v / %v", err1, err2), "marshal-error"
		return s
	}
	if len(enc1) != len(enc2) {
		s.Problem, s.ProblemKind = fmt.Sprintf("%d vs %d bytes", len(enc1), len(enc2)), "fixed-width-field-changes-message-length"
		return s
	}
	var diff []int
	for i := range enc1 {
		if enc1[i] != enc2[i] {
			diff = append(diff, i)
		}
	}
	if len(diff) == 0 {
		s.Problem, s.ProblemKind = fmt.Sprintf("changing every byte of the field leaves the %d-byte encoding unchanged", len(enc1)), "field-not-emitted"
		return s
	}
	s.Start, s.Width = diff[0], diff[len(diff)-1]-diff[0]+1
	if len(diff) != s.Width {
		s.Problem, s.ProblemKind = fmt.Sprintf("bytes %v change", diff), "slot-not-contiguous"
	}
	s.Got = append([]byte{}, enc1[s.Start:s.Start+s.Width]...)
	return s
}

// FieldSlot is where one fixed-width own field sits in an encoding (found by marking).
type FieldSlot struct {
	Name         string
	Start, Width int
	// Chain: the field directly follows the previous marked field in the declaration, separated only
	// by Between bytes of fixed-width count fields (derived, so not markable themselves).
	Chain   bool
	Between int
}

// Layout marks every fixed-width, non-count own field of the structure in declaration order and
// returns the slots of those whose slot is well defined, plus the end of the parameter block
// (1 + 2*WordCount; -1 when the structure does not encode).
func Layout(e Entry, fields map[string]json.RawMessage) (slots []FieldSlot, paramEnd int) {
	cmd := New(e)
	if err := Restore(cmd, fields); err != nil {
		return nil, -1
	}
	chain, between := false, 0
	for _, f := range OwnFields(cmd) {
		w := FixedWidth(f.Type)
		if w == 0 {
			chain, between = false, 0
			continue
		}
		if IsCountField(e.Name, f.Name) {
			between += w
			continue
		}
		sl := Mark(e, fields, f.Name, nil)
		if sl.ProblemKind != "" || sl.Width != sl.TypeWidth {
			chain, between = false, 0
			continue
		}
		slots = append(slots, FieldSlot{f.Name, sl.Start, sl.Width, chain, between})
		chain, between = true, 0
	}
	paramEnd = -1
	if enc, err := safeMarshal(cmd); err == nil && len(enc) >= 3 {
		paramEnd = 1 + 2*int(enc[0])
	}
	return slots, paramEnd
}

// SameBlock reports whether two slot starts lie in the same block (parameters or data).
func SameBlock(a, b, paramEnd int) bool {
	return paramEnd > 0 && ((a < paramEnd && b < paramEnd) || (a >= paramEnd+2 && b >= paramEnd+2))
}
