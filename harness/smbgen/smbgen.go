// Package smbgen enumerates the SMB1 command structures reachable from the
// library's factories and fills / snapshots / restores them by reflection.
package smbgen

import (
	"bytes"
	"encoding/json"
	"fmt"
	"reflect"
	"sort"
	"sync"

	"pgregory.net/rapid"

	"github.com/TheManticoreProject/Manticore/network/smb/smb_v10/message/commands"
	"github.com/TheManticoreProject/Manticore/network/smb/smb_v10/message/commands/codes"
	"github.com/TheManticoreProject/Manticore/network/smb/smb_v10/message/commands/command_interface"
	"github.com/TheManticoreProject/Manticore/network/smb/smb_v10/message/data"
	"github.com/TheManticoreProject/Manticore/network/smb/smb_v10/message/parameters"
)

type Cmd = command_interface.CommandInterface

type Entry struct {
	Code     byte   `json:"code"`
	Response bool   `json:"response"`
	Name     string `json:"struct"`
	AndX     bool   `json:"andx"`
}

var inventory []Entry

// Inventory probes all 256 command codes in both directions.
func Inventory() []Entry {
	if inventory != nil {
		return inventory
	}
	for code := 0; code < 256; code++ {
		for _, resp := range []bool{false, true} {
			c := create(byte(code), resp)
			if c == nil {
				continue
			}
			inventory = append(inventory, Entry{byte(code), resp, reflect.TypeOf(c).Elem().Name(), c.IsAndX()})
		}
	}
	return inventory
}

func create(code byte, resp bool) (c Cmd) {
	defer func() {
		if recover() != nil {
			c = nil
		}
	}()
	var err error
	if resp {
		c, err = commands.CreateResponseCommand(codes.CommandCode(code))
	} else {
		c, err = commands.CreateRequestCommand(codes.CommandCode(code))
	}
	if err != nil || c == nil || reflect.ValueOf(c).IsNil() {
		return nil
	}
	return c
}

func ByName(name string) (Entry, bool) {
	for _, e := range Inventory() {
		if e.Name == name {
			return e, true
		}
	}
	return Entry{}, false
}

// New returns a factory-fresh, initialised command.
func New(e Entry) Cmd {
	c := create(e.Code, e.Response)
	c.Init()
	return c
}

// NewValid returns the factory-fresh command brought into the generator's domain: strings take the buffer
// format their command puts on the wire (AdoptWireFormats; format 0x04 where that cannot be told and the
// factory left none), dates start at 1980, pads have the length their decoder expects and counts agree
// with the (empty) buffers. Several factories leave BufferFormat 0, which does not encode.
func NewValid(e Entry) Cmd {
	c := New(e)
	AdoptWireFormats(c)
	rv := reflect.ValueOf(c).Elem()
	for _, f := range OwnFields(c) {
		Normalize(rv.FieldByName(f.Name))
	}
	ApplyRelations(c)
	return c
}

// ResetAccumulators gives the command empty parameter and data blocks (every
// Marshal appends to them: the recorded C03 finding is stepped around this way).
func ResetAccumulators(c Cmd) {
	c.SetParameters(parameters.NewParameters())
	c.SetData(data.NewData())
}

// OwnFields lists the command's own exported fields (not the embedded Command).
func OwnFields(c Cmd) []reflect.StructField {
	rt := reflect.TypeOf(c).Elem()
	var out []reflect.StructField
	for i := 0; i < rt.NumField(); i++ {
		f := rt.Field(i)
		if f.Name == "Command" || !f.IsExported() {
			continue
		}
		out = append(out, f)
	}
	return out
}

// Snapshot renders the own fields as JSON (for replay files and samples).
func Snapshot(c Cmd) map[string]json.RawMessage {
	rv := reflect.ValueOf(c).Elem()
	m := map[string]json.RawMessage{}
	for _, f := range OwnFields(c) {
		b, err := json.Marshal(rv.FieldByName(f.Name).Interface())
		if err != nil {
			b, _ = json.Marshal(fmt.Sprintf("%#v", rv.FieldByName(f.Name).Interface()))
		}
		m[f.Name] = b
	}
	return m
}

// Restore sets the own fields from a snapshot.
func Restore(c Cmd, m map[string]json.RawMessage) error {
	rv := reflect.ValueOf(c).Elem()
	for _, f := range OwnFields(c) {
		raw, ok := m[f.Name]
		if !ok {
			continue
		}
		if err := json.Unmarshal(raw, rv.FieldByName(f.Name).Addr().Interface()); err != nil {
			return fmt.Errorf("%s: %v", f.Name, err)
		}
	}
	return nil
}

// ---- relations: count/length fields and the buffers they describe -----------------------------------
//
// Taken from the decoders' own slicing rules (c.X = raw[offset : offset+int(c.Y)]) and from the
// MS-CIFS field descriptions; "pad" marks the ten transaction-style decoders that use an *offset*
// field as the length of the preceding pad.

type Relation struct {
	Buffer string // slice-valued field
	Count  string // integer field that must equal len(Buffer)
	Pad    bool   // Count is an offset field used as pad length by the decoder
}

var Relations = map[string][]Relation{
	"IoctlRequest":                 {{"Pad1", "ParameterOffset", true}, {"Parameters", "ParameterCount", false}, {"Pad2", "DataOffset", true}, {"Data", "DataCount", false}},
	"IoctlResponse":                {{"Pad1", "ParameterOffset", true}, {"Parameters", "ParameterCount", false}, {"Pad2", "DataOffset", true}, {"Data", "DataCount", false}},
	"LockingAndxRequest":           {{"Unlocks", "NumberOfRequestedUnlocks", false}, {"Locks", "NumberOfRequestedLocks", false}},
	"NtTransactRequest":            {{"Pad1", "ParameterOffset", true}, {"NT_Trans_Parameters", "ParameterCount", false}, {"Pad2", "DataOffset", true}, {"NT_Trans_Data", "DataCount", false}},
	"NtTransactSecondaryRequest":   {{"Pad1", "ParameterOffset", true}, {"NT_Trans_Parameters", "ParameterCount", false}, {"Pad2", "DataOffset", true}, {"NT_Trans_Data", "DataCount", false}},
	"ReadMpxResponse":              {{"Data", "DataLength", false}},
	"SessionSetupAndxRequest":      {{"OEMPassword", "OEMPasswordLen", false}, {"UnicodePassword", "UnicodePasswordLen", false}},
	"Transaction2Request":          {{"Pad1", "ParameterOffset", true}, {"Trans2_Parameters", "ParameterCount", false}, {"Pad2", "DataOffset", true}, {"Trans2_Data", "DataCount", false}},
	"Transaction2SecondaryRequest": {{"Pad1", "ParameterOffset", true}, {"Trans2_Parameters", "ParameterCount", false}, {"Pad2", "DataOffset", true}, {"Trans2_Data", "DataCount", false}},
	"TransactionRequest":           {{"Pad1", "ParameterOffset", true}, {"Trans_Parameters", "ParameterCount", false}, {"Pad2", "DataOffset", true}, {"Trans_Data", "DataCount", false}, {"Setup", "SetupCount", false}},
	"TransactionSecondaryRequest":  {{"Pad1", "ParameterOffset", true}, {"Trans2_Parameters", "ParameterCount", false}, {"Pad2", "DataOffset", true}, {"Trans2_Data", "DataCount", false}},
	"TreeConnectAndxRequest":       {{"Password", "PasswordLength", false}},
	"WriteAndCloseRequest":         {{"Data", "CountOfBytesToWrite", false}},
	"WriteAndxRequest":             {{"Data", "DataLength", false}},
	"WriteMpxRequest":              {{"Pad", "DataOffset", true}, {"Buffer", "DataLength", false}},
	"WriteRawRequest":              {{"Data", "DataLength", false}},
	"NegotiateResponse":            {{"Challenge", "ChallengeLength", false}},
	"NtCreateAndxRequest":          {{"FileName.Buffer", "NameLength", false}},
	"FindResponse":                 {{"DirectoryInformationData", "Count", false}},
	"FindUniqueResponse":           {{"DirectoryInformationData", "Count", false}},
	"ReadResponse":                 {{"Bytes.Buffer", "CountOfBytesReturned", false}},
	"LockAndReadResponse":          {{"BytesRead.Buffer", "CountOfBytesReturned", false}},
	"WriteRequest":                 {{"Data.Buffer", "CountOfBytesToWrite", false}},
	"WriteAndUnlockRequest":        {{"Data.Buffer", "CountOfBytesToWrite", false}},
}

func fieldByPath(rv reflect.Value, path string) reflect.Value {
	cur := rv
	start := 0
	for i := 0; i <= len(path); i++ {
		if i == len(path) || path[i] == '.' {
			cur = cur.FieldByName(path[start:i])
			if !cur.IsValid() {
				return cur
			}
			start = i + 1
		}
	}
	return cur
}

// PadRules: pad fields whose length the decoder derives by rule rather than from a count field.
// fixed > 0: the decoder always reads exactly that many pad bytes (MS-CIFS alignment for the fixed
// layout of that message). sameAs: the decoder slices the pad with the length of another buffer
// (recorded finding; the generator steps around it so that the rest of the decoder is exercised).
type PadRule struct {
	Field  string
	Fixed  int
	SameAs string // pad length := len(SameAs)
	EvenOf string // pad length := len(EvenOf) rounded up to even (SessionSetupAndxRequest, recorded finding)
}

var PadRules = map[string][]PadRule{
	"SessionSetupAndxResponse": {{Field: "Pad", Fixed: 1}},
	"TreeConnectAndxRequest":   {{Field: "Pad", Fixed: 1}},
	"ReadMpxResponse":          {{Field: "Pad", Fixed: 1}},
	"WriteRawRequest":          {{Field: "Pad", SameAs: "Data"}},
	"SessionSetupAndxRequest":  {{Field: "Pad", EvenOf: "UnicodePassword"}},
}

// SpecPads, when true, leaves SameAs/EvenOf pads as generated (0..1 bytes as MS-CIFS aligns them)
// instead of stepping around the decoders' rules.
var SpecPads = false

func applyPadRules(rv reflect.Value, name string) {
	for _, r := range PadRules[name] {
		f := rv.FieldByName(r.Field)
		if !f.IsValid() {
			continue
		}
		n := -1
		switch {
		case r.Fixed > 0:
			n = r.Fixed
		case SpecPads:
			if f.Len() > 1 {
				n = f.Len() % 2
			}
		case r.SameAs != "":
			n = rv.FieldByName(r.SameAs).Len()
		case r.EvenOf != "":
			n = (rv.FieldByName(r.EvenOf).Len() + 1) / 2 * 2
		}
		if n < 0 {
			continue
		}
		b := make([]byte, n)
		copy(b, f.Bytes())
		f.SetBytes(b)
	}
}

// ApplyRelations makes count/length fields agree with their buffers.
// Derived holds fields whose value is fixed by the wire form itself rather than by a buffer:
// NegotiateRequest.WordCount mirrors the count byte of the parameter block, and that request has
// no parameter words (MS-CIFS 2.2.4.52.1: WordCount 0x00).
var Derived = map[string]map[string]uint64{
	"NegotiateRequest": {"WordCount": 0},
}

func ApplyRelations(c Cmd) {
	rv := reflect.ValueOf(c).Elem()
	name := rv.Type().Name()
	applyPadRules(rv, name)
	for f, v := range Derived[name] {
		if fv := rv.FieldByName(f); fv.IsValid() && fv.CanUint() {
			fv.SetUint(v)
		}
	}
	for _, r := range Relations[name] {
		buf := fieldByPath(rv, r.Buffer)
		cnt := fieldByPath(rv, r.Count)
		if !buf.IsValid() || !cnt.IsValid() {
			continue
		}
		n := uint64(buf.Len())
		if cnt.Kind() == reflect.Uint8 && n > 255 {
			buf.Set(buf.Slice(0, 255))
			n = 255
		}
		cnt.SetUint(n)
	}
}

// ---- the buffer format a command gives each of its strings ------------------------------------------------
//
// Which format byte introduces a string field is the command's business: some encoders emit the format the
// field holds, others decide it themselves - and whether they then write it back into the field is theirs to
// choose as well, so nothing here reads a format off a structure after encoding it. The wire is asked
// instead, once per structure: the factory-fresh structure is encoded with a three-byte content in every
// string field (format 0x04 where the factory left none, as before), each content is located by marking, and the
// byte that introduces it - one byte in front of it for the NUL-terminated formats 0x02/0x04, three bytes
// in front of it and followed by the 16-bit length for 0x01/0x03/0x05, inside the data block - is the format
// the command uses for that field. Strings are generated in that format only ("every string buffer format
// the command uses"). Where no format byte is found (the string is emitted without that framing, or the
// structure does not encode) nothing is known and the field keeps the format it holds.

var wireFormats = struct {
	sync.Mutex
	m map[string]map[string]uint8
}{m: map[string]map[string]uint8{}}

// FormatAt reads the buffer format that introduces n content bytes located at start in enc, whose data
// block starts at dataStart (0: there is none).
func FormatAt(enc []byte, start, n, dataStart int) uint8 {
	if start-3 >= dataStart && start <= len(enc) {
		if f := enc[start-3]; (f == 1 || f == 3 || f == 5) && enc[start-2] == byte(n) && enc[start-1] == byte(n>>8) {
			return f
		}
	}
	if start-1 >= dataStart && start+n < len(enc) {
		if f := enc[start-1]; (f == 2 || f == 4) && enc[start+n] == 0 {
			return f
		}
	}
	return 0
}

func probeFormats(e Entry) map[string]uint8 {
	out := map[string]uint8{}
	cmd := New(e)
	rv := reflect.ValueOf(cmd).Elem()
	var names []string
	for _, f := range OwnFields(cmd) {
		fv := rv.FieldByName(f.Name)
		Normalize(fv)
		if _, str, ok := content(fv); ok && str.IsValid() {
			SetContent(fv, []byte("AAA"))
			names = append(names, f.Name)
		}
	}
	if len(names) == 0 {
		return out
	}
	ApplyRelations(cmd)
	fields := Snapshot(cmd)
	for _, n := range names {
		sl := MarkVar(e, fields, n)
		if sl.ProblemKind != "" || sl.Width != sl.TypeWidth || len(sl.Enc) < 3 {
			continue
		}
		if f := FormatAt(sl.Enc, sl.Start, sl.Width, 1+2*int(sl.Enc[0])+2); f != 0 {
			out[n] = f
		}
	}
	return out
}

// WireFormat returns the buffer format structure e puts in front of the content of its string field
// (0: not known).
func WireFormat(e Entry, field string) uint8 {
	wireFormats.Lock()
	defer wireFormats.Unlock()
	m, ok := wireFormats.m[e.Name]
	if !ok {
		m = probeFormats(e)
		wireFormats.m[e.Name] = m
	}
	return m[field]
}

// AdoptWireFormats gives every own string field of c the buffer format its command uses for it, where
// that is known; the other strings keep the format they hold.
func AdoptWireFormats(c Cmd) {
	rv := reflect.ValueOf(c).Elem()
	e, ok := ByName(rv.Type().Name())
	if !ok {
		return
	}
	for _, f := range OwnFields(c) {
		if _, str, ok := content(rv.FieldByName(f.Name)); ok && str.IsValid() {
			if wf := WireFormat(e, f.Name); wf != 0 {
				str.FieldByName("BufferFormat").SetUint(uint64(wf))
			}
		}
	}
}

// ---- filling -------------------------------------------------------------------------------------------

type Options struct {
	MaxBytes      int  // upper bound for byte-slice lengths
	DistinctBytes bool // integers whose bytes are pairwise distinct and non-palindromic
	MaxElems      int  // upper bound for slices of structures
	MinElems      int  // lower bound for slices of structures and words (0 = may be empty)
	MinBytes      int  // lower bound for byte-slice and string lengths (0 = may be empty)
}

func distinct(t *rapid.T, n int, label string) uint64 {
	// n distinct byte values in random order, first != last reversed order guaranteed by distinctness
	perm := rapid.SliceOfNDistinct(rapid.IntRange(1, 254), n, n, rapid.ID[int]).Draw(t, label)
	var v uint64
	for _, b := range perm {
		v = v<<8 | uint64(b)
	}
	return v
}

func drawUint(t *rapid.T, bits int, o Options, label string) uint64 {
	if o.DistinctBytes || rapid.IntRange(0, 2).Draw(t, label+"D") == 0 {
		return distinct(t, bits/8, label)
	}
	switch rapid.IntRange(0, 4).Draw(t, label+"C") {
	case 4:
		// zero is what selects the short form of structures with optional parts (WordCount variants)
		return 0
	case 0:
		return rapid.SampledFrom([]uint64{0, 1, 0x7F, 0x80, 0xFF, 0x7FFF, 0x8000, 0xFFFF, 0x7FFFFFFF, 0x80000000, 0xFFFFFFFF, 0x7FFFFFFFFFFFFFFF, 0xFFFFFFFFFFFFFFFF}).Draw(t, label+"E") & (1<<uint(bits) - 1 | uint64(bits/64)*0xFFFFFFFFFFFFFFFF)
	default:
		if bits == 64 {
			return rapid.Uint64().Draw(t, label)
		}
		return rapid.Uint64Range(0, 1<<uint(bits)-1).Draw(t, label)
	}
}

func drawBytes(t *rapid.T, max int, nulFree bool, label string, min ...int) []byte {
	var n int
	switch rapid.IntRange(0, 4).Draw(t, label+"LC") {
	case 0:
		n = 0
	case 1:
		n = rapid.IntRange(1, 8).Draw(t, label+"LS")
	case 2:
		n = max
	default:
		n = rapid.IntRange(0, max).Draw(t, label+"L")
	}
	if len(min) > 0 && n < min[0] {
		n = min[0]
	}
	b := rapid.SliceOfN(rapid.Byte(), n, n).Draw(t, label)
	if nulFree {
		for i := range b {
			if b[i] == 0 {
				b[i] = 0x41
			}
		}
	}
	return b
}

// fillValue assigns a generated value to v (recursively).
func fillValue(t *rapid.T, v reflect.Value, o Options, label string) {
	switch v.Type().String() {
	case "types.SMB_STRING", "types.OEM_STRING":
		s := v
		if v.Type().String() == "types.OEM_STRING" {
			s = v.FieldByName("SMB_STRING")
		}
		// the format the field holds: for a command's own strings the one the command uses (Fill has
		// put it there), else the factory's; 0x04 when there is none
		f := uint8(s.FieldByName("BufferFormat").Uint())
		if f < 1 || f > 5 {
			f = 4
			s.FieldByName("BufferFormat").SetUint(4)
		}
		b := drawBytes(t, o.MaxBytes, f == 2 || f == 4, label, o.MinBytes)
		s.FieldByName("Buffer").SetBytes(b)
		s.FieldByName("Length").SetUint(uint64(len(b)))
		return
	case "types.SMB_RESUME_KEY":
		v.FieldByName("Reserved").SetUint(drawUint(t, 8, o, label+"R"))
		reflect.Copy(v.FieldByName("ServerState"), reflect.ValueOf(rapid.SliceOfN(rapid.Byte(), 16, 16).Draw(t, label+"SS")))
		reflect.Copy(v.FieldByName("ClientState"), reflect.ValueOf(rapid.SliceOfN(rapid.Byte(), 4, 4).Draw(t, label+"CS")))
		s := v.FieldByName("SMB_STRING")
		s.FieldByName("BufferFormat").SetUint(5)
		return
	case "types.SMB_DATE":
		v.FieldByName("Year").SetUint(uint64(rapid.IntRange(1980, 2107).Draw(t, label+"Y")))
		v.FieldByName("Month").SetUint(uint64(rapid.IntRange(0, 15).Draw(t, label+"M")))
		v.FieldByName("Day").SetUint(uint64(rapid.IntRange(0, 31).Draw(t, label+"D")))
		return
	case "types.SMB_DIRECTORY_INFORMATION":
		fillValue(t, v.FieldByName("ResumeKey"), o, label+"RK")
		v.FieldByName("FileAttributes").SetUint(drawUint(t, 8, o, label+"A"))
		fillValue(t, v.FieldByName("LastWriteTime"), o, label+"T")
		fillValue(t, v.FieldByName("LastWriteDate"), o, label+"D")
		v.FieldByName("FileSize").SetUint(drawUint(t, 32, o, label+"S"))
		n := rapid.IntRange(1, 12).Draw(t, label+"NL")
		name := make([]byte, n)
		for i := range name {
			// spaces are legal inside a name ("MY FILE.TXT"); trailing ones merge with the padding
			name[i] = byte(rapid.IntRange(0x20, 0x7e).Draw(t, label+"NC"))
			if rapid.IntRange(0, 5).Draw(t, label+"NS") == 0 {
				name[i] = ' '
			}
		}
		fn := v.FieldByName("FileName").FieldByName("SMB_STRING")
		fn.FieldByName("BufferFormat").SetUint(4)
		fn.FieldByName("Buffer").SetBytes(name)
		fn.FieldByName("Length").SetUint(uint64(n))
		return
	case "dialects.Dialects":
		all := []string{"PC NETWORK PROGRAM 1.0", "PCLAN1.0", "MICROSOFT NETWORKS 1.03", "MICROSOFT NETWORKS 3.0", "LANMAN1.0", "LANMAN1.2", "LANMAN2.0", "LANMAN2.1", "LM1.2X002", "DOS LM1.2X002", "DOS LANMAN2.1", "Windows for Workgroups 3.1a", "NT LM 0.12"}
		// The list lives in the data block (up to 65535 bytes): mostly a handful of entries, one time in five
		// up to 40, one time in ten all 13 defined names together (plus a few more); names are any NUL-free
		// byte strings, mostly short, now and then up to 300 bytes, so that the list passes 255 bytes
		// and the entry count passes the number of defined dialects.
		var ds []string
		shape := rapid.IntRange(0, 9).Draw(t, label+"Shape")
		n := rapid.IntRange(0, 8).Draw(t, label+"N")
		switch {
		case shape == 0:
			ds = append(ds, all...)
			n = rapid.IntRange(0, 4).Draw(t, label+"Extra")
		case shape <= 2:
			n = rapid.IntRange(9, 40).Draw(t, label+"Many")
		}
		for i := 0; i < n; i++ {
			if rapid.IntRange(0, 3).Draw(t, label+"Custom") == 0 {
				// any NUL-free name, the empty one included ("02 00" is a well-formed entry)
				l := rapid.IntRange(0, 12).Draw(t, label+"Len")
				if rapid.IntRange(0, 7).Draw(t, label+"Long") == 0 {
					l = rapid.IntRange(13, 300).Draw(t, label+"LongLen")
				}
				b := make([]byte, l)
				for j := range b {
					b[j] = byte(rapid.IntRange(1, 255).Draw(t, label+"Ch"))
				}
				ds = append(ds, string(b))
				continue
			}
			ds = append(ds, all[rapid.IntRange(0, len(all)-1).Draw(t, label+"I")])
		}
		if ds == nil {
			ds = []string{}
		}
		v.FieldByName("Dialects").Set(reflect.ValueOf(ds))
		return
	}
	switch v.Kind() {
	case reflect.Uint8, reflect.Uint16, reflect.Uint32, reflect.Uint64:
		v.SetUint(drawUint(t, v.Type().Bits(), o, label))
	case reflect.Int8, reflect.Int16, reflect.Int32, reflect.Int64:
		u := drawUint(t, v.Type().Bits(), o, label)
		switch v.Type().Bits() {
		case 8:
			v.SetInt(int64(int8(u)))
		case 16:
			v.SetInt(int64(int16(u)))
		case 32:
			v.SetInt(int64(int32(u)))
		default:
			v.SetInt(int64(u))
		}
	case reflect.Array:
		for i := 0; i < v.Len(); i++ {
			fillValue(t, v.Index(i), o, fmt.Sprintf("%s%d", label, i))
		}
	case reflect.Slice:
		if v.Type().Elem().Kind() == reflect.Uint8 {
			v.SetBytes(drawBytes(t, o.MaxBytes, false, label, o.MinBytes))
			return
		}
		max := o.MaxElems
		if max == 0 {
			max = 3
		}
		if max < o.MinElems {
			max = o.MinElems
		}
		n := rapid.IntRange(o.MinElems, max).Draw(t, label+"N")
		s := reflect.MakeSlice(v.Type(), n, n)
		for i := 0; i < n; i++ {
			fillValue(t, s.Index(i), o, fmt.Sprintf("%s%d", label, i))
		}
		v.Set(s)
	case reflect.Struct:
		for i := 0; i < v.NumField(); i++ {
			if v.Type().Field(i).IsExported() {
				fillValue(t, v.Field(i), o, label+v.Type().Field(i).Name)
			}
		}
	}
}

// Fill assigns generated values to every own field and then makes counts agree with buffers.
//
// Besides generated values every field takes, one time in ten each, the value the factory gave it and
// the all-zero value of its type (empty buffers, zero integers, zeroed arrays): these are the values
// that select the short forms of structures with optional parts, and a random draw all but never hits them.
// DistinctBytes promises integers with pairwise distinct bytes, so it switches those two classes off.
func Fill(t *rapid.T, c Cmd, o Options) {
	rv := reflect.ValueOf(c).Elem()
	// every string is generated in the format its command uses for it (read off the wire once)
	AdoptWireFormats(c)
	for _, f := range OwnFields(c) {
		fv := rv.FieldByName(f.Name)
		elems := fv.Kind() == reflect.Slice && fv.Type().Elem().Kind() != reflect.Uint8
		if !o.DistinctBytes && !(elems && o.MinElems > 0) && !(o.MinBytes > 0 && IsByteField(fv.Type())) {
			switch rapid.IntRange(0, 9).Draw(t, f.Name+"V") {
			case 0:
				Normalize(fv) // factory default
				continue
			case 1:
				SetZero(fv)
				continue
			}
		}
		fillValue(t, fv, o, f.Name)
	}
	ApplyRelations(c)
}

// Normalize brings a factory-default value into the domain the generator works in: a string without
// a buffer format gets format 0x04 (as fillValue does), a packed date starts at 1980. It sees a value,
// not the command it belongs to: the own string fields of a command have been given the format their
// command uses beforehand (AdoptWireFormats in Fill / NewValid), so 0x04 is what is left for strings
// whose format cannot be read off the wire and for strings nested in other types.
func Normalize(v reflect.Value) {
	switch v.Type().String() {
	case "types.SMB_STRING":
		if f := v.FieldByName("BufferFormat").Uint(); f < 1 || f > 5 {
			v.FieldByName("BufferFormat").SetUint(4)
		}
		v.FieldByName("Length").SetUint(uint64(v.FieldByName("Buffer").Len()))
		return
	case "types.SMB_DATE":
		if v.FieldByName("Year").Uint() < 1980 {
			v.FieldByName("Year").SetUint(1980)
		}
		return
	}
	switch v.Kind() {
	case reflect.Struct:
		for i := 0; i < v.NumField(); i++ {
			if v.Type().Field(i).IsExported() {
				Normalize(v.Field(i))
			}
		}
	case reflect.Array, reflect.Slice:
		if k := v.Type().Elem().Kind(); k == reflect.Struct || k == reflect.Array {
			for i := 0; i < v.Len(); i++ {
				Normalize(v.Index(i))
			}
		}
	}
}

// SetZero assigns the all-zero value of the field's type inside the generator's domain: integers 0,
// arrays zeroed, buffers and lists empty, strings empty in their format, dates 1980-00-00.
func SetZero(v reflect.Value) {
	switch v.Type().String() {
	case "types.SMB_STRING":
		v.FieldByName("Buffer").SetBytes([]byte{})
		Normalize(v)
		return
	case "types.SMB_DATE":
		v.Set(reflect.Zero(v.Type()))
		Normalize(v)
		return
	}
	switch v.Kind() {
	case reflect.Struct:
		for i := 0; i < v.NumField(); i++ {
			if v.Type().Field(i).IsExported() {
				SetZero(v.Field(i))
			}
		}
	case reflect.Array:
		for i := 0; i < v.Len(); i++ {
			SetZero(v.Index(i))
		}
	default:
		v.Set(reflect.Zero(v.Type()))
	}
}

// Names returns the sorted struct names of the inventory.
func Names() []string {
	var out []string
	for _, e := range Inventory() {
		out = append(out, e.Name)
	}
	sort.Strings(out)
	return out
}

// ---- marking: which bytes of the encoding does one fixed-width field occupy? ---------------------------

// FixedWidth returns the wire width in bytes of a fixed-width field type as
// declared in the library (0 = not a fixed-width field).
func FixedWidth(t reflect.Type) int {
	switch t.String() {
	case "data_structures.FILETIME", "data_structures.LARGE_INTEGER":
		return 8
	case "types.SMB_DATE", "types.SMB_FILE_ATTRIBUTES", "types.SMB_NMPIPE_STATUS":
		return 2
	}
	switch t.Kind() {
	case reflect.Uint8, reflect.Int8:
		return 1
	case reflect.Uint16, reflect.Int16:
		return 2
	case reflect.Uint32, reflect.Int32:
		return 4
	case reflect.Uint64, reflect.Int64:
		return 8
	case reflect.Array:
		if w := FixedWidth(t.Elem()); w > 0 {
			return w * t.Len()
		}
	}
	return 0
}

// SetPattern writes the byte pattern p (little-endian field order: p[0] is the
// least significant byte of the first element) into a fixed-width field and
// returns the bytes an MS-CIFS little-endian encoder would emit for it.
func SetPattern(v reflect.Value, p []byte) (le []byte) {
	switch v.Type().String() {
	case "data_structures.FILETIME":
		v.FieldByName("DwLowDateTime").SetUint(uint64(p[0]) | uint64(p[1])<<8 | uint64(p[2])<<16 | uint64(p[3])<<24)
		v.FieldByName("DwHighDateTime").SetUint(uint64(p[4]) | uint64(p[5])<<8 | uint64(p[6])<<16 | uint64(p[7])<<24)
		return append([]byte{}, p[:8]...)
	case "data_structures.LARGE_INTEGER":
		var u uint64
		for i := 7; i >= 0; i-- {
			u = u<<8 | uint64(p[i])
		}
		v.FieldByName("QuadPart").SetUint(u)
		return append([]byte{}, p[:8]...)
	case "types.SMB_DATE":
		w := uint16(p[0]) | uint16(p[1])<<8
		v.FieldByName("Year").SetUint(uint64(1980 + w>>9))
		v.FieldByName("Month").SetUint(uint64(w >> 5 & 0xF))
		v.FieldByName("Day").SetUint(uint64(w & 0x1F))
		return append([]byte{}, p[:2]...)
	case "types.SMB_FILE_ATTRIBUTES":
		v.FieldByName("Attributes").SetUint(uint64(p[0]) | uint64(p[1])<<8)
		return append([]byte{}, p[:2]...)
	case "types.SMB_NMPIPE_STATUS":
		v.FieldByName("ICount").SetUint(uint64(p[0]))
		v.FieldByName("Flags").SetUint(uint64(p[1]))
		return append([]byte{}, p[:2]...)
	}
	switch v.Kind() {
	case reflect.Array:
		w := FixedWidth(v.Type().Elem())
		for i := 0; i < v.Len(); i++ {
			le = append(le, SetPattern(v.Index(i), p[i*w:(i+1)*w])...)
		}
		return le
	case reflect.Uint8, reflect.Uint16, reflect.Uint32, reflect.Uint64, reflect.Int8, reflect.Int16, reflect.Int32, reflect.Int64:
		w := v.Type().Bits() / 8
		var u uint64
		for i := w - 1; i >= 0; i-- {
			u = u<<8 | uint64(p[i])
		}
		if v.Kind() >= reflect.Int && v.Kind() <= reflect.Int64 {
			switch w {
			case 1:
				v.SetInt(int64(int8(u)))
			case 2:
				v.SetInt(int64(int16(u)))
			case 4:
				v.SetInt(int64(int32(u)))
			default:
				v.SetInt(int64(u))
			}
		} else {
			v.SetUint(u)
		}
		return append([]byte{}, p[:w]...)
	}
	return nil
}

// IsCountField reports whether field name is a count/length/offset field of a relation of struct s.
func IsCountField(s, name string) bool {
	if _, ok := Derived[s][name]; ok {
		return true
	}
	for _, r := range Relations[s] {
		if r.Count == name {
			return true
		}
	}
	return false
}

// Slot is what marking one fixed-width field reveals about the encoding.
type Slot struct {
	Start, Width int
	TypeWidth    int
	LE           []byte // what an MS-CIFS little-endian encoder emits for the pattern
	Got          []byte // the bytes found in the slot
	Problem      string // "", or why no slot could be determined
	ProblemKind  string
	Enc          []byte // the encoding that carries the pattern (nil when it could not be produced)
}

func safeMarshal(c Cmd) (b []byte, err error) {
	defer func() {
		if r := recover(); r != nil {
			err = fmt.Errorf("panic: %v", r)
		}
	}()
	return c.Marshal()
}

// Mark writes pattern p (and, in a second copy, its complement) into field name of a command
// restored from fields and diffs the two encodings.
func Mark(e Entry, fields map[string]json.RawMessage, name string, p []byte) Slot {
	c1, c2 := New(e), New(e)
	if err := Restore(c1, fields); err != nil {
		return Slot{Problem: err.Error(), ProblemKind: "bad-case"}
	}
	Restore(c2, fields)
	f1 := reflect.ValueOf(c1).Elem().FieldByName(name)
	f2 := reflect.ValueOf(c2).Elem().FieldByName(name)
	width := FixedWidth(f1.Type())
	p = append([]byte{}, p...)
	for len(p) < width {
		p = append(p, byte(0x11*(len(p)+1)))
	}
	inv := make([]byte, len(p))
	for i := range p {
		inv[i] = ^p[i]
	}
	le := SetPattern(f1, p)
	SetPattern(f2, inv)
	enc1, err1 := safeMarshal(c1)
	enc2, err2 := safeMarshal(c2)
	s := Slot{TypeWidth: width, LE: le, Enc: enc1}
	if err1 != nil || err2 != nil {
		s.Problem, s.ProblemKind = fmt.Sprintf("%v / %v", err1, err2), "marshal-error"
		return s
	}
	if len(enc1) != len(enc2) {
		s.Problem, s.ProblemKind = fmt.Sprintf("%d vs %d bytes", len(enc1), len(enc2)), "fixed-width-field-changes-message-length"
		return s
	}
	var diff []int
	for i := range enc1 {
		if enc1[i] != enc2[i] {
			diff = append(diff, i)
		}
	}
	if len(diff) == 0 {
		s.Problem, s.ProblemKind = fmt.Sprintf("changing every byte of the field leaves the %d-byte encoding unchanged", len(enc1)), "field-not-emitted"
		return s
	}
	s.Start, s.Width = diff[0], diff[len(diff)-1]-diff[0]+1
	if len(diff) != s.Width {
		s.Problem, s.ProblemKind = fmt.Sprintf("bytes %v change", diff), "slot-not-contiguous"
	}
	s.Got = append([]byte{}, enc1[s.Start:s.Start+s.Width]...)
	return s
}

// FieldSlot is where one fixed-width own field sits in an encoding (found by marking).
type FieldSlot struct {
	Name         string
	Start, Width int
	// Chain: the field directly follows the previous marked field in the declaration, separated only
	// by Between bytes of fixed-width count fields (derived, so not markable themselves).
	Chain   bool
	Between int
}

// Layout marks every fixed-width, non-count own field of the structure in declaration order and
// returns the slots of those whose slot is well defined, plus the end of the parameter block
// (1 + 2*WordCount; -1 when the structure does not encode).
func Layout(e Entry, fields map[string]json.RawMessage) (slots []FieldSlot, paramEnd int) {
	cmd := New(e)
	if err := Restore(cmd, fields); err != nil {
		return nil, -1
	}
	base, err := safeMarshal(cmd)
	if err != nil || len(base) < 3 {
		return nil, -1
	}
	chain, between := false, 0
	for _, f := range OwnFields(cmd) {
		w := FixedWidth(f.Type)
		if w == 0 {
			chain, between = false, 0
			continue
		}
		if IsCountField(e.Name, f.Name) {
			between += w
			continue
		}
		sl := Mark(e, fields, f.Name, nil)
		if sl.ProblemKind != "" || sl.Width != sl.TypeWidth || !sameShape(sl.Enc, base) {
			chain, between = false, 0
			continue
		}
		slots = append(slots, FieldSlot{f.Name, sl.Start, sl.Width, chain, between})
		chain, between = true, 0
	}
	return slots, 1 + 2*int(base[0])
}

// sameShape: slots found by marking different fields are comparable only if the encodings they were
// found in are laid out alike. A structure with an optional part (a field that is left out of the
// parameter block while it is zero) is laid out differently once marking gives that field a value:
// in an assignment where the part is absent the field has no slot, and it is left out.
func sameShape(enc, base []byte) bool {
	return len(enc) == len(base) && len(enc) > 0 && enc[0] == base[0]
}

// SameBlock reports whether two slot starts lie in the same block (parameters or data).
func SameBlock(a, b, paramEnd int) bool {
	return paramEnd > 0 && ((a < paramEnd && b < paramEnd) || (a >= paramEnd+2 && b >= paramEnd+2))
}

// ---- reading a pattern back, variable-length fields, count fields ---------------------------------------

// PatternOf is the inverse of SetPattern: the bytes an MS-CIFS little-endian encoder emits for the
// value a fixed-width field holds.
func PatternOf(v reflect.Value) []byte {
	le := func(u uint64, w int) []byte {
		b := make([]byte, w)
		for i := range b {
			b[i] = byte(u >> (8 * uint(i)))
		}
		return b
	}
	switch v.Type().String() {
	case "data_structures.FILETIME":
		return append(le(v.FieldByName("DwLowDateTime").Uint(), 4), le(v.FieldByName("DwHighDateTime").Uint(), 4)...)
	case "data_structures.LARGE_INTEGER":
		q := v.FieldByName("QuadPart")
		if q.CanInt() {
			return le(uint64(q.Int()), 8)
		}
		return le(q.Uint(), 8)
	case "types.SMB_DATE":
		w := (v.FieldByName("Year").Uint()-1980)<<9 | (v.FieldByName("Month").Uint()&0xF)<<5 | v.FieldByName("Day").Uint()&0x1F
		return le(w, 2)
	case "types.SMB_FILE_ATTRIBUTES":
		return le(v.FieldByName("Attributes").Uint(), 2)
	case "types.SMB_NMPIPE_STATUS":
		return []byte{byte(v.FieldByName("ICount").Uint()), byte(v.FieldByName("Flags").Uint())}
	}
	switch v.Kind() {
	case reflect.Array:
		var out []byte
		for i := 0; i < v.Len(); i++ {
			out = append(out, PatternOf(v.Index(i))...)
		}
		return out
	case reflect.Uint8, reflect.Uint16, reflect.Uint32, reflect.Uint64:
		return le(v.Uint(), v.Type().Bits()/8)
	case reflect.Int8, reflect.Int16, reflect.Int32, reflect.Int64:
		return le(uint64(v.Int()), v.Type().Bits()/8)
	}
	return nil
}

// content returns the byte-slice value that holds the content of a variable-length byte field
// (a byte slice, or the Buffer of an SMB_STRING / OEM_STRING) and the string value it belongs to.
func content(v reflect.Value) (buf, str reflect.Value, ok bool) {
	switch v.Type().String() {
	case "types.OEM_STRING":
		v = v.FieldByName("SMB_STRING")
		fallthrough
	case "types.SMB_STRING":
		return v.FieldByName("Buffer"), v, true
	}
	if v.Kind() == reflect.Slice && v.Type().Elem().Kind() == reflect.Uint8 {
		return v, reflect.Value{}, true
	}
	return reflect.Value{}, reflect.Value{}, false
}

// IsByteField reports whether t is a variable-length byte field (byte slice or buffer-format string).
func IsByteField(t reflect.Type) bool {
	_, _, ok := content(reflect.New(t).Elem())
	return ok
}

// Content returns the content bytes of a variable-length byte field.
func Content(v reflect.Value) []byte {
	if buf, _, ok := content(v); ok {
		return buf.Bytes()
	}
	return nil
}

// SetContent replaces the content of a variable-length byte field (and the Length of a string).
func SetContent(v reflect.Value, b []byte) {
	buf, str, ok := content(v)
	if !ok {
		return
	}
	buf.SetBytes(append([]byte{}, b...))
	if str.IsValid() {
		Normalize(str)
	}
}

// NulFree reports whether the field is a string in a NUL-terminated buffer format.
func NulFree(v reflect.Value) bool {
	if _, str, ok := content(v); ok && str.IsValid() {
		f := str.FieldByName("BufferFormat").Uint()
		return f == 2 || f == 4 || f < 1 || f > 5
	}
	return false
}

// CountFor returns the count field that describes buffer field name of structure s ("" if none)
// and whether the generator mirrors the buffer's length into another buffer (pad rules).
func CountFor(s, name string) (count string, mirrored bool) {
	for _, r := range Relations[s] {
		if r.Buffer == name || r.Buffer == name+".Buffer" {
			count = r.Count
		}
	}
	for _, r := range PadRules[s] {
		if r.SameAs == name || r.EvenOf == name {
			mirrored = true
		}
	}
	return
}

func marker(n int, upper bool) []byte {
	b := make([]byte, n)
	for i := range b {
		b[i] = byte(0x61 + i%26)
		if upper {
			b[i] = byte(0x41 + i%26)
		}
	}
	return b
}

// MarkVar is Mark for a non-empty variable-length byte field: its content is replaced, at unchanged
// length, by a marker and in a second copy by a marker that differs in every byte; both are NUL-free. The bytes that differ between the two encodings are where the content sits.
func MarkVar(e Entry, fields map[string]json.RawMessage, name string) Slot {
	c1, c2 := New(e), New(e)
	if err := Restore(c1, fields); err != nil {
		return Slot{Problem: err.Error(), ProblemKind: "bad-case"}
	}
	Restore(c2, fields)
	f1 := reflect.ValueOf(c1).Elem().FieldByName(name)
	f2 := reflect.ValueOf(c2).Elem().FieldByName(name)
	n := len(Content(f1))
	if n == 0 {
		// giving it content would move every field behind it: its place cannot be compared with theirs
		return Slot{Problem: "the field is empty", ProblemKind: "empty"}
	}
	SetContent(f1, marker(n, true))
	SetContent(f2, marker(n, false))
	ApplyRelations(c1)
	ApplyRelations(c2)
	n = len(Content(f1)) // a pad rule may have resized it
	enc1, err1 := safeMarshal(c1)
	enc2, err2 := safeMarshal(c2)
	s := Slot{TypeWidth: n, Enc: enc1}
	if err1 != nil || err2 != nil {
		s.Problem, s.ProblemKind = fmt.Sprintf("%v / %v", err1, err2), "marshal-error"
		return s
	}
	if len(enc1) != len(enc2) {
		s.Problem, s.ProblemKind = fmt.Sprintf("%d vs %d bytes", len(enc1), len(enc2)), "content-changes-message-length"
		return s
	}
	var diff []int
	for i := range enc1 {
		if enc1[i] != enc2[i] {
			diff = append(diff, i)
		}
	}
	if len(diff) == 0 {
		s.Problem, s.ProblemKind = "changing every byte of the content leaves the encoding unchanged", "field-not-emitted"
		return s
	}
	s.Start, s.Width = diff[0], diff[len(diff)-1]-diff[0]+1
	if len(diff) != s.Width {
		s.Problem, s.ProblemKind = fmt.Sprintf("%d bytes change in a range of %d", len(diff), s.Width), "slot-not-contiguous"
	}
	s.Got = append([]byte{}, enc1[s.Start:s.Start+s.Width]...)
	return s
}

// CountLoc is what varying the length of a described buffer reveals about its count field.
type CountLoc struct {
	Count, Buffer string
	N1, N2        int // the two buffer lengths (elements)
	Start, Width  int // range of parameter-block bytes that differ between the two encodings
	TypeWidth     int
	Enc           []byte // encoding with N1 elements
	Enc2          []byte // encoding with N2 elements
	Problem       string // "", or why the count could not be located (not a finding: a limit of the method)
}

// CountSlot locates the count field of relation r: the structure is encoded with the described buffer
// at two lengths whose little-endian images differ in both low bytes and are not palindromes (0x0102 and
// 0x0201 bytes or list elements; one and two bytes, k and k+1 elements under an 8-bit count; lists
// need k >= 1 generated elements, the last of which is repeated). Nothing else is changed, the shorter buffer is a prefix of
// the longer one and the counts are set by ApplyRelations, so both assignments are consistent. Inside
// the bytes both parameter blocks have in common (the word count itself left out) only the count
// field can differ.
func CountSlot(e Entry, fields map[string]json.RawMessage, r Relation) CountLoc {
	loc := CountLoc{Count: r.Count, Buffer: r.Buffer}
	c1, c2 := New(e), New(e)
	if err := Restore(c1, fields); err != nil {
		loc.Problem = err.Error()
		return loc
	}
	Restore(c2, fields)
	rv1, rv2 := reflect.ValueOf(c1).Elem(), reflect.ValueOf(c2).Elem()
	cnt := fieldByPath(rv1, r.Count)
	b1, b2 := fieldByPath(rv1, r.Buffer), fieldByPath(rv2, r.Buffer)
	if !cnt.IsValid() || !b1.IsValid() || b1.Kind() != reflect.Slice {
		loc.Problem = "relation names a field the structure does not have"
		return loc
	}
	loc.TypeWidth = FixedWidth(cnt.Type())
	if b1.Type().Elem().Kind() == reflect.Uint8 {
		loc.N1, loc.N2 = 0x0102, 0x0201
		if loc.TypeWidth < 2 {
			loc.N1, loc.N2 = 1, 2
		}
		b1.SetBytes(bytes41(loc.N1))
		b2.SetBytes(bytes41(loc.N2))
		// the Length of a string whose Buffer is the described buffer
		for _, rv := range []reflect.Value{rv1, rv2} {
			if i := lastDot(r.Buffer); i > 0 {
				Normalize(fieldByPath(rv, r.Buffer[:i]))
			}
		}
	} else {
		k := b1.Len()
		if k == 0 {
			loc.Problem = "no generated element to repeat"
			return loc
		}
		loc.N1, loc.N2 = k, k+1
		if loc.TypeWidth >= 2 {
			loc.N1, loc.N2 = 0x0102, 0x0201
		}
		grow := func(b reflect.Value, n int) {
			l := reflect.MakeSlice(b.Type(), n, n)
			for i := 0; i < n; i++ {
				l.Index(i).Set(b.Index(min(i, k-1)))
			}
			b.Set(l)
		}
		grow(b1, loc.N1)
		grow(b2, loc.N2)
	}
	ApplyRelations(c1)
	ApplyRelations(c2)
	enc1, err1 := safeMarshal(c1)
	enc2, err2 := safeMarshal(c2)
	if err1 != nil || err2 != nil || len(enc1) < 3 || len(enc2) < 3 {
		loc.Problem = fmt.Sprintf("does not encode: %v / %v", err1, err2)
		return loc
	}
	loc.Enc, loc.Enc2 = enc1, enc2
	end := 1 + 2*int(enc1[0])
	if e2 := 1 + 2*int(enc2[0]); e2 < end {
		end = e2
	}
	if end > len(enc1) || end > len(enc2) {
		loc.Problem = "word count exceeds the encoding"
		return loc
	}
	lo, hi := -1, -1
	for i := 1; i < end; i++ {
		if enc1[i] != enc2[i] {
			if lo < 0 {
				lo = i
			}
			hi = i
		}
	}
	if lo < 0 {
		loc.Problem = "no parameter byte changes with the buffer length"
		return loc
	}
	loc.Start, loc.Width = lo, hi-lo+1
	return loc
}

func bytes41(n int) []byte {
	b := make([]byte, n)
	for i := range b {
		b[i] = 0x41
	}
	return b
}

func lastDot(s string) int {
	for i := len(s) - 1; i >= 0; i-- {
		if s[i] == '.' {
			return i
		}
	}
	return -1
}

// Loc is where one own field was found in an encoding.
type Loc struct {
	Name string
	// "fixed" (marked), "count" (located through its buffer), "bytes" (content marked), "list" / "struct"
	// (lists of words or structures and structure-valued fields: every member marked, Start/Width are the
	// span of the bytes that change)
	Class        string
	Start, Width int
	TypeWidth    int // declared width (fixed, count), content length (bytes) or span (list, struct)
}

// Skip names an own field that has no comparable place in the base encoding, and why:
// "absent" (optional part that the base assignment leaves out), "not-emitted", "ill-defined" (changed
// bytes not contiguous or not as many as the type is wide), "empty" (byte field without content),
// "list-in-parameter-block" / "list-in-data-block" / "list-empty" (lists of words or structures are not
// marked), "count-not-located", "marshal-error", "other".
type Skip struct{ Name, Why string }

// Located is the result of Locate.
type Located struct {
	Locs     []Loc
	Skipped  []Skip
	Lists    []Skip // located lists, with the block they lie in ("list-in-parameter-block" / "list-in-data-block")
	ParamEnd int    // 1 + 2*WordCount of the base encoding
	Enc      []byte // the base encoding
}

func whyOf(kind string) string {
	switch kind {
	case "field-not-emitted":
		return "not-emitted"
	case "empty", "marshal-error":
		return kind
	}
	return "ill-defined"
}

// Locate finds every own field that can be located: fixed-width fields and byte fields by marking,
// count fields through the buffer they describe. ok is false when the assignment does not encode.
func Locate(e Entry, fields map[string]json.RawMessage) (out Located, ok bool) {
	cmd := New(e)
	if err := Restore(cmd, fields); err != nil {
		return out, false
	}
	base, err := safeMarshal(cmd)
	if err != nil || len(base) < 3 {
		return out, false
	}
	out.Enc, out.ParamEnd = base, 1+2*int(base[0])
	skip := func(n, why string) { out.Skipped = append(out.Skipped, Skip{n, why}) }
	for _, f := range OwnFields(cmd) {
		switch {
		case FixedWidth(f.Type) > 0 && IsCountField(e.Name, f.Name):
			found := false
			for _, r := range Relations[e.Name] {
				if r.Count != f.Name {
					continue
				}
				// comparable with the other slots if everything in front of the count is as in the base encoding
				if cl := CountSlot(e, fields, r); cl.Problem == "" && cl.Width <= cl.TypeWidth && cl.Start < len(base) && bytes.Equal(cl.Enc[1:cl.Start], base[1:cl.Start]) {
					out.Locs = append(out.Locs, Loc{f.Name, "count", cl.Start, cl.Width, cl.TypeWidth})
					found = true
				}
				break
			}
			if !found {
				skip(f.Name, "count-not-located")
			}
		case FixedWidth(f.Type) > 0:
			sl := Mark(e, fields, f.Name, nil)
			switch {
			case sl.ProblemKind != "":
				skip(f.Name, whyOf(sl.ProblemKind))
			case !sameShape(sl.Enc, base):
				skip(f.Name, "absent")
			case sl.Width != sl.TypeWidth:
				skip(f.Name, "ill-defined")
			default:
				out.Locs = append(out.Locs, Loc{f.Name, "fixed", sl.Start, sl.Width, sl.TypeWidth})
			}
		case IsByteField(f.Type):
			sl := MarkVar(e, fields, f.Name)
			switch {
			case sl.ProblemKind != "":
				skip(f.Name, whyOf(sl.ProblemKind))
			case !sameShape(sl.Enc, base):
				skip(f.Name, "ill-defined")
			default:
				out.Locs = append(out.Locs, Loc{f.Name, "bytes", sl.Start, sl.Width, sl.TypeWidth})
			}
		case f.Type.Kind() == reflect.Slice:
			// one more element: does the parameter block grow?
			c2 := New(e)
			Restore(c2, fields)
			l := reflect.ValueOf(c2).Elem().FieldByName(f.Name)
			if l.Len() == 0 {
				skip(f.Name, "list-empty")
				continue
			}
			l.Set(reflect.Append(l, l.Index(l.Len()-1)))
			ApplyRelations(c2)
			why := "list-in-data-block"
			switch enc2, err := safeMarshal(c2); {
			case err != nil || len(enc2) < 1:
				skip(f.Name, "marshal-error")
				continue
			case enc2[0] != base[0]:
				why = "list-in-parameter-block"
			}
			// where the list sits: every member of every element is marked (MarkDeep); the span of the bytes
			// that change is the list's place
			if sl := MarkDeep(e, fields, f.Name); sl.ProblemKind == "" && sameShape(sl.Enc, base) {
				out.Locs = append(out.Locs, Loc{f.Name, "list", sl.Start, sl.Width, sl.Width})
				out.Lists = append(out.Lists, Skip{f.Name, why})
			} else {
				skip(f.Name, why)
			}
		default:
			// a structure-valued field (resume key, dialect list): located by marking all of its members
			if sl := MarkDeep(e, fields, f.Name); sl.ProblemKind == "" && sameShape(sl.Enc, base) {
				out.Locs = append(out.Locs, Loc{f.Name, "struct", sl.Start, sl.Width, sl.Width})
			} else {
				skip(f.Name, "other")
			}
		}
	}
	return out, true
}

// FillBytes gives the variable-length byte field name a content of n bytes (a drawn unit of one to
// seven bytes repeated: what matters for long buffers is their length), NUL-free where the field's
// buffer format is NUL-terminated, and makes the count fields agree again.
func FillBytes(t *rapid.T, c Cmd, name string, n int) {
	v := reflect.ValueOf(c).Elem().FieldByName(name)
	if !v.IsValid() || !IsByteField(v.Type()) {
		return
	}
	unit := rapid.SliceOfN(rapid.Byte(), 1, 7).Draw(t, name+"Unit")
	b := make([]byte, n)
	for i := range b {
		b[i] = unit[i%len(unit)]
		if b[i] == 0 && NulFree(v) {
			b[i] = 0x41
		}
	}
	SetContent(v, b)
	ApplyRelations(c)
}

// DataByteFields lists the variable-length byte fields of a structure whose content lies in the data
// block (found by marking a one-byte content in an otherwise factory-fresh structure).
func DataByteFields(e Entry) (out []string) {
	cmd := New(e)
	rv := reflect.ValueOf(cmd).Elem()
	var names []string
	AdoptWireFormats(cmd)
	for _, f := range OwnFields(cmd) {
		if IsByteField(f.Type) {
			Normalize(rv.FieldByName(f.Name))
			SetContent(rv.FieldByName(f.Name), []byte{0x41})
			names = append(names, f.Name)
		}
	}
	ApplyRelations(cmd)
	fields := Snapshot(cmd)
	for _, n := range names {
		sl := MarkVar(e, fields, n)
		if sl.ProblemKind == "" && len(sl.Enc) > 0 && sl.Start >= 1+2*int(sl.Enc[0])+2 {
			out = append(out, n)
		}
	}
	return out
}

// ---- lists and structure-valued fields: located by marking all of their members ---------------------------------

// deepMark overwrites, at unchanged length and shape, every markable member below v: fixed-width members with
// a running byte pattern (variant false) or its complement (variant true), byte contents and strings with
// an upper-case / lower-case marker. It returns the number of bytes it marked.
func deepMark(v reflect.Value, variant bool, next *int) int {
	pat := func(w int) []byte {
		p := make([]byte, w)
		for i := range p {
			p[i] = byte(0x11 + (*next*7)%0xDD)
			*next++
			if variant {
				p[i] = ^p[i]
			}
		}
		return p
	}
	switch v.Type().String() {
	case "types.SMB_RESUME_KEY":
		// Reserved, ServerState and ClientState are the key; the embedded string is scratch space of the codec
		n := 0
		for _, f := range []string{"Reserved", "ServerState", "ClientState"} {
			n += deepMark(v.FieldByName(f), variant, next)
		}
		return n
	}
	if IsByteField(v.Type()) {
		n := len(Content(v))
		if n > 0 {
			SetContent(v, marker(n, !variant))
		}
		return n
	}
	if w := FixedWidth(v.Type()); w > 0 {
		SetPattern(v, pat(w))
		return w
	}
	switch v.Kind() {
	case reflect.String:
		n := v.Len()
		if n > 0 {
			v.SetString(string(marker(n, !variant)))
		}
		return n
	case reflect.Struct:
		n := 0
		for i := 0; i < v.NumField(); i++ {
			if v.Type().Field(i).IsExported() {
				n += deepMark(v.Field(i), variant, next)
			}
		}
		return n
	case reflect.Slice, reflect.Array:
		n := 0
		for i := 0; i < v.Len(); i++ {
			n += deepMark(v.Index(i), variant, next)
		}
		return n
	}
	return 0
}

// MarkDeep is Mark for a list of words or structures or a structure-valued field: every member below the field
// is overwritten (deepMark) in one copy and with values that differ in every byte in a second copy, lengths
// and element counts unchanged. Start/Width of the result are the span from the first to the last byte that
// differs between the two encodings (constant bytes inside the span - format bytes, terminators, padding - do
// not make it ill-defined); Got is nil.
func MarkDeep(e Entry, fields map[string]json.RawMessage, name string) Slot {
	c1, c2 := New(e), New(e)
	if err := Restore(c1, fields); err != nil {
		return Slot{Problem: err.Error(), ProblemKind: "bad-case"}
	}
	Restore(c2, fields)
	f1 := reflect.ValueOf(c1).Elem().FieldByName(name)
	f2 := reflect.ValueOf(c2).Elem().FieldByName(name)
	n1, n2 := 0, 0
	marked := deepMark(f1, false, &n1)
	deepMark(f2, true, &n2)
	if marked == 0 {
		return Slot{Problem: "nothing to mark below the field", ProblemKind: "empty"}
	}
	enc1, err1 := safeMarshal(c1)
	enc2, err2 := safeMarshal(c2)
	s := Slot{TypeWidth: marked, Enc: enc1}
	if err1 != nil || err2 != nil {
		s.Problem, s.ProblemKind = fmt.Sprintf("%v / %v", err1, err2), "marshal-error"
		return s
	}
	if len(enc1) != len(enc2) {
		s.Problem, s.ProblemKind = fmt.Sprintf("%d vs %d bytes", len(enc1), len(enc2)), "content-changes-message-length"
		return s
	}
	lo, hi := -1, -1
	for i := range enc1 {
		if enc1[i] != enc2[i] {
			if lo < 0 {
				lo = i
			}
			hi = i
		}
	}
	if lo < 0 {
		s.Problem, s.ProblemKind = "changing every member leaves the encoding unchanged", "field-not-emitted"
		return s
	}
	s.Start, s.Width = lo, hi-lo+1
	return s
}

// ---- adjacency: what follows a located field starts where that field ends --------------------------------------

// Gap names two fields that are adjacent in the declaration, lie in the same block and are both located,
// where the second does not start where the first ends: Next.Start != PrevEnd + Lead. Lead is what
// introduces the second field's content on the wire (the format byte of a NUL-terminated buffer-format
// string, format byte and 16-bit length of a length-prefixed one; 0 for everything else).
type Gap struct {
	Prev, Next Loc
	PrevEnd    int
	Lead       int
}

// stringFraming returns how many bytes of its own encoding precede and follow the content of the byte
// field v whose content was located at start in enc: (1, 1) for formats 0x02/0x04 when the format byte is
// there, (3, 0) for 0x01/0x05 and (3, 1) for 0x03 when format byte and length are there, (0, 0) for raw bytes
// and for a string that is emitted without that framing. Which format to look for is not asked of the
// structure after encoding (an encoder that decides the format need not write it back into the field):
// it is the format this command was seen to put in front of this field (wire; 0 = not known) or the one
// the field was given, whichever stands there.
func stringFraming(v reflect.Value, wire uint8, enc []byte, start int) (lead, trail int) {
	_, str, ok := content(v)
	if !ok || !str.IsValid() {
		return 0, 0
	}
	n := str.FieldByName("Buffer").Len()
	for _, f := range []byte{wire, byte(str.FieldByName("BufferFormat").Uint())} {
		switch f {
		case 2, 4:
			if start >= 1 && enc[start-1] == f {
				return 1, 1
			}
		case 1, 3, 5:
			if start >= 3 && enc[start-3] == f && enc[start-2] == byte(n) && enc[start-1] == byte(n>>8) {
				if f == 3 {
					return 3, 1
				}
				return 3, 0
			}
		}
	}
	return 0, 0
}

// Gaps lists the adjacent located pairs whose second field starts later than the first one ends (bytes that
// belong to no field). Pairs in which the second starts before the end of the first are order / overlap
// matters and are not listed. The first field of a pair is a fixed-width field, a count field or a byte
// field (its end: content end plus the terminator of its format); the second a fixed-width field, a count
// field or a byte field.
func Gaps(e Entry, fields map[string]json.RawMessage, l Located) (out []Gap) {
	cmd := New(e)
	if err := Restore(cmd, fields); err != nil {
		return nil
	}
	// several encoders set the buffer format of their strings themselves, whatever the field holds: the
	// framing is looked for on the wire (stringFraming), the structure is not encoded here
	rv := reflect.ValueOf(cmd).Elem()
	at := map[string]Loc{}
	for _, loc := range l.Locs {
		at[loc.Name] = loc
	}
	own := OwnFields(cmd)
	for i := 1; i < len(own); i++ {
		a, okA := at[own[i-1].Name]
		b, okB := at[own[i].Name]
		if !okA || !okB || !SameBlock(a.Start, b.Start, l.ParamEnd) {
			continue
		}
		end := 0
		switch a.Class {
		case "fixed", "count":
			end = a.Start + a.TypeWidth
		case "bytes":
			_, trail := stringFraming(rv.FieldByName(a.Name), WireFormat(e, a.Name), l.Enc, a.Start)
			end = a.Start + a.Width + trail
		default:
			continue
		}
		lead := 0
		slack := 0
		switch b.Class {
		case "fixed":
		case "count":
			// a count wider than the bytes that changed: they may be its low-order or its high-order end
			slack = b.TypeWidth - b.Width
		case "bytes":
			lead, _ = stringFraming(rv.FieldByName(b.Name), WireFormat(e, b.Name), l.Enc, b.Start)
		default:
			continue
		}
		if b.Start <= end+lead || (slack > 0 && b.Start == end+lead+slack) {
			continue
		}
		out = append(out, Gap{a, b, end, lead})
	}
	return out
}

// FillList gives the list-valued field name (words or structures) n generated elements and makes the count
// fields agree again.
func FillList(t *rapid.T, c Cmd, name string, n int, o Options) {
	v := reflect.ValueOf(c).Elem().FieldByName(name)
	if !v.IsValid() || v.Kind() != reflect.Slice || v.Type().Elem().Kind() == reflect.Uint8 {
		return
	}
	s := reflect.MakeSlice(v.Type(), n, n)
	for i := 0; i < n; i++ {
		fillValue(t, s.Index(i), o, fmt.Sprintf("%s%d", name, i))
	}
	v.Set(s)
	ApplyRelations(c)
}

// ListFields lists the own fields that are lists of words or structures.
func ListFields(c Cmd) (out []string) {
	for _, f := range OwnFields(c) {
		if f.Type.Kind() == reflect.Slice && f.Type.Elem().Kind() != reflect.Uint8 {
			out = append(out, f.Name)
		}
	}
	return out
}
