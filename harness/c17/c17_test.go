package c17

import (
	"fmt"
	"net"
	"runtime"
	"sort"
	"sync"
	"sync/atomic"
	"testing"
	"time"

	"github.com/anishathalye/porcupine"
	"pgregory.net/rapid"

	"github.com/TheManticoreProject/Manticore/network/netbios/nbtns"

	"manticoreverif/vf"
)

const P = "C17"

type seqCase struct {
	Ops     []op  `json:"ops"`
	NNames  int   `json:"names"`             // scan names 0..NNames-1 ...
	Scan    []int `json:"scan,omitempty"`    // ... or exactly these
	Secured bool  `json:"secured,omitempty"` // constructor argument
}

func (c seqCase) scanSet() []int {
	if len(c.Scan) > 0 {
		return c.Scan
	}
	s := make([]int, c.NNames)
	for i := range s {
		s[i] = i
	}
	return s
}

type kept struct {
	step  int
	slice []net.IP
	copy  []net.IP
}

func scan(tbl *nbtns.NetBIOSNameServer, set []int) (string, string) {
	var s string
	for _, k := range set {
		owners, typ, err := tbl.QueryName(names[k])
		if err != nil {
			s += fmt.Sprintf("%d=false//0;", k)
			continue
		}
		key, dup := ownersKey(owners)
		if dup {
			return s, fmt.Sprintf("%s has duplicate owners %v", nameString(k), owners)
		}
		if nbtns.NameType(typ) == nbtns.Unique && len(owners) != 1 {
			return s, fmt.Sprintf("unique name %s has %d owners %v", nameString(k), len(owners), owners)
		}
		s += fmt.Sprintf("%d=true/%s/%d;", k, key, typ)
	}
	return s, ""
}

// checkSequence runs the operations against a fresh table and the model and
// compares after every step: result class, a full scan, and every slice a
// Query has ever returned. The constructor's `secured` argument is documented only as "whether
// this is a secured NetBIOSNameServer" and the property makes no exception for it: the same model
// holds for both values.
func checkSequence(c seqCase) []vf.Finding {
	fs, _ := checkSequenceL(c)
	return fs
}

// checkSequenceL also returns labels of what the sequence reached (for the evidence).
func checkSequenceL(c seqCase) (fs []vf.Finding, labels []string) {
	tbl := nbtns.NewNetBIOSNameServer(c.Secured)
	set := c.scanSet()
	fail := func(f vf.Finding) ([]vf.Finding, []string) { return []vf.Finding{f}, nil }
	var big, openSweep bool
	cands := []state{{}}
	var keptSlices []kept
	for i, o := range c.Ops {
		res, owners := run(tbl, o)
		if owners != nil {
			cp := make([]net.IP, len(owners))
			for j, ip := range owners {
				cp[j] = append(net.IP{}, ip...)
			}
			keptSlices = append(keptSlices, kept{i, owners, cp})
		}
		// every candidate model state (more than one only after an undetermined outcome)
		var next []state
		for _, st := range cands {
			for _, out := range apply(st, o) {
				if out.Res == res {
					next = append(next, out.Next)
				}
			}
		}
		if len(next) == 0 {
			want := apply(cands[0], o)
			return fail(vf.F("NetBIOSNameServer."+o.Kind, "result-differs-from-atomic-map", "step %d %s returned %+v, the model allows %+v; history: %s", i, o, res, want[0].Res, seqString(c.Ops[:i+1])))
		}
		got, inv := scan(tbl, set)
		if inv != "" {
			return fail(vf.F("NetBIOSNameServer."+o.Kind, "ownership-invariant-broken", "after step %d %s: %s; history: %s", i, o, inv, seqString(c.Ops[:i+1])))
		}
		var match []state
		seen := map[string]bool{}
		for _, st := range next {
			if st.visible(set) == got && !seen[st.key()] {
				seen[st.key()] = true
				match = append(match, st)
			}
		}
		if len(match) == 0 {
			return fail(vf.F("NetBIOSNameServer."+o.Kind, "table-differs-from-atomic-map", "after step %d %s: scan %s, model %s; history: %s", i, o, got, next[0].visible(set), seqString(c.Ops[:i+1])))
		}
		switch {
		case o.Kind == "reg" && len(match[0][o.Name].Owners) > 8:
			big = true
		case o.Kind == "clean" && len(next) > 1:
			openSweep = true
		}
		cands = match
		// results already returned never change
		for _, k := range keptSlices {
			for j := range k.copy {
				if !k.slice[j].Equal(k.copy[j]) || len(k.slice) != len(k.copy) {
					return fail(vf.F("NetBIOSNameServer.QueryName", "returned-slice-changed-by-later-update", "result of step %d changed after step %d %s: was %v now %v; history: %s", k.step, i, o, k.copy, k.slice, seqString(c.Ops[:i+1])))
				}
			}
		}
	}
	// mutating a returned slice must not reach the table
	if len(keptSlices) > 0 {
		before, _ := scan(tbl, set)
		for _, k := range keptSlices {
			for j := range k.slice {
				k.slice[j] = addrs[5]
			}
		}
		after, _ := scan(tbl, set)
		if before != after {
			return fail(vf.F("NetBIOSNameServer.QueryName", "returned-slice-aliases-table", "overwriting returned slices changed the table: %s -> %s; history: %s", before, after, seqString(c.Ops)))
		}
	}
	if c.Secured {
		labels = append(labels, "secured")
	}
	if big {
		labels = append(labels, "group-with-more-than-8-owners")
	}
	if openSweep {
		labels = append(labels, "sweep-with-undetermined-expiry")
	}
	return nil, labels
}

// alphabet of the exhaustive enumeration over a pair of names and three addresses. The TTL of a
// registration is a function of (name position, address): the first name never expires (address 0
// registers it for 1000h, the others for 1h: an expiry much nearer than the record's refresh
// interval is still ahead); the second name is registered 1h ahead by address 0 and 1h in the past
// by the second address (a table may refuse that as invalid input; expired at the next sweep as long
// as only that address registered it) and for one nanosecond by the third (a table may round a
// time-to-live up to its granularity: what a sweep does with such a record is left open, as it is
// once registrations with TTLs pointing both ways have met on a record).
func alphabet(pair [2]int, ips []int) []op {
	ttl := [2][]int{{3, 1, 1}, {1, 2, 4}}
	var a []op
	for pos, n := range pair {
		for t := 0; t < 2; t++ {
			for i, ip := range ips {
				a = append(a, op{Kind: "reg", Name: n, Type: t, IP: ip, TTL: ttl[pos][i%3]})
			}
		}
		a = append(a, op{Kind: "query", Name: n})
		for _, ip := range ips {
			a = append(a, op{Kind: "rel", Name: n, IP: ip}, op{Kind: "refresh", Name: n, IP: ip})
		}
		a = append(a, op{Kind: "conflict", Name: n})
	}
	return append(a, op{Kind: "clean"})
}

func seqNontrivial(c seqCase) bool {
	reg := map[int]bool{}
	for _, o := range c.Ops {
		if o.Kind == "reg" {
			reg[o.Name] = true
		}
		if (o.Kind == "rel" || o.Kind == "conflict" || o.Kind == "clean") && (reg[o.Name] || (o.Kind == "clean" && len(reg) > 0)) {
			return true
		}
	}
	return false
}

// allSequences yields every sequence of 1..depth calls over the alphabet.
func allSequences(alpha []op, depth int, yield func([]op)) {
	idx := make([]int, depth)
	for d := 1; d <= depth; d++ {
		for i := range idx[:d] {
			idx[i] = 0
		}
		for {
			ops := make([]op, d)
			for i := 0; i < d; i++ {
				ops[i] = alpha[idx[i]]
			}
			yield(ops)
			i := d - 1
			for i >= 0 {
				idx[i]++
				if idx[i] < len(alpha) {
					break
				}
				idx[i] = 0
				i--
			}
			if i < 0 {
				break
			}
		}
	}
}

func TestSeqExhaustive(t *testing.T) {
	s := vf.Begin(t, P, "seq-exhaustive")
	s.SetExhaustive()
	depth := vf.Size(4, 5)
	pairs := [][2]int{{0, 1}, {5, 6}, {6, 7}}
	// other address triples: three distinct IPv6 owners; an IPv4 address, its IPv4-mapped 16-byte
	// form (the same owner to net.IP.Equal) and an IPv6 address
	otherIPs := [][]int{ipsV6, {0, 19, 16}}
	s.Note("all sequences of length 1..%d over %d distinct calls (2 names x {Unique,Group} x 3 addresses, TTL by name and address) on an unsecured table; all of length 1..%d for both constructor values and %d name pairs (short names; 16-byte names differing only in the suffix byte, only in padding) and for %d further address triples (IPv6 owners; IPv4, IPv4-mapped and IPv6)", depth, len(alphabet(pairs[0], ipsV4)), depth-1, len(pairs), len(otherIPs))
	vf.Enum(s, func(yield func(seqCase)) {
		allSequences(alphabet(pairs[0], ipsV4), depth, func(ops []op) { yield(seqCase{Ops: ops, Scan: pairs[0][:]}) })
		for i, p := range pairs {
			for _, secured := range []bool{false, true} {
				if i == 0 && !secured {
					continue // covered by the deeper enumeration above
				}
				p := p
				allSequences(alphabet(p, ipsV4), depth-1, func(ops []op) { yield(seqCase{Ops: ops, Scan: p[:], Secured: secured}) })
			}
		}
		for _, ips := range otherIPs {
			allSequences(alphabet(pairs[0], ips), depth-1, func(ops []op) { yield(seqCase{Ops: ops, Scan: pairs[0][:]}) })
		}
	}, checkSequence, seqNontrivial)
}

// genOp draws one call over the given names and addresses. With ttls, a registration carries a TTL of
// its own (past, one nanosecond, ahead, far ahead) instead of the per-name default.
func genOp(t *rapid.T, set []int, ips []int, ttls bool) op {
	n := set[rapid.IntRange(0, len(set)-1).Draw(t, "name")]
	ip := ips[rapid.IntRange(0, len(ips)-1).Draw(t, "ip")]
	switch rapid.IntRange(0, 11).Draw(t, "kind") {
	case 0, 1, 2, 3:
		o := op{Kind: "reg", Name: n, Type: rapid.IntRange(0, 1).Draw(t, "type"), IP: ip}
		if ttls {
			o.TTL = rapid.SampledFrom([]int{0, 0, 1, 2, 3, 4}).Draw(t, "ttl")
		}
		return o
	case 4, 5:
		return op{Kind: "query", Name: n}
	case 6, 7:
		return op{Kind: "rel", Name: n, IP: ip}
	case 8:
		return op{Kind: "refresh", Name: n, IP: ip}
	case 9:
		return op{Kind: "conflict", Name: n}
	case 10:
		return op{Kind: "clean"}
	}
	return op{Kind: "query", Name: n}
}

func TestSeqRandom(t *testing.T) {
	s := vf.Begin(t, P, "seq-random")
	vf.Rapid(s, vf.N(5000, 80000), func(t *rapid.T) seqCase {
		n := rapid.IntRange(20, 200).Draw(t, "len")
		// 2..6 of the names (few names: long histories per name and large groups; the similar
		// 16-byte names 5..7 are as likely as the short ones); three IPv4 addresses, the first six,
		// three IPv6 ones, a mix of IPv4 (both forms) and IPv6, or all addresses
		all := rapid.Permutation([]int{0, 1, 2, 3, 4, 5, 6, 7}).Draw(t, "names")
		set := append([]int{}, all[:rapid.IntRange(2, 6).Draw(t, "nnames")]...)
		sort.Ints(set)
		ips := rapid.SampledFrom([][]int{ipsV4, ipsSix, ipsSix, ipsV6, ipsMixed, ipsAll}).Draw(t, "ips")
		ops := make([]op, n)
		for i := range ops {
			ops[i] = genOp(t, set, ips, true)
		}
		return seqCase{Ops: ops, Scan: set, Secured: rapid.Bool().Draw(t, "secured")}
	}, func(c seqCase) []vf.Finding {
		fs, labels := checkSequenceL(c)
		s.Class(labels...)
		return fs
	}, seqNontrivial)
}

// ---- concurrent programs, judged by linearizability against the same model -----------------------------

type progCase struct {
	Threads [][]op `json:"threads"`
	Yield   []bool `json:"yield_before"` // Gosched injection, consumed round-robin
	Procs   int    `json:"gomaxprocs"`
	Secured bool   `json:"secured,omitempty"`
}

type call struct {
	Op  op
	Res result
}

var modelNNames = 3

// The model is not deterministic (a sweep of a name whose expiry is undetermined, a registration over a
// conflict-marked name have several admissible next states for one result): every one of them is
// followed (power-set construction).
var pmodel = (&porcupine.NondeterministicModel{
	Init: func() []interface{} { return []interface{}{state{}} },
	Step: func(st, in, out interface{}) []interface{} {
		var next []interface{}
		for _, o := range apply(st.(state), in.(op)) {
			if o.Res == out.(result) {
				next = append(next, o.Next)
			}
		}
		return next
	},
	Equal: func(a, b interface{}) bool { return a.(state).key() == b.(state).key() },
	DescribeOperation: func(in, out interface{}) string {
		return fmt.Sprintf("%s -> %+v", in.(op), out.(result))
	},
}).ToModel()

func runProgram(c progCase) (hist []porcupine.Operation, dupInv string) {
	tbl := nbtns.NewNetBIOSNameServer(c.Secured)
	var clock int64
	var mu sync.Mutex
	var wg sync.WaitGroup
	start := make(chan struct{})
	yi := int64(0)
	for tid, th := range c.Threads {
		wg.Add(1)
		go func(tid int, th []op) {
			defer wg.Done()
			<-start
			for _, o := range th {
				if len(c.Yield) > 0 && c.Yield[int(atomic.AddInt64(&yi, 1))%len(c.Yield)] {
					runtime.Gosched()
				}
				callT := atomic.AddInt64(&clock, 1)
				res, owners := run(tbl, o)
				retT := atomic.AddInt64(&clock, 1)
				inv := ""
				if owners != nil {
					if _, dup := ownersKey(owners); dup {
						inv = fmt.Sprintf("%s returned duplicate owners %v", o, owners)
					}
					if res.Type == 0 && len(owners) != 1 {
						inv = fmt.Sprintf("%s: unique name with %d owners", o, len(owners))
					}
				}
				mu.Lock()
				hist = append(hist, porcupine.Operation{ClientId: tid, Input: o, Call: callT, Output: res, Return: retT})
				if inv != "" {
					dupInv = inv
				}
				mu.Unlock()
			}
		}(tid, th)
	}
	close(start)
	wg.Wait()
	// final scan, sequentially after everything: must agree with some linearization
	for k := 0; k < modelNNames; k++ {
		o := op{Kind: "query", Name: k}
		callT := atomic.AddInt64(&clock, 1)
		res, _ := run(tbl, o)
		retT := atomic.AddInt64(&clock, 1)
		hist = append(hist, porcupine.Operation{ClientId: len(c.Threads), Input: o, Call: callT, Output: res, Return: retT})
	}
	return
}

var concRuns int64

func checkProgram(c progCase) []vf.Finding {
	runs := vf.Size(20, 300) // per program; the number of programs is what the tier scales
	for r := 0; r < runs; r++ {
		procs := []int{2, 4, 16}[r%3]
		if c.Procs > 0 {
			procs = c.Procs
		}
		old := runtime.GOMAXPROCS(procs)
		hist, inv := runProgram(c)
		runtime.GOMAXPROCS(old)
		atomic.AddInt64(&concRuns, 1)
		if inv != "" {
			return []vf.Finding{vf.F("NetBIOSNameServer", "ownership-invariant-broken", "%s (run %d, GOMAXPROCS %d)", inv, r, procs)}
		}
		if res := porcupine.CheckOperations(pmodel, hist); !res {
			var lines []string
			for _, h := range hist {
				lines = append(lines, fmt.Sprintf("[t%d %d-%d] %s -> %+v", h.ClientId, h.Call, h.Return, h.Input.(op), h.Output.(result)))
			}
			return []vf.Finding{vf.F("NetBIOSNameServer", "history-not-linearizable", "run %d GOMAXPROCS %d: %v", r, procs, lines)}
		}
	}
	return nil
}

func TestConcurrentLinearizable(t *testing.T) {
	s := vf.Begin(t, P, "concurrent-linearizable")
	vf.Rapid(s, vf.N(150, 600), func(t *rapid.T) progCase {
		nt := rapid.IntRange(2, 4).Draw(t, "threads")
		c := progCase{}
		// most programs fight over one or two names; four addresses: IPv4 only, or IPv6 owners next to
		// one IPv4 address, or one IPv4 address in its three forms. Every registration carries a TTL of
		// its own, so that a name that is expired at one moment can be live at the next (released and
		// registered again, refreshed) while a sweep is running.
		nn := rapid.SampledFrom([]int{1, 2, 2, 3}).Draw(t, "names")
		ips := rapid.SampledFrom([][]int{{0, 1, 2, 3}, {0, 1, 2, 3}, {5, 16, 17, 0}, {0, 19, 1, 16}}).Draw(t, "ips")
		for i := 0; i < nt; i++ {
			k := rapid.IntRange(3, 8).Draw(t, "ops")
			th := make([]op, k)
			for j := range th {
				th[j] = genOp(t, []int{0, 1, 2}[:nn], ips, true)
			}
			c.Threads = append(c.Threads, th)
		}
		c.Yield = rapid.SliceOfN(rapid.Bool(), 1, 16).Draw(t, "yield")
		c.Secured = rapid.Bool().Draw(t, "secured")
		return c
	}, checkProgram, func(c progCase) bool {
		touched := map[int]int{}
		for tid, th := range c.Threads {
			seen := map[int]bool{}
			for _, o := range th {
				if o.Kind != "clean" && !seen[o.Name] {
					seen[o.Name] = true
					touched[o.Name]++
				}
			}
			_ = tid
		}
		for _, n := range touched {
			if n >= 2 {
				return true
			}
		}
		return false
	})
	s.Count("program-executions", atomic.LoadInt64(&concRuns))
}

// a fixed stress: many goroutines (distinct addresses) registering/releasing/querying one group name and
// one unique name, and holding a second group name throughout. The race detector, the result of every
// call and the invariants are the oracle (no linearizability check: the history is too long for it).
// What each goroutine may conclude locally, whatever the others do:
//   - registering a group name as a group succeeds (the name is absent or a group at all times);
//   - between its own registration and its own release it is an owner: Query succeeds and lists it,
//     Refresh and Release by it succeed;
//   - it holds the unique name iff its Register succeeded, and then until its own Release: Query shows
//     exactly it, its Release succeeds; otherwise its Release fails (someone else, or nobody, holds it);
//   - at the end the held group's owners are exactly the addresses that registered it (more than 8).
func TestRaceStress(t *testing.T) {
	s := vf.Begin(t, P, "race-stress")
	type sc struct {
		Goroutines int  `json:"goroutines"`
		Rounds     int  `json:"rounds"`
		Secured    bool `json:"secured,omitempty"`
	}
	vf.Enum(s, func(yield func(sc)) {
		yield(sc{4, vf.N(400, 5000), false})
		yield(sc{16, vf.N(200, 3000), false})
		yield(sc{12, vf.N(100, 1500), true})
	}, func(c sc) []vf.Finding {
		tbl := nbtns.NewNetBIOSNameServer(c.Secured)
		var wg sync.WaitGroup
		var bad atomic.Value
		fail := func(kind, format string, a ...any) {
			bad.CompareAndSwap(nil, vf.F("NetBIOSNameServer", kind, format, a...))
		}
		contains := func(owners []net.IP, ip net.IP) bool {
			for _, o := range owners {
				if o.Equal(ip) {
					return true
				}
			}
			return false
		}
		ipOf := func(g int) net.IP { return net.IPv4(10, 1, byte(g), 1).To4() }
		for g := 0; g < c.Goroutines; g++ {
			wg.Add(1)
			go func(g int) {
				defer wg.Done()
				ip := ipOf(g)
				if err := tbl.RegisterName("KEEP", nbtns.Group, ip, time.Hour); err != nil {
					fail("group-registration-refused", "Register(KEEP, Group, %v) = %v with %d goroutines registering", ip, err, c.Goroutines)
				}
				for r := 0; r < c.Rounds && bad.Load() == nil; r++ {
					if err := tbl.RegisterName("GRP", nbtns.Group, ip, time.Hour); err != nil {
						fail("group-registration-refused", "Register(GRP, Group, %v) = %v (round %d)", ip, err, r)
					}
					holds := tbl.RegisterName("UNQ", nbtns.Unique, ip, time.Hour) == nil
					for _, name := range []string{"GRP", "KEEP"} {
						owners, typ, err := tbl.QueryName(name)
						if err != nil || typ != nbtns.Group || !contains(owners, ip) {
							fail("member-missing-from-query", "Query(%s) = %v, %v, %v while %v is registered (round %d)", name, owners, typ, err, ip, r)
							continue
						}
						seen := map[string]bool{}
						for _, o := range owners {
							if seen[o.String()] {
								fail("ownership-invariant-broken", "duplicate owner %v in %v", o, owners)
							}
							seen[o.String()] = true
						}
						owners[0] = nil // scribble on our copy
					}
					owners, typ, err := tbl.QueryName("UNQ")
					if err == nil && (len(owners) != 1 || typ != nbtns.Unique) {
						fail("ownership-invariant-broken", "unique name with owners %v type %v", owners, typ)
					}
					if holds && (err != nil || !contains(owners, ip)) {
						fail("unique-name-lost-while-held", "Query(UNQ) = %v, %v after %v registered it and before it released it (round %d)", owners, err, ip, r)
					}
					if err := tbl.RefreshName("GRP", ip); err != nil {
						fail("refresh-by-member-refused", "Refresh(GRP, %v) = %v (round %d)", ip, err, r)
					}
					if err := tbl.ReleaseName("UNQ", ip); (err == nil) != holds {
						fail("unique-release-differs-from-holding", "Release(UNQ, %v) = %v, Register had succeeded: %v (round %d)", ip, err, holds, r)
					}
					if err := tbl.ReleaseName("GRP", ip); err != nil {
						fail("release-by-member-refused", "Release(GRP, %v) = %v (round %d)", ip, err, r)
					}
					if r%50 == 0 {
						tbl.CleanExpiredNames()
					}
				}
			}(g)
		}
		wg.Wait()
		if v := bad.Load(); v != nil {
			return []vf.Finding{v.(vf.Finding)}
		}
		if _, _, err := tbl.QueryName("GRP"); err == nil {
			return []vf.Finding{vf.F("NetBIOSNameServer", "group-not-deleted-after-last-release", "GRP still present after every goroutine released it")}
		}
		owners, _, err := tbl.QueryName("KEEP")
		if err != nil || len(owners) != c.Goroutines {
			return []vf.Finding{vf.F("NetBIOSNameServer", "group-owners-differ-from-registrants", "KEEP was registered by %d addresses and released by none: Query = %v, %v", c.Goroutines, owners, err)}
		}
		for g := 0; g < c.Goroutines; g++ {
			if !contains(owners, ipOf(g)) {
				return []vf.Finding{vf.F("NetBIOSNameServer", "group-owners-differ-from-registrants", "KEEP lacks registrant %v: %v", ipOf(g), owners)}
			}
		}
		for g := 0; g < c.Goroutines; g++ {
			if err := tbl.ReleaseName("KEEP", ipOf(g)); err != nil {
				return []vf.Finding{vf.F("NetBIOSNameServer", "release-by-member-refused", "Release(KEEP, %v) = %v", ipOf(g), err)}
			}
		}
		if _, _, err := tbl.QueryName("KEEP"); err == nil {
			return []vf.Finding{vf.F("NetBIOSNameServer", "group-not-deleted-after-last-release", "KEEP still present after every registrant released it")}
		}
		return nil
	}, nil)
}

// a fixed stress around the expiry sweep: sweeper goroutines call CleanExpiredNames in a loop while each
// worker goroutine registers, releases and re-registers a name that nobody else touches (its own name,
// its own address; some as a unique name, some as a one-member group). No linearizability check: what
// a worker may conclude locally, whatever the sweepers and the other workers do:
//   - at the start of a round its name is absent, so a registration with a valid TTL succeeds (one with
//     a negative TTL may be refused);
//   - a name registered with an expiry in the past may or may not have been swept when the worker
//     releases it: either result, and the name is absent afterwards either way;
//   - the name is then registered for an hour: from that call until the worker's own release it is an
//     active, unexpired name that no sweep may remove: Query returns exactly the worker's address,
//     Refresh and Release by it succeed.
func TestSweepStress(t *testing.T) {
	s := vf.Begin(t, P, "sweep-stress")
	type sc struct {
		Workers  int  `json:"workers"`
		Sweepers int  `json:"sweepers"`
		Rounds   int  `json:"rounds"`
		Secured  bool `json:"secured,omitempty"`
	}
	vf.Enum(s, func(yield func(sc)) {
		yield(sc{2, 1, vf.N(3000, 40000), false})
		yield(sc{6, 2, vf.N(1500, 20000), false})
		yield(sc{12, 3, vf.N(600, 8000), true})
	}, func(c sc) []vf.Finding {
		tbl := nbtns.NewNetBIOSNameServer(c.Secured)
		var wg, sw sync.WaitGroup
		var bad atomic.Value
		var done int32
		fail := func(kind, format string, a ...any) {
			bad.CompareAndSwap(nil, vf.F("NetBIOSNameServer", kind, format, a...))
		}
		for i := 0; i < c.Sweepers; i++ {
			sw.Add(1)
			go func() {
				defer sw.Done()
				for atomic.LoadInt32(&done) == 0 {
					tbl.CleanExpiredNames()
					runtime.Gosched()
				}
			}()
		}
		for g := 0; g < c.Workers; g++ {
			wg.Add(1)
			go func(g int) {
				defer wg.Done()
				ip := net.IPv4(10, 2, byte(g), 1).To4()
				if g%3 == 2 {
					ip = net.ParseIP(fmt.Sprintf("fe80::%x", g+1))
				}
				name := fmt.Sprintf("WORKER-%02d", g)
				typ := nbtns.NameType(g % 2)
				for r := 0; r < c.Rounds && bad.Load() == nil; r++ {
					past := []time.Duration{time.Nanosecond, -time.Hour}[r%2]
					err := tbl.RegisterName(name, typ, ip, past)
					if err != nil && past >= 0 {
						fail("registration-of-absent-name-refused", "Register(%s, %v, %v, %v) = %v although the name was absent (round %d)", name, typ, ip, past, err, r)
					}
					registered := err == nil
					settle()
					if err := tbl.ReleaseName(name, ip); err == nil && !registered {
						fail("release-of-absent-name-succeeds", "Release(%s, %v) succeeded although the registration had been refused (round %d)", name, ip, r)
					}
					if err := tbl.RegisterName(name, typ, ip, time.Hour); err != nil {
						fail("registration-of-absent-name-refused", "Register(%s, %v, %v, 1h) = %v after the name had been released or swept (round %d)", name, typ, ip, err, r)
						continue
					}
					owners, qt, err := tbl.QueryName(name)
					if err != nil || qt != typ || len(owners) != 1 || !owners[0].Equal(ip) {
						fail("live-name-lost-to-sweep", "Query(%s) = %v, %v, %v right after %v registered it for an hour, with %d goroutines sweeping expired names (round %d)", name, owners, qt, err, ip, c.Sweepers, r)
					}
					if err := tbl.RefreshName(name, ip); err != nil {
						fail("live-name-lost-to-sweep", "Refresh(%s, %v) = %v while %v holds the name for an hour (round %d)", name, ip, err, ip, r)
					}
					if err := tbl.ReleaseName(name, ip); err != nil {
						fail("live-name-lost-to-sweep", "Release(%s, %v) = %v while %v holds the name for an hour (round %d)", name, ip, err, ip, r)
					}
				}
			}(g)
		}
		wg.Wait()
		atomic.StoreInt32(&done, 1)
		sw.Wait()
		if v := bad.Load(); v != nil {
			return []vf.Finding{v.(vf.Finding)}
		}
		return nil
	}, nil)
}

// ---- expiry in real time ---------------------------------------------------------------------------------
//
// Everything above keeps the clock out of the oracle by using TTLs of hours. What that cannot see: a call
// that is REFUSED (a refresh or a release by an address that does not hold the name, a conflicting
// registration) or that only reads (a query) and yet moves the expiry of the record, and a successful refresh
// that does not move it. In the model a refused call leaves the table as it was, expiry included, and a record
// whose expiry lies hours back with a refresh interval of hours ahead never arises from registrations with
// hour-sized TTLs. Here a name is registered for three seconds on a table of its own, the call is made 2.5 s
// later, and the table is swept two good seconds after the three seconds are over:
//   - the name must then be gone (a sweep "removes names that have exceeded their TTL") and free for another
//     address, whatever refused or read-only call was made in between;
//   - a refresh by the owner at 2.5 s must keep the name through a sweep at 3.3 s.
// Soundness under load: the harness only sleeps at least as long as needed and judges by clock readings taken
// around the calls. "Must be gone" is asserted at a moment that is later than registration return + TTL + 2 s (the
// two extra seconds allow a table that rounds the expiry up to the protocol's granularity of one second when it
// stores it and compares against a clock truncated to the second when it sweeps); "must still be there" only if
// the clock read after the query is still below (clock read before the refresh) + TTL, and the outcome of a call
// that needs a live name only if the clock read after it is below (clock read before the registration) + TTL. A
// case that comes too late for its window is counted as "late" and not judged.

const expTTL = 3 * time.Second

type expCase struct {
	Type    int    `json:"type"` // 0 unique, 1 group
	Op      string `json:"call_at_2.5s"`
	Variant int    `json:"variant"` // 0: IPv4 addresses, unsecured table; 1: IPv6 owner, secured table
	Round   int    `json:"round"`
}

var expOps = []string{"none", "query", "refresh-by-non-owner", "release-by-non-owner", "conflicting-registration", "other-type-registration", "refresh-by-owner"}

func sleepUntil(t time.Time) {
	for d := time.Until(t); d > 0; d = time.Until(t) {
		time.Sleep(d)
	}
}

func runExpiry(c expCase, late *int32) []vf.Finding {
	tbl := nbtns.NewNetBIOSNameServer(c.Variant == 1)
	owner, other := net.IPv4(10, 9, 0, 1).To4(), net.IPv4(10, 9, 0, 2).To4()
	if c.Variant == 1 {
		owner = net.ParseIP("fe80::9:1")
	}
	typ := nbtns.NameType(c.Type)
	name := "EXPIRY"
	tn := []string{"Unique", "Group"}[c.Type]
	isOwner := func(owners []net.IP, qt nbtns.NameType, err error, ip net.IP, t nbtns.NameType) bool {
		return err == nil && qt == t && len(owners) == 1 && owners[0].Equal(ip)
	}
	t0 := time.Now()
	if err := tbl.RegisterName(name, typ, owner, expTTL); err != nil {
		return []vf.Finding{vf.F("RegisterName", "registration-of-absent-name-refused", "Register(%s, %s, %v, %v) on an empty table: %v", name, tn, owner, expTTL, err)}
	}
	t1 := time.Now()
	// a sweep at half-time keeps a live name
	sleepUntil(t1.Add(500 * time.Millisecond))
	tbl.CleanExpiredNames()
	owners, qt, err := tbl.QueryName(name)
	if time.Now().Before(t0.Add(expTTL)) {
		if !isOwner(owners, qt, err, owner, typ) {
			return []vf.Finding{vf.F("CleanExpiredNames", "live-name-removed-by-sweep", "%s name registered for %v, swept %v after the registration: Query = %v, %v, %v", tn, expTTL, time.Since(t0).Round(time.Millisecond), owners, qt, err)}
		}
	} else {
		atomic.AddInt32(late, 1)
	}
	sleepUntil(t1.Add(expTTL - 500*time.Millisecond))
	tb := time.Now()
	var opErr error
	subject := "CleanExpiredNames"
	switch c.Op {
	case "query":
		subject = "QueryName"
		owners, qt, opErr = tbl.QueryName(name)
	case "refresh-by-non-owner":
		subject = "RefreshName"
		opErr = tbl.RefreshName(name, other)
	case "release-by-non-owner":
		subject = "ReleaseName"
		opErr = tbl.ReleaseName(name, other)
	case "conflicting-registration":
		subject = "RegisterName"
		opErr = tbl.RegisterName(name, nbtns.Unique, other, time.Hour)
	case "other-type-registration":
		subject = "RegisterName"
		opErr = tbl.RegisterName(name, nbtns.NameType(1-c.Type), other, time.Hour)
	case "refresh-by-owner":
		subject = "RefreshName"
		opErr = tbl.RefreshName(name, owner)
	}
	ta := time.Now()
	certainlyLive := ta.Before(t0.Add(expTTL))
	if !certainlyLive {
		atomic.AddInt32(late, 1)
	}
	switch c.Op {
	case "query":
		if certainlyLive && !isOwner(owners, qt, opErr, owner, typ) {
			return []vf.Finding{vf.F(subject, "live-name-not-reported", "Query %v after %v registered the %s name for %v: %v, %v, %v", ta.Sub(t0).Round(time.Millisecond), owner, tn, expTTL, owners, qt, opErr)}
		}
	case "refresh-by-non-owner", "release-by-non-owner":
		if opErr == nil {
			return []vf.Finding{vf.F(subject, "call-by-non-owner-succeeds", "%s of the %s name held by %v, called for %v, returned no error", c.Op, tn, owner, other)}
		}
	case "conflicting-registration", "other-type-registration":
		if opErr == nil {
			if certainlyLive {
				return []vf.Finding{vf.F(subject, "conflicting-registration-accepted", "%s for %v accepted %v after %v registered the %s name for %v", c.Op, other, ta.Sub(t0).Round(time.Millisecond), owner, tn, expTTL)}
			}
			return nil // too late to know whether the name was still held: nothing further to judge
		}
	case "refresh-by-owner":
		if opErr != nil {
			if certainlyLive {
				return []vf.Finding{vf.F(subject, "refresh-by-owner-refused", "Refresh(%s, %v) %v after %v registered the %s name for %v: %v", name, owner, ta.Sub(t0).Round(time.Millisecond), owner, tn, expTTL, opErr)}
			}
			return nil
		}
		// the refresh moved the expiry to (some moment not before tb) + refresh interval: a sweep after the
		// old expiry keeps the name
		sleepUntil(t1.Add(expTTL + 300*time.Millisecond))
		tbl.CleanExpiredNames()
		owners, qt, err := tbl.QueryName(name)
		if now := time.Now(); now.Before(tb.Add(expTTL)) {
			if !isOwner(owners, qt, err, owner, typ) {
				return []vf.Finding{vf.F(subject, "refreshed-name-expires-at-old-ttl", "%s name registered for %v, refreshed by its owner after %v, swept %v after the registration (%v after the refresh): Query = %v, %v, %v", tn, expTTL, tb.Sub(t0).Round(time.Millisecond), now.Sub(t0).Round(time.Millisecond), now.Sub(tb).Round(time.Millisecond), owners, qt, err)}
			}
		} else {
			atomic.AddInt32(late, 1)
		}
		return nil
	}
	// the three seconds (and two more) are over: the sweep removes the name, whatever was called at 2.5 s
	sleepUntil(t1.Add(expTTL + 2*time.Second + 50*time.Millisecond))
	tbl.CleanExpiredNames()
	if owners, qt, err := tbl.QueryName(name); err == nil {
		kind := "refused-call-extends-lifetime"
		if c.Op == "none" {
			kind = "expired-name-kept-by-sweep"
		} else if c.Op == "query" {
			kind = "query-extends-lifetime"
		}
		return []vf.Finding{vf.F(subject, kind, "%s name registered by %v for %v; call at %v: %s (result: %v); swept %v after the registration: Query still gives %v, %v", tn, owner, expTTL, tb.Sub(t0).Round(time.Millisecond), c.Op, opErr, time.Since(t0).Round(time.Millisecond), owners, qt)}
	}
	if err := tbl.RegisterName(name, nbtns.Unique, other, time.Hour); err != nil {
		return []vf.Finding{vf.F("RegisterName", "name-not-free-after-expiry", "after the %s name of %v expired and was swept (call at 2.5 s: %s), Register(Unique, %v) = %v", tn, owner, c.Op, other, err)}
	}
	if owners, qt, err := tbl.QueryName(name); !isOwner(owners, qt, err, other, nbtns.Unique) {
		return []vf.Finding{vf.F("RegisterName", "name-not-free-after-expiry", "after the %s name of %v expired and was swept (call at 2.5 s: %s) and %v registered it: Query = %v, %v, %v", tn, owner, c.Op, other, owners, qt, err)}
	}
	return nil
}

func TestExpiryRealTime(t *testing.T) {
	s := vf.Begin(t, P, "expiry-real-time")
	var cases []expCase
	for r := 0; r < vf.Size(1, 3); r++ {
		for typ := 0; typ < 2; typ++ {
			for _, op := range expOps {
				for v := 0; v < 2; v++ {
					cases = append(cases, expCase{typ, op, v, r})
				}
			}
		}
	}
	// every case has a table of its own and sleeps most of the time: all of them run at once (sharded runs: the
	// cases of this shard are computed when they are asked for)
	var late int32
	results := make([][]vf.Finding, len(cases))
	index := map[expCase]int{}
	_, shards := vf.Shard()
	if shards <= 1 && !vf.Replaying() {
		var wg sync.WaitGroup
		for i, c := range cases {
			index[c] = i
			wg.Add(1)
			go func(i int, c expCase) {
				defer wg.Done()
				results[i] = vf.Safe("panic", func() []vf.Finding { return runExpiry(c, &late) })
			}(i, c)
		}
		wg.Wait()
	}
	vf.Enum(s, func(yield func(expCase)) {
		for _, c := range cases {
			yield(c)
		}
	}, func(c expCase) []vf.Finding {
		if i, ok := index[c]; ok {
			return results[i]
		}
		return runExpiry(c, &late)
	}, func(c expCase) bool { return c.Op != "none" })
	s.Count("late:window-missed-not-judged", int64(late))
	s.Note("TTL %v; %d cases, each on a table of its own", expTTL, len(cases))
}
